(* Vocabulary of the source tie of core inner (harness/props/C02_coretie.py): Python slices with a possibly negative bound, the sum
   of all entries, reshape to two axes one of which is -1; with the lemmas the generated proof uses.  Universal statements. *)
From Coq Require Import List Arith ZArith Lia Bool.
From TLV Require Import Base.Shape Base.PyList Base.Tensor Base.BigSum Model.Base Proofs.BaseProofs Model.Tenalg Model.TenalgRaw
  Proofs.TenalgProofsInner Proofs.TenalgProofsSrc Proofs.TenalgProofsBcast.
Import ListNotations.

(* where the bound z of l[z:] / l[:z] falls in a list of length len: a negative bound counts from the end, clipped at 0
   (a bound beyond the end needs no clipping: skipn / firstn saturate) *)
Definition py_clip (len : nat) (z : Z) : nat :=
  if (z <? 0)%Z then Z.to_nat (Z.max 0 (Z.of_nat len + z)) else Z.to_nat z.
Definition py_slice_from {A} (l : list A) (z : Z) : list A := skipn (py_clip (length l) z) l.
Definition py_slice_to {A} (l : list A) (z : Z) : list A := firstn (py_clip (length l) z) l.

Lemma py_clip_inner L n : py_clip L (Z.of_nat L - Z.of_nat n) = inner_cut L n.
Proof.
  unfold py_clip, inner_cut. destruct (n <=? L) eqn:E.
  - apply Nat.leb_le in E. destruct (Z.ltb_spec (Z.of_nat L - Z.of_nat n) 0); lia.
  - apply Nat.leb_gt in E. destruct (Z.ltb_spec (Z.of_nat L - Z.of_nat n) 0); lia.
Qed.
Lemma py_clip_nat L n : py_clip L (Z.of_nat n) = n.
Proof. unfold py_clip. destruct (Z.ltb_spec (Z.of_nat n) 0); lia. Qed.

Section P.
Context {F : Type} (Op : rops F).
Notation d := (r0 Op).

(* T.sum(x): a 0-d array holding the sum of all entries *)
Definition np_sum_all (x : tensor F) : tensor F := mk [] [ssum Op (shape x) (fun idx => get d x idx)].

Lemma bcast_shape_same s : bcast_shape s s = Some s.
Proof. induction s as [|a s IH]; simpl; [reflexivity|]. now rewrite IH, Nat.eqb_refl. Qed.

(* T.sum(tensor1 * tensor2) for operands of the same shape is the model's traditional inner product *)
Lemma sum_of_product_same_shape (A B : tensor F) : shape A = shape B ->
  rbind (bcast_mul Op A B) (fun P => Ok (np_sum_all P)) = Ok (mk [] [ssum Op (shape A) (fun idx => rmul Op (get d A idx) (get d B idx))]).
Proof.
  intros H. unfold bcast_mul. rewrite <- H, bcast_shape_same. cbn [rbind]. unfold np_sum_all. cbn [shape tabulate]. f_equal. f_equal. f_equal.
  unfold ssum. apply sum_idx_ext. intros idx Hi. rewrite get_tabulate by exact Hi. now rewrite (clamp_inb _ _ Hi).
Qed.

(* the shape reshape(x, (-1, c)) / reshape(x, (c, -1)) has when it succeeds *)
Lemma reshape_spec_none_some (x y : tensor F) c : reshape_spec [None; Some c] x = Ok y -> exists r, shape y = [r; c].
Proof.
  unfold reshape_spec, infer_shape. cbn [count_none filter length known fold_right rbind].
  destruct (Nat.eqb _ 0); [discriminate|]. destruct (Nat.eqb _ 0); [|discriminate].
  cbn. intros H; injection H as <-. eexists; reflexivity.
Qed.
Lemma reshape_spec_some_none (x y : tensor F) c : reshape_spec [Some c; None] x = Ok y -> exists r, shape y = [c; r].
Proof.
  unfold reshape_spec, infer_shape. cbn [count_none filter length known fold_right rbind].
  destruct (Nat.eqb _ 0); [discriminate|]. destruct (Nat.eqb _ 0); [|discriminate].
  cbn. intros H; injection H as <-. eexists; reflexivity.
Qed.
(* T.dot of the two reshaped operands never raises: the inner dimensions are both the common size *)
Lemma np_dot_reshaped (A B A2 B2 : tensor F) c :
  reshape_spec [None; Some c] A = Ok A2 -> reshape_spec [Some c; None] B = Ok B2 -> np_dot Op A2 B2 = Ok (matmul Op A2 B2).
Proof.
  intros HA HB. destruct (reshape_spec_none_some _ _ _ HA) as [r Ha]. destruct (reshape_spec_some_none _ _ _ HB) as [r' Hb].
  unfold np_dot, nrows. rewrite Ha, Hb. cbn [nth]. now rewrite Nat.eqb_refl.
Qed.
End P.
