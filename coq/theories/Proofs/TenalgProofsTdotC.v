(* Batched tensordot, core backend (transpose / reshape / stacked matmul / reshape / final transpose): the same index
   formula as the einsum backend (TenalgProofsTdotE.v) for arbitrary contracted and batched mode pairs, hence the two
   backends return the same tensor. *)
From Coq Require Import List Arith ZArith Lia Ring Bool Permutation.
From TLV Require Import Base.Shape Base.PyList Base.Tensor Base.BigSum Model.Base Proofs.BaseProofs Model.Tenalg
  Proofs.TenalgProofs Proofs.TenalgProofsEinsum Proofs.TenalgProofsInner Proofs.TenalgProofsEinsumInner
  Proofs.TenalgProofsSort Proofs.TenalgProofsMultiGen Proofs.TenalgProofsMultiGen2 Proofs.TenalgProofsMemory Proofs.TenalgProofsTdotE.
Import ListNotations.

(* ---------------------------------------------------------------- list facts *)
Lemma gins_Permutation {A} (key : A -> nat) x : forall l, Permutation (gins key x l) (x :: l).
Proof.
  induction l as [|y r IH]; cbn [gins]; [apply Permutation_refl|].
  destruct (key x <=? key y); [apply Permutation_refl|].
  eapply Permutation_trans; [apply perm_skip; exact IH | apply perm_swap].
Qed.
Lemma gsort_Permutation {A} (key : A -> nat) : forall l, Permutation (gsort key l) l.
Proof.
  induction l as [|x l IH]; [apply Permutation_refl|]. cbn [gsort fold_right]. fold (gsort key l).
  eapply Permutation_trans; [apply gins_Permutation | now apply perm_skip].
Qed.

Lemma permute_seq_id (s : list nat) : permute 0 (seq 0 (length s)) s = s.
Proof.
  unfold permute. apply nth_ext with (d := 0) (d' := 0); [now rewrite map_length, seq_length|].
  intros j Hj. rewrite map_length, seq_length in Hj. rewrite (nth_map' _ _ _ 0) by (now rewrite seq_length).
  now rewrite seq_nth.
Qed.
Lemma permute_app p q (s : list nat) : permute 0 (p ++ q) s = permute 0 p s ++ permute 0 q s.
Proof. unfold permute. apply map_app. Qed.
Lemma permute_length p (s : list nat) : length (permute 0 p s) = length p.
Proof. unfold permute. apply map_length. Qed.
Lemma is_permb_of_perm n p : Permutation p (seq 0 n) -> is_permb n p = true.
Proof.
  intros HP. unfold is_permb. rewrite !andb_true_iff. repeat split.
  - apply Nat.eqb_eq. rewrite (Permutation_length HP). apply seq_length.
  - apply forallb_forall. intros k Hk. apply Nat.ltb_lt. apply (Permutation_in _ HP) in Hk. apply in_seq in Hk. lia.
  - apply nodupb_NoDup. apply (Permutation_NoDup (Permutation_sym HP)). apply seq_NoDup.
Qed.
Lemma sel_in_permute ms (s : list nat) : sel_in ms s = permute 0 (filter (fun i => memb i ms) (seq 0 (length s))) s.
Proof.
  unfold sel_in, permute. rewrite (map_snd_filter_enum (fun i => memb i ms) s 0).
  apply map_ext. intros j. now rewrite Nat.sub_0_r.
Qed.

(* a duplicate-free increasing list inside [a, a + n) is the filter of the range by membership *)
Lemma sorted_filter_seq : forall n a (l : list nat), NoDup l -> lsorted (fun x => x) l -> (forall x, In x l -> a <= x < a + n) ->
  filter (fun i => memb i l) (seq a n) = l.
Proof.
  induction n as [|n IH]; intros a l Hnd Hs Hr.
  - destruct l as [|x l]; [reflexivity|]. specialize (Hr x (or_introl eq_refl)). lia.
  - cbn [seq filter]. destruct (memb a l) eqn:E.
    + apply memb_In in E. destruct l as [|x l]; [destruct E|].
      destruct Hs as [Hx Hs]. inversion Hnd as [|? ? Hnin Hnd']; subst.
      assert (x = a).
      { destruct E as [E|E]; [exact E|]. specialize (Hx a E). specialize (Hr x (or_introl eq_refl)). lia. }
      subst x. f_equal.
      rewrite (filter_ext_in (fun i => memb i (a :: l)) (fun i => memb i l)).
      * apply IH; [exact Hnd' | exact Hs|]. intros y Hy. specialize (Hr y (or_intror Hy)).
        assert (y <> a) by (intros ->; contradiction). lia.
      * intros i Hi. apply in_seq in Hi. cbn [memb]. destruct (Nat.eqb_spec a i); [lia | reflexivity].
    + apply IH; [exact Hnd | exact Hs|]. intros y Hy. specialize (Hr y Hy).
      assert (y <> a) by (intros ->; apply memb_In in Hy; congruence). lia.
Qed.

(* position in a filtered range = number of kept elements below *)
Lemma index_of_filter_seq (P : nat -> bool) : forall n a i, a <= i < a + n -> P i = true ->
  index_of i (filter P (seq a n)) = length (filter P (seq a (i - a))).
Proof.
  induction n as [|n IH]; intros a i Hi HP; [lia|]. cbn [seq filter].
  destruct (Nat.eq_dec i a) as [->|Hne].
  - rewrite HP, Nat.sub_diag. cbn [index_of]. now rewrite Nat.eqb_refl.
  - replace (i - a) with (S (i - S a)) by lia. cbn [seq filter]. destruct (P a).
    + cbn [index_of length]. destruct (Nat.eqb_spec a i); [lia|]. f_equal. apply IH; [lia | exact HP].
    + apply IH; [lia | exact HP].
Qed.
Lemma filter_seq_snoc (P : nat -> bool) a n : filter P (seq a (S n)) = filter P (seq a n) ++ (if P (a + n) then [a + n] else []).
Proof. rewrite seq_S, filter_app. cbn [filter]. now destruct (P (a + n)). Qed.

(* the final_modes loop of core tensordot, in closed form *)
Lemma final_modes_closed m1 b1 nb : forall n a,
  final_modes_loop (seq a n) m1 b1 nb (length (filter (fun i => memb i b1 && negb (memb i m1)) (seq 0 a)))
                   (length (filter (fun i => negb (memb i b1) && negb (memb i m1)) (seq 0 a)))
  = map (fun i => if memb i b1 then length (filter (fun i => memb i b1 && negb (memb i m1)) (seq 0 i))
                  else length (filter (fun i => negb (memb i b1) && negb (memb i m1)) (seq 0 i)) + nb)
        (filter (fun i => negb (memb i m1)) (seq a n)).
Proof.
  induction n as [|n IH]; intros a; [reflexivity|]. cbn [seq final_modes_loop filter].
  specialize (IH (S a)). rewrite !(filter_seq_snoc _ 0 a) in IH. cbn [Nat.add] in IH.
  destruct (memb a m1) eqn:Em; cbn [negb] in *.
  - rewrite !andb_false_r in IH. rewrite !app_nil_r in IH. exact IH.
  - rewrite !andb_true_r in IH. cbn [map]. destruct (memb a b1) eqn:Eb; cbn [negb] in *.
    + rewrite app_nil_r, app_length in IH. cbn [length] in IH. rewrite Nat.add_1_r in IH. f_equal; try exact IH; try reflexivity.
    + rewrite app_nil_r, app_length in IH. cbn [length] in IH. rewrite Nat.add_1_r in IH. f_equal; try exact IH; try apply Nat.add_comm; try reflexivity.
Qed.

(* pairs with distinct second components: looking a pair up by its second component *)
Lemma pair_lookup : forall (l : list (nat * nat)) a j, NoDup (map snd l) -> In (a, j) l ->
  nth (index_of j (map snd l)) (map fst l) 0 = a.
Proof.
  induction l as [|[a' j'] l IH]; intros a j Hnd Hin; [destruct Hin|]. cbn [map fst snd index_of] in *.
  inversion Hnd as [|? ? Hnin Hnd']; subst. destruct Hin as [E|Hin].
  - injection E as -> ->. now rewrite Nat.eqb_refl.
  - destruct (Nat.eqb_spec j' j) as [->|Hne]; [exfalso; apply Hnin; apply in_map_iff; exists (a, j); auto|].
    cbn [nth]. now apply IH.
Qed.
Lemma pair_lookup_perm (l l' : list (nat * nat)) j : Permutation l l' -> NoDup (map snd l) -> In j (map snd l) ->
  nth (index_of j (map snd l')) (map fst l') 0 = nth (index_of j (map snd l)) (map fst l) 0.
Proof.
  intros HP Hnd Hin. apply in_map_iff in Hin. destruct Hin as [[a j'] [E Hin]]. cbn [snd] in E. subst j'.
  rewrite (pair_lookup l a j Hnd Hin). apply pair_lookup; [|now apply (Permutation_in _ HP)].
  apply (Permutation_NoDup (l := map snd l)); [now apply Permutation_map | exact Hnd].
Qed.

Lemma ravel_flatten pre a c i x y : length i = length pre -> length x = length a -> inb c y ->
  ravel (pre ++ [prod a; prod c]) (i ++ [ravel a x; ravel c y]) = ravel (pre ++ a ++ c) (i ++ x ++ y).
Proof.
  intros Hi Hx Hy. rewrite !ravel_app by assumption. rewrite ravel2. rewrite !prod_app.
  cbn [prod fold_right]. fold (prod a) (prod c). lia.
Qed.

Lemma map_fst_combine' {X Y} : forall (a : list X) (b : list Y), length a = length b -> map fst (combine a b) = a.
Proof. induction a; intros [|y b] H; simpl in *; try discriminate; auto. f_equal. apply IHa. lia. Qed.
Lemma memb_app a p q : memb a (p ++ q) = memb a p || memb a q.
Proof. induction p as [|x p IH]; [reflexivity|]. cbn [app memb]. destruct (Nat.eqb x a); [reflexivity | exact IH]. Qed.
Lemma not_in_free1 ms n : not_in ms n = free1 ms n.
Proof. reflexivity. Qed.
Lemma not_in_comm x y n : not_in (x ++ y) n = not_in (y ++ x) n.
Proof. unfold not_in. apply filter_ext. intros i. rewrite !memb_app. now rewrite orb_comm. Qed.

Lemma cm_perm m1 n : NoDup m1 -> (forall i, In i m1 -> i < n) -> Permutation (filter (fun i => memb i m1) (seq 0 n)) m1.
Proof.
  intros Hnd Hr. apply NoDup_Permutation; [apply NoDup_filter, seq_NoDup | exact Hnd|]. intros x. rewrite filter_In, in_seq, memb_In.
  split; [tauto|]. intros Hx. split; [|exact Hx]. split; [lia | now apply Hr].
Qed.

(* x, y disjoint sets of modes below n, z the remaining modes: every arrangement of the three blocks is a permutation of range(n) *)
Lemma cover3 x y n : NoDup (x ++ y) -> (forall i, In i (x ++ y) -> i < n) ->
  Permutation (x ++ y ++ not_in (x ++ y) n) (seq 0 n) /\ Permutation (x ++ not_in (x ++ y) n ++ y) (seq 0 n).
Proof.
  intros Hnd Hr. set (z := not_in (x ++ y) n).
  assert (H1 : Permutation (x ++ y ++ z) (seq 0 n)).
  { rewrite app_assoc. apply NoDup_Permutation; [|apply seq_NoDup|].
    - apply NoDup_app_intro; [exact Hnd | apply NoDup_free1|]. intros i Hi Hz. apply In_free1 in Hz. tauto.
    - intros i. rewrite in_seq. split.
      + intros Hi. apply in_app_or in Hi. destruct Hi as [Hi|Hi]; [apply Hr in Hi; lia | apply In_free1 in Hi; lia].
      + intros Hi. apply in_or_app. destruct (in_dec Nat.eq_dec i (x ++ y)) as [Hin|Hn]; [now left | right].
        apply In_free1. split; [lia | exact Hn]. }
  split; [exact H1|]. eapply Permutation_trans; [|exact H1]. apply Permutation_app_head. apply Permutation_app_comm.
Qed.

Lemma map_index_of_self : forall l, NoDup l -> map (fun x => index_of x l) l = seq 0 (length l).
Proof.
  intros l Hnd. apply nth_ext with (d := 0) (d' := 0); [now rewrite map_length, seq_length|].
  intros j Hj. rewrite map_length in Hj. rewrite (nth_map' _ _ _ 0) by exact Hj. rewrite seq_nth by exact Hj.
  now apply index_of_nth.
Qed.
Lemma index_of_map_inj (g : nat -> nat) i : forall l, (forall x, In x l -> g x = g i -> x = i) ->
  index_of (g i) (map g l) = index_of i l.
Proof.
  induction l as [|x l IH]; intros H; [reflexivity|]. cbn [map index_of].
  destruct (Nat.eqb_spec (g x) (g i)) as [E|E].
  - rewrite (H x (or_introl eq_refl) E). now rewrite Nat.eqb_refl.
  - destruct (Nat.eqb_spec x i) as [->|Hne]; [congruence|]. f_equal. apply IH. intros y Hy. apply H. now right.
Qed.
Lemma index_of_seq a n k : k < n -> index_of (a + k) (seq a n) = k.
Proof.
  revert a k. induction n as [|n IH]; intros a k Hk; [lia|]. cbn [seq index_of].
  destruct k as [|k]; [rewrite Nat.add_0_r, Nat.eqb_refl; reflexivity|].
  destruct (Nat.eqb_spec a (a + S k)); [lia|]. f_equal. replace (a + S k) with (S a + k) by lia. apply IH. lia.
Qed.
Lemma inb_nth : forall s idx, inb s idx <-> (length idx = length s /\ forall k, k < length s -> nth k idx 0 < nth k s 0).
Proof.
  induction s as [|x s IH]; intros [|i idx]; cbn [inb length]; try (split; [tauto | intros [H _]; discriminate]).
  - split; [intros _; split; [reflexivity | intros k Hk; lia] | tauto].
  - rewrite IH. split.
    + intros [Hi [Hl Hk]]. split; [now f_equal|]. intros [|k] Hlt; cbn [nth]; [exact Hi | apply Hk; lia].
    + intros [Hl Hk]. split; [apply (Hk 0); lia|]. split; [now injection Hl|]. intros k Hlt. apply (Hk (S k)). lia.
Qed.
Lemma prod_permute_perm p n (s : list nat) : n = length s -> Permutation p (seq 0 n) -> prod (permute 0 p s) = prod s.
Proof.
  intros -> HP. rewrite <- (permute_seq_id s) at 2. apply prod_perm. unfold permute. now apply Permutation_map.
Qed.

Lemma td_ok_split s1 s2 m1 m2 b1 b2 : td_ok s1 s2 m1 m2 b1 b2 ->
  (forall k, k < length m1 -> nth (nth k m1 0) s1 0 = nth (nth k m2 0) s2 0) /\
  (forall k, k < length b1 -> nth (nth k b1 0) s1 0 = nth (nth k b2 0) s2 0).
Proof.
  intros (Hlm & Hlb & Hnd1 & Hnd2 & Hr1 & Hr2 & Hsz). split.
  - intros k Hk. specialize (Hsz k). rewrite !app_nth1 in Hsz by lia. apply Hsz. rewrite app_length. lia.
  - intros k Hk. specialize (Hsz (length m1 + k)). rewrite app_nth2 in Hsz by lia. rewrite (app_nth2 m2) in Hsz by lia.
    replace (length m1 + k - length m1) with k in Hsz by lia. replace (length m1 + k - length m2) with k in Hsz by lia.
    apply Hsz. rewrite app_length. lia.
Qed.
Lemma permute_pairwise (p q s t : list nat) : length p = length q ->
  (forall k, k < length p -> nth (nth k p 0) s 0 = nth (nth k q 0) t 0) -> permute 0 q t = permute 0 p s.
Proof.
  intros Hl H. unfold permute. apply nth_ext with (d := 0) (d' := 0); [rewrite !map_length; lia|].
  intros k Hk. rewrite map_length in Hk. rewrite !(nth_map' _ _ _ 0) by lia. symmetry. apply H. lia.
Qed.

Section P.
Context {F : Type} (Op : rops F).
Hypothesis Rth : ring_theory (r0 Op) (r1 Op) (radd Op) (rmul Op) (rsub Op) (ropp Op) (@eq F).
Add Ring Fr22 : Rth.
Notation d := (r0 Op).
Infix "*r" := (rmul Op) (at level 40, left associativity).

Lemma get_bmatmul nb (A2 B2 : tensor F) bs p c q b i k :
  shape A2 = bs ++ [p; c] -> shape B2 = bs ++ [c; q] -> length bs = nb -> inb bs b -> i < p -> k < q ->
  get d (bmatmul Op nb A2 B2) (b ++ [i; k]) = bsum Op c (fun x => get d A2 (b ++ [i; x]) *r get d B2 (b ++ [x; k])).
Proof.
  intros HsA HsB Hnb Hb Hi Hk. assert (Hlb : length b = nb) by (rewrite (inb_length _ _ Hb); exact Hnb).
  unfold bmatmul. rewrite HsA, HsB.
  rewrite (firstn_app_len' nb bs) by (now symmetry).
  assert (E1 : nth nb (bs ++ [p; c]) 0 = p) by (rewrite <- Hnb; apply nth_app_len).
  assert (E2 : nth (S nb) (bs ++ [p; c]) 0 = c) by (rewrite app_nth2 by lia; replace (S nb - length bs) with 1 by lia; reflexivity).
  assert (E3 : nth (S nb) (bs ++ [c; q]) 0 = q) by (rewrite app_nth2 by lia; replace (S nb - length bs) with 1 by lia; reflexivity).
  rewrite E1, E2, E3. rewrite get_tabulate by (apply inb_app; [exact Hb | cbn [inb]; tauto]).
  rewrite (firstn_app_len' nb b) by (now symmetry).
  assert (E4 : nth nb (b ++ [i; k]) 0 = i) by (rewrite <- Hlb; apply nth_app_len).
  assert (E5 : nth (S nb) (b ++ [i; k]) 0 = k) by (rewrite app_nth2 by lia; replace (S nb - length b) with 1 by lia; reflexivity).
  now rewrite E4, E5.
Qed.


(* batch modes of tensor1 already listed in increasing order (what the code's sort establishes) *)
Lemma tensordot_core_sorted (A B : tensor F) (m1 m2 b1 b2 : list nat) :
  wf A -> wf B -> 0 < prod (shape A) -> 0 < prod (shape B) ->
  td_ok (shape A) (shape B) m1 m2 b1 b2 ->
  sort_pairs (combine b1 b2) = combine b1 b2 ->
  filter (fun i => memb i b1) (seq 0 (ndim A)) = b1 ->
  exists R, tensordot Op A B m1 m2 b1 b2 = Ok R /\ wf R /\ shape R = td_shape m1 m2 b2 (shape A) (shape B) /\
    forall o, inb (shape R) o ->
      get d R o = ssum Op (permute 0 m1 (shape A))
                    (fun c => get d A (td_ia m1 (ndim A) c o) *r get d B (td_ib m1 m2 b1 b2 (ndim A) (ndim B) c o)).
Proof.
  intros WA WB HpA HpB Hok Hsort HB1.
  destruct (td_ok_validate _ _ _ _ _ _ Hok) as [Hv1 Hv2]. destruct (td_ok_split _ _ _ _ _ _ Hok) as [Hszm Hszb].
  destruct Hok as (Hlm & Hlb & Hnd1 & Hnd2 & Hr1 & Hr2 & _).
  unfold ndim in *. set (s1 := shape A) in *. set (s2 := shape B) in *. set (n1 := length s1) in *. set (n2 := length s2) in *.
  destruct (NoDup_app_inv _ _ Hnd1) as [HNDm1 [HNDb1 Hm1b1]]. destruct (NoDup_app_inv _ _ Hnd2) as [HNDm2 [HNDb2 Hm2b2]].
  set (N1 := not_in (b1 ++ m1) n1). set (N2 := not_in (b2 ++ m2) n2).
  set (F1 := free1 m1 n1). set (F2 := free2 m2 b2 n2).
  assert (HN2 : N2 = F2) by (unfold N2, F2, free2; apply not_in_comm).
  assert (Hnd1' : NoDup (b1 ++ m1)) by (apply (Permutation_NoDup (Permutation_app_comm m1 b1)); exact Hnd1).
  assert (Hnd2' : NoDup (b2 ++ m2)) by (apply (Permutation_NoDup (Permutation_app_comm m2 b2)); exact Hnd2).
  assert (Hr1' : forall i, In i (b1 ++ m1) -> i < n1).
  { intros i Hi. apply Hr1. apply in_app_or in Hi. apply in_or_app. tauto. }
  assert (Hr2' : forall i, In i (b2 ++ m2) -> i < n2).
  { intros i Hi. apply Hr2. apply in_app_or in Hi. apply in_or_app. tauto. }
  destruct (cover3 b1 m1 n1 Hnd1' Hr1') as [_ HP1]. destruct (cover3 b2 m2 n2 Hnd2' Hr2') as [HP2 _].
  fold N1 in HP1. fold N2 in HP2.
  set (p1 := b1 ++ N1 ++ m1) in *. set (p2 := b2 ++ m2 ++ N2) in *.
  set (bs := permute 0 b1 s1). set (ns1 := permute 0 N1 s1). set (cs := permute 0 m1 s1). set (ns2 := permute 0 N2 s2).
  assert (Hbs2 : permute 0 b2 s2 = bs) by (apply permute_pairwise; assumption).
  assert (Hcs2 : permute 0 m2 s2 = cs) by (apply permute_pairwise; assumption).
  assert (Hbshape : sel_in b1 s1 = bs) by (rewrite sel_in_permute; fold n1; rewrite HB1; reflexivity).
  assert (Hcdim : prod (sel_in m1 s1) = prod cs).
  { rewrite sel_in_permute. fold n1. apply prod_perm. unfold permute. apply Permutation_map. apply cm_perm; [exact HNDm1|].
    intros i Hi. apply Hr1. apply in_or_app. now left. }
  assert (Hsh1 : permute 0 p1 s1 = bs ++ ns1 ++ cs) by (unfold p1; rewrite !permute_app; reflexivity).
  assert (Hsh2 : permute 0 p2 s2 = bs ++ cs ++ ns2) by (unfold p2; rewrite !permute_app, Hbs2, Hcs2; reflexivity).
  assert (Hprod1 : prod bs * (prod ns1 * prod cs) = prod s1).
  { rewrite <- (prod_permute_perm p1 n1 s1 eq_refl HP1), Hsh1, !prod_app. reflexivity. }
  assert (Hprod2 : prod bs * (prod cs * prod ns2) = prod s2).
  { rewrite <- (prod_permute_perm p2 n2 s2 eq_refl HP2), Hsh2, !prod_app. reflexivity. }
  assert (Hpb : 0 < prod bs) by nia. assert (Hpn1 : 0 < prod ns1) by nia. assert (Hpc : 0 < prod cs) by nia.
  assert (Hpn2 : 0 < prod ns2) by nia.
  (* the two reshaped operands *)
  set (A1 := transpose d p1 A). set (B1 := transpose d p2 B).
  assert (HsA1 : shape A1 = bs ++ ns1 ++ cs) by exact Hsh1.
  assert (HsB1 : shape B1 = bs ++ cs ++ ns2) by exact Hsh2.
  set (A2 := reshape (bs ++ [prod ns1; prod cs]) A1). set (B2 := reshape (bs ++ [prod cs; prod ns2]) B1).
  assert (HA2 : reshape_spec (map Some bs ++ [None; Some (prod cs)]) A1 = Ok A2).
  { change [None; Some (prod cs)] with ([None] ++ map Some [prod cs]).
    assert (Hk : prod bs * prod [prod cs] = prod bs * prod cs) by (cbn [prod fold_right]; lia).
    assert (HpA1 : prod (shape A1) = prod ns1 * (prod bs * prod cs)) by (rewrite HsA1, !prod_app; lia).
    rewrite reshape_spec_one_none; rewrite ?Hk, ?HpA1; try nia.
    - unfold A2. rewrite Nat.div_mul by nia. reflexivity.
    - apply Nat.mod_mul. nia. }
  assert (HB2 : reshape_spec (map Some bs ++ [Some (prod cs); None]) B1 = Ok B2).
  { change (map Some bs ++ [Some (prod cs); None]) with (map Some bs ++ map Some [prod cs] ++ [None] ++ map Some []).
    rewrite app_assoc, <- map_app.
    assert (Hk : prod (bs ++ [prod cs]) * prod [] = prod bs * prod cs) by (rewrite prod_app; cbn [prod fold_right]; lia).
    assert (HpB1 : prod (shape B1) = prod ns2 * (prod bs * prod cs)) by (rewrite HsB1, !prod_app; lia).
    rewrite reshape_spec_one_none; rewrite ?Hk, ?HpB1; try nia.
    - unfold B2. rewrite Nat.div_mul by nia. rewrite app_nil_r, <- app_assoc. reflexivity.
    - apply Nat.mod_mul. nia. }
  set (nb := length bs).
  set (X := bmatmul Op nb A2 B2).
  assert (HsX : shape X = bs ++ [prod ns1; prod ns2]).
  { unfold X, bmatmul, A2, B2, reshape. cbn [shape]. rewrite (firstn_app_len' nb bs) by reflexivity.
    assert (E1 : nth nb (bs ++ [prod ns1; prod cs]) 0 = prod ns1) by (unfold nb; apply nth_app_len).
    assert (E3 : nth (S nb) (bs ++ [prod cs; prod ns2]) 0 = prod ns2).
    { rewrite app_nth2 by (unfold nb; lia). replace (S nb - length bs) with 1 by (unfold nb; lia). reflexivity. }
    rewrite E1, E3. reflexivity. }
  assert (WX : wf X) by apply wf_tabulate.
  set (R0 := reshape (bs ++ ns1 ++ ns2) X).
  assert (HR0 : reshape_spec (map Some (bs ++ ns1 ++ ns2)) X = Ok R0).
  { apply reshape_spec_all_some. rewrite HsX, !prod_app. cbn [prod fold_right]. lia. }
  assert (WR0 : wf R0) by (apply wf_reshape; [exact WX | rewrite HsX, !prod_app; cbn [prod fold_right]; lia]).
  (* the final permutation *)
  set (Q := b1 ++ N1). set (K := length Q).
  assert (HNDN1 : NoDup N1) by apply NoDup_free1.
  assert (HN1 : forall i, In i N1 <-> i < n1 /\ ~ In i (b1 ++ m1)) by (intros i; apply In_free1).
  assert (HNDQ : NoDup Q).
  { apply NoDup_app_intro; [exact HNDb1 | exact HNDN1|]. intros i Hi Hn. apply HN1 in Hn. apply (proj2 Hn). apply in_or_app. now left. }
  assert (HQ : forall i, In i Q <-> In i F1).
  { intros i. unfold Q, F1. rewrite In_free1, in_app_iff, HN1, in_app_iff. split.
    - intros [Hi|[Hi Hn]]; [|tauto]. split; [apply Hr1; apply in_or_app; now right | intros Hm; exact (Hm1b1 _ Hm Hi)].
    - intros [Hi Hn]. destruct (in_dec Nat.eq_dec i b1); tauto. }
  assert (HPF : Permutation F1 Q).
  { apply NoDup_Permutation; [apply NoDup_free1 | exact HNDQ|]. intros i. symmetry. apply HQ. }
  set (g := fun i => index_of i Q).
  assert (Hfinal0 : final_modes_loop (seq 0 n1) m1 b1 (length b1) 0 0 = map g F1).
  { pose proof (final_modes_closed m1 b1 (length b1) n1 0) as Hc. cbn [seq filter length] in Hc. rewrite Hc.
    unfold F1, free1. apply map_ext_in. intros i Hi. apply filter_In in Hi. destruct Hi as [Hi Hnm]. apply in_seq in Hi.
    apply negb_true_iff in Hnm. unfold g, Q. destruct (memb i b1) eqn:Eb.
    - apply memb_In in Eb. rewrite index_of_app_in by exact Eb.
      replace (index_of i b1) with (index_of i (filter (fun i => memb i b1) (seq 0 n1))) by (now rewrite HB1).
      rewrite index_of_filter_seq by (try lia; now apply memb_In). rewrite Nat.sub_0_r. f_equal. apply filter_ext_in.
      intros x Hx. destruct (memb x b1) eqn:Ex; [|reflexivity]. cbn [andb]. apply memb_In in Ex.
      destruct (memb x m1) eqn:Em; [|reflexivity]. apply memb_In in Em. exfalso. exact (Hm1b1 _ Em Ex).
    - assert (Hnb : ~ In i b1) by (now apply memb_false). rewrite index_of_app_notin by exact Hnb. rewrite Nat.add_comm. f_equal.
      unfold N1, not_in. rewrite index_of_filter_seq; [| lia | rewrite memb_app, Eb, Hnm; reflexivity].
      rewrite Nat.sub_0_r. f_equal. apply filter_ext. intros x. rewrite memb_app. now rewrite negb_orb. }
  assert (Hg_img : Permutation (map g F1) (seq 0 K)).
  { unfold K. rewrite <- (map_index_of_self Q HNDQ). now apply Permutation_map. }
  assert (HlenR0 : ndim R0 = K + length N2).
  { unfold ndim, R0, reshape. cbn [shape]. rewrite !app_length. unfold bs, ns1, ns2, K, Q. rewrite !permute_length, app_length. lia. }
  set (final := map g F1 ++ seq K (length N2)).
  assert (Hfinal : map g F1 ++ filter (fun i => negb (memb i (map g F1))) (seq 0 (ndim R0)) = final).
  { unfold final. f_equal. rewrite HlenR0, seq_app, filter_app. cbn [Nat.add].
    rewrite (filter_seq_none _ K 0), (filter_seq_all _ (length N2) K); [reflexivity | |].
    - intros l Hl. apply negb_true_iff. apply memb_false. intros Hin. apply (Permutation_in _ Hg_img) in Hin. apply in_seq in Hin. lia.
    - intros l Hl. apply negb_false_iff. apply memb_In. apply (Permutation_in _ (Permutation_sym Hg_img)). apply in_seq. lia. }
  assert (HPfinal : Permutation final (seq 0 (ndim R0))).
  { rewrite HlenR0, seq_app. unfold final. apply Permutation_app; [exact Hg_img | apply Permutation_refl]. }
  (* the result of the code *)
  assert (HQs : bs ++ ns1 = permute 0 Q s1) by (unfold Q; now rewrite permute_app).
  assert (Hg_lt : forall i, In i F1 -> g i < K) by (intros i Hi; unfold g, K; apply index_of_lt; now apply HQ).
  assert (Hshape_fin : permute 0 final (bs ++ ns1 ++ ns2) = td_shape m1 m2 b2 s1 s2).
  { unfold final, td_shape. fold n1 n2 F1 F2. rewrite permute_app. rewrite app_assoc, HQs. f_equal.
    - unfold permute. rewrite map_map. apply map_ext_in. intros i Hi.
      rewrite app_nth1 by (rewrite map_length; now apply Hg_lt). rewrite (nth_map' _ _ _ 0) by (now apply Hg_lt).
      unfold g. rewrite nth_index_of by (now apply HQ). reflexivity.
    - rewrite <- HN2. unfold permute at 1. apply nth_ext with (d := 0) (d' := 0); [now rewrite map_length, seq_length, permute_length|].
      intros r Hr. rewrite map_length, seq_length in Hr. rewrite (nth_map' _ _ _ 0) by (now rewrite seq_length).
      rewrite seq_nth by exact Hr. rewrite app_nth2 by (rewrite permute_length; fold K; lia). rewrite permute_length. fold K.
      replace (K + r - K) with r by lia. reflexivity. }
  assert (Hres : exists R, tensordot Op A B m1 m2 b1 b2 = Ok R /\ wf R /\ shape R = permute 0 final (shape R0) /\
                   forall o, inb (shape R) o -> get d R o = get d R0 (scatter final o)).
  { assert (Hcode : tensordot Op A B m1 m2 b1 b2 =
       match final with [] => Ok R0 | _ => if is_permb (ndim R0) final then Ok (transpose d final R0) else Err end).
    { unfold tensordot. cbv zeta. fold s1 s2. rewrite Hv1, Hv2. cbn [andb]. rewrite Hsort.
      rewrite (map_fst_combine' b1 b2), (map_snd_combine_eq b1 b2) by exact Hlb. fold n1 n2. fold N1 N2. fold p1 p2.
      rewrite (is_permb_of_perm n1 p1 HP1), (is_permb_of_perm n2 p2 HP2). cbn [andb].
      rewrite Hbshape, Hcdim. fold A1 B1. rewrite HA2. cbn [rbind]. rewrite HB2. cbn [rbind]. fold nb. fold X.
      fold ns1 ns2. rewrite HR0. cbn [rbind]. rewrite Hfinal0, Hfinal. reflexivity. }
    rewrite Hcode. destruct final as [|f0 fr] eqn:Efin.
    - exists R0. split; [reflexivity|]. split; [exact WR0|].
      assert (Hnil : shape R0 = []).
      { apply length_zero_iff_nil. apply Permutation_length in HPfinal. rewrite seq_length in HPfinal. unfold ndim in HPfinal. cbn [length] in HPfinal. lia. }
      split; [rewrite Hnil; reflexivity|]. intros o Ho. rewrite Hnil in Ho. destruct o; [reflexivity | destruct Ho].
    - rewrite <- Efin in *. rewrite (is_permb_of_perm _ _ HPfinal).
      exists (transpose d final R0). split; [destruct final; [discriminate Efin | reflexivity]|]. split; [apply wf_transpose|]. split; [reflexivity|].
      intros o Ho. unfold transpose. now rewrite get_tabulate by exact Ho. }
  destruct Hres as [R [HRc [WR [HsR HgR]]]]. exists R.
  assert (HsR' : shape R = td_shape m1 m2 b2 s1 s2) by (rewrite HsR; exact Hshape_fin).
  split; [exact HRc|]. split; [exact WR|]. split; [exact HsR'|].
  intros o Ho. rewrite HgR by exact Ho. rewrite HsR' in Ho.
  assert (HlF1 : length F1 = K) by (unfold K; now apply Permutation_length).
  apply inb_nth in Ho. destruct Ho as [Hlo Hob]. unfold td_shape in Hlo, Hob. fold n1 n2 F1 F2 in Hlo, Hob. rewrite <- HN2 in Hlo, Hob.
  rewrite app_length, !permute_length in Hlo. rewrite app_length, !permute_length in Hob.
  assert (Ho_F1 : forall i, In i F1 -> nth (index_of i F1) o 0 < nth i s1 0).
  { intros i Hi. pose proof (index_of_lt i F1 Hi) as Hlt. specialize (Hob (index_of i F1) ltac:(lia)).
    rewrite app_nth1 in Hob by (now rewrite permute_length). unfold permute in Hob. rewrite (nth_map' _ _ _ 0) in Hob by exact Hlt.
    now rewrite nth_index_of in Hob. }
  assert (Ho_F2 : forall r, r < length N2 -> nth (length F1 + r) o 0 < nth (nth r N2 0) s2 0).
  { intros r Hr. specialize (Hob (length F1 + r) ltac:(lia)). rewrite app_nth2 in Hob by (rewrite permute_length; lia).
    rewrite permute_length in Hob. replace (length F1 + r - length F1) with r in Hob by lia.
    unfold permute in Hob. now rewrite (nth_map' _ _ _ 0) in Hob by exact Hr. }
  set (h := fun i => nth (index_of i F1) o 0).
  set (xb := map h b1). set (xn := map h N1). set (xq := map h Q).
  set (xf2 := map (fun r => nth (length F1 + r) o 0) (seq 0 (length N2))).
  assert (Hxq : xq = xb ++ xn) by (unfold xq, Q; apply map_app).
  assert (Hlxq : length xq = K) by (unfold xq; now rewrite map_length).
  assert (Hg_inj : forall x i, In x Q -> In i Q -> g x = g i -> x = i).
  { intros x i Hx Hi E. unfold g in E. rewrite <- (nth_index_of x Q Hx), <- (nth_index_of i Q Hi). now rewrite E. }
  assert (Hscat : scatter final o = xq ++ xf2).
  { unfold scatter. assert (Hlf : length final = K + length N2) by (unfold final; rewrite app_length, map_length, seq_length; lia).
    rewrite Hlf. apply nth_ext with (d := 0) (d' := 0); [unfold xf2; rewrite map_length, seq_length, app_length, Hlxq, map_length, seq_length; reflexivity|].
    intros a Ha. rewrite map_length, seq_length in Ha. rewrite (nth_map' _ _ _ 0) by (now rewrite seq_length).
    rewrite seq_nth by exact Ha. cbn [Nat.add]. destruct (Nat.lt_ge_cases a K) as [HaK|HaK].
    - set (i := nth a Q 0). assert (HiQ : In i Q) by (apply nth_In; exact HaK). assert (HiF : In i F1) by (now apply HQ).
      assert (Ea : a = g i) by (unfold g, i; symmetry; now apply index_of_nth).
      rewrite app_nth1 by lia. unfold xq. rewrite (nth_map' _ _ _ 0) by exact HaK. fold i. unfold h. f_equal.
      rewrite Ea. unfold final. rewrite index_of_app_in by (now apply in_map).
      apply index_of_map_inj. intros x Hx E. apply Hg_inj; [now apply HQ | exact HiQ | exact E].
    - rewrite app_nth2 by lia. rewrite Hlxq. unfold xf2. rewrite (nth_map' _ _ _ 0) by (rewrite seq_length; lia).
      rewrite seq_nth by lia. cbn [Nat.add]. f_equal. unfold final. rewrite index_of_app_notin.
      + rewrite map_length. f_equal. replace a with (K + (a - K)) at 1 by lia. apply index_of_seq. lia.
      + intros Hin. apply (Permutation_in _ Hg_img) in Hin. apply in_seq in Hin. lia. }
  rewrite Hscat, Hxq, <- app_assoc.
  assert (Hb1F : forall i, In i b1 -> In i F1) by (intros i Hi; apply HQ; unfold Q; apply in_or_app; now left).
  assert (HN1F : forall i, In i N1 -> In i F1) by (intros i Hi; apply HQ; unfold Q; apply in_or_app; now right).
  assert (Hxb : inb bs xb).
  { apply inb_nth. unfold xb, bs. rewrite map_length, permute_length. split; [reflexivity|]. intros k Hk.
    rewrite (nth_map' _ _ _ 0) by exact Hk. unfold permute. rewrite (nth_map' _ _ _ 0) by exact Hk. apply Ho_F1, Hb1F, nth_In, Hk. }
  assert (Hxn : inb ns1 xn).
  { apply inb_nth. unfold xn, ns1. rewrite map_length, permute_length. split; [reflexivity|]. intros k Hk.
    rewrite (nth_map' _ _ _ 0) by exact Hk. unfold permute. rewrite (nth_map' _ _ _ 0) by exact Hk. apply Ho_F1, HN1F, nth_In, Hk. }
  assert (Hxf2 : inb ns2 xf2).
  { apply inb_nth. unfold xf2, ns2. rewrite map_length, seq_length, permute_length. split; [reflexivity|]. intros k Hk.
    rewrite (nth_map' _ _ _ 0) by (now rewrite seq_length). rewrite seq_nth by exact Hk. cbn [Nat.add].
    unfold permute. rewrite (nth_map' _ _ _ 0) by exact Hk. now apply Ho_F2. }
  assert (Hlxb : length xb = length bs) by (now apply inb_length).
  assert (Hlxn : length xn = length ns1) by (now apply inb_length).
  assert (E0 : get d R0 (xb ++ xn ++ xf2) = get d X (xb ++ [ravel ns1 xn; ravel ns2 xf2])).
  { unfold get, R0, reshape. cbn [shape data]. rewrite HsX. f_equal. symmetry. now apply ravel_flatten. }
  rewrite E0. unfold X.
  rewrite (get_bmatmul nb A2 B2 bs (prod ns1) (prod cs) (prod ns2)); [| reflexivity | reflexivity | reflexivity | exact Hxb | now apply ravel_lt | now apply ravel_lt].
  unfold ssum, sum_idx, bsum. fold cs. apply bigsum_ext. intros k Hk.
  set (c := unravel cs k). assert (Hc : inb cs c) by (now apply unravel_inb).
  assert (Hlc : length c = length m1) by (rewrite (inb_length _ _ Hc); apply permute_length).
  assert (Ek : k = ravel cs c) by (unfold c; now rewrite ravel_unravel).
  assert (Hlb1 : length xb = length b1) by (unfold xb; apply map_length).
  f_equal.
  - rewrite Ek. assert (E1 : get d A2 (xb ++ [ravel ns1 xn; ravel cs c]) = get d A1 (xb ++ xn ++ c)).
    { unfold get, A2, reshape. cbn [shape data]. rewrite HsA1. f_equal. now apply ravel_flatten. }
    rewrite E1. unfold A1, transpose. rewrite get_tabulate by (fold s1; rewrite Hsh1; apply inb_app; [exact Hxb | now apply inb_app]).
    f_equal. unfold scatter, td_ia. rewrite (Permutation_length HP1), seq_length. apply map_ext_in. intros i Hi. apply in_seq in Hi.
    fold F1. rewrite app_assoc, <- Hxq. unfold p1. rewrite app_assoc. fold Q.
    destruct (memb i m1) eqn:Em.
    + apply memb_In in Em. assert (HnQ : ~ In i Q) by (intros HiQ; apply HQ in HiQ; apply In_free1 in HiQ; tauto).
      rewrite index_of_app_notin by exact HnQ. fold K. rewrite app_nth2 by lia. rewrite Hlxq. f_equal. lia.
    + assert (HiF : In i F1) by (apply In_free1; split; [lia | now apply memb_false]). assert (HiQ : In i Q) by (now apply HQ).
      rewrite index_of_app_in by exact HiQ. pose proof (index_of_lt i Q HiQ) as Hlt. rewrite app_nth1 by lia.
      unfold xq. rewrite (nth_map' _ _ _ 0) by exact Hlt. rewrite nth_index_of by exact HiQ. reflexivity.
  - rewrite Ek. assert (E1 : get d B2 (xb ++ [ravel cs c; ravel ns2 xf2]) = get d B1 (xb ++ c ++ xf2)).
    { unfold get, B2, reshape. cbn [shape data]. rewrite HsB1. f_equal. apply ravel_flatten; [exact Hlxb | now apply inb_length | exact Hxf2]. }
    rewrite E1. unfold B1, transpose. rewrite get_tabulate by (fold s2; rewrite Hsh2; apply inb_app; [exact Hxb | now apply inb_app]).
    f_equal. unfold scatter, td_ib. rewrite (Permutation_length HP2), seq_length. apply map_ext_in. intros j Hj. apply in_seq in Hj.
    fold F1 F2. unfold p2.
    destruct (memb j m2) eqn:Em.
    + apply memb_In in Em. assert (Hnb2 : ~ In j b2) by (now apply Hm2b2).
      rewrite index_of_app_notin by exact Hnb2. rewrite index_of_app_in by exact Em. pose proof (index_of_lt j m2 Em) as Hlt.
      rewrite app_nth2 by lia. replace (length b2 + index_of j m2 - length xb) with (index_of j m2) by lia.
      apply app_nth1. lia.
    + assert (Hnm2 : ~ In j m2) by (now apply memb_false). destruct (memb j b2) eqn:Eb.
      * apply memb_In in Eb. rewrite index_of_app_in by exact Eb. pose proof (index_of_lt j b2 Eb) as Hlt.
        rewrite app_nth1 by lia. unfold xb. rewrite (nth_map' _ _ _ 0) by lia. reflexivity.
      * assert (Hnb2 : ~ In j b2) by (now apply memb_false).
        assert (HjN : In j N2).
        { apply In_free1. split; [lia|]. intros Hin. apply in_app_or in Hin. tauto. }
        rewrite index_of_app_notin by exact Hnb2. rewrite index_of_app_notin by exact Hnm2.
        pose proof (index_of_lt j N2 HjN) as Hlt.
        rewrite app_nth2 by lia. rewrite app_nth2 by lia.
        replace (length b2 + (length m2 + index_of j N2) - length xb - length c) with (index_of j N2) by lia.
        unfold xf2. rewrite (nth_map' _ _ _ 0) by (now rewrite seq_length). rewrite seq_nth by exact Hlt. rewrite HN2. reflexivity.
Qed.

End P.

(* ---------------------------------------------------------------- any listing order of the batched pairs *)
Lemma lsorted_map {A} (key : A -> nat) : forall l, lsorted key l -> lsorted (fun x => x) (map key l).
Proof.
  induction l as [|x l IH]; intros H; [exact I|]. destruct H as [Hx Hs]. cbn [map lsorted]. split; [|now apply IH].
  intros y Hy. apply in_map_iff in Hy. destruct Hy as [z [<- Hz]]. now apply Hx.
Qed.
Lemma memb_perm a p q : Permutation p q -> memb a p = memb a q.
Proof.
  intros HP. destruct (memb a q) eqn:E.
  - apply memb_In. apply memb_In in E. now apply (Permutation_in _ (Permutation_sym HP)).
  - apply memb_false. apply memb_false in E. intros H. apply E. now apply (Permutation_in _ HP).
Qed.

Section P2.
Context {F : Type} (Op : rops F).
Hypothesis Rth : ring_theory (r0 Op) (r1 Op) (radd Op) (rmul Op) (rsub Op) (ropp Op) (@eq F).
Notation d := (r0 Op).
Infix "*r" := (rmul Op) (at level 40, left associativity).

Theorem tensordot_core_spec (A B : tensor F) (m1 m2 b1 b2 : list nat) :
  wf A -> wf B -> 0 < prod (shape A) -> 0 < prod (shape B) ->
  td_valid (shape A) (shape B) m1 m2 b1 b2 ->
  exists R, tensordot Op A B m1 m2 b1 b2 = Ok R /\ wf R /\ shape R = td_shape m1 m2 b2 (shape A) (shape B) /\
    forall o, inb (shape R) o ->
      get d R o = ssum Op (permute 0 m1 (shape A))
                    (fun c => get d A (td_ia m1 (ndim A) c o) *r get d B (td_ib m1 m2 b1 b2 (ndim A) (ndim B) c o)).
Proof.
  intros WA WB HpA HpB Hval. pose proof Hval as (Hv1 & Hv2 & Hnd1 & Hnd2).
  destruct (validate_modes_inv _ _ _ _ Hv2) as [Hlb Hb].
  set (l := combine b1 b2). set (bp := sort_pairs l). set (b1' := map fst bp). set (b2' := map snd bp).
  assert (Hl1 : map fst l = b1) by (apply map_fst_combine'; exact Hlb).
  assert (Hl2 : map snd l = b2) by (apply map_snd_combine_eq; exact Hlb).
  assert (Hperm : Permutation bp l) by (unfold bp; rewrite sort_pairs_gsort; apply gsort_Permutation).
  assert (HP1 : Permutation b1' b1) by (unfold b1'; rewrite <- Hl1; now apply Permutation_map).
  assert (HP2 : Permutation b2' b2) by (unfold b2'; rewrite <- Hl2; now apply Permutation_map).
  destruct (NoDup_app_inv _ _ Hnd1) as [HNDm1 [HNDb1 Hm1b1]]. destruct (NoDup_app_inv _ _ Hnd2) as [HNDm2 [HNDb2 Hm2b2]].
  assert (Hcode : tensordot Op A B m1 m2 b1 b2 = tensordot Op A B m1 m2 b1' b2').
  { pose proof (tensordot_batch_order Op A B m1 m2 l bp (Permutation_sym Hperm)) as H. rewrite Hl1, Hl2 in H. apply H. exact HNDb1. }
  assert (Hval' : td_valid (shape A) (shape B) m1 m2 b1' b2').
  { split; [exact Hv1|]. split; [|split].
    - unfold validate_modes in *. apply andb_true_iff in Hv2. destruct Hv2 as [_ Hf]. apply andb_true_iff. split.
      + apply Nat.eqb_eq. unfold b1', b2'. now rewrite !map_length.
      + unfold b1', b2'. rewrite combine_fst_snd. rewrite (forallb_perm _ _ _ Hperm). exact Hf.
    - apply (Permutation_NoDup (l := m1 ++ b1)); [apply Permutation_app_head; now apply Permutation_sym | exact Hnd1].
    - apply (Permutation_NoDup (l := m2 ++ b2)); [apply Permutation_app_head; now apply Permutation_sym | exact Hnd2]. }
  assert (Hsorted : lsorted fst bp) by (unfold bp; rewrite sort_pairs_gsort; apply gsort_sorted).
  assert (Hs1 : sort_pairs (combine b1' b2') = combine b1' b2').
  { unfold b1', b2'. rewrite combine_fst_snd. rewrite sort_pairs_gsort. now apply gsort_id. }
  assert (Hs2 : filter (fun i => memb i b1') (seq 0 (ndim A)) = b1').
  { apply sorted_filter_seq.
    - apply (Permutation_NoDup (Permutation_sym HP1)). exact HNDb1.
    - unfold b1'. now apply lsorted_map.
    - intros x Hx. apply (Permutation_in _ HP1) in Hx. destruct (In_nth _ _ 0 Hx) as [k [Hk <-]].
      destruct (Hb k Hk) as [H _]. unfold ndim. lia. }
  destruct (tensordot_core_sorted Op A B m1 m2 b1' b2' WA WB HpA HpB (td_valid_ok _ _ _ _ _ _ Hval') Hs1 Hs2) as [R [HR [WR [HsR HgR]]]].
  assert (Hfree2 : forall n, free2 m2 b2' n = free2 m2 b2 n).
  { intros n. unfold free2. apply filter_ext. intros j. rewrite !memb_app. now rewrite (memb_perm j b2' b2 HP2). }
  exists R. split; [now rewrite Hcode|]. split; [exact WR|].
  assert (HsR' : shape R = td_shape m1 m2 b2 (shape A) (shape B)) by (rewrite HsR; unfold td_shape; now rewrite Hfree2).
  split; [exact HsR'|]. intros o Ho. rewrite HgR by exact Ho. unfold ssum. apply (sum_idx_ext F (r0 Op) (radd Op)). intros c Hc.
  f_equal. f_equal. unfold td_ib. rewrite Hfree2. apply map_ext_in. intros j Hj.
  rewrite (memb_perm j b2' b2 HP2). destruct (memb j m2); [reflexivity|]. destruct (memb j b2) eqn:Eb; [|reflexivity].
  apply memb_In in Eb. f_equal. f_equal. unfold b1', b2'. rewrite <- Hl1, <- Hl2.
  apply (pair_lookup_perm l bp j (Permutation_sym Hperm)); rewrite Hl2; assumption.
Qed.

Corollary tensordot_e_spec_valid (A B : tensor F) (m1 m2 b1 b2 : list nat) :
  td_valid (shape A) (shape B) m1 m2 b1 b2 ->
  exists R, tensordot_e Op A B m1 m2 b1 b2 = Ok R /\ wf R /\ shape R = td_shape m1 m2 b2 (shape A) (shape B) /\
    forall o, inb (shape R) o ->
      get d R o = ssum Op (permute 0 m1 (shape A))
                    (fun c => get d A (td_ia m1 (ndim A) c o) *r get d B (td_ib m1 m2 b1 b2 (ndim A) (ndim B) c o)).
Proof. intros H. apply (tensordot_e_spec Op Rth). now apply td_valid_ok. Qed.

(* the two backends return the same tensor for every accepted request with distinct modes *)
Corollary tensordot_backends_agree (A B : tensor F) (m1 m2 b1 b2 : list nat) :
  wf A -> wf B -> 0 < prod (shape A) -> 0 < prod (shape B) -> td_valid (shape A) (shape B) m1 m2 b1 b2 ->
  tensordot Op A B m1 m2 b1 b2 = tensordot_e Op A B m1 m2 b1 b2.
Proof.
  intros WA WB HpA HpB Hval.
  destruct (tensordot_core_spec A B m1 m2 b1 b2 WA WB HpA HpB Hval) as [R1 [E1 [W1 [S1 G1]]]].
  destruct (tensordot_e_spec_valid A B m1 m2 b1 b2 Hval) as [R2 [E2 [W2 [S2 G2]]]].
  rewrite E1, E2. f_equal. apply tensor_ext with (d := d); auto; [congruence|].
  intros idx Hi. rewrite G1 by exact Hi. rewrite G2 by (rewrite S2, <- S1; exact Hi). reflexivity.
Qed.

End P2.

(* non-vacuity: a contraction over two modes listed out of order with two batched pairs listed in decreasing order *)
Example tensordot_spec_nonvacuous :
  let A : tensor Z := tabulate [2; 3; 2; 2] (fun i => Z.sub (Z.of_nat (ravel [2; 3; 2; 2] i)) 7%Z) in
  let B : tensor Z := tabulate [2; 2; 3; 2; 2] (fun i => Z.sub 5%Z (Z.of_nat (ravel [2; 2; 3; 2; 2] i))) in
  wf A /\ wf B /\ 0 < prod (shape A) /\ 0 < prod (shape B) /\
  td_valid (shape A) (shape B) [2; 1] [0; 2] [3; 0] [1; 4] /\
  td_shape [2; 1] [0; 2] [1; 4] (shape A) (shape B) = [2; 2; 2] /\
  tensordot ZR A B [2; 1] [0; 2] [3; 0] [1; 4] = tensordot_e ZR A B [2; 1] [0; 2] [3; 0] [1; 4] /\
  exists R, tensordot ZR A B [2; 1] [0; 2] [3; 0] [1; 4] = Ok R /\ shape R = [2; 2; 2].
Proof.
  cbv zeta. split; [apply wf_tabulate|]. split; [apply wf_tabulate|]. split; [vm_compute; lia|]. split; [vm_compute; lia|].
  split; [|split; [vm_compute; reflexivity|split; [vm_compute; reflexivity|eexists; split; vm_compute; reflexivity]]].
  split; [vm_compute; reflexivity|]. split; [vm_compute; reflexivity|].
  split; vm_compute; repeat constructor; simpl; intuition discriminate.
Qed.
