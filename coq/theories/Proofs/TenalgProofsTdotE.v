(* Batched tensordot, einsum backend: the index formula for arbitrary contracted and batched mode pairs.
   Spec vocabulary (shared with the core-backend proof in TenalgProofsTdotC.v):
     free1 m1 n1       = the modes of tensor1 that are not contracted (batch modes included), increasing;
     free2 m2 b2 n2    = the modes of tensor2 that are neither contracted nor batched, increasing;
     td_shape          = sizes of free1 in tensor1 followed by sizes of free2 in tensor2 (the result shape);
     td_ia c o         = the index of tensor1: contracted mode m1[k] gets c[k], free mode free1[k] gets o[k];
     td_ib c o         = the index of tensor2: contracted mode m2[k] gets c[k], batch mode b2[k] gets the output entry of
                         its partner b1[k], free mode free2[k] gets o[|free1| + k].
   R[o] = sum over c in the index space of the contracted sizes (listing order) of A[td_ia c o] * B[td_ib c o]. *)
From Coq Require Import List Arith ZArith Lia Ring Bool Permutation.
From TLV Require Import Base.Shape Base.PyList Base.Tensor Base.BigSum Model.Base Proofs.BaseProofs Model.Tenalg
  Proofs.TenalgProofs Proofs.TenalgProofsEinsum Proofs.TenalgProofsInner Proofs.TenalgProofsEinsumInner.
Import ListNotations.

Definition free1 (m1 : list nat) (n1 : nat) : list nat := filter (fun i => negb (memb i m1)) (seq 0 n1).
Definition free2 (m2 b2 : list nat) (n2 : nat) : list nat := filter (fun j => negb (memb j (m2 ++ b2))) (seq 0 n2).
Definition td_shape (m1 m2 b2 s1 s2 : list nat) : list nat :=
  permute 0 (free1 m1 (length s1)) s1 ++ permute 0 (free2 m2 b2 (length s2)) s2.
Definition td_ia (m1 : list nat) (n1 : nat) (c o : list nat) : list nat :=
  map (fun i => if memb i m1 then nth (index_of i m1) c 0 else nth (index_of i (free1 m1 n1)) o 0) (seq 0 n1).
Definition td_ib (m1 m2 b1 b2 : list nat) (n1 n2 : nat) (c o : list nat) : list nat :=
  map (fun j => if memb j m2 then nth (index_of j m2) c 0
                else if memb j b2 then nth (index_of (nth (index_of j b2) b1 0) (free1 m1 n1)) o 0
                else nth (length (free1 m1 n1) + index_of j (free2 m2 b2 n2)) o 0) (seq 0 n2).
(* the request is well-formed: equally many modes on both sides, in range, pairwise distinct on each tensor, equal sizes *)
Definition td_ok (s1 s2 m1 m2 b1 b2 : list nat) : Prop :=
  length m1 = length m2 /\ length b1 = length b2 /\ NoDup (m1 ++ b1) /\ NoDup (m2 ++ b2) /\
  (forall i, In i (m1 ++ b1) -> i < length s1) /\ (forall j, In j (m2 ++ b2) -> j < length s2) /\
  (forall k, k < length (m1 ++ b1) -> nth (nth k (m1 ++ b1) 0) s1 0 = nth (nth k (m2 ++ b2) 0) s2 0).

(* ---------------------------------------------------------------- list facts *)
Lemma index_of_app_in a : forall p q, In a p -> index_of a (p ++ q) = index_of a p.
Proof.
  induction p as [|x p IH]; intros q H; [destruct H|]. simpl. destruct (Nat.eqb x a) eqn:E; [reflexivity|].
  f_equal. apply IH. destruct H as [->|H]; [rewrite Nat.eqb_refl in E; discriminate | exact H].
Qed.
Lemma index_of_app_notin a : forall p q, ~ In a p -> index_of a (p ++ q) = length p + index_of a q.
Proof.
  induction p as [|x p IH]; intros q H; [reflexivity|]. simpl.
  destruct (Nat.eqb_spec x a) as [->|Hne]; [exfalso; apply H; now left|]. f_equal. apply IH. intros H'. apply H. now right.
Qed.
Lemma index_of_map_add n a : forall p, index_of (n + a) (map (Nat.add n) p) = index_of a p.
Proof.
  induction p as [|x p IH]; [reflexivity|]. simpl.
  destruct (Nat.eqb_spec x a) as [->|Hne]; [now rewrite Nat.eqb_refl|].
  destruct (Nat.eqb_spec (n + x) (n + a)); [lia | now rewrite IH].
Qed.
Lemma In_free1 m1 n1 i : In i (free1 m1 n1) <-> i < n1 /\ ~ In i m1.
Proof.
  unfold free1. rewrite filter_In, in_seq, negb_true_iff. split.
  - intros [H1 H2]. split; [lia|]. intros H. apply memb_In in H. congruence.
  - intros [H1 H2]. split; [lia|]. destruct (memb i m1) eqn:E; [apply memb_In in E; contradiction | reflexivity].
Qed.
Lemma In_free2 m2 b2 n2 j : In j (free2 m2 b2 n2) <-> j < n2 /\ ~ In j (m2 ++ b2).
Proof. apply (In_free1 (m2 ++ b2) n2 j). Qed.
Lemma NoDup_filter {A} (P : A -> bool) : forall l, NoDup l -> NoDup (filter P l).
Proof.
  induction l as [|x l IH]; intros H; [constructor|]. inversion H; subst. simpl. destruct (P x); [|auto].
  constructor; [|auto]. intros Hin. apply filter_In in Hin. tauto.
Qed.
Lemma NoDup_free1 m1 n1 : NoDup (free1 m1 n1).
Proof. apply NoDup_filter, seq_NoDup. Qed.
Lemma memb_false a p : memb a p = false <-> ~ In a p.
Proof. split; intros H. - intros Hin. apply memb_In in Hin. congruence. - destruct (memb a p) eqn:E; [apply memb_In in E; contradiction | reflexivity]. Qed.

(* map snd (filter on the position) over an enumerated list *)
Lemma map_snd_filter_enum (P : nat -> bool) : forall (l : list nat) a,
  map snd (filter (fun p => P (fst p)) (combine (seq a (length l)) l)) = map (fun j => nth (j - a) l 0) (filter P (seq a (length l))).
Proof.
  induction l as [|x l IH]; intros a; [reflexivity|]. cbn [length seq combine filter fst].
  assert (Hrec : map (fun j => nth (j - a) (x :: l) 0) (filter P (seq (S a) (length l)))
               = map (fun j => nth (j - S a) l 0) (filter P (seq (S a) (length l)))).
  { apply map_ext_in. intros j Hj. apply filter_In in Hj. destruct Hj as [Hj _]. apply in_seq in Hj.
    replace (j - a) with (S (j - S a)) by lia. reflexivity. }
  destruct (P a); cbn [map snd]; rewrite IH, ?Hrec; [rewrite Nat.sub_diag|]; reflexivity.
Qed.

(* all_modes2 after the assignment loop: entry j is the partner label of pair k if j = dst_k, else untouched *)
Lemma fold_set_other (f : nat -> nat) : forall (ps : list (nat * nat)) init j, ~ In j (map snd ps) ->
  nth j (fold_left (fun acc p => set_nth (snd p) (f (fst p)) acc) ps init) 0 = nth j init 0.
Proof.
  induction ps as [|[i j'] ps IH]; intros init j H; [reflexivity|]. cbn [fold_left fst snd].
  rewrite IH by (intros H'; apply H; now right). apply nth_set_nth_other. intros ->. apply H. now left.
Qed.
Lemma fold_set_length (f : nat -> nat) : forall (ps : list (nat * nat)) init,
  length (fold_left (fun acc p => set_nth (snd p) (f (fst p)) acc) ps init) = length init.
Proof. induction ps as [|[i j] ps IH]; intros init; [reflexivity|]. cbn [fold_left]. now rewrite IH, set_nth_length. Qed.
Lemma fold_set_at (f : nat -> nat) : forall (ps : list (nat * nat)) init k, NoDup (map snd ps) -> k < length ps ->
  snd (nth k ps (0, 0)) < length init ->
  nth (snd (nth k ps (0, 0))) (fold_left (fun acc p => set_nth (snd p) (f (fst p)) acc) ps init) 0 = f (fst (nth k ps (0, 0))).
Proof.
  induction ps as [|[i j] ps IH]; intros init k Hnd Hk Hj; [simpl in Hk; lia|].
  cbn [map snd] in Hnd. inversion Hnd as [|? ? Hnin Hnd']; subst. cbn [fold_left fst snd].
  destruct k as [|k]; cbn [nth fst snd] in *.
  - rewrite fold_set_other by exact Hnin. now apply nth_set_nth_same.
  - apply IH; [exact Hnd' | simpl in Hk; lia | now rewrite set_nth_length].
Qed.

Lemma find_combine_first {A} (dflt : A) (tail : list (nat * A)) x : forall (l : list nat) (s : list A) j,
  length l = length s -> j < length l -> nth j l 0 = x -> (forall k, k < j -> nth k l 0 <> x) ->
  find (fun p => Nat.eqb (fst p) x) (combine l s ++ tail) = Some (x, nth j s dflt).
Proof.
  induction l as [|y l IH]; intros [|z s] j Hl Hj Hx Hfirst; simpl in *; try lia.
  destruct j as [|j].
  - subst y. now rewrite Nat.eqb_refl.
  - destruct (Nat.eqb_spec y x) as [E|E]; [exfalso; apply (Hfirst 0); [lia | exact E]|].
    apply IH; [lia | lia | exact Hx |]. intros k Hk. apply (Hfirst (S k)). lia.
Qed.

Lemma NoDup_app_inv {A} : forall (l1 l2 : list A), NoDup (l1 ++ l2) -> NoDup l1 /\ NoDup l2 /\ forall x, In x l1 -> ~ In x l2.
Proof.
  induction l1 as [|a l1 IH]; intros l2 H; [split; [constructor | split; [exact H | intros x []]]|].
  cbn [app] in H. inversion H as [|? ? Hnin Hnd]; subst. destruct (IH l2 Hnd) as [H1 [H2 H3]].
  split; [constructor; [intros Hin; apply Hnin; apply in_or_app; now left | exact H1]|]. split; [exact H2|].
  intros x [->|Hx]; [intros Hin; apply Hnin; apply in_or_app; now right | now apply H3].
Qed.
Lemma NoDup_app_intro {A} : forall (l1 l2 : list A), NoDup l1 -> NoDup l2 -> (forall x, In x l1 -> ~ In x l2) -> NoDup (l1 ++ l2).
Proof.
  induction l1 as [|a l1 IH]; intros l2 H1 H2 H3; [exact H2|]. cbn [app]. inversion H1; subst.
  constructor; [|apply IH; [assumption | assumption | intros y Hy; apply H3; now right]].
  intros Hin. apply in_app_or in Hin. destruct Hin as [Hin|Hin]; [contradiction | apply (H3 a); [now left | exact Hin]].
Qed.
Lemma map_snd_combine_eq {A B} : forall (a : list A) (b : list B), length a = length b -> map snd (combine a b) = b.
Proof. induction a; intros [|y b] H; simpl in *; try discriminate; auto. f_equal. apply IHa. lia. Qed.
Lemma prod_perm l l' : Permutation l l' -> prod l = prod l'.
Proof. induction 1; cbn [prod fold_right] in *; try lia. fold (prod l) (prod l'). unfold prod in *. lia. Qed.

Section P.
Context {F : Type} (Op : rops F).
Hypothesis Rth : ring_theory (r0 Op) (r1 Op) (radd Op) (rmul Op) (rsub Op) (ropp Op) (@eq F).
Add Ring Fr21 : Rth.
Notation d := (r0 Op).
Infix "*r" := (rmul Op) (at level 40, left associativity).

(* ---------------------------------------------------------------- the order of summation in einsum does not matter *)
Lemma esum_env_ext : forall (ls : list (nat * nat)) (e1 e2 : env) (f : env -> F),
  (forall e e', (forall l, e l = e' l) -> f e = f e') -> (forall l, e1 l = e2 l) -> esum Op ls e1 f = esum Op ls e2 f.
Proof.
  induction ls as [|[l n] r IH]; intros e1 e2 f Hf He; cbn [esum]; [now apply Hf|].
  apply bs_ext. intros v _. apply IH; [exact Hf|]. intros x. unfold upd. destruct (Nat.eqb x l); auto.
Qed.
Lemma esum_perm (ls ls' : list (nat * nat)) : Permutation ls ls' -> forall (e : env) (f : env -> F),
  (forall e e', (forall l, e l = e' l) -> f e = f e') -> NoDup (map fst ls) -> esum Op ls e f = esum Op ls' e f.
Proof.
  induction 1 as [|[l n] r r' HP IH|[l1 n1] [l2 n2] r|r1 r2 r3 HP1 IH1 HP2 IH2]; intros e f Hf Hnd.
  - reflexivity.
  - cbn [esum]. apply bs_ext. intros v _. apply IH; [exact Hf|]. cbn [map] in Hnd. now inversion Hnd.
  - cbn [esum]. unfold bsum.
    rewrite (bigsum_exchange F (r0 Op) (r1 Op) (radd Op) (rmul Op) (rsub Op) (ropp Op) Rth).
    apply bigsum_ext. intros v2 _. apply bigsum_ext. intros v1 _. apply esum_env_ext; [exact Hf|].
    cbn [map fst] in Hnd. inversion Hnd as [|? ? Hnin _]; subst.
    assert (Hne : l1 <> l2) by (intros ->; apply Hnin; now left).
    intros x. unfold upd. destruct (Nat.eqb_spec x l1), (Nat.eqb_spec x l2); try reflexivity. congruence.
  - rewrite IH1 by assumption. apply IH2; [exact Hf|].
    apply (Permutation_NoDup (l := map fst r1)); [now apply Permutation_map | exact Hnd].
Qed.

(* ================================================================ tensordot (einsum backend) *)
Lemma validate_modes_ok s1 s2 m1 m2 : length m1 = length m2 ->
  (forall i, In i m1 -> i < length s1) -> (forall j, In j m2 -> j < length s2) ->
  (forall k, k < length m1 -> nth (nth k m1 0) s1 0 = nth (nth k m2 0) s2 0) -> validate_modes s1 s2 m1 m2 = true.
Proof.
  intros Hl H1 H2 Hs. unfold validate_modes. rewrite Hl, Nat.eqb_refl. cbn [andb]. apply forallb_forall.
  intros [i j] Hin. cbn [fst snd]. destruct (In_nth _ _ (0, 0) Hin) as [k [Hk Ek]].
  rewrite combine_length in Hk. rewrite combine_nth in Ek by exact Hl. injection Ek as Ei Ej.
  assert (Hk1 : k < length m1) by lia. assert (Hk2 : k < length m2) by lia.
  rewrite !andb_true_iff. repeat split.
  - apply Nat.ltb_lt. apply H1. rewrite <- Ei. now apply nth_In.
  - apply Nat.ltb_lt. apply H2. rewrite <- Ej. now apply nth_In.
  - apply Nat.eqb_eq. rewrite <- Ei, <- Ej. now apply Hs.
Qed.

Lemma td_ok_validate s1 s2 m1 m2 b1 b2 : td_ok s1 s2 m1 m2 b1 b2 ->
  validate_modes s1 s2 m1 m2 = true /\ validate_modes s1 s2 b1 b2 = true.
Proof.
  intros (Hlm & Hlb & Hnd1 & Hnd2 & Hr1 & Hr2 & Hsz). split; apply validate_modes_ok; auto.
  - intros i Hi. apply Hr1. apply in_or_app. now left.
  - intros j Hj. apply Hr2. apply in_or_app. now left.
  - intros k Hk. specialize (Hsz k). rewrite !app_nth1 in Hsz by lia. apply Hsz. rewrite app_length. lia.
  - intros i Hi. apply Hr1. apply in_or_app. now right.
  - intros j Hj. apply Hr2. apply in_or_app. now right.
  - intros k Hk. specialize (Hsz (length m1 + k)). rewrite app_nth2 in Hsz by lia. rewrite (app_nth2 m2) in Hsz by lia.
    replace (length m1 + k - length m1) with k in Hsz by lia. replace (length m1 + k - length m2) with k in Hsz by lia.
    apply Hsz. rewrite app_length. lia.
Qed.

Theorem tensordot_e_spec (A B : tensor F) (m1 m2 b1 b2 : list nat) :
  td_ok (shape A) (shape B) m1 m2 b1 b2 ->
  exists R, tensordot_e Op A B m1 m2 b1 b2 = Ok R /\ wf R /\ shape R = td_shape m1 m2 b2 (shape A) (shape B) /\
    forall o, inb (shape R) o ->
      get d R o = ssum Op (permute 0 m1 (shape A))
                    (fun c => get d A (td_ia m1 (ndim A) c o) *r get d B (td_ib m1 m2 b1 b2 (ndim A) (ndim B) c o)).
Proof.
  intros Hok. destruct (td_ok_validate _ _ _ _ _ _ Hok) as [Hv1 Hv2].
  destruct Hok as (Hlm & Hlb & Hnd1 & Hnd2 & Hr1 & Hr2 & Hsz).
  unfold ndim. set (s1 := shape A) in *. set (s2 := shape B) in *. set (n1 := length s1). set (n2 := length s2).
  set (src := m1 ++ b1) in *. set (dst := m2 ++ b2) in *.
  assert (Hlsd : length src = length dst) by (unfold src, dst; rewrite !app_length; lia).
  set (all1 := seq 0 n1).
  set (all2 := fold_left (fun acc p => set_nth (snd p) (nth (fst p) all1 0) acc) (combine src dst) (seq n1 n2)).
  set (F1 := free1 m1 n1). set (F2 := free2 m2 b2 n2).
  set (out := F1 ++ map (Nat.add n1) F2).
  destruct (NoDup_app_inv _ _ Hnd1) as [HNDm1 [HNDb1 Hm1b1]].
  (* all2 *)
  assert (Hlen2 : length all2 = n2) by (unfold all2; now rewrite (fold_set_length (fun i => nth i all1 0)), seq_length).
  assert (Hsnd : map snd (combine src dst) = dst) by (apply map_snd_combine_eq; exact Hlsd).
  assert (Hall2_free : forall j, j < n2 -> ~ In j dst -> nth j all2 0 = n1 + j).
  { intros j Hj Hn. unfold all2. rewrite (fold_set_other (fun i => nth i all1 0)) by (now rewrite Hsnd). now apply seq_nth. }
  assert (Hall2_pair : forall k, k < length src -> nth (nth k dst 0) all2 0 = nth k src 0).
  { intros k Hk. pose proof (fold_set_at (fun i => nth i all1 0) (combine src dst) (seq n1 n2) k) as Hf.
    rewrite combine_nth in Hf by exact Hlsd. cbn [fst snd] in Hf. fold all2 in Hf.
    rewrite Hf; [| now rewrite Hsnd | rewrite combine_length; lia | rewrite seq_length; apply Hr2, nth_In; lia].
    unfold all1. apply seq_nth. apply Hr1, nth_In. exact Hk. }
  (* rem1 / rem2 *)
  assert (Hrem1 : map snd (filter (fun p => negb (memb (fst p) m1)) (combine (seq 0 n1) all1)) = F1).
  { unfold all1. pose proof (map_snd_filter_enum (fun i => negb (memb i m1)) (seq 0 n1) 0) as Hm.
    rewrite seq_length in Hm. rewrite Hm. unfold F1, free1.
    rewrite <- (map_id (filter _ (seq 0 n1))) at 2. apply map_ext_in. intros j Hj.
    apply filter_In in Hj. destruct Hj as [Hj _]. apply in_seq in Hj. rewrite Nat.sub_0_r. apply seq_nth. lia. }
  assert (Hrem2 : map snd (filter (fun p => negb (memb (fst p) dst)) (combine (seq 0 n2) all2)) = map (Nat.add n1) F2).
  { pose proof (map_snd_filter_enum (fun j => negb (memb j dst)) all2 0) as Hm. rewrite Hlen2 in Hm. rewrite Hm.
    unfold F2, free2. fold dst. apply map_ext_in. intros j Hj. apply filter_In in Hj. destruct Hj as [Hj Hn].
    apply in_seq in Hj. rewrite Nat.sub_0_r. apply Hall2_free; [lia|]. apply negb_true_iff in Hn. now apply memb_false. }
  set (ins := [all1; all2]).
  exists (einsum Op ins out [A; B]).
  assert (Hcode : tensordot_e Op A B m1 m2 b1 b2 = Ok (einsum Op ins out [A; B])).
  { unfold tensordot_e. cbv zeta. fold s1 s2. rewrite Hv1, Hv2. cbn [andb]. fold n1 n2. fold all1. fold src dst. fold all2. change (combine all1 all1) with (combine (seq 0 n1) all1).
    rewrite Hrem1, Hrem2. reflexivity. }
  (* elements of all2 *)
  assert (Hall2_cases : forall j, j < n2 -> (In j dst /\ exists k, k < length src /\ j = nth k dst 0 /\ nth j all2 0 = nth k src 0)
                                          \/ (~ In j dst /\ nth j all2 0 = n1 + j)).
  { intros j Hj. destruct (in_dec Nat.eq_dec j dst) as [Hin|Hn]; [left | right; split; [exact Hn | now apply Hall2_free]].
    split; [exact Hin|]. destruct (In_nth _ _ 0 Hin) as [k [Hk Ek]]. exists k. split; [lia|]. split; [now symmetry|].
    rewrite <- Ek. apply Hall2_pair. lia. }
  (* label sizes *)
  assert (Hsz1 : forall l, l < n1 -> label_size ins [A; B] l = nth l s1 0).
  { intros l Hl. unfold label_size, ins, all1. cbn [combine map concat fst snd]. fold s1. unfold n1.
    rewrite (find_combine_seq (combine all2 (shape B) ++ []) 0 s1 0 l) by (fold n1; lia). cbn [snd]. now rewrite Nat.sub_0_r. }
  assert (Hsz2 : forall j, j < n2 -> ~ In j dst -> label_size ins [A; B] (n1 + j) = nth j s2 0).
  { intros j Hj Hn. unfold label_size, ins, all1. cbn [combine map concat fst snd]. fold s1 s2. change (seq 0 n1) with (seq 0 (length s1)).
    rewrite find_combine_seq_none by (fold n1; lia).
    rewrite (find_combine_first 0 [] (n1 + j) all2 s2 j); [reflexivity | now rewrite Hlen2 | now rewrite Hlen2 | now apply Hall2_free |].
    intros k Hk. destruct (Hall2_cases k ltac:(lia)) as [[_ [k' [Hk' [_ E]]]]|[_ E]]; rewrite E; [|lia].
    assert (nth k' src 0 < n1) by (apply Hr1, nth_In; exact Hk'). lia. }
  assert (HF1 : forall i, In i F1 -> i < n1 /\ ~ In i m1) by (intros i; apply In_free1).
  assert (HF2 : forall j, In j F2 -> j < n2 /\ ~ In j dst) by (intros j; apply In_free2).
  assert (Hshape : map (label_size ins [A; B]) out = td_shape m1 m2 b2 s1 s2).
  { unfold out, td_shape, permute. fold n1 n2 F1 F2. rewrite map_app, map_map. f_equal; apply map_ext_in; intros x Hx.
    - apply Hsz1. now apply HF1.
    - apply Hsz2; now apply HF2. }
  split; [exact Hcode|]. split; [apply wf_tabulate|]. split; [exact Hshape|].
  intros o Ho0. assert (Ho : inb (map (label_size ins [A; B]) out) o) by exact Ho0. clear Ho0.
  unfold einsum. rewrite get_tabulate by exact Ho.
  (* summed labels = the contracted modes of tensor1 in increasing order *)
  set (cm := filter (fun i => memb i m1) (seq 0 n1)).
  assert (Hout_lo : forall i, i < n1 -> memb i out = negb (memb i m1)).
  { intros i Hi. destruct (memb i m1) eqn:E; cbn [negb].
    - apply memb_false. intros Hin. unfold out in Hin. apply in_app_or in Hin. destruct Hin as [Hin|Hin].
      + apply HF1 in Hin. apply memb_In in E. tauto.
      + apply in_map_iff in Hin. destruct Hin as [x [Ex _]]. lia.
    - apply memb_In. unfold out. apply in_or_app. left. apply In_free1. split; [exact Hi | now apply memb_false]. }
  assert (Hsummed : summed_labels ins out = cm).
  { unfold summed_labels, ins. cbn [concat]. rewrite app_nil_r, filter_app.
    assert (E1 : filter (fun l => negb (memb l out)) all1 = cm).
    { unfold all1, cm. apply filter_ext_in. intros i Hi. apply in_seq in Hi. rewrite Hout_lo by lia. apply negb_involutive. }
    rewrite E1. apply dedup_app_sub; [apply NoDup_filter, seq_NoDup|].
    intros x Hx. apply filter_In in Hx. destruct Hx as [Hx Hno]. apply negb_true_iff in Hno.
    destruct (In_nth _ _ 0 Hx) as [j [Hj Ej]]. rewrite Hlen2 in Hj.
    destruct (Hall2_cases j Hj) as [[_ [k [Hk [_ E]]]]|[Hn E]].
    - assert (Hx1 : x < n1) by (rewrite <- Ej, E; apply Hr1, nth_In; exact Hk).
      rewrite Hout_lo in Hno by exact Hx1. apply negb_false_iff in Hno. unfold cm. apply filter_In. split; [apply in_seq; lia | exact Hno].
    - exfalso. apply memb_false in Hno. apply Hno. unfold out. apply in_or_app. right. rewrite <- Ej, E.
      apply in_map. apply In_free2. split; assumption. }
  rewrite Hsummed.
  assert (Hperm : Permutation cm m1).
  { apply NoDup_Permutation; [apply NoDup_filter, seq_NoDup | exact HNDm1|]. intros x. unfold cm. rewrite filter_In, in_seq, memb_In.
    split; [tauto|]. intros Hx. split; [|exact Hx]. split; [lia|]. apply Hr1. apply in_or_app. now left. }
  set (sz := label_size ins [A; B]).
  rewrite (esum_perm (map (fun l => (l, sz l)) cm) (map (fun l => (l, sz l)) m1));
    [| now apply Permutation_map | intros; now apply term_ext | rewrite map_map; cbn [fst]; rewrite map_id; apply NoDup_filter, seq_NoDup].
  rewrite (esum_ssum Op Rth _ _ (term Op ins [A; B])); [| intros; now apply term_ext | rewrite map_map; cbn [fst]; rewrite map_id; exact HNDm1].
  rewrite !map_map. cbn [fst snd]. rewrite map_id.
  assert (Hsizes : map sz m1 = permute 0 m1 s1).
  { unfold permute. apply map_ext_in. intros i Hi. apply Hsz1. apply Hr1. apply in_or_app. now left. }
  change (map (fun x : nat => sz x) m1) with (map sz m1). rewrite Hsizes. unfold ssum. apply (sum_idx_ext F (r0 Op) (radd Op)). intros c Hc.
  assert (Hlc : length c = length m1) by (rewrite (inb_length _ _ Hc); unfold permute; now rewrite map_length).
  assert (Hlo : length o = length out).
  { pose proof (inb_length _ _ Ho) as H. rewrite map_length in H. exact H. }
  set (e := bind m1 c (bind out o (fun _ => 0))).
  assert (HNDout : NoDup out).
  { unfold out. apply NoDup_app_intro; [apply NoDup_free1 | |].
    - apply FinFun.Injective_map_NoDup; [intros x y; lia | apply NoDup_filter, seq_NoDup].
    - intros x Hx Hy. apply In_free1 in Hx. apply in_map_iff in Hy. destruct Hy as [y [Ey _]]. lia. }
  assert (Em : forall i, In i m1 -> e i = nth (index_of i m1) c 0).
  { intros i Hi. unfold e. rewrite <- (nth_index_of i m1 Hi) at 1. apply bind_lookup; [exact HNDm1 | exact Hlc | now apply index_of_lt]. }
  assert (Eo : forall k, k < length out -> ~ In (nth k out 0) m1 -> e (nth k out 0) = nth k o 0).
  { intros k Hk Hn. unfold e. rewrite bind_not_in by exact Hn. now apply bind_lookup. }
  assert (EF1 : forall i, In i F1 -> e i = nth (index_of i F1) o 0).
  { intros i Hi. pose proof (index_of_lt i F1 Hi) as Hlt.
    assert (Hnth : nth (index_of i F1) out 0 = i) by (unfold out; rewrite app_nth1 by exact Hlt; now apply nth_index_of).
    rewrite <- Hnth at 1. apply Eo; [unfold out; rewrite app_length; lia | rewrite Hnth; now apply HF1]. }
  assert (EF2 : forall j, In j F2 -> e (n1 + j) = nth (length F1 + index_of j F2) o 0).
  { intros j Hj. pose proof (index_of_lt j F2 Hj) as Hlt.
    assert (Hnth : nth (length F1 + index_of j F2) out 0 = n1 + j).
    { unfold out. rewrite app_nth2 by lia. replace (length F1 + index_of j F2 - length F1) with (index_of j F2) by lia.
      rewrite (nth_map' _ _ _ 0) by exact Hlt. now rewrite nth_index_of. }
    rewrite <- Hnth at 1. apply Eo; [unfold out; rewrite app_length, map_length; lia|].
    rewrite Hnth. intros Hin. assert (n1 + j < n1) by (apply Hr1; apply in_or_app; now left). lia. }
  assert (E1 : map e all1 = td_ia m1 n1 c o).
  { unfold all1, td_ia. apply map_ext_in. intros i Hi. apply in_seq in Hi. fold F1.
    destruct (memb i m1) eqn:E; [apply Em; now apply memb_In|]. apply EF1. apply In_free1. split; [lia | now apply memb_false]. }
  assert (E2 : map e all2 = td_ib m1 m2 b1 b2 n1 n2 c o).
  { unfold td_ib. fold F1 F2. apply nth_ext with (d := 0) (d' := 0); [now rewrite !map_length, seq_length|].
    intros j Hj. rewrite map_length, Hlen2 in Hj.
    rewrite (nth_map' _ _ _ 0) by (now rewrite Hlen2). rewrite (nth_map' _ _ _ 0) by (now rewrite seq_length).
    rewrite seq_nth by exact Hj. cbn [Nat.add].
    destruct (memb j m2) eqn:Em2.
    - apply memb_In in Em2. set (k := index_of j m2). assert (Hk : k < length m2) by (now apply index_of_lt).
      assert (Ej : nth k dst 0 = j) by (unfold dst; rewrite app_nth1 by exact Hk; now apply nth_index_of).
      rewrite <- Ej at 1. rewrite Hall2_pair by (unfold src; rewrite app_length; lia).
      unfold src. rewrite app_nth1 by lia. rewrite Em by (apply nth_In; lia). f_equal. apply index_of_nth; [exact HNDm1 | lia].
    - destruct (memb j b2) eqn:Eb2.
      + apply memb_In in Eb2. set (k := index_of j b2). assert (Hk : k < length b2) by (now apply index_of_lt).
        assert (Ej : nth (length m2 + k) dst 0 = j).
        { unfold dst. rewrite app_nth2 by lia. replace (length m2 + k - length m2) with k by lia. now apply nth_index_of. }
        rewrite <- Ej at 1. rewrite Hall2_pair by (unfold src; rewrite app_length; lia).
        unfold src. rewrite app_nth2 by lia. replace (length m2 + k - length m1) with k by lia.
        apply EF1. apply In_free1. assert (Hin : In (nth k b1 0) b1) by (apply nth_In; lia).
        split; [apply Hr1; apply in_or_app; now right | intros Hm; exact (Hm1b1 _ Hm Hin)].
      + assert (Hn : ~ In j dst).
        { unfold dst. intros Hin. apply in_app_or in Hin. destruct Hin as [Hin|Hin]; apply memb_In in Hin; congruence. }
        rewrite Hall2_free by assumption. apply EF2. apply In_free2. split; assumption. }
  unfold term, ins. cbn [combine map fst snd rprod fold_right]. fold e. rewrite E1, E2. ring.
Qed.

End P.

(* the request as the code checks it (_validate_contraction_modes accepts both mode lists) + the modes of each tensor distinct *)
Definition td_valid (s1 s2 m1 m2 b1 b2 : list nat) : Prop :=
  validate_modes s1 s2 m1 m2 = true /\ validate_modes s1 s2 b1 b2 = true /\ NoDup (m1 ++ b1) /\ NoDup (m2 ++ b2).

Lemma validate_modes_inv s1 s2 m1 m2 : validate_modes s1 s2 m1 m2 = true ->
  length m1 = length m2 /\
  forall k, k < length m1 -> nth k m1 0 < length s1 /\ nth k m2 0 < length s2 /\ nth (nth k m1 0) s1 0 = nth (nth k m2 0) s2 0.
Proof.
  unfold validate_modes. rewrite andb_true_iff. intros [Hl Hf]. apply Nat.eqb_eq in Hl. split; [exact Hl|].
  intros k Hk. rewrite forallb_forall in Hf.
  assert (Hin : In (nth k m1 0, nth k m2 0) (combine m1 m2)).
  { rewrite <- (combine_nth m1 m2 k 0 0 Hl). apply nth_In. rewrite combine_length. lia. }
  specialize (Hf _ Hin). cbn [fst snd] in Hf. rewrite !andb_true_iff, !Nat.ltb_lt, Nat.eqb_eq in Hf. tauto.
Qed.

Lemma td_valid_ok s1 s2 m1 m2 b1 b2 : td_valid s1 s2 m1 m2 b1 b2 -> td_ok s1 s2 m1 m2 b1 b2.
Proof.
  intros (Hv1 & Hv2 & Hnd1 & Hnd2). destruct (validate_modes_inv _ _ _ _ Hv1) as [Hlm Hm]. destruct (validate_modes_inv _ _ _ _ Hv2) as [Hlb Hb].
  assert (Hcase : forall k, k < length (m1 ++ b1) ->
            nth k (m1 ++ b1) 0 < length s1 /\ nth k (m2 ++ b2) 0 < length s2 /\ nth (nth k (m1 ++ b1) 0) s1 0 = nth (nth k (m2 ++ b2) 0) s2 0).
  { intros k Hk. rewrite app_length in Hk. destruct (Nat.lt_ge_cases k (length m1)) as [H|H].
    - rewrite !app_nth1 by lia. now apply Hm.
    - rewrite !app_nth2 by lia. rewrite <- Hlm. apply Hb. lia. }
  unfold td_ok. split; [exact Hlm|]. split; [exact Hlb|]. split; [exact Hnd1|]. split; [exact Hnd2|]. split; [|split].
  - intros i Hi. destruct (In_nth _ _ 0 Hi) as [k [Hk <-]]. now apply Hcase.
  - intros j Hj. destruct (In_nth _ _ 0 Hj) as [k [Hk <-]]. apply Hcase. rewrite app_length in *. lia.
  - intros k Hk. now apply Hcase.
Qed.
