(* tensordot(t1, t2, modes=k) with an int k (no batched modes) is the generalised inner product inner(t1, t2, n_modes=k):
   the int form of _validate_contraction_modes pairs the last k modes of t1 with the first k modes of t2, and the index
   formula of C02_tensordot_core specialises to the one of C02_inner_core. *)
From Coq Require Import List Arith ZArith Lia Ring Bool Permutation.
From TLV Require Import Base.Shape Base.PyList Base.Tensor Base.BigSum Model.Base Proofs.BaseProofs Model.Tenalg
  Proofs.TenalgProofs Proofs.TenalgProofsEinsum Proofs.TenalgProofsInner Proofs.TenalgProofsEinsumInner
  Proofs.TenalgProofsTdotE Proofs.TenalgProofsTdotC Proofs.TenalgProofsValidate.
Import ListNotations.

Lemma memb_seq i a n : memb i (seq a n) = (a <=? i) && (i <? a + n).
Proof.
  destruct (memb i (seq a n)) eqn:E.
  - apply memb_In in E. apply in_seq in E. symmetry. apply andb_true_iff. split; [apply Nat.leb_le | apply Nat.ltb_lt]; lia.
  - apply memb_false in E. rewrite in_seq in E. symmetry. apply andb_false_iff.
    destruct (Nat.leb_spec a i); [right; apply Nat.ltb_ge; lia | now left].
Qed.
Lemma permute_seq_app_l (s t : list nat) : permute 0 (seq 0 (length s)) (s ++ t) = s.
Proof.
  unfold permute. apply nth_ext with (d := 0) (d' := 0); [now rewrite map_length, seq_length|]. intros j Hj.
  rewrite map_length, seq_length in Hj. rewrite (nth_map' _ _ _ 0) by (now rewrite seq_length). rewrite seq_nth by exact Hj. now apply app_nth1.
Qed.
Lemma permute_seq_app_r (s t : list nat) : permute 0 (seq (length s) (length t)) (s ++ t) = t.
Proof.
  unfold permute. apply nth_ext with (d := 0) (d' := 0); [now rewrite map_length, seq_length|]. intros j Hj.
  rewrite map_length, seq_length in Hj. rewrite (nth_map' _ _ _ 0) by (now rewrite seq_length). rewrite seq_nth by exact Hj.
  rewrite app_nth2 by lia. f_equal. lia.
Qed.

Section P.
Context {F : Type} (Op : rops F).
Notation d := (r0 Op).
Infix "*r" := (rmul Op) (at level 40, left associativity).

Theorem tensordot_int_modes_is_inner (A B : tensor F) (sa sc sb : list nat) :
  wf A -> wf B -> shape A = sa ++ sc -> shape B = sc ++ sb -> 0 < prod (shape A) -> 0 < prod (shape B) ->
  tensordot_raw Op true A B (MInt (Z.of_nat (length sc))) (MSeq []) = inner Op A B (Some (length sc)).
Proof.
  intros WA WB HsA HsB HpA HpB. set (k := length sc). set (la := length sa). set (lb := length sb).
  assert (Hn1 : length (shape A) = la + k) by (rewrite HsA, app_length; reflexivity).
  assert (Hn2 : length (shape B) = k + lb) by (rewrite HsB, app_length; reflexivity).
  assert (Hsizes : forall i, i < k -> nth (length (shape A) - k + i) (shape A) 0 = nth i (shape B) 0).
  { intros i Hi. rewrite Hn1, HsA, HsB. rewrite app_nth2 by (fold la; lia). rewrite app_nth1 by (fold k; lia). f_equal. fold la. lia. }
  unfold tensordot_raw. rewrite (validate_contraction_int (shape A) (shape B) k) by (try exact Hsizes; lia).
  cbn [rbind validate_contraction ints_of norm_modes fst snd]. rewrite Hn1. replace (la + k - k) with la by lia.
  set (m1 := seq la k). set (m2 := seq 0 k).
  assert (Hval : td_valid (shape A) (shape B) m1 m2 [] []).
  { split; [|split; [reflexivity | split; rewrite app_nil_r; apply seq_NoDup]].
    apply validate_modes_ok; unfold m1, m2; rewrite ?seq_length; try reflexivity.
    - intros i Hi. apply in_seq in Hi. lia.
    - intros j Hj. apply in_seq in Hj. lia.
    - intros i Hi. rewrite !seq_nth by exact Hi. cbn [Nat.add]. specialize (Hsizes i Hi). rewrite Hn1 in Hsizes.
      replace (la + k - k + i) with (la + i) in Hsizes by lia. exact Hsizes. }
  destruct (tensordot_core_spec Op A B m1 m2 [] [] WA WB HpA HpB Hval) as [R1 [E1 [W1 [S1 G1]]]].
  destruct (inner_core_spec Op A B sa sc sb WA WB HsA HsB HpA HpB) as [R2 [E2 [W2 [S2 G2]]]].
  fold k in E2. rewrite E1, E2. f_equal.
  (* free modes *)
  assert (HF1 : free1 m1 (la + k) = seq 0 la).
  { unfold free1, m1. rewrite seq_app, filter_app. cbn [Nat.add].
    rewrite (filter_seq_all _ la 0), (filter_seq_none _ k la); [now rewrite app_nil_r | |].
    - intros l Hl. rewrite memb_seq. apply negb_false_iff. apply andb_true_iff. split; [apply Nat.leb_le | apply Nat.ltb_lt]; lia.
    - intros l Hl. rewrite memb_seq. apply negb_true_iff. apply andb_false_iff. left. apply Nat.leb_gt. lia. }
  assert (HF2 : free2 m2 [] (k + lb) = seq k lb).
  { unfold free2, m2. rewrite app_nil_r, seq_app, filter_app. cbn [Nat.add].
    rewrite (filter_seq_none _ k 0), (filter_seq_all _ lb k); [reflexivity | |].
    - intros l Hl. rewrite memb_seq. apply negb_true_iff. apply andb_false_iff. right. apply Nat.ltb_ge. lia.
    - intros l Hl. rewrite memb_seq. apply negb_false_iff. apply andb_true_iff. split; [apply Nat.leb_le | apply Nat.ltb_lt]; lia. }
  assert (Hshape : td_shape m1 m2 [] (shape A) (shape B) = sa ++ sb).
  { unfold td_shape. rewrite Hn1, Hn2, HF1, HF2, HsA, HsB. unfold la, k, lb. now rewrite permute_seq_app_l, permute_seq_app_r. }
  apply tensor_ext with (d := d); [exact W1 | exact W2 | rewrite S1, S2; exact Hshape|].
  intros idx Hi. rewrite S1, Hshape in Hi.
  assert (Hl : length idx = la + lb) by (rewrite (inb_length _ _ Hi), app_length; reflexivity).
  rewrite <- (firstn_skipn la idx) in Hi |- *. set (a := firstn la idx) in *. set (b := skipn la idx) in *.
  assert (Hla : length a = la) by (unfold a; rewrite firstn_length; lia).
  apply inb_app_inv in Hi; [|exact Hla]. destruct Hi as [Ha Hb].
  assert (Hlb : length b = lb) by (now apply inb_length).
  rewrite G1 by (rewrite S1, Hshape; now apply inb_app). rewrite G2 by assumption.
  assert (Hcs : permute 0 m1 (shape A) = sc) by (unfold m1; rewrite HsA; unfold la, k; apply permute_seq_app_r).
  rewrite Hcs. unfold ssum. apply (sum_idx_ext F (r0 Op) (radd Op)). intros c Hc.
  assert (Hlc : length c = k) by (now apply inb_length).
  unfold ndim. rewrite Hn1, Hn2. f_equal; f_equal.
  - unfold td_ia. rewrite HF1. apply nth_ext with (d := 0) (d' := 0); [rewrite map_length, seq_length, app_length; lia|].
    intros i Hi'. rewrite map_length, seq_length in Hi'. rewrite (nth_map' _ _ _ 0) by (now rewrite seq_length).
    rewrite seq_nth by exact Hi'. cbn [Nat.add]. unfold m1. rewrite memb_seq.
    destruct (Nat.lt_ge_cases i la) as [H|H].
    + assert (E : (la <=? i) = false) by (apply Nat.leb_gt; exact H). rewrite E. cbn [andb].
      replace i with (0 + i) at 1 by lia. rewrite index_of_seq by exact H. rewrite !app_nth1 by lia. reflexivity.
    + assert (E : ((la <=? i) && (i <? la + k)) = true) by (apply andb_true_iff; split; [apply Nat.leb_le | apply Nat.ltb_lt]; lia).
      rewrite E. replace i with (la + (i - la)) at 1 by lia. rewrite index_of_seq by lia. rewrite app_nth2 by lia. f_equal. lia.
  - unfold td_ib. rewrite HF1, HF2, seq_length. apply nth_ext with (d := 0) (d' := 0); [rewrite map_length, seq_length, app_length; lia|].
    intros j Hj. rewrite map_length, seq_length in Hj. rewrite (nth_map' _ _ _ 0) by (now rewrite seq_length).
    rewrite seq_nth by exact Hj. cbn [Nat.add memb]. unfold m2. rewrite memb_seq.
    destruct (Nat.lt_ge_cases j k) as [H|H].
    + assert (E : ((0 <=? j) && (j <? 0 + k)) = true) by (apply andb_true_iff; split; [apply Nat.leb_le | apply Nat.ltb_lt]; lia).
      rewrite E. replace j with (0 + j) at 1 by lia. rewrite index_of_seq by exact H. rewrite app_nth1 by lia. reflexivity.
    + assert (E : (j <? 0 + k) = false) by (apply Nat.ltb_ge; lia). rewrite E, andb_false_r.
      replace j with (k + (j - k)) at 1 by lia. rewrite index_of_seq by lia. rewrite !app_nth2 by lia. f_equal. lia.
Qed.

End P.

Example tensordot_int_modes_is_inner_nonvacuous :
  let A : tensor Z := mk [2; 3] [1; 2; 3; 4; 5; 6]%Z in let B : tensor Z := mk [3; 2] [1; 0; -1; 2; 0; 1]%Z in
  wf A /\ wf B /\ shape A = [2] ++ [3] /\ shape B = [3] ++ [2] /\ 0 < prod (shape A) /\ 0 < prod (shape B) /\
  tensordot_raw ZR true A B (MInt 1%Z) (MSeq []) = Ok (mk [2; 2] [-1; 7; -1; 16]%Z) /\
  tensordot_raw ZR false A B (MInt 1%Z) (MSeq []) = inner ZR A B (Some 1).
Proof. cbv zeta. repeat split; try (vm_compute; reflexivity); vm_compute; auto with arith. Qed.
