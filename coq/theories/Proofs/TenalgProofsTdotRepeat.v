(* core tensordot with a mode of one tensor named twice (among its contracted and batched modes): the transposition
   batch ++ free ++ contracted is then not a permutation of the axes and the routine rejects (np.transpose raises
   "repeated axis in transpose") - for every operand pair and every such request.  (The einsum backend takes np.einsum's
   diagonal there; the request has no textbook value - correspondence only.) *)
From Coq Require Import List Arith ZArith Lia Bool Permutation.
From TLV Require Import Base.Shape Base.PyList Base.Tensor Base.BigSum Model.Base Proofs.BaseProofs Model.Tenalg
  Proofs.TenalgProofs Proofs.TenalgProofsSort Proofs.TenalgProofsTdotC.
Import ListNotations.

Lemma map_fst_combine_eq {A B} : forall (l1 : list A) (l2 : list B), length l1 = length l2 -> map fst (combine l1 l2) = l1.
Proof. induction l1 as [|a l1 IH]; intros [|b l2] H; cbn in *; try lia; [reflexivity|]. f_equal. apply IH. lia. Qed.
Lemma map_snd_combine_eq {A B} : forall (l1 : list A) (l2 : list B), length l1 = length l2 -> map snd (combine l1 l2) = l2.
Proof. induction l1 as [|a l1 IH]; intros [|b l2] H; cbn in *; try lia; [reflexivity|]. f_equal. apply IH. lia. Qed.

Lemma nodup_app_tail {A} (l l' : list A) : NoDup (l ++ l') -> NoDup l'.
Proof. induction l as [|a l IH]; cbn; intros H; [exact H|]. inversion H; subst. now apply IH. Qed.
Lemma nodup_app_head {A} (l l' : list A) : NoDup (l ++ l') -> NoDup l.
Proof. intros H. apply (Permutation_NoDup (Permutation_app_comm l l')) in H. exact (nodup_app_tail _ _ H). Qed.

Section P.
Context {F : Type} (Op : rops F).

Theorem tensordot_core_rejects_repeated (A B : tensor F) (m1 m2 b1 b2 : list nat) :
  ~ NoDup (m1 ++ b1) \/ ~ NoDup (m2 ++ b2) -> tensordot Op A B m1 m2 b1 b2 = Err.
Proof.
  intros Hrep. unfold tensordot. cbv zeta.
  destruct (validate_modes (shape A) (shape B) m1 m2 && validate_modes (shape A) (shape B) b1 b2) eqn:Ev; [|reflexivity].
  apply andb_true_iff in Ev. destruct Ev as [_ Ev]. unfold validate_modes in Ev. apply andb_true_iff in Ev. destruct Ev as [Hl _].
  apply Nat.eqb_eq in Hl.
  match goal with |- (if ?c then _ else _) = Err => destruct c eqn:E end; [exfalso|reflexivity].
  apply andb_true_iff in E. destruct E as [E1 E2].
  apply is_permb_spec in E1. destruct E1 as [_ [N1 _]]. apply is_permb_spec in E2. destruct E2 as [_ [N2 _]].
  assert (Hperm : Permutation (sort_pairs (combine b1 b2)) (combine b1 b2)) by (rewrite sort_pairs_gsort; apply gsort_Permutation).
  assert (P1 : Permutation (map fst (sort_pairs (combine b1 b2))) b1).
  { rewrite <- (map_fst_combine_eq b1 b2 Hl) at 2. now apply Permutation_map. }
  assert (P2 : Permutation (map snd (sort_pairs (combine b1 b2))) b2).
  { rewrite <- (map_snd_combine_eq b1 b2 Hl) at 2. now apply Permutation_map. }
  destruct Hrep as [H|H]; apply H.
  - set (b1' := map fst (sort_pairs (combine b1 b2))) in *. set (new1 := not_in (b1' ++ m1) (length (shape A))) in *.
    assert (Q : Permutation (b1' ++ new1 ++ m1) (new1 ++ m1 ++ b1)).
    { eapply Permutation_trans; [apply Permutation_app_comm|]. rewrite <- app_assoc. apply Permutation_app_head.
      apply Permutation_app_head. exact P1. }
    apply (Permutation_NoDup Q) in N1. exact (nodup_app_tail _ _ N1).
  - set (b2' := map snd (sort_pairs (combine b1 b2))) in *. set (new2 := not_in (b2' ++ m2) (length (shape B))) in *.
    assert (Q : Permutation (b2' ++ m2 ++ new2) ((m2 ++ b2) ++ new2)).
    { rewrite app_assoc. apply Permutation_app_tail. eapply Permutation_trans; [apply Permutation_app_comm|].
      apply Permutation_app_head. exact P2. }
    apply (Permutation_NoDup Q) in N2. exact (nodup_app_head _ _ N2).
Qed.
End P.

Lemma tensordot_repeated_nonvacuous :
  let A : tensor Z := mk [2; 2] [1; 2; 3; 4]%Z in let B : tensor Z := mk [2; 2] [1; 0; 0; 1]%Z in
  ~ NoDup ([0; 0] ++ @nil nat) /\ validate_modes (shape A) (shape B) [0; 0] [0; 1] = true /\
  tensordot ZR A B [0; 0] [0; 1] [] [] = Err /\
  tensordot_e ZR A B [0; 0] [0; 1] [] [] = Ok (mk [2] [4; 6]%Z).
Proof.
  cbv zeta. repeat split; try reflexivity.
  intros H. inversion H as [|? ? Hn _]; subst. apply Hn. now left.
Qed.
