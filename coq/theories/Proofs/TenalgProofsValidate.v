(* tenalg_utils._validate_contraction_modes (Model/Tenalg.v: validate_contraction / norm_modes): what an accepted request
   normalises to, the explicit-list form is the identity guarded by validate_modes, the int form of `modes` pairs the last k
   modes of tensor1 with the first k modes of tensor2. *)
From Coq Require Import List Arith ZArith Lia Bool.
From TLV Require Import Base.Shape Base.PyList Base.Tensor Base.BigSum Model.Base Model.Tenalg.
Import ListNotations.

Lemma py_index_nat n i : i < n -> py_index n (Z.of_nat i) = Some i.
Proof.
  intros H. unfold py_index. assert (E : ((0 <=? Z.of_nat i) && (Z.of_nat i <? Z.of_nat n))%Z = true).
  { apply andb_true_iff. split; [apply Z.leb_le | apply Z.ltb_lt]; lia. }
  rewrite E. f_equal. lia.
Qed.
Lemma py_index_nat_out n i : n <= i -> py_index n (Z.of_nat i) = None.
Proof.
  intros H. unfold py_index.
  assert (E1 : (Z.of_nat i <? Z.of_nat n)%Z = false) by (apply Z.ltb_ge; lia).
  assert (E2 : (Z.of_nat i <? 0)%Z = false) by (apply Z.ltb_ge; lia).
  rewrite E1, E2, andb_false_r. reflexivity.
Qed.
Lemma py_index_neg n k i : i < k -> k <= n -> py_index n (Z.of_nat i - Z.of_nat k) = Some (n - k + i).
Proof.
  intros H1 H2. unfold py_index.
  assert (E1 : (0 <=? Z.of_nat i - Z.of_nat k)%Z = false) by (apply Z.leb_gt; lia).
  assert (E2 : ((Z.of_nat i - Z.of_nat k <? 0) && (- Z.of_nat n <=? Z.of_nat i - Z.of_nat k))%Z = true).
  { apply andb_true_iff. split; [apply Z.ltb_lt | apply Z.leb_le]; lia. }
  rewrite E1, E2. cbn [andb]. f_equal. lia.
Qed.
(* an accepted entry is the Python normalisation of the given one *)
Lemma py_index_spec n z i : py_index n z = Some i -> i < n /\ ((0 <= z /\ Z.of_nat i = z) \/ (z < 0 /\ Z.of_nat i = z + Z.of_nat n))%Z.
Proof.
  unfold py_index. destruct ((0 <=? z) && (z <? Z.of_nat n))%Z eqn:E1.
  - apply andb_true_iff in E1. destruct E1 as [A B]. apply Z.leb_le in A. apply Z.ltb_lt in B. intros H. injection H as <-. lia.
  - destruct ((z <? 0) && (- Z.of_nat n <=? z))%Z eqn:E2; [|discriminate].
    apply andb_true_iff in E2. destruct E2 as [A B]. apply Z.ltb_lt in A. apply Z.leb_le in B. intros H. injection H as <-. lia.
Qed.

Theorem norm_modes_sound s1 s2 : forall l1 l2 m1 m2, norm_modes s1 s2 l1 l2 = Ok (m1, m2) ->
  validate_modes s1 s2 m1 m2 = true /\
  Forall2 (fun z i => py_index (length s1) z = Some i) l1 m1 /\ Forall2 (fun z j => py_index (length s2) z = Some j) l2 m2.
Proof.
  induction l1 as [|z1 r1 IH]; intros [|z2 r2] m1 m2 H; cbn [norm_modes] in H; try discriminate.
  - injection H as <- <-. repeat split; constructor.
  - destruct (py_index (length s1) z1) as [i|] eqn:E1; [|discriminate].
    destruct (py_index (length s2) z2) as [j|] eqn:E2; [|discriminate].
    destruct (nth i s1 0 =? nth j s2 0) eqn:E3; [|discriminate].
    destruct (norm_modes s1 s2 r1 r2) as [[p1 p2]|] eqn:E4; [|discriminate]. cbn [rbind fst snd] in H. injection H as <- <-.
    destruct (IH r2 p1 p2 E4) as [Hv [H1 H2]]. split; [|split; constructor; assumption].
    unfold validate_modes in *. apply andb_true_iff in Hv. destruct Hv as [Hl Hf]. cbn [length combine forallb fst snd].
    apply andb_true_iff. split; [exact Hl|]. rewrite Hf, E3, !andb_true_r. apply andb_true_iff.
    destruct (py_index_spec _ _ _ E1) as [A _]. destruct (py_index_spec _ _ _ E2) as [B _]. split; apply Nat.ltb_lt; assumption.
Qed.

(* explicit lists of non-negative modes: the identity, guarded by the check *)
Theorem norm_modes_explicit s1 s2 : forall m1 m2,
  norm_modes s1 s2 (map Z.of_nat m1) (map Z.of_nat m2) = if validate_modes s1 s2 m1 m2 then Ok (m1, m2) else Err.
Proof.
  induction m1 as [|i r1 IH]; intros [|j r2]; cbn [map norm_modes]; try reflexivity.
  specialize (IH r2). unfold validate_modes in *. cbn [length combine forallb fst snd Nat.eqb].
  destruct (Nat.lt_ge_cases i (length s1)) as [Hi|Hi].
  - rewrite (py_index_nat _ _ Hi). destruct (Nat.lt_ge_cases j (length s2)) as [Hj|Hj].
    + rewrite (py_index_nat _ _ Hj). apply Nat.ltb_lt in Hi, Hj. rewrite Hi, Hj. cbn [andb].
      destruct (nth i s1 0 =? nth j s2 0); [|now rewrite andb_false_r].
      rewrite IH. cbn [andb]. destruct (length r1 =? length r2); cbn [andb]; [|reflexivity].
      destruct (forallb _ (combine r1 r2)); reflexivity.
    + rewrite (py_index_nat_out _ _ Hj). apply Nat.ltb_ge in Hj. rewrite Hj, andb_false_r. cbn [andb]. now rewrite andb_false_r.
  - rewrite (py_index_nat_out _ _ Hi). apply Nat.ltb_ge in Hi. rewrite Hi. cbn [andb]. now rewrite andb_false_r.
Qed.

Section P.
Context {F : Type} (Op : rops F).

(* tensordot called with explicit lists of non-negative modes is the function the index-formula theorems are about *)
Theorem tensordot_raw_explicit (core : bool) (A B : tensor F) (m1 m2 b1 b2 : list nat) :
  tensordot_raw Op core A B (MSeq [SList (map Z.of_nat m1); SList (map Z.of_nat m2)]) (MSeq [SList (map Z.of_nat b1); SList (map Z.of_nat b2)])
  = (if core then tensordot Op else tensordot_e Op) A B m1 m2 b1 b2.
Proof.
  unfold tensordot_raw. cbn [validate_contraction side_list]. rewrite !norm_modes_explicit.
  destruct (validate_modes (shape A) (shape B) m1 m2) eqn:E1; cbn [rbind].
  - destruct (validate_modes (shape A) (shape B) b1 b2) eqn:E2; cbn [rbind fst snd]; [destruct core; reflexivity|].
    destruct core; [unfold tensordot | unfold tensordot_e]; now rewrite E1, E2.
  - destruct core; [unfold tensordot | unfold tensordot_e]; now rewrite E1.
Qed.

(* whatever the argument forms: an accepted call is the call on the Python-normalised mode lists, which pass the check *)
Theorem tensordot_raw_normalised (core : bool) (A B : tensor F) (ma ba : marg) (R : tensor F) :
  tensordot_raw Op core A B ma ba = Ok R ->
  exists m1 m2 b1 b2, validate_contraction (shape A) (shape B) ma false = Ok (m1, m2) /\
    validate_contraction (shape A) (shape B) ba true = Ok (b1, b2) /\
    (if core then tensordot Op else tensordot_e Op) A B m1 m2 b1 b2 = Ok R.
Proof.
  unfold tensordot_raw. destruct (validate_contraction (shape A) (shape B) ma false) as [[m1 m2]|]; [|discriminate].
  destruct (validate_contraction (shape A) (shape B) ba true) as [[b1 b2]|]; [|discriminate]. cbn [rbind fst snd].
  intros H. exists m1, m2, b1, b2. split; [reflexivity|]. split; [reflexivity | exact H].
Qed.
End P.

(* modes = k (an int): the last k modes of tensor1 with the first k modes of tensor2 *)
Lemma norm_modes_int s1 s2 k : k <= length s1 -> k <= length s2 ->
  (forall i, i < k -> nth (length s1 - k + i) s1 0 = nth i s2 0) ->
  forall n a, a + n <= k ->
  norm_modes s1 s2 (map (fun i => (Z.of_nat i - Z.of_nat k)%Z) (seq a n)) (map Z.of_nat (seq a n))
  = Ok (seq (length s1 - k + a) n, seq a n).
Proof.
  intros H1 H2 Hs. induction n as [|n IH]; intros a Ha; [reflexivity|]. cbn [seq map norm_modes].
  rewrite (py_index_neg (length s1) k a) by lia. rewrite (py_index_nat (length s2) a) by lia.
  rewrite Hs by lia. rewrite Nat.eqb_refl. rewrite IH by lia. cbn [rbind fst snd]. repeat f_equal. lia.
Qed.
Theorem validate_contraction_int s1 s2 k : k <= length s1 -> k <= length s2 ->
  (forall i, i < k -> nth (length s1 - k + i) s1 0 = nth i s2 0) ->
  validate_contraction s1 s2 (MInt (Z.of_nat k)) false = Ok (seq (length s1 - k) k, seq 0 k).
Proof.
  intros H1 H2 Hs. cbn [validate_contraction]. rewrite Nat2Z.id.
  rewrite (norm_modes_int s1 s2 k H1 H2 Hs k 0) by lia. now rewrite Nat.add_0_r.
Qed.
(* batched_modes = b (an int): mode b of both tensors; negative b counts from the end of each tensor *)
Theorem validate_contraction_int_batched s1 s2 z i j : py_index (length s1) z = Some i -> py_index (length s2) z = Some j ->
  nth i s1 0 = nth j s2 0 -> validate_contraction s1 s2 (MInt z) true = Ok ([i], [j]).
Proof. intros E1 E2 E3. cbn [validate_contraction norm_modes]. rewrite E1, E2, E3, Nat.eqb_refl. reflexivity. Qed.

Example validate_contraction_forms :
  validate_contraction [2; 3; 4] [4; 3; 5] (MInt 1%Z) false = Ok ([2], [0]) /\
  validate_contraction [2; 3; 4] [3; 4; 5] (MInt 2%Z) false = Ok ([1; 2], [0; 1]) /\
  validate_contraction [2; 3; 4] [3; 4; 5] (MInt 3%Z) false = Err /\
  validate_contraction [2; 3; 4] [5; 3] (MInt (-1)%Z) false = Ok ([], []) /\
  validate_contraction [2; 3; 4] [5; 3; 9] (MInt 1%Z) true = Ok ([1], [1]) /\
  validate_contraction [2; 3; 4] [4; 3] (MSeq [SList [-1; 1]%Z; SList [0; -1]%Z]) false = Ok ([2; 1], [0; 1]) /\
  validate_contraction [2; 3; 4] [4; 3] (MSeq [SInt (-1)%Z; SInt (-2)%Z]) false = Ok ([2], [0]) /\
  validate_contraction [2; 3; 4] [2; 3; 4] (MSeq [SInt 0%Z; SInt 1%Z; SInt 2%Z]) false = Ok ([0; 1; 2], [0; 1; 2]) /\
  validate_contraction [2; 3; 4] [2; 3; 4] (MSeq []) true = Ok ([], []) /\
  validate_contraction [2; 3; 4] [4; 3] (MSeq [SInt (-4)%Z; SInt 0%Z]) false = Err /\
  validate_contraction [2; 3; 4] [4; 3] (MSeq [SList [0; 1]%Z; SList [0]%Z]) false = Err /\
  validate_contraction [2; 3; 4] [2; 3; 4] (MSeq [SInt 0%Z; SList [1]%Z; SInt 2%Z]) false = Err.
Proof. repeat split; vm_compute; reflexivity. Qed.
