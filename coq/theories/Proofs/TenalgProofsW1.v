(* weights with a single entry (NumPy broadcasts them as a scalar) in the einsum-backend theorems: khatri_rao (two or more
   matrices) and MTTKRP with a length-1 weight vector are the routines on the weight vector repeated R times, so the entry
   formulas of khatri_rao_e_spec / mttkrp_e_spec apply with the constant weight w[0]. *)
From Coq Require Import List Arith ZArith Lia Ring Bool.
From TLV Require Import Base.Shape Base.PyList Base.Tensor Base.BigSum Model.Base Proofs.BaseProofs Model.Tenalg
  Proofs.TenalgProofs Proofs.TenalgProofsKR Proofs.TenalgProofsEinsumKR Proofs.TenalgProofsEinsumMttkrp.
Import ListNotations.

Section P.
Context {F : Type} (Op : rops F).
Notation d := (r0 Op).

Definition repeat_w (R : nat) (w : tensor F) : tensor F := tabulate [R] (fun _ => nth 0 (data w) d).

Lemma einsum_weights_scalar R (w : tensor F) : shape w = [1] -> R <> 1 ->
  einsum_weights Op R (Some w) = Ok (Some (repeat_w R w)) /\ einsum_weights Op R (Some (repeat_w R w)) = Ok (Some (repeat_w R w)).
Proof.
  intros Hs HR. unfold einsum_weights, ndim. rewrite Hs. cbn [length Nat.eqb prod fold_right shape repeat_w tabulate].
  apply Nat.eqb_neq in HR. rewrite Nat.mul_1_r. rewrite Nat.eqb_sym in HR. split.
  - now rewrite HR.
  - now rewrite Nat.mul_1_r, Nat.eqb_refl.
Qed.

Theorem khatri_rao_e_scalar_weight (Ms : list (tensor F)) (w : tensor F) (mask : option (tensor F)) (skip : option nat) (R : nat) :
  2 <= length (skipl skip Ms) -> mats R (skipl skip Ms) -> shape w = [1] -> R <> 1 ->
  khatri_rao_e Op Ms (Some w) mask skip = khatri_rao_e Op Ms (Some (repeat_w R w)) mask skip.
Proof.
  intros Hlen Hm Hs HR. unfold khatri_rao_e. destruct (skipl skip Ms) as [|M0 [|M1 rest]]; cbn [length] in Hlen; try lia.
  inversion Hm as [|? ? [W0 Hs0] _]; subst. assert (Hc0 : ncols M0 = R) by (unfold ncols; now rewrite Hs0).
  rewrite Hc0. destruct (einsum_weights_scalar R w Hs HR) as [E1 E2]. now rewrite E1, E2.
Qed.

Theorem mttkrp_e_scalar_weight (T : tensor F) (w : tensor F) (fs : list (tensor F)) (k R : nat) :
  remove_nth k fs <> [] -> mats R fs -> shape w = [1] -> R <> 1 ->
  mttkrp_e Op T (Some w) fs k = mttkrp_e Op T (Some (repeat_w R w)) fs k.
Proof.
  intros Hne Hm Hs HR. unfold mttkrp_e. destruct fs as [|f0 fs']; [reflexivity|]. cbv zeta.
  set (used := remove_nth k (f0 :: fs')) in *.
  destruct used as [|u used'] eqn:Eu; [congruence|].
  assert (Hu : ncols u = R).
  { assert (Hin : In u (f0 :: fs')).
    { assert (H : In u (remove_nth k (f0 :: fs'))) by (fold used; rewrite Eu; now left). clear -H.
      revert H. generalize (f0 :: fs'). revert k. induction k; intros [|a l] H; simpl in *; try tauto. destruct H; [tauto|]. right. now apply (IHk l). }
    unfold mats in Hm. rewrite Forall_forall in Hm. destruct (Hm u Hin) as [_ Hsu]. unfold ncols. now rewrite Hsu. }
  rewrite Hs. unfold repeat_w at 1 2 3 4 5 6. cbn [shape tabulate prod fold_right ndim length]. rewrite Hu, !Nat.mul_1_r.
  assert (Hnw : ndim w = 1) by (unfold ndim; now rewrite Hs). rewrite Hnw.
  apply Nat.eqb_neq in HR. rewrite !(Nat.eqb_refl 1). rewrite (Nat.eqb_sym 1 R), HR, Nat.eqb_refl. reflexivity.
Qed.

End P.

Section Q.
Context {F : Type} (Op : rops F).
Hypothesis Rth : ring_theory (r0 Op) (r1 Op) (radd Op) (rmul Op) (rsub Op) (ropp Op) (@eq F).
Notation d := (r0 Op).

Lemma wv_repeat_w R (w : tensor F) r : r < R -> wv Op (Some (repeat_w Op R w)) r = nth 0 (data w) d.
Proof.
  intros Hr. unfold wv, repeat_w. rewrite nth_tabulate by (cbn [prod fold_right]; lia). reflexivity.
Qed.

(* einsum khatri_rao, two or more matrices, a single weight: the entry formula with the constant weight w[0] *)
Theorem khatri_rao_e_scalar_weight_spec (Ms : list (tensor F)) (w : tensor F) (mask : option (tensor F)) (skip : option nat) (R : nat) :
  let Ms' := skipl skip Ms in
  2 <= length Ms' -> mats R Ms' -> 0 < R -> R <> 1 -> shape w = [1] ->
  (forall m0, mask = Some m0 -> shape m0 = map nrows Ms') ->
  exists K, khatri_rao_e Op Ms (Some w) mask skip = Ok K /\ wf K /\ shape K = [prod (map nrows Ms'); R] /\
    forall is_ r, inb (map nrows Ms') is_ -> r < R ->
      get d K [ravel (map nrows Ms') is_; r]
      = rmul Op (rmul Op (kr_entry Op Ms' is_ r) (nth 0 (data w) d)) (maskv Op mask (ravel (map nrows Ms') is_)).
Proof.
  intros Ms' Hlen Hm HR0 HR1 Hs Hmask.
  rewrite (khatri_rao_e_scalar_weight Op Ms w mask skip R Hlen Hm Hs HR1).
  assert (Hne : Ms' <> []) by (intros E; rewrite E in Hlen; cbn in Hlen; lia).
  destruct (khatri_rao_e_spec Op Rth Ms (Some (repeat_w Op R w)) mask skip R Hne Hm HR0) as [K [EK [WK [SK GK]]]];
    [intros w0 E; injection E as <-; reflexivity | exact Hmask|].
  exists K. split; [exact EK|]. split; [exact WK|]. split; [exact SK|].
  intros is_ r Hin Hr. etransitivity; [apply (GK is_ r Hin Hr)|]. now rewrite (wv_repeat_w R w r Hr).
Qed.
(* einsum MTTKRP (order >= 2) with a single weight: the textbook MTTKRP with the constant weight w[0] *)
Theorem mttkrp_e_scalar_weight_spec (Hc : conj_laws Op) (T : tensor F) (w : tensor F) (fs : list (tensor F)) (k R : nat) :
  wf T -> k < ndim T -> 0 < R -> R <> 1 -> map nrows fs = shape T -> mats R fs -> remove_nth k fs <> [] -> shape w = [1] ->
  exists Mt, mttkrp_e Op T (Some w) fs k = Ok Mt /\ wf Mt /\ shape Mt = [nth k (shape T) 0; R] /\
    forall i r, i < nth k (shape T) 0 -> r < R ->
      get d Mt [i; r] =
      ssum Op (remove_nth k (shape T))
        (fun ridx => rmul Op (get d T (insert_at k i ridx))
                             (rconj Op (rmul Op (kr_entry Op (remove_nth k fs) ridx r) (nth 0 (data w) d)))).
Proof.
  intros WT Hk HR0 HR1 Hrows Hm Hne Hs.
  rewrite (mttkrp_e_scalar_weight Op T w fs k R Hne Hm Hs HR1).
  destruct (mttkrp_e_spec Op Rth Hc T (Some (repeat_w Op R w)) fs k R WT Hk HR0 Hrows Hm) as [Mt [E [W [S G]]]];
    [intros w0 Ew; injection Ew as <-; split; [apply wf_tabulate | reflexivity]|].
  exists Mt. split; [exact E|]. split; [exact W|]. split; [exact S|].
  intros i r Hi Hr. rewrite (G i r Hi Hr). unfold ssum. apply (sum_idx_ext F (r0 Op) (radd Op)). intros ridx _.
  now rewrite (wv_repeat_w R w r Hr).
Qed.
End Q.

Example scalar_weight_nonvacuous :
  let A : tensor Z := mk [2; 2] [1; 2; 3; 4]%Z in let B : tensor Z := mk [3; 2] [1; 2; 3; 4; 5; 6]%Z in
  let w : tensor Z := mk [1] [5]%Z in let T : tensor Z := mk [2; 3] [1; 2; 3; 4; 5; 6]%Z in
  2 <= length (skipl None [A; B]) /\ mats 2 (skipl None [A; B]) /\ shape w = [1] /\ remove_nth 0 [A; B] <> [] /\
  khatri_rao_e ZR [A; B] (Some w) None None = Ok (mk [6; 2] [5; 20; 15; 40; 25; 60; 15; 40; 45; 80; 75; 120]%Z) /\
  mttkrp_e ZR T (Some w) [A; B] 0 = mttkrp_e ZR T (Some (repeat_w ZR 2 w)) [A; B] 0 /\
  exists R, mttkrp_e ZR T (Some w) [A; B] 0 = Ok R.
Proof.
  cbv zeta. split; [cbn; lia|]. split; [repeat constructor|]. split; [reflexivity|]. split; [discriminate|].
  split; [vm_compute; reflexivity|]. split; [vm_compute; reflexivity|]. eexists. vm_compute. reflexivity.
Qed.
