(* Ring-regime lemmas about Model/Transforms.v: valid for every record of operations whose
   (0, 1, +, *, -, opp) satisfy ring_theory (Z, R, Gaussian integers ...). *)
From Coq Require Import List Arith Lia Bool Ring Permutation.
From TLV Require Import Base.Shape Base.PyList Base.Tensor Base.BigSum Base.Ops Model.Transforms.
Import ListNotations.

Section RingRegime.
Context {F : Type} (Op : fops F).
Hypothesis Rth : ring_theory (f0 Op) (f1 Op) (fadd Op) (fmul Op) (fsub Op) (fopp Op) (@eq F).
Add Ring Fr : Rth.
Local Notation fz := (f0 Op).
Local Notation fone := (f1 Op).
Local Notation "a *f b" := (fmul Op a b) (at level 40, left associativity).
Local Notation "a +f b" := (fadd Op a b) (at level 50, left associativity).
Local Notation Sum := (sumn Op).

(* ---------- sums *)
Lemma sumn_ext n f g : (forall i, i < n -> f i = g i) -> Sum n f = Sum n g.
Proof. apply bigsum_ext. Qed.
Lemma sumn_scale_l n c f : Sum n (fun i => c *f f i) = c *f Sum n f.
Proof. apply (bigsum_scale_l F _ _ _ _ _ _ Rth). Qed.
Lemma sumn_scale_r n c f : Sum n (fun i => f i *f c) = Sum n f *f c.
Proof. apply (bigsum_scale_r F _ _ _ _ _ _ Rth). Qed.
Lemma sumn_exchange n m (f : nat -> nat -> F) :
  Sum n (fun i => Sum m (fun j => f i j)) = Sum m (fun j => Sum n (fun i => f i j)).
Proof. apply (bigsum_exchange F _ _ _ _ _ _ Rth). Qed.
Lemma sumn_zero n f : (forall i, i < n -> f i = fz) -> Sum n f = fz.
Proof. apply (bigsum_zero F _ _ _ _ _ _ Rth). Qed.
Lemma sumn_app n m f : Sum (n + m) f = Sum n f +f Sum m (fun j => f (n + j)).
Proof. apply (bigsum_app F _ _ _ _ _ _ Rth). Qed.
Lemma sumn_add n f g : Sum n (fun i => f i +f g i) = Sum n f +f Sum n g.
Proof. apply (bigsum_add F _ _ _ _ _ _ Rth). Qed.
Lemma sumn_single n k f : k < n -> (forall i, i < n -> i <> k -> f i = fz) -> Sum n f = f k.
Proof. apply (bigsum_single F _ _ _ _ _ _ Rth). Qed.
Lemma sumn_S n f : Sum (S n) f = Sum n f +f f n.
Proof. reflexivity. Qed.

(* sums are invariant under re-indexing by a permutation of 0..n-1 *)
Definition lsum (l : list nat) (f : nat -> F) : F := fold_right (fun k acc => f k +f acc) fz l.
Lemma lsum_app l1 l2 f : lsum (l1 ++ l2) f = lsum l1 f +f lsum l2 f.
Proof. induction l1; simpl; [ring | rewrite IHl1; ring]. Qed.
Lemma lsum_perm l l' f : Permutation l l' -> lsum l f = lsum l' f.
Proof. induction 1; simpl; try congruence; [ring]. Qed.
Lemma lsum_map (g : nat -> nat) l f : lsum (map g l) f = lsum l (fun k => f (g k)).
Proof. induction l; simpl; congruence. Qed.
Lemma sumn_lsum n f : Sum n f = lsum (seq 0 n) f.
Proof.
  induction n; [reflexivity|]. rewrite sumn_S, IHn, seq_S, lsum_app. simpl. ring.
Qed.
Lemma map_nth_seq (p : list nat) : map (fun r => nth r p 0) (seq 0 (length p)) = p.
Proof.
  apply nth_ext with (d := 0) (d' := 0); [now rewrite map_length, seq_length|].
  intros k Hk. rewrite map_length, seq_length in Hk.
  rewrite (nth_map' (fun r => nth r p 0) _ k 0 0) by (now rewrite seq_length).
  now rewrite seq_nth.
Qed.
Lemma is_perm_Permutation n p : is_permb n p = true -> Permutation p (seq 0 n).
Proof.
  intros H. destruct (is_permb_spec _ _ H) as (Hl & Hnd & Hb & _).
  apply NoDup_Permutation_bis; auto.
  - rewrite seq_length. lia.
  - intros k Hk. apply in_seq. specialize (Hb k Hk). lia.
Qed.
Lemma sumn_perm n p f : is_permb n p = true -> Sum n (fun r => f (nth r p 0)) = Sum n f.
Proof.
  intros H. pose proof (is_perm_Permutation _ _ H) as HP.
  assert (Hl : length p = n) by (destruct (is_permb_spec _ _ H); auto).
  rewrite !sumn_lsum. rewrite <- (lsum_map (fun r => nth r p 0)). rewrite <- Hl, map_nth_seq.
  rewrite Hl. now apply lsum_perm.
Qed.

(* ---------- element access *)
Lemma vget_nil r : vget Op [] r = fz.
Proof. unfold vget. now destruct r. Qed.
Lemma vget_overflow v r : length v <= r -> vget Op v r = fz.
Proof. intros. unfold vget. now apply nth_overflow. Qed.
Lemma mget_overflow_row (A : mat F) i r : length A <= i -> mget Op A i r = fz.
Proof. intros. unfold mget. rewrite (nth_overflow A) by assumption. now destruct r. Qed.
Lemma vget_map (f : F -> F) v r : r < length v -> vget Op (map f v) r = f (vget Op v r).
Proof. intros. unfold vget. now apply nth_map'. Qed.
Lemma vget_zipw_mul a : forall b r, vget Op (zipw (fmul Op) a b) r = vget Op a r *f vget Op b r.
Proof.
  unfold zipw. induction a as [|x a IH]; intros [|y b] r; cbn [combine map].
  - rewrite !vget_nil. ring.
  - rewrite !vget_nil. ring.
  - rewrite !vget_nil. ring.
  - destruct r; [reflexivity|]. exact (IH b r).
Qed.
Lemma mget_scale_cols A c i r : mget Op (scale_cols Op A c) i r = mget Op A i r *f vget Op c r.
Proof.
  unfold mget, scale_cols.
  change (@nil F) with ((fun row => zipw (fmul Op) row c) []) at 1.
  rewrite map_nth. apply vget_zipw_mul.
Qed.
Lemma length_scale_cols A c : length (scale_cols Op A c) = length A.
Proof. apply map_length. Qed.

(* ---------- one rank-one term *)
Lemma cp_term_split : forall k fs idx r, k < length fs -> k < length idx ->
  cp_term Op fs idx r = mget Op (nth k fs []) (nth k idx 0) r *f cp_term Op (remove_nth k fs) (remove_nth k idx) r.
Proof.
  induction k; intros [|A fs] [|i idx] r Hf Hi; simpl in *; try lia; [reflexivity|].
  rewrite (IHk fs idx r) by lia. ring.
Qed.
Lemma remove_set_nth {A} k (v : A) : forall l, remove_nth k (set_nth k v l) = remove_nth k l.
Proof. induction k; intros [|x l]; simpl; auto. now rewrite IHk. Qed.
Lemma cp_term_set : forall k fs idx r (A' : mat F) i, k < length fs -> k < length idx ->
  cp_term Op (set_nth k A' fs) (set_nth k i idx) r = mget Op A' i r *f cp_term Op (remove_nth k fs) (remove_nth k idx) r.
Proof.
  intros. rewrite (cp_term_split k) by (now rewrite set_nth_length).
  rewrite !remove_set_nth. now rewrite !nth_set_nth_same.
Qed.
Lemma set_nth_same {A} k (d : A) : forall l, set_nth k (nth k l d) l = l.
Proof. induction k; intros [|x l]; simpl; auto. now rewrite IHk. Qed.
Lemma cp_term_scale k fs idx r c : k < length fs -> k < length idx ->
  cp_term Op (set_nth k (scale_cols Op (nth k fs []) c) fs) idx r = vget Op c r *f cp_term Op fs idx r.
Proof.
  intros Hf Hi. rewrite <- (set_nth_same k 0 idx) at 1. rewrite cp_term_set by assumption.
  rewrite (cp_term_split k fs idx r) by assumption. rewrite mget_scale_cols. ring.
Qed.

(* ---------- column permutation (cp_permute_factors) *)
Lemma mget_permute_cols p A i r : r < length p -> mget Op (permute_cols Op p A) i r = mget Op A i (nth r p 0).
Proof.
  intros Hr. unfold mget, permute_cols. destruct (lt_dec i (length A)) as [Hi|Hi].
  - rewrite (nth_map' _ A i [] []) by assumption.
    rewrite (nth_map' _ p r 0 fz) by assumption. reflexivity.
  - rewrite (nth_overflow (map _ A)) by (rewrite map_length; lia).
    rewrite (nth_overflow A) by lia. transitivity (f0 Op); [|symmetry]; apply nth_overflow; simpl; lia.
Qed.
Lemma cp_term_permute p : forall fs idx r, r < length p ->
  cp_term Op (map (permute_cols Op p) fs) idx r = cp_term Op fs idx (nth r p 0).
Proof.
  induction fs as [|A fs IH]; intros [|i idx] r Hr; simpl; auto.
  now rewrite IH, mget_permute_cols.
Qed.
Theorem cp_permute_entry p w fs w' fs' idx :
  cp_permute Op p w fs = Ok (w', fs') -> cp_entry Op w' fs' idx = cp_entry Op w fs idx.
Proof.
  unfold cp_permute. destruct (is_permb (length w) p) eqn:Hp; [|discriminate]. intros E. injection E as <- <-.
  assert (Hl : length p = length w) by (destruct (is_permb_spec _ _ Hp); auto).
  unfold cp_entry. rewrite map_length, Hl.
  rewrite <- (sumn_perm (length w) p (fun r => vget Op w r *f cp_term Op fs idx r) Hp).
  apply sumn_ext. intros r Hr. rewrite cp_term_permute by lia.
  f_equal. unfold vget at 1. rewrite (nth_map' _ p r 0 fz) by lia. reflexivity.
Qed.
(* the result has the same shape and the permuted weights / columns, entry by entry *)
Lemma cp_permute_shape p w fs w' fs' : cp_permute Op p w fs = Ok (w', fs') -> cp_shape fs' = cp_shape fs /\ length w' = length w.
Proof.
  unfold cp_permute. destruct (is_permb (length w) p) eqn:Hp; [|discriminate]. intros E. injection E as <- <-.
  split. - unfold cp_shape. rewrite map_map. apply map_ext. intros A. unfold permute_cols. apply map_length.
  - rewrite map_length. destruct (is_permb_spec _ _ Hp); auto.
Qed.

(* ---------- sign flips (cp_flip_sign) *)
Section Flip.
Variable summ : list F -> F.
Hypothesis colsign_sq : forall x, colsign Op x *f colsign Op x = fone.
Hypothesis colsign_abs : forall x, colsign Op x *f fabs Op x = x.

Lemma flip_loop_length R mode : forall jjs fs, length (flip_loop Op summ R mode jjs fs) = length fs.
Proof.
  induction jjs as [|jj jjs IH]; intros fs; simpl; auto.
  destruct (Nat.eqb jj mode); rewrite IH; auto. now rewrite !set_nth_length.
Qed.
Lemma vget_signs (l : list F) r : r < length l -> vget Op (map (colsign Op) l) r *f vget Op (map (colsign Op) l) r = fone.
Proof. intros. rewrite vget_map by assumption. apply colsign_sq. Qed.
Lemma flip_loop_term R mode idx r : r < R -> forall jjs fs,
  mode < length fs -> length idx = length fs -> Forall (fun jj => jj < length fs) jjs ->
  cp_term Op (flip_loop Op summ R mode jjs fs) idx r = cp_term Op fs idx r.
Proof.
  intros Hr. induction jjs as [|jj jjs IH]; intros fs Hm Hi Hj; simpl; auto.
  inversion Hj as [|? ? Hjj Hrest]; subst.
  destruct (Nat.eqb jj mode); [apply IH; auto|].
  set (cs := map (colsign Op) (col_summaries Op summ (nth jj fs []) R)).
  set (fs1 := set_nth mode (scale_cols Op (nth mode fs []) cs) fs).
  assert (L1 : length fs1 = length fs) by (unfold fs1; now rewrite set_nth_length).
  rewrite IH; rewrite ?set_nth_length, ?L1; auto.
  rewrite cp_term_scale by (rewrite ?L1; lia). unfold fs1. rewrite cp_term_scale by lia.
    assert (E : vget Op cs r *f vget Op cs r = fone).
    { unfold cs. apply vget_signs. unfold col_summaries. now rewrite map_length, seq_length. }
    rewrite (Rmul_assoc Rth), E. ring.
Qed.

Theorem cp_flip_sign_entry w fs mode w' fs' idx :
  cp_flip_sign Op summ w fs mode = Ok (w', fs') -> length idx = length fs ->
  cp_entry Op w' fs' idx = cp_entry Op w fs idx.
Proof.
  unfold cp_flip_sign. destruct (mode <? length fs) eqn:Hm; [|discriminate]. apply Nat.ltb_lt in Hm.
  intros E Hi. injection E as <- <-. unfold cp_entry. rewrite map_length. apply sumn_ext. intros r Hr.
  set (fl := flip_loop Op summ (length w) mode (seq 0 (length fs)) fs).
  assert (Lf : length fl = length fs) by apply flip_loop_length.
  rewrite cp_term_scale by (rewrite ?Lf; lia).
  unfold fl. rewrite flip_loop_term; auto.
  - rewrite !vget_map by assumption.
    rewrite <- (colsign_abs (vget Op w r)) at 3. ring.
  - apply Forall_forall. intros k Hk. apply in_seq in Hk. lia.
Qed.
End Flip.

(* ---------- mode products (cp_mode_dot) *)
Lemma vget_vecmat v A r : r < ncols A ->
  vget Op (vecmat Op v A) r = Sum (length A) (fun i => vget Op v i *f mget Op A i r).
Proof.
  intros Hr. unfold vget at 1, vecmat.
  rewrite (nth_map' _ (seq 0 (ncols A)) r 0 fz) by (now rewrite seq_length).
  now rewrite seq_nth.
Qed.
Lemma mget_matmul M A j r : j < length M -> r < ncols A ->
  mget Op (matmul Op M A) j r = Sum (length A) (fun i => mget Op M j i *f mget Op A i r).
Proof.
  intros Hj Hr. unfold mget at 1, matmul. rewrite (nth_map' _ M j [] []) by assumption.
  now apply vget_vecmat.
Qed.

Lemma cp_shape_set_len : forall m (l : list (mat F)) X, length X = length (nth m l []) ->
  cp_shape (set_nth m X l) = cp_shape l.
Proof. unfold cp_shape. induction m; intros [|a l] X HX; simpl in *; auto; try congruence. f_equal. now apply IHm. Qed.
Lemma cp_shape_remove : forall k (fs : list (mat F)), cp_shape (remove_nth k fs) = remove_nth k (cp_shape fs).
Proof. unfold cp_shape. induction k; intros [|a l]; simpl; auto. now rewrite IHk. Qed.
Lemma cp_shape_set : forall k (fs : list (mat F)) X, cp_shape (set_nth k X fs) = set_nth k (length X) (cp_shape fs).
Proof. unfold cp_shape. induction k; intros [|a l] X; simpl; auto. now rewrite IHk. Qed.

Lemma length_matmul (M A : mat F) : length (matmul Op M A) = length M.
Proof. apply map_length. Qed.

(* matrix operand: factor k becomes M A_k; mode k gets length M entries; entry j of mode k is the M-combination of the old entries *)
Theorem cp_mode_dot_matrix w fs M k kd w' fs' idx j :
  cp_mode_dot Op w fs (OpMat M) k kd = Ok (w', fs') ->
  length idx = length fs -> j < length M -> length w <= ncols (nth k fs []) ->
  cp_shape fs' = set_nth k (length M) (cp_shape fs) /\
  cp_entry Op w' fs' (set_nth k j idx) =
  Sum (length (nth k fs [])) (fun i => mget Op M j i *f cp_entry Op w fs (set_nth k i idx)).
Proof.
  unfold cp_mode_dot. destruct (k <? length fs) eqn:Hk; [|discriminate]. apply Nat.ltb_lt in Hk.
  destruct (rectb _ M); [|discriminate]. intros E Hi Hj Hc. injection E as <- <-.
  split; [rewrite cp_shape_set; now rewrite length_matmul|].
  unfold cp_entry.
  rewrite (sumn_ext _ _ (fun r => Sum (length (nth k fs [])) (fun i =>
     mget Op M j i *f (vget Op w r *f (mget Op (nth k fs []) i r *f cp_term Op (remove_nth k fs) (remove_nth k idx) r))))).
  2:{ intros r Hr. rewrite cp_term_set by lia. rewrite mget_matmul by lia.
      rewrite <- sumn_scale_r, <- sumn_scale_l. apply sumn_ext. intros i _. ring. }
  rewrite sumn_exchange. apply sumn_ext. intros i _. rewrite <- sumn_scale_l. apply sumn_ext. intros r _.
  rewrite (cp_term_split k fs (set_nth k i idx) r) by (rewrite ?set_nth_length; lia). rewrite nth_set_nth_same, remove_set_nth by lia. ring.
Qed.

(* vector operand, keep_dim = True: the matrix case with the one-row matrix [v] *)
Theorem cp_mode_dot_vector_keep w fs v k w' fs' idx :
  cp_mode_dot Op w fs (OpVec v) k true = Ok (w', fs') ->
  length idx = length fs -> length w <= ncols (nth k fs []) ->
  cp_shape fs' = set_nth k 1 (cp_shape fs) /\
  cp_entry Op w' fs' (set_nth k 0 idx) =
  Sum (length (nth k fs [])) (fun i => vget Op v i *f cp_entry Op w fs (set_nth k i idx)).
Proof.
  intros E Hi Hc. unfold cp_mode_dot in E. destruct (k <? length fs) eqn:Hk; [|discriminate].
  destruct (Nat.eqb (length v) (length (nth k fs []))) eqn:Hv; [|discriminate]. injection E as <- <-.
  split.
  - apply cp_shape_set.
  - assert (E : cp_mode_dot Op w fs (OpMat [v]) k true = Ok (w, set_nth k [vecmat Op v (nth k fs [])] fs)).
    { unfold cp_mode_dot. rewrite Hk. cbn [rectb forallb]. rewrite Hv. reflexivity. }
    destruct (cp_mode_dot_matrix _ _ _ _ _ _ _ idx 0 E Hi) as [_ T]; [simpl; lia | exact Hc |]. rewrite T. reflexivity.
Qed.

(* vector operand, contraction: the mode disappears *)
Theorem cp_mode_dot_vector_contract w fs v k w' fs' idx' :
  cp_mode_dot Op w fs (OpVec v) k false = Ok (w', fs') ->
  S (length idx') = length fs -> length w <= ncols (nth k fs []) ->
  cp_shape fs' = remove_nth k (cp_shape fs) /\
  cp_entry Op w' fs' idx' =
  Sum (length (nth k fs [])) (fun i => vget Op v i *f cp_entry Op w fs (insert_at k i idx')).
Proof.
  intros E Hi Hc. unfold cp_mode_dot in E. destruct (k <? length fs) eqn:Hk; [|discriminate]. apply Nat.ltb_lt in Hk.
  destruct (Nat.eqb (length v) (length (nth k fs []))) eqn:Hv; [|discriminate].
  assert (Lr : length (remove_nth k fs) = length fs - 1) by (apply remove_nth_length; lia).
  destruct (remove_nth k fs) as [|B0 rest] eqn:Hrem; [discriminate|].
  assert (Hne : 0 < length (remove_nth k fs)) by (rewrite Hrem; simpl; lia).
  rewrite <- Hrem in *. clear Hrem B0 rest.
  injection E as <- <-.
  assert (Hp : pred k < length (remove_nth k fs)) by lia.
  split.
  - rewrite cp_shape_set_len by (apply length_scale_cols). apply cp_shape_remove.
  - unfold cp_entry.
    rewrite (sumn_ext _ _ (fun r => Sum (length (nth k fs [])) (fun i =>
       vget Op v i *f (vget Op w r *f (mget Op (nth k fs []) i r *f cp_term Op (remove_nth k fs) idx' r))))).
    2:{ intros r Hr. rewrite cp_term_scale by lia. rewrite vget_vecmat by lia.
        rewrite <- !sumn_scale_r, <- sumn_scale_l. apply sumn_ext. intros i _. ring. }
    rewrite sumn_exchange. apply sumn_ext. intros i _. rewrite <- sumn_scale_l. apply sumn_ext. intros r _.
    rewrite (cp_term_split k fs (insert_at k i idx') r) by (rewrite ?insert_at_length; lia).
    rewrite nth_insert_same, remove_insert by lia. ring.
Qed.

End RingRegime.
