(* Soundness of the brute-force optimality check of an assignment (aligned component order), for every rank. *)
From Coq Require Import List Arith Lia Bool Ring ZArith Permutation.
From TLV Require Import Base.Shape Base.PyList Base.Tensor Base.BigSum Base.Ops Model.Transforms Proofs.TransformsProofs.
Import ListNotations.

Lemma insert_all_In x : forall l1 l2, In (l1 ++ x :: l2) (insert_all x (l1 ++ l2)).
Proof.
  induction l1 as [|y l1 IH]; intros l2; simpl.
  - destruct l2; simpl; auto.
  - right. apply in_map. apply IH.
Qed.
Lemma perms_complete : forall l l', Permutation l l' -> In l' (perms l).
Proof.
  induction l as [|x l IH]; intros l' HP.
  - apply Permutation_nil in HP. subst. simpl. auto.
  - assert (Hx : In x l') by (eapply Permutation_in; [exact HP | now left]).
    apply in_split in Hx. destruct Hx as (l1 & l2 & ->).
    apply Permutation_cons_app_inv in HP. cbn [perms]. apply in_flat_map.
    exists (l1 ++ l2). split; [now apply IH | apply insert_all_In].
Qed.
(* soundness of the checker, for every rank: no assignment scores more than the accepted one (up to tol) *)
Theorem is_optimalb_sound {F} (Op : fops F) tol n M p :
  is_optimalb Op tol n M p = true ->
  is_permb n p = true /\
  forall q, is_permb n q = true -> fleb Op (assign_score Op M q) (fadd Op (assign_score Op M p) tol) = true.
Proof.
  unfold is_optimalb. intros H. apply andb_true_iff in H. destruct H as [Hp H]. split; [exact Hp|].
  intros q Hq. rewrite forallb_forall in H. apply H. apply perms_complete.
  apply Permutation_sym. now apply is_perm_Permutation.
Qed.

