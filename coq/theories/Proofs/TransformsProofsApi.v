(* The input forms of cp_mode_dot / cp_flip_sign (CPTensor object vs plain tuple, weights None): what holds, what fails. *)
From Coq Require Import List Arith Lia Bool ZArith.
From TLV Require Import Base.Shape Base.PyList Base.Tensor Base.BigSum Base.Ops Model.Transforms.
Import ListNotations.

(* proofs *)
Lemma cp_mode_dot_api_class {F} (Op : fops F) (copy : bool) (w : list F) (fs : list (mat F)) (x : operand) (mode : nat) (kd : bool) :
  cp_mode_dot_api Op true copy (Some w) fs x mode kd = cp_mode_dot Op w fs x mode kd.
Proof. reflexivity. Qed.
Lemma cp_mode_dot_api_ok {F} (Op : fops F) (is_class copy : bool) (w : list F) (fs : list (mat F)) (x : operand) (mode : nat) (kd : bool) :
  is_class = true \/ copy = true ->
  cp_mode_dot_api Op is_class copy (Some w) fs x mode kd = cp_mode_dot Op w fs x mode kd.
Proof. intros [H | H]; subst; [reflexivity | destruct is_class; reflexivity]. Qed.
Lemma cp_mode_dot_api_tuple_refuted :
  exists (w : list Z) (fs : list (mat Z)) (M : mat Z) r,
    cp_mode_dot Zops w fs (OpMat M) 0 false = Ok r /\
    cp_mode_dot_api Zops false false (Some w) fs (OpMat M) 0 false = Err.
Proof. exists [2; -1]%Z, [[[1; 2]; [3; 4]]; [[5; 6]]]%Z, [[1; 1]]%Z. eexists. split; vm_compute; reflexivity. Qed.
Lemma cp_mode_dot_api_none_refuted :
  exists (fs : list (mat Z)) (M : mat Z) r,
    cp_mode_dot_api Zops true true None fs (OpMat M) 0 false = Ok r /\
    cp_mode_dot_api Zops false true None fs (OpMat M) 0 false = Err.
Proof. exists [[[1; 2]; [3; 4]]; [[5; 6]]]%Z, [[1; 1]]%Z. eexists. split; vm_compute; reflexivity. Qed.
Lemma cp_flip_sign_api_some {F} (Op : fops F) (is_class : bool) (summ : list F -> F) (w : list F) (fs : list (mat F)) (mode : nat) :
  cp_flip_sign_api Op is_class summ (Some w) fs mode = cp_flip_sign Op summ w fs mode.
Proof. reflexivity. Qed.
Lemma cp_flip_sign_api_none_refuted :
  exists (fs : list (mat Z)) r,
    cp_flip_sign_api Zops true (col_sum Zops) None fs 0 = Ok r /\
    cp_flip_sign_api Zops false (col_sum Zops) None fs 0 = Err.
Proof. exists [[[1; -2]; [3; -4]]; [[-5; 6]]]%Z. eexists. split; vm_compute; reflexivity. Qed.
