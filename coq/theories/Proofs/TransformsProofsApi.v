(* The input forms of cp_mode_dot / cp_flip_sign (CPTensor object vs plain tuple, weights None) on the repaired tree:
   every form reduces to the core function applied to the given weights, or to ones when the weights are None. *)
From Coq Require Import List Arith Lia Bool ZArith.
From TLV Require Import Base.Shape Base.PyList Base.Tensor Base.BigSum Base.Ops Model.Transforms.
Import ListNotations.

Lemma cp_mode_dot_api_all {F} (Op : fops F) (is_class copy : bool) (w : option (list F)) (fs : list (mat F)) (x : operand)
  (mode : nat) (kd : bool) :
  cp_mode_dot_api Op is_class copy w fs x mode kd = cp_mode_dot Op (weights_or_ones Op w fs) fs x mode kd.
Proof. reflexivity. Qed.
Lemma cp_flip_sign_api_all {F} (Op : fops F) (is_class : bool) (summ : list F -> F) (w : option (list F)) (fs : list (mat F)) (mode : nat) :
  cp_flip_sign_api Op is_class summ w fs mode = cp_flip_sign Op summ (weights_or_ones Op w fs) fs mode.
Proof. reflexivity. Qed.
(* the forms agree with each other: same answer for an object and a tuple, with and without copy *)
Lemma cp_mode_dot_api_form_independent {F} (Op : fops F) (c1 c2 p1 p2 : bool) w fs x mode kd :
  cp_mode_dot_api Op c1 p1 w fs x mode kd = cp_mode_dot_api Op c2 p2 w fs x mode kd.
Proof. reflexivity. Qed.
Lemma weights_or_ones_length {F} (Op : fops F) (fs : list (mat F)) : length (weights_or_ones Op None fs) = cp_rank fs.
Proof. apply repeat_length. Qed.
