(* The input forms of cp_mode_dot / cp_flip_sign (CPTensor object with cached shape vs plain tuple, weights None, copy):
   whatever the form, an accepted call returns an object holding the answer of the core function on the operand's weights
   (ones for None) and factors, and its cached shape is the shape of what it represents. *)
From Coq Require Import List Arith Lia Bool ZArith.
From TLV Require Import Base.Shape Base.PyList Base.Tensor Base.BigSum Base.Ops Model.Transforms.
Import ListNotations.

Section Api.
Context {F : Type} (Op : fops F).
Lemma cp_new_spec (w : option (list F)) fs o : cp_new Op w fs = Ok o ->
  cp_validb w fs = true /\ cpo_w o = weights_or_ones Op w fs /\ cpo_fs o = fs /\ cpo_shape o = cp_shape fs.
Proof. unfold cp_new. destruct (cp_validb w fs); [|discriminate]. intros E. injection E as <-. auto. Qed.

Theorem cp_mode_dot_api_spec (x : cp_operand) copy opd mode kd o' :
  cp_mode_dot_api Op x copy opd mode kd = Ok o' ->
  operand_okb x = true /\
  cp_mode_dot Op (operand_w Op x) (operand_fs x) opd mode kd = Ok (cpo_w o', cpo_fs o') /\
  cpo_shape o' = cp_shape (cpo_fs o').
Proof.
  unfold cp_mode_dot_api. destruct (operand_okb x); [|discriminate].
  destruct (cp_mode_dot Op (operand_w Op x) (operand_fs x) opd mode kd) as [[w' fs']|]; [|discriminate].
  destruct x as [w fs | o]; [|destruct copy].
  - intros E. destruct (cp_new_spec _ _ _ E) as (_ & -> & -> & ->). auto.
  - intros E. destruct (cp_new_spec _ _ _ E) as (_ & -> & -> & ->). auto.
  - intros E. injection E as <-. auto.
Qed.
Theorem cp_flip_sign_api_spec (x : cp_operand) summ mode o' :
  cp_flip_sign_api Op x summ mode = Ok o' ->
  operand_okb x = true /\
  cp_flip_sign Op summ (operand_w Op x) (operand_fs x) mode = Ok (cpo_w o', cpo_fs o') /\
  cpo_shape o' = cp_shape (cpo_fs o').
Proof.
  unfold cp_flip_sign_api. destruct (operand_okb x); [|discriminate].
  destruct (cp_flip_sign Op summ (operand_w Op x) (operand_fs x) mode) as [[w' fs']|]; [|discriminate].
  intros E. destruct (cp_new_spec _ _ _ E) as (_ & -> & -> & ->). auto.
Qed.
Lemma cp_obj_ext (a b : cp_obj (F:=F)) : cpo_shape a = cpo_shape b -> cpo_w a = cpo_w b -> cpo_fs a = cpo_fs b -> a = b.
Proof. destruct a, b; simpl; intros; subst; reflexivity. Qed.
(* the forms agree: the object built from (w, fs) and the tuple (w, fs) itself, with any copy flags, give the same object *)
Theorem cp_mode_dot_api_forms_agree (w : option (list F)) fs o c1 c2 opd mode kd o1 o2 :
  cp_new Op w fs = Ok o ->
  cp_mode_dot_api Op (CpTuple w fs) c1 opd mode kd = Ok o1 ->
  cp_mode_dot_api Op (CpObject o) c2 opd mode kd = Ok o2 -> o1 = o2.
Proof.
  intros En E1 E2. destruct (cp_new_spec _ _ _ En) as (_ & Hw & Hf & _).
  destruct (cp_mode_dot_api_spec _ _ _ _ _ _ E1) as (_ & D1 & S1). destruct (cp_mode_dot_api_spec _ _ _ _ _ _ E2) as (_ & D2 & S2).
  cbn [operand_w operand_fs] in D1, D2. rewrite Hw, Hf in D2. rewrite D1 in D2. injection D2 as Ew Ef.
  apply cp_obj_ext; congruence.
Qed.
Theorem cp_flip_sign_api_forms_agree (w : option (list F)) fs o summ mode o1 o2 :
  cp_new Op w fs = Ok o ->
  cp_flip_sign_api Op (CpTuple w fs) summ mode = Ok o1 ->
  cp_flip_sign_api Op (CpObject o) summ mode = Ok o2 -> o1 = o2.
Proof.
  intros En E1 E2. destruct (cp_new_spec _ _ _ En) as (_ & Hw & Hf & _).
  destruct (cp_flip_sign_api_spec _ _ _ _ E1) as (_ & D1 & S1). destruct (cp_flip_sign_api_spec _ _ _ _ E2) as (_ & D2 & S2).
  cbn [operand_w operand_fs] in D1, D2. rewrite Hw, Hf in D2. rewrite D1 in D2. injection D2 as Ew Ef.
  apply cp_obj_ext; congruence.
Qed.
End Api.
