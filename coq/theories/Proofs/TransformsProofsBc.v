(* C04, round 7: on a valid Tucker tensor the NumPy-broadcasting model of tucker_normalize (tucker_normalize_bc, Model/TransformsApi.v)
   IS the plain model (tucker_normalize_api): the whole loop, any order. *)
From Coq Require Import List Arith Lia Bool Ring.
From TLV Require Import Base.Shape Base.PyList Base.Tensor Base.BigSum Base.Ops Model.Transforms Model.TransformsApi
  Proofs.TransformsProofs Proofs.TransformsProofsValid.
Import ListNotations.

Section B.
Context {F : Type} (Op : fops F).
Hypothesis Rth : ring_theory (f0 Op) (f1 Op) (fadd Op) (fmul Op) (fsub Op) (fopp Op) (@eq F).
Add Ring FrBc : Rth.
Local Notation fone := (f1 Op).
Local Notation "a *f b" := (fmul Op a b) (at level 40, left associativity).

(* the product of the scales read by iterations i, i+1, ... of the loop *)
Fixpoint scal_from (i : nat) (tape : list (list F)) (idx : list nat) : F :=
  match tape with [] => fone | sc :: rest => vget Op sc (nth i idx 0) *f scal_from (S i) rest idx end.

Lemma tk_norm_step_wf i sc (core t : tensor F) : tk_norm_step Op i sc core = Ok t -> wf t.
Proof.
  unfold tk_norm_step. cbv zeta. destruct (bshape _ _); [|discriminate]. intros E. injection E as <-. apply wf_tabulate.
Qed.

Lemma tk_norm_loop_valid : forall tape i (core : tensor F), wf core ->
  i + length tape <= length (shape core) ->
  (forall k, k < length tape -> length (nth k tape []) = nth (i + k) (shape core) 0) ->
  exists t, tk_norm_loop Op i tape core = Ok t /\ wf t /\ shape t = shape core /\
    forall idx, inb (shape core) idx -> tget Op t idx = tget Op core idx *f scal_from i tape idx.
Proof.
  induction tape as [|sc rest IH]; intros i core W Hi Hl.
  - exists core. cbn [tk_norm_loop scal_from]. repeat split; auto. intros idx _. ring.
  - cbn [length] in Hi. cbn [tk_norm_loop].
    destruct (tk_norm_step_valid Op i sc core) as (t1 & E1 & S1 & H1); [lia| |].
    { specialize (Hl 0). cbn [nth length] in Hl. rewrite Nat.add_0_r in Hl. apply Hl. lia. }
    rewrite E1. cbn [rbind].
    destruct (IH (S i) t1) as (t & E & Wt & St & Ht).
    + eapply tk_norm_step_wf; eauto.
    + rewrite S1. lia.
    + intros k Hk. rewrite S1. specialize (Hl (S k)). cbn [nth length] in Hl. replace (S i + k) with (i + S k) by lia. apply Hl. lia.
    + exists t. split; [exact E|]. split; [exact Wt|]. split; [congruence|]. intros idx Hin.
      rewrite Ht by (rewrite S1; exact Hin). rewrite H1 by exact Hin. cbn [scal_from]. ring.
Qed.

Lemma scal_from_skipn : forall tape i idx, i + length tape <= length idx -> scal_from i tape idx = scal Op tape (skipn i idx).
Proof.
  induction tape as [|sc rest IH]; intros i idx H; [destruct (skipn i idx); reflexivity|].
  cbn [length] in H. cbn [scal_from].
  assert (E : skipn i idx = nth i idx 0 :: skipn (S i) idx).
  { clear - H. revert i H. induction idx as [|x idx IHx]; intros i H; [simpl in H; lia|].
    destruct i; [reflexivity|]. cbn [skipn nth]. apply IHx. simpl in H. lia. }
  rewrite E. cbn [scal]. rewrite IH by lia. reflexivity.
Qed.

(* valid operands (one scale vector per core mode, of that mode's size): the broadcasting loop computes exactly the core of
   tucker_normalize, and the two models return the same verdict and the same object *)
Theorem tucker_normalize_bc_valid tape (core : tensor F) (fs : list (mat F)) :
  wfb core = true -> length tape = length (shape core) -> length fs = length tape ->
  (forall k, k < length tape -> length (nth k tape []) = nth k (shape core) 0) ->
  tucker_normalize_bc Op tape core fs = tucker_normalize_api Op tape core fs.
Proof.
  intros W Ht Hf Hl. unfold tucker_normalize_bc, tucker_normalize_api, tucker_normalize.
  rewrite W, Hf, Nat.eqb_refl. cbn [andb].
  destruct (tk_norm_loop_valid tape 0 core) as (t & E & Wt & St & H).
  - now apply wfb_spec.
  - simpl. lia.
  - intros k Hk. simpl. now apply Hl.
  - rewrite E. cbn [rbind]. f_equal.
    apply (tensor_ext (f0 Op)); [exact Wt|apply wf_tabulate|exact St|].
    intros idx Hin. rewrite St in Hin. fold (tget Op t idx). rewrite H by exact Hin.
    rewrite get_tabulate by exact Hin. rewrite scal_from_skipn; [reflexivity|].
    rewrite (inb_length _ _ Hin). simpl. lia.
Qed.
End B.
