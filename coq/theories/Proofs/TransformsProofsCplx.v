(* The complexification of a commutative ring is a commutative ring: every ring-regime theorem of C04 holds over it. *)
From Coq Require Import List Arith Lia Bool Ring ZArith.
From TLV Require Import Base.Shape Base.PyList Base.Tensor Base.BigSum Base.Ops Model.Transforms Model.TransformsCplx
  Proofs.TransformsProofs Proofs.TransformsProofsTT.
Import ListNotations.

Section P.
Context {F : Type} (Op : fops F).
Hypothesis Rth : ring_theory (f0 Op) (f1 Op) (fadd Op) (fmul Op) (fsub Op) (fopp Op) (@eq F).
Add Ring Fcx : Rth.

Lemma cx_ring : ring_theory (f0 (cx_ops Op)) (f1 (cx_ops Op)) (fadd (cx_ops Op)) (fmul (cx_ops Op)) (fsub (cx_ops Op)) (fopp (cx_ops Op)) (@eq (F * F)).
Proof.
  constructor; cbn; unfold cx_add, cx_mul, cx_sub, cx_opp; intros; repeat match goal with x : (F * F)%type |- _ => destruct x end;
    cbn [fst snd]; f_equal; ring.
Qed.
End P.

(* pad_tt_rank on complex cores: the ring-regime theorems instantiated at the complexification *)
Section PC.
Context {F : Type} (Op : fops F).
Hypothesis Rth : ring_theory (f0 Op) (f1 Op) (fadd Op) (fmul Op) (fsub Op) (fopp Op) (@eq F).

Theorem pad_tt_entry_cx (cores : list (tensor (F * F))) npad pb cores' idx r :
  pad_tt_rank (cx_ops Op) cores npad pb = Ok cores' -> cores <> [] -> chain_ok r cores -> order3 cores -> inb (tt_shape cores) idx ->
  0 < r -> 0 < last_r2 r cores ->
  tt_entry (cx_ops Op) cores' idx = tt_entry (cx_ops Op) cores idx.
Proof. exact (pad_tt_entry (cx_ops Op) (cx_ring Op Rth) cores npad pb cores' idx r). Qed.
Theorem pad_tr_entry_cx (cores : list (tensor (F * F))) npad pb cores' idx r :
  pad_tt_rank (cx_ops Op) cores npad pb = Ok cores' -> cores <> [] -> chain_ok r cores -> order3 cores -> inb (tt_shape cores) idx ->
  last_r2 r cores = r ->
  tr_entry (cx_ops Op) cores' idx = tr_entry (cx_ops Op) cores idx.
Proof. exact (pad_tr_entry (cx_ops Op) (cx_ring Op Rth) cores npad pb cores' idx r). Qed.

(* the real and imaginary parts of a padded core are the padded real and imaginary parts: no part of the value is dropped *)
Lemma pad_core_part (pr : F * F -> F) l r (G : tensor (F * F)) : pr (f0 Op, f0 Op) = f0 Op ->
  pad_core Op l r (tmap pr G) = tmap pr (pad_core (cx_ops Op) l r G).
Proof.
  intros Hp. unfold pad_core, tabulate, tmap. cbn [shape data]. unfold core_r1, core_r2, core_mid. cbn [shape]. f_equal.
  rewrite map_map. apply map_ext. intros k.
  destruct ((hd 0 (unravel _ k) <? hd 0 (shape G)) && (last (unravel _ k) 0 <? last (shape G) 0)); [|symmetry; exact Hp].
  unfold tget, get. cbn [shape data f0 cx_ops]. rewrite <- (map_nth pr (data G) (f0 Op, f0 Op)). rewrite Hp. reflexivity.
Qed.
Lemma pad_core_re l r (G : tensor (F * F)) : pad_core Op l r (tmap fst G) = tmap fst (pad_core (cx_ops Op) l r G).
Proof. now apply pad_core_part. Qed.
Lemma pad_core_im l r (G : tensor (F * F)) : pad_core Op l r (tmap snd G) = tmap snd (pad_core (cx_ops Op) l r G).
Proof. now apply pad_core_part. Qed.
Lemma iscore_tmap (pr : F * F -> F) (G : tensor (F * F)) : iscore (tmap pr G) = iscore G.
Proof. unfold iscore, wfb, tmap. cbn [shape data]. now rewrite map_length. Qed.
Lemma pad_from_part (pr : F * F -> F) : pr (f0 Op, f0 Op) = f0 Op -> forall cores i n npad pb,
  pad_from Op i n npad pb (map (tmap pr) cores) = map (tmap pr) (pad_from (cx_ops Op) i n npad pb cores).
Proof.
  intros Hp. induction cores as [|G gs IH]; intros i n npad pb; [reflexivity|].
  cbn [map pad_from]. rewrite IH. f_equal. now apply pad_core_part.
Qed.
(* pad_tt_rank acts on the real and on the imaginary parts separately: padding the parts = the parts of the padded cores
   (pr = fst: real part, pr = snd: imaginary part) *)
Theorem pad_tt_rank_part (pr : F * F -> F) cores npad pb : pr (f0 Op, f0 Op) = f0 Op ->
  pad_tt_rank Op (map (tmap pr) cores) npad pb =
  match pad_tt_rank (cx_ops Op) cores npad pb with Ok c' => Ok (map (tmap pr) c') | Err => Err end.
Proof.
  intros Hp. unfold pad_tt_rank.
  assert (E : forallb iscore (map (tmap pr) cores) = forallb iscore cores).
  { induction cores as [|G gs IH]; [reflexivity|]. cbn [map forallb]. now rewrite iscore_tmap, IH. }
  rewrite E, map_length.
  destruct (forallb iscore cores); [|reflexivity]. f_equal. now apply pad_from_part.
Qed.
End PC.

Lemma Gops_ring : ring_theory (f0 Gops) (f1 Gops) (fadd Gops) (fmul Gops) (fsub Gops) (fopp Gops) (@eq (Z * Z)).
Proof. exact (cx_ring Zops Zth). Qed.
