(* Canonical form of cp_flip_sign: non-negative weights, non-negative column summaries on every mode but the target. *)
From Coq Require Import List Arith Lia Bool Ring ZArith Reals Lra.
From TLV Require Import Base.Shape Base.PyList Base.Tensor Base.BigSum Base.Ops Model.Transforms Proofs.TransformsProofs Proofs.TransformsProofsR.
Import ListNotations.

Section FlipCanon.
Context {F : Type} (Op : fops F).
Hypothesis Rth : ring_theory (f0 Op) (f1 Op) (fadd Op) (fmul Op) (fsub Op) (fopp Op) (@eq F).
Add Ring Fr5 : Rth.
Local Notation fz := (f0 Op).
Local Notation fone := (f1 Op).
Local Notation "a *f b" := (fmul Op a b) (at level 40, left associativity).
Variable summ : list F -> F.
Hypothesis colsign_sq : forall x, colsign Op x *f colsign Op x = fone.
Hypothesis colsign_abs : forall x, colsign Op x *f fabs Op x = x.
(* the summary commutes with scaling a column (sum, mean, any linear functional) *)
Hypothesis summ_scale : forall c l, summ (map (fun x => x *f c) l) = summ l *f c.

Lemma col_scale_cols A cs r : col Op (scale_cols Op A cs) r = map (fun x => x *f vget Op cs r) (col Op A r).
Proof.
  unfold col, scale_cols. rewrite !map_map. apply map_ext. intros row. apply (vget_zipw_mul Op Rth).
Qed.
Lemma vget_col_signs A R r : r < R ->
  vget Op (map (colsign Op) (col_summaries Op summ A R)) r = colsign Op (summ (col Op A r)).
Proof.
  intros Hr. unfold col_summaries. rewrite vget_map by (now rewrite map_length, seq_length). f_equal.
  unfold vget. rewrite (nth_map' _ (seq 0 R) r 0 fz) by (now rewrite seq_length). now rewrite seq_nth.
Qed.
Lemma summ_after_flip A R r : r < R ->
  summ (col Op (scale_cols Op A (map (colsign Op) (col_summaries Op summ A R))) r) = fabs Op (summ (col Op A r)).
Proof.
  intros Hr. rewrite col_scale_cols, summ_scale, vget_col_signs by exact Hr.
  set (x := summ (col Op A r)). rewrite <- (colsign_abs x) at 1.
  transitivity (fabs Op x *f (colsign Op x *f colsign Op x)); [ring | rewrite colsign_sq; ring].
Qed.

(* what the loop does to a factor other than the target mode *)
Lemma flip_loop_nth R mode : forall jjs fs jj, NoDup jjs -> jj <> mode -> jj < length fs -> mode < length fs ->
  nth jj (flip_loop Op summ R mode jjs fs) [] =
  if existsb (Nat.eqb jj) jjs
  then scale_cols Op (nth jj fs []) (map (colsign Op) (col_summaries Op summ (nth jj fs []) R))
  else nth jj fs [].
Proof.
  induction jjs as [|j0 jjs IH]; intros fs jj Hnd Hjm Hjl Hml; [reflexivity|].
  inversion Hnd as [|? ? Hnot Hnd']; subst. cbn [flip_loop existsb].
  destruct (Nat.eqb_spec j0 mode) as [->|Hj0].
  - destruct (Nat.eqb_spec jj mode); [contradiction|]. cbn [orb]. now apply IH.
  - set (cs := map (colsign Op) (col_summaries Op summ (nth j0 fs []) R)).
    set (fs1 := set_nth mode (scale_cols Op (nth mode fs []) cs) fs).
    set (fs2 := set_nth j0 (scale_cols Op (nth j0 fs1 []) cs) fs1).
    assert (L1 : length fs1 = length fs) by (unfold fs1; now rewrite set_nth_length).
    assert (L2 : length fs2 = length fs) by (unfold fs2; now rewrite set_nth_length).
    rewrite (IH fs2 jj Hnd' Hjm) by lia.
    destruct (Nat.eqb_spec jj j0) as [->|Hne]; cbn [orb].
    + assert (Hex : existsb (Nat.eqb j0) jjs = false).
      { apply not_true_is_false. intros E. apply existsb_exists in E. destruct E as (y & Hy & Ey).
        apply Nat.eqb_eq in Ey. subst y. contradiction. }
      rewrite Hex. unfold fs2. rewrite nth_set_nth_same by lia.
      unfold fs1. rewrite nth_set_nth_other by exact Hj0. reflexivity.
    + assert (E : nth jj fs2 [] = nth jj fs []).
      { unfold fs2. rewrite nth_set_nth_other by exact Hne. unfold fs1. now rewrite nth_set_nth_other by exact Hjm. }
      rewrite E. reflexivity.
Qed.
Lemma existsb_seq jj n : jj < n -> existsb (Nat.eqb jj) (seq 0 n) = true.
Proof. intros H. apply existsb_exists. exists jj. split; [apply in_seq; lia | apply Nat.eqb_refl]. Qed.

(* canonical form of cp_flip_sign: weights |w_r|; every column summary of every factor other than the target mode
   is the absolute value of the old one *)
Theorem cp_flip_sign_canonical w fs mode w' fs' :
  cp_flip_sign Op summ w fs mode = Ok (w', fs') ->
  w' = map (fabs Op) w /\ length fs' = length fs /\
  forall jj r, jj < length fs -> jj <> mode -> r < length w ->
    summ (col Op (nth jj fs' []) r) = fabs Op (summ (col Op (nth jj fs []) r)).
Proof.
  unfold cp_flip_sign. destruct (mode <? length fs) eqn:Hm; [|discriminate]. apply Nat.ltb_lt in Hm.
  intros E. injection E as <- <-. split; [reflexivity|]. split.
  - now rewrite set_nth_length, (flip_loop_length Op).
  - intros jj r Hjj Hjm Hr. rewrite nth_set_nth_other by exact Hjm.
    rewrite flip_loop_nth by (auto; apply seq_NoDup). rewrite existsb_seq by exact Hjj.
    now apply summ_after_flip.
Qed.
End FlipCanon.

(* the summaries used by the implementation are linear: sum over Z and R, mean over R *)
Section SumScale.
Context {F : Type} (Op : fops F).
Hypothesis Rth : ring_theory (f0 Op) (f1 Op) (fadd Op) (fmul Op) (fsub Op) (fopp Op) (@eq F).
Add Ring Fr6 : Rth.
Lemma col_sum_scale_gen c : forall l acc,
  fold_left (fadd Op) (map (fun x => fmul Op x c) l) (fmul Op acc c) = fmul Op (fold_left (fadd Op) l acc) c.
Proof.
  induction l as [|x l IH]; intros acc; [reflexivity|]. cbn [map fold_left].
  replace (fadd Op (fmul Op acc c) (fmul Op x c)) with (fmul Op (fadd Op acc x) c) by ring. apply IH.
Qed.
Lemma col_sum_scale c l : col_sum Op (map (fun x => fmul Op x c) l) = fmul Op (col_sum Op l) c.
Proof.
  unfold col_sum. rewrite <- (col_sum_scale_gen c l (f0 Op)). f_equal. ring.
Qed.
End SumScale.
Local Open Scope R_scope.
Lemma col_mean_scale_R c l : col_mean Rops (map (fun x => x * c) l) = col_mean Rops l * c.
Proof.
  unfold col_mean. rewrite map_length. pose proof (col_sum_scale Rops Rops_ring c l) as S. cbn [fmul Rops] in S.
  rewrite S. cbn [fdiv Rops]. unfold Rdiv. ring.
Qed.
Lemma fabs_nonneg_R x : 0 <= fabs Rops x.
Proof. rewrite fabs_R. apply Rabs_pos. Qed.
Lemma fabs_nonneg_Z x : (0 <= fabs Zops x)%Z.
Proof. rewrite fabs_Z. apply Z.abs_nonneg. Qed.

(* instances: the default summary (mean) over R, the sum over Z *)
Theorem cp_flip_sign_canonical_mean_R w fs mode w' fs' :
  cp_flip_sign Rops (col_mean Rops) w fs mode = Ok (w', fs') ->
  (forall r, (r < length w)%nat -> 0 <= vget Rops w' r) /\
  forall jj r, (jj < length fs)%nat -> jj <> mode -> (r < length w)%nat -> 0 <= col_mean Rops (col Rops (nth jj fs' []) r).
Proof.
  intros E. destruct (cp_flip_sign_canonical Rops Rops_ring (col_mean Rops) colsign_sq_R colsign_abs_R col_mean_scale_R _ _ _ _ _ E) as (-> & _ & H).
  split.
  - intros r Hr. rewrite (vget_map Rops) by exact Hr. apply fabs_nonneg_R.
  - intros jj r Hj Hm Hr. rewrite (H jj r Hj Hm Hr). apply fabs_nonneg_R.
Qed.
Theorem cp_flip_sign_canonical_sum_R w fs mode w' fs' :
  cp_flip_sign Rops (col_sum Rops) w fs mode = Ok (w', fs') ->
  (forall r, (r < length w)%nat -> 0 <= vget Rops w' r) /\
  forall jj r, (jj < length fs)%nat -> jj <> mode -> (r < length w)%nat -> 0 <= col_sum Rops (col Rops (nth jj fs' []) r).
Proof.
  intros E. destruct (cp_flip_sign_canonical Rops Rops_ring (col_sum Rops) colsign_sq_R colsign_abs_R (col_sum_scale Rops Rops_ring) _ _ _ _ _ E) as (-> & _ & H).
  split.
  - intros r Hr. rewrite (vget_map Rops) by exact Hr. apply fabs_nonneg_R.
  - intros jj r Hj Hm Hr. rewrite (H jj r Hj Hm Hr). apply fabs_nonneg_R.
Qed.
Theorem cp_flip_sign_canonical_sum_Z w fs mode w' fs' :
  cp_flip_sign Zops (col_sum Zops) w fs mode = Ok (w', fs') ->
  (forall r, (r < length w)%nat -> (0 <= vget Zops w' r)%Z) /\
  forall jj r, (jj < length fs)%nat -> jj <> mode -> (r < length w)%nat -> (0 <= col_sum Zops (col Zops (nth jj fs' []) r))%Z.
Proof.
  intros E. destruct (cp_flip_sign_canonical Zops Zops_ring (col_sum Zops) colsign_sq_Z colsign_abs_Z (col_sum_scale Zops Zops_ring) _ _ _ _ _ E) as (-> & _ & H).
  split.
  - intros r Hr. rewrite (vget_map Zops) by exact Hr. apply fabs_nonneg_Z.
  - intros jj r Hj Hm Hr. rewrite (H jj r Hj Hm Hr). apply fabs_nonneg_Z.
Qed.
