(* C04, round 8: the size of what lossy compression discards.  With orthonormal left AND right singular vectors the sum of squares of
   the discarded part X - loading x score is the sum of squares of the dropped singular values (any commutative ring). *)
From Coq Require Import List Arith Lia Bool Ring.
From TLV Require Import Base.Shape Base.PyList Base.Tensor Base.BigSum Base.Ops Model.Transforms Proofs.TransformsProofs Proofs.TransformsProofsPf2 Proofs.TransformsProofsLossy.
Import ListNotations.

Section FR.
Context {F : Type} (Op : fops F).
Hypothesis Rth : ring_theory (f0 Op) (f1 Op) (fadd Op) (fmul Op) (fsub Op) (fopp Op) (@eq F).
Add Ring Fr9 : Rth.
Local Notation fz := (f0 Op).
Local Notation fone := (f1 Op).
Local Notation "a *f b" := (fmul Op a b) (at level 40, left associativity).
Local Notation "a +f b" := (fadd Op a b) (at level 50, left associativity).
Local Notation Sum := (sumn Op).

Lemma sum_mul_sum r f g : Sum r f *f Sum r g = Sum r (fun t => Sum r (fun t' => f t *f g t')).
Proof.
  rewrite <- (sumn_scale_r Op Rth). apply sumn_ext. intros t _. now rewrite <- (sumn_scale_l Op Rth).
Qed.

Lemma frob_orthonormal m K r (a : nat -> nat -> F) (c : nat -> F) (b : nat -> nat -> F) :
  (forall t t', t < r -> t' < r -> Sum m (fun j => a j t *f a j t') = if Nat.eqb t t' then fone else fz) ->
  (forall t t', t < r -> t' < r -> Sum K (fun k => b t k *f b t' k) = if Nat.eqb t t' then fone else fz) ->
  Sum m (fun j => Sum K (fun k => Sum r (fun t => a j t *f (c t *f b t k)) *f Sum r (fun t => a j t *f (c t *f b t k)))) = Sum r (fun t => c t *f c t).
Proof.
  intros Ha Hb.
  set (T := fun j k t t' => (a j t *f (c t *f b t k)) *f (a j t' *f (c t' *f b t' k))).
  rewrite (sumn_ext Op _ _ (fun j => Sum r (fun t => Sum r (fun t' => Sum K (fun k => T j k t t'))))).
  2:{ intros j _. rewrite (sumn_ext Op _ _ (fun k => Sum r (fun t => Sum r (fun t' => T j k t t')))) by (intros k _; apply sum_mul_sum).
      rewrite (sumn_exchange Op Rth). apply sumn_ext. intros t _. apply (sumn_exchange Op Rth). }
  rewrite (sumn_exchange Op Rth).
  apply sumn_ext. intros t Ht.
  rewrite (sumn_exchange Op Rth).
  rewrite (sumn_ext Op _ _ (fun t' => (c t *f c t') *f (Sum m (fun j => a j t *f a j t') *f Sum K (fun k => b t k *f b t' k)))).
  2:{ intros t' Ht'.
      rewrite (sumn_ext Op _ _ (fun j => (a j t *f a j t') *f ((c t *f c t') *f Sum K (fun k => b t k *f b t' k)))).
      2:{ intros j _. rewrite <- (sumn_scale_l Op Rth). rewrite <- (sumn_scale_l Op Rth). apply sumn_ext. intros k _. unfold T. ring. }
      rewrite (sumn_scale_r Op Rth). ring. }
  rewrite (sumn_single Op Rth r t).
  - rewrite Ha, Hb by assumption. rewrite Nat.eqb_refl. ring.
  - assumption.
  - intros t' Ht' Hne. rewrite Ha by assumption. destruct (Nat.eqb_spec t t'); [congruence|ring].
Qed.

(* the discarded part: sum of squares = sum of squares of the dropped singular values *)
Theorem compress_residual_energy rl thr X U s Vh score Lm K :
  compress_slice Op rl thr X (U, s, Vh) = (score, Some Lm) -> length Vh = length s -> K <= ncols score ->
  (forall a b, a < length s -> b < length s -> gram Op U a b = if Nat.eqb a b then fone else fz) ->
  (forall a b, a < length s -> b < length s -> Sum K (fun k => mget Op Vh a k *f mget Op Vh b k) = if Nat.eqb a b then fone else fz) ->
  (forall j k, j < length U -> k < K -> mget Op X j k = Sum (length s) (fun t => mget Op U j t *f (vget Op s t *f mget Op Vh t k))) ->
  Sum (length U) (fun j => Sum K (fun k => fsub Op (mget Op X j k) (mget Op (matmul Op Lm score) j k) *f fsub Op (mget Op X j k) (mget Op (matmul Op Lm score) j k)))
  = Sum (length s - count_kept Op thr s) (fun t => vget Op s (count_kept Op thr s + t) *f vget Op s (count_kept Op thr s + t)).
Proof.
  intros E Hv HK HU HV HX. pose proof (count_kept_le Op thr s) as Hle. set (num := count_kept Op thr s) in *.
  rewrite <- (frob_orthonormal (length U) K (length s - num) (fun j t => mget Op U j (num + t)) (fun t => vget Op s (num + t)) (fun t k => mget Op Vh (num + t) k)).
  - apply sumn_ext. intros j Hj. apply sumn_ext. intros k Hk.
    assert (Hk' : k < ncols score) by lia.
    pose proof (compress_slice_lossy Op Rth rl thr X U s Vh score Lm j k E Hv Hj Hk' (HX j k Hj Hk)) as L. fold num in L.
    set (tail := Sum (length s - num) _) in *. rewrite L. ring.
  - intros t t' Ht Ht'. fold (gram Op U (num + t) (num + t')). rewrite HU by lia.
    destruct (Nat.eqb_spec t t'), (Nat.eqb_spec (num + t) (num + t')); try reflexivity; lia.
  - intros t t' Ht Ht'. rewrite HV by lia.
    destruct (Nat.eqb_spec t t'), (Nat.eqb_spec (num + t) (num + t')); try reflexivity; lia.
Qed.
End FR.
