(* C04, round 5: ownership theorems about the heap model of cp_mode_dot's copy flag (Model/TransformsHeap.v). *)
From Coq Require Import List Arith Lia Bool ZArith.
From TLV Require Import Base.Shape Base.PyList Base.Tensor Base.BigSum Base.Ops Model.Transforms Model.TransformsHeap Proofs.TransformsProofs.
Import ListNotations.

(* ---------------------------------------------------------------- list surgery *)
Lemma set_nth_app_l {A} (v : A) : forall k l1 l2, k < length l1 -> set_nth k v (l1 ++ l2) = set_nth k v l1 ++ l2.
Proof. induction k; intros [|a l1] l2 H; simpl in *; try lia; auto. f_equal. apply IHk. lia. Qed.
Lemma set_nth_app_r {A} (v : A) : forall l1 k l2, length l1 <= k -> set_nth k v (l1 ++ l2) = l1 ++ set_nth (k - length l1) v l2.
Proof.
  induction l1; intros k l2 H; simpl in *.
  - now rewrite Nat.sub_0_r.
  - destruct k; [lia|]. simpl. f_equal. apply IHl1. lia.
Qed.
Lemma set_nth_ge {A} (v : A) : forall k l, length l <= k -> set_nth k v l = l.
Proof. induction k; intros [|a l] H; simpl in *; auto; try lia. f_equal. apply IHk. lia. Qed.
Lemma nth_remove_nth_In {A} (d : A) : forall k l j, j < length (remove_nth k l) -> In (nth j (remove_nth k l) d) l.
Proof.
  induction k; intros [|a l] j H; simpl in *; try lia.
  - right. now apply nth_In.
  - destruct j; [now left|]. right. apply IHk. lia.
Qed.
Lemma map_remove_nth {A B} (f : A -> B) : forall k l, map f (remove_nth k l) = remove_nth k (map f l).
Proof. induction k; intros [|a l]; simpl; auto. now rewrite IHk. Qed.
Lemma map_set_nth {A B} (f : A -> B) v : forall k l, map f (set_nth k v l) = set_nth k (f v) (map f l).
Proof. induction k; intros [|a l]; simpl; auto. now rewrite IHk. Qed.
Lemma set_nth_twice {A} (u v : A) : forall k l, set_nth k u (set_nth k v l) = set_nth k u l.
Proof. induction k; intros [|a l]; simpl; auto. now rewrite IHk. Qed.
Lemma In_set_nth {A} (v x : A) : forall k l, In x (set_nth k v l) -> x = v \/ In x l.
Proof.
  induction k; intros [|a l] H; simpl in *; auto.
  - destruct H; auto.
  - destruct H; auto. destruct (IHk _ H); auto.
Qed.
Lemma In_remove_nth {A} (x : A) : forall k l, In x (remove_nth k l) -> In x l.
Proof. induction k; intros [|a l] H; simpl in *; auto. destruct H; auto. Qed.
(* an in-place update of ONE location reads back as an update of ONE slot exactly when no other slot names that location *)
Lemma map_set_nth_unique {B} (d : B) (tbl : list B) v : forall (ls : list nat) m,
  m < length ls -> nth m ls 0 < length tbl ->
  (forall j, j < length ls -> j <> m -> nth j ls 0 <> nth m ls 0) ->
  map (fun l => nth l (set_nth (nth m ls 0) v tbl) d) ls = set_nth m v (map (fun l => nth l tbl d) ls).
Proof.
  intros ls m Hm Hl Hu. apply (nth_ext _ _ d d).
  - now rewrite set_nth_length, !map_length.
  - intros j Hj. rewrite map_length in Hj. rewrite (nth_map' _ ls j 0 d) by assumption.
    destruct (Nat.eq_dec j m) as [->|Hne].
    + rewrite nth_set_nth_same by assumption. rewrite nth_set_nth_same; [reflexivity|now rewrite map_length].
    + rewrite nth_set_nth_other by (now apply Hu). rewrite nth_set_nth_other by assumption.
      now rewrite (nth_map' _ ls j 0 d).
Qed.

Section HP.
Context {F : Type} (Op : fops F).
Local Notation heapF := (heap (F:=F)).

Lemma deref_w_fs (h : heapF) r :
  operand_fs (deref h r) = read_fs h (lst h (ref_fs h r)) /\
  operand_w Op (deref h r) = weights_or_ones Op (option_map (read_vec h) (ref_w h r)) (read_fs h (lst h (ref_fs h r))).
Proof. destruct r as [w fs|o]; simpl; auto. Qed.

(* facts the pure model's verdict gives about the mode *)
Lemma cp_mode_dot_ok_facts w (fs : list (mat F)) x mode kd w' fs' :
  cp_mode_dot Op w fs x mode kd = Ok (w', fs') ->
  mode < length fs /\ w' = w /\
  (is_contract x kd = true -> pred mode < length (remove_nth mode fs) /\
      fs' = set_nth (pred mode) (nth (pred mode) fs' []) (remove_nth mode fs)) /\
  (is_contract x kd = false -> fs' = set_nth mode (nth mode fs' []) fs).
Proof.
  unfold cp_mode_dot. destruct (mode <? length fs) eqn:Hm; [|discriminate]. apply Nat.ltb_lt in Hm. cbv zeta.
  destruct x as [M|v]; simpl.
  - destruct (rectb _ M); [|discriminate]. intros E. injection E as <- <-. repeat split; auto; try discriminate.
    intros _. now rewrite nth_set_nth_same by assumption.
  - destruct (Nat.eqb (length v) _); [|discriminate]. destruct kd; simpl.
    + intros E. injection E as <- <-. repeat split; auto; try discriminate.
      intros _. now rewrite nth_set_nth_same by assumption.
    + destruct (remove_nth mode fs) as [|B rest] eqn:Hr; [discriminate|]. intros E. injection E as <- <-.
      assert (Hlen : length (B :: rest) = length fs - 1) by (rewrite <- Hr; now apply remove_nth_length).
      assert (Hp : pred mode < length (B :: rest)) by (simpl in *; lia).
      repeat split; auto; try discriminate. now rewrite nth_set_nth_same by assumption.
Qed.

(* ---------------------------------------------------------------- the update step on the (possibly copied) list *)
Definition stage2 (h1 : heapF) (fl1 : nat) (x : operand (F:=F)) (mode : nat) (kd : bool) (fs' : list (mat F)) : heapF :=
  let ls := lst h1 fl1 in
  if is_contract x kd then
    set_arr (set_lst h1 fl1 (remove_nth mode ls)) (nth (pred mode) (remove_nth mode ls) 0) (nth (pred mode) fs' [])
  else let (h1a, l) := alloc_arr h1 (nth mode fs' []) in set_lst h1a fl1 (set_nth mode l ls).

Lemma stage2_lists h1 fl1 x mode kd fs' : fl1 < length (h_lst h1) ->
  lst (stage2 h1 fl1 x mode kd fs') fl1 =
    (if is_contract x kd then remove_nth mode (lst h1 fl1) else set_nth mode (length (h_arr h1)) (lst h1 fl1)) /\
  (forall k, k <> fl1 -> lst (stage2 h1 fl1 x mode kd fs') k = lst h1 k) /\
  length (h_lst (stage2 h1 fl1 x mode kd fs')) = length (h_lst h1) /\ h_obj (stage2 h1 fl1 x mode kd fs') = h_obj h1.
Proof.
  intros Hfl. unfold stage2. destruct (is_contract x kd); simpl; unfold lst; simpl.
  - rewrite nth_set_nth_same by assumption. repeat split; auto.
    + intros k Hk. now rewrite nth_set_nth_other.
    + apply set_nth_length.
  - rewrite nth_set_nth_same by assumption. repeat split; auto.
    + intros k Hk. now rewrite nth_set_nth_other.
    + apply set_nth_length.
Qed.

(* reading the updated list gives the pure model's factors -- provided the location updated IN PLACE is named only once *)
Lemma stage2_read h1 fl1 x mode kd (fs fs' : list (mat F)) :
  fl1 < length (h_lst h1) -> (forall l, In l (lst h1 fl1) -> l < length (h_arr h1)) ->
  read_fs h1 (lst h1 fl1) = fs -> mode < length fs ->
  (is_contract x kd = true -> pred mode < length (remove_nth mode fs) /\
      fs' = set_nth (pred mode) (nth (pred mode) fs' []) (remove_nth mode fs)) ->
  (is_contract x kd = false -> fs' = set_nth mode (nth mode fs' []) fs) ->
  (is_contract x kd = true -> forall j, j < length (remove_nth mode (lst h1 fl1)) -> j <> pred mode ->
      nth j (remove_nth mode (lst h1 fl1)) 0 <> nth (pred mode) (remove_nth mode (lst h1 fl1)) 0) ->
  read_fs (stage2 h1 fl1 x mode kd fs') (lst (stage2 h1 fl1 x mode kd fs') fl1) = fs'.
Proof.
  intros Hfl Hin Hrd Hm Hc Hn Hu. destruct (stage2_lists h1 fl1 x mode kd fs' Hfl) as (Hl & _). rewrite Hl. clear Hl.
  assert (Hlen : length (lst h1 fl1) = length fs) by (rewrite <- Hrd; unfold read_fs; now rewrite map_length).
  unfold stage2, read_fs, arr. destruct (is_contract x kd); simpl.
  - destruct (Hc eq_refl) as [Hp Hf]. set (ls' := remove_nth mode (lst h1 fl1)) in *.
    assert (Hl' : length ls' = length (remove_nth mode fs)).
    { unfold ls'. rewrite !remove_nth_length by lia. lia. }
    rewrite map_set_nth_unique; try (rewrite Hl'; exact Hp); try (apply Hu; reflexivity).
    + rewrite Hf at 2. f_equal. unfold ls'. rewrite map_remove_nth. f_equal. exact Hrd.
    + apply Hin. unfold ls'. eapply In_remove_nth. apply nth_In. fold ls'. rewrite Hl'. exact Hp.
  - rewrite map_set_nth. rewrite nth_middle. rewrite (Hn eq_refl) at 2. f_equal.
    rewrite <- Hrd. unfold read_fs, arr. apply map_ext_in. intros l Hl. apply app_nth1. now apply Hin.
Qed.

(* no caller-held array changes, except the one updated in place, which the updated list names *)
Lemma stage2_arrays h1 fl1 x mode kd (fs' : list (mat F)) l :
  fl1 < length (h_lst h1) -> l < length (h_arr h1) ->
  arr (stage2 h1 fl1 x mode kd fs') l = arr h1 l \/
  (is_contract x kd = true /\ (pred mode < length (remove_nth mode (lst h1 fl1)) -> In l (lst (stage2 h1 fl1 x mode kd fs') fl1))).
Proof.
  intros Hfl Hl. destruct (stage2_lists h1 fl1 x mode kd fs' Hfl) as (HL & _). rewrite HL. clear HL.
  unfold stage2, arr. destruct (is_contract x kd); simpl.
  - destruct (Nat.eq_dec l (nth (pred mode) (remove_nth mode (lst h1 fl1)) 0)) as [->|Hne].
    + right. split; [reflexivity|]. intros Hp. now apply nth_In.
    + left. now rewrite nth_set_nth_other.
  - left. now apply app_nth1.
Qed.

Lemma stage2_bound h1 fl1 x mode kd (fs' : list (mat F)) :
  fl1 < length (h_lst h1) -> (forall l, In l (lst h1 fl1) -> l < length (h_arr h1)) ->
  length (h_arr h1) <= length (h_arr (stage2 h1 fl1 x mode kd fs')) /\
  forall l, In l (lst (stage2 h1 fl1 x mode kd fs') fl1) -> l < length (h_arr (stage2 h1 fl1 x mode kd fs')).
Proof.
  intros Hfl Hin. destruct (stage2_lists h1 fl1 x mode kd fs' Hfl) as (HL & _). rewrite HL. clear HL.
  unfold stage2. destruct (is_contract x kd); simpl.
  - rewrite set_nth_length. split; auto. intros l Hl. apply Hin. eapply In_remove_nth; eauto.
  - rewrite app_length. simpl. split; [lia|]. intros l Hl. destruct (In_set_nth _ _ _ _ Hl) as [->|H]; [lia|].
    specialize (Hin l H). lia.
Qed.

Lemma cp_mode_dot_h_nocopy h r x mode kd :
  cp_mode_dot_h_before Op h r false x mode kd =
  if guard h r mode then
    match cp_mode_dot Op (operand_w Op (deref h r)) (operand_fs (deref h r)) x mode kd with
    | Err => Err
    | Ok (_, fs') =>
        let h2 := stage2 h (ref_fs h r) x mode kd fs' in
        match r with
        | RObject o => Ok (set_obj h2 o (mk_cell (cp_shape (read_fs h2 (lst h2 (ref_fs h r)))) (c_w (obj h2 o)) (c_fs (obj h2 o))), o)
        | RTuple _ _ => new_obj Op h2 (ref_w h r) (ref_fs h r)
        end
    end
  else Err.
Proof.
  unfold cp_mode_dot_h_before, stage2. destruct (guard h r mode); [|reflexivity].
  destruct (cp_mode_dot Op _ _ x mode kd) as [[w' fs']|]; [|reflexivity]. cbv zeta.
  destruct (is_contract x kd); reflexivity.
Qed.

(* what the freshly built / updated object reads as *)
Lemma new_obj_read h2 (wl : option nat) fl h' o :
  new_obj Op h2 wl fl = Ok (h', o) ->
  (forall l, In l (lst h2 fl) -> l < length (h_arr h2)) -> (forall l, wl = Some l -> l < length (h_arr h2)) ->
  cpo_fs (read_obj h' o) = read_fs h2 (lst h2 fl) /\ cpo_shape (read_obj h' o) = cp_shape (read_fs h2 (lst h2 fl)) /\
  cpo_w (read_obj h' o) = match wl with Some l => read_vec h2 l | None => ones Op (cp_rank (read_fs h2 (lst h2 fl))) end /\
  o = length (h_obj h2) /\ h_lst h' = h_lst h2 /\ h_obj h' = h_obj h2 ++ [obj h' o] /\ c_fs (obj h' o) = fl /\
  (exists a, h_arr h' = h_arr h2 ++ a) /\
  (c_w (obj h' o) = match wl with Some l => l | None => length (h_arr h2) end).
Proof.
  unfold new_obj. destruct (cp_validb _ _); [|discriminate]. intros E Hin Hw.
  destruct wl as [l|]; injection E as <- <-; unfold read_obj, obj, lst, read_vec, read_fs, arr; simpl; rewrite nth_middle; simpl.
  - repeat split; auto. exists []. now rewrite app_nil_r.
  - rewrite nth_middle. simpl. repeat split; auto.
    + apply map_ext_in. intros l Hl. apply app_nth1. now apply Hin.
    + eexists. reflexivity.
Qed.

Lemma new_obj_cw h2 (wl : option nat) fl h' o : new_obj Op h2 wl fl = Ok (h', o) ->
  (forall l, wl = Some l -> l < length (h_arr h2)) -> c_w (obj h' o) < length (h_arr h').
Proof.
  unfold new_obj. destruct (cp_validb _ _); [|discriminate]. intros E Hw.
  destruct wl as [l|]; injection E as <- <-; unfold obj; simpl; rewrite nth_middle; simpl.
  - now apply Hw.
  - rewrite app_length. simpl. lia.
Qed.
Lemma read_obj_set_obj (h2 : heapF) o0 cell : o0 < length (h_obj h2) ->
  read_obj (set_obj h2 o0 cell) o0 = mk_cpobj (c_shape cell) (read_vec h2 (c_w cell)) (read_fs h2 (lst h2 (c_fs cell))).
Proof. intros H. unfold read_obj, obj, set_obj, read_vec, read_fs, lst, arr. simpl. now rewrite nth_set_nth_same. Qed.

(* copy=False: the result reads as the pure model's answer PROVIDED the array that absorbs a contracted vector in place is named
   by one remaining entry of the factor list only (and is not the weights array) *)
Theorem cp_mode_dot_h_inplace_value (h : heapF) r x mode kd h' o :
  wf_ref h r ->
  (forall l, ref_w h r = Some l -> ~ In l (lst h (ref_fs h r))) ->
  (is_contract x kd = true -> forall j, j < length (remove_nth mode (lst h (ref_fs h r))) -> j <> pred mode ->
      nth j (remove_nth mode (lst h (ref_fs h r))) 0 <> nth (pred mode) (remove_nth mode (lst h (ref_fs h r))) 0) ->
  cp_mode_dot_h_before Op h r false x mode kd = Ok (h', o) ->
  exists w' fs', cp_mode_dot Op (operand_w Op (deref h r)) (operand_fs (deref h r)) x mode kd = Ok (w', fs') /\
     cpo_fs (read_obj h' o) = fs' /\ cpo_shape (read_obj h' o) = cp_shape fs' /\
     cpo_w (read_obj h' o) = match ref_w h r with Some _ => w' | None => ones Op (cp_rank fs') end.
Proof.
  intros (Hfl & Hin & Hwl & Hob) Hwn Hu. rewrite cp_mode_dot_h_nocopy.
  destruct (guard h r mode) eqn:Hguard; [|discriminate].
  destruct (cp_mode_dot Op _ _ x mode kd) as [[w' fs']|] eqn:Hpure; [|discriminate]. cbv zeta.
  destruct (deref_w_fs h r) as [Efs Ew]. rewrite Efs in Hpure.
  destruct (cp_mode_dot_ok_facts _ _ _ _ _ _ _ Hpure) as (Hm & Hw' & Hc & Hn).
  set (fl := ref_fs h r) in *. set (h2 := stage2 h fl x mode kd fs').
  assert (Hlen : length (lst h fl) = length (read_fs h (lst h fl))) by (unfold read_fs; now rewrite map_length).
  assert (Hrd : read_fs h2 (lst h2 fl) = fs') by (apply (stage2_read h fl x mode kd (read_fs h (lst h fl))); auto).
  destruct (stage2_bound h fl x mode kd fs' Hfl Hin) as [Hge Hb].
  destruct (stage2_lists h fl x mode kd fs' Hfl) as (HL & HLo & HLl & HO).
  fold h2 in Hge, Hb, HL, HLo, HLl, HO.
  assert (Hwv : forall l, ref_w h r = Some l -> read_vec h2 l = read_vec h l).
  { intros l El. unfold read_vec. f_equal. destruct (stage2_arrays h fl x mode kd fs' l Hfl (Hwl l El)) as [E|Hin2]; [exact E|].
    exfalso. destruct Hin2 as [Hic Hin2]. destruct (Hc Hic) as [Hp _]. apply (Hwn l El). assert (In l (lst h2 fl)) as Hi.
    { apply Hin2. rewrite remove_nth_length by lia. rewrite remove_nth_length in Hp by lia. lia. }
    rewrite HL, Hic in Hi. eapply In_remove_nth; eauto. }
  intros E. exists w', fs'. split; [reflexivity|].
  destruct r as [w0 fl0|o0].
  - destruct (new_obj_read h2 w0 fl0 h' o E) as (R1 & R2 & R3 & _).
    + exact Hb.
    + intros l El. specialize (Hwl l El). lia.
    + change fl0 with fl in R1, R2, R3. rewrite Hrd in R1, R2, R3. repeat split; auto. rewrite R3. simpl ref_w. destruct w0 as [l|]; auto.
      rewrite (Hwv l eq_refl). subst w'. rewrite Ew. reflexivity.
  - injection E as <- <-. specialize (Hob o0 eq_refl).
    assert (Eo : obj h2 o0 = obj h o0) by (unfold obj; now rewrite HO).
    rewrite read_obj_set_obj by (rewrite HO; exact Hob). cbn [cpo_fs cpo_shape cpo_w c_shape c_w c_fs].
    rewrite Eo. change (c_fs (obj h o0)) with fl. rewrite Hrd. repeat split; auto.
    rewrite (Hwv _ eq_refl). subst w'. rewrite Ew. reflexivity.
Qed.

Lemma obj_set_obj (h2 : heapF) o0 cell : o0 < length (h_obj h2) -> obj (set_obj h2 o0 cell) o0 = cell.
Proof. intros H. unfold obj, set_obj. simpl. now rewrite nth_set_nth_same. Qed.

(* copy=False, whatever the aliasing: no array the caller holds is clobbered silently -- it keeps its value or is owned by the result *)
Theorem cp_mode_dot_h_no_silent_clobber (h : heapF) r x mode kd h' o :
  wf_ref h r -> cp_mode_dot_h_before Op h r false x mode kd = Ok (h', o) -> no_silent_clobber h h' o.
Proof.
  intros (Hfl & Hin & Hwl & Hob). rewrite cp_mode_dot_h_nocopy.
  destruct (guard h r mode) eqn:Hguard; [|discriminate].
  destruct (cp_mode_dot Op _ _ x mode kd) as [[w' fs']|] eqn:Hpure; [|discriminate]. cbv zeta.
  destruct (deref_w_fs h r) as [Efs _]. rewrite Efs in Hpure.
  destruct (cp_mode_dot_ok_facts _ _ _ _ _ _ _ Hpure) as (Hm & _ & Hc & _).
  set (fl := ref_fs h r) in *. set (h2 := stage2 h fl x mode kd fs').
  assert (Hlen : length (lst h fl) = length (read_fs h (lst h fl))) by (unfold read_fs; now rewrite map_length).
  destruct (stage2_bound h fl x mode kd fs' Hfl Hin) as [Hge Hb].
  destruct (stage2_lists h fl x mode kd fs' Hfl) as (HL & HLo & HLl & HO).
  fold h2 in Hge, Hb, HL, HLo, HLl, HO.
  intros E l Hl.
  assert (H2 : arr h2 l = arr h l \/ In l (lst h2 fl)).
  { destruct (stage2_arrays h fl x mode kd fs' l Hfl Hl) as [E2|[Hic Hin2]]; [now left|right].
    apply Hin2. destruct (Hc Hic) as [Hp _]. rewrite remove_nth_length by lia. rewrite remove_nth_length in Hp by lia. lia. }
  destruct r as [w0 fl0|o0].
  - destruct (new_obj_read h2 w0 fl0 h' o E) as (_ & _ & _ & _ & EL & _ & Ecf & [a Ea] & _).
    + exact Hb.
    + intros l0 El. specialize (Hwl l0 El). lia.
    + change fl0 with fl in Ecf. unfold owned. rewrite Ecf. unfold lst at 1. rewrite EL. fold (lst h2 fl).
      unfold arr at 1. rewrite Ea, app_nth1 by lia. fold (arr h2 l). destruct H2; [left|right; right]; assumption.
  - injection E as <- <-. specialize (Hob o0 eq_refl). unfold owned.
    rewrite obj_set_obj by (rewrite HO; exact Hob). cbn [c_w c_fs].
    assert (Eo : obj h2 o0 = obj h o0) by (unfold obj; now rewrite HO). rewrite Eo. change (c_fs (obj h o0)) with fl.
    match goal with |- context [lst (set_obj h2 o0 ?c) fl] => change (lst (set_obj h2 o0 c) fl) with (lst h2 fl) end.
    match goal with |- context [arr (set_obj h2 o0 ?c) l] => change (arr (set_obj h2 o0 c) l) with (arr h2 l) end.
    destruct H2; [left|right; right]; assumption.
Qed.

(* ---------------------------------------------------------------- copy=True *)
Lemma NoDup_remove_nth {A} : forall k (l : list A), NoDup l -> NoDup (remove_nth k l).
Proof.
  induction k; intros [|a l] H; simpl; auto; inversion H; subst; auto.
  constructor; auto. intros Hin. apply H2. eapply In_remove_nth; eauto.
Qed.
Lemma nth_seq_copy {B} (d : B) (A vals extra : list B) :
  map (fun l => nth l ((A ++ vals) ++ extra) d) (seq (length A) (length vals)) = vals.
Proof.
  apply (nth_ext _ _ d d).
  - now rewrite map_length, seq_length.
  - intros j Hj. rewrite map_length, seq_length in Hj. rewrite (nth_map' _ _ j 0 d) by (now rewrite seq_length).
    rewrite seq_nth by assumption. rewrite <- app_assoc. rewrite app_nth2 by lia. rewrite app_nth1 by lia. f_equal. lia.
Qed.

Lemma cp_mode_dot_h_copy h r x mode kd :
  cp_mode_dot_h_before Op h r true x mode kd =
  if guard h r mode then
    match cp_mode_dot Op (operand_w Op (deref h r)) (operand_fs (deref h r)) x mode kd with
    | Err => Err
    | Ok (_, fs') =>
        let h1a := fst (copy_list h (ref_fs h r)) in let fl1 := snd (copy_list h (ref_fs h r)) in
        let h1 := fst (copy_w h1a (ref_w h r)) in let wl1 := snd (copy_w h1a (ref_w h r)) in
        new_obj Op (stage2 h1 fl1 x mode kd fs') wl1 fl1
    end
  else Err.
Proof.
  unfold cp_mode_dot_h_before, stage2. destruct (guard h r mode); [|reflexivity].
  destruct (cp_mode_dot Op _ _ x mode kd) as [[w' fs']|]; [|reflexivity]. cbv zeta.
  destruct (copy_list h (ref_fs h r)) as [h1a fl1]. cbn [fst snd].
  destruct (copy_w h1a (ref_w h r)) as [h1 wl1]. cbn [fst snd].
  destruct (is_contract x kd); destruct r; reflexivity.
Qed.

(* the state after the copies: fresh arrays holding the same values, a fresh list naming them, nothing old touched *)
Lemma copies_spec (h : heapF) r : wf_ref h r ->
  let h1a := fst (copy_list h (ref_fs h r)) in let fl1 := snd (copy_list h (ref_fs h r)) in
  let h1 := fst (copy_w h1a (ref_w h r)) in let wl1 := snd (copy_w h1a (ref_w h r)) in
  let n0 := length (h_arr h) in let N := length (lst h (ref_fs h r)) in
  fl1 = length (h_lst h) /\ h_lst h1 = h_lst h ++ [seq n0 N] /\ h_obj h1 = h_obj h /\
  (exists a, h_arr h1 = h_arr h ++ a /\ N <= length a) /\
  read_fs h1 (seq n0 N) = read_fs h (lst h (ref_fs h r)) /\
  option_map (read_vec h1) wl1 = option_map (read_vec h) (ref_w h r) /\
  (forall l, wl1 = Some l -> l = n0 + N /\ l < length (h_arr h1)) /\ (wl1 = None <-> ref_w h r = None).
Proof.
  intros (Hfl & Hin & Hwl & Hob). cbv zeta. unfold copy_list, alloc_lst. cbn [fst snd h_arr h_lst h_obj].
  assert (Hv : length (map (arr h) (lst h (ref_fs h r))) = length (lst h (ref_fs h r))) by (now rewrite map_length).
  destruct (ref_w h r) as [l|] eqn:Ew; unfold copy_w, alloc_arr; cbn [fst snd h_arr h_lst h_obj]; unfold read_fs, read_vec, arr; cbn [h_arr].
  - assert (Hl : l < length (h_arr h)) by (now apply Hwl).
    split; [reflexivity|]. split; [reflexivity|]. split; [reflexivity|]. split; [|split; [|split; [|split]]].
    + eexists. split; [symmetry; apply app_assoc|]. rewrite app_length, map_length. lia.
    + rewrite <- Hv at 1. apply nth_seq_copy.
    + simpl. f_equal. rewrite nth_middle. rewrite app_nth1 by assumption. reflexivity.
    + intros l0 E. injection E as <-. rewrite !app_length, !map_length. simpl. lia.
    + split; discriminate.
  - split; [reflexivity|]. split; [reflexivity|]. split; [reflexivity|]. split; [|split; [|split; [|split]]].
    + eexists. split; [reflexivity|]. rewrite map_length. lia.
    + rewrite <- Hv at 1. rewrite <- (app_nil_r (h_arr h ++ _)). apply nth_seq_copy.
    + reflexivity.
    + discriminate.
    + split; reflexivity.
Qed.

Lemma stage2_prefix (h1 : heapF) fl1 x mode kd (fs' : list (mat F)) (A a : list (mat F)) :
  h_arr h1 = A ++ a -> (forall l, In l (lst h1 fl1) -> length A <= l) ->
  (is_contract x kd = true -> pred mode < length (remove_nth mode (lst h1 fl1))) ->
  exists a2, h_arr (stage2 h1 fl1 x mode kd fs') = A ++ a2.
Proof.
  intros Ha Hge Hp. unfold stage2. destruct (is_contract x kd); simpl.
  - rewrite Ha. rewrite set_nth_app_r; [eexists; reflexivity|].
    apply Hge. eapply In_remove_nth. apply nth_In. now apply Hp.
  - rewrite Ha. rewrite <- app_assoc. eexists; reflexivity.
Qed.

(* copy=True: nothing the caller holds is touched, the result is a fresh object owning fresh arrays only, and it reads as the
   pure model's answer -- whatever the aliasing in the caller's factor list *)
Theorem cp_mode_dot_h_copy_fresh (h : heapF) r x mode kd h' o :
  wf_ref h r -> cp_mode_dot_h_before Op h r true x mode kd = Ok (h', o) ->
  extends h h' /\ length (h_obj h) <= o /\ (forall l, In l (owned h' o) -> length (h_arr h) <= l) /\
  wf_ref h' (RObject o) /\
  exists w' fs', cp_mode_dot Op (operand_w Op (deref h r)) (operand_fs (deref h r)) x mode kd = Ok (w', fs') /\
     cpo_fs (read_obj h' o) = fs' /\ cpo_shape (read_obj h' o) = cp_shape fs' /\
     cpo_w (read_obj h' o) = match ref_w h r with Some _ => w' | None => ones Op (cp_rank fs') end.
Proof.
  intros Hwf. pose proof (copies_spec h r Hwf) as Hc0. cbv zeta in Hc0. destruct Hwf as (Hfl & Hin & Hwl & Hob).
  rewrite cp_mode_dot_h_copy.
  destruct (guard h r mode) eqn:Hguard; [|discriminate].
  destruct (cp_mode_dot Op _ _ x mode kd) as [[w' fs']|] eqn:Hpure; [|discriminate]. cbv zeta.
  destruct (deref_w_fs h r) as [Efs Ew]. rewrite Efs in Hpure.
  destruct (cp_mode_dot_ok_facts _ _ _ _ _ _ _ Hpure) as (Hm & Hw' & Hc & Hn).
  set (h1a := fst (copy_list h (ref_fs h r))) in *. set (fl1 := snd (copy_list h (ref_fs h r))) in *.
  set (h1 := fst (copy_w h1a (ref_w h r))) in *. set (wl1 := snd (copy_w h1a (ref_w h r))) in *.
  set (n0 := length (h_arr h)) in *. set (N := length (lst h (ref_fs h r))) in *.
  destruct Hc0 as (Efl & EL & EO & (a & Ea & HaN) & Erd & Ewv & Hw1 & Hwn).
  assert (HN : N = length (read_fs h (lst h (ref_fs h r)))) by (unfold read_fs, N; now rewrite map_length).
  assert (Hfl1 : fl1 < length (h_lst h1)) by (rewrite EL, app_length, Efl; simpl; lia).
  assert (Els : lst h1 fl1 = seq n0 N) by (unfold lst; rewrite EL, Efl; apply nth_middle).
  assert (Hin1 : forall l, In l (lst h1 fl1) -> l < length (h_arr h1)).
  { intros l Hl. rewrite Els in Hl. apply in_seq in Hl. rewrite Ea, app_length. fold n0. lia. }
  assert (Hge1 : forall l, In l (lst h1 fl1) -> n0 <= l) by (intros l Hl; rewrite Els in Hl; apply in_seq in Hl; lia).
  assert (Hrd1 : read_fs h1 (lst h1 fl1) = read_fs h (lst h (ref_fs h r))) by (now rewrite Els).
  assert (Hlen1 : length (lst h1 fl1) = N) by (rewrite Els; apply seq_length).
  assert (Hp1 : is_contract x kd = true -> pred mode < length (remove_nth mode (lst h1 fl1))).
  { intros Hic. destruct (Hc Hic) as [Hp _]. rewrite remove_nth_length by lia. rewrite remove_nth_length in Hp by lia. lia. }
  set (h2 := stage2 h1 fl1 x mode kd fs').
  assert (Hrd : read_fs h2 (lst h2 fl1) = fs').
  { apply (stage2_read h1 fl1 x mode kd (read_fs h (lst h (ref_fs h r)))); auto.
    intros Hic j Hj Hne E. apply Hne.
    assert (ND : NoDup (remove_nth mode (lst h1 fl1))) by (rewrite Els; apply NoDup_remove_nth, seq_NoDup).
    eapply (NoDup_nth _ 0); eauto. }
  destruct (stage2_bound h1 fl1 x mode kd fs' Hfl1 Hin1) as [Hge Hb].
  destruct (stage2_lists h1 fl1 x mode kd fs' Hfl1) as (HL & HLo & HLl & HO).
  destruct (stage2_prefix h1 fl1 x mode kd fs' (h_arr h) a Ea Hge1 Hp1) as [a2 Ea2].
  fold h2 in Hge, Hb, HL, HLo, HLl, HO, Ea2.
  intros E.
  destruct (new_obj_read h2 wl1 fl1 h' o E) as (R1 & R2 & R3 & Ro & RL & RO & Rcf & [a3 Ra3] & Rcw).
  { exact Hb. }
  { intros l El. destruct (Hw1 l El) as [_ Hl]. lia. }
  assert (Hlst2 : forall l, In l (lst h2 fl1) -> n0 <= l).
  { intros l Hl. rewrite HL in Hl. destruct (is_contract x kd).
    - apply Hge1. eapply In_remove_nth; eauto.
    - destruct (In_set_nth _ _ _ _ Hl) as [->|Hl']; [rewrite Ea, app_length; fold n0; lia | now apply Hge1]. }
  pose proof (new_obj_cw h2 wl1 fl1 h' o E) as Hcw.
  split; [|split; [|split; [|split]]].
  - (* extends *) unfold extends. split; [|split].
    + exists (a2 ++ a3). now rewrite Ra3, Ea2, app_assoc.
    + rewrite RL. unfold h2, stage2. destruct (is_contract x kd); simpl; rewrite EL, Efl;
        rewrite set_nth_app_r by lia; rewrite Nat.sub_diag; simpl; eexists; reflexivity.
    + rewrite RO, HO, EO. eexists; reflexivity.
  - rewrite Ro, HO, EO. lia.
  - intros l [El|Hl].
    + rewrite Rcw in El. subst l. destruct wl1 as [l1|] eqn:Ew1.
      * destruct (Hw1 l1 eq_refl) as [-> _]. lia.
      * rewrite Ea2, app_length. fold n0. lia.
    + rewrite Rcf in Hl. unfold lst in Hl. rewrite RL in Hl. fold (lst h2 fl1) in Hl. now apply Hlst2.
  - (* the result is a well-formed reference of the new heap *)
    unfold wf_ref. simpl ref_fs. simpl ref_w. rewrite Rcf. split; [|split; [|split]].
    + rewrite RL, HLl. exact Hfl1.
    + intros l Hl. unfold lst in Hl. rewrite RL in Hl. fold (lst h2 fl1) in Hl. specialize (Hb l Hl). rewrite Ra3, app_length. lia.
    + intros l El. injection El as <-. apply Hcw. intros l El. destruct (Hw1 l El) as [_ Hl]. lia.
    + intros o0 Eo. injection Eo as <-. rewrite RO, app_length, Ro. simpl. lia.
  - exists w', fs'. split; [reflexivity|]. rewrite Hrd in R1, R2, R3. repeat split; auto. rewrite R3.
    destruct wl1 as [l1|] eqn:Ew1; destruct (ref_w h r) as [l|] eqn:Ewr; simpl in Ewv; try discriminate; auto.
    + destruct (Hw1 l1 eq_refl) as [El1 Hl1].
      assert (read_vec h2 l1 = read_vec h1 l1) as ->.
      { unfold read_vec. f_equal. destruct (stage2_arrays h1 fl1 x mode kd fs' l1 Hfl1 Hl1) as [E2|[Hic Hin2]]; [exact E2|].
        exfalso. specialize (Hin2 (Hp1 Hic)).
        fold h2 in Hin2. rewrite HL, Hic in Hin2. apply In_remove_nth in Hin2. rewrite Els in Hin2. apply in_seq in Hin2. lia. }
      injection Ewv as ->. subst w'. rewrite Ew. reflexivity.
Qed.

(* ---------------------------------------------------------------- the repaired tree: the product goes to a fresh array *)
Definition stage2f (h1 : heapF) (fl1 : nat) (x : operand (F:=F)) (mode : nat) (kd : bool) (fs' : list (mat F)) : heapF :=
  if is_contract x kd then stage2 (set_lst h1 fl1 (remove_nth mode (lst h1 fl1))) fl1 (OpMat []) (pred mode) false fs'
  else stage2 h1 fl1 x mode kd fs'.
Lemma lst_set_lst_same (h : heapF) fl v : fl < length (h_lst h) -> lst (set_lst h fl v) fl = v.
Proof. intros H. unfold lst, set_lst. simpl. now apply nth_set_nth_same. Qed.

Lemma cp_mode_dot_h_fresh_nocopy h r x mode kd : ref_fs h r < length (h_lst h) ->
  cp_mode_dot_h Op h r false x mode kd =
  if guard h r mode then
    match cp_mode_dot Op (operand_w Op (deref h r)) (operand_fs (deref h r)) x mode kd with
    | Err => Err
    | Ok (_, fs') =>
        let h2 := stage2f h (ref_fs h r) x mode kd fs' in
        match r with
        | RObject o => Ok (set_obj h2 o (mk_cell (cp_shape (read_fs h2 (lst h2 (ref_fs h r)))) (c_w (obj h2 o)) (c_fs (obj h2 o))), o)
        | RTuple _ _ => new_obj Op h2 (ref_w h r) (ref_fs h r)
        end
    end
  else Err.
Proof.
  intros Hfl. unfold cp_mode_dot_h, stage2f, stage2. destruct (guard h r mode); [|reflexivity].
  destruct (cp_mode_dot Op _ _ x mode kd) as [[w' fs']|]; [|reflexivity]. cbv zeta.
  destruct (is_contract x kd); [|reflexivity]. cbn [is_contract]. cbv iota.
  rewrite (lst_set_lst_same h (ref_fs h r) _ Hfl). reflexivity.
Qed.

(* the last step (fresh object for a tuple, shape update for an object) reads back what the updated list holds *)
Lemma result_stage_read (h : heapF) r (h2 : heapF) fs' w' h' o :
  (forall o0, r = RObject o0 -> o0 < length (h_obj h)) -> h_obj h2 = h_obj h ->
  read_fs h2 (lst h2 (ref_fs h r)) = fs' ->
  (forall l, In l (lst h2 (ref_fs h r)) -> l < length (h_arr h2)) ->
  (forall l, ref_w h r = Some l -> l < length (h_arr h2) /\ read_vec h2 l = w') ->
  match r with
  | RObject o0 => Ok (set_obj h2 o0 (mk_cell (cp_shape (read_fs h2 (lst h2 (ref_fs h r)))) (c_w (obj h2 o0)) (c_fs (obj h2 o0))), o0)
  | RTuple _ _ => new_obj Op h2 (ref_w h r) (ref_fs h r)
  end = Ok (h', o) ->
  cpo_fs (read_obj h' o) = fs' /\ cpo_shape (read_obj h' o) = cp_shape fs' /\
  cpo_w (read_obj h' o) = match ref_w h r with Some _ => w' | None => ones Op (cp_rank fs') end.
Proof.
  intros Hob HO Hrd Hb Hw E. destruct r as [w0 fl0|o0].
  - destruct (new_obj_read h2 w0 fl0 h' o E) as (R1 & R2 & R3 & _).
    + exact Hb.
    + intros l El. now destruct (Hw l El).
    + simpl ref_fs in Hrd. rewrite Hrd in R1, R2, R3. repeat split; auto. rewrite R3. simpl ref_w. destruct w0 as [l|]; auto.
      now destruct (Hw l eq_refl).
  - injection E as <- <-. specialize (Hob o0 eq_refl).
    assert (Eo : obj h2 o0 = obj h o0) by (unfold obj; now rewrite HO).
    rewrite read_obj_set_obj by (rewrite HO; exact Hob). cbn [cpo_fs cpo_shape cpo_w c_shape c_w c_fs].
    rewrite Eo. simpl ref_fs in Hrd. rewrite Hrd. repeat split; auto. simpl ref_w. now destruct (Hw _ eq_refl).
Qed.

(* repaired tree, copy=False: the result reads as the pure model's answer WHATEVER the aliasing, and no array is ever overwritten *)
Theorem cp_mode_dot_h_fresh_value (h : heapF) r x mode kd h' o :
  wf_ref h r -> cp_mode_dot_h Op h r false x mode kd = Ok (h', o) ->
  (exists a, h_arr h' = h_arr h ++ a) /\
  exists w' fs', cp_mode_dot Op (operand_w Op (deref h r)) (operand_fs (deref h r)) x mode kd = Ok (w', fs') /\
     cpo_fs (read_obj h' o) = fs' /\ cpo_shape (read_obj h' o) = cp_shape fs' /\
     cpo_w (read_obj h' o) = match ref_w h r with Some _ => w' | None => ones Op (cp_rank fs') end.
Proof.
  intros (Hfl & Hin & Hwl & Hob). rewrite cp_mode_dot_h_fresh_nocopy by assumption.
  destruct (guard h r mode) eqn:Hguard; [|discriminate].
  destruct (cp_mode_dot Op _ _ x mode kd) as [[w' fs']|] eqn:Hpure; [|discriminate]. cbv zeta.
  destruct (deref_w_fs h r) as [Efs Ew]. rewrite Efs in Hpure.
  destruct (cp_mode_dot_ok_facts _ _ _ _ _ _ _ Hpure) as (Hm & Hw' & Hc & Hn).
  set (fl := ref_fs h r) in *.
  assert (Hlen : length (lst h fl) = length (read_fs h (lst h fl))) by (unfold read_fs; now rewrite map_length).
  (* the base heap of the update: the list cell already popped in the contraction case *)
  set (hb := if is_contract x kd then set_lst h fl (remove_nth mode (lst h fl)) else h).
  set (xb := if is_contract x kd then OpMat [] else x). set (mb := if is_contract x kd then pred mode else mode).
  set (kb := if is_contract x kd then false else kd).
  set (fsb := if is_contract x kd then remove_nth mode (read_fs h (lst h fl)) else read_fs h (lst h fl)).
  assert (Eh2 : stage2f h fl x mode kd fs' = stage2 hb fl xb mb kb fs') by (unfold stage2f, hb, xb, mb, kb; destruct (is_contract x kd); reflexivity).
  assert (Hicb : is_contract xb kb = false) by (unfold xb, kb; destruct (is_contract x kd) eqn:E; [reflexivity|exact E]).
  assert (Hflb : fl < length (h_lst hb)) by (unfold hb; destruct (is_contract x kd); [simpl; now rewrite set_nth_length|assumption]).
  assert (Harr : h_arr hb = h_arr h) by (unfold hb; destruct (is_contract x kd); reflexivity).
  assert (Hobj : h_obj hb = h_obj h) by (unfold hb; destruct (is_contract x kd); reflexivity).
  assert (Hlsb : lst hb fl = if is_contract x kd then remove_nth mode (lst h fl) else lst h fl).
  { unfold hb. destruct (is_contract x kd); [now apply lst_set_lst_same|reflexivity]. }
  assert (Hinb : forall l, In l (lst hb fl) -> l < length (h_arr hb)).
  { intros l Hl. rewrite Harr. rewrite Hlsb in Hl. apply Hin. destruct (is_contract x kd); [eapply In_remove_nth; eauto|assumption]. }
  assert (Hrdb : read_fs hb (lst hb fl) = fsb).
  { unfold fsb. rewrite Hlsb. unfold read_fs, arr. rewrite Harr. destruct (is_contract x kd); [apply map_remove_nth|reflexivity]. }
  assert (Hmb : mb < length fsb).
  { unfold mb, fsb. destruct (is_contract x kd) eqn:E; [now destruct (Hc eq_refl)|assumption]. }
  assert (Hfb : fs' = set_nth mb (nth mb fs' []) fsb).
  { unfold mb, fsb. destruct (is_contract x kd) eqn:E; [now destruct (Hc eq_refl)|now apply Hn]. }
  set (h2 := stage2f h fl x mode kd fs').
  assert (Hrd : read_fs h2 (lst h2 fl) = fs').
  { unfold h2. rewrite Eh2. apply (stage2_read hb fl xb mb kb fsb); auto; rewrite Hicb; discriminate. }
  destruct (stage2_bound hb fl xb mb kb fs' Hflb Hinb) as [Hge Hb].
  destruct (stage2_lists hb fl xb mb kb fs' Hflb) as (_ & _ & _ & HO).
  rewrite <- Eh2 in Hge, Hb, HO. fold h2 in Hge, Hb, HO. rewrite Harr in Hge. rewrite Hobj in HO.
  assert (Hpre : exists a, h_arr h2 = h_arr h ++ a).
  { unfold h2. rewrite Eh2. unfold stage2. rewrite Hicb. simpl. rewrite Harr. eexists; reflexivity. }
  intros E. split.
  - destruct Hpre as [a Ea]. destruct r as [w0 fl0|o0].
    + destruct (new_obj_read h2 w0 fl0 h' o E) as (_ & _ & _ & _ & _ & _ & _ & [a3 Ra3] & _).
      * exact Hb.
      * intros l El. specialize (Hwl l El). lia.
      * exists (a ++ a3). now rewrite Ra3, Ea, app_assoc.
    + injection E as <- <-. exists a. exact Ea.
  - exists w', fs'. split; [reflexivity|].
    apply (result_stage_read h r h2 fs' w' h' o); auto.
    intros l El. split; [specialize (Hwl l El); lia|].
    destruct Hpre as [a Ea]. unfold read_vec, arr. rewrite Ea, app_nth1 by (now apply Hwl).
    subst w'. rewrite Ew, El. reflexivity.
Qed.

(* the update step of the current tree from ANY base heap: appends arrays only, rewrites one list cell, reads back fs' *)
Lemma stage2f_spec (h1 : heapF) fl1 x mode kd (fs fs' : list (mat F)) :
  fl1 < length (h_lst h1) -> (forall l, In l (lst h1 fl1) -> l < length (h_arr h1)) ->
  read_fs h1 (lst h1 fl1) = fs -> mode < length fs ->
  (is_contract x kd = true -> pred mode < length (remove_nth mode fs) /\
      fs' = set_nth (pred mode) (nth (pred mode) fs' []) (remove_nth mode fs)) ->
  (is_contract x kd = false -> fs' = set_nth mode (nth mode fs' []) fs) ->
  let h2 := stage2f h1 fl1 x mode kd fs' in
  read_fs h2 (lst h2 fl1) = fs' /\ (exists a, h_arr h2 = h_arr h1 ++ a) /\
  (forall l, In l (lst h2 fl1) -> l < length (h_arr h2)) /\ h_obj h2 = h_obj h1 /\
  h_lst h2 = set_nth fl1 (lst h2 fl1) (h_lst h1) /\
  (forall l, In l (lst h2 fl1) -> In l (lst h1 fl1) \/ l = length (h_arr h1)).
Proof.
  intros Hfl Hin Hrd0 Hm Hc Hn. cbv zeta. subst fs.
  assert (Hlen : length (lst h1 fl1) = length (read_fs h1 (lst h1 fl1))) by (unfold read_fs; now rewrite map_length).
  set (hb := if is_contract x kd then set_lst h1 fl1 (remove_nth mode (lst h1 fl1)) else h1).
  set (xb := if is_contract x kd then OpMat [] else x). set (mb := if is_contract x kd then pred mode else mode).
  set (kb := if is_contract x kd then false else kd).
  set (fsb := if is_contract x kd then remove_nth mode (read_fs h1 (lst h1 fl1)) else read_fs h1 (lst h1 fl1)).
  assert (Eh2 : stage2f h1 fl1 x mode kd fs' = stage2 hb fl1 xb mb kb fs') by (unfold stage2f, hb, xb, mb, kb; destruct (is_contract x kd); reflexivity).
  assert (Hicb : is_contract xb kb = false) by (unfold xb, kb; destruct (is_contract x kd) eqn:E; [reflexivity|exact E]).
  assert (Hflb : fl1 < length (h_lst hb)) by (unfold hb; destruct (is_contract x kd); [simpl; now rewrite set_nth_length|assumption]).
  assert (Harr : h_arr hb = h_arr h1) by (unfold hb; destruct (is_contract x kd); reflexivity).
  assert (Hobj : h_obj hb = h_obj h1) by (unfold hb; destruct (is_contract x kd); reflexivity).
  assert (Hlsb : lst hb fl1 = if is_contract x kd then remove_nth mode (lst h1 fl1) else lst h1 fl1).
  { unfold hb. destruct (is_contract x kd); [now apply lst_set_lst_same|reflexivity]. }
  assert (Hinb : forall l, In l (lst hb fl1) -> l < length (h_arr hb)).
  { intros l Hl. rewrite Harr. rewrite Hlsb in Hl. apply Hin. destruct (is_contract x kd); [eapply In_remove_nth; eauto|assumption]. }
  assert (Hrdb : read_fs hb (lst hb fl1) = fsb).
  { unfold fsb. rewrite Hlsb. unfold read_fs, arr. rewrite Harr. destruct (is_contract x kd); [apply map_remove_nth|reflexivity]. }
  assert (Hmb : mb < length fsb).
  { unfold mb, fsb. destruct (is_contract x kd) eqn:E; [now destruct (Hc eq_refl)|assumption]. }
  assert (Hfb : fs' = set_nth mb (nth mb fs' []) fsb).
  { unfold mb, fsb. destruct (is_contract x kd) eqn:E; [now destruct (Hc eq_refl)|now apply Hn]. }
  rewrite Eh2.
  destruct (stage2_bound hb fl1 xb mb kb fs' Hflb Hinb) as [Hge Hb].
  destruct (stage2_lists hb fl1 xb mb kb fs' Hflb) as (HL & _ & _ & HO).
  split; [apply (stage2_read hb fl1 xb mb kb fsb); auto; rewrite Hicb; discriminate|].
  split; [unfold stage2; rewrite Hicb; simpl; rewrite Harr; eexists; reflexivity|].
  split; [exact Hb|]. split; [now rewrite HO|].
  split.
  - rewrite HL, Hicb. unfold stage2. rewrite Hicb. simpl. unfold hb. destruct (is_contract x kd); simpl; [now rewrite set_nth_twice|reflexivity].
  - intros l Hl. rewrite HL, Hicb, Harr in Hl. destruct (In_set_nth _ _ _ _ Hl) as [->|Hl']; [now right|left].
    rewrite Hlsb in Hl'. destruct (is_contract x kd); [eapply In_remove_nth; eauto|assumption].
Qed.

Lemma cp_mode_dot_h_copy_unfold h r x mode kd :
  cp_mode_dot_h Op h r true x mode kd =
  if guard h r mode then
    match cp_mode_dot Op (operand_w Op (deref h r)) (operand_fs (deref h r)) x mode kd with
    | Err => Err
    | Ok (_, fs') =>
        let h1a := fst (copy_list h (ref_fs h r)) in let fl1 := snd (copy_list h (ref_fs h r)) in
        let h1 := fst (copy_w h1a (ref_w h r)) in let wl1 := snd (copy_w h1a (ref_w h r)) in
        new_obj Op (stage2f h1 fl1 x mode kd fs') wl1 fl1
    end
  else Err.
Proof.
  unfold cp_mode_dot_h, stage2f, stage2. destruct (guard h r mode); [|reflexivity].
  destruct (cp_mode_dot Op _ _ x mode kd) as [[w' fs']|]; [|reflexivity]. cbv zeta.
  destruct (copy_list h (ref_fs h r)) as [h1a fl1] eqn:Ecl. cbn [fst snd].
  destruct (copy_w h1a (ref_w h r)) as [h1 wl1] eqn:Ecw. cbn [fst snd].
  assert (Hfl1 : fl1 < length (h_lst h1)).
  { unfold copy_list, alloc_lst in Ecl. injection Ecl as <- <-. unfold copy_w, alloc_arr in Ecw.
    destruct (ref_w h r); injection Ecw as <- <-; simpl; rewrite app_length; simpl; lia. }
  destruct (is_contract x kd); [|destruct r; reflexivity]. cbn [is_contract]. cbv iota.
  rewrite (lst_set_lst_same h1 fl1 _ Hfl1). destruct r; reflexivity.
Qed.

(* CURRENT TREE, copy=True: nothing the caller holds is touched, the result is a fresh well-formed object owning fresh arrays only,
   and it reads as the pure model's answer -- whatever the aliasing in the caller's factor list *)
Theorem cp_mode_dot_h_copy_value (h : heapF) r x mode kd h' o :
  wf_ref h r -> cp_mode_dot_h Op h r true x mode kd = Ok (h', o) ->
  extends h h' /\ length (h_obj h) <= o /\ (forall l, In l (owned h' o) -> length (h_arr h) <= l) /\
  wf_ref h' (RObject o) /\
  exists w' fs', cp_mode_dot Op (operand_w Op (deref h r)) (operand_fs (deref h r)) x mode kd = Ok (w', fs') /\
     cpo_fs (read_obj h' o) = fs' /\ cpo_shape (read_obj h' o) = cp_shape fs' /\
     cpo_w (read_obj h' o) = match ref_w h r with Some _ => w' | None => ones Op (cp_rank fs') end.
Proof.
  intros Hwf. pose proof (copies_spec h r Hwf) as Hc0. cbv zeta in Hc0. destruct Hwf as (Hfl & Hin & Hwl & Hob).
  rewrite cp_mode_dot_h_copy_unfold.
  destruct (guard h r mode) eqn:Hguard; [|discriminate].
  destruct (cp_mode_dot Op _ _ x mode kd) as [[w' fs']|] eqn:Hpure; [|discriminate]. cbv zeta.
  destruct (deref_w_fs h r) as [Efs Ew]. rewrite Efs in Hpure.
  destruct (cp_mode_dot_ok_facts _ _ _ _ _ _ _ Hpure) as (Hm & Hw' & Hc & Hn).
  set (h1a := fst (copy_list h (ref_fs h r))) in *. set (fl1 := snd (copy_list h (ref_fs h r))) in *.
  set (h1 := fst (copy_w h1a (ref_w h r))) in *. set (wl1 := snd (copy_w h1a (ref_w h r))) in *.
  set (n0 := length (h_arr h)) in *. set (N := length (lst h (ref_fs h r))) in *.
  destruct Hc0 as (Efl & EL & EO & (a & Ea & HaN) & Erd & Ewv & Hw1 & Hwn).
  assert (Hfl1 : fl1 < length (h_lst h1)) by (rewrite EL, app_length, Efl; simpl; lia).
  assert (Els : lst h1 fl1 = seq n0 N) by (unfold lst; rewrite EL, Efl; apply nth_middle).
  assert (Hin1 : forall l, In l (lst h1 fl1) -> l < length (h_arr h1)).
  { intros l Hl. rewrite Els in Hl. apply in_seq in Hl. rewrite Ea, app_length. fold n0. lia. }
  assert (Hrd1 : read_fs h1 (lst h1 fl1) = read_fs h (lst h (ref_fs h r))) by (now rewrite Els).
  destruct (stage2f_spec h1 fl1 x mode kd _ fs' Hfl1 Hin1 Hrd1 Hm Hc Hn) as (Hrd & [a2 Ea2] & Hb & HO & HLs & Hfrom).
  set (h2 := stage2f h1 fl1 x mode kd fs') in *.
  intros E.
  destruct (new_obj_read h2 wl1 fl1 h' o E) as (R1 & R2 & R3 & Ro & RL & RO & Rcf & [a3 Ra3] & Rcw).
  { exact Hb. }
  { intros l El. destruct (Hw1 l El) as [_ Hl]. rewrite Ea2, app_length. lia. }
  pose proof (new_obj_cw h2 wl1 fl1 h' o E) as Hcw.
  assert (Hlst2 : forall l, In l (lst h2 fl1) -> n0 <= l).
  { intros l Hl. destruct (Hfrom l Hl) as [Hl'| ->]; [rewrite Els in Hl'; apply in_seq in Hl'; lia | rewrite Ea, app_length; fold n0; lia]. }
  split; [|split; [|split; [|split]]].
  - unfold extends. split; [|split].
    + exists (a ++ a2 ++ a3). rewrite Ra3, Ea2, Ea, <- !app_assoc. reflexivity.
    + rewrite RL, HLs, EL, Efl. rewrite set_nth_app_r by lia. rewrite Nat.sub_diag. simpl. eexists; reflexivity.
    + rewrite RO, HO, EO. eexists; reflexivity.
  - rewrite Ro, HO, EO. lia.
  - intros l [El|Hl].
    + rewrite Rcw in El. subst l. destruct wl1 as [l1|] eqn:Ew1.
      * destruct (Hw1 l1 eq_refl) as [-> _]. lia.
      * rewrite Ea2, Ea, !app_length. fold n0. lia.
    + rewrite Rcf in Hl. unfold lst in Hl. rewrite RL in Hl. fold (lst h2 fl1) in Hl. now apply Hlst2.
  - unfold wf_ref. simpl ref_fs. simpl ref_w. rewrite Rcf. split; [|split; [|split]].
    + rewrite RL, HLs, set_nth_length. exact Hfl1.
    + intros l Hl. unfold lst in Hl. rewrite RL in Hl. fold (lst h2 fl1) in Hl. specialize (Hb l Hl). rewrite Ra3, app_length. lia.
    + intros l El. injection El as <-. apply Hcw. intros l El. destruct (Hw1 l El) as [_ Hl]. rewrite Ea2, app_length. lia.
    + intros o0 Eo. injection Eo as <-. rewrite RO, app_length, Ro. simpl. lia.
  - exists w', fs'. split; [reflexivity|]. rewrite Hrd in R1, R2, R3. repeat split; auto. rewrite R3.
    destruct wl1 as [l1|] eqn:Ew1; destruct (ref_w h r) as [l|] eqn:Ewr; simpl in Ewv; try discriminate; auto.
    destruct (Hw1 l1 eq_refl) as [El1 Hl1].
    assert (read_vec h2 l1 = read_vec h1 l1) as ->.
    { unfold read_vec, arr. rewrite Ea2. now rewrite app_nth1. }
    injection Ewv as ->. subst w'. rewrite Ew. reflexivity.
Qed.

(* ---------------------------------------------------------------- histories of copy=True calls *)
Lemma extends_refl (h : heapF) : extends h h.
Proof. unfold extends. repeat split; exists []; now rewrite app_nil_r. Qed.
Lemma extends_trans (h1 h2 h3 : heapF) : extends h1 h2 -> extends h2 h3 -> extends h1 h3.
Proof.
  intros ([a1 A1] & [l1 L1] & [o1 O1]) ([a2 A2] & [l2 L2] & [o2 O2]). unfold extends.
  rewrite A2, A1, L2, L1, O2, O1, <- !app_assoc. repeat split; eexists; reflexivity.
Qed.
(* a well-formed reference survives every extension of the heap, and denotes the same tensor *)
Lemma wf_ref_extends (h h' : heapF) r : extends h h' -> wf_ref h r -> wf_ref h' r /\ deref h' r = deref h r.
Proof.
  intros ([a A] & [l L] & [o O]) (Hfl & Hin & Hwl & Hob).
  assert (Earr : forall k, k < length (h_arr h) -> arr h' k = arr h k) by (intros k Hk; unfold arr; rewrite A; now apply app_nth1).
  assert (Elst : forall k, k < length (h_lst h) -> lst h' k = lst h k) by (intros k Hk; unfold lst; rewrite L; now apply app_nth1).
  assert (Eobj : forall k, k < length (h_obj h) -> obj h' k = obj h k) by (intros k Hk; unfold obj; rewrite O; now apply app_nth1).
  assert (Erf : ref_fs h' r = ref_fs h r) by (destruct r as [w fs|o0]; simpl; [reflexivity|now rewrite Eobj by (now apply Hob)]).
  assert (Erw : ref_w h' r = ref_w h r) by (destruct r as [w fs|o0]; simpl; [reflexivity|now rewrite Eobj by (now apply Hob)]).
  assert (Efs : read_fs h' (lst h (ref_fs h r)) = read_fs h (lst h (ref_fs h r))).
  { unfold read_fs. apply map_ext_in. intros k Hk. apply Earr. now apply Hin. }
  split.
  - unfold wf_ref. rewrite Erf, Erw, Elst by assumption. rewrite A, L, O, !app_length. repeat split.
    + lia.
    + intros k Hk. specialize (Hin k Hk). lia.
    + intros k Hk. specialize (Hwl k Hk). lia.
    + intros o0 Eo. specialize (Hob o0 Eo). lia.
  - destruct r as [w fs|o0]; simpl in *.
    + rewrite Elst by assumption. rewrite Efs. f_equal. destruct w as [k|]; simpl; auto. unfold read_vec. now rewrite Earr by (now apply Hwl).
    + specialize (Hob o0 eq_refl). rewrite Eobj by assumption. rewrite Elst by assumption. rewrite Efs.
      unfold read_vec. now rewrite Earr by (now apply Hwl).
Qed.

(* whatever the history: the initial heap is a prefix of the final one, and every tensor ever seen still denotes what it
   denoted when it was first seen (the caller's operands: what they denoted initially) *)
Theorem run_ops_frame : forall ops h refs h' refs',
  Forall (wf_ref h) refs -> run_ops Op h refs ops = Ok (h', refs') ->
  extends h h' /\ Forall (wf_ref h') refs' /\ length refs' = length refs + length ops /\
  forall k r, nth_error refs k = Some r -> nth_error refs' k = Some r /\ deref h' r = deref h r.
Proof.
  induction ops as [|[[[k x] mode] kd] rest IH]; intros h refs h' refs' Hwf E; simpl in E.
  - injection E as <- <-. split; [apply extends_refl|]. split; [assumption|]. split; [simpl; lia|]. auto.
  - destruct (nth_error refs k) as [r|] eqn:Ek; [|discriminate].
    destruct (cp_mode_dot_h Op h r true x mode kd) as [[h1 o]|] eqn:E1; [|discriminate].
    assert (Hr : wf_ref h r) by (rewrite Forall_forall in Hwf; apply Hwf; eapply nth_error_In; eauto).
    destruct (cp_mode_dot_h_copy_value h r x mode kd h1 o Hr E1) as (Hext & _ & _ & Hwo & _).
    assert (Hwf1 : Forall (wf_ref h1) (refs ++ [RObject o])).
    { apply Forall_app. split; [|constructor; [exact Hwo|constructor]].
      rewrite Forall_forall in *. intros r0 Hr0. now apply (wf_ref_extends h h1 r0 Hext), Hwf. }
    destruct (IH h1 (refs ++ [RObject o]) h' refs' Hwf1 E) as (Hext' & Hwf' & Hlen & Hk).
    split; [eapply extends_trans; eauto|]. split; [assumption|]. split; [rewrite Hlen, app_length; simpl; lia|].
    intros k0 r0 Ek0. destruct (Hk k0 r0) as [H1 H2].
    { rewrite nth_error_app1; [assumption|]. apply nth_error_Some. congruence. }
    split; [assumption|]. rewrite H2. apply (wf_ref_extends h h1 r0 Hext).
    rewrite Forall_forall in Hwf. apply Hwf. eapply nth_error_In; eauto.
Qed.
End HP.

(* ---------------------------------------------------------------- entry points whose answer is all fresh *)
Section HPF.
Context {F : Type} (Op : fops F).
Local Notation heapF := (heap (F:=F)).
Lemma cp_obj_eta (a : cp_obj (F:=F)) : a = mk_cpobj (cpo_shape a) (cpo_w a) (cpo_fs a).
Proof. now destruct a. Qed.
(* the common last step of cp_normalize / cp_flip_sign / cp_permute_factors / cp_copy: for every heap, nothing existing is touched,
   the object and everything it owns is fresh, it is a well-formed reference with a consistent cache, and it reads (w', fs') *)
Theorem fresh_result_spec (h : heapF) w' fs' h' o : fresh_result Op h w' fs' = Ok (h', o) ->
  extends h h' /\ o = length (h_obj h) /\ (forall l, In l (owned h' o) -> length (h_arr h) <= l) /\
  wf_ref h' (RObject o) /\ read_obj h' o = mk_cpobj (cp_shape fs') w' fs' /\ cp_validb (Some w') fs' = true.
Proof.
  unfold fresh_result, alloc_arr, alloc_arrs, alloc_lst. cbn [fst snd h_arr h_lst h_obj].
  set (h3 := mk_heap ((h_arr h ++ [[w']]) ++ fs') (h_lst h ++ [seq (length (h_arr h ++ [[w']])) (length fs')]) (h_obj h)).
  intros E.
  assert (Els : lst h3 (length (h_lst h)) = seq (length (h_arr h ++ [[w']])) (length fs')) by (unfold lst, h3; simpl; apply nth_middle).
  assert (Erd : read_fs h3 (lst h3 (length (h_lst h))) = fs').
  { rewrite Els. unfold read_fs, arr, h3. cbn [h_arr]. rewrite <- (app_nil_r ((h_arr h ++ [[w']]) ++ fs')). apply nth_seq_copy. }
  assert (Ew : read_vec h3 (length (h_arr h)) = w').
  { unfold read_vec, arr, h3. cbn [h_arr]. rewrite <- app_assoc. cbn [app]. rewrite nth_middle. reflexivity. }
  assert (Hb : forall l, In l (lst h3 (length (h_lst h))) -> l < length (h_arr h3)).
  { intros l Hl. rewrite Els in Hl. apply in_seq in Hl. unfold h3. cbn [h_arr]. rewrite !app_length in *. simpl in *. lia. }
  assert (Hw : forall l, Some (length (h_arr h)) = Some l -> l < length (h_arr h3)).
  { intros l El. injection El as <-. unfold h3. cbn [h_arr]. rewrite !app_length. simpl. lia. }
  pose proof (new_obj_cw Op h3 _ _ h' o E Hw) as Hcw.
  assert (Hvalid : cp_validb (Some w') fs' = true).
  { unfold new_obj in E. rewrite Erd in E. cbn [option_map] in E. rewrite Ew in E. destruct (cp_validb (Some w') fs'); [reflexivity|discriminate]. }
  destruct (new_obj_read Op h3 _ _ h' o E Hb Hw) as (R1 & R2 & R3 & Ro & RL & RO & Rcf & [a3 Ra3] & Rcw).
  rewrite Erd in R1, R2. rewrite Ew in R3.
  split; [|split; [|split; [|split; [|split]]]]; auto.
  - unfold extends. rewrite Ra3, RL, RO. unfold h3. cbn [h_arr h_lst h_obj]. rewrite <- !app_assoc. repeat split; eexists; reflexivity.
  - intros l [El|Hl].
    + rewrite Rcw in El. lia.
    + rewrite Rcf in Hl. unfold lst in Hl. rewrite RL in Hl. fold (lst h3 (length (h_lst h))) in Hl. rewrite Els in Hl.
      apply in_seq in Hl. rewrite app_length in Hl. lia.
  - unfold wf_ref. simpl ref_fs. simpl ref_w. rewrite Rcf. split; [|split; [|split]].
    + rewrite RL. unfold h3. cbn [h_lst]. rewrite app_length. simpl. lia.
    + intros l Hl. unfold lst in Hl. rewrite RL in Hl. fold (lst h3 (length (h_lst h))) in Hl. specialize (Hb l Hl). rewrite Ra3, app_length. lia.
    + intros l El. injection El as <-. exact Hcw.
    + intros o0 Eo. injection Eo as <-. rewrite RO, app_length, Ro. simpl. lia.
  - rewrite (cp_obj_eta (read_obj h' o)). now rewrite R1, R2, R3.
Qed.
(* instances *)
Theorem cp_flip_sign_h_spec summ (h : heapF) r mode h' o : cp_flip_sign_h Op summ h r mode = Ok (h', o) ->
  exists w' fs', cp_flip_sign Op summ (operand_w Op (deref h r)) (operand_fs (deref h r)) mode = Ok (w', fs') /\
    extends h h' /\ o = length (h_obj h) /\ (forall l, In l (owned h' o) -> length (h_arr h) <= l) /\
    wf_ref h' (RObject o) /\ read_obj h' o = mk_cpobj (cp_shape fs') w' fs'.
Proof.
  unfold cp_flip_sign_h. destruct (operand_okb (deref h r)); [|discriminate].
  destruct (cp_flip_sign Op summ _ _ mode) as [[w' fs']|]; [|discriminate]. intros E.
  destruct (fresh_result_spec h w' fs' h' o E) as (H1 & H2 & H3 & H4 & H5 & _). exists w', fs'. auto 10.
Qed.
Theorem cp_permute_h_spec p (h : heapF) r h' o : cp_permute_h Op p h r = Ok (h', o) ->
  exists w' fs', cp_permute Op p (operand_w Op (deref h r)) (operand_fs (deref h r)) = Ok (w', fs') /\
    extends h h' /\ o = length (h_obj h) /\ (forall l, In l (owned h' o) -> length (h_arr h) <= l) /\
    wf_ref h' (RObject o) /\ read_obj h' o = mk_cpobj (cp_shape fs') w' fs'.
Proof.
  unfold cp_permute_h. destruct (cp_permute Op p _ _) as [[w' fs']|]; [|discriminate]. intros E.
  destruct (fresh_result_spec h w' fs' h' o E) as (H1 & H2 & H3 & H4 & H5 & _). exists w', fs'. auto 10.
Qed.
Theorem cp_normalize_h_spec tape (h : heapF) r h' o : cp_normalize_h Op tape h r = Ok (h', o) ->
  let wf' := cp_normalize Op tape (operand_w Op (deref h r)) (operand_fs (deref h r)) in
  extends h h' /\ o = length (h_obj h) /\ (forall l, In l (owned h' o) -> length (h_arr h) <= l) /\
  wf_ref h' (RObject o) /\ read_obj h' o = mk_cpobj (cp_shape (snd wf')) (fst wf') (snd wf').
Proof.
  unfold cp_normalize_h. destruct (operand_okb (deref h r)); [|discriminate]. cbv zeta.
  destruct (cp_normalize Op tape _ _) as [w' fs']. intros E.
  destruct (fresh_result_spec h w' fs' h' o E) as (H1 & H2 & H3 & H4 & H5 & _). auto 10.
Qed.
(* CPTensor.normalize: inplace=True returns the SAME object, which now reads the normalised weights and factors (its shape attribute
   untouched), every array that existed before keeps its value; inplace=False returns a fresh object and leaves the operand alone *)
Theorem cp_normalize_method_h_spec tape (h : heapF) o inplace h' o' : o < length (h_obj h) ->
  cp_normalize_method_h Op tape h o inplace = Ok (h', o') ->
  let wf' := cp_normalize Op tape (operand_w Op (deref h (RObject o))) (operand_fs (deref h (RObject o))) in
  (exists a, h_arr h' = h_arr h ++ a) /\ (exists l, h_lst h' = h_lst h ++ l) /\
  cpo_w (read_obj h' o') = fst wf' /\ cpo_fs (read_obj h' o') = snd wf' /\
  (inplace = true -> o' = o /\ cpo_shape (read_obj h' o') = c_shape (obj h o)) /\
  (inplace = false -> length (h_obj h) < o' /\ cpo_shape (read_obj h' o') = cp_shape (snd wf') /\ obj h' o = obj h o).
Proof.
  intros Ho. unfold cp_normalize_method_h. destruct (cp_normalize_h Op tape h (RObject o)) as [[h1 o1]|] eqn:E1; [|discriminate].
  destruct (cp_normalize_h_spec tape h (RObject o) h1 o1 E1) as (([a A] & [l L] & [ob O]) & Eo1 & Hown & Hwf1 & Hrd). cbv zeta in *.
  set (wf' := cp_normalize Op tape (operand_w Op (deref h (RObject o))) (operand_fs (deref h (RObject o)))) in *.
  assert (Eobj : obj h1 o = obj h o) by (unfold obj; rewrite O; now apply app_nth1).
  destruct inplace; intros E.
  - injection E as <- <-. rewrite read_obj_set_obj by (rewrite O, app_length; lia). cbn [cpo_w cpo_fs cpo_shape c_shape c_w c_fs].
    split; [exists a; exact A|]. split; [exists l; exact L|].
    apply (f_equal (@cpo_w F)) in Hrd as Hw. apply (f_equal (@cpo_fs F)) in Hrd as Hf. simpl in Hw, Hf.
    split; [exact Hw|]. split; [exact Hf|]. split; [intros _; split; [reflexivity|now rewrite Eobj]|discriminate].
  - destruct Hwf1 as (W1 & W2 & W3 & W4). simpl ref_fs in *. simpl ref_w in *.
    assert (Hw3 : forall k, Some (c_w (obj h1 o1)) = Some k -> k < length (h_arr h1)) by (intros k Ek; injection Ek as <-; now apply W3).
    destruct (new_obj_read Op h1 _ _ h' o' E W2 Hw3) as (R1 & R2 & R3 & Ro & RL & RO & Rcf & [a3 Ra3] & Rcw).
    apply (f_equal (@cpo_w F)) in Hrd as Hw. apply (f_equal (@cpo_fs F)) in Hrd as Hf. simpl in Hw, Hf.
    split; [exists (a ++ a3); now rewrite Ra3, A, app_assoc|]. split; [exists l; now rewrite RL|].
    split; [now rewrite R3|]. split; [now rewrite R1|]. split; [discriminate|]. intros _.
    split; [pose proof (W4 o1 eq_refl) as W5; rewrite O, app_length in W5; rewrite Ro, O, app_length; lia|].
    split; [now rewrite R2, <- Hf|]. unfold obj at 1. rewrite RO. rewrite app_nth1 by (rewrite O, app_length; lia). exact Eobj.
Qed.
End HPF.

(* ---------------------------------------------------------------- the cached shape attribute *)
Section HPC.
Context {F : Type} (Op : fops F).
Local Notation heapF := (heap (F:=F)).
Lemma cache_consistent_read (h : heapF) o : cache_consistent h o <-> cpo_shape (read_obj h o) = cp_shape (cpo_fs (read_obj h o)).
Proof. unfold cache_consistent, read_obj. simpl. tauto. Qed.
(* every object a mode product returns (fresh, or the operand itself with its shape attribute rewritten) has a consistent cache *)
Theorem cp_mode_dot_h_result_consistent (h : heapF) r copy x mode kd h' o :
  wf_ref h r -> cp_mode_dot_h Op h r copy x mode kd = Ok (h', o) -> cache_consistent h' o.
Proof.
  intros Hwf E. apply cache_consistent_read. destruct copy.
  - destruct (cp_mode_dot_h_copy_value Op h r x mode kd h' o Hwf E) as (_ & _ & _ & _ & w' & fs' & _ & E1 & E2 & _). now rewrite E1, E2.
  - destruct (cp_mode_dot_h_fresh_value Op h r x mode kd h' o Hwf E) as (_ & w' & fs' & _ & E1 & E2 & _). now rewrite E1, E2.
Qed.
(* on an object whose cache is consistent the cached-shape test never changes the verdict of the pure model *)
Theorem cache_consistent_guard (h : heapF) o x mode kd w' fs' :
  cache_consistent h o ->
  cp_mode_dot Op (operand_w Op (deref h (RObject o))) (operand_fs (deref h (RObject o))) x mode kd = Ok (w', fs') ->
  guard h (RObject o) mode = true.
Proof.
  intros Hc Hp. destruct (cp_mode_dot_ok_facts Op _ _ _ _ _ _ _ Hp) as (Hm & _). simpl in Hm.
  unfold guard, cache_okb. simpl. rewrite Hc. unfold cp_shape. rewrite map_length.
  apply andb_true_iff. split; [now apply Nat.ltb_lt|].
  rewrite (nth_map' _ _ mode [] 0) by assumption. apply Nat.eqb_refl.
Qed.
(* item assignment: the object reads the new contents but keeps the OLD shape attribute; the cache stays consistent exactly when
   the new factors have the old mode sizes *)
Theorem setitem_factors_read (h : heapF) o fl' h' : o < length (h_obj h) -> setitem_h h o 1 fl' = Ok h' ->
  read_obj h' o = mk_cpobj (c_shape (obj h o)) (read_vec h (c_w (obj h o))) (read_fs h (lst h fl')) /\
  (cache_consistent h' o <-> c_shape (obj h o) = cp_shape (read_fs h (lst h fl'))) /\
  h_arr h' = h_arr h /\ h_lst h' = h_lst h.
Proof.
  intros Ho E. simpl in E. injection E as <-. rewrite read_obj_set_obj by assumption. simpl. split; [reflexivity|].
  split; [|split; reflexivity]. unfold cache_consistent. rewrite obj_set_obj by assumption. simpl. tauto.
Qed.
End HPC.

(* ---------------------------------------------------------------- end to end on the heap (ring regime) *)
Section HPR.
Context {F : Type} (Op : fops F).
Hypothesis Rth : ring_theory (f0 Op) (f1 Op) (fadd Op) (fmul Op) (fsub Op) (fopp Op) (@eq F).
(* copy=True, weights given: whatever the aliasing among the caller's arrays, contracting a vector gives an object whose entries are
   the mode product of what the operand denoted (the statement that FAILS for copy=False on the current tree, see the witness below) *)
Theorem cp_mode_dot_h_copy_contract_entry (h : heap (F:=F)) r v k h' o idx' l :
  wf_ref h r -> ref_w h r = Some l ->
  cp_mode_dot_h Op h r true (OpVec v) k false = Ok (h', o) ->
  S (length idx') = length (operand_fs (deref h r)) ->
  length (operand_w Op (deref h r)) <= ncols (nth k (operand_fs (deref h r)) []) ->
  cpo_shape (read_obj h' o) = remove_nth k (cp_shape (operand_fs (deref h r))) /\
  cp_entry Op (cpo_w (read_obj h' o)) (cpo_fs (read_obj h' o)) idx' =
  sumn Op (length (nth k (operand_fs (deref h r)) []))
       (fun i => fmul Op (vget Op v i) (cp_entry Op (operand_w Op (deref h r)) (operand_fs (deref h r)) (insert_at k i idx'))).
Proof.
  intros Hwf Hw E Hlen Hr.
  destruct (cp_mode_dot_h_copy_value Op h r (OpVec v) k false h' o Hwf E) as (_ & _ & _ & _ & w' & fs' & Hp & E1 & E2 & E3).
  rewrite Hw in E3. rewrite E1, E2, E3.
  destruct (cp_mode_dot_vector_contract Op Rth _ _ _ _ _ _ idx' Hp Hlen Hr) as [Hs He]. split; [now rewrite Hs|exact He].
Qed.
(* copy=False on the current tree: the same statement, whatever the aliasing (it FAILED before /repo 93a737c, see the witness below) *)
Theorem cp_mode_dot_h_inplace_contract_entry (h : heap (F:=F)) r v k h' o idx' l :
  wf_ref h r -> ref_w h r = Some l ->
  cp_mode_dot_h Op h r false (OpVec v) k false = Ok (h', o) ->
  S (length idx') = length (operand_fs (deref h r)) ->
  length (operand_w Op (deref h r)) <= ncols (nth k (operand_fs (deref h r)) []) ->
  cpo_shape (read_obj h' o) = remove_nth k (cp_shape (operand_fs (deref h r))) /\
  cp_entry Op (cpo_w (read_obj h' o)) (cpo_fs (read_obj h' o)) idx' =
  sumn Op (length (nth k (operand_fs (deref h r)) []))
       (fun i => fmul Op (vget Op v i) (cp_entry Op (operand_w Op (deref h r)) (operand_fs (deref h r)) (insert_at k i idx'))).
Proof.
  intros Hwf Hw E Hlen Hr.
  destruct (cp_mode_dot_h_fresh_value Op h r (OpVec v) k false h' o Hwf E) as (_ & w' & fs' & Hp & E1 & E2 & E3).
  rewrite Hw in E3. rewrite E1, E2, E3.
  destruct (cp_mode_dot_vector_contract Op Rth _ _ _ _ _ _ idx' Hp Hlen Hr) as [Hs He]. split; [now rewrite Hs|exact He].
Qed.
End HPR.

(* ---------------------------------------------------------------- the defect: a factor list naming one array twice *)
Definition alias_heap : heap (F:=Z) :=
  mk_heap [[[1; 1]]; [[1; 2]; [3; 4]]; [[1; 1]; [2; 5]]]%Z [[1; 1; 2]] [].
(* cp_mode_dot((w, [A, A, B]), v, mode=2, copy=False) with ONE array A under modes 0 and 1: the in-place product into
   factors[1] also changes factors[0]; the result no longer represents the mode product (509 instead of 49 in entry [0,0]) *)
Theorem cp_mode_dot_h_inplace_alias_witness :
  exists h' o w' fs',
    cp_mode_dot_h_before Zops alias_heap (RTuple (Some 0) 0) false (OpVec [1; 2]%Z) 2 false = Ok (h', o) /\
    cp_mode_dot Zops (operand_w Zops (deref alias_heap (RTuple (Some 0) 0))) (operand_fs (deref alias_heap (RTuple (Some 0) 0)))
                (OpVec [1; 2]%Z) 2 false = Ok (w', fs') /\
    cp_entry Zops w' fs' [0; 0] = 49%Z /\
    cp_entry Zops (cpo_w (read_obj h' o)) (cpo_fs (read_obj h' o)) [0; 0] = 509%Z /\
    wf_ref alias_heap (RTuple (Some 0) 0).
Proof.
  do 4 eexists. split; [vm_compute; reflexivity|]. split; [vm_compute; reflexivity|].
  split; [vm_compute; reflexivity|]. split; [vm_compute; reflexivity|].
  unfold wf_ref, lst, ref_fs, ref_w, alias_heap. simpl. repeat split; try lia.
  - intros l E. injection E as <-. lia.
  - intros o E. discriminate.
Qed.
