(* C04, round 5: the copy flag of tucker_mode_dot on the heap (Model/TransformsHeap.v, Section HT). *)
From Coq Require Import List Arith Lia Bool ZArith.
From TLV Require Import Base.Shape Base.PyList Base.Tensor Base.BigSum Base.Ops Model.Transforms Model.TransformsHeap Proofs.TransformsProofsHeap.
Import ListNotations.

Section HTP.
Context {F : Type} (Op : fops F).

(* what the pure model's verdict says about the answer *)
Lemma tucker_mode_dot_ok_facts core (fs : list (mat F)) x mode kd c' fs' :
  tucker_mode_dot Op core fs x mode kd = Ok (c', fs') ->
  mode < length fs /\
  (is_contract x kd = true -> fs' = remove_nth mode fs) /\
  (is_contract x kd = false -> c' = core /\ fs' = set_nth mode (nth mode fs' []) fs).
Proof.
  unfold tucker_mode_dot. destruct (tucker_okb core fs); [|discriminate]. cbn [andb].
  destruct (mode <? length fs) eqn:Hm; [|discriminate]. apply Nat.ltb_lt in Hm. cbv zeta.
  destruct x as [M|v]; cbn [is_contract].
  - destruct (rectb _ M); [|discriminate]. intros E. injection E as <- <-. repeat split; auto; try discriminate.
    now rewrite nth_set_nth_same by assumption.
  - destruct (Nat.eqb (length v) _); [|discriminate]. destruct kd; cbn [negb].
    + intros E. injection E as <- <-. repeat split; auto; try discriminate. now rewrite nth_set_nth_same by assumption.
    + destruct (2 <=? length (remove_nth mode fs)); [|discriminate]. intros E. injection E as <- <-.
      repeat split; auto; discriminate.
Qed.

(* whatever the copy flag and the aliasing in the caller's factor list: no array and no core is ever overwritten, the returned
   references read as the pure model's answer; copy=True leaves the caller's lists alone too and returns fresh locations only;
   copy=False returns the caller's own list cell (popped / updated: the advertised in-place behaviour) *)
Theorem tucker_mode_dot_h_spec (th : theap) cl fl copy x mode kd th' cl' fl' :
  twf th cl fl -> tucker_mode_dot_h Op th cl fl copy x mode kd = Ok (th', (cl', fl')) ->
  (exists a, t_arr th' = t_arr th ++ a) /\ (exists c, t_core th' = t_core th ++ c) /\
  tucker_mode_dot Op (tcore th cl) (map (tarr th) (tlst th fl)) x mode kd = Ok (tread th' cl' fl') /\
  (copy = true -> (exists l, t_lst th' = t_lst th ++ l) /\ length (t_lst th) <= fl' /\ length (t_core th) <= cl' /\
                  forall l, In l (tlst th' fl') -> length (t_arr th) <= l) /\
  (copy = false -> fl' = fl /\ length (t_lst th') = length (t_lst th) /\ forall k, k <> fl -> tlst th' k = tlst th k).
Proof.
  intros (Hcl & Hfl & Hin). unfold tucker_mode_dot_h.
  destruct (tucker_mode_dot Op (tcore th cl) (map (tarr th) (tlst th fl)) x mode kd) as [[c' fs']|] eqn:Hpure; [|discriminate].
  destruct (tucker_mode_dot_ok_facts _ _ _ _ _ _ _ Hpure) as (Hm & Hc & Hn). rewrite map_length in Hm. cbv zeta.
  set (ls := tlst th fl) in *. set (n0 := length (t_arr th)) in *.
  assert (Hcopy : map (fun l => nth l (t_arr th ++ map (tarr th) ls) []) (seq n0 (length ls)) = map (tarr th) ls).
  { pose proof (nth_seq_copy (@nil (list F)) (t_arr th) (map (tarr th) ls) []) as H. rewrite app_nil_r, map_length in H. exact H. }
  unfold tarr in *. destruct copy; destruct (is_contract x kd) eqn:Hic; intros E; injection E as <- <- <-; unfold tread, tcore, tlst, tarr; cbn [t_core t_arr t_lst].
  - (* copy, contraction *)
    rewrite set_nth_app_r by lia. rewrite Nat.sub_diag. cbn [set_nth]. rewrite !nth_middle.
    split; [eexists; reflexivity|]. split; [rewrite <- app_assoc; eexists; reflexivity|]. split; [|split; [|discriminate]].
    + f_equal. f_equal. rewrite (Hc eq_refl), map_remove_nth. f_equal. symmetry. exact Hcopy.
    + intros _. split; [eexists; reflexivity|]. split; [lia|]. split; [rewrite app_length; lia|].
      intros l Hl. apply In_remove_nth in Hl. apply in_seq in Hl. lia.
  - (* copy, no contraction *)
    rewrite set_nth_app_r by lia. rewrite Nat.sub_diag. cbn [set_nth]. rewrite !nth_middle.
    destruct (Hn eq_refl) as [Ec Ef].
    split; [rewrite <- app_assoc; eexists; reflexivity|]. split; [eexists; reflexivity|]. split; [|split; [|discriminate]].
    + subst c'. f_equal. f_equal. rewrite map_set_nth. rewrite nth_middle. rewrite Ef at 1. f_equal.
      pose proof (nth_seq_copy (@nil (list F)) (t_arr th) (map (fun l => nth l (t_arr th) []) ls) [nth mode fs' []]) as H.
      rewrite map_length in H. symmetry. exact H.
    + intros _. split; [eexists; reflexivity|]. split; [lia|]. split; [lia|].
      intros l Hl. destruct (In_set_nth _ _ _ _ Hl) as [->|Hl']; [rewrite app_length; lia|]. apply in_seq in Hl'. lia.
  - (* in place, contraction *)
    rewrite nth_set_nth_same by assumption. fold ls.
    split; [exists []; now rewrite app_nil_r|]. split; [eexists; reflexivity|]. split; [|split; [discriminate|]].
    + rewrite nth_middle. f_equal. f_equal. rewrite (Hc eq_refl). now rewrite map_remove_nth.
    + intros _. split; [reflexivity|]. split; [apply set_nth_length|]. intros k Hk. now rewrite nth_set_nth_other.
  - (* in place, no contraction *)
    rewrite nth_set_nth_same by assumption. fold ls. destruct (Hn eq_refl) as [Ec Ef].
    split; [eexists; reflexivity|]. split; [exists []; now rewrite app_nil_r|]. split; [|split; [discriminate|]].
    + subst c'. f_equal. f_equal. rewrite map_set_nth. rewrite nth_middle. rewrite Ef at 1. f_equal.
      apply map_ext_in. intros l Hl. symmetry. apply app_nth1. now apply Hin.
    + intros _. split; [reflexivity|]. split; [apply set_nth_length|]. intros k Hk. now rewrite nth_set_nth_other.
Qed.
End HTP.
