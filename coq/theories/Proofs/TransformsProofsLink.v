(* Link between the entry-level definitions of Model/Transforms.v (cp_entry, tucker_entry, tt_entry, tr_entry, ttm_entry:
   the "represented dense tensor" of the C04 theorems) and the code-level models of tensorly's reconstruction functions
   in Model/Factorized.v (property C03: validation, khatri_rao + dot + fold; chain of mode products; reshape / dot chains),
   through the specification theorems of Proofs/FactorizedProofs*.v.  C03's files are imported, not edited. *)
From Coq Require Import List Arith Lia Bool Ring.
From TLV Require Import Base.Shape Base.PyList Base.Tensor Base.BigSum Base.Ops Model.Base Model.Factorized
  Proofs.BaseProofs Proofs.FactorizedProofs Proofs.FactorizedProofs3 Proofs.FactorizedProofs4 Proofs.FactorizedProofs5
  Proofs.FactorizedProofs7 Proofs.FactorizedProofs9 Proofs.FactorizedProofs21 Model.Transforms Proofs.TransformsProofs.
Import ListNotations.

Section Link.
Context {F : Type} (Op : fops F).
Hypothesis Rth : ring_theory (f0 Op) (f1 Op) (fadd Op) (fmul Op) (fsub Op) (fopp Op) (@eq F).
Add Ring FrL : Rth.
Local Notation fz := (f0 Op).
Local Notation "a *f b" := (fmul Op a b) (at level 40, left associativity).

(* ---------- the two encodings of a factor matrix / weight vector: list of rows (Transforms) vs dense tensor (Factorized) *)
Definition of_rows (R : nat) (A : mat F) : tensor F :=
  tabulate [length A; R] (fun ix => mget Op A (nth 0 ix 0) (nth 1 ix 0)).
Definition of_vec (w : list F) : tensor F := tabulate [length w] (fun ix => vget Op w (nth 0 ix 0)).
Lemma get2_of_rows R A i r : i < length A -> r < R -> Factorized.get2 Op (of_rows R A) i r = mget Op A i r.
Proof. intros Hi Hr. unfold Factorized.get2, of_rows. rewrite get_tabulate by (simpl; tauto). reflexivity. Qed.
Lemma get1_of_vec w r : r < length w -> Factorized.get1 Op (of_vec w) r = vget Op w r.
Proof. intros Hr. unfold Factorized.get1, of_vec. rewrite get_tabulate by (simpl; tauto). reflexivity. Qed.

(* ---------- CP *)
Lemma prod_entries_cp_term R : forall (fs : list (mat F)) idx r, inb (cp_shape fs) idx -> r < R ->
  prod_entries F Op (map (of_rows R) fs) idx r = cp_term Op fs idx r.
Proof.
  induction fs as [|A fs IH]; intros [|i idx] r Hin Hr; cbn [cp_shape map inb] in Hin; try contradiction; [reflexivity|].
  destruct Hin as [Hi Hin]. cbn [map prod_entries cp_term]. rewrite get2_of_rows by assumption. f_equal. now apply IH.
Qed.
Lemma mats_of_rows R : forall fs : list (mat F), mats F R (map (of_rows R) fs) (cp_shape fs).
Proof. induction fs as [|A fs IH]; constructor; [reflexivity | exact IH]. Qed.
Lemma validate_cp_of_rows (w : list F) (fs : list (mat F)) : fs <> [] ->
  validate_cp (Some (of_vec w)) (map (of_rows (length w)) fs) = Ok (cp_shape fs, length w).
Proof.
  intros Hne. apply (validate_cp_iff F). split; [destruct fs; [contradiction | discriminate]|]. split; [|reflexivity].
  induction fs as [|A fs IH]; [contradiction|]. cbn [map cp_shape]. constructor; [left; reflexivity|].
  destruct fs as [|B fs']; [constructor | apply IH; discriminate].
Qed.
(* tensorly's cp_to_tensor (code-level model of C03) applied to the tensor encoding of (w, fs) succeeds, has the shape of
   Transforms.cp_to_tensor and its entries are exactly cp_entry *)
Theorem cp_to_tensor_link (w : list F) (fs : list (mat F)) : fs <> [] ->
  exists t, Factorized.cp_to_tensor Op (Some (of_vec w)) (map (of_rows (length w)) fs) None = Ok t /\
    shape t = shape (Transforms.cp_to_tensor Op w fs) /\
    forall idx, inb (shape t) idx -> get fz t idx = cp_entry Op w fs idx.
Proof.
  intros Hne.
  assert (H2 : Forall (fun f => ndim f = 2) (map (of_rows (length w)) fs)) by (apply Forall_forall; intros f Hf; apply in_map_iff in Hf; destruct Hf as (A & <- & _); reflexivity).
  destruct (cp_to_tensor_spec F Op Rth _ _ _ _ (validate_cp_of_rows w fs Hne) H2) as (t & Ht & Hst & Hg).
  exists t. split; [exact Ht|]. split; [exact Hst|]. intros idx Hi. rewrite Hst in Hi. rewrite (Hg idx Hi).
  unfold FactorizedProofs.cp_entry, Transforms.cp_entry, Factorized.fsumn, sumn. apply bigsum_ext. intros r Hr.
  unfold wv. rewrite get1_of_vec by exact Hr. f_equal. now apply prod_entries_cp_term.
Qed.

(* ---------- Tucker: same core tensor, factor k encoded with core.shape[k] columns *)
Fixpoint of_rows_list (sh : list nat) (fs : list (mat F)) : list (tensor F) :=
  match sh, fs with c :: sh', A :: fs' => of_rows c A :: of_rows_list sh' fs' | _, _ => [] end.
Lemma tk_shapes_of_rows : forall sh (fs : list (mat F)) k, length fs = length sh ->
  tk_shapes F k None (of_rows_list sh fs) (cp_shape fs) sh.
Proof.
  induction sh as [|c sh IH]; intros [|A fs] k Hl; simpl in Hl; try discriminate; [constructor|].
  cbn [of_rows_list cp_shape map]. constructor; [reflexivity | apply IH; lia].
Qed.
Lemma tk_sum_link : forall sh (fs : list (mat F)) idx k (g : list nat -> F), length fs = length sh -> inb (cp_shape fs) idx ->
  tk_sum Op sh fs idx g = sum_idx F fz (fadd Op) sh (fun js => g js *f tk_prod F Op k None (of_rows_list sh fs) idx js).
Proof.
  induction sh as [|c sh IH]; intros [|A fs] idx k g Hl Hin; simpl in Hl; try discriminate.
  - destruct idx; [|contradiction]. cbn [tk_sum of_rows_list tk_prod]. rewrite (sum_idx_nil F _ _ _ _ _ _ Rth). ring.
  - destruct idx as [|i idx]; [contradiction|]. cbn [cp_shape map inb] in Hin. destruct Hin as [Hi Hin].
    cbn [tk_sum of_rows_list]. rewrite (sum_idx_cons F _ _ _ _ _ _ Rth). unfold sumn. apply bigsum_ext. intros j Hj.
    rewrite (IH fs idx (S k) (fun js => g (j :: js))) by (auto; lia).
    unfold sum_idx. rewrite <- (bigsum_scale_l F _ _ _ _ _ _ Rth). apply bigsum_ext. intros q _.
    cbn [tk_prod]. rewrite get2_of_rows by assumption. ring.
Qed.
Theorem tucker_to_tensor_link (core : tensor F) (fs : list (mat F)) :
  length fs = length (shape core) -> wf core -> 0 < prod (shape core) -> 0 < prod (cp_shape fs) ->
  exists t, Factorized.tucker_to_tensor Op core (of_rows_list (shape core) fs) None false = Ok t /\
    shape t = shape (Transforms.tucker_to_tensor Op core fs) /\
    forall idx, inb (shape t) idx -> get fz t idx = tucker_entry Op core fs idx.
Proof.
  intros Hl W Hp Hn.
  destruct (tucker_to_tensor_spec F Op Rth core _ _ None (tk_shapes_of_rows (shape core) fs 0 Hl) W Hp Hn) as (t & Ht & Hst & Hg).
  exists t. split; [exact Ht|]. split; [exact Hst|]. intros idx Hi. rewrite Hst in Hi. rewrite (Hg idx Hi).
  unfold tucker_entry. symmetry. apply (tk_sum_link (shape core) fs idx 0 (tget Op core) Hl Hi).
Qed.

(* ---------- tensor train / tensor ring: the cores are dense tensors on both sides *)
Lemma tt_chain_link : forall r cs ns rl, tt_cores F r cs ns rl -> forall idx a b,
  tt_chain Op cs (single idx) a b = chain F Op cs idx a b.
Proof.
  induction 1 as [r | r n r' G cs ns rl HG Hr' _ IH]; intros idx a b; [destruct idx; reflexivity|].
  destruct idx as [|i idx]; [reflexivity|]. cbn [single map tt_chain chain]. fold (single idx).
  unfold core_r2. rewrite HG. cbn [last nth]. unfold sumn, Factorized.fsumn. apply bigsum_ext. intros c _.
  rewrite IH. reflexivity.
Qed.
Lemma tt_cores_shape : forall r cs ns rl, tt_cores F r cs ns rl -> tt_shape cs = ns.
Proof. induction 1 as [|r n r' G cs ns rl HG _ _ IH]; [reflexivity|]. cbn [tt_shape map]. unfold core_n. rewrite HG. cbn [nth]. f_equal. exact IH. Qed.
Theorem tt_to_tensor_link cs ns : cs <> [] -> tt_cores F 1 cs ns 1 -> 0 < prod ns ->
  exists t, Factorized.tt_to_tensor Op cs = Ok t /\ shape t = shape (Transforms.tt_to_tensor Op cs) /\
    forall idx, inb (shape t) idx -> get fz t idx = tt_entry Op cs idx.
Proof.
  intros Hne Hc Hp. destruct (tt_to_tensor_spec_v F Op Rth cs ns Hne Hc Hp) as (t & Ht & Hst & Hg).
  exists t. split; [exact Ht|]. split; [rewrite Hst; cbn [Transforms.tt_to_tensor shape tabulate]; symmetry; eapply tt_cores_shape; eauto|].
  intros idx Hi. rewrite Hst in Hi. rewrite (Hg idx Hi). unfold tt_entry. symmetry. eapply tt_chain_link; eauto.
Qed.
Lemma tt_cores_snoc : forall r cs ns rl (fl : tensor F) nL r0, tt_cores F r cs ns rl -> shape fl = [rl; nL; r0] -> 0 < r0 ->
  tt_cores F r (cs ++ [fl]) (ns ++ [nL]) r0.
Proof.
  induction 1 as [r | r n r' G cs ns rl HG Hr' _ IH]; intros Hfl Hr0; cbn [app].
  - econstructor; [exact Hfl | exact Hr0 | constructor].
  - econstructor; [exact HG | exact Hr' | now apply IH].
Qed.
Theorem tr_to_tensor_link (fa : tensor F) mid (fl : tensor F) n0 nsm nL r0 rL :
  tt_cores F r0 (fa :: mid) (n0 :: nsm) rL -> shape fl = [rL; nL; r0] -> 0 < r0 -> 0 < prod ((n0 :: nsm) ++ [nL]) ->
  exists t, Factorized.tr_to_tensor Op (fa :: mid ++ [fl]) = Ok t /\
    shape t = shape (Transforms.tr_to_tensor Op (fa :: mid ++ [fl])) /\
    forall idx, inb (shape t) idx -> get fz t idx = tr_entry Op (fa :: mid ++ [fl]) idx.
Proof.
  intros Hc Hfl Hr0 Hp. destruct (tr_to_tensor_spec_v F Op Rth fa mid fl n0 nsm nL r0 rL Hc Hfl Hr0 Hp) as (t & Ht & Hst & Hg).
  pose proof (tt_cores_snoc _ _ _ _ fl nL r0 Hc Hfl Hr0) as Hall. cbn [app] in Hall.
  exists t. split; [exact Ht|]. split.
  - rewrite Hst. cbn [Transforms.tr_to_tensor shape tabulate]. symmetry. exact (tt_cores_shape _ _ _ _ Hall).
  - intros idx Hi. rewrite Hst in Hi. rewrite (Hg idx Hi). unfold tr_entry. cbn [hd].
    assert (R1 : core_r1 fa = r0) by (inversion Hc as [|? ? ? ? ? ? ? HG]; subst; unfold core_r1; rewrite HG; reflexivity).
    rewrite R1. unfold sumn, Factorized.fsumn. apply bigsum_ext. intros a _. symmetry.
    change ((fa :: mid) ++ [fl]) with (fa :: mid ++ [fl]). eapply tt_chain_link; eauto.
Qed.

(* ---------- TT-matrix *)
Lemma ttm_chain_link : forall r cs ns ms rl, ttm_cores F r cs ns ms rl -> forall is os a b,
  tt_chain Op cs (zip2 is os) a b = chain4 F Op cs (interleave is os) a b.
Proof.
  induction 1 as [r | r n m r' G cs ns ms rl HG Hr' _ IH]; intros is os a b.
  - destruct is, os; reflexivity.
  - destruct is as [|i is]; [reflexivity|]. destruct os as [|o os]; [reflexivity|].
    cbn [zip2 interleave tt_chain chain4]. unfold core_r2. rewrite HG. cbn [last nth].
    unfold sumn, Factorized.fsumn. apply bigsum_ext. intros c _. rewrite IH. reflexivity.
Qed.
Lemma ttm_cores_shape : forall r cs ns ms rl, ttm_cores F r cs ns ms rl -> map core_n cs = ns /\ map core_m2 cs = ms.
Proof.
  induction 1 as [|r n m r' G cs ns ms rl HG _ _ IH]; [split; reflexivity|]. destruct IH as [I1 I2].
  cbn [map]. unfold core_n at 1, core_m2 at 1. rewrite HG. cbn [nth]. split; f_equal; assumption.
Qed.
Theorem ttm_to_tensor_link cs ns ms : cs <> [] -> ttm_cores F 1 cs ns ms 1 ->
  exists t, Factorized.ttm_to_tensor Op cs = Ok t /\ shape t = shape (Transforms.ttm_to_tensor Op cs) /\
    forall is os, inb ns is -> inb ms os -> get fz t (is ++ os) = ttm_entry Op cs (is ++ os).
Proof.
  intros Hne Hc. destruct (ttm_to_tensor_spec F Op Rth cs ns ms Hne Hc) as (t & Ht & Hst & Hg).
  destruct (ttm_cores_shape _ _ _ _ _ Hc) as [S1 S2]. destruct (ttm_cores_length F _ _ _ _ _ Hc) as [L1 L2].
  exists t. split; [exact Ht|]. split; [rewrite Hst; cbn [Transforms.ttm_to_tensor shape tabulate]; unfold ttm_shape; now rewrite S1, S2|].
  intros is os Hi Ho. rewrite (Hg is os Hi Ho). unfold ttm_entry.
  assert (Li : length is = length cs) by (rewrite (inb_length _ _ Hi); exact L1).
  rewrite <- Li. rewrite firstn_app, Nat.sub_diag, firstn_all, firstn_O, app_nil_r.
  rewrite skipn_app, Nat.sub_diag, skipn_all, skipn_O. cbn [app]. symmetry. eapply ttm_chain_link; eauto.
Qed.

(* ---------- PARAFAC2: pf2_entry is what C03's model of parafac2_to_slice returns (weights as a vector, every matrix as a dense
   tensor; the validator's verdict on the encoded operand is a hypothesis -- C03's model of _validate_parafac2_tensor) *)
Lemma shape_of_rows R (A : mat F) : shape (of_rows R A) = [length A; R].
Proof. reflexivity. Qed.
Lemma Forall2_of_rows Q : forall Ps : list (mat F),
  Forall2 (fun (P : tensor F) J => shape P = [J; Q]) (map (of_rows Q) Ps) (map (@length (list F)) Ps).
Proof. induction Ps; cbn [map]; constructor; auto. Qed.
Theorem pf2_to_slice_link (w : list F) (A B C : mat F) (Ps : list (mat F)) shp i :
  validate_parafac2 Op (Some (of_vec w)) [of_rows (length w) A; of_rows (length w) B; of_rows (length w) C] (map (of_rows (length B)) Ps)
    = Ok (shp, length w) ->
  length Ps = length A -> i < length A ->
  exists t, Factorized.parafac2_to_slice Op (Some (of_vec w)) [of_rows (length w) A; of_rows (length w) B; of_rows (length w) C]
                                         (map (of_rows (length B)) Ps) i = Ok t /\
    shape t = [length (nth i Ps []); length C] /\
    forall j k, j < length (nth i Ps []) -> k < length C -> Factorized.get2 Op t j k = pf2_entry Op w A B C Ps i j k.
Proof.
  intros Hv Hl Hi.
  destruct (parafac2_to_slice_spec F Op Rth (Some (of_vec w)) _ _ _ _ (map (@length (list F)) Ps) shp (length A) (length B) (length w) (length C) i
              Hv (shape_of_rows _ A) (shape_of_rows _ B) (shape_of_rows _ C) eq_refl (Forall2_of_rows (length B) Ps)
              (eq_trans (map_length _ _) Hl) Hi) as (t & Ht & Hst & Hg).
  assert (Hip : i < length Ps) by lia.
  assert (EJ : nth i (map (@length (list F)) Ps) 0 = length (nth i Ps [])) by (now apply nth_map').
  rewrite EJ in Hst, Hg.
  exists t. split; [exact Ht|]. split; [exact Hst|]. intros j k Hj Hk. rewrite (Hg j k Hj Hk).
  unfold p2_entry, pf2_entry, cp_entry. rewrite (nth_map' (of_rows (length B)) Ps i [] _) by assumption.
  change (Factorized.fsumn Op) with (sumn Op).
  rewrite (sumn_ext Op _ _
             (fun r => sumn Op (length B) (fun q =>
                mget Op (nth i Ps []) j q *f (vget Op w r *f (mget Op A i r *f (mget Op B q r *f (mget Op C k r *f f1 Op))))))).
  2:{ intros r Hr. rewrite (get2_of_rows _ A) by assumption. rewrite (get2_of_rows _ C) by assumption.
      cbn [wv]. rewrite get1_of_vec by assumption.
      rewrite <- (sumn_scale_r Op Rth). rewrite <- (sumn_scale_r Op Rth). apply sumn_ext. intros q Hq.
      rewrite (get2_of_rows _ (nth i Ps [])) by assumption. rewrite (get2_of_rows _ B) by assumption. ring. }
  rewrite (sumn_exchange Op Rth). apply sumn_ext. intros q Hq.
  rewrite <- (sumn_scale_l Op Rth). apply sumn_ext. intros r Hr. cbn [cp_term]. reflexivity.
Qed.
End Link.
