(* C04, round 7: the verdict of C03's model of _validate_parafac2_tensor (Model/Factorized.v) on the encoded operand follows from
   C04's own validator model pf2_validb (Model/TransformsApi.v) with the exact entry test -- so the PARAFAC2 link no longer needs the
   verdict as a hypothesis.  C03's files are imported, not edited. *)
From Coq Require Import List Arith Lia Bool Ring.
From TLV Require Import Base.Shape Base.PyList Base.Tensor Base.BigSum Base.Ops Model.Base Model.Factorized
  Model.Transforms Model.TransformsApi Proofs.TransformsProofs Proofs.TransformsProofsValid Proofs.TransformsProofsLink.
Import ListNotations.

Section Link2.
Context {F : Type} (Op : fops F).
Hypothesis Rth : ring_theory (f0 Op) (f1 Op) (fadd Op) (fmul Op) (fsub Op) (fopp Op) (@eq F).
Local Notation "a *f b" := (fmul Op a b) (at level 40, left associativity).

Lemma forallb_ext_in {A} (f g : A -> bool) : forall l, (forall x, In x l -> f x = g x) -> forallb f l = forallb g l.
Proof. induction l as [|x l IH]; intros H; [reflexivity|]. cbn [forallb]. rewrite (H x) by now left. rewrite IH; [reflexivity|]. intros y Hy. apply H. now right. Qed.

(* the exact orthonormality test of the two models agrees on the encoding *)
Lemma orthonormalb_of_rows R (P : mat F) rank : rank <= R ->
  orthonormalb Op (of_rows Op R P) rank = orthob Op (feqb Op) rank P.
Proof.
  intros HR. unfold orthonormalb, orthob. apply forallb_ext_in. intros a Ha. apply in_seq in Ha.
  apply forallb_ext_in. intros b Hb. apply in_seq in Hb. f_equal.
  unfold gram. change (Factorized.fsumn Op) with (sumn Op). change (nrows (of_rows Op R P)) with (length P).
  apply sumn_ext. intros t Ht. rewrite !get2_of_rows by lia. reflexivity.
Qed.

Lemma p2_proj_shapes_of_rows rank K : forall Ps : list (mat F),
  forallb (proj_okb Op (feqb Op) rank) Ps = true ->
  p2_proj_shapes Op rank K (map (of_rows Op rank) Ps) = Ok (map (fun P => [length P; K]) Ps).
Proof.
  induction Ps as [|P Ps IH]; intros H; [reflexivity|]. cbn [forallb] in H. apply andb_true_iff in H. destruct H as [HP H].
  cbn [map p2_proj_shapes]. rewrite shape_of_rows. rewrite Nat.eqb_refl. cbn [andb].
  rewrite orthonormalb_of_rows by lia. unfold proj_okb in HP. apply andb_true_iff in HP. destruct HP as [_ HP]. rewrite HP.
  rewrite (IH H). reflexivity.
Qed.

(* C04's validator (exact entry test) accepts  ==>  C03's model of _validate_parafac2_tensor accepts the encoded operand and
   reports the slice shapes / rank that C04's constructor caches *)
Theorem validate_parafac2_of_validb (w : list F) (A B C : mat F) (Ps : list (mat F)) :
  pf2_validb Op (feqb Op) (Some w) [A; B; C] Ps = true -> length B = length w ->
  validate_parafac2 Op (Some (of_vec Op w)) [of_rows Op (length w) A; of_rows Op (length w) B; of_rows Op (length w) C]
                    (map (of_rows Op (length B)) Ps) = Ok (pf2_shape [A; B; C] Ps, length w).
Proof.
  unfold pf2_validb. intros H HB.
  repeat (apply andb_true_iff in H; destruct H as [H ?]).
  match goal with Hw : (length w =? ncols A) = true |- _ => apply Nat.eqb_eq in Hw; rename Hw into Ew end.
  rewrite <- Ew in *.
  unfold validate_parafac2. rewrite !shape_of_rows. rewrite map_length.
  match goal with Hl : (length Ps =? length A) = true |- _ => rewrite Hl end. cbn [negb].
  rewrite HB. rewrite p2_proj_shapes_of_rows by assumption. cbn [rbind].
  unfold cols_are. rewrite !shape_of_rows, Nat.eqb_refl. cbn [andb p2_weights_ok]. unfold of_vec. cbn [shape tabulate].
  rewrite Nat.eqb_refl. unfold pf2_shape. cbn [nth]. reflexivity.
Qed.

(* the PARAFAC2 link without the verdict hypothesis *)
Theorem pf2_to_slice_link_valid (w : list F) (A B C : mat F) (Ps : list (mat F)) i :
  pf2_validb Op (feqb Op) (Some w) [A; B; C] Ps = true -> length B = length w -> i < length A ->
  exists t, Factorized.parafac2_to_slice Op (Some (of_vec Op w)) [of_rows Op (length w) A; of_rows Op (length w) B; of_rows Op (length w) C]
                                         (map (of_rows Op (length B)) Ps) i = Ok t /\
    shape t = [length (nth i Ps []); length C] /\
    forall j k, j < length (nth i Ps []) -> k < length C -> Factorized.get2 Op t j k = pf2_entry Op w A B C Ps i j k.
Proof.
  intros Hv HB Hi. apply (pf2_to_slice_link Op Rth w A B C Ps (pf2_shape [A; B; C] Ps) i).
  - now apply validate_parafac2_of_validb.
  - unfold pf2_validb in Hv. repeat (apply andb_true_iff in Hv; destruct Hv as [Hv ?]).
    match goal with Hl : (length Ps =? length A) = true |- _ => now apply Nat.eqb_eq in Hl end.
  - exact Hi.
Qed.
End Link2.
