(* C04, round 8: LOSSY compression.  svd_compress_tensor_slices with a threshold (or a rank limit) that drops singular values:
   loading x score is the data minus the dropped tail of the singular expansion; with orthonormal left singular vectors the score is
   the coordinate matrix loading^T x data (so loading x score is the orthogonal projection of the data onto the kept vectors) and
   the discarded part is orthogonal to every kept vector.  Ring regime (any commutative ring); the SVD answer is data. *)
From Coq Require Import List Arith Lia Bool Ring.
From TLV Require Import Base.Shape Base.PyList Base.Tensor Base.BigSum Base.Ops Model.Transforms Proofs.TransformsProofs Proofs.TransformsProofsPf2.
Import ListNotations.

Section L.
Context {F : Type} (Op : fops F).
Hypothesis Rth : ring_theory (f0 Op) (f1 Op) (fadd Op) (fmul Op) (fsub Op) (fopp Op) (@eq F).
Add Ring Fr8 : Rth.
Local Notation fz := (f0 Op).
Local Notation fone := (f1 Op).
Local Notation "a *f b" := (fmul Op a b) (at level 40, left associativity).
Local Notation "a +f b" := (fadd Op a b) (at level 50, left associativity).
Local Notation Sum := (sumn Op).

Lemma count_kept_le thr s : count_kept Op thr s <= length s.
Proof. unfold count_kept. generalize (hd fz s *f thr). intros c. induction s as [|x s IH]; simpl; [lia|]. destruct (fleb Op c x); simpl; lia. Qed.

Lemma nth_firstn_lt {A} (d : A) : forall n l t, t < n -> nth t (firstn n l) d = nth t l d.
Proof. induction n; intros l t H; [lia|]. destruct l; [reflexivity|]. destruct t; simpl; auto. apply IHn. lia. Qed.

Lemma mget_map_firstn (U : mat F) n j t : t < n -> mget Op (map (firstn n) U) j t = mget Op U j t.
Proof.
  intros H. unfold mget.
  assert (E : nth j (map (firstn n) U) [] = firstn n (nth j U [])).
  { rewrite <- (map_nth (firstn n)). now rewrite firstn_nil. }
  rewrite E. now apply nth_firstn_lt.
Qed.
Lemma mget_firstn_rows (Vh : mat F) n t k : t < n -> mget Op (firstn n Vh) t k = mget Op Vh t k.
Proof. intros H. unfold mget. now rewrite nth_firstn_lt. Qed.
Lemma vget_firstn (s : list F) n t : t < n -> vget Op (firstn n s) t = vget Op s t.
Proof. intros H. unfold vget. now apply nth_firstn_lt. Qed.

(* the kept part: entry (j, k) of loading x score is the first num terms of the singular expansion *)
Lemma compress_kept_entry rl thr X U s Vh score Lm j k :
  compress_slice Op rl thr X (U, s, Vh) = (score, Some Lm) -> length Vh = length s ->
  j < length U -> k < ncols score ->
  length score = count_kept Op thr s /\ length Lm = length U /\
  mget Op (matmul Op Lm score) j k = Sum (count_kept Op thr s) (fun t => mget Op U j t *f (vget Op s t *f mget Op Vh t k)).
Proof.
  unfold compress_slice. destruct ((length X <=? rl) && feqb Op thr fz); [discriminate|].
  intros E Hv Hj Hk. injection E as <- <-.
  pose proof (count_kept_le thr s) as Hle. set (num := count_kept Op thr s) in *.
  assert (Ls : length (scale_rows Op (firstn num s) (firstn num Vh)) = num).
  { rewrite scale_rows_length; rewrite !firstn_length; lia. }
  split; [exact Ls|]. split; [apply map_length|].
  rewrite (mget_matmul Op) by (rewrite ?map_length; assumption). rewrite Ls.
  apply sumn_ext. intros t Ht. rewrite mget_map_firstn by assumption. rewrite (mget_scale_rows Op Rth).
  now rewrite vget_firstn, mget_firstn_rows by assumption.
Qed.

(* LOSSY: data = loading x score + the dropped tail of the expansion, whatever the threshold / rank limit dropped *)
Theorem compress_slice_lossy rl thr X U s Vh score Lm j k :
  compress_slice Op rl thr X (U, s, Vh) = (score, Some Lm) -> length Vh = length s ->
  j < length U -> k < ncols score ->
  mget Op X j k = Sum (length s) (fun t => mget Op U j t *f (vget Op s t *f mget Op Vh t k)) ->
  mget Op X j k = mget Op (matmul Op Lm score) j k +f
                  Sum (length s - count_kept Op thr s)
                      (fun t => mget Op U j (count_kept Op thr s + t) *f (vget Op s (count_kept Op thr s + t) *f mget Op Vh (count_kept Op thr s + t) k)).
Proof.
  intros E Hv Hj Hk HX. destruct (compress_kept_entry rl thr X U s Vh score Lm j k E Hv Hj Hk) as (_ & _ & K).
  rewrite K, HX. pose proof (count_kept_le thr s) as Hle.
  replace (length s) with (count_kept Op thr s + (length s - count_kept Op thr s)) at 1 by lia.
  apply (sumn_app Op Rth).
Qed.

(* when every dropped singular value is zero the compression is exact (rank-deficient data) *)
Corollary compress_slice_tail_zero rl thr X U s Vh score Lm j k :
  compress_slice Op rl thr X (U, s, Vh) = (score, Some Lm) -> length Vh = length s ->
  j < length U -> k < ncols score ->
  mget Op X j k = Sum (length s) (fun t => mget Op U j t *f (vget Op s t *f mget Op Vh t k)) ->
  (forall t, count_kept Op thr s <= t -> t < length s -> vget Op s t = fz) ->
  mget Op (matmul Op Lm score) j k = mget Op X j k.
Proof.
  intros E Hv Hj Hk HX Hz. rewrite (compress_slice_lossy rl thr X U s Vh score Lm j k E Hv Hj Hk HX).
  rewrite (sumn_zero Op Rth) with (n := length s - count_kept Op thr s).
  - ring.
  - intros t Ht. rewrite Hz by lia. ring.
Qed.

(* with orthonormal left singular vectors (U^T U = I, the SVD contract) the score is the coordinate matrix loading^T x data *)
Theorem compress_score_coordinates rl thr X U s Vh score Lm a k :
  compress_slice Op rl thr X (U, s, Vh) = (score, Some Lm) -> length Vh = length s ->
  (forall b, b < length s -> gram Op U a b = if Nat.eqb a b then fone else fz) ->
  (forall j, j < length U -> mget Op X j k = Sum (length s) (fun t => mget Op U j t *f (vget Op s t *f mget Op Vh t k))) ->
  a < count_kept Op thr s ->
  Sum (length U) (fun j => mget Op Lm j a *f mget Op X j k) = mget Op score a k.
Proof.
  intros E Hv Hg HX Ha. pose proof (count_kept_le thr s) as Hle.
  unfold compress_slice in E. destruct ((length X <=? rl) && feqb Op thr fz); [discriminate|]. injection E as <- <-.
  set (num := count_kept Op thr s) in *.
  rewrite (mget_scale_rows Op Rth), vget_firstn, mget_firstn_rows by assumption.
  rewrite (sumn_ext Op _ _ (fun j => Sum (length s) (fun t => (mget Op U j a *f mget Op U j t) *f (vget Op s t *f mget Op Vh t k)))).
  2:{ intros j Hj. rewrite mget_map_firstn by assumption. rewrite HX by assumption. rewrite <- (sumn_scale_l Op Rth). apply sumn_ext. intros t _. ring. }
  rewrite (sumn_exchange Op Rth).
  rewrite (sumn_ext Op _ _ (fun t => gram Op U a t *f (vget Op s t *f mget Op Vh t k))).
  2:{ intros t _. unfold gram. now rewrite (sumn_scale_r Op Rth). }
  rewrite (sumn_single Op Rth (length s) a).
  2: lia.
  2:{ intros t Ht Hne. rewrite Hg by assumption. destruct (Nat.eqb_spec a t); [congruence|ring]. }
  rewrite Hg by lia. rewrite Nat.eqb_refl. ring.
Qed.

(* hence the discarded part X - loading x score is orthogonal to every kept left singular vector *)
Theorem compress_residual_orthogonal rl thr X U s Vh score Lm a k :
  compress_slice Op rl thr X (U, s, Vh) = (score, Some Lm) -> length Vh = length s -> k < ncols score ->
  (forall b, b < length s -> gram Op U a b = if Nat.eqb a b then fone else fz) ->
  (forall j, j < length U -> mget Op X j k = Sum (length s) (fun t => mget Op U j t *f (vget Op s t *f mget Op Vh t k))) ->
  a < count_kept Op thr s ->
  Sum (length U) (fun j => mget Op Lm j a *f (fsub Op (mget Op X j k) (mget Op (matmul Op Lm score) j k))) = fz.
Proof.
  intros E Hv Hk Hg HX Ha. pose proof (count_kept_le thr s) as Hle.
  rewrite (sumn_ext Op _ _ (fun j => mget Op U j a *f
     Sum (length s - count_kept Op thr s) (fun t => mget Op U j (count_kept Op thr s + t) *f (vget Op s (count_kept Op thr s + t) *f mget Op Vh (count_kept Op thr s + t) k)))).
  2:{ intros j Hj. rewrite (compress_slice_lossy rl thr X U s Vh score Lm j k E Hv Hj Hk (HX j Hj)).
      assert (EL : mget Op Lm j a = mget Op U j a).
      { unfold compress_slice in E. destruct ((length X <=? rl) && feqb Op thr fz); [discriminate|]. injection E as _ <-. now apply mget_map_firstn. }
      rewrite EL. ring. }
  set (num := count_kept Op thr s) in *.
  rewrite (sumn_ext Op _ _ (fun j => Sum (length s - num) (fun t => (mget Op U j a *f mget Op U j (num + t)) *f (vget Op s (num + t) *f mget Op Vh (num + t) k)))).
  2:{ intros j _. rewrite <- (sumn_scale_l Op Rth). apply sumn_ext. intros t _. ring. }
  rewrite (sumn_exchange Op Rth). apply (sumn_zero Op Rth). intros t Ht.
  rewrite (sumn_scale_r Op Rth). fold (gram Op U a (num + t)). rewrite Hg by lia.
  destruct (Nat.eqb_spec a (num + t)); [lia|ring].
Qed.

(* compress (lossy), fit the scores exactly, decompress: the decompressed tensor's slice is the data minus the dropped tail *)
Theorem compress_decompress_lossy rl thr X U s Vh score Lm w A B C Ps Ls w' A' B' C' Ps' i j k :
  compress_slice Op rl thr X (U, s, Vh) = (score, Some Lm) -> length Vh = length s ->
  mget Op X j k = Sum (length s) (fun t => mget Op U j t *f (vget Op s t *f mget Op Vh t k)) ->
  svd_decompress Op w A B C Ps Ls = Ok (w', [A'; B'; C'], Ps') -> i < length Ps -> nth i Ls None = Some Lm ->
  length (nth i Ps []) = length score -> length B <= ncols (nth i Ps []) ->
  (forall t, t < length score -> pf2_entry Op w A B C Ps i t k = mget Op score t k) ->
  j < length U -> k < ncols score ->
  mget Op X j k = pf2_entry Op w' A' B' C' Ps' i j k +f
                  Sum (length s - count_kept Op thr s)
                      (fun t => mget Op U j (count_kept Op thr s + t) *f (vget Op s (count_kept Op thr s + t) *f mget Op Vh (count_kept Op thr s + t) k)).
Proof.
  intros Ec Hv HX Ed Hi HL Hlen HB Hfit Hj Hk.
  destruct (compress_kept_entry rl thr X U s Vh score Lm j k Ec Hv Hj Hk) as (_ & LL & _).
  pose proof (svd_decompress_entry Op Rth w A B C Ps Ls w' A' B' C' Ps' i j k Ed Hi) as D. rewrite HL in D.
  rewrite D by (auto; lia). rewrite Hlen.
  rewrite (sumn_ext Op _ _ (fun t => mget Op Lm j t *f mget Op score t k)).
  2:{ intros t Ht. now rewrite Hfit. }
  rewrite <- (mget_matmul Op) by (auto; lia).
  now apply (compress_slice_lossy rl thr X U s Vh score Lm j k).
Qed.
End L.
