(* Python (possibly negative) mode numbers in cp_mode_dot, tucker_mode_dot, cp_flip_sign. *)
From Coq Require Import List Arith Lia Bool Ring ZArith Permutation.
From TLV Require Import Base.Shape Base.PyList Base.Tensor Base.BigSum Base.Ops Model.Transforms Proofs.TransformsProofs Proofs.TransformsProofsTucker.
Import ListNotations.

Section P6.
Context {F : Type} (Op : fops F).
Hypothesis Rth : ring_theory (f0 Op) (f1 Op) (fadd Op) (fmul Op) (fsub Op) (fopp Op) (@eq F).
Add Ring Fr8 : Rth.
Local Notation fz := (f0 Op).
Local Notation fone := (f1 Op).
Local Notation "a *f b" := (fmul Op a b) (at level 40, left associativity).
Local Notation Sum := (sumn Op).

Lemma norm_mode_lt n m k : norm_mode n m = Some k -> k < n.
Proof.
  unfold norm_mode. destruct ((0 <=? m) && (m <? Z.of_nat n))%Z eqn:E1.
  - intros E. injection E as <-. apply andb_true_iff in E1. destruct E1 as [H1 H2].
    apply Z.leb_le in H1. apply Z.ltb_lt in H2. lia.
  - destruct ((- Z.of_nat n <=? m) && (m <? 0))%Z eqn:E2; [|discriminate]. intros E. injection E as <-.
    apply andb_true_iff in E2. destruct E2 as [H1 H2]. apply Z.leb_le in H1. apply Z.ltb_lt in H2. lia.
Qed.

(* contraction with any absorbing factor *)
Lemma cp_contract_at_entry w fs v k absorb w' fs' idx' :
  cp_contract_at Op w fs v k absorb = Ok (w', fs') -> k < length fs -> absorb < length fs - 1 ->
  S (length idx') = length fs -> length w <= ncols (nth k fs []) ->
  cp_shape fs' = remove_nth k (cp_shape fs) /\
  cp_entry Op w' fs' idx' =
  Sum (length (nth k fs [])) (fun i => vget Op v i *f cp_entry Op w fs (insert_at k i idx')).
Proof.
  unfold cp_contract_at. intros E Hk Ha Hi Hc.
  destruct (Nat.eqb (length v) (length (nth k fs []))) eqn:Hv; [|discriminate].
  assert (Lr : length (remove_nth k fs) = length fs - 1) by (apply remove_nth_length; lia).
  destruct (remove_nth k fs) as [|B0 rest] eqn:Hrem; [discriminate|].
  rewrite <- Hrem in *. clear Hrem B0 rest. injection E as <- <-.
  split.
  - rewrite cp_shape_set_len by (apply length_scale_cols). apply cp_shape_remove.
  - unfold cp_entry.
    rewrite (sumn_ext Op _ _ (fun r => Sum (length (nth k fs [])) (fun i =>
       vget Op v i *f (vget Op w r *f (mget Op (nth k fs []) i r *f cp_term Op (remove_nth k fs) idx' r))))).
    2:{ intros r Hr. rewrite (cp_term_scale Op Rth) by lia. rewrite (vget_vecmat Op) by lia.
        rewrite <- !(sumn_scale_r Op Rth), <- (sumn_scale_l Op Rth). apply sumn_ext. intros i _. ring. }
    rewrite (sumn_exchange Op Rth). apply sumn_ext. intros i _. rewrite <- (sumn_scale_l Op Rth). apply sumn_ext. intros r _.
    rewrite (cp_term_split Op Rth k fs (insert_at k i idx') r) by (rewrite ?insert_at_length; lia).
    rewrite nth_insert_same, remove_insert by lia. ring.
Qed.

(* a Python mode number acts like the non-negative mode k = mode mod N: same represented tensor *)
Theorem cp_mode_dot_z_matrix w fs M mode kd w' fs' :
  cp_mode_dot_z Op w fs (OpMat M) mode kd = Ok (w', fs') ->
  exists k, norm_mode (length fs) mode = Some k /\ cp_mode_dot Op w fs (OpMat M) k kd = Ok (w', fs').
Proof.
  unfold cp_mode_dot_z. destruct (norm_mode (length fs) mode) as [k|]; [|discriminate]. intros E. exists k. auto.
Qed.
Theorem cp_mode_dot_z_vector_keep w fs v mode w' fs' :
  cp_mode_dot_z Op w fs (OpVec v) mode true = Ok (w', fs') ->
  exists k, norm_mode (length fs) mode = Some k /\ cp_mode_dot Op w fs (OpVec v) k true = Ok (w', fs').
Proof.
  unfold cp_mode_dot_z. destruct (norm_mode (length fs) mode) as [k|]; [|discriminate]. cbn [negb andb]. intros E. exists k. auto.
Qed.
Theorem cp_mode_dot_z_vector_contract w fs v mode w' fs' idx' :
  cp_mode_dot_z Op w fs (OpVec v) mode false = Ok (w', fs') ->
  S (length idx') = length fs ->
  exists k, norm_mode (length fs) mode = Some k /\ (length w <= ncols (nth k fs []) ->
  cp_shape fs' = remove_nth k (cp_shape fs) /\
  cp_entry Op w' fs' idx' =
  Sum (length (nth k fs [])) (fun i => vget Op v i *f cp_entry Op w fs (insert_at k i idx'))).
Proof.
  unfold cp_mode_dot_z. destruct (norm_mode (length fs) mode) as [k|] eqn:Hn; [|discriminate]. cbn [negb andb].
  pose proof (norm_mode_lt _ _ _ Hn) as Hk.
  intros E Hi. exists k. split; [reflexivity|]. intros Hc. destruct (mode <? 0)%Z.
  - destruct (Nat.eq_dec (length fs) 1) as [L1|L1].
    + (* a single factor: nothing is left to absorb the vector *)
      unfold cp_contract_at in E. destruct (Nat.eqb (length v) (length (nth k fs []))); [|discriminate].
      assert (Lr : length (remove_nth k fs) = length fs - 1) by (apply remove_nth_length; lia).
      destruct (remove_nth k fs); [discriminate | simpl in Lr; lia].
    + apply (cp_contract_at_entry w fs v k 0 w' fs' idx' E); auto; lia.
  - now apply (cp_mode_dot_vector_contract Op Rth).
Qed.
Theorem tucker_mode_dot_z_spec core fs x mode kd r :
  tucker_mode_dot_z Op core fs x mode kd = Ok r ->
  exists k, norm_mode (length fs) mode = Some k /\ tucker_mode_dot Op core fs x k kd = Ok r.
Proof.
  unfold tucker_mode_dot_z. destruct (norm_mode (length fs) mode) as [k|]; [|discriminate]. intros E. exists k. auto.
Qed.

(* sign flips with a negative target mode *)
Section FlipNS.
Variable summ : list F -> F.
Hypothesis colsign_sq : forall x, colsign Op x *f colsign Op x = fone.
Hypothesis colsign_abs : forall x, colsign Op x *f fabs Op x = x.
Lemma flip_loop_ns_length R target : forall jjs fs, length (flip_loop_ns Op summ R target jjs fs) = length fs.
Proof. induction jjs as [|jj jjs IH]; intros fs; simpl; auto. rewrite IH. now rewrite !set_nth_length. Qed.
Lemma flip_loop_ns_term R target idx r : r < R -> forall jjs fs,
  target < length fs -> length idx = length fs -> Forall (fun jj => jj < length fs) jjs ->
  cp_term Op (flip_loop_ns Op summ R target jjs fs) idx r = cp_term Op fs idx r.
Proof.
  intros Hr. induction jjs as [|jj jjs IH]; intros fs Hm Hi Hj; simpl; auto.
  inversion Hj as [|? ? Hjj Hrest]; subst.
  set (cs := map (colsign Op) (col_summaries Op summ (nth jj fs []) R)).
  set (fs1 := set_nth target (scale_cols Op (nth target fs []) cs) fs).
  assert (L1 : length fs1 = length fs) by (unfold fs1; now rewrite set_nth_length).
  rewrite IH; rewrite ?set_nth_length, ?L1; auto.
  rewrite (cp_term_scale Op Rth) by (rewrite ?L1; lia). unfold fs1. rewrite (cp_term_scale Op Rth) by lia.
  assert (E : vget Op cs r *f vget Op cs r = fone).
  { unfold cs. apply (vget_signs Op colsign_sq). unfold col_summaries. now rewrite map_length, seq_length. }
  rewrite (Rmul_assoc Rth), E. ring.
Qed.
Theorem cp_flip_sign_z_entry w fs mode w' fs' idx :
  cp_flip_sign_z Op summ w fs mode = Ok (w', fs') -> length idx = length fs ->
  cp_entry Op w' fs' idx = cp_entry Op w fs idx.
Proof.
  unfold cp_flip_sign_z. destruct (norm_mode (length fs) mode) as [k|] eqn:Hn; [|discriminate].
  pose proof (norm_mode_lt _ _ _ Hn) as Hk. destruct (mode <? 0)%Z.
  - intros E Hi. injection E as <- <-. unfold cp_entry. rewrite map_length. apply sumn_ext. intros r Hr.
    set (fl := flip_loop_ns Op summ (length w) k (seq 0 (length fs)) fs).
    assert (Lf : length fl = length fs) by apply flip_loop_ns_length.
    rewrite (cp_term_scale Op Rth) by (rewrite ?Lf; lia).
    unfold fl. rewrite flip_loop_ns_term; auto.
    + rewrite !(vget_map Op) by assumption. rewrite <- (colsign_abs (vget Op w r)) at 3. ring.
    + apply Forall_forall. intros q Hq. apply in_seq in Hq. lia.
  - apply (cp_flip_sign_entry Op Rth summ colsign_sq colsign_abs).
Qed.
End FlipNS.
End P6.
