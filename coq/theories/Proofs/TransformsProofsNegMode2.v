(* Canonical form of cp_flip_sign for every Python mode number. *)
From Coq Require Import List Arith Lia Bool Ring ZArith.
From TLV Require Import Base.Shape Base.PyList Base.Tensor Base.BigSum Base.Ops Model.Transforms Proofs.TransformsProofs Proofs.TransformsProofsFlip Proofs.TransformsProofsNegMode.
Import ListNotations.
Section FlipNSCanon.
Context {F : Type} (Op : fops F).
Hypothesis Rth : ring_theory (f0 Op) (f1 Op) (fadd Op) (fmul Op) (fsub Op) (fopp Op) (@eq F).
Local Notation "a *f b" := (fmul Op a b) (at level 40, left associativity).
Variable summ : list F -> F.
Hypothesis colsign_sq : forall x, colsign Op x *f colsign Op x = f1 Op.
Hypothesis colsign_abs : forall x, colsign Op x *f fabs Op x = x.
Hypothesis summ_scale : forall c l, summ (map (fun x => x *f c) l) = summ l *f c.

Lemma flip_loop_ns_nth R target : forall jjs fs jj, NoDup jjs -> jj <> target -> jj < length fs -> target < length fs ->
  nth jj (flip_loop_ns Op summ R target jjs fs) [] =
  if existsb (Nat.eqb jj) jjs
  then scale_cols Op (nth jj fs []) (map (colsign Op) (col_summaries Op summ (nth jj fs []) R))
  else nth jj fs [].
Proof.
  induction jjs as [|j0 jjs IH]; intros fs jj Hnd Hjm Hjl Hml; [reflexivity|].
  inversion Hnd as [|? ? Hnot Hnd']; subst. cbn [flip_loop_ns existsb].
  set (cs := map (colsign Op) (col_summaries Op summ (nth j0 fs []) R)).
  set (fs1 := set_nth target (scale_cols Op (nth target fs []) cs) fs).
  set (fs2 := set_nth j0 (scale_cols Op (nth j0 fs1 []) cs) fs1).
  assert (L1 : length fs1 = length fs) by (unfold fs1; now rewrite set_nth_length).
  assert (L2 : length fs2 = length fs) by (unfold fs2; now rewrite set_nth_length).
  rewrite (IH fs2 jj Hnd' Hjm) by lia.
  destruct (Nat.eqb_spec jj j0) as [->|Hne]; cbn [orb].
  - assert (Hex : existsb (Nat.eqb j0) jjs = false).
    { apply not_true_is_false. intros E. apply existsb_exists in E. destruct E as (y & Hy & Ey).
      apply Nat.eqb_eq in Ey. subst y. contradiction. }
    rewrite Hex. unfold fs2. rewrite nth_set_nth_same by lia.
    unfold fs1. rewrite nth_set_nth_other by exact Hjm. reflexivity.
  - assert (E : nth jj fs2 [] = nth jj fs []).
    { unfold fs2. rewrite nth_set_nth_other by exact Hne. unfold fs1. now rewrite nth_set_nth_other by exact Hjm. }
    rewrite E. reflexivity.
Qed.

(* canonical form for every Python mode number: weights |w_r|, summaries of the factors other than the target become absolute values *)
Theorem cp_flip_sign_z_canonical w fs mode w' fs' :
  cp_flip_sign_z Op summ w fs mode = Ok (w', fs') ->
  exists k, norm_mode (length fs) mode = Some k /\
  w' = map (fabs Op) w /\ length fs' = length fs /\
  forall jj r, jj < length fs -> jj <> k -> r < length w ->
    summ (col Op (nth jj fs' []) r) = fabs Op (summ (col Op (nth jj fs []) r)).
Proof.
  unfold cp_flip_sign_z. destruct (norm_mode (length fs) mode) as [k|] eqn:Hn; [|discriminate].
  pose proof (norm_mode_lt _ _ _ Hn) as Hk. intros E. exists k. split; [reflexivity|]. destruct (mode <? 0)%Z.
  - injection E as <- <-. split; [reflexivity|]. split.
    + now rewrite set_nth_length, (flip_loop_ns_length Op).
    + intros jj r Hjj Hjm Hr. rewrite nth_set_nth_other by exact Hjm.
      rewrite flip_loop_ns_nth by (auto; apply seq_NoDup). rewrite existsb_seq by exact Hjj.
      now apply (summ_after_flip Op Rth summ colsign_sq colsign_abs summ_scale).
  - now apply (cp_flip_sign_canonical Op Rth summ colsign_sq colsign_abs summ_scale).
Qed.
End FlipNSCanon.
