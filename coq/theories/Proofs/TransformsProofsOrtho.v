(* Projections stay orthonormal under from_CPTensor and svd_decompress_parafac2_tensor. *)
From Coq Require Import List Arith Lia Bool Ring ZArith Permutation.
From TLV Require Import Base.Shape Base.PyList Base.Tensor Base.BigSum Base.Ops Model.Transforms Proofs.TransformsProofs Proofs.TransformsProofsPf2 Proofs.TransformsProofsPermList.
Import ListNotations.

Section P6.
Context {F : Type} (Op : fops F).
Hypothesis Rth : ring_theory (f0 Op) (f1 Op) (fadd Op) (fmul Op) (fsub Op) (fopp Op) (@eq F).
(* projections stay orthonormal: from_CPTensor uses the Q of the QR answer for every slice ... *)
Theorem from_cp_ortho n Qm Rm w A B C w' fs' Ps i :
  from_cp Qm Rm w A B C = (w', fs', Ps) -> i < length A -> ortho Op n Qm -> ortho Op n (nth i Ps []).
Proof.
  unfold from_cp. intros E Hi HQ. injection E as _ _ <-. now rewrite nth_repeat_lt.
Qed.
(* ... and svd_decompress multiplies projection i by a loading matrix with orthonormal columns *)
Theorem svd_decompress_ortho n w A B C Ps Ls w' fs' Ps' i :
  svd_decompress Op w A B C Ps Ls = Ok (w', fs', Ps') -> i < length Ps ->
  ortho Op n (nth i Ps []) -> n <= ncols (nth i Ps []) ->
  (forall Lm, nth i Ls None = Some Lm -> ortho Op (length (nth i Ps [])) Lm) ->
  ortho Op n (nth i Ps' []).
Proof.
  unfold svd_decompress. destruct (length Ps <=? length Ls) eqn:Hl; [|discriminate]. apply Nat.leb_le in Hl.
  intros E Hi HP Hn HL. injection E as _ _ <-. rewrite (decompress_projs_nth Op) by assumption.
  destruct (nth i Ls None) as [Lm|]; [|exact HP]. apply (ortho_matmul Op Rth); auto.
Qed.
End P6.
