(* cp_permute_factors: entry-wise specification, list form; orthonormal columns under left multiplication. *)
From Coq Require Import List Arith Lia Bool Ring ZArith Permutation.
From TLV Require Import Base.Shape Base.PyList Base.Tensor Base.BigSum Base.Ops Model.Transforms Proofs.TransformsProofs.
Import ListNotations.

Section P4.
Context {F : Type} (Op : fops F).
Hypothesis Rth : ring_theory (f0 Op) (f1 Op) (fadd Op) (fmul Op) (fsub Op) (fopp Op) (@eq F).
Add Ring Fr7 : Rth.
Local Notation fz := (f0 Op).
Local Notation fone := (f1 Op).
Local Notation "a *f b" := (fmul Op a b) (at level 40, left associativity).
Local Notation Sum := (sumn Op).

(* what cp_permute returns, entry by entry *)
Theorem cp_permute_spec p w fs w' fs' :
  cp_permute Op p w fs = Ok (w', fs') ->
  length p = length w /\ length w' = length w /\ length fs' = length fs /\
  forall r, r < length w ->
    vget Op w' r = vget Op w (nth r p 0) /\
    forall k i, k < length fs -> mget Op (nth k fs' []) i r = mget Op (nth k fs []) i (nth r p 0).
Proof.
  unfold cp_permute. destruct (is_permb (length w) p) eqn:Hp; [|discriminate]. intros E. injection E as <- <-.
  assert (Hl : length p = length w) by (destruct (is_permb_spec _ _ Hp); auto).
  split; [exact Hl|]. split; [now rewrite map_length|]. split; [now rewrite map_length|].
  intros r Hr. split.
  - unfold vget at 1. rewrite (nth_map' _ p r 0 fz) by lia. reflexivity.
  - intros k i Hk. rewrite (nth_map' _ fs k [] []) by exact Hk. apply mget_permute_cols. lia.
Qed.

(* list form: every returned tensor is its own operand with its own assignment applied, hence represents the same tensor *)
Theorem cp_permute_list_spec : forall ps ts outs,
  cp_permute_list Op ps ts = Ok outs ->
  length outs = length ts /\ length ps = length ts /\
  forall i, i < length ts ->
    cp_permute Op (nth i ps []) (fst (nth i ts ([], []))) (snd (nth i ts ([], []))) = Ok (nth i outs ([], [])).
Proof.
  induction ps as [|p ps IH]; intros [|t ts] outs E; cbn [cp_permute_list] in E; try discriminate.
  - injection E as <-. repeat split; auto. intros i Hi. simpl in Hi. lia.
  - destruct (cp_permute Op p (fst t) (snd t)) as [t'|] eqn:E1; [|discriminate].
    destruct (cp_permute_list Op ps ts) as [rest|] eqn:E2; [|discriminate]. injection E as <-.
    destruct (IH ts rest E2) as (L1 & L2 & H). cbn [length]. repeat split; try lia.
    intros [|i] Hi; cbn [nth]; [exact E1 | apply H; simpl in Hi; lia].
Qed.
Theorem cp_permute_list_entry ps ts outs i idx :
  cp_permute_list Op ps ts = Ok outs -> i < length ts ->
  cp_entry Op (fst (nth i outs ([], []))) (snd (nth i outs ([], []))) idx =
  cp_entry Op (fst (nth i ts ([], []))) (snd (nth i ts ([], []))) idx.
Proof.
  intros E Hi. destruct (cp_permute_list_spec _ _ _ E) as (_ & _ & H). specialize (H i Hi).
  destruct (nth i outs ([], [])) as [w' fs']. cbn [fst snd]. eapply (cp_permute_entry Op Rth); eauto.
Qed.

(* orthonormal columns are preserved by left multiplication with a matrix with orthonormal columns:
   svd_decompress (L_i P_i) keeps the projections orthonormal *)
Definition ortho (n : nat) (P : mat F) : Prop :=
  forall a b, a < n -> b < n -> gram Op P a b = if Nat.eqb a b then fone else fz.
Theorem ortho_matmul n (Lm P : mat F) :
  ortho (length P) Lm -> ortho n P -> n <= ncols P ->
  ortho n (matmul Op Lm P).
Proof.
  intros HL HP Hn a b Ha Hb. unfold gram. unfold matmul at 1. rewrite map_length.
  rewrite (sumn_ext Op _ _ (fun j => Sum (length P) (fun t => Sum (length P) (fun u =>
     (mget Op P t a *f mget Op P u b) *f (mget Op Lm j t *f mget Op Lm j u))))).
  2:{ intros j Hj. rewrite !(mget_matmul Op) by lia.
      unfold sumn. rewrite (bigsum_prod F _ _ _ _ _ _ Rth). apply bigsum_ext. intros t _. apply bigsum_ext. intros u _. ring. }
  rewrite (sumn_exchange Op Rth).
  rewrite (sumn_ext Op _ _ (fun t => Sum (length P) (fun u => (mget Op P t a *f mget Op P u b) *f gram Op Lm t u))).
  2:{ intros t _. rewrite (sumn_exchange Op Rth). apply sumn_ext. intros u _. unfold gram. now rewrite (sumn_scale_l Op Rth). }
  rewrite (sumn_ext Op _ _ (fun t => mget Op P t a *f mget Op P t b)).
  2:{ intros t Ht. rewrite (sumn_single Op Rth _ t); auto.
      - rewrite HL by lia. rewrite Nat.eqb_refl. ring.
      - intros u Hu Hne. rewrite HL by lia. destruct (Nat.eqb_spec t u); [congruence | ring]. }
  apply HP; auto.
Qed.
End P4.
