(* Ring-regime lemmas about the PARAFAC2 transforms (Model/Transforms.v): from_CPTensor, svd_decompress, svd_compress. *)
From Coq Require Import List Arith Lia Bool Ring.
From TLV Require Import Base.Shape Base.PyList Base.Tensor Base.BigSum Base.Ops Model.Transforms Proofs.TransformsProofs.
Import ListNotations.

Section P.
Context {F : Type} (Op : fops F).
Hypothesis Rth : ring_theory (f0 Op) (f1 Op) (fadd Op) (fmul Op) (fsub Op) (fopp Op) (@eq F).
Add Ring Fr4 : Rth.
Local Notation fz := (f0 Op).
Local Notation fone := (f1 Op).
Local Notation "a *f b" := (fmul Op a b) (at level 40, left associativity).
Local Notation "a +f b" := (fadd Op a b) (at level 50, left associativity).
Local Notation Sum := (sumn Op).

Lemma nth_repeat_lt {A} (x d : A) : forall n i, i < n -> nth i (repeat x n) d = x.
Proof. induction n; intros [|i] H; simpl; try lia; auto. apply IHn. lia. Qed.

(* the evolving-factor form  X_ijk = sum_r w_r A_ir (P_i B)_jr C_kr *)
Theorem pf2_entry_evolving w A B C Ps i j k :
  rectb (length B) (nth i Ps []) = true -> j < length (nth i Ps []) -> length w <= ncols B ->
  pf2_entry Op w A B C Ps i j k = cp_entry Op w [A; matmul Op (nth i Ps []) B; C] [i; j; k].
Proof.
  intros Hr Hj Hc. unfold pf2_entry.
  assert (E : cp_mode_dot Op w [A; B; C] (OpMat (nth i Ps [])) 1 false = Ok (w, [A; matmul Op (nth i Ps []) B; C])).
  { unfold cp_mode_dot. cbn [length Nat.ltb Nat.leb nth]. rewrite Hr. reflexivity. }
  destruct (cp_mode_dot_matrix Op Rth _ _ _ _ _ _ _ [i; 0; k] j E eq_refl Hj Hc) as [_ T].
  cbn [set_nth nth] in T. rewrite T. reflexivity.
Qed.

Theorem from_cp_entry Qm Rm w A B C w' A' B' C' Ps i j k :
  from_cp Qm Rm w A B C = (w', [A'; B'; C'], Ps) -> i < length A ->
  (forall r, r < length w -> mget Op B j r = Sum (length Rm) (fun s => mget Op Qm j s *f mget Op Rm s r)) ->
  pf2_entry Op w' A' B' C' Ps i j k = cp_entry Op w [A; B; C] [i; j; k].
Proof.
  unfold from_cp. intros E Hi H. injection E as <- <- <- <- <-.
  unfold pf2_entry, cp_entry. rewrite nth_repeat_lt by exact Hi. cbn [cp_term].
  rewrite (sumn_ext Op _ _ (fun s => Sum (length w) (fun r => mget Op Qm j s *f (vget Op w r *f (mget Op A i r *f (mget Op Rm s r *f (mget Op C k r *f fone))))))).
  2:{ intros s _. now rewrite (sumn_scale_l Op Rth). }
  rewrite (sumn_exchange Op Rth). apply sumn_ext. intros r Hr. rewrite (H r Hr).
  rewrite (sumn_ext Op _ _ (fun s => (vget Op w r *f mget Op A i r *f (mget Op C k r)) *f (mget Op Qm j s *f mget Op Rm s r))).
  2:{ intros s _. ring. }
  rewrite (sumn_scale_l Op Rth). ring.
Qed.

Lemma decompress_projs_nth : forall Ps Ls i, length Ps <= length Ls -> i < length Ps ->
  nth i (decompress_projs Op Ps Ls) [] = match nth i Ls None with Some Lm => matmul Op Lm (nth i Ps []) | None => nth i Ps [] end.
Proof.
  induction Ps as [|P Ps IH]; intros [|L Ls] i Hl Hi; simpl in *; try lia.
  destruct i; [reflexivity|]. apply IH; lia.
Qed.
Theorem svd_decompress_entry w A B C Ps Ls w' A' B' C' Ps' i j k :
  svd_decompress Op w A B C Ps Ls = Ok (w', [A'; B'; C'], Ps') -> i < length Ps ->
  match nth i Ls None with
  | None => pf2_entry Op w' A' B' C' Ps' i j k = pf2_entry Op w A B C Ps i j k
  | Some Lm => j < length Lm -> length B <= ncols (nth i Ps []) ->
      pf2_entry Op w' A' B' C' Ps' i j k =
      Sum (length (nth i Ps [])) (fun t => mget Op Lm j t *f pf2_entry Op w A B C Ps i t k)
  end.
Proof.
  unfold svd_decompress. destruct (length Ps <=? length Ls) eqn:Hl; [|discriminate]. apply Nat.leb_le in Hl.
  intros E Hi. injection E as <- <- <- <- <-. unfold pf2_entry. rewrite decompress_projs_nth by assumption.
  destruct (nth i Ls None) as [Lm|]; [|reflexivity]. intros Hj Hc.
  rewrite (sumn_ext Op _ _ (fun s => Sum (length (nth i Ps [])) (fun t => mget Op Lm j t *f (mget Op (nth i Ps []) t s *f cp_entry Op w [A; B; C] [i; s; k])))).
  2:{ intros s Hs. rewrite (mget_matmul Op) by lia. rewrite <- (sumn_scale_r Op Rth). apply sumn_ext. intros t _. ring. }
  rewrite (sumn_exchange Op Rth). apply sumn_ext. intros t _. now rewrite (sumn_scale_l Op Rth).
Qed.

(* ---------- svd_compress_tensor_slices *)
Lemma vget_map_mul c row k : vget Op (map (fun x => c *f x) row) k = c *f vget Op row k.
Proof.
  unfold vget. destruct (lt_dec k (length row)).
  - now rewrite (nth_map' _ row k fz fz).
  - rewrite !nth_overflow by (rewrite ?map_length; lia). ring.
Qed.
Lemma mget_scale_rows : forall s Vh t k, mget Op (scale_rows Op s Vh) t k = vget Op s t *f mget Op Vh t k.
Proof.
  unfold scale_rows. induction s as [|c s IH]; intros [|row Vh] t k; cbn [combine map].
  - unfold mget, vget. destruct t; destruct k; cbn; ring.
  - unfold mget at 1, vget at 1. destruct t; destruct k; cbn; ring.
  - unfold mget, vget. destruct t; destruct k; cbn; ring.
  - destruct t.
    + unfold mget. cbn [nth fst snd]. fold (vget Op (map (fun x => c *f x) row) k). apply vget_map_mul.
    + unfold mget at 1, vget at 1. cbn [nth]. apply (IH Vh t k).
Qed.
Lemma scale_rows_length s Vh : length s = length Vh -> length (scale_rows Op s Vh) = length s.
Proof. intros H. unfold scale_rows. rewrite map_length, combine_length. lia. Qed.
Lemma map_firstn_rect n (U : mat F) : rectb n U = true -> map (firstn n) U = U.
Proof.
  induction U as [|row U IH]; [reflexivity|]. simpl. intros H. apply andb_true_iff in H. destruct H as [H1 H2].
  apply Nat.eqb_eq in H1. rewrite <- H1 at 1. rewrite firstn_all. f_equal. now apply IH.
Qed.
(* loading x score reproduces the slice when every singular value is kept; U diag(s) Vh = X is the contract of the SVD answer *)
Theorem compress_slice_entry rl thr X U s Vh score L :
  compress_slice Op rl thr X (U, s, Vh) = (score, L) ->
  match L with
  | None => score = X
  | Some Lm =>
      count_kept Op thr s = length s -> length Vh = length s -> rectb (length s) U = true ->
      forall j k, j < length U -> k < ncols score ->
      mget Op X j k = Sum (length s) (fun t => mget Op U j t *f (vget Op s t *f mget Op Vh t k)) ->
      mget Op (matmul Op Lm score) j k = mget Op X j k
  end.
Proof.
  unfold compress_slice. destruct ((length X <=? rl) && feqb Op thr fz).
  - intros E. injection E as <- <-. reflexivity.
  - intros E. injection E as <- <-. intros Hc Hv Hu j k Hj Hk HX.
    assert (E1 : firstn (count_kept Op thr s) s = s) by (rewrite Hc; apply firstn_all).
    assert (E2 : firstn (count_kept Op thr s) Vh = Vh) by (rewrite Hc, <- Hv; apply firstn_all).
    assert (E3 : map (firstn (count_kept Op thr s)) U = U) by (rewrite Hc; now apply map_firstn_rect).
    rewrite E1, E2 in *. rewrite E3.
    rewrite (mget_matmul Op) by assumption. rewrite scale_rows_length by lia. rewrite HX.
    apply sumn_ext. intros t _. now rewrite mget_scale_rows.
Qed.
(* with threshold 0 and non-negative singular values nothing is dropped *)
Lemma count_kept_all thr s : (forall x, In x s -> fleb Op (hd fz s *f thr) x = true) -> count_kept Op thr s = length s.
Proof.
  unfold count_kept. generalize (hd fz s *f thr). intros c. induction s as [|x s IH]; intros H; [reflexivity|].
  cbn [filter]. rewrite (H x) by (now left). simpl. f_equal. apply IH. intros y Hy. apply H. now right.
Qed.
(* compress, fit, decompress: if a PARAFAC2 tensor represents the score matrix of slice i exactly, the decompressed tensor
   represents the original slice (all singular values kept; SVD answer with its contract) *)
Theorem compress_decompress_roundtrip rl thr X U s Vh score Lm w A B C Ps Ls w' A' B' C' Ps' i j k :
  compress_slice Op rl thr X (U, s, Vh) = (score, Some Lm) ->
  count_kept Op thr s = length s -> length Vh = length s -> rectb (length s) U = true ->
  mget Op X j k = Sum (length s) (fun t => mget Op U j t *f (vget Op s t *f mget Op Vh t k)) ->
  svd_decompress Op w A B C Ps Ls = Ok (w', [A'; B'; C'], Ps') -> i < length Ps -> nth i Ls None = Some Lm ->
  length (nth i Ps []) = length score -> length B <= ncols (nth i Ps []) ->
  (forall t, t < length score -> pf2_entry Op w A B C Ps i t k = mget Op score t k) ->
  j < length U -> k < ncols score ->
  pf2_entry Op w' A' B' C' Ps' i j k = mget Op X j k.
Proof.
  intros Ec Hc Hv Hu HX Ed Hi HL Hlen HB Hfit Hj Hk.
  assert (LL : length Lm = length U).
  { unfold compress_slice in Ec. destruct ((length X <=? rl) && feqb Op thr fz); [discriminate|].
    injection Ec as _ <-. apply map_length. }
  pose proof (svd_decompress_entry w A B C Ps Ls w' A' B' C' Ps' i j k Ed Hi) as D. rewrite HL in D.
  rewrite D by (auto; lia). rewrite Hlen.
  rewrite (sumn_ext Op _ _ (fun t => mget Op Lm j t *f mget Op score t k)).
  2:{ intros t Ht. now rewrite Hfit. }
  rewrite <- (mget_matmul Op) by (auto; lia).
  pose proof (compress_slice_entry rl thr X U s Vh score (Some Lm) Ec) as Cc. cbv beta iota in Cc.
  now apply Cc.
Qed.
End P.
