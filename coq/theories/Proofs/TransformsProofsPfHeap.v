(* svd_decompress_parafac2_tensor on the heap (Model/TransformsPfHeap.v): the operand's projection list and arrays are untouched, the
   result's list is new, reads as the pure model's answer, and shares exactly the arrays of the entries without a loading. *)
From Coq Require Import List Arith Lia Bool.
From TLV Require Import Base.Tensor Base.Ops Model.Transforms Model.TransformsPfHeap.
Import ListNotations.

Section P.
Context {F : Type} (Op : fops F).

Lemma dec_h_read : forall locs Ls base pre next a ls,
  next = length base + length pre -> (forall l, In l locs -> l < length base) -> length locs <= length Ls ->
  dec_h Op base next locs Ls = (a, ls) ->
  map (fun l => nth l (base ++ pre ++ a) []) ls = decompress_projs Op (map (fun l => nth l base []) locs) Ls /\
  length ls = length locs /\
  (forall k, k < length locs -> match nth k Ls None with
                                | None => nth k ls 0 = nth k locs 0
                                | Some _ => length base <= nth k ls 0
                                end).
Proof.
  induction locs as [|l locs IH]; intros [|L Ls] base pre next a ls Hn Hin Hlen E; simpl in *; try lia.
  - injection E as <- <-. repeat split; auto. intros k Hk. lia.
  - injection E as <- <-. repeat split; auto. intros k Hk. lia.
  - destruct L as [Lm|].
    + destruct (dec_h Op base (S next) locs Ls) as [a1 ls1] eqn:E1. injection E as <- <-.
      destruct (IH Ls base (pre ++ [matmul Op Lm (nth l base [])]) (S next) a1 ls1) as (R1 & R2 & R3); auto.
      * rewrite app_length. simpl. lia.
      * lia.
      * cbn [map decompress_projs]. split; [|split].
        -- f_equal.
           ++ rewrite app_nth2 by lia. rewrite app_nth2 by lia. replace (next - length base - length pre) with 0 by lia. reflexivity.
           ++ rewrite <- R1. apply map_ext. intros x. now rewrite <- !app_assoc.
        -- simpl. now rewrite R2.
        -- intros [|k] Hk; cbn [nth]; [lia|]. apply R3. lia.
    + destruct (dec_h Op base next locs Ls) as [a1 ls1] eqn:E1. injection E as <- <-.
      destruct (IH Ls base pre next a1 ls1) as (R1 & R2 & R3); auto; [lia|].
      cbn [map decompress_projs]. split; [|split].
      * f_equal; [|exact R1]. apply app_nth1. apply Hin. now left.
      * simpl. now rewrite R2.
      * intros [|k] Hk; cbn [nth]; [reflexivity|]. apply R3. lia.
Qed.

Theorem svd_decompress_h_spec (ph : pheap (F:=F)) pl Ls ph' pl' :
  pl < length (p_lst ph) -> (forall l, In l (plst ph pl) -> l < length (p_arr ph)) ->
  svd_decompress_h Op ph pl Ls = Ok (ph', pl') ->
  (exists a, p_arr ph' = p_arr ph ++ a) /\ (exists ls, p_lst ph' = p_lst ph ++ [ls]) /\ pl' = length (p_lst ph) /\
  plst ph' pl = plst ph pl /\ pread ph' pl = pread ph pl /\
  pread ph' pl' = decompress_projs Op (pread ph pl) Ls /\
  length (plst ph' pl') = length (plst ph pl) /\
  (forall k, k < length (plst ph pl) ->
     match nth k Ls None with
     | None => nth k (plst ph' pl') 0 = nth k (plst ph pl) 0            (* the same array as the operand's entry *)
     | Some _ => length (p_arr ph) <= nth k (plst ph' pl') 0            (* a fresh array *)
     end).
Proof.
  intros Hpl Hin. unfold svd_decompress_h. destruct (length (plst ph pl) <=? length Ls) eqn:Hl; [|discriminate]. apply Nat.leb_le in Hl.
  destruct (dec_h Op (p_arr ph) (length (p_arr ph)) (plst ph pl) Ls) as [a ls] eqn:E. intros E2. injection E2 as <- <-.
  destruct (dec_h_read (plst ph pl) Ls (p_arr ph) [] (length (p_arr ph)) a ls) as (R1 & R2 & R3); auto; try (simpl; lia).
  cbn [p_arr p_lst]. split; [eauto|]. split; [eauto|]. split; [reflexivity|].
  assert (E1 : plst (mk_pheap (p_arr ph ++ a) (p_lst ph ++ [ls])) pl = plst ph pl) by (unfold plst; cbn [p_lst]; now apply app_nth1).
  assert (E3 : plst (mk_pheap (p_arr ph ++ a) (p_lst ph ++ [ls])) (length (p_lst ph)) = ls).
  { unfold plst. cbn [p_lst]. rewrite app_nth2 by lia. now rewrite Nat.sub_diag. }
  split; [exact E1|]. split.
  - unfold pread. rewrite E1. apply map_ext_in. intros l Hl'. unfold parr. cbn [p_arr]. apply app_nth1. now apply Hin.
  - unfold pread. rewrite E3. split; [|split; [exact R2|exact R3]].
    unfold parr at 1. cbn [p_arr]. simpl in R1. exact R1.
Qed.
End P.
