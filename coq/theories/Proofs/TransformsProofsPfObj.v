(* C04, round 8: Parafac2Tensor objects on the heap (Model/TransformsPfObj.v): svd_decompress_parafac2_tensor at the level of objects. *)
From Coq Require Import List Arith Lia Bool.
From TLV Require Import Base.Tensor Base.Ops Model.Transforms Model.TransformsApi Model.TransformsPfHeap Model.TransformsPfObj Proofs.TransformsProofsPfHeap.
Import ListNotations.

Section P.
Context {F : Type} (Op : fops F) (close : F -> F -> bool).
Local Notation poheapF := (poheap (F:=F)).

Lemma pread_extend (ph ph' : pheap (F:=F)) pl :
  (exists a, p_arr ph' = p_arr ph ++ a) -> (exists ls, p_lst ph' = p_lst ph ++ ls) ->
  pl < length (p_lst ph) -> (forall l, In l (plst ph pl) -> l < length (p_arr ph)) -> pread ph' pl = pread ph pl.
Proof.
  intros [a Ea] [ls El] Hpl Hin. unfold pread.
  assert (E : plst ph' pl = plst ph pl) by (unfold plst; rewrite El; now apply app_nth1).
  rewrite E. apply map_ext_in. intros l Hl. unfold parr. rewrite Ea. apply app_nth1. now apply Hin.
Qed.
Lemma pcellr_app cells (c : pcell) k : k < length cells -> pcellr (cells ++ [c]) k = pcellr cells k.
Proof. intros H. unfold pcellr. now apply app_nth1. Qed.
Lemma pcellr_last cells (c : pcell) : pcellr (cells ++ [c]) (length cells) = c.
Proof. unfold pcellr. rewrite app_nth2 by lia. now rewrite Nat.sub_diag. Qed.

(* the constructor: a new consistent cell naming the caller's three locations; no existing cell changes *)
Lemma pf2_new_h_spec (h : poheapF) cells wl fl pl cells' o :
  pf2_new_h Op close h cells wl fl pl = Ok (cells', o) ->
  o = length cells /\ cells' = cells ++ [pcellr cells' o] /\
  pc_w (pcellr cells' o) = wl /\ pc_fs (pcellr cells' o) = fl /\ pc_ps (pcellr cells' o) = pl /\
  pobj_read h cells' o = po_read h wl fl pl /\ pobj_consistent Op close h cells' o.
Proof.
  unfold pf2_new_h. destruct (po_read h wl fl pl) as [[w fs] Ps] eqn:Er.
  destruct (pf2_validb Op close (Some w) fs Ps) eqn:Hv; [|discriminate]. intros E. injection E as <- <-.
  rewrite pcellr_last. cbn [pc_w pc_fs pc_ps].
  split; [reflexivity|]. split; [reflexivity|]. split; [reflexivity|]. split; [reflexivity|]. split; [reflexivity|].
  split; [unfold pobj_read; rewrite pcellr_last; cbn [pc_w pc_fs pc_ps]; exact Er|].
  unfold pobj_consistent, pobj_read. rewrite pcellr_last. cbn [pc_w pc_fs pc_ps pc_shape pc_rank]. rewrite Er. auto.
Qed.

(* svd_decompress_parafac2_tensor on an OBJECT operand: the weights and factor tables are not touched and the projection tables only
   grow; no existing cell changes and every existing object (the operand included) holds what it held; the result is a NEW consistent
   object that names the operand's own weights array and factor tuple, a new projection list, and holds the pure model's answer *)
Theorem svd_decompress_obj_spec (h : poheapF) cells o Ls h' cells' o' :
  o < length cells -> pcell_wf h (pcellr cells o) ->
  svd_decompress_obj_h Op close h cells o Ls = Ok (h', cells', o') ->
  po_w h' = po_w h /\ po_fs h' = po_fs h /\
  (exists a, p_arr (po_ph h') = p_arr (po_ph h) ++ a) /\ (exists ls, p_lst (po_ph h') = p_lst (po_ph h) ++ [ls]) /\
  o' = length cells /\ (forall k, k < length cells -> pcellr cells' k = pcellr cells k) /\
  (forall k, k < length cells -> pcell_wf h (pcellr cells k) -> pobj_read h' cells' k = pobj_read h cells k) /\
  pc_w (pcellr cells' o') = pc_w (pcellr cells o) /\ pc_fs (pcellr cells' o') = pc_fs (pcellr cells o) /\
  pc_ps (pcellr cells' o') = length (p_lst (po_ph h)) /\
  (let '(w, fs, Ps) := pobj_read h cells o in pobj_read h' cells' o' = (w, fs, decompress_projs Op Ps Ls)) /\
  pobj_consistent Op close h' cells' o'.
Proof.
  intros Ho [Hpl Hin]. unfold svd_decompress_obj_h.
  destruct (svd_decompress_h Op (po_ph h) (pc_ps (pcellr cells o)) Ls) as [[ph' pl']|] eqn:Ed; [|discriminate].
  destruct (pf2_new_h Op close _ cells _ _ pl') as [[cs oo]|] eqn:En; [|discriminate].
  intros E. injection E as <- <- <-.
  destruct (svd_decompress_h_spec Op (po_ph h) _ Ls ph' pl' Hpl Hin Ed) as (Ha & Hl & Epl & _ & _ & Rnew & _ & _).
  destruct (pf2_new_h_spec _ cells _ _ _ _ _ En) as (Eo & Ecs & Ew & Ef & Ep & Rd & Cons).
  cbn [po_w po_fs po_ph]. split; [reflexivity|]. split; [reflexivity|]. split; [exact Ha|]. split; [exact Hl|]. split; [exact Eo|].
  assert (Hcell : forall k, k < length cells -> pcellr cs k = pcellr cells k) by (intros k Hk; rewrite Ecs; now apply pcellr_app).
  split; [exact Hcell|]. split.
  - intros k Hk [Hkl Hkin]. unfold pobj_read. rewrite Hcell by assumption. unfold po_read. cbn [po_w po_fs po_ph]. f_equal.
    destruct Hl as [ls El]. apply pread_extend; eauto.
  - split; [exact Ew|]. split; [exact Ef|]. split; [rewrite Ep; exact Epl|]. split; [|exact Cons].
    unfold pobj_read at 1. unfold po_read at 1. rewrite Rd. unfold po_read. cbn [po_w po_fs po_ph]. now rewrite Rnew.
Qed.

(* the object form agrees with the value-level entry point svd_decompress_api of Model/TransformsApi.v on what the result holds and caches *)
Corollary svd_decompress_obj_api (h : poheapF) cells o Ls h' cells' o' :
  o < length cells -> pcell_wf h (pcellr cells o) ->
  svd_decompress_obj_h Op close h cells o Ls = Ok (h', cells', o') ->
  let '(w, fs, Ps) := pobj_read h cells o in
  svd_decompress_api Op close (Pf2Tuple (Some w) fs Ps) Ls =
    Ok (let '(w', fs', Ps') := pobj_read h' cells' o' in mk_pf2obj (pc_shape (pcellr cells' o')) (pc_rank (pcellr cells' o')) w' fs' Ps').
Proof.
  intros Ho Hwf E. pose proof (svd_decompress_obj_spec h cells o Ls h' cells' o' Ho Hwf E) as (_ & _ & _ & _ & _ & _ & _ & _ & _ & _ & Rd & Cons).
  assert (Hlen : length (pread (po_ph h) (pc_ps (pcellr cells o))) <= length Ls).
  { unfold svd_decompress_obj_h, svd_decompress_h in E. unfold pread. rewrite map_length.
    destruct (length (plst (po_ph h) (pc_ps (pcellr cells o))) <=? length Ls) eqn:Hl; [now apply Nat.leb_le|discriminate]. }
  destruct (pobj_read h cells o) as [[w fs] Ps] eqn:Er.
  assert (EPs : Ps = pread (po_ph h) (pc_ps (pcellr cells o))) by (unfold pobj_read, po_read in Er; now injection Er).
  unfold pobj_consistent in Cons. rewrite Rd in *. destruct Cons as (Hv & Hs & Hr).
  unfold svd_decompress_api. cbn [pf2_ps pf2_raw_w pf2_fs]. rewrite EPs.
  apply Nat.leb_le in Hlen. rewrite Hlen. rewrite <- EPs. unfold pf2_new. rewrite Hv. rewrite Hs, Hr. reflexivity.
Qed.
End P.
