(* Field-regime lemmas about Model/Transforms.v over R (normalisation), and the discharge of the
   order-dependent hypotheses of the sign-flip theorem at Z and R. *)
From Coq Require Import List Arith Lia Bool ZArith Reals Lra RealField.
From TLV Require Import Base.Shape Base.PyList Base.Tensor Base.BigSum Base.Ops Model.Transforms Proofs.TransformsProofs.
Import ListNotations.

(* ---------- the two ring instances *)
Lemma Zops_ring : ring_theory (f0 Zops) (f1 Zops) (fadd Zops) (fmul Zops) (fsub Zops) (fopp Zops) (@eq Z).
Proof. exact InitialRing.Zth. Qed.
Lemma Rops_ring : ring_theory (f0 Rops) (f1 Rops) (fadd Rops) (fmul Rops) (fsub Rops) (fopp Rops) (@eq R).
Proof. exact RTheory. Qed.

(* ---------- colsign at Z and R *)
Lemma colsign_Z x : colsign Zops x = if (x <? 0)%Z then (-1)%Z else 1%Z.
Proof.
  unfold colsign, nz1, fsign, fltb, feqb. cbn [fleb f0 f1 fopp Zops].
  destruct (Z.leb_spec 0 x), (Z.leb_spec x 0), (Z.ltb_spec x 0); cbn; try lia; reflexivity.
Qed.
Lemma colsign_sq_Z x : (colsign Zops x * colsign Zops x = 1)%Z.
Proof. rewrite colsign_Z. destruct (x <? 0)%Z; reflexivity. Qed.
Lemma colsign_abs_Z x : (colsign Zops x * fabs Zops x = x)%Z.
Proof.
  rewrite colsign_Z. unfold fabs. cbn [fleb f0 fopp Zops].
  destruct (Z.ltb_spec x 0), (Z.leb_spec 0 x); lia.
Qed.
Lemma fabs_Z x : fabs Zops x = Z.abs x.
Proof. unfold fabs. cbn [fleb f0 fopp Zops]. destruct (Z.leb_spec 0 x); lia. Qed.

Local Open Scope R_scope.
Lemma Rleb_t a b : a <= b -> Rleb a b = true.
Proof. apply Rleb_true. Qed.
Lemma Rleb_f a b : b < a -> Rleb a b = false.
Proof. apply Rleb_false. Qed.
Lemma colsign_R x : colsign Rops x = if Rlt_dec x 0 then - (1) else 1.
Proof.
  unfold colsign, nz1, fsign, fltb, feqb. cbn [fleb f0 f1 fopp Rops].
  destruct (Rlt_dec x 0) as [H|H].
  - rewrite (Rleb_f 0 x) by lra. cbn [negb]. rewrite (Rleb_f 0 (- (1))) by lra. now rewrite andb_false_r.
  - rewrite (Rleb_t 0 x) by lra. cbn [negb]. destruct (Rle_dec x 0) as [H0|H0].
    + rewrite (Rleb_t x 0) by lra. cbn [negb]. rewrite (Rleb_t 0 0) by lra. reflexivity.
    + rewrite (Rleb_f x 0) by lra. cbn [negb]. rewrite (Rleb_f 1 0) by lra. reflexivity.
Qed.
Lemma colsign_sq_R x : colsign Rops x * colsign Rops x = 1.
Proof. rewrite colsign_R. destruct (Rlt_dec x 0); lra. Qed.
Lemma fabs_R x : fabs Rops x = Rabs x.
Proof.
  unfold fabs. cbn [fleb f0 fopp Rops]. unfold Rleb. destruct (Rle_dec 0 x).
  - now rewrite Rabs_pos_eq. - rewrite Rabs_left; lra.
Qed.
Lemma colsign_abs_R x : colsign Rops x * fabs Rops x = x.
Proof.
  rewrite colsign_R, fabs_R. destruct (Rlt_dec x 0).
  - rewrite Rabs_left; lra. - rewrite Rabs_pos_eq; lra.
Qed.
Lemma nz1_R s : nz1 Rops s = if Req_EM_T s 0 then 1 else s.
Proof.
  unfold nz1, feqb. cbn [fleb f0 f1 Rops].
  destruct (Req_EM_T s 0) as [E|E].
  - rewrite E, (Rleb_t 0 0) by lra. reflexivity.
  - destruct (Rle_dec s 0).
    + rewrite (Rleb_f 0 s) by lra. now rewrite andb_false_r.
    + rewrite (Rleb_f s 0) by lra. reflexivity.
Qed.

(* ---------- sums over R *)
Local Notation SumR := (sumn Rops).
Lemma sumR_S n f : SumR (S n) f = SumR n f + f n.
Proof. reflexivity. Qed.
Lemma sumR_nonneg n f : (forall i, (i < n)%nat -> 0 <= f i) -> 0 <= SumR n f.
Proof.
  induction n; intros H; [unfold sumn; simpl; lra|]. rewrite sumR_S.
  assert (0 <= SumR n f) by (apply IHn; auto). specialize (H n ltac:(lia)). lra.
Qed.
Lemma sumR_sq_zero n f : SumR n (fun i => f i * f i) = 0 -> forall i, (i < n)%nat -> f i = 0.
Proof.
  induction n; intros H i Hi; [lia|]. rewrite sumR_S in H.
  assert (0 <= SumR n (fun i => f i * f i)) by (apply sumR_nonneg; intros; nra).
  assert (0 <= f n * f n) by nra.
  destruct (Nat.eq_dec i n) as [->|Hn].
  - assert (E : f n * f n = 0) by lra. apply Rmult_integral in E. tauto.
  - apply IHn; [lra | lia].
Qed.

(* ---------- cp_normalize over R *)
Lemma vget_zipw_div a : forall b r, vget Rops (zipw (fdiv Rops) a b) r = vget Rops a r / vget Rops b r.
Proof.
  unfold zipw. induction a as [|x a IH]; intros [|y b] r; cbn [combine map].
  - rewrite !vget_nil. cbn. lra.
  - rewrite !vget_nil. cbn. unfold Rdiv. lra.
  - rewrite !vget_nil. cbn [f0 Rops]. unfold Rdiv. rewrite Rinv_0. lra.
  - destruct r; [reflexivity|]. exact (IH b r).
Qed.
Lemma mget_div_cols A c i r : mget Rops (div_cols Rops A c) i r = mget Rops A i r / vget Rops c r.
Proof.
  unfold mget, div_cols.
  change (@nil R) with ((fun row => zipw (fdiv Rops) row c) []) at 1.
  rewrite map_nth. apply vget_zipw_div.
Qed.

(* contract of the square-root oracle for one factor: s_r^2 = sum_i A[i][r]^2, s_r >= 0, for every component r < R *)
Definition norms_ok (rk : nat) (sc : list R) (A : mat R) : Prop :=
  length sc = rk /\
  forall r, (r < rk)%nat -> vget Rops sc r * vget Rops sc r = colsumsq Rops A r /\ 0 <= vget Rops sc r.

Lemma zero_norm_zero_col rk sc A r : norms_ok rk sc A -> (r < rk)%nat -> vget Rops sc r = 0 -> forall i, mget Rops A i r = 0.
Proof.
  intros [_ H] Hr Hs i. destruct (H r Hr) as [E _]. rewrite Hs in E. unfold colsumsq in E.
  destruct (lt_dec i (length A)).
  - apply (sumR_sq_zero (length A) (fun i => mget Rops A i r)); auto. cbn [fmul Rops] in E. lra.
  - apply mget_overflow_row. lia.
Qed.

Lemma div_nz1_scale s a : (s = 0 -> a = 0) -> a / nz1 Rops s * s = a.
Proof. intros H. rewrite nz1_R. destruct (Req_EM_T s 0) as [E|E]; [rewrite E, (H E); lra | field; exact E]. Qed.

Lemma vget_map_nz1 sc r : vget Rops sc r <> 0 -> vget Rops (map (nz1 Rops) sc) r = nz1 Rops (vget Rops sc r).
Proof.
  intros H. apply vget_map. destruct (lt_dec r (length sc)); auto.
  exfalso. apply H. apply vget_overflow. lia.
Qed.

(* per-component invariant of the normalisation loop *)
Lemma norm_loop_term rk r : (r < rk)%nat -> forall fs tape w idx,
  Forall2 (norms_ok rk) tape fs -> length idx = length fs ->
  vget Rops (fst (norm_loop Rops tape fs w)) r * cp_term Rops (snd (norm_loop Rops tape fs w)) idx r
  = vget Rops w r * cp_term Rops fs idx r.
Proof.
  intros Hr. induction fs as [|A fs IH]; intros tape w idx H Hl.
  - destruct tape; reflexivity.
  - inversion H as [|sc ? tape' ? Hn Hrest]; subst. destruct idx as [|i idx]; [discriminate|]. injection Hl as Hl.
    cbn [norm_loop]. specialize (IH tape' (zipw (fmul Rops) w sc) idx Hrest Hl).
    destruct (norm_loop Rops tape' fs (zipw (fmul Rops) w sc)) as [wf out]. cbn [fst snd] in *. cbn [cp_term].
    rewrite (vget_zipw_mul Rops Rops_ring) in IH. cbn [fmul Rops] in *. rewrite mget_div_cols.
    destruct (Req_EM_T (vget Rops sc r) 0) as [Z|NZ].
    + rewrite (zero_norm_zero_col rk sc A r Hn Hr Z). rewrite Z in IH.
      replace (vget Rops wf r * (0 / vget Rops (map (nz1 Rops) sc) r * cp_term Rops out idx r)) with 0 by (unfold Rdiv; ring).
      ring.
    + rewrite vget_map_nz1 by exact NZ. rewrite nz1_R. destruct (Req_EM_T (vget Rops sc r) 0); [contradiction|].
      replace (vget Rops wf r * (mget Rops A i r / vget Rops sc r * cp_term Rops out idx r))
        with (mget Rops A i r / vget Rops sc r * (vget Rops wf r * cp_term Rops out idx r)) by ring.
      rewrite IH. field. exact NZ.
Qed.

Lemma vget_ones n r : (r < n)%nat -> vget Rops (ones Rops n) r = 1.
Proof.
  intros. unfold vget, ones. rewrite nth_indep with (d' := f1 Rops) by (now rewrite repeat_length). apply nth_repeat.
Qed.
Lemma length_zipw {A} (f : A -> A -> A) a b : length (zipw f a b) = Nat.min (length a) (length b).
Proof. unfold zipw. now rewrite map_length, combine_length. Qed.
Lemma norm_loop_wlen rk : forall fs tape w, Forall2 (norms_ok rk) tape fs -> length w = rk ->
  length (fst (norm_loop Rops tape fs w)) = rk.
Proof.
  induction fs as [|A fs IH]; intros tape w H Hw.
  - destruct tape; exact Hw.
  - inversion H as [|sc ? tape' ? Hn Hrest]; subst. cbn [norm_loop].
    specialize (IH tape' (zipw (fmul Rops) w sc) Hrest).
    destruct (norm_loop Rops tape' fs (zipw (fmul Rops) w sc)) as [wf out]. cbn [fst] in *.
    apply IH. rewrite length_zipw. destruct Hn as [Hlen _]. lia.
Qed.

(* normalisation preserves every entry of the represented tensor *)
Theorem cp_normalize_entry tape w fs w' fs' idx :
  cp_normalize Rops tape w fs = (w', fs') ->
  Forall2 (norms_ok (length w)) tape (norm_inputs Rops w fs) ->
  length idx = length fs -> fs <> [] ->
  cp_entry Rops w' fs' idx = cp_entry Rops w fs idx.
Proof.
  unfold cp_normalize. intros E H Hl Hne.
  assert (Lo : length (ones Rops (length w)) = length w) by apply repeat_length.
  pose proof (norm_loop_wlen _ _ _ _ H Lo) as Lw. rewrite E in Lw. cbn [fst] in Lw.
  unfold cp_entry. rewrite Lw. apply bigsum_ext. intros r Hr.
  assert (Hl' : length idx = length (norm_inputs Rops w fs)).
  { destruct fs; [contradiction|]. exact Hl. }
  pose proof (norm_loop_term _ r Hr _ _ (ones Rops (length w)) idx H Hl') as T.
  rewrite E in T. cbn [fst snd] in T. cbn [fmul Rops]. rewrite T, vget_ones by exact Hr.
  destruct fs as [|A0 rest]; [contradiction|]. destruct idx as [|i idx]; [discriminate|].
  cbn [norm_inputs cp_term]. rewrite (mget_scale_cols Rops Rops_ring). cbn [fmul Rops]. ring.
Qed.

(* canonical form: unit columns (zero columns stay zero), non-negative weights, weight 0 for a zero column *)
Definition unit_or_zero (rk : nat) (sc : list R) (A' : mat R) : Prop :=
  forall r, (r < rk)%nat -> (vget Rops sc r <> 0 -> colsumsq Rops A' r = 1) /\
                          (vget Rops sc r = 0 -> forall i, mget Rops A' i r = 0).
Lemma div_cols_unit rk sc A : norms_ok rk sc A -> unit_or_zero rk sc (div_cols Rops A (map (nz1 Rops) sc)).
Proof.
  intros Hn r Hr. split.
  - intros NZ. unfold colsumsq, div_cols. rewrite map_length. fold (div_cols Rops A (map (nz1 Rops) sc)).
    destruct Hn as [_ Hn]. destruct (Hn r Hr) as [E _]. unfold colsumsq in E. cbn [fmul Rops] in *.
    rewrite (sumn_ext Rops _ _ (fun i => (mget Rops A i r * mget Rops A i r) * (/ vget Rops sc r * / vget Rops sc r))).
    2:{ intros i _. rewrite mget_div_cols, vget_map_nz1 by exact NZ. rewrite nz1_R.
        destruct (Req_EM_T (vget Rops sc r) 0); [contradiction|]. unfold Rdiv. ring. }
    pose proof (sumn_scale_r Rops Rops_ring (length A) (/ vget Rops sc r * / vget Rops sc r)
                  (fun i => mget Rops A i r * mget Rops A i r)) as S.
    cbn [fmul Rops] in S. rewrite S, <- E. field. exact NZ.
  - intros Z i. rewrite mget_div_cols, (zero_norm_zero_col rk sc A r Hn Hr Z). unfold Rdiv. ring.
Qed.
Lemma norm_loop_unit rk : forall fs tape w, Forall2 (norms_ok rk) tape fs ->
  Forall2 (unit_or_zero rk) tape (snd (norm_loop Rops tape fs w)).
Proof.
  induction fs as [|A fs IH]; intros tape w H.
  - inversion H; subst. constructor.
  - inversion H as [|sc ? tape' ? Hn Hrest]; subst. cbn [norm_loop].
    specialize (IH tape' (zipw (fmul Rops) w sc) Hrest).
    destruct (norm_loop Rops tape' fs (zipw (fmul Rops) w sc)) as [wf out]. cbn [snd] in *.
    constructor; [now apply div_cols_unit | exact IH].
Qed.
Lemma norm_loop_weights rk r : (r < rk)%nat -> forall fs tape w, Forall2 (norms_ok rk) tape fs ->
  (0 <= vget Rops w r -> 0 <= vget Rops (fst (norm_loop Rops tape fs w)) r) /\
  (vget Rops w r = 0 \/ Exists (fun sc => vget Rops sc r = 0) tape -> vget Rops (fst (norm_loop Rops tape fs w)) r = 0).
Proof.
  intros Hr. induction fs as [|A fs IH]; intros tape w H.
  - inversion H; subst. cbn. split; auto. intros [E|E]; [exact E | inversion E].
  - inversion H as [|sc ? tape' ? Hn Hrest]; subst. cbn [norm_loop].
    specialize (IH tape' (zipw (fmul Rops) w sc) Hrest).
    destruct (norm_loop Rops tape' fs (zipw (fmul Rops) w sc)) as [wf out]. cbn [fst] in *.
    rewrite (vget_zipw_mul Rops Rops_ring) in IH. cbn [fmul Rops] in IH. destruct IH as [IH1 IH2].
    destruct Hn as [_ Hn]. destruct (Hn r Hr) as [_ Hs]. split.
    + intros Hw. apply IH1. nra.
    + intros [E|E]; apply IH2.
      * left. rewrite E. ring.
      * inversion E as [? ? E0|? ? E1]; subst; [left; rewrite E0; ring | right; exact E1].
Qed.
Theorem cp_normalize_canonical tape w fs w' fs' :
  cp_normalize Rops tape w fs = (w', fs') ->
  Forall2 (norms_ok (length w)) tape (norm_inputs Rops w fs) ->
  Forall2 (unit_or_zero (length w)) tape fs' /\
  forall r, (r < length w)%nat -> 0 <= vget Rops w' r /\ (Exists (fun sc => vget Rops sc r = 0) tape -> vget Rops w' r = 0).
Proof.
  unfold cp_normalize. intros E H. split.
  - pose proof (norm_loop_unit _ _ _ (ones Rops (length w)) H) as U. now rewrite E in U.
  - intros r Hr. pose proof (norm_loop_weights _ r Hr _ _ (ones Rops (length w)) H) as [W1 W2].
    rewrite E in W1, W2. cbn [fst] in W1, W2. split.
    + apply W1. rewrite vget_ones by exact Hr. lra.
    + intros X. apply W2. now right.
Qed.
