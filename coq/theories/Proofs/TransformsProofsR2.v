(* Field-regime lemmas over R: tucker_normalize and parafac2_normalise (square roots are data with the contract norms_ok). *)
From Coq Require Import List Arith Lia Bool ZArith Reals Lra RealField.
From TLV Require Import Base.Shape Base.PyList Base.Tensor Base.BigSum Base.Ops Model.Transforms Proofs.TransformsProofs Proofs.TransformsProofsR.
From TLV Require Import Proofs.TransformsProofsTucker Proofs.TransformsProofsPf2.
Import ListNotations.
Local Open Scope R_scope.
Local Notation SumR := (sumn Rops).

(* ---------- tucker_normalize over R *)
(* contract of the square-root tape: tape_k holds the column norms of factor k (core.shape[k] columns) *)
Fixpoint tk_norms_ok (sh : list nat) (tape : list (list R)) (fs : list (mat R)) : Prop :=
  match sh, tape, fs with
  | [], [], [] => True
  | n :: sh', sc :: t', A :: fs' => norms_ok n sc A /\ tk_norms_ok sh' t' fs'
  | _, _, _ => False
  end.
Lemma tk_norms_ok_len : forall sh tape fs, tk_norms_ok sh tape fs -> length tape = length sh /\ length fs = length sh.
Proof.
  induction sh; intros [|sc t] [|A fs] H; simpl in H; try contradiction; auto.
  destruct H as [_ H]. destruct (IHsh _ _ H). simpl. lia.
Qed.
Lemma div_all_length : forall (fs : list (mat R)) tape, length tape = length fs -> length (div_all Rops fs tape) = length fs.
Proof. induction fs; intros [|sc t] H; simpl in *; try lia. f_equal. apply IHfs. lia. Qed.

Lemma tk_normalize_sum : forall sh fs tape idx (g : list nat -> R), tk_norms_ok sh tape fs ->
  tk_sum Rops sh (div_all Rops fs tape) idx (fun js => g js * scal Rops tape js) = tk_sum Rops sh fs idx g.
Proof.
  induction sh as [|n sh IH]; intros [|A fs'] [|sc tape] idx g H; simpl in H; try contradiction.
  - cbn. lra.
  - destruct H as [Hn Hrest]. cbn [div_all]. destruct idx as [|i idx]; cbn [tk_sum scal].
    + cbn. lra.
    + apply (sumn_ext Rops). intros j Hj. cbn [fmul Rops].
      rewrite (tk_ext_all Rops _ _ _ _ (fun js => vget Rops sc j * (g (j :: js) * scal Rops tape js))).
      2:{ intros js. cbn [fmul Rops]. ring. }
      pose proof (tk_scale Rops Rops_ring (vget Rops sc j) sh (div_all Rops fs' tape) idx (fun js => g (j :: js) * scal Rops tape js)) as S.
      cbn [fmul Rops] in S. rewrite S. rewrite (IH fs' tape idx (fun js => g (j :: js)) Hrest).
      rewrite mget_div_cols.
      replace (mget Rops A i j / vget Rops (map (nz1 Rops) sc) j * (vget Rops sc j * tk_sum Rops sh fs' idx (fun js => g (j :: js))))
        with ((mget Rops A i j / vget Rops (map (nz1 Rops) sc) j * vget Rops sc j) * tk_sum Rops sh fs' idx (fun js => g (j :: js))) by ring.
      f_equal. destruct (Req_EM_T (vget Rops sc j) 0) as [Z|NZ].
      * rewrite Z, (zero_norm_zero_col n sc A j Hn Hj Z). unfold Rdiv. ring.
      * rewrite vget_map_nz1 by exact NZ. apply div_nz1_scale. intros; contradiction.
Qed.

Theorem tucker_normalize_entry tape core fs core' fs' idx :
  tucker_normalize Rops tape core fs = (core', fs') -> tk_norms_ok (shape core) tape fs ->
  length idx = length fs ->
  tucker_entry Rops core' fs' idx = tucker_entry Rops core fs idx.
Proof.
  unfold tucker_normalize. intros E H Hi. injection E as <- <-. destruct (tk_norms_ok_len _ _ _ H) as [Lt Lf].
  rewrite tucker_entry_tabulate by (rewrite ?div_all_length; lia).
  unfold tucker_entry. apply (tk_normalize_sum (shape core) fs tape idx (tget Rops core) H).
Qed.

(* canonical form: unit columns (zero columns stay zero, and the core slice of a zero column is zero) *)
Fixpoint tk_units (sh : list nat) (tape : list (list R)) (fs' : list (mat R)) : Prop :=
  match sh, tape, fs' with
  | [], [], [] => True
  | n :: sh', sc :: t', A :: fs'' => unit_or_zero n sc A /\ tk_units sh' t' fs''
  | _, _, _ => False
  end.
Lemma div_all_units : forall sh tape fs, tk_norms_ok sh tape fs -> tk_units sh tape (div_all Rops fs tape).
Proof.
  induction sh; intros [|sc t] [|A fs] H; simpl in H; try contradiction; [exact I|].
  destruct H as [Hn H]. cbn [div_all tk_units]. split; [now apply div_cols_unit | now apply IHsh].
Qed.
Lemma scal_zero : forall tape js k, (k < length tape)%nat -> (k < length js)%nat ->
  vget Rops (nth k tape []) (nth k js 0%nat) = 0 -> scal Rops tape js = 0.
Proof.
  induction tape as [|sc t IH]; intros [|j js] k Hk Hj H; simpl in Hk, Hj; try lia.
  destruct k; cbn [scal nth fmul Rops] in *.
  - rewrite H. ring.
  - rewrite (IH js k) by (auto; lia). ring.
Qed.
Theorem tucker_normalize_canonical tape core fs core' fs' :
  tucker_normalize Rops tape core fs = (core', fs') -> tk_norms_ok (shape core) tape fs ->
  shape core' = shape core /\ tk_units (shape core) tape fs' /\
  forall js k, inb (shape core) js -> (k < length (shape core))%nat ->
    vget Rops (nth k tape []) (nth k js 0%nat) = 0 -> tget Rops core' js = 0.
Proof.
  unfold tucker_normalize. intros E H. injection E as <- <-. destruct (tk_norms_ok_len _ _ _ H) as [Lt Lf].
  split; [reflexivity|]. split; [now apply div_all_units|].
  intros js k Hjs Hk Hz. unfold tget at 1. rewrite get_tabulate by exact Hjs.
  rewrite (scal_zero tape js k); [cbn; ring | lia | rewrite (inb_length _ _ Hjs); lia | exact Hz].
Qed.

(* ---------- parafac2_normalise over R *)
Theorem parafac2_normalise_entry tape w A B C Ps w' A' B' C' Ps' i j k :
  parafac2_normalise Rops tape w A B C Ps = (w', [A'; B'; C'], Ps') ->
  Forall2 (norms_ok (length w)) tape (norm_inputs Rops w [A; B; C]) ->
  pf2_entry Rops w' A' B' C' Ps' i j k = pf2_entry Rops w A B C Ps i j k.
Proof.
  unfold parafac2_normalise. intros E H. injection E as E <-.
  assert (LB : length B' = length B).
  { unfold cp_normalize in E. cbn [norm_inputs] in *.
    inversion H as [|s0 ? t0 ? _ H1]; subst. inversion H1 as [|s1 ? t1 ? _ H2]; subst. inversion H2 as [|s2 ? t2 ? _ H3]; subst.
    inversion H3; subst. cbn [norm_loop] in E. injection E as _ _ <- _. apply map_length. }
  unfold pf2_entry. rewrite LB. apply (sumn_ext Rops). intros s _. f_equal.
  apply (cp_normalize_entry tape w [A; B; C] w' [A'; B'; C'] [i; s; k] E H); [reflexivity | discriminate].
Qed.
Theorem parafac2_normalise_canonical tape w A B C Ps w' fs' Ps' :
  parafac2_normalise Rops tape w A B C Ps = (w', fs', Ps') ->
  Forall2 (norms_ok (length w)) tape (norm_inputs Rops w [A; B; C]) ->
  Ps' = Ps /\ Forall2 (unit_or_zero (length w)) tape fs' /\
  forall r, (r < length w)%nat -> 0 <= vget Rops w' r /\ (Exists (fun sc => vget Rops sc r = 0) tape -> vget Rops w' r = 0).
Proof.
  unfold parafac2_normalise. intros E H. injection E as E <-. split; [reflexivity|].
  exact (cp_normalize_canonical tape w [A; B; C] w' fs' E H).
Qed.
