(* Compress -> fit -> decompress over a whole list of slices of mixed heights (Model/TransformsRT.v). *)
From Coq Require Import List Arith Lia Bool Ring.
From TLV Require Import Base.Shape Base.PyList Base.Tensor Base.BigSum Base.Ops Model.Transforms Model.TransformsRT
  Proofs.TransformsProofs Proofs.TransformsProofsPf2.
Import ListNotations.

Section P.
Context {F : Type} (Op : fops F).
Hypothesis Rth : ring_theory (f0 Op) (f1 Op) (fadd Op) (fmul Op) (fsub Op) (fopp Op) (@eq F).
Local Notation Sum := (sumn Op).

Lemma svd_compress_nth slices thr mr tapes i d :
  length tapes = length slices -> i < length slices ->
  nth i (svd_compress Op slices thr mr tapes) d =
  compress_slice Op (rank_limit slices mr) thr (nth i slices []) (nth i tapes ([], [], [])).
Proof.
  intros Hl Hi. unfold svd_compress, rank_limit.
  set (f := fun p : mat F * (mat F * list F * mat F) => compress_slice Op _ thr (fst p) (snd p)).
  rewrite (nth_indep _ d (f ([], ([], [], [])))) by (rewrite map_length, combine_length; lia).
  rewrite map_nth. rewrite combine_nth by (symmetry; exact Hl). reflexivity.
Qed.
Lemma svd_compress_length slices thr mr tapes : length tapes = length slices -> length (svd_compress Op slices thr mr tapes) = length slices.
Proof. intros Hl. unfold svd_compress. rewrite map_length, combine_length. lia. Qed.

(* slices of any heights, in any order: slice i of the decompressed tensor is slice i of the data, whether it was compressed or
   passed through (the fitted tensor represents score i exactly; for a compressed slice every singular value was kept and the
   SVD answer satisfies its contract) *)
Theorem compress_decompress_list slices thr mr tapes w A B C Qs w' A' B' C' Ps' i j k :
  length tapes = length slices ->
  compress_then_decompress Op slices thr mr tapes w A B C Qs = Ok (w', [A'; B'; C'], Ps') ->
  i < length slices -> i < length Qs ->
  let X := nth i slices [] in
  let usv := nth i tapes ([], [], []) in
  let sl := compress_slice Op (rank_limit slices mr) thr X usv in
  (forall t, t < length (fst sl) -> pf2_entry Op w A B C Qs i t k = mget Op (fst sl) t k) ->
  match snd sl with
  | None => j < length X
  | Some _ =>
      let '(U, s, Vh) := usv in
      count_kept Op thr s = length s /\ length Vh = length s /\ rectb (length s) U = true /\
      mget Op X j k = Sum (length s) (fun t => fmul Op (mget Op U j t) (fmul Op (vget Op s t) (mget Op Vh t k))) /\
      length (nth i Qs []) = length (fst sl) /\ length B <= ncols (nth i Qs []) /\ j < length U /\ k < ncols (fst sl)
  end ->
  pf2_entry Op w' A' B' C' Ps' i j k = mget Op X j k.
Proof.
  intros Hl E Hi HiQ X usv sl Hfit Hside. unfold compress_then_decompress in E.
  assert (Hn : nth i (map snd (svd_compress Op slices thr mr tapes)) None = snd sl).
  { rewrite (nth_indep _ None (snd (@nil (list F), @None (mat F)))) by (rewrite map_length, svd_compress_length; assumption).
    rewrite map_nth. rewrite svd_compress_nth by assumption. reflexivity. }
  destruct usv as [[U s] Vh] eqn:Eu.
  destruct sl as [score L] eqn:Es. cbn [fst snd] in *.
  destruct L as [Lm|].
  - destruct Hside as (Hc & Hv & Hu & HX & Hlen & HB & Hj & Hk).
    eapply (compress_decompress_roundtrip Op Rth); eauto.
  - pose proof (svd_decompress_entry Op Rth w A B C Qs _ w' A' B' C' Ps' i j k E HiQ) as D. rewrite Hn in D.
    rewrite D. pose proof (compress_slice_entry Op Rth _ thr X U s Vh score None Es) as Cc. cbv beta iota in Cc. subst score.
    apply Hfit. exact Hside.
Qed.
End P.

Section Flags.
Context {F : Type} (Op : fops F).
(* which slices are compressed: exactly those with more than rank_limit rows, or all of them under a non-zero threshold; one
   (score, loading) pair per slice *)
Theorem compressed_flags_spec slices thr mr tapes i :
  length tapes = length slices -> i < length slices ->
  length (compressed_flags Op slices thr mr tapes) = length slices /\
  nth i (compressed_flags Op slices thr mr tapes) false = negb ((length (nth i slices []) <=? rank_limit slices mr) && feqb Op thr (f0 Op)).
Proof.
  intros Hl Hi. unfold compressed_flags. split; [now rewrite map_length, svd_compress_length|].
  set (g := fun p : mat F * option (mat F) => match snd p with Some _ => true | None => false end).
  rewrite (nth_indep _ false (g ([], None))) by (now rewrite map_length, svd_compress_length).
  rewrite map_nth. rewrite svd_compress_nth by assumption. unfold g, compress_slice.
  destruct ((length (nth i slices []) <=? rank_limit slices mr) && feqb Op thr (f0 Op)); [reflexivity|].
  destruct (nth i tapes ([], [], [])) as [[U s] Vh]. reflexivity.
Qed.
End Flags.
