(* Ring-regime lemmas about pad_tt_rank (Model/Transforms.v): tensor-train / tensor-ring chains of any length. *)
From Coq Require Import List Arith Lia Bool Ring.
From TLV Require Import Base.Shape Base.PyList Base.Tensor Base.BigSum Base.Ops Model.Transforms Proofs.TransformsProofs.
Import ListNotations.

Section P.
Context {F : Type} (Op : fops F).
Hypothesis Rth : ring_theory (f0 Op) (f1 Op) (fadd Op) (fmul Op) (fsub Op) (fopp Op) (@eq F).
Add Ring Fr2 : Rth.
Local Notation fz := (f0 Op).
Local Notation fone := (f1 Op).
Local Notation "a *f b" := (fmul Op a b) (at level 40, left associativity).
Local Notation "a +f b" := (fadd Op a b) (at level 50, left associativity).
Local Notation Sum := (sumn Op).

(* a well-formed chain: cores of order >= 2 with matching bond dimensions *)
Fixpoint chain_ok (r : nat) (cores : list (tensor F)) : Prop :=
  match cores with
  | [] => True
  | G :: gs => iscore G = true /\ core_r1 G = r /\ chain_ok (core_r2 G) gs
  end.
Definition last_r2 (r : nat) (cores : list (tensor F)) : nat := fold_left (fun (_ : nat) (G : tensor F) => core_r2 G) cores r.
(* one multi-index per core, inside the middle modes of that core *)
Fixpoint mids_ok (cores : list (tensor F)) (idx : list (list nat)) : Prop :=
  match cores, idx with
  | [], [] => True
  | G :: gs, js :: rest => inb (core_mid G) js /\ mids_ok gs rest
  | _, _ => False
  end.

Lemma iscore_shape (G : tensor F) : iscore G = true -> shape G = core_r1 G :: core_mid G ++ [core_r2 G].
Proof.
  unfold iscore, core_r1, core_mid, core_r2. intros H. apply andb_true_iff in H. destruct H as [H _]. apply Nat.leb_le in H.
  destruct (shape G) as [|a l]; [simpl in H; lia|]. destruct l as [|b l]; [simpl in H; lia|].
  cbn [hd tl]. f_equal. change (last (a :: b :: l) 0) with (last (b :: l) 0).
  apply app_removelast_last. discriminate.
Qed.
Lemma last_cons_app {A} (a : A) l c d : last (a :: l ++ [c]) d = c.
Proof. change (a :: l ++ [c]) with ((a :: l) ++ [c]). apply last_last. Qed.

Lemma tget_pad_core l r G a js c : iscore G = true -> a < core_r1 G + l -> inb (core_mid G) js -> c < core_r2 G + r ->
  tget Op (pad_core Op l r G) (a :: js ++ [c]) =
  if (a <? core_r1 G) && (c <? core_r2 G) then tget Op G (a :: js ++ [c]) else fz.
Proof.
  intros H Ha Hj Hc. unfold tget at 1, pad_core. rewrite get_tabulate.
  - cbn [hd]. now rewrite last_cons_app.
  - cbn [inb]. split; [exact Ha|]. apply inb_app; [exact Hj|]. simpl. auto.
Qed.
Lemma pad_core_shape l r G : shape (pad_core Op l r G) = core_r1 G + l :: core_mid G ++ [core_r2 G + r].
Proof. reflexivity. Qed.
Lemma pad_core_r2 l r G : core_r2 (pad_core Op l r G) = core_r2 G + r.
Proof. unfold core_r2 at 1. rewrite pad_core_shape. apply last_cons_app. Qed.
Lemma pad_core_r1 l r G : core_r1 (pad_core Op l r G) = core_r1 G + l.
Proof. reflexivity. Qed.
Lemma pad_core_mid l r G : core_mid (pad_core Op l r G) = core_mid G.
Proof. unfold core_mid at 1. rewrite pad_core_shape. cbn [tl]. apply removelast_last. Qed.

(* cores padded by arbitrary amounts (lp_k, rp_k) *)
Definition pad_with (pads : list (nat * nat)) (cores : list (tensor F)) : list (tensor F) :=
  map (fun pg => pad_core Op (fst (fst pg)) (snd (fst pg)) (snd pg)) (combine pads cores).

Lemma delta_sum n (f : nat -> F) b : b < n -> Sum n (fun c => f c *f delta Op c b) = f b.
Proof.
  intros Hb. rewrite (sumn_single Op Rth n b).
  - unfold delta. rewrite Nat.eqb_refl. ring.
  - exact Hb.
  - intros i _ Hi. unfold delta. destruct (Nat.eqb_spec i b); [contradiction | ring].
Qed.
Lemma delta_sum_out n (f : nat -> F) b : n <= b -> Sum n (fun c => f c *f delta Op c b) = fz.
Proof.
  intros Hb. apply (sumn_zero Op Rth). intros i Hi. unfold delta. destruct (Nat.eqb_spec i b); [lia | ring].
Qed.

(* the padded chain is the original one inside the old bond ranges and zero outside *)
Lemma tt_chain_pad : forall cores pads idx r a b,
  cores <> [] -> chain_ok r cores -> length pads = length cores -> mids_ok cores idx ->
  a < r + fst (hd (0, 0) pads) -> b < last_r2 r cores + snd (last pads (0, 0)) ->
  tt_chain Op (pad_with pads cores) idx a b =
  if (a <? r) && (b <? last_r2 r cores) then tt_chain Op cores idx a b else fz.
Proof.
  induction cores as [|G gs IH]; intros pads idx r a b Hne Hok Hlen Hin Ha Hb; [contradiction|].
  destruct pads as [|[lp rp] pads]; [discriminate|]. injection Hlen as Hlen.
  destruct idx as [|j js]; [contradiction|]. cbn [mids_ok] in Hin. destruct Hin as [Hj Hin].
  cbn [chain_ok] in Hok. destruct Hok as (H3 & Hr1 & Hok). cbn [hd fst] in Ha.
  unfold pad_with. cbn [combine map fst snd tt_chain]. fold (pad_with pads gs).
  rewrite pad_core_r2. cbn [last_r2 fold_left] in *. fold (last_r2 (core_r2 G) gs) in *.
  destruct gs as [|G2 gs2].
  - (* G is the last core *)
    destruct pads; [|discriminate]. cbn [last snd] in Hb. cbn [fold_left last_r2] in *. unfold last_r2 in *. cbn [fold_left] in *.
    cbn [pad_with combine map tt_chain].
    rewrite delta_sum by exact Hb. rewrite tget_pad_core by (auto; lia). rewrite Hr1.
    destruct (a <? r) eqn:Ea; destruct (b <? core_r2 G) eqn:Eb; cbn [andb]; auto.
    + apply Nat.ltb_lt in Eb. now rewrite delta_sum.
  - assert (Hb' : b < last_r2 (core_r2 G) (G2 :: gs2) + snd (last pads (0, 0))).
    { destruct pads as [|p0 pads']; [discriminate|]. exact Hb. }
    rewrite (sumn_app Op Rth).
    rewrite (sumn_zero Op Rth rp).
    2:{ intros i Hi. rewrite tget_pad_core by (auto; lia).
        replace (core_r2 G + i <? core_r2 G) with false by (symmetry; apply Nat.ltb_ge; lia).
        rewrite andb_false_r. ring. }
    rewrite (sumn_ext Op _ _ (fun c => (if a <? r then tget Op G (a :: j ++ [c]) else fz) *f
                  (if b <? last_r2 (core_r2 G) (G2 :: gs2) then tt_chain Op (G2 :: gs2) js c b else fz))).
    2:{ intros c Hc. rewrite tget_pad_core by (auto; lia). rewrite Hr1.
        replace (c <? core_r2 G) with true by (symmetry; apply Nat.ltb_lt; lia). rewrite andb_true_r.
        rewrite (IH pads js (core_r2 G) c b); auto; try discriminate; try lia.
        replace (c <? core_r2 G) with true by (symmetry; apply Nat.ltb_lt; lia). cbn [andb]. reflexivity. }
    destruct (a <? r); destruct (b <? last_r2 (core_r2 G) (G2 :: gs2)); cbn [andb].
    + ring.
    + rewrite (sumn_zero Op Rth); [ring | intros; ring].
    + rewrite (sumn_zero Op Rth); [ring | intros; ring].
    + rewrite (sumn_zero Op Rth); [ring | intros; ring].
Qed.

(* the padding amounts pad_tt_rank uses for core k of n *)
Definition lpad (n npad : nat) (pb : bool) (k : nat) : nat := if Nat.eqb k 0 && negb pb then 0 else npad.
Definition rpad (n npad : nat) (pb : bool) (k : nat) : nat := if Nat.eqb k (n - 1) && negb pb then 0 else npad.
Lemma pad_from_with n npad pb : forall cores i,
  pad_from Op i n npad pb cores = pad_with (map (fun k => (lpad n npad pb k, rpad n npad pb k)) (seq i (length cores))) cores.
Proof.
  induction cores as [|G gs IH]; intros i; [reflexivity|].
  cbn [pad_from length seq map]. unfold pad_with. cbn [combine map fst snd]. f_equal. apply IH.
Qed.
Lemma last_map_seq {A} (f : nat -> A) d : forall len i, 0 < len -> last (map f (seq i len)) d = f (i + len - 1).
Proof.
  induction len; intros i H; [lia|]. destruct len.
  - simpl. f_equal. lia.
  - change (seq i (S (S len))) with (i :: seq (S i) (S len)). cbn [map]. 
    change (last (f i :: map f (seq (S i) (S len))) d) with (last (map f (seq (S i) (S len))) d).
    rewrite IHlen by lia. f_equal. lia.
Qed.
Lemma pad_tt_chain cores npad pb cores' idx r a b :
  pad_tt_rank Op cores npad pb = Ok cores' -> cores <> [] -> chain_ok r cores -> mids_ok cores idx ->
  a < r + (if pb then npad else 0) -> b < last_r2 r cores + (if pb then npad else 0) ->
  tt_chain Op cores' idx a b = if (a <? r) && (b <? last_r2 r cores) then tt_chain Op cores idx a b else fz.
Proof.
  unfold pad_tt_rank. destruct (forallb iscore cores); [|discriminate]. intros E Hne Hok Hin Ha Hb. injection E as <-.
  rewrite pad_from_with. apply tt_chain_pad; auto.
  - now rewrite map_length, seq_length.
  - destruct cores as [|G gs]; [contradiction|]. cbn [length seq map hd fst]. unfold lpad. cbn. destruct pb; cbn; lia.
  - rewrite last_map_seq by (destruct cores; [contradiction | simpl; lia]). cbn [snd]. unfold rpad.
    replace (0 + length cores - 1) with (length cores - 1) by lia. rewrite Nat.eqb_refl. destruct pb; cbn; lia.
Qed.

(* cores of any order (tensor train, TT-matrix, ...): entry (0,0) of the chain product, and its trace, are unchanged *)
Theorem pad_chain_entry cores npad pb cores' idx r :
  pad_tt_rank Op cores npad pb = Ok cores' -> cores <> [] -> chain_ok r cores -> mids_ok cores idx ->
  0 < r -> 0 < last_r2 r cores ->
  tt_chain Op cores' idx 0 0 = tt_chain Op cores idx 0 0.
Proof.
  intros E Hne Hok Hin Hr Hl. rewrite (pad_tt_chain _ _ _ _ _ r 0 0 E) by (auto; lia).
  replace (0 <? r) with true by (symmetry; apply Nat.ltb_lt; lia).
  replace (0 <? last_r2 r cores) with true by (symmetry; apply Nat.ltb_lt; lia). reflexivity.
Qed.
Theorem pad_chain_trace cores npad pb cores' idx r :
  pad_tt_rank Op cores npad pb = Ok cores' -> cores <> [] -> chain_ok r cores -> mids_ok cores idx ->
  last_r2 r cores = r ->
  Sum (core_r1 (hd (mk [] []) cores')) (fun a => tt_chain Op cores' idx a a) =
  Sum (core_r1 (hd (mk [] []) cores)) (fun a => tt_chain Op cores idx a a).
Proof.
  intros E Hne Hok Hin Hl.
  assert (R1 : core_r1 (hd (mk [] []) cores') = r + (if pb then npad else 0)).
  { unfold pad_tt_rank in E. destruct (forallb iscore cores); [|discriminate]. injection E as <-.
    destruct cores as [|G gs]; [contradiction|]. cbn [pad_from hd]. rewrite pad_core_r1. destruct Hok as (_ & Hr1 & _).
    rewrite Hr1. destruct pb; cbn; lia. }
  assert (R0 : core_r1 (hd (mk [] []) cores) = r).
  { destruct cores as [|G gs]; [contradiction|]. destruct Hok as (_ & Hr1 & _). exact Hr1. }
  rewrite R1, R0. rewrite (sumn_app Op Rth).
  rewrite (sumn_zero Op Rth (if pb then npad else 0)).
  2:{ intros i Hi. rewrite (pad_tt_chain _ _ _ _ _ r _ _ E) by (auto; lia).
      replace (r + i <? r) with false by (symmetry; apply Nat.ltb_ge; lia). reflexivity. }
  rewrite (sumn_ext Op _ _ (fun a => tt_chain Op cores idx a a)); [ring|].
  intros a Ha. rewrite (pad_tt_chain _ _ _ _ _ r _ _ E) by (auto; lia). rewrite Hl.
  replace (a <? r) with true by (symmetry; apply Nat.ltb_lt; lia). reflexivity.
Qed.

(* order-3 cores: the dense tensor of a tensor train / ring, one index per core *)
Definition order3 (cores : list (tensor F)) : Prop := Forall (fun G => length (shape G) = 3) cores.
Lemma single_mids_ok : forall cores idx, order3 cores -> inb (tt_shape cores) idx -> mids_ok cores (single idx).
Proof.
  induction cores as [|G gs IH]; intros [|j js] H3 Hin; cbn [tt_shape map inb single mids_ok] in *; try contradiction; auto.
  inversion H3 as [|? ? HG Hgs]; subst. destruct Hin as [Hj Hin]. split; [|apply IH; auto].
  unfold core_mid. unfold core_n in Hj. destruct (shape G) as [|a [|n [|c [|]]]]; simpl in HG; try discriminate.
  simpl in *. auto.
Qed.
(* pad_tt_rank leaves every entry of the represented tensor unchanged: tensor train (boundary ranks r >= 1) ... *)
Theorem pad_tt_entry cores npad pb cores' idx r :
  pad_tt_rank Op cores npad pb = Ok cores' -> cores <> [] -> chain_ok r cores -> order3 cores -> inb (tt_shape cores) idx ->
  0 < r -> 0 < last_r2 r cores ->
  tt_entry Op cores' idx = tt_entry Op cores idx.
Proof. intros E Hne Hok H3 Hin Hr Hl. unfold tt_entry. eapply pad_chain_entry; eauto. now apply single_mids_ok. Qed.
(* ... and tensor ring (trace over the boundary bond) *)
Theorem pad_tr_entry cores npad pb cores' idx r :
  pad_tt_rank Op cores npad pb = Ok cores' -> cores <> [] -> chain_ok r cores -> order3 cores -> inb (tt_shape cores) idx ->
  last_r2 r cores = r ->
  tr_entry Op cores' idx = tr_entry Op cores idx.
Proof. intros E Hne Hok H3 Hin Hl. unfold tr_entry. eapply pad_chain_trace; eauto. now apply single_mids_ok. Qed.

(* the advertised ranks: core k of n gets r1 + lpad k :: mid_k ++ [r2 + rpad k] *)
Lemma nth_pad_with d : forall pads cores k, length pads = length cores -> k < length cores ->
  nth k (pad_with pads cores) d = pad_core Op (fst (nth k pads (0, 0))) (snd (nth k pads (0, 0))) (nth k cores d).
Proof.
  induction pads as [|p pads IH]; intros [|G gs] k Hl Hk; simpl in *; try lia.
  destruct k; [reflexivity|]. apply IH; lia.
Qed.
Theorem pad_tt_rank_shapes cores npad pb cores' k d :
  pad_tt_rank Op cores npad pb = Ok cores' -> k < length cores ->
  length cores' = length cores /\
  shape (nth k cores' d) = core_r1 (nth k cores d) + lpad (length cores) npad pb k :: core_mid (nth k cores d) ++
                           [core_r2 (nth k cores d) + rpad (length cores) npad pb k].
Proof.
  unfold pad_tt_rank. destruct (forallb iscore cores); [|discriminate]. intros E Hk. injection E as <-.
  rewrite pad_from_with. split.
  - unfold pad_with. rewrite map_length, combine_length, map_length, seq_length. lia.
  - rewrite nth_pad_with by (rewrite ?map_length, ?seq_length; lia).
    rewrite (nth_map' _ _ k 0 (0, 0)) by (now rewrite seq_length). rewrite seq_nth by exact Hk. reflexivity.
Qed.
(* the single core of an order-1 train is first and last: unchanged boundary ranks *)
Corollary pad_tt_rank_order1 G npad cores' :
  pad_tt_rank Op [G] npad false = Ok cores' -> cores' = [pad_core Op 0 0 G].
Proof. unfold pad_tt_rank. destruct (forallb iscore [G]); [|discriminate]. intros E. injection E as <-. reflexivity. Qed.
End P.
