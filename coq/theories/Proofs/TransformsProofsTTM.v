(* Dense form of TT-matrices and its invariance under pad_tt_rank. *)
From Coq Require Import List Arith Lia Bool Ring ZArith Permutation.
From TLV Require Import Base.Shape Base.PyList Base.Tensor Base.BigSum Base.Ops Model.Transforms Proofs.TransformsProofs Proofs.TransformsProofsTT.
Import ListNotations.

Section P5.
Context {F : Type} (Op : fops F).
Hypothesis Rth : ring_theory (f0 Op) (f1 Op) (fadd Op) (fmul Op) (fsub Op) (fopp Op) (@eq F).
Definition order4 (cores : list (tensor F)) : Prop := Forall (fun G => length (shape G) = 4) cores.
Lemma zip2_mids_ok : forall (cores : list (tensor F)) i1 i2, order4 cores ->
  inb (map core_n cores) i1 -> inb (map core_m2 cores) i2 -> mids_ok cores (zip2 i1 i2).
Proof.
  induction cores as [|G gs IH]; intros [|a i1] [|b i2] H4 H1 H2; cbn [map inb zip2 mids_ok] in *; try contradiction; auto.
  inversion H4 as [|? ? HG Hgs]; subst. destruct H1 as [Ha H1]. destruct H2 as [Hb H2]. split; [|apply IH; auto].
  unfold core_mid. unfold core_n in Ha. unfold core_m2 in Hb.
  destruct (shape G) as [|r1 [|m [|n [|r2 [|]]]]]; simpl in HG; try discriminate. simpl in *. auto.
Qed.
Lemma ttm_mids_ok (cores : list (tensor F)) idx : order4 cores -> inb (ttm_shape cores) idx ->
  mids_ok cores (zip2 (firstn (length cores) idx) (skipn (length cores) idx)).
Proof.
  intros H4 Hin. unfold ttm_shape in Hin. rewrite <- (firstn_skipn (length cores) idx) in Hin.
  assert (Hl : length idx = length cores + length cores).
  { rewrite firstn_skipn in Hin. rewrite (inb_length _ _ Hin), app_length, !map_length. reflexivity. }
  apply inb_app_inv in Hin; [|rewrite firstn_length, map_length; lia].
  destruct Hin. now apply zip2_mids_ok.
Qed.
Theorem pad_ttm_entry cores npad pb cores' idx r :
  pad_tt_rank Op cores npad pb = Ok cores' -> cores <> [] -> chain_ok r cores -> order4 cores -> inb (ttm_shape cores) idx ->
  0 < r -> 0 < last_r2 r cores ->
  ttm_entry Op cores' idx = ttm_entry Op cores idx.
Proof.
  intros E Hne Hok H4 Hin Hr Hl. unfold ttm_entry.
  assert (L : length cores' = length cores).
  { destruct cores as [|G gs]; [contradiction|]. apply (pad_tt_rank_shapes Op _ _ _ _ 0 G E). simpl. lia. }
  rewrite L. eapply (pad_chain_entry Op Rth); eauto. now apply ttm_mids_ok.
Qed.
End P5.
