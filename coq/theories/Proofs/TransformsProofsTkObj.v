(* C04, round 7: TuckerTensor objects on the heap (Model/TransformsTkObj.v): the in-place normalize method, the mode_dot method with
   its copy flag, tucker_copy. *)
From Coq Require Import List Arith Lia Bool Ring.
From TLV Require Import Base.Shape Base.PyList Base.Tensor Base.BigSum Base.Ops Model.Transforms Model.TransformsApi Model.TransformsHeap
  Model.TransformsTkObj Proofs.TransformsProofs Proofs.TransformsProofsTucker Proofs.TransformsProofsValid Proofs.TransformsProofsHeapTk Proofs.TransformsProofsBc.
Import ListNotations.

Section P.
Context {F : Type} (Op : fops F).
Local Notation theapF := (theap (F:=F)).

(* reading through references that point into the old tables is not affected by appending to the tables *)
Lemma tread_extend (th th' : theapF) cl fl :
  (exists a, t_arr th' = t_arr th ++ a) -> (exists c, t_core th' = t_core th ++ c) ->
  tlst th' fl = tlst th fl -> twf th cl fl -> tread th' cl fl = tread th cl fl.
Proof.
  intros [a Ea] [c Ec] El (Hc & Hf & Hin). unfold tread. f_equal.
  - unfold tcore. rewrite Ec. now apply app_nth1.
  - rewrite El. apply map_ext_in. intros l Hl. unfold tarr. rewrite Ea. apply app_nth1. now apply Hin.
Qed.
Lemma tlst_extend (th th' : theapF) fl : (exists l, t_lst th' = t_lst th ++ l) -> fl < length (t_lst th) -> tlst th' fl = tlst th fl.
Proof. intros [l El] H. unfold tlst. rewrite El. now apply app_nth1. Qed.
Lemma tcellr_app cells (c : tcell) k : k < length cells -> tcellr (cells ++ [c]) k = tcellr cells k.
Proof. intros H. unfold tcellr. now apply app_nth1. Qed.
Lemma tcellr_last cells (c : tcell) : tcellr (cells ++ [c]) (length cells) = c.
Proof. unfold tcellr. rewrite app_nth2 by lia. now rewrite Nat.sub_diag. Qed.
Lemma map_nth_seq_app {A} (l0 l1 : list A) d : map (fun k => nth k (l0 ++ l1) d) (seq (length l0) (length l1)) = l1.
Proof.
  apply nth_ext with (d := d) (d' := d); [now rewrite map_length, seq_length|].
  intros k Hk. rewrite map_length, seq_length in Hk.
  rewrite (nth_indep _ d (nth 0 (l0 ++ l1) d)) by (now rewrite map_length, seq_length).
  rewrite (map_nth (fun k => nth k (l0 ++ l1) d) _ 0). rewrite seq_nth by assumption.
  rewrite app_nth2 by lia. f_equal. lia.
Qed.

(* ---------------------------------------------------------------- TuckerTensor(...) on the heap *)
Lemma tucker_new_h_spec (th : theapF) cells cl fl cells' o :
  tucker_new_h th cells cl fl = Ok (cells', o) ->
  o = length cells /\ cells' = cells ++ [tcellr cells' o] /\ tc_core (tcellr cells' o) = cl /\ tc_fs (tcellr cells' o) = fl /\
  tobj_consistent th cells' o.
Proof.
  unfold tucker_new_h, tread. destruct (tucker_okb (tcore th cl) (map (tarr th) (tlst th fl))) eqn:Hok; [|discriminate].
  intros E. injection E as <- <-. rewrite tcellr_last. cbn [tc_core tc_fs]. repeat split; auto.
  all: unfold tobj_consistent, tobj_read, tread; rewrite ?tcellr_last; cbn [tc_core tc_fs tc_shape tc_rank]; auto.
Qed.

(* ---------------------------------------------------------------- obj.normalize() *)
Theorem tucker_normalize_method_spec tape (th : theapF) cells o th' cells' :
  o < length cells -> tcell_wf th (tcellr cells o) ->
  tucker_normalize_method_h Op tape th cells o = Ok (th', cells') ->
  exists r, tucker_normalize_bc Op tape (fst (tobj_read th cells o)) (snd (tobj_read th cells o)) = Ok r /\
    (exists a, t_arr th' = t_arr th ++ a) /\ (exists c, t_core th' = t_core th ++ c) /\ (exists l, t_lst th' = t_lst th ++ l) /\
    length cells' = length cells /\ (forall k, k <> o -> tcellr cells' k = tcellr cells k) /\
    tc_shape (tcellr cells' o) = tc_shape (tcellr cells o) /\ tc_rank (tcellr cells' o) = tc_rank (tcellr cells o) /\
    length (t_core th) <= tc_core (tcellr cells' o) /\ length (t_lst th) <= tc_fs (tcellr cells' o) /\
    tobj_read th' cells' o = (tko_core r, tko_fs r) /\
    (forall k, k <> o -> tcell_wf th (tcellr cells k) -> tobj_read th' cells' k = tobj_read th cells k).
Proof.
  intros Ho Hwf. unfold tucker_normalize_method_h. destruct (tobj_read th cells o) as [core fs] eqn:Er.
  destruct (tucker_normalize_bc Op tape core fs) as [r|] eqn:En; [|discriminate].
  intros E. injection E as <- <-. exists r. cbn [fst snd t_arr t_core t_lst]. split; [exact En|].
  split; [eauto|]. split; [eauto|]. split; [eauto|]. split; [apply set_nth_length|].
  assert (Eo : tcellr (set_nth o (mk_tcell (tc_shape (tcellr cells o)) (tc_rank (tcellr cells o)) (length (t_core th)) (length (t_lst th))) cells) o
               = mk_tcell (tc_shape (tcellr cells o)) (tc_rank (tcellr cells o)) (length (t_core th)) (length (t_lst th))).
  { unfold tcellr at 1. now apply nth_set_nth_same. }
  assert (Ek : forall k, k <> o -> tcellr (set_nth o (mk_tcell (tc_shape (tcellr cells o)) (tc_rank (tcellr cells o)) (length (t_core th)) (length (t_lst th))) cells) k = tcellr cells k).
  { intros k Hk. unfold tcellr. now apply nth_set_nth_other. }
  split; [exact Ek|]. rewrite Eo. cbn [tc_shape tc_rank tc_core tc_fs]. repeat split; auto.
  - unfold tobj_read. rewrite Eo. cbn [tc_core tc_fs]. unfold tread, tcore, tlst, tarr. cbn [t_core t_lst t_arr].
    rewrite app_nth2 by lia. rewrite Nat.sub_diag. cbn [nth]. f_equal.
    rewrite app_nth2 by lia. rewrite Nat.sub_diag. cbn [nth]. apply map_nth_seq_app.
  - intros k Hk Hw. unfold tobj_read. rewrite (Ek k Hk). apply tread_extend; cbn [t_arr t_core t_lst]; eauto.
    destruct Hw as (_ & Hf & _). unfold tlst. cbn [t_lst]. now apply app_nth1.
Qed.

Lemma factors_okb_ncols : forall sh (fs : list (mat F)), factors_okb sh fs = true -> map (fun A => ncols A) fs = sh.
Proof.
  induction sh; intros [|A l0] H; simpl in *; try discriminate; auto.
  apply andb_true_iff in H. destruct H as [H H2]. apply andb_true_iff in H. destruct H as [H0 H1].
  f_equal; [|now apply IHsh]. apply rectb_ncols; auto. intros ->. discriminate.
Qed.

(* a consistent object stays consistent under the in-place normalisation (tape: one scale vector per core mode, of that mode's size) *)
Theorem tucker_normalize_method_consistent tape (th : theapF) cells o th' cells' :
  ring_theory (f0 Op) (f1 Op) (fadd Op) (fmul Op) (fsub Op) (fopp Op) (@eq F) ->
  o < length cells -> tcell_wf th (tcellr cells o) -> tobj_consistent th cells o ->
  Forall2 (fun sc n => length sc = n) tape (shape (fst (tobj_read th cells o))) ->
  tucker_normalize_method_h Op tape th cells o = Ok (th', cells') ->
  tobj_consistent th' cells' o /\
  tobj_read th' cells' o = tucker_normalize Op tape (fst (tobj_read th cells o)) (snd (tobj_read th cells o)).
Proof.
  intros Rth Ho Hwf Hc HT E.
  destruct (tucker_normalize_method_spec tape th cells o th' cells' Ho Hwf E) as (r & En & _ & _ & _ & _ & _ & Es & Erk & _ & _ & Erd & _).
  unfold tobj_consistent in *. rewrite Erd. destruct (tobj_read th cells o) as [core fs] eqn:Er. cbn [fst snd] in *.
  destruct Hc as (Hok & Hs & Hr).
  destruct (tucker_normalize_api_accepts Op tape core fs Hok HT) as (o2 & Ea & Ev & Esh & Erank).
  assert (Hb : tucker_normalize_bc Op tape core fs = tucker_normalize_api Op tape core fs).
  { pose proof Hok as Hok'. unfold tucker_okb in Hok'. apply andb_true_iff in Hok'. destruct Hok' as [Hok' Hf]. apply andb_true_iff in Hok'. destruct Hok' as [_ Hw].
    assert (Hlen : length tape = length (shape core)) by (clear - HT; induction HT; simpl; auto).
    apply (tucker_normalize_bc_valid Op Rth); auto.
    - apply (f_equal (@length nat)) in Hr. rewrite map_length in Hr. rewrite <- Hr.
      apply (f_equal (@length nat)) in Hs. unfold cp_shape in Hs. rewrite map_length in Hs.
      pose proof (factors_okb_ncols _ _ Hf) as Hn. apply (f_equal (@length nat)) in Hn. rewrite map_length in Hn. lia.
    - clear - HT. induction HT as [|sc n tape' sh' Hsc HT' IH]; intros k Hk; simpl in Hk; [lia|]. destruct k; [exact Hsc|]. simpl. apply IH. lia. }
  rewrite Hb, Ea in En. injection En as <-.
  unfold tucker_normalize_api in Ea. destruct (tucker_normalize Op tape core fs) as [c' fs'] eqn:Et.
  apply tucker_new_spec in Ea. destruct Ea as (Hok2 & Ec & Ef & Esh2 & Erk2).
  rewrite Ec, Ef in *. split; [|reflexivity]. split; [exact Hok2|]. split.
  - rewrite Es, Hs. congruence.
  - rewrite Erk, Hr. rewrite <- Erk2, Erank.
    unfold tucker_okb in Hok. apply andb_true_iff in Hok. destruct Hok as [_ Hf]. now apply factors_okb_ncols.
Qed.

(* ---------------------------------------------------------------- obj.mode_dot(...) *)
Theorem tucker_mode_dot_method_spec (th : theapF) cells o copy x mode kd th' cells' o' :
  tcell_wf th (tcellr cells o) ->
  tucker_mode_dot_method_h Op th cells o copy x mode kd = Ok (th', cells', o') ->
  o' = length cells /\ cells' = cells ++ [tcellr cells' o'] /\
  tobj_consistent th' cells' o' /\
  tucker_mode_dot Op (fst (tobj_read th cells o)) (snd (tobj_read th cells o)) x mode kd = Ok (tobj_read th' cells' o') /\
  (exists a, t_arr th' = t_arr th ++ a) /\ (exists c, t_core th' = t_core th ++ c) /\
  (copy = true -> forall k, k < length cells -> tcell_wf th (tcellr cells k) -> tobj_read th' cells' k = tobj_read th cells k) /\
  (copy = false -> o < length cells -> tobj_read th' cells' o = (fst (tobj_read th cells o), snd (tobj_read th' cells' o'))).
Proof.
  intros Hwf. unfold tucker_mode_dot_method_h.
  destruct (tucker_mode_dot_h Op th (tc_core (tcellr cells o)) (tc_fs (tcellr cells o)) copy x mode kd) as [[th1 [cl' fl']]|] eqn:Eh; [|discriminate].
  destruct (tucker_new_h th1 cells cl' fl') as [[cells1 o1]|] eqn:En; [|discriminate].
  intros E. injection E as <- <- <-.
  destruct (tucker_new_h_spec _ _ _ _ _ _ En) as (Eo & Ecs & Ecl & Efl & Hcons).
  destruct (tucker_mode_dot_h_spec Op th _ _ copy x mode kd th1 cl' fl' Hwf Eh) as (Ha & Hc & Hpure & Hcp & Hip).
  split; [exact Eo|]. split; [exact Ecs|]. split; [exact Hcons|].
  assert (Erd : tobj_read th1 cells1 o1 = tread th1 cl' fl') by (unfold tobj_read; now rewrite Ecl, Efl).
  split; [unfold tobj_read at 1 2; rewrite Erd; exact Hpure|]. split; [exact Ha|]. split; [exact Hc|]. split.
  - intros -> k Hk Hw. destruct (Hcp eq_refl) as (Hl & _). unfold tobj_read.
    rewrite Ecs, tcellr_app by (subst o1; exact Hk).
    apply tread_extend; auto. apply tlst_extend; auto. now destruct Hw as (_ & ? & _).
  - intros -> Hk. destruct (Hip eq_refl) as (Efl' & _ & _). rewrite Erd.
    unfold tobj_read. rewrite Ecs, tcellr_app by (subst o1; exact Hk). unfold tread. cbn [fst snd]. rewrite Efl'. f_equal.
    destruct Hc as [c Ec]. unfold tcore. rewrite Ec. apply app_nth1. now destruct Hwf.
Qed.

(* the in-place contraction consumes its operand: afterwards the operand object names its old core (one mode too many for the popped
   list) -- it is no longer a valid Tucker tensor, whatever its cached shape says *)
Theorem tucker_mode_dot_inplace_consumes (th : theapF) cells o v mode th' cells' o' :
  o < length cells -> tcell_wf th (tcellr cells o) -> tobj_consistent th cells o ->
  tucker_mode_dot_method_h Op th cells o false (OpVec v) mode false = Ok (th', cells', o') ->
  ~ tobj_consistent th' cells' o.
Proof.
  intros Ho Hwf Hc E.
  destruct (tucker_mode_dot_method_spec th cells o false (OpVec v) mode false th' cells' o' Hwf E) as (_ & _ & _ & Hpure & _ & _ & _ & Hip).
  specialize (Hip eq_refl Ho). unfold tobj_consistent in *. rewrite Hip.
  destruct (tobj_read th cells o) as [core fs] eqn:Er. destruct (tobj_read th' cells' o') as [c2 fs2] eqn:Er2. cbn [fst snd] in *.
  destruct Hc as (Hok & _ & _). intros (Hok2 & _ & _).
  unfold tucker_mode_dot in Hpure. rewrite Hok in Hpure. cbn [andb] in Hpure.
  destruct (mode <? length fs) eqn:Hm; [|discriminate]. apply Nat.ltb_lt in Hm.
  destruct (Nat.eqb (length v) (length (nth mode fs []))); [|discriminate].
  destruct (2 <=? length (remove_nth mode fs)); [|discriminate]. injection Hpure as _ <-.
  unfold tucker_okb in Hok, Hok2. apply andb_true_iff in Hok, Hok2. destruct Hok as [_ Hf]. destruct Hok2 as [_ Hf2].
  apply factors_okb_ncols in Hf. apply factors_okb_ncols in Hf2.
  apply (f_equal (@length nat)) in Hf. apply (f_equal (@length nat)) in Hf2. rewrite map_length in Hf, Hf2.
  rewrite remove_nth_length in Hf2 by assumption. lia.
Qed.
End P.

Section P2.
Context {F : Type} (Op : fops F).
Local Notation theapF := (theap (F:=F)).
(* obj.tucker_copy(): nothing existing is touched; the copy is a new consistent object naming fresh locations only and holding what
   the original holds *)
Theorem tucker_copy_spec (th : theapF) cells o th' cells' o' :
  tucker_copy_h th cells o = Ok (th', cells', o') ->
  (exists a, t_arr th' = t_arr th ++ a) /\ (exists c, t_core th' = t_core th ++ c) /\ (exists l, t_lst th' = t_lst th ++ l) /\
  o' = length cells /\ cells' = cells ++ [tcellr cells' o'] /\ tobj_consistent th' cells' o' /\
  tobj_read th' cells' o' = tobj_read th cells o /\
  length (t_core th) <= tc_core (tcellr cells' o') /\ length (t_lst th) <= tc_fs (tcellr cells' o') /\
  (forall l, In l (tlst th' (tc_fs (tcellr cells' o'))) -> length (t_arr th) <= l).
Proof.
  unfold tucker_copy_h. destruct (tobj_read th cells o) as [core fs] eqn:Er.
  set (th1 := mk_theap (t_core th ++ [core]) (t_arr th ++ fs) (t_lst th ++ [seq (length (t_arr th)) (length fs)])).
  destruct (tucker_new_h th1 cells (length (t_core th)) (length (t_lst th))) as [[cells1 o1]|] eqn:En; [|discriminate].
  intros E. injection E as <- <- <-.
  destruct (tucker_new_h_spec _ _ _ _ _ _ En) as (Eo & Ecs & Ecl & Efl & Hcons).
  split; [subst th1; cbn; eauto|]. split; [subst th1; cbn; eauto|]. split; [subst th1; cbn; eauto|].
  split; [exact Eo|]. split; [exact Ecs|]. split; [exact Hcons|].
  assert (El : tlst th1 (length (t_lst th)) = seq (length (t_arr th)) (length fs)).
  { unfold tlst, th1. cbn [t_lst]. rewrite app_nth2 by lia. now rewrite Nat.sub_diag. }
  split; [|split; [lia|split; [lia|]]].
  - unfold tobj_read. rewrite Ecl, Efl. unfold tread. rewrite El. f_equal.
    + unfold tcore, th1. cbn [t_core]. rewrite app_nth2 by lia. now rewrite Nat.sub_diag.
    + unfold tarr, th1. cbn [t_arr]. apply map_nth_seq_app.
  - rewrite Efl, El. intros l Hl. apply in_seq in Hl. lia.
Qed.
End P2.

(* end to end at the level of objects, in every commutative ring: the object returned by obj.mode_dot represents the mode product of
   what the operand object represented -- either copy flag, whatever the aliasing in the operand's factor list -- and advertises its shape *)
Section P3.
Context {F : Type} (Op : fops F).
Hypothesis Rth : ring_theory (f0 Op) (f1 Op) (fadd Op) (fmul Op) (fsub Op) (fopp Op) (@eq F).
Local Notation theapF := (theap (F:=F)).

Theorem tucker_mode_dot_method_contract_entry (th : theapF) cells o copy v mode th' cells' o' idx' :
  tcell_wf th (tcellr cells o) ->
  tucker_mode_dot_method_h Op th cells o copy (OpVec v) mode false = Ok (th', cells', o') ->
  S (length idx') = length (snd (tobj_read th cells o)) ->
  tc_shape (tcellr cells' o') = remove_nth mode (cp_shape (snd (tobj_read th cells o))) /\
  tucker_entry Op (fst (tobj_read th' cells' o')) (snd (tobj_read th' cells' o')) idx' =
  sumn Op (length (nth mode (snd (tobj_read th cells o)) []))
       (fun i => fmul Op (vget Op v i) (tucker_entry Op (fst (tobj_read th cells o)) (snd (tobj_read th cells o)) (insert_at mode i idx'))).
Proof.
  intros Hwf E Hl.
  destruct (tucker_mode_dot_method_spec Op th cells o copy (OpVec v) mode false th' cells' o' Hwf E) as (_ & _ & Hcons & Hpure & _).
  unfold tobj_consistent in Hcons. destruct (tobj_read th' cells' o') as [c' fs'] eqn:E'. destruct Hcons as (_ & Hs & _).
  destruct (tobj_read th cells o) as [core fs] eqn:E0. cbn [fst snd] in *.
  destruct (tucker_mode_dot_vector_contract Op Rth core fs v mode c' fs' idx' Hpure Hl) as [H1 H2].
  split; [now rewrite Hs|exact H2].
Qed.
Theorem tucker_mode_dot_method_matrix_entry (th : theapF) cells o copy M kd mode th' cells' o' idx j :
  tcell_wf th (tcellr cells o) ->
  tucker_mode_dot_method_h Op th cells o copy (OpMat M) mode kd = Ok (th', cells', o') ->
  length idx = length (snd (tobj_read th cells o)) -> j < length M ->
  tc_shape (tcellr cells' o') = set_nth mode (length M) (cp_shape (snd (tobj_read th cells o))) /\
  tucker_entry Op (fst (tobj_read th' cells' o')) (snd (tobj_read th' cells' o')) (set_nth mode j idx) =
  sumn Op (length (nth mode (snd (tobj_read th cells o)) []))
       (fun i => fmul Op (mget Op M j i) (tucker_entry Op (fst (tobj_read th cells o)) (snd (tobj_read th cells o)) (set_nth mode i idx))).
Proof.
  intros Hwf E Hl Hj.
  destruct (tucker_mode_dot_method_spec Op th cells o copy (OpMat M) mode kd th' cells' o' Hwf E) as (_ & _ & Hcons & Hpure & _).
  unfold tobj_consistent in Hcons. destruct (tobj_read th' cells' o') as [c' fs'] eqn:E'. destruct Hcons as (_ & Hs & _).
  destruct (tobj_read th cells o) as [core fs] eqn:E0. cbn [fst snd] in *.
  destruct (tucker_mode_dot_matrix Op Rth core fs M mode kd c' fs' idx j Hpure Hl Hj) as [H1 H2].
  split; [now rewrite Hs|exact H2].
Qed.
End P3.

Section P4.
Context {F : Type}.
Local Notation theapF := (theap (F:=F)).
(* obj[1] = <the list at location fl'>: the object names the new list and keeps its OLD shape / rank attributes; no other cell changes.
   It is consistent afterwards exactly when the new contents form a valid Tucker tensor with the old mode sizes and ranks *)
Theorem tucker_setitem_factors_spec (th : theapF) cells o fl' cells' :
  o < length cells -> tucker_setitem_h cells o 1 fl' = Ok cells' ->
  length cells' = length cells /\ (forall k, k <> o -> tcellr cells' k = tcellr cells k) /\
  tc_shape (tcellr cells' o) = tc_shape (tcellr cells o) /\ tc_rank (tcellr cells' o) = tc_rank (tcellr cells o) /\
  tobj_read th cells' o = tread th (tc_core (tcellr cells o)) fl' /\
  (tobj_consistent th cells' o <->
   let '(c, fs) := tread th (tc_core (tcellr cells o)) fl' in
   tucker_okb c fs = true /\ tc_shape (tcellr cells o) = cp_shape fs /\ tc_rank (tcellr cells o) = map (fun A => ncols A) fs).
Proof.
  intros Ho E. unfold tucker_setitem_h in E. injection E as <-.
  set (c := mk_tcell (tc_shape (tcellr cells o)) (tc_rank (tcellr cells o)) (tc_core (tcellr cells o)) fl').
  assert (Eo : tcellr (set_nth o c cells) o = c) by (unfold tcellr at 1; now apply nth_set_nth_same).
  split; [apply set_nth_length|]. split; [intros k Hk; unfold tcellr; now apply nth_set_nth_other|].
  rewrite Eo. split; [reflexivity|]. split; [reflexivity|]. split; [unfold tobj_read; rewrite Eo; reflexivity|].
  unfold tobj_consistent, tobj_read. rewrite Eo. subst c. cbn [tc_shape tc_rank tc_core tc_fs]. unfold tread. reflexivity.
Qed.
End P4.
