(* C04, round 8: item access / item assignment of TuckerTensor objects for every index (Model/TransformsTkObj.v, Model/TransformsTkObj8.v). *)
From Coq Require Import List Arith Lia Bool.
From TLV Require Import Base.Shape Base.PyList Base.Tensor Base.Ops Model.Transforms Model.TransformsApi Model.TransformsHeap
  Model.TransformsTkObj Model.TransformsTkObj8 Proofs.TransformsProofsHeap Proofs.TransformsProofsTkObj.
Import ListNotations.

Section P8.
Context {F : Type}.
Local Notation theapF := (theap (F:=F)).

(* obj[0] = <the core at location cl'>: the object names the new core and keeps its OLD shape / rank attributes and its factor list; no
   other cell changes.  It is consistent afterwards exactly when the new core with the old factors is a valid Tucker tensor with the
   old mode sizes and ranks *)
Theorem tucker_setitem_core_spec (th : theapF) cells o cl' cells' :
  o < length cells -> tucker_setitem_h cells o 0 cl' = Ok cells' ->
  length cells' = length cells /\ (forall k, k <> o -> tcellr cells' k = tcellr cells k) /\
  tc_shape (tcellr cells' o) = tc_shape (tcellr cells o) /\ tc_rank (tcellr cells' o) = tc_rank (tcellr cells o) /\
  tc_fs (tcellr cells' o) = tc_fs (tcellr cells o) /\
  tobj_read th cells' o = tread th cl' (tc_fs (tcellr cells o)) /\
  (tobj_consistent th cells' o <->
   let '(c, fs) := tread th cl' (tc_fs (tcellr cells o)) in
   tucker_okb c fs = true /\ tc_shape (tcellr cells o) = cp_shape fs /\ tc_rank (tcellr cells o) = map (fun A => ncols A) fs).
Proof.
  intros Ho E. unfold tucker_setitem_h in E. injection E as <-.
  set (c := mk_tcell (tc_shape (tcellr cells o)) (tc_rank (tcellr cells o)) cl' (tc_fs (tcellr cells o))).
  assert (Eo : tcellr (set_nth o c cells) o = c) by (unfold tcellr at 1; now apply nth_set_nth_same).
  split; [apply set_nth_length|]. split; [intros k Hk; unfold tcellr; now apply nth_set_nth_other|].
  rewrite Eo. split; [reflexivity|]. split; [reflexivity|]. split; [reflexivity|]. split; [unfold tobj_read; rewrite Eo; reflexivity|].
  unfold tobj_consistent, tobj_read. rewrite Eo. subst c. cbn [tc_shape tc_rank tc_core tc_fs]. unfold tread. reflexivity.
Qed.

(* replacing the core by one holding the same shape keeps a consistent object consistent (the usual use: obj[0] = new_core inside a solver) *)
Corollary tucker_setitem_core_same_shape (th : theapF) cells o cl' cells' :
  o < length cells -> tucker_setitem_h cells o 0 cl' = Ok cells' -> tobj_consistent th cells o ->
  wfb (tcore th cl') = true -> shape (tcore th cl') = shape (tcore th (tc_core (tcellr cells o))) ->
  tobj_consistent th cells' o.
Proof.
  intros Ho E Hc Hw Hs. destruct (tucker_setitem_core_spec th cells o cl' cells' Ho E) as (_ & _ & _ & _ & _ & _ & Hiff).
  apply Hiff. unfold tobj_consistent, tobj_read, tread in Hc. unfold tread.
  destruct Hc as (Hok & Hsh & Hrk). split; [|split; assumption].
  unfold tucker_okb in *. rewrite Hs. apply andb_true_iff in Hok. destruct Hok as [H1 H3]. apply andb_true_iff in H1. destruct H1 as [H1 _].
  now rewrite H1, Hw, H3.
Qed.
End P8.

(* only the indices 0 and 1 exist: any other index is refused by both accessors, and nothing is changed *)
Theorem tucker_item_index_error cells o idx loc : 2 <= idx -> tucker_setitem_h cells o idx loc = Err /\ tucker_getitem_h cells o idx = Err.
Proof. intros H. destruct idx as [|[|idx]]; try lia. split; reflexivity. Qed.

(* item access reads what item assignment wrote, the other item is untouched, and unpacking (`core, factors = obj`) sees the same references *)
Theorem tucker_getitem_setitem cells o idx loc cells' :
  o < length cells -> tucker_setitem_h cells o idx loc = Ok cells' ->
  tucker_getitem_h cells' o idx = Ok loc /\
  (forall idx', idx' <> idx -> tucker_getitem_h cells' o idx' = tucker_getitem_h cells o idx') /\
  (forall o' idx', o' <> o -> tucker_getitem_h cells' o' idx' = tucker_getitem_h cells o' idx') /\
  tucker_iter_h cells' o = (if Nat.eqb idx 0 then [loc; tc_fs (tcellr cells o)] else [tc_core (tcellr cells o); loc]).
Proof.
  intros Ho E. unfold tucker_setitem_h in E.
  assert (Hother : forall c, forall o', o' <> o -> tcellr (set_nth o c cells) o' = tcellr cells o') by (intros c o' Hne; unfold tcellr; now apply nth_set_nth_other).
  destruct idx as [|[|idx]]; [| |discriminate]; injection E as <-.
  - set (c := mk_tcell _ _ _ _).
    assert (Eo : tcellr (set_nth o c cells) o = c) by (unfold tcellr at 1; now apply nth_set_nth_same).
    unfold tucker_getitem_h, tucker_iter_h. rewrite Eo. repeat split.
    + intros [|[|i]] Hne; try reflexivity. congruence.
    + intros o' i Hne. now rewrite Hother.
  - set (c := mk_tcell _ _ _ _).
    assert (Eo : tcellr (set_nth o c cells) o = c) by (unfold tcellr at 1; now apply nth_set_nth_same).
    unfold tucker_getitem_h, tucker_iter_h. rewrite Eo. repeat split.
    + intros [|[|i]] Hne; try reflexivity. congruence.
    + intros o' i Hne. now rewrite Hother.
Qed.

Lemma tucker_iter_getitem cells o : map (@Ok nat) (tucker_iter_h cells o) = [tucker_getitem_h cells o 0; tucker_getitem_h cells o 1] /\ length (tucker_iter_h cells o) = tucker_len_h.
Proof. split; reflexivity. Qed.
