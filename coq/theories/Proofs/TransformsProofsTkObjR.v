(* C04, round 7: obj.normalize() end to end over R -- the object represents the same dense tensor afterwards, in canonical form. *)
From Coq Require Import List Arith Lia Bool Reals.
From TLV Require Import Base.Shape Base.PyList Base.Tensor Base.BigSum Base.Ops Model.Transforms Model.TransformsApi Model.TransformsHeap
  Model.TransformsTkObj Proofs.TransformsProofs Proofs.TransformsProofsR Proofs.TransformsProofsR2 Proofs.TransformsProofsTkObj.
Import ListNotations.

Lemma tk_norms_ok_lengths : forall sh tape (fs : list (mat R)), tk_norms_ok sh tape fs -> Forall2 (fun sc n => length sc = n) tape sh.
Proof.
  induction sh; intros [|sc t] [|A fs] H; simpl in H; try contradiction; constructor.
  - destruct H as [[H _] _]. exact H.
  - destruct H as [_ H]. eapply IHsh; eauto.
Qed.

(* obj.normalize() on a consistent TuckerTensor object, square roots as data with their contract (tk_norms_ok): afterwards the object
   is consistent, every entry of the tensor it represents is unchanged, its factor columns have unit norm (zero columns stay zero,
   with a zero core slice) *)
Theorem tucker_normalize_method_entry_R tape (th : theap (F:=R)) cells o th' cells' :
  o < length cells -> tcell_wf th (tcellr cells o) -> tobj_consistent th cells o ->
  tk_norms_ok (shape (fst (tobj_read th cells o))) tape (snd (tobj_read th cells o)) ->
  tucker_normalize_method_h Rops tape th cells o = Ok (th', cells') ->
  tobj_consistent th' cells' o /\
  (forall idx, length idx = length (snd (tobj_read th cells o)) ->
     tucker_entry Rops (fst (tobj_read th' cells' o)) (snd (tobj_read th' cells' o)) idx =
     tucker_entry Rops (fst (tobj_read th cells o)) (snd (tobj_read th cells o)) idx) /\
  tk_units (shape (fst (tobj_read th cells o))) tape (snd (tobj_read th' cells' o)).
Proof.
  intros Ho Hwf Hc Hn E.
  destruct (tucker_normalize_method_consistent Rops tape th cells o th' cells' Rops_ring Ho Hwf Hc (tk_norms_ok_lengths _ _ _ Hn) E) as [Hc' Er].
  split; [exact Hc'|]. destruct (tobj_read th' cells' o) as [c' fs'] eqn:E'. cbn [fst snd]. symmetry in Er. split.
  - intros idx Hl. eapply tucker_normalize_entry; eauto.
  - destruct (tucker_normalize_canonical tape _ _ c' fs' Er Hn) as (_ & Hu & _). exact Hu.
Qed.
