(* Ring-regime lemmas about tucker_mode_dot (Model/Transforms.v): Tucker tensors of any order. *)
From Coq Require Import List Arith Lia Bool Ring.
From TLV Require Import Base.Shape Base.PyList Base.Tensor Base.BigSum Base.Ops Model.Transforms Proofs.TransformsProofs.
Import ListNotations.

Section P.
Context {F : Type} (Op : fops F).
Hypothesis Rth : ring_theory (f0 Op) (f1 Op) (fadd Op) (fmul Op) (fsub Op) (fopp Op) (@eq F).
Add Ring Fr3 : Rth.
Local Notation fz := (f0 Op).
Local Notation fone := (f1 Op).
Local Notation "a *f b" := (fmul Op a b) (at level 40, left associativity).
Local Notation "a +f b" := (fadd Op a b) (at level 50, left associativity).
Local Notation Sum := (sumn Op).
Local Notation TK := (tk_sum Op).

Lemma tk_ext : forall sh fs idx g g', length fs = length sh -> length idx = length sh ->
  (forall js, inb sh js -> g js = g' js) -> TK sh fs idx g = TK sh fs idx g'.
Proof.
  induction sh as [|n sh IH]; intros [|A fs] [|i idx] g g' Hf Hi H; try discriminate; cbn [tk_sum].
  - apply H. exact I.
  - apply sumn_ext. intros j Hj. f_equal. apply IH; auto. intros js Hjs. apply H. simpl. auto.
Qed.
Lemma tk_ext_all : forall sh fs idx g g', (forall js, g js = g' js) -> TK sh fs idx g = TK sh fs idx g'.
Proof.
  induction sh as [|n sh IH]; intros fs idx g g' H; [apply H|].
  destruct fs as [|A fs]; [apply H|]. destruct idx as [|i idx]; [apply H|]. cbn [tk_sum].
  apply sumn_ext. intros j _. f_equal. apply IH. intros js. apply H.
Qed.
Lemma tucker_entry_tabulate sh f fs idx : length fs = length sh -> length idx = length sh ->
  tucker_entry Op (tabulate sh f) fs idx = TK sh fs idx f.
Proof.
  intros Hf Hi. unfold tucker_entry. change (shape (tabulate sh f)) with sh. apply tk_ext; auto.
  intros js Hjs. unfold tget. now rewrite get_tabulate.
Qed.
(* linear in the core *)
Lemma tk_gsum m (u : nat -> F) : forall sh fs idx (g : nat -> list nat -> F),
  TK sh fs idx (fun js => Sum m (fun j => u j *f g j js)) = Sum m (fun j => u j *f TK sh fs idx (g j)).
Proof.
  induction sh as [|n sh IH]; intros fs idx g; [reflexivity|].
  destruct fs as [|A fs]; [reflexivity|]. destruct idx as [|i idx]; [reflexivity|]. cbn [tk_sum].
  rewrite (sumn_ext Op n _ (fun j0 => Sum m (fun j => mget Op A i j0 *f (u j *f TK sh fs idx (fun js => g j (j0 :: js)))))).
  2:{ intros j0 _. rewrite (IH fs idx (fun j js => g j (j0 :: js))). now rewrite (sumn_scale_l Op Rth). }
  rewrite (sumn_exchange Op Rth). apply sumn_ext. intros j _. rewrite <- (sumn_scale_l Op Rth). apply sumn_ext. intros j0 _. ring.
Qed.
Lemma tk_scale c : forall sh fs idx (g : list nat -> F),
  TK sh fs idx (fun js => c *f g js) = c *f TK sh fs idx g.
Proof.
  induction sh as [|n sh IH]; intros fs idx g; [reflexivity|].
  destruct fs as [|A fs]; [reflexivity|]. destruct idx as [|i idx]; [reflexivity|]. cbn [tk_sum].
  rewrite <- (sumn_scale_l Op Rth). apply sumn_ext. intros j _. rewrite (IH fs idx (fun js => g (j :: js))). ring.
Qed.

(* linear in row i' of factor k *)
Lemma tk_lin n (c : nat -> F) : forall k sh fs idx g (A' : mat F) i',
  k < length sh -> k < length fs -> k < length idx ->
  (forall j, j < nth k sh 0 -> mget Op A' i' j = Sum n (fun i => c i *f mget Op (nth k fs []) i j)) ->
  TK sh (set_nth k A' fs) (set_nth k i' idx) g = Sum n (fun i => c i *f TK sh fs (set_nth k i idx) g).
Proof.
  induction k; intros [|n0 sh] [|A fs] [|i0 idx] g A' i' Hs Hf Hi H; simpl in Hs, Hf, Hi; try lia.
  - cbn [set_nth tk_sum]. cbn [nth] in H.
    rewrite (sumn_ext Op n0 _ (fun j => Sum n (fun i => c i *f (mget Op A i j *f TK sh fs idx (fun js => g (j :: js)))))).
    2:{ intros j Hj. rewrite H by exact Hj. rewrite <- (sumn_scale_r Op Rth). apply sumn_ext. intros i _. ring. }
    rewrite (sumn_exchange Op Rth). apply sumn_ext. intros i _. now rewrite (sumn_scale_l Op Rth).
  - cbn [set_nth tk_sum]. cbn [nth] in H.
    rewrite (sumn_ext Op n0 _ (fun j => Sum n (fun i => c i *f (mget Op A i0 j *f TK sh fs (set_nth k i idx) (fun js => g (j :: js)))))).
    2:{ intros j Hj. rewrite (IHk sh fs idx (fun js => g (j :: js)) A' i') by (auto; lia).
        rewrite <- (sumn_scale_l Op Rth). apply sumn_ext. intros i _. ring. }
    rewrite (sumn_exchange Op Rth). apply sumn_ext. intros i _. now rewrite (sumn_scale_l Op Rth).
Qed.

(* contracting mode k of the core with u = v A_k *)
Lemma tk_contract n (v : nat -> F) : forall k sh fs idx' g (u : nat -> F),
  k < length sh -> k < length fs -> k <= length idx' -> S (length idx') = length fs ->
  (forall j, j < nth k sh 0 -> u j = Sum n (fun i => v i *f mget Op (nth k fs []) i j)) ->
  TK (remove_nth k sh) (remove_nth k fs) idx' (fun js => Sum (nth k sh 0) (fun j => u j *f g (insert_at k j js)))
  = Sum n (fun i => v i *f TK sh fs (insert_at k i idx') g).
Proof.
  induction k; intros [|n0 sh] [|A fs] idx' g u Hs Hf Hi Hl H; simpl in Hs, Hf; try lia.
  - cbn [remove_nth nth insert_at] in *.
    rewrite (tk_gsum n0 u sh fs idx' (fun j js => g (j :: js))).
    cbn [tk_sum].
    rewrite (sumn_ext Op n0 _ (fun j => Sum n (fun i => v i *f (mget Op A i j *f TK sh fs idx' (fun js => g (j :: js)))))).
    2:{ intros j Hj. rewrite H by exact Hj. rewrite <- (sumn_scale_r Op Rth). apply sumn_ext. intros i _. ring. }
    rewrite (sumn_exchange Op Rth). apply sumn_ext. intros i _. now rewrite (sumn_scale_l Op Rth).
  - destruct idx' as [|i0 idx']; [simpl in Hi; lia|]. cbn [remove_nth nth insert_at tk_sum] in *. simpl in Hi, Hl.
    rewrite (sumn_ext Op n0 _ (fun j0 => Sum n (fun i => v i *f (mget Op A i0 j0 *f TK sh fs (insert_at k i idx') (fun js => g (j0 :: js)))))).
    2:{ intros j0 Hj0. rewrite (IHk sh fs idx' (fun js => g (j0 :: js)) u) by (auto; lia).
        rewrite <- (sumn_scale_l Op Rth). apply sumn_ext. intros i _. ring. }
    rewrite (sumn_exchange Op Rth). apply sumn_ext. intros i _. now rewrite (sumn_scale_l Op Rth).
Qed.

Lemma factors_okb_length : forall sh (fs : list (mat F)), factors_okb sh fs = true -> length fs = length sh.
Proof. induction sh; intros [|A fs] H; simpl in *; try discriminate; auto. apply andb_true_iff in H. destruct H. f_equal. auto. Qed.
Lemma rectb_ncols n (A : mat F) : rectb n A = true -> A <> [] -> ncols A = n.
Proof. destruct A as [|row A]; [contradiction|]. simpl. intros H _. apply andb_true_iff in H. destruct H as [H _]. now apply Nat.eqb_eq. Qed.
Lemma factors_okb_nth : forall sh (fs : list (mat F)) k, factors_okb sh fs = true -> k < length fs ->
  ncols (nth k fs []) = nth k sh 0 /\ nth k fs [] <> [].
Proof.
  induction sh; intros [|A fs] k H Hk; simpl in *; try discriminate; try lia.
  apply andb_true_iff in H. destruct H as [H H2]. apply andb_true_iff in H. destruct H as [H0 H1].
  assert (A <> []) by (intros ->; discriminate).
  destruct k; [split; auto; now apply rectb_ncols | apply IHsh; auto; lia].
Qed.

Theorem tucker_mode_dot_matrix core fs M k kd core' fs' idx j :
  tucker_mode_dot Op core fs (OpMat M) k kd = Ok (core', fs') ->
  length idx = length fs -> j < length M ->
  cp_shape fs' = set_nth k (length M) (cp_shape fs) /\
  tucker_entry Op core' fs' (set_nth k j idx) =
  Sum (length (nth k fs [])) (fun i => mget Op M j i *f tucker_entry Op core fs (set_nth k i idx)).
Proof.
  unfold tucker_mode_dot. destruct (tucker_okb core fs && (k <? length fs)) eqn:H0; [|discriminate].
  apply andb_true_iff in H0. destruct H0 as [Hok Hk]. apply Nat.ltb_lt in Hk.
  unfold tucker_okb in Hok. apply andb_true_iff in Hok. destruct Hok as [Hok Hfs].
  destruct (rectb _ M); [|discriminate]. intros E Hi Hj. injection E as <- <-.
  split; [rewrite cp_shape_set; now rewrite (length_matmul Op)|].
  pose proof (factors_okb_length _ _ Hfs) as Hl. destruct (factors_okb_nth _ _ k Hfs Hk) as [Hc Hne].
  unfold tucker_entry. apply tk_lin; try lia.
  intros r Hr. apply (mget_matmul Op); lia.
Qed.

Theorem tucker_mode_dot_vector_keep core fs v k core' fs' idx :
  tucker_mode_dot Op core fs (OpVec v) k true = Ok (core', fs') ->
  length idx = length fs ->
  cp_shape fs' = set_nth k 1 (cp_shape fs) /\
  tucker_entry Op core' fs' (set_nth k 0 idx) =
  Sum (length (nth k fs [])) (fun i => vget Op v i *f tucker_entry Op core fs (set_nth k i idx)).
Proof.
  intros E Hi. unfold tucker_mode_dot in E. destruct (tucker_okb core fs && (k <? length fs)) eqn:H0; [|discriminate].
  destruct (Nat.eqb (length v) (length (nth k fs []))) eqn:Hv; [|discriminate]. injection E as <- <-.
  split; [apply cp_shape_set|].
  assert (E : tucker_mode_dot Op core fs (OpMat [v]) k true = Ok (core, set_nth k [vecmat Op v (nth k fs [])] fs)).
  { unfold tucker_mode_dot. rewrite H0. cbn [rectb forallb]. rewrite Hv. reflexivity. }
  destruct (tucker_mode_dot_matrix _ _ _ _ _ _ _ idx 0 E Hi) as [_ T]; [simpl; lia|]. rewrite T. reflexivity.
Qed.

Theorem tucker_mode_dot_vector_contract core fs v k core' fs' idx' :
  tucker_mode_dot Op core fs (OpVec v) k false = Ok (core', fs') ->
  S (length idx') = length fs ->
  cp_shape fs' = remove_nth k (cp_shape fs) /\
  tucker_entry Op core' fs' idx' =
  Sum (length (nth k fs [])) (fun i => vget Op v i *f tucker_entry Op core fs (insert_at k i idx')).
Proof.
  intros E Hi. unfold tucker_mode_dot in E. destruct (tucker_okb core fs && (k <? length fs)) eqn:H0; [|discriminate].
  apply andb_true_iff in H0. destruct H0 as [Hok Hk]. apply Nat.ltb_lt in Hk.
  unfold tucker_okb in Hok. apply andb_true_iff in Hok. destruct Hok as [Hok Hfs].
  destruct (Nat.eqb (length v) (length (nth k fs []))) eqn:Hv; [|discriminate].
  destruct (2 <=? length (remove_nth k fs)); [|discriminate]. injection E as <- <-.
  pose proof (factors_okb_length _ _ Hfs) as Hl. destruct (factors_okb_nth _ _ k Hfs Hk) as [Hc Hne].
  split; [apply cp_shape_remove|].
  unfold tucker_entry. change (shape (contract_core Op core k (vecmat Op v (nth k fs [])))) with (remove_nth k (shape core)). unfold contract_core.
  assert (Lr : length (remove_nth k fs) = length fs - 1) by (apply remove_nth_length; lia).
  assert (Ls : length (remove_nth k (shape core)) = length (shape core) - 1) by (apply remove_nth_length; lia).
  assert (X : TK (remove_nth k (shape core)) (remove_nth k fs) idx'
             (tget Op (tabulate (remove_nth k (shape core)) (fun js => Sum (nth k (shape core) 0)
               (fun j => vget Op (vecmat Op v (nth k fs [])) j *f tget Op core (insert_at k j js)))))
           = TK (remove_nth k (shape core)) (remove_nth k fs) idx' (fun js => Sum (nth k (shape core) 0)
               (fun j => vget Op (vecmat Op v (nth k fs [])) j *f tget Op core (insert_at k j js)))).
  { apply tk_ext; try lia. intros js Hjs. unfold tget at 1. now rewrite get_tabulate. }
  rewrite X.
  apply (tk_contract (length (nth k fs [])) (vget Op v) k (shape core) fs idx' (tget Op core)); try lia.
  intros j Hj. apply (vget_vecmat Op). lia.
Qed.
End P.
