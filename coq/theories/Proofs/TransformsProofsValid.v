(* C04, round 5: the validating result constructors never refuse the answer of a transform applied to a valid operand,
   and the object they build caches the shape of what it holds (Model/TransformsApi.v). *)
From Coq Require Import List Arith Lia Bool Ring ZArith.
From TLV Require Import Base.Shape Base.PyList Base.Tensor Base.BigSum Base.Ops Model.Transforms Model.TransformsApi
  Proofs.TransformsProofs Proofs.TransformsProofsTucker Proofs.TransformsProofsPf2 Proofs.TransformsProofsPermList.
Import ListNotations.

Section V0.
Context {F : Type} (Op : fops F).
Local Notation fz := (f0 Op).

Lemma rectb_matmul (M A : mat F) : rectb (ncols A) (matmul Op M A) = true.
Proof.
  unfold rectb, matmul. apply forallb_forall. intros row Hin. apply in_map_iff in Hin. destruct Hin as (m & <- & _).
  unfold vecmat. rewrite map_length, seq_length. apply Nat.eqb_refl.
Qed.
Lemma length_vecmat (v : list F) (A : mat F) : length (vecmat Op v A) = ncols A.
Proof. unfold vecmat. now rewrite map_length, seq_length. Qed.
Lemma ncols_matmul (M A : mat F) : M <> [] -> ncols (matmul Op M A) = ncols A.
Proof. destruct M as [|m M]; [congruence|]. intros _. unfold ncols. simpl. apply length_vecmat. Qed.
Lemma matb_spec n (A : mat F) : matb n A = true <-> A <> [] /\ rectb n A = true.
Proof.
  unfold matb. rewrite andb_true_iff, negb_true_iff, Nat.eqb_neq. split; intros [H1 H2]; split; auto.
  - intros ->. now apply H1.
  - intros E. apply H1. now destruct A.
Qed.
Lemma matb_ncols n (A : mat F) : matb n A = true -> ncols A = n.
Proof. intros H. apply matb_spec in H. destruct H. now apply rectb_ncols. Qed.
Lemma matb_matmul (M A : mat F) : M <> [] -> matb (ncols A) (matmul Op M A) = true.
Proof. intros HM. apply matb_spec. split; [|apply rectb_matmul]. destruct M; [congruence|discriminate]. Qed.

(* ---------------------------------------------------------------- Tucker *)
Lemma factors_okb_set : forall sh (fs : list (mat F)) k X, factors_okb sh fs = true -> k < length fs ->
  X <> [] -> rectb (nth k sh 0) X = true -> factors_okb sh (set_nth k X fs) = true.
Proof.
  induction sh; intros [|A fs] k X H Hk HX HR; simpl in *; try discriminate; try lia.
  apply andb_true_iff in H. destruct H as [H H2].
  destruct k; simpl.
  - rewrite HR, H2. destruct X; [congruence|reflexivity].
  - rewrite H. simpl. apply IHsh; auto. lia.
Qed.
Lemma factors_okb_remove : forall sh (fs : list (mat F)) k, factors_okb sh fs = true ->
  factors_okb (remove_nth k sh) (remove_nth k fs) = true.
Proof.
  induction sh; intros [|A fs] k H; simpl in *; try discriminate; destruct k; auto.
  - apply andb_true_iff in H. now destruct H.
  - apply andb_true_iff in H. destruct H as [H H2]. simpl. rewrite H. simpl. now apply IHsh.
Qed.
Lemma tucker_new_spec core (fs : list (mat F)) o : tucker_new core fs = Ok o ->
  tucker_okb core fs = true /\ tko_core o = core /\ tko_fs o = fs /\ tko_shape o = cp_shape fs /\ tko_rank o = map (fun A => ncols A) fs.
Proof. unfold tucker_new. destruct (tucker_okb core fs); [|discriminate]. intros E. injection E as <-. auto. Qed.

(* a valid Tucker tensor's mode product is never refused by the TuckerTensor constructor (size-0 operands apart) *)
Theorem tucker_mode_dot_valid core (fs : list (mat F)) x k kd core' fs' :
  tucker_mode_dot Op core fs x k kd = Ok (core', fs') ->
  (forall M, x = OpMat M -> M <> []) ->
  tucker_okb core' fs' = true.
Proof.
  unfold tucker_mode_dot. destruct (tucker_okb core fs) eqn:Hok; [|discriminate]. cbn [andb].
  destruct (k <? length fs) eqn:Hk; [|discriminate]. apply Nat.ltb_lt in Hk.
  unfold tucker_okb in Hok. apply andb_true_iff in Hok. destruct Hok as [Hok Hf]. apply andb_true_iff in Hok. destruct Hok as [H2 Hwf].
  destruct (factors_okb_nth _ _ k Hf Hk) as [Hnc Hne].
  cbv zeta. destruct x as [M|v].
  - destruct (rectb (length (nth k fs [])) M); [|discriminate]. intros E HM. injection E as <- <-.
    unfold tucker_okb. rewrite set_nth_length, H2, Hwf. simpl.
    apply factors_okb_set; auto.
    + specialize (HM M eq_refl). destruct M; [congruence|discriminate].
    + rewrite <- Hnc. apply rectb_matmul.
  - destruct (Nat.eqb (length v) (length (nth k fs []))); [|discriminate]. destruct kd.
    + intros E _. injection E as <- <-. unfold tucker_okb. rewrite set_nth_length, H2, Hwf. simpl.
      apply factors_okb_set; auto; [discriminate|]. simpl. rewrite length_vecmat, Hnc, Nat.eqb_refl. reflexivity.
    + destruct (2 <=? length (remove_nth k fs)) eqn:H2'; [|discriminate]. intros E _. injection E as <- <-.
      unfold tucker_okb. rewrite H2'. simpl.
      assert (Hw : wfb (contract_core Op core k (vecmat Op v (nth k fs []))) = true) by (apply wfb_spec, wf_tabulate).
      rewrite Hw. simpl. unfold contract_core. simpl. now apply factors_okb_remove.
Qed.
Theorem tucker_mode_dot_api_accepts core (fs : list (mat F)) x (mode : Z) kd core' fs' :
  tucker_mode_dot_z Op core fs x mode kd = Ok (core', fs') ->
  (forall M, x = OpMat M -> M <> []) ->
  exists o, tucker_mode_dot_api Op core fs x mode kd = Ok o /\
            tko_core o = core' /\ tko_fs o = fs' /\ tko_shape o = cp_shape fs' /\ tko_rank o = map (fun A => ncols A) fs'.
Proof.
  intros E HM. unfold tucker_mode_dot_api. rewrite E.
  assert (Hv : tucker_okb core' fs' = true).
  { unfold tucker_mode_dot_z in E. destruct (norm_mode (length fs) mode) as [k|]; [|discriminate]. eapply tucker_mode_dot_valid; eauto. }
  unfold tucker_new. rewrite Hv. eexists. split; [reflexivity|]. simpl. auto.
Qed.

(* tucker_normalize: scale tapes of the right lengths keep a valid Tucker tensor valid, and its shape *)
Lemma rectb_div_cols n (A : mat F) sc : rectb n A = true -> length sc = n -> rectb n (div_cols Op A (map (nz1 Op) sc)) = true.
Proof.
  intros HA Hs. unfold rectb, div_cols in *. rewrite forallb_forall in *. intros row Hin.
  apply in_map_iff in Hin. destruct Hin as (r0 & <- & Hr0). specialize (HA r0 Hr0). apply Nat.eqb_eq in HA.
  unfold zipw. rewrite map_length, combine_length, map_length, HA, Hs, Nat.min_id. apply Nat.eqb_refl.
Qed.
Lemma factors_okb_div_all : forall sh (fs : list (mat F)) tape, factors_okb sh fs = true ->
  Forall2 (fun sc n => length sc = n) tape sh -> factors_okb sh (div_all Op fs tape) = true /\ cp_shape (div_all Op fs tape) = cp_shape fs.
Proof.
  induction sh; intros [|A fs] tape H HT; simpl in *; try discriminate.
  - inversion HT; subst. split; reflexivity.
  - inversion HT as [|sc n tape' sh' Hsc HT']; subst. simpl.
    apply andb_true_iff in H. destruct H as [H H2]. apply andb_true_iff in H. destruct H as [H0 H1].
    destruct (IHsh fs tape' H2 HT') as [I1 I2].
    unfold div_cols at 1. rewrite map_length, H0. simpl.
    fold (div_cols Op A (map (nz1 Op) sc)). rewrite rectb_div_cols by auto. simpl. split; [exact I1|].
    unfold cp_shape in *. simpl. unfold div_cols at 1. rewrite map_length. now f_equal.
Qed.
Theorem tucker_normalize_api_accepts tape core (fs : list (mat F)) :
  tucker_okb core fs = true -> Forall2 (fun sc n => length sc = n) tape (shape core) ->
  exists o, tucker_normalize_api Op tape core fs = Ok o /\
            (tko_core o, tko_fs o) = tucker_normalize Op tape core fs /\ tko_shape o = cp_shape fs /\ tko_rank o = shape core.
Proof.
  intros Hok HT. unfold tucker_normalize_api, tucker_normalize.
  unfold tucker_okb in Hok. apply andb_true_iff in Hok. destruct Hok as [Hok Hf]. apply andb_true_iff in Hok. destruct Hok as [H2 Hwf].
  destruct (factors_okb_div_all _ _ _ Hf HT) as [I1 I2].
  assert (Hl : length (div_all Op fs tape) = length fs).
  { apply (f_equal (@length nat)) in I2. unfold cp_shape in I2. now rewrite !map_length in I2. }
  unfold tucker_new, tucker_okb. rewrite Hl, H2. simpl shape. rewrite I1.
  assert (Hw : wfb (tabulate (shape core) (fun js => fmul Op (tget Op core js) (scal Op tape js))) = true) by (apply wfb_spec, wf_tabulate).
  rewrite Hw. simpl. eexists. split; [reflexivity|]. simpl. repeat split; auto.
  clear - I1. revert I1. generalize (div_all Op fs tape). generalize (shape core).
  induction l; intros [|A l0] H; simpl in *; try discriminate; auto.
  apply andb_true_iff in H. destruct H as [H H2]. apply andb_true_iff in H. destruct H as [H0 H1].
  f_equal; [|now apply IHl]. apply rectb_ncols; auto. intros ->. discriminate.
Qed.
End V0.

(* ---------------------------------------------------------------- NumPy broadcasting in tucker_normalize: nothing is stretched on a valid operand *)
Section VB.
Context {F : Type} (Op : fops F).
Lemma bshape_ones : forall sh, bshape sh (repeat 1 (length sh)) = Some sh.
Proof.
  induction sh as [|x sh IH]; [reflexivity|]. cbn [length repeat bshape]. rewrite IH. unfold bdim.
  destruct (Nat.eqb_spec x 1) as [->|H]; [reflexivity|]. cbn [Nat.eqb]. reflexivity.
Qed.
Lemma bshape_axis : forall sh i, i < length sh ->
  bshape sh (repeat 1 i ++ nth i sh 0 :: repeat 1 (length sh - i - 1)) = Some sh.
Proof.
  induction sh as [|x sh IH]; intros i Hi; cbn [length] in *; [lia|]. destruct i as [|i].
  - cbn [repeat app nth bshape]. replace (S (length sh) - 0 - 1) with (length sh) by lia. rewrite bshape_ones.
    unfold bdim. now rewrite Nat.eqb_refl.
  - cbn [repeat app nth bshape]. replace (S (length sh) - S i - 1) with (length sh - i - 1) by lia. rewrite (IH i) by lia.
    unfold bdim. destruct (Nat.eqb_spec x 1) as [->|H]; [reflexivity|]. cbn [Nat.eqb]. reflexivity.
Qed.
Lemma bproj_inb : forall sh idx, inb sh idx -> bproj sh idx = idx.
Proof.
  induction sh as [|d sh IH]; intros [|j idx] H; cbn in *; try tauto. destruct H as [Hj H]. unfold bproj in *. cbn [combine map fst snd].
  rewrite (IH idx H). destruct (Nat.eqb_spec d 1) as [->|_]; [f_equal; lia|reflexivity].
Qed.
Lemma bproj_axis : forall sh idx i, inb sh idx -> i < length sh ->
  nth i (bproj (repeat 1 i ++ nth i sh 0 :: repeat 1 (length sh - i - 1)) idx) 0 = nth i idx 0.
Proof.
  induction sh as [|d sh IH]; intros [|j idx] i H Hi; cbn [length] in *; try lia; cbn in H; try tauto. destruct H as [Hj H].
  destruct i as [|i].
  - cbn [repeat app nth]. unfold bproj. cbn [combine map fst snd nth]. destruct (Nat.eqb_spec d 1) as [->|_]; [lia|reflexivity].
  - cbn [repeat app nth]. unfold bproj. cbn [combine map fst snd nth].
    replace (S (length sh) - S i - 1) with (length sh - i - 1) by lia. apply (IH idx i H). lia.
Qed.
(* iteration i of tucker_normalize's loop on a core whose mode i has as many entries as the scale vector: the shape is kept and
   entry idx is multiplied by scales[idx_i] -- the no-broadcast step of tucker_normalize (Model/Transforms.v) *)
Theorem tk_norm_step_valid i (sc : list F) (core : tensor F) :
  i < length (shape core) -> length sc = nth i (shape core) 0 ->
  exists t, tk_norm_step Op i sc core = Ok t /\ shape t = shape core /\
    forall idx, inb (shape core) idx -> tget Op t idx = fmul Op (tget Op core idx) (vget Op sc (nth i idx 0)).
Proof.
  intros Hi Hs. unfold tk_norm_step. apply Nat.ltb_lt in Hi as Hi'. rewrite Hi'. cbv zeta.
  assert (HL : length (repeat 1 i ++ [length sc] ++ repeat 1 (length (shape core) - i - 1)) = length (shape core)).
  { rewrite !app_length, !repeat_length. simpl. lia. }
  rewrite HL, Nat.sub_diag. cbn [repeat skipn]. change ([] ++ shape core) with (shape core). rewrite Hs.
  change ([nth i (shape core) 0] ++ repeat 1 (length (shape core) - i - 1)) with (nth i (shape core) 0 :: repeat 1 (length (shape core) - i - 1)).
  rewrite (bshape_axis (shape core) i Hi).
  eexists. split; [reflexivity|]. split; [reflexivity|]. intros idx Hin.
  unfold tget at 1. rewrite get_tabulate by assumption. rewrite (bproj_inb _ _ Hin). now rewrite (bproj_axis _ _ _ Hin Hi).
Qed.
End VB.

Section V1.
Context {F : Type} (Op : fops F) (close : F -> F -> bool).
Hypothesis Rth : ring_theory (f0 Op) (f1 Op) (fadd Op) (fmul Op) (fsub Op) (fopp Op) (@eq F).
Add Ring FrV : Rth.
Local Notation fz := (f0 Op).
Local Notation fone := (f1 Op).
Local Notation "a *f b" := (fmul Op a b) (at level 40, left associativity).
Local Notation Sum := (sumn Op).

(* left multiplication by a matrix with orthonormal columns leaves the Gram matrix alone *)
Lemma gram_matmul (Lm P : mat F) a b : ortho Op (length P) Lm -> a < ncols P -> b < ncols P ->
  gram Op (matmul Op Lm P) a b = gram Op P a b.
Proof.
  intros HL Ha Hb. unfold gram. unfold matmul at 1. rewrite map_length.
  rewrite (sumn_ext Op _ _ (fun j => Sum (length P) (fun t => Sum (length P) (fun u =>
     (mget Op P t a *f mget Op P u b) *f (mget Op Lm j t *f mget Op Lm j u))))).
  2:{ intros j Hj. rewrite !(mget_matmul Op) by lia.
      unfold sumn. rewrite (bigsum_prod F _ _ _ _ _ _ Rth). apply bigsum_ext. intros t _. apply bigsum_ext. intros u _. ring. }
  rewrite (sumn_exchange Op Rth).
  rewrite (sumn_ext Op _ _ (fun t => Sum (length P) (fun u => (mget Op P t a *f mget Op P u b) *f gram Op Lm t u))).
  2:{ intros t _. rewrite (sumn_exchange Op Rth). apply sumn_ext. intros u _. unfold gram. now rewrite (sumn_scale_l Op Rth). }
  apply sumn_ext. intros t Ht. rewrite (sumn_single Op Rth _ t); auto.
  - rewrite HL by lia. rewrite Nat.eqb_refl. ring.
  - intros u Hu Hne. rewrite HL by lia. destruct (Nat.eqb_spec t u); [congruence | ring].
Qed.
Lemma forallb_ext_in {A} (f g : A -> bool) l : (forall x, In x l -> f x = g x) -> forallb f l = forallb g l.
Proof. induction l; simpl; intros H; auto. rewrite H by auto. f_equal. apply IHl. auto. Qed.
Lemma orthob_ext n (P Q : mat F) : (forall a b, a < n -> b < n -> gram Op P a b = gram Op Q a b) ->
  orthob Op close n P = orthob Op close n Q.
Proof.
  intros H. unfold orthob. apply forallb_ext_in. intros a Ha. apply forallb_ext_in. intros b Hb.
  apply in_seq in Ha. apply in_seq in Hb. rewrite H by lia. reflexivity.
Qed.
(* whatever the entry test of the orthonormality check: L P passes it exactly when P does *)
Lemma proj_okb_matmul rank (Lm P : mat F) : Lm <> [] -> ortho Op (length P) Lm -> matb rank P = true ->
  proj_okb Op close rank (matmul Op Lm P) = proj_okb Op close rank P.
Proof.
  intros HL HO HP. unfold proj_okb. rewrite HP. pose proof (matb_ncols _ _ HP) as Hn.
  rewrite <- Hn at 1. rewrite (matb_matmul Op) by assumption. f_equal.
  apply orthob_ext. intros a b Ha Hb. apply gram_matmul; auto; lia.
Qed.
Lemma decompress_okb rank : forall (Ps : list (mat F)) Ls, length Ps <= length Ls ->
  forallb (proj_okb Op close rank) Ps = true ->
  (forall i Lm, i < length Ps -> nth i Ls None = Some Lm -> Lm <> [] /\ ortho Op (length (nth i Ps [])) Lm) ->
  forallb (proj_okb Op close rank) (decompress_projs Op Ps Ls) = true /\ length (decompress_projs Op Ps Ls) = length Ps.
Proof.
  induction Ps as [|P Ps IH]; intros [|L Ls] Hl HP HL; simpl in *; auto; try lia.
  apply andb_true_iff in HP. destruct HP as [HP0 HP].
  destruct (IH Ls) as [I1 I2]; auto; try lia.
  { intros i Lm Hi E. apply (HL (S i) Lm); auto. lia. }
  rewrite I1, I2. split; [|reflexivity]. rewrite andb_true_r.
  destruct L as [Lm|]; [|exact HP0].
  destruct (HL 0 Lm) as [H1 H2]; auto; try lia.
  rewrite proj_okb_matmul; auto. unfold proj_okb in HP0. apply andb_true_iff in HP0. now destruct HP0.
Qed.
Lemma pf2_new_spec (w : option (list F)) fs Ps o : pf2_new Op close w fs Ps = Ok o ->
  pf2_validb Op close w fs Ps = true /\ pfo_w o = weights_or_ones Op w fs /\ pfo_fs o = fs /\ pfo_ps o = Ps /\
  pfo_shape o = pf2_shape fs Ps /\ pfo_rank o = cp_rank fs.
Proof. unfold pf2_new. destruct (pf2_validb Op close w fs Ps); [|discriminate]. intros E. injection E as <-. simpl. auto 6. Qed.

(* svd_decompress_parafac2_tensor on a valid PARAFAC2 tensor with loadings whose columns are orthonormal: the Parafac2Tensor
   constructor accepts L_i P_i -- for ANY entry test `close` (the Gram matrices of L_i P_i and P_i are equal) *)
Theorem svd_decompress_api_accepts (x : pf2_operand) Ls :
  pf2_validb Op close (pf2_raw_w x) (pf2_fs x) (pf2_ps x) = true ->
  length (pf2_ps x) <= length Ls ->
  (forall i Lm, i < length (pf2_ps x) -> nth i Ls None = Some Lm -> Lm <> [] /\ ortho Op (length (nth i (pf2_ps x) [])) Lm) ->
  exists o, svd_decompress_api Op close x Ls = Ok o /\
            pfo_w o = weights_or_ones Op (pf2_raw_w x) (pf2_fs x) /\ pfo_fs o = pf2_fs x /\
            pfo_ps o = decompress_projs Op (pf2_ps x) Ls /\
            pfo_shape o = pf2_shape (pf2_fs x) (decompress_projs Op (pf2_ps x) Ls).
Proof.
  intros Hv Hl HL. unfold svd_decompress_api. apply Nat.leb_le in Hl. rewrite Hl. apply Nat.leb_le in Hl.
  assert (Hv' : pf2_validb Op close (pf2_raw_w x) (pf2_fs x) (decompress_projs Op (pf2_ps x) Ls) = true).
  { revert Hv. unfold pf2_validb. destruct (pf2_fs x) as [|A [|B [|C [|? ?]]]]; try discriminate.
    intros Hv. apply andb_true_iff in Hv. destruct Hv as [Hv Hw]. apply andb_true_iff in Hv. destruct Hv as [Hv HC].
    apply andb_true_iff in Hv. destruct Hv as [Hv HB]. apply andb_true_iff in Hv. destruct Hv as [Hv HPs].
    apply andb_true_iff in Hv. destruct Hv as [HA Hlen].
    destruct (decompress_okb (ncols A) (pf2_ps x) Ls) as [I1 I2]; auto.
    rewrite I1, I2, HA, Hlen, HB, HC, Hw. reflexivity. }
  unfold pf2_new. rewrite Hv'. eexists. split; [reflexivity|]. simpl. auto.
Qed.

Lemma forallb_repeat {A} (f : A -> bool) x n : f x = true -> forallb f (repeat x n) = true.
Proof. intros H. induction n; simpl; auto. now rewrite H. Qed.
(* from_CPTensor on a three-factor CP operand whose QR answer meets its contract (Q: rank orthonormal columns, R: rank columns) *)
Theorem from_cp_api_accepts Qm Rm (c : cp_operand) A B C ok :
  operand_fs c = [A; B; C] -> matb (ncols A) A = true -> matb (ncols A) C = true -> matb (ncols A) Rm = true ->
  proj_okb Op close (ncols A) Qm = true ->
  (forall w, cp_raw_w c = Some w -> length w = ncols A) ->
  exists o, from_cp_api Op close Qm Rm (FromCp c) ok = Ok o /\ pfo_w o = weights_or_ones Op (cp_raw_w c) [A; Rm; C] /\
            pfo_fs o = [A; Rm; C] /\ pfo_ps o = repeat Qm (length A) /\ pfo_shape o = repeat [length Qm; length C] (length A).
Proof.
  intros Hfs HA HC HR HQ Hw. unfold from_cp_api. rewrite Hfs. unfold pf2_new.
  assert (Hv : pf2_validb Op close (cp_raw_w c) [A; Rm; C] (repeat Qm (length A)) = true).
  { unfold pf2_validb. rewrite HA, HR, HC, repeat_length, Nat.eqb_refl, (forallb_repeat _ _ _ HQ). simpl.
    destruct (cp_raw_w c) as [w|]; auto. apply Nat.eqb_eq. now apply Hw. }
  rewrite Hv. eexists. split; [reflexivity|]. simpl. repeat split; auto.
  unfold pf2_shape. simpl. generalize (length A). induction n; simpl; congruence.
Qed.

Lemma rectb_scale_cols n (A : mat F) c : rectb n A = true -> length c = n -> rectb n (scale_cols Op A c) = true.
Proof.
  intros HA Hs. unfold rectb, scale_cols in *. rewrite forallb_forall in *. intros row Hin.
  apply in_map_iff in Hin. destruct Hin as (r0 & <- & Hr0). specialize (HA r0 Hr0). apply Nat.eqb_eq in HA.
  unfold zipw. rewrite map_length, combine_length, HA, Hs, Nat.min_id. apply Nat.eqb_refl.
Qed.
Lemma matb_div_cols n (A : mat F) sc : matb n A = true -> length sc = n -> matb n (div_cols Op A (map (nz1 Op) sc)) = true.
Proof.
  intros HA Hs. apply matb_spec in HA. destruct HA as [H1 H2]. apply matb_spec. split; [|now apply rectb_div_cols].
  unfold div_cols. destruct A; [congruence|discriminate].
Qed.
Lemma matb_scale_cols n (A : mat F) c : matb n A = true -> length c = n -> matb n (scale_cols Op A c) = true.
Proof.
  intros HA Hs. apply matb_spec in HA. destruct HA as [H1 H2]. apply matb_spec. split; [|now apply rectb_scale_cols].
  unfold scale_cols. destruct A; [congruence|discriminate].
Qed.
Lemma length_zipw (f : F -> F -> F) a b : length (zipw f a b) = Nat.min (length a) (length b).
Proof. unfold zipw. now rewrite map_length, combine_length. Qed.
(* parafac2_normalise on a valid PARAFAC2 tensor with norm tapes of the right length: accepted, projections and shape kept *)
Theorem parafac2_normalise_api_accepts tape (x : pf2_operand) :
  pf2_validb Op close (pf2_raw_w x) (pf2_fs x) (pf2_ps x) = true ->
  length tape = 3 -> Forall (fun sc => length sc = cp_rank (pf2_fs x)) tape ->
  exists o, parafac2_normalise_api Op close tape x = Ok o /\
            (pfo_w o, pfo_fs o) = cp_normalize Op tape (weights_or_ones Op (pf2_raw_w x) (pf2_fs x)) (pf2_fs x) /\
            pfo_ps o = pf2_ps x /\ pfo_shape o = pf2_shape (pf2_fs x) (pf2_ps x).
Proof.
  intros Hv Ht HT. unfold parafac2_normalise_api.
  assert (Hok : pf2_operand_okb Op close x = true) by (destruct x; [exact Hv|reflexivity]). rewrite Hok.
  revert Hv HT. generalize (pf2_raw_w x) as w. generalize (pf2_ps x) as Ps. generalize (pf2_fs x) as fs. clear Hok x.
  intros fs Ps w Hv HT. unfold pf2_validb in Hv. destruct fs as [|A [|B [|C [|? ?]]]]; try discriminate.
  destruct tape as [|s0 [|s1 [|s2 [|? ?]]]]; try discriminate. clear Ht.
  apply andb_true_iff in Hv. destruct Hv as [Hv Hw]. apply andb_true_iff in Hv. destruct Hv as [Hv HC].
  apply andb_true_iff in Hv. destruct Hv as [Hv HB]. apply andb_true_iff in Hv. destruct Hv as [Hv HPs].
  apply andb_true_iff in Hv. destruct Hv as [HA Hlen].
  unfold cp_rank in HT. simpl hd in HT. set (rank := ncols A) in *.
  inversion HT as [|? ? H0 HT1]; subst. inversion HT1 as [|? ? H1 HT2]; subst. inversion HT2 as [|? ? H2 _]; subst.
  set (w0 := weights_or_ones Op w [A; B; C]).
  assert (Hw0 : length w0 = rank).
  { unfold w0, weights_or_ones. destruct w as [w|]; [now apply Nat.eqb_eq in Hw|]. unfold ones, cp_rank. simpl. now rewrite repeat_length. }
  unfold cp_normalize, norm_inputs. cbn [norm_loop].
  set (A' := div_cols Op (scale_cols Op A w0) (map (nz1 Op) s0)).
  assert (HA' : matb rank A' = true) by (apply matb_div_cols; auto; apply matb_scale_cols; auto).
  unfold pf2_new.
  assert (Hv' : pf2_validb Op close
           (Some (zipw (fmul Op) (zipw (fmul Op) (zipw (fmul Op) (ones Op (length w0)) s0) s1) s2))
           [A'; div_cols Op B (map (nz1 Op) s1); div_cols Op C (map (nz1 Op) s2)] Ps = true).
  { unfold pf2_validb. rewrite (matb_ncols _ _ HA'). fold rank. rewrite HA', HPs.
    rewrite (matb_div_cols _ _ _ HB H1), (matb_div_cols _ _ _ HC H2).
    assert (HlA : length A' = length A) by (unfold A', div_cols, scale_cols; now rewrite !map_length).
    rewrite HlA, Hlen. simpl. apply Nat.eqb_eq. rewrite !length_zipw. unfold ones. rewrite repeat_length. lia. }
  rewrite Hv'. eexists. split; [reflexivity|]. simpl. repeat split; auto.
  unfold pf2_shape. simpl. unfold div_cols at 1. now rewrite map_length.
Qed.

(* end to end: the decompressed OBJECT (constructor verdict included) represents loading x compressed slice *)
Theorem svd_decompress_api_entry (x : pf2_operand) Ls A B C :
  pf2_fs x = [A; B; C] ->
  pf2_validb Op close (pf2_raw_w x) (pf2_fs x) (pf2_ps x) = true ->
  length (pf2_ps x) <= length Ls -> length B <= ncols A ->
  (forall i Lm, i < length (pf2_ps x) -> nth i Ls None = Some Lm -> Lm <> [] /\ ortho Op (length (nth i (pf2_ps x) [])) Lm) ->
  exists o, svd_decompress_api Op close x Ls = Ok o /\ pfo_fs o = [A; B; C] /\
    forall i j k, i < length (pf2_ps x) ->
      match nth i Ls None with
      | None => pf2_entry Op (pfo_w o) A B C (pfo_ps o) i j k = pf2_entry Op (pfo_w o) A B C (pf2_ps x) i j k
      | Some Lm => j < length Lm ->
          pf2_entry Op (pfo_w o) A B C (pfo_ps o) i j k =
          Sum (length (nth i (pf2_ps x) [])) (fun t => mget Op Lm j t *f pf2_entry Op (pfo_w o) A B C (pf2_ps x) i t k)
      end.
Proof.
  intros Hfs Hv Hl HB HL. destruct (svd_decompress_api_accepts x Ls Hv Hl HL) as (o & E & Ew & Ef & Ep & _).
  exists o. split; [exact E|]. split; [now rewrite Ef|]. intros i j k Hi. rewrite Ep.
  assert (Es : svd_decompress Op (pfo_w o) A B C (pf2_ps x) Ls = Ok (pfo_w o, [A; B; C], decompress_projs Op (pf2_ps x) Ls)).
  { unfold svd_decompress. apply Nat.leb_le in Hl. now rewrite Hl. }
  pose proof (svd_decompress_entry Op Rth _ _ _ _ _ _ _ _ _ _ _ i j k Es Hi) as H.
  destruct (nth i Ls None) as [Lm|]; [|exact H]. intros Hj. apply H; auto.
  (* the projection has `rank` columns *)
  rewrite Hfs in Hv. unfold pf2_validb in Hv.
  apply andb_true_iff in Hv. destruct Hv as [Hv _]. apply andb_true_iff in Hv. destruct Hv as [Hv _].
  apply andb_true_iff in Hv. destruct Hv as [Hv _]. apply andb_true_iff in Hv. destruct Hv as [_ HPs].
  rewrite forallb_forall in HPs. specialize (HPs (nth i (pf2_ps x) []) (nth_In _ _ Hi)).
  unfold proj_okb in HPs. apply andb_true_iff in HPs. destruct HPs as [HP _]. rewrite (matb_ncols _ _ HP). exact HB.
Qed.
End V1.
