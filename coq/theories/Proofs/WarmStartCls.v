(* C14 -- the estimator classes (CP, CP_NN, CP_NN_HALS, ConstrainedCP, Tucker, Tucker_NN, Tucker_NN_HALS, Parafac2) as argument routers.
   `__init__(self, p1=.., p2=..)` stores each constructor argument in an attribute (`self.a = p`); `fit_transform(self, tensor)` calls the
   driver with keyword arguments read from attributes (`k=self.a`) and returns the driver's decomposition.  The two tables
     store : attribute |-> constructor parameter        pass : driver keyword |-> attribute
   are regenerated from the tensorly source on every run (harness/props/C14.py, fail closed) and the generated lemma checks
   routes_ok on them; class_routes then says the driver receives, under every keyword the class passes, exactly the argument the caller
   gave the constructor under the same name, so a driver that reads its keywords only sees the caller's values: the wrapper IS the
   function call, and every C14 statement about the function holds for the class. *)
From Coq Require Import List String Bool.
Import ListNotations.
Local Open Scope string_scope.

Definition table := list (string * string).
Fixpoint lookup (k : string) (t : table) : option string :=
  match t with [] => None | (a, b) :: r => if String.eqb a k then Some b else lookup k r end.

Section Cls.
  Context {V : Type}.
  Definition args := string -> V.                       (* the constructor call: parameter name |-> value (defaults included) *)
  (* the attribute a after __init__ *)
  Definition attr_of (store : table) (ar : args) (a : string) : option V :=
    match lookup a store with Some p => Some (ar p) | None => None end.
  (* the keyword k of the driver call in fit_transform *)
  Definition kw_of (store pass : table) (ar : args) (k : string) : option V :=
    match lookup k pass with Some a => attr_of store ar a | None => None end.

  (* every passed keyword reads an attribute that holds the constructor parameter of the SAME name; the keywords in `need` are passed *)
  Definition routes_ok (need : list string) (store pass : table) : bool :=
    forallb (fun ka => match lookup (snd ka) store with Some p => String.eqb p (fst ka) | None => false end) pass
    && forallb (fun k => match lookup k pass with Some _ => true | None => false end) need.

  Lemma lookup_in k a (t : table) : lookup k t = Some a -> In (k, a) t.
  Proof.
    induction t as [|[x y] r IH]; simpl; [discriminate|].
    destruct (String.eqb_spec x k) as [->|N]; [intros [= ->]; now left | intros H; right; auto].
  Qed.

  Theorem class_routes need store pass : routes_ok need store pass = true ->
    forall (ar : args) k, (In k need \/ lookup k pass <> None) -> kw_of store pass ar k = Some (ar k).
  Proof.
    unfold routes_ok. intros H ar k Hk. apply andb_prop in H. destruct H as [H1 H2].
    rewrite forallb_forall in H1, H2.
    assert (Hp : exists a, lookup k pass = Some a).
    { destruct (lookup k pass) as [a|] eqn:E; [now exists a|].
      destruct Hk as [Hk|Hk]; [specialize (H2 k Hk); rewrite E in H2; discriminate | now contradiction Hk]. }
    destruct Hp as [a Ha]. unfold kw_of, attr_of. rewrite Ha.
    specialize (H1 (k, a) (lookup_in k a pass Ha)). cbn [fst snd] in H1.
    destruct (lookup a store) as [p|]; [|discriminate]. apply String.eqb_eq in H1. now subst p.
  Qed.

  (* a driver is a function of its keyword arguments; the class hands it kw_of, the caller of the function hands it its own values.
     If the driver consults only keywords the class passes (`reads`), both calls are the same call. *)
  Definition direct (ar : args) (k : string) : option V := Some (ar k).
  Theorem class_is_function_call {Out : Type} (drv : (string -> option V) -> Out) (reads : list string) need store pass :
    routes_ok need store pass = true ->
    (forall k, In k reads -> In k need \/ lookup k pass <> None) ->
    (forall f g, (forall k, In k reads -> f k = g k) -> drv f = drv g) ->
    forall ar, drv (kw_of store pass ar) = drv (direct ar).
  Proof.
    intros H Hr Hd ar. apply Hd. intros k Hk. unfold direct. now apply (class_routes need store pass H ar k), Hr.
  Qed.
End Cls.

(* self-test on the shape of CP: a table that routes fixed_modes to another attribute is rejected *)
Definition cp_store_expect : table := [("rank", "rank"); ("n_iter_max", "n_iter_max"); ("init", "init"); ("normalize_factors", "normalize_factors"); ("fixed_modes", "fixed_modes")].
Definition cp_pass_expect : table := [("rank", "rank"); ("n_iter_max", "n_iter_max"); ("init", "init"); ("normalize_factors", "normalize_factors"); ("fixed_modes", "fixed_modes")].
Lemma cp_expect_ok : routes_ok ["init"; "n_iter_max"; "fixed_modes"; "normalize_factors"] cp_store_expect cp_pass_expect = true.
Proof. vm_compute. reflexivity. Qed.
Lemma cp_misrouted_rejected :
  routes_ok ["init"] [("init", "init"); ("fixed_modes", "init")] [("init", "init"); ("fixed_modes", "fixed_modes")] = false /\
  routes_ok ["init"; "fixed_modes"] cp_store_expect [("init", "init")] = false.
Proof. vm_compute. split; reflexivity. Qed.
Example class_call_example :
  kw_of cp_store_expect cp_pass_expect (fun p => if String.eqb p "fixed_modes" then 7 else 0) "fixed_modes" = Some 7.
Proof. vm_compute. reflexivity. Qed.
