(* C14 -- lemmas, part 5: end to end.  The initialiser composed with the control skeleton: a fixed mode other than
   the last is returned as the supplied array; what non_negative_parafac_hals returns for a fixed LAST mode; the
   zero-budget result of every algorithm represents the supplied CP tensor. *)
From Coq Require Import List Arith Lia Bool Ring ZArith.
From TLV Require Import Base.Shape Base.PyList Base.Tensor Base.BigSum Model.WarmStart Proofs.WarmStartProofs.
Import ListNotations.

(* ---- end to end: initialiser + skeleton *)
Section EndToEnd.
  Context {F : Type} (rI : F) (rmul : F -> F -> F) (eqb : F -> F -> bool).
  Notation mat := (@matrix F).

  Lemma nth_absorb_last_other w : forall (fs : list mat) m d, m < length fs - 1 -> nth m (absorb_last rmul w fs) d = nth m fs d.
  Proof.
    induction fs as [|A fs IH]; intros m d Hm; [simpl in Hm; lia|]. destruct fs as [|B fs]; [simpl in Hm; lia|].
    change (absorb_last rmul w (A :: B :: fs)) with (A :: absorb_last rmul w (B :: fs)).
    destruct m as [|m]; [reflexivity|]. cbn [nth]. apply IH. simpl in *. lia.
  Qed.
  Lemma nth_absorb_last_last w : forall (fs : list mat), fs <> [] ->
    nth (length fs - 1) (absorb_last rmul w fs) [] = scale_cols rmul (nth (length fs - 1) fs []) w.
  Proof.
    induction fs as [|A fs IH]; intros Hne; [congruence|]. destruct fs as [|B fs]; [reflexivity|].
    change (absorb_last rmul w (A :: B :: fs)) with (A :: absorb_last rmul w (B :: fs)).
    replace (length (A :: B :: fs) - 1) with (S (length (B :: fs) - 1)) by (simpl; lia). cbn [nth].
    apply IH. discriminate.
  Qed.

  Definition start {X} (x : X) (wf : list F * list mat) : st mat (list F) X := mkst (fst wf) (snd wf) x.

  Lemma init_cp_facs_other R w (fs : list mat) m d : m < length fs - 1 -> nth m (snd (init_cp rI rmul eqb R w fs)) d = nth m fs d.
  Proof.
    intros Hm. unfold init_cp. destruct (all_ones rI eqb _); cbn [snd]; [reflexivity|]. now apply nth_absorb_last_other.
  Qed.

  Context {X : Type}.
  Variable upd : nat -> nat -> st mat (list F) X -> mat * X.
  Variable stop : nat -> st mat (list F) X -> bool.
  Variable normf : st mat (list F) X -> st mat (list F) X.
  Variable pre : nat -> nat -> st mat (list F) X -> mat.
  Variable pre_on : nat -> bool.
  Variable post : nat -> st mat (list F) X -> X.
  Variable ls_on : nat -> bool.
  Variable ls_accept : nat -> st mat (list F) X -> st mat (list F) X -> bool.
  Variable lsf : nat -> st mat (list F) X -> mat -> mat -> mat.
  Variable lsw : nat -> st mat (list F) X -> list F -> list F -> list F.
  Variable lsx : nat -> st mat (list F) X -> st mat (list F) X -> X.
  Notation run := (run upd stop normf false pre pre_on post ls_on ls_accept lsf lsw lsx).

  (* a fixed mode other than the last: the returned factor IS the supplied one, through the initialiser and any
     number of sweeps of any algorithm (hooks: as in run_fixed_hooks) *)
  Theorem fixed_end_to_end a n fixed budget tol R w (fs : list mat) x s' m d :
    ls_fixpoint lsf a ->
    run a n fixed budget tol (start x (init_cp rI rmul eqb R w fs)) = Ok s' ->
    In m fixed -> (drops_last a = true -> m <> n - 1) -> m < length fs - 1 ->
    nth m (facs s') d = nth m fs d.
  Proof.
    intros Hls Hrun Hin Hl Hm.
    rewrite (run_fixed_user upd stop normf pre pre_on post ls_on ls_accept lsf lsw lsx a n fixed budget tol _ s' d m Hls Hrun Hin Hl).
    unfold start. cbn [facs]. now apply init_cp_facs_other.
  Qed.

  (* the last mode, which only non_negative_parafac_hals lets the caller fix: the returned factor is the supplied one
     with the weights absorbed *)
  Theorem fixed_last_mode_hals n fixed budget tol R w (fs : list mat) x s' :
    run NNHals n fixed budget tol (start x (init_cp rI rmul eqb R (Some w) fs)) = Ok s' ->
    In (length fs - 1) fixed -> fs <> [] ->
    nth (length fs - 1) (facs s') [] =
    if all_ones rI eqb w then nth (length fs - 1) fs [] else scale_cols rmul (nth (length fs - 1) fs []) w.
  Proof.
    intros Hrun Hin Hne.
    rewrite (run_fixed_user upd stop normf pre pre_on post ls_on ls_accept lsf lsw lsx NNHals n fixed budget tol
               (start x (init_cp rI rmul eqb R (Some w) fs)) s' [] (length fs - 1));
      [| intros H; discriminate | exact Hrun | exact Hin | discriminate].
    unfold start, init_cp. destruct (all_ones rI eqb w); cbn [facs snd]; [reflexivity|]. now apply nth_absorb_last_last.
  Qed.
End EndToEnd.

Lemma hals_fixed_last_counterexample : exists (w : list Z) (fs : list (list (list Z))) s',
  run (fun _ m s => (nth m (facs s) [], tt)) (fun _ _ => false) (fun s => s) false (fun _ m s => nth m (facs s) []) (fun _ => false) (fun _ _ => tt)
      (fun _ => false) (fun _ _ _ => false) (fun _ _ l c => c) (fun _ _ l c => c) (fun _ _ _ => tt) NNHals 2 [1] 1 true
      (start tt (init_cp 1%Z Z.mul Z.eqb 1 (Some w) fs)) = Ok s' /\ In 1 [1] /\
  nth 1 (facs s') [] <> nth 1 fs [].
Proof.
  exists [2%Z], [[[1%Z]]; [[1%Z]]]. eexists. split; [vm_compute; reflexivity|]. split; [now left|]. vm_compute. discriminate.
Qed.

(* ---- end to end, zero budget: every algorithm returns a CP tensor that represents the supplied one *)
Section ZeroEndToEnd.
  Variable F : Type.
  Variables (rO rI : F) (radd rmul rsub : F -> F -> F) (ropp : F -> F).
  Hypothesis Rth : ring_theory rO rI radd rmul rsub ropp (@eq F).
  Variable eqb : F -> F -> bool.
  Hypothesis eqb_ok : forall x y, eqb x y = true <-> x = y.

  Theorem zero_budget_end_to_end (X : Type) (x : X) upd stop normf normalize pre pre_on post ls_on ls_accept lsf lsw lsx
      a n fixed tol R w (fs : list (@matrix F)) idx :
    fs <> [] -> length w = R ->
    exists s', run upd stop normf normalize pre pre_on post ls_on ls_accept lsf lsw lsx a n fixed 0 tol
                   (start x (init_cp rI rmul eqb R (Some w) fs)) = Ok s' /\
      cp_entry rO rI radd rmul R (wts s') (facs s') idx = cp_entry rO rI radd rmul R w fs idx.
  Proof.
    intros Hne Hl. eexists. split; [apply run_zero_budget|].
    unfold start. cbn [wts facs]. now apply (init_cp_represents F rO rI radd rmul rsub ropp Rth eqb eqb_ok).
  Qed.
End ZeroEndToEnd.
