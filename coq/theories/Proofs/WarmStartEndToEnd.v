(* C14 -- lemmas, part 5: end to end.  The initialiser composed with the control skeleton: a fixed mode other than
   the last is returned as the supplied array; what non_negative_parafac_hals returns for a fixed LAST mode; the
   zero-budget result of every algorithm represents the supplied CP tensor. *)
From Coq Require Import List Arith Lia Bool Ring ZArith.
From TLV Require Import Base.Shape Base.PyList Base.Tensor Base.BigSum Model.WarmStart Proofs.WarmStartProofs.
Import ListNotations.

(* ---- end to end: initialiser + skeleton *)
Section EndToEnd.
  Context {F : Type} (rI : F) (rmul : F -> F -> F) (eqb : F -> F -> bool).
  Notation mat := (@matrix F).

  Lemma nth_absorb_last_other w : forall (fs : list mat) m d, m < length fs - 1 -> nth m (absorb_last rmul w fs) d = nth m fs d.
  Proof.
    induction fs as [|A fs IH]; intros m d Hm; [simpl in Hm; lia|]. destruct fs as [|B fs]; [simpl in Hm; lia|].
    change (absorb_last rmul w (A :: B :: fs)) with (A :: absorb_last rmul w (B :: fs)).
    destruct m as [|m]; [reflexivity|]. cbn [nth]. apply IH. simpl in *. lia.
  Qed.
  Lemma nth_absorb_last_last w : forall (fs : list mat), fs <> [] ->
    nth (length fs - 1) (absorb_last rmul w fs) [] = scale_cols rmul (nth (length fs - 1) fs []) w.
  Proof.
    induction fs as [|A fs IH]; intros Hne; [congruence|]. destruct fs as [|B fs]; [reflexivity|].
    change (absorb_last rmul w (A :: B :: fs)) with (A :: absorb_last rmul w (B :: fs)).
    replace (length (A :: B :: fs) - 1) with (S (length (B :: fs) - 1)) by (simpl; lia). cbn [nth].
    apply IH. discriminate.
  Qed.

  Definition start {X} (x : X) (wf : list F * list mat) : st mat (list F) X := mkst (fst wf) (snd wf) x.

  Lemma init_cp_facs_other R w (fs : list mat) m d : m < length fs - 1 -> nth m (snd (init_cp rI rmul eqb R w fs)) d = nth m fs d.
  Proof.
    intros Hm. unfold init_cp. destruct (all_ones rI eqb _); cbn [snd]; [reflexivity|]. now apply nth_absorb_last_other.
  Qed.

  Context {X : Type}.
  Variable upd : nat -> nat -> st mat (list F) X -> mat * X.
  Variable stop : nat -> st mat (list F) X -> bool.
  Variable normf : st mat (list F) X -> st mat (list F) X.
  Variable pre : nat -> nat -> st mat (list F) X -> mat.
  Variable pre_on : nat -> bool.
  Variable post : nat -> st mat (list F) X -> X.
  Variable ls_on : nat -> bool.
  Variable ls_accept : nat -> st mat (list F) X -> st mat (list F) X -> bool.
  Variable lsf : nat -> st mat (list F) X -> mat -> mat -> mat.
  Variable lsw : nat -> st mat (list F) X -> list F -> list F -> list F.
  Variable lsx : nat -> st mat (list F) X -> st mat (list F) X -> X.
  Notation run := (run upd stop normf false pre pre_on post ls_on ls_accept lsf lsw lsx).

  (* a fixed mode other than the last: the returned factor IS the supplied one, through the initialiser and any
     number of sweeps of any algorithm (hooks: as in run_fixed_hooks) *)
  Theorem fixed_end_to_end a n fixed budget tol R w (fs : list mat) x s' m d :
    ls_fixpoint lsf a ->
    run a n fixed budget tol (start x (init_cp rI rmul eqb R w fs)) = Ok s' ->
    In m fixed -> (drops_last a = true -> m <> n - 1) -> m < length fs - 1 ->
    nth m (facs s') d = nth m fs d.
  Proof.
    intros Hls Hrun Hin Hl Hm.
    rewrite (run_fixed_user upd stop normf pre pre_on post ls_on ls_accept lsf lsw lsx a n fixed budget tol _ s' d m Hls Hrun Hin Hl).
    unfold start. cbn [facs]. now apply init_cp_facs_other.
  Qed.

  (* non_negative_parafac_hals (the one driver that lets the caller fix the last mode) starts from init_hals: EVERY fixed
     mode comes back as the supplied array as soon as one mode is left to update, or the weights are unit *)
  Lemma last_In_ne (l : list nat) : l <> [] -> In (last l 0) l.
  Proof. induction l as [|a l IH]; [congruence|]. intros _. destruct l as [|b l]; [now left|]. right. apply IH. discriminate. Qed.

  Lemma init_cp_facs_unit R w (fs : list mat) :
    all_ones rI eqb (match w with None => ones rI R | Some v => v end) = true -> snd (init_cp rI rmul eqb R w fs) = fs.
  Proof. unfold init_cp. intros H. now rewrite H. Qed.

  Lemma all_ones_ones' R : (forall x y, eqb x y = true <-> x = y) -> all_ones rI eqb (ones rI R) = true.
  Proof. intros H. unfold all_ones, ones. apply forallb_forall. intros x Hx. apply repeat_spec in Hx. now apply H. Qed.

  Lemma init_hals_facs_fixed R n fixed w (fs : list mat) m d : (forall x y, eqb x y = true <-> x = y) ->
    n = length fs -> In m fixed -> m < n ->
    (modes_list NNHals n fixed <> [] \/ all_ones rI eqb (match w with None => ones rI R | Some v => v end) = true) ->
    nth m (snd (init_hals rI rmul eqb R n fixed w fs)) d = nth m fs d.
  Proof.
    intros Heq Hn Hin Hm Hor. unfold init_hals.
    set (w' := match w with None => ones rI R | Some v => v end) in *.
    set (free := modes_list NNHals n fixed) in *.
    destruct (memb (n - 1) fixed) eqn:Elast; cbn [andb].
    - destruct (Nat.eqb_spec (length free) 0) as [E0|E0]; cbn [negb andb].
      + (* nothing to update: then the weights are unit by hypothesis *)
        destruct Hor as [Hne|Hones]; [destruct free; [congruence | discriminate]|].
        now rewrite (init_cp_facs_unit R w fs Hones).
      + destruct (all_ones rI eqb w') eqn:Eo; cbn [negb].
        * now rewrite (init_cp_facs_unit R w fs Eo).
        * unfold init_cp. rewrite (all_ones_ones' R Heq). cbn [snd].
          unfold absorb_at. apply nth_set_nth_other. intros ->.
          assert (Hl : In (last free 0) free) by (apply last_In_ne; destruct free; [simpl in E0; congruence | discriminate]).
          apply modes_list_In in Hl. destruct Hl as [_ Hl]. apply Hl. exact Hin.
    - (* the last mode is not fixed: m is not the last mode *)
      assert (m <> n - 1) by (intros ->; apply memb_In in Hin; congruence).
      apply init_cp_facs_other. lia.
  Qed.

  Theorem hals_fixed_end_to_end n fixed budget tol R w (fs : list mat) x s' m d : (forall x y, eqb x y = true <-> x = y) ->
    run NNHals n fixed budget tol (start x (init_hals rI rmul eqb R n fixed w fs)) = Ok s' ->
    n = length fs -> In m fixed -> m < n ->
    (modes_list NNHals n fixed <> [] \/ all_ones rI eqb (match w with None => ones rI R | Some v => v end) = true) ->
    nth m (facs s') d = nth m fs d.
  Proof.
    intros Heq Hrun Hn Hin Hm Hor.
    rewrite (run_fixed_user upd stop normf pre pre_on post ls_on ls_accept lsf lsw lsx NNHals n fixed budget tol
               (start x (init_hals rI rmul eqb R n fixed w fs)) s' d m);
      [| intros H; discriminate | exact Hrun | exact Hin | discriminate].
    unfold start. cbn [facs]. now apply init_hals_facs_fixed.
  Qed.

  (* what is left: every mode fixed AND non-unit weights -- there is no updated mode to take the weights, the all-fixed
     return carries them in the last factor (init_hals = init_cp there) *)
End EndToEnd.

Lemma hals_all_fixed_weights_counterexample : exists (w : list Z) (fs : list (list (list Z))) s',
  run (fun _ m s => (nth m (facs s) [], tt)) (fun _ _ => false) (fun s => s) false (fun _ m s => nth m (facs s) []) (fun _ => false) (fun _ _ => tt)
      (fun _ => false) (fun _ _ _ => false) (fun _ _ l c => c) (fun _ _ l c => c) (fun _ _ _ => tt) NNHals 2 [0; 1] 1 true
      (start tt (init_hals 1%Z Z.mul Z.eqb 1 2 [0; 1] (Some w) fs)) = Ok s' /\ (forall m, m < 2 -> In m [0; 1]) /\
  nth 1 (facs s') [] <> nth 1 fs [].
Proof.
  exists [2%Z], [[[1%Z]]; [[1%Z]]]. eexists. split; [vm_compute; reflexivity|].
  split; [intros m Hm; destruct m as [|[|m]]; simpl; auto; lia|]. vm_compute. discriminate.
Qed.

(* ---- end to end, zero budget: every algorithm returns a CP tensor that represents the supplied one *)
Section ZeroEndToEnd.
  Variable F : Type.
  Variables (rO rI : F) (radd rmul rsub : F -> F -> F) (ropp : F -> F).
  Hypothesis Rth : ring_theory rO rI radd rmul rsub ropp (@eq F).
  Variable eqb : F -> F -> bool.
  Hypothesis eqb_ok : forall x y, eqb x y = true <-> x = y.

  Theorem zero_budget_end_to_end (X : Type) (x : X) upd stop normf normalize pre pre_on post ls_on ls_accept lsf lsw lsx
      a n fixed tol R w (fs : list (@matrix F)) idx :
    fs <> [] -> length w = R ->
    exists s', run upd stop normf normalize pre pre_on post ls_on ls_accept lsf lsw lsx a n fixed 0 tol
                   (start x (init_cp rI rmul eqb R (Some w) fs)) = Ok s' /\
      cp_entry rO rI radd rmul R (wts s') (facs s') idx = cp_entry rO rI radd rmul R w fs idx.
  Proof.
    intros Hne Hl. eexists. split; [apply run_zero_budget|].
    unfold start. cbn [wts facs]. now apply (init_cp_represents F rO rI radd rmul rsub ropp Rth eqb eqb_ok).
  Qed.

  (* the start state of non_negative_parafac_hals represents the supplied CP tensor, whichever factor took the weights *)
  Theorem init_hals_represents R n fixed w (fs : list (@matrix F)) idx : fs <> [] -> length w = R -> n = length fs ->
    cp_entry rO rI radd rmul R (fst (init_hals rI rmul eqb R n fixed (Some w) fs)) (snd (init_hals rI rmul eqb R n fixed (Some w) fs)) idx
    = cp_entry rO rI radd rmul R w fs idx.
  Proof.
    intros Hne Hl Hn. unfold init_hals.
    destruct (memb (n - 1) fixed && negb (length (modes_list NNHals n fixed) =? 0) && negb (all_ones rI eqb w)) eqn:E.
    - rewrite (init_cp_none F rI rmul eqb eqb_ok). cbn [fst snd]. symmetry.
      apply (cp_absorb_entry_at F rO rI radd rmul rsub ropp Rth).
      apply andb_true_iff in E. destruct E as [E _]. apply andb_true_iff in E. destruct E as [_ E].
      apply negb_true_iff in E. apply Nat.eqb_neq in E.
      assert (Hin : In (last (modes_list NNHals n fixed) 0) (modes_list NNHals n fixed))
        by (apply last_In_ne; destruct (modes_list NNHals n fixed); [simpl in E; congruence | discriminate]).
      apply modes_list_In in Hin. lia.
    - now apply (init_cp_represents F rO rI radd rmul rsub ropp Rth eqb eqb_ok).
  Qed.
End ZeroEndToEnd.
