(* C14 -- the block of non_negative_parafac_hals in front of initialize_cp, tied SEMANTICALLY: any function pre that sends the
   weights into a mode that is updated (and only when they are non-unit), and that leaves them to initialize_cp (last factor) only
   when the last mode is not fixed, the weights are unit or nothing is updated, gives a start state that represents the supplied
   tensor and keeps every fixed factor as supplied.  The generated hals_pre_src is proved to be such a function on every run. *)
From Coq Require Import List Arith Lia Bool Ring ZArith.
From TLV Require Import Base.Shape Base.PyList Base.Tensor Base.BigSum Model.WarmStart Proofs.WarmStartProofs Proofs.WarmStartEndToEnd Proofs.WarmStartSrc.
Import ListNotations.

Definition hals_pre_ok (pre : nat -> list nat -> bool -> option nat) : Prop :=
  (forall n fixed nu k, pre n fixed nu = Some k -> nu = true /\ In k (modes_list NNHals n fixed)) /\
  (forall n fixed nu, pre n fixed nu = None -> nu = true -> In (n - 1) fixed -> modes_list NNHals n fixed = []).

Section HalsGen.
  Context {F : Type} (rI : F) (rmul : F -> F -> F) (eqb : F -> F -> bool).
  Variable pre : nat -> list nat -> bool -> option nat.
  Definition init_hals_gen (R n : nat) (fixed : list nat) (w : option (list F)) (fs : list (@matrix F)) : list F * list (@matrix F) :=
    let w' := match w with None => ones rI R | Some v => v end in
    match pre n fixed (negb (all_ones rI eqb w')) with
    | Some k => init_cp rI rmul eqb R None (absorb_at rmul k w' fs)
    | None => init_cp rI rmul eqb R w fs
    end.
  Hypothesis Hpre : hals_pre_ok pre.
  Hypothesis Heq : forall x y, eqb x y = true <-> x = y.

  Lemma init_hals_gen_facs_fixed R n fixed w (fs : list (@matrix F)) m d :
    n = length fs -> In m fixed -> m < n ->
    (modes_list NNHals n fixed <> [] \/ all_ones rI eqb (match w with None => ones rI R | Some v => v end) = true) ->
    nth m (snd (init_hals_gen R n fixed w fs)) d = nth m fs d.
  Proof.
    intros Hn Hin Hm Hor. unfold init_hals_gen. destruct Hpre as [H1 H2].
    set (w' := match w with None => ones rI R | Some v => v end) in *.
    destruct (pre n fixed (negb (all_ones rI eqb w'))) as [k|] eqn:E.
    - destruct (H1 _ _ _ _ E) as [_ Hk]. apply modes_list_In in Hk. destruct Hk as [_ Hk].
      unfold init_cp. rewrite (all_ones_ones' rI eqb R Heq). cbn [snd]. unfold absorb_at. apply nth_set_nth_other.
      intros ->. apply Hk. exact Hin.
    - destruct (all_ones rI eqb w') eqn:Eo.
      + now rewrite (init_cp_facs_unit rI rmul eqb R w fs Eo).
      + destruct (memb (n - 1) fixed) eqn:El.
        * apply memb_In in El. specialize (H2 _ _ _ E eq_refl El). destruct Hor as [Hne|Ho]; [congruence | discriminate].
        * assert (m <> n - 1) by (intros ->; apply memb_In in Hin; congruence).
          apply init_cp_facs_other. lia.
  Qed.
End HalsGen.

Section HalsGenRing.
  Context {F : Type} (rO rI : F) (radd rmul rsub : F -> F -> F) (ropp : F -> F).
  Hypothesis Rth : ring_theory rO rI radd rmul rsub ropp (@eq F).
  Variable eqb : F -> F -> bool.
  Hypothesis eqb_ok : forall x y, eqb x y = true <-> x = y.
  Variable pre : nat -> list nat -> bool -> option nat.
  Hypothesis Hpre : hals_pre_ok pre.
  Theorem init_hals_gen_represents R n fixed w (fs : list (@matrix F)) idx : fs <> [] -> length w = R -> n = length fs ->
    cp_entry rO rI radd rmul R (fst (init_hals_gen rI rmul eqb pre R n fixed (Some w) fs)) (snd (init_hals_gen rI rmul eqb pre R n fixed (Some w) fs)) idx
    = cp_entry rO rI radd rmul R w fs idx.
  Proof.
    intros Hne Hl Hn. unfold init_hals_gen. destruct Hpre as [H1 _].
    destruct (pre n fixed (negb (all_ones rI eqb w))) as [k|] eqn:E.
    - rewrite (init_cp_none F rI rmul eqb eqb_ok). cbn [fst snd]. symmetry.
      apply (cp_absorb_entry_at F rO rI radd rmul rsub ropp Rth).
      destruct (H1 _ _ _ _ E) as [_ Hk]. apply modes_list_In in Hk. lia.
    - now apply (init_cp_represents F rO rI radd rmul rsub ropp Rth eqb eqb_ok).
  Qed.
End HalsGenRing.

(* every fixed mode, the last included, is returned as supplied: for ANY admissible block *)
Theorem hals_gen_fixed_end_to_end : forall (F : Type) (rI : F) (rmul : F -> F -> F) (eqb : F -> F -> bool) pre, hals_pre_ok pre ->
  forall (X : Type) upd stop normf prehook pre_on post ls_on ls_accept lsf lsw lsx n fixed budget tol R (w : option (list F))
    (fs : list (@matrix F)) (x : X) s' m d,
  (forall x y, eqb x y = true <-> x = y) ->
  run upd stop normf false prehook pre_on post ls_on ls_accept lsf lsw lsx NNHals n fixed budget tol (start x (init_hals_gen rI rmul eqb pre R n fixed w fs)) = Ok s' ->
  n = length fs -> In m fixed -> m < n ->
  (modes_list NNHals n fixed <> [] \/ all_ones rI eqb (match w with None => ones rI R | Some v => v end) = true) ->
  nth m (facs s') d = nth m fs d.
Proof.
  intros F rI rmul eqb pre Hpre X upd stop normf prehook pre_on post ls_on ls_accept lsf lsw lsx n fixed budget tol R w fs x s' m d Heq Hrun Hn Hin Hm Hor.
  rewrite (run_fixed_user upd stop normf prehook pre_on post ls_on ls_accept lsf lsw lsx NNHals n fixed budget tol (start x (init_hals_gen rI rmul eqb pre R n fixed w fs)) s' d m);
    [| intros H; discriminate | exact Hrun | exact Hin | discriminate].
  unfold start. cbn [facs]. now apply init_hals_gen_facs_fixed.
Qed.

(* the model's block is admissible, and init_hals is its instance *)
Lemma hals_pre_model_ok : hals_pre_ok hals_pre_model.
Proof.
  split.
  - intros n fixed nu k. unfold hals_pre_model. destruct (memb (n - 1) fixed && _ && nu) eqn:E; [|discriminate].
    intros [= <-]. apply andb_true_iff in E as [E Hnu]. apply andb_true_iff in E as [_ E]. split; [exact Hnu|].
    apply negb_true_iff, Nat.eqb_neq in E. apply last_In_ne. destruct (modes_list NNHals n fixed); [simpl in E; congruence | discriminate].
  - intros n fixed nu. unfold hals_pre_model. destruct (memb (n - 1) fixed && _ && nu) eqn:E; [discriminate|].
    intros _ -> Hin. apply memb_In in Hin. rewrite Hin in E. cbn [andb] in E. rewrite andb_true_r in E.
    apply negb_false_iff, Nat.eqb_eq in E. now apply length_zero_iff_nil.
Qed.
Lemma init_hals_is_gen {F : Type} (rI : F) (rmul : F -> F -> F) (eqb : F -> F -> bool) R n fixed w (fs : list (@matrix F)) :
  init_hals rI rmul eqb R n fixed w fs = init_hals_gen rI rmul eqb hals_pre_model R n fixed w fs.
Proof. unfold init_hals_gen. apply init_hals_via_pre. Qed.

(* automation for the generated file: hals_pre_ok of a nest of ifs over memb / length-of-the-free-list / nonunit *)
Lemma last_In_len (l : list nat) : Nat.eqb (length l) 0 = false -> In (last l 0) l.
Proof. intros E. apply Nat.eqb_neq in E. apply last_In_ne. destruct l; [simpl in E; congruence | discriminate]. Qed.
Lemma len0_nil (l : list nat) : Nat.eqb (length l) 0 = true -> l = [].
Proof. intros E. apply Nat.eqb_eq in E. now apply length_zero_iff_nil. Qed.
Ltac hals_bools :=
  repeat match goal with
         | H : (_ && _) = true |- _ => apply andb_true_iff in H; destruct H
         | H : negb _ = true |- _ => apply negb_true_iff in H
         | H : negb _ = false |- _ => apply negb_false_iff in H
         end.
Ltac hals_pre_sem :=
  split;
  [ intros n fixed nu k H; unfold modes_list, eff_fixed, drops_last; cbn [andb];
    repeat match type of H with context [if ?c then _ else _] => destruct c eqn:? end; try discriminate;
    injection H as <-; hals_bools; subst; split; [reflexivity | now apply last_In_len]
  | intros n fixed nu H Hnu Hin; subst nu; unfold modes_list, eff_fixed, drops_last; cbn [andb]; apply memb_In in Hin;
    repeat match type of H with context [if ?c then _ else _] => destruct c eqn:? end; try discriminate;
    try congruence;
    repeat match goal with
           | E : (_ && true) = false |- _ => rewrite andb_true_r in E
           | E : (true && _) = false |- _ => cbn [andb] in E
           end; hals_bools; try congruence; now apply len0_nil ].

Definition hals_pre_expect2 (n : nat) (fixed : list nat) (nonunit : bool) : option nat :=
  if memb (n - 1) fixed
  then (if (negb (Nat.eqb (length (filter (fun mode => negb (memb mode fixed)) (seq 0 n))) 0) && nonunit)
        then Some (last (filter (fun mode => negb (memb mode fixed)) (seq 0 n)) 0) else None)
  else None.
Lemma hals_pre_expect2_ok : hals_pre_ok hals_pre_expect2.
Proof. unfold hals_pre_expect2. hals_pre_sem. Qed.
(* an equivalent re-formulation: always the last updated mode *)
Definition hals_pre_expect3 (n : nat) (fixed : list nat) (nonunit : bool) : option nat :=
  if (negb (Nat.eqb (length (filter (fun mode => negb (memb mode fixed)) (seq 0 n))) 0) && nonunit)
  then Some (last (filter (fun mode => negb (memb mode fixed)) (seq 0 n)) 0) else None.
Lemma hals_pre_expect3_ok : hals_pre_ok hals_pre_expect3.
Proof. unfold hals_pre_expect3. hals_pre_sem. Qed.
