(* C14 -- fixed modes under normalize_factors=True.  cp_normalize / tucker_normalize rescale the columns of EVERY factor, the
   fixed ones included, so a fixed factor is not returned bit-identical; what survives is any preorder the normalisation
   respects factor by factor -- in particular "is the supplied factor up to finitely many column rescalings". *)
From Coq Require Import List Arith Bool Lia Relations.
From TLV Require Import Base.Shape Base.PyList Base.Tensor Model.WarmStart Proofs.WarmStartProofs.
Import ListNotations.

Lemma hooks_no_inner_norm a : has_hooks a = true -> inner_norm a = false.
Proof. destruct a; cbn; congruence. Qed.

Section NormFacts.
  Context {M W X : Type}.
  Variable upd : nat -> nat -> st M W X -> M * X.
  Variable stop : nat -> st M W X -> bool.
  Variable normf : st M W X -> st M W X.
  Variable normalize : bool.
  Variable pre : nat -> nat -> st M W X -> M.
  Variable pre_on : nat -> bool.
  Variable post : nat -> st M W X -> X.
  Variable ls_on : nat -> bool.
  Variable ls_accept : nat -> st M W X -> st M W X -> bool.
  Variable lsf : nat -> st M W X -> M -> M -> M.
  Variable lsw : nat -> st M W X -> W -> W -> W.
  Variable lsx : nat -> st M W X -> st M W X -> X.
  Variable d : M.
  Variable Rel : M -> M -> Prop.
  Hypothesis Rel_refl : forall x, Rel x x.
  Hypothesis Rel_trans : forall x y z, Rel x y -> Rel y z -> Rel x z.
  (* the normalisation respects Rel factor by factor and keeps the number of factors *)
  Hypothesis Hnorm : forall s m, Rel (nth m (facs s) d) (nth m (facs (normf s)) d).
  Hypothesis Hlen : forall s, length (facs (normf s)) = length (facs s).

  Notation step := (step upd normf normalize).
  Notation iterate := (iterate upd stop normf normalize pre pre_on post ls_on ls_accept lsf lsw lsx).
  Notation run := (run upd stop normf normalize pre pre_on post ls_on ls_accept lsf lsw lsx).

  Lemma fold_step_rel a it ml m : forall l s, ~ In m l ->
    Rel (nth m (facs s) d) (nth m (facs (fold_left (step a it ml) l s)) d).
  Proof.
    induction l as [|k l IH]; intros s Hn; cbn [fold_left]; [apply Rel_refl|].
    eapply Rel_trans; [|apply IH; intros H; apply Hn; now right].
    unfold WarmStart.step.
    assert (E : nth m (facs (set_fac s k (upd it k s))) d = nth m (facs s) d).
    { unfold set_fac; cbn [facs]. apply nth_set_nth_other. intros ->. apply Hn. now left. }
    destruct (normalize && inner_norm a && negb (k =? last ml 0)).
    - rewrite <- E. apply Hnorm.
    - rewrite E. apply Rel_refl.
  Qed.
  Lemma fold_step_len a it ml : forall l s, length (facs (fold_left (step a it ml) l s)) = length (facs s).
  Proof.
    induction l as [|k l IH]; intros s; cbn [fold_left]; [reflexivity|]. rewrite IH. unfold WarmStart.step.
    destruct (normalize && inner_norm a && negb (k =? last ml 0)); [rewrite Hlen|]; unfold set_fac; cbn [facs]; apply set_nth_length.
  Qed.
  (* without an inner normalisation (parafac, the driver with the hooks) the sweep leaves the factor where it was *)
  Lemma fold_step_eq a it ml m : inner_norm a = false -> forall l s, ~ In m l ->
    nth m (facs (fold_left (step a it ml) l s)) d = nth m (facs s) d.
  Proof.
    intros Hi. induction l as [|k l IH]; intros s Hn; cbn [fold_left]; [reflexivity|].
    rewrite IH by (intros H; apply Hn; now right). unfold WarmStart.step. rewrite Hi, andb_false_r. cbn [andb].
    unfold set_fac; cbn [facs]. apply nth_set_nth_other. intros ->. apply Hn. now left.
  Qed.

  Lemma iterate_rel a free ml m : ~ In m ml -> free m = false -> (has_hooks a = true -> forall it s x, lsf it s x x = x) ->
    forall b it s, Rel (nth m (facs s) d) (nth m (facs (iterate a free b it ml s)) d).
  Proof.
    intros Hn Hfree Hls. induction b as [|b IH]; intros it s; cbn [WarmStart.iterate]; [apply Rel_refl|].
    set (s0 := if has_hooks a && pre_on it then pre_state pre free it s else s).
    assert (H0 : nth m (facs s0) d = nth m (facs s) d).
    { unfold s0. destruct (has_hooks a && pre_on it); [|reflexivity]. unfold pre_state; cbn [facs]. now apply pre_apply_other. }
    set (sw := sweep upd normf normalize a it ml s0).
    set (s1 := mkst (wts sw) (facs sw) (post it sw)).
    set (s2 := if has_hooks a && ls_on it && ls_accept it s0 s1 then ls_point lsf lsw lsx it s0 s1 else s1).
    assert (H2 : Rel (nth m (facs s0) d) (nth m (facs s2) d)).
    { unfold s2. destruct (has_hooks a) eqn:Eh; cbn [andb].
      - assert (Hi := hooks_no_inner_norm a Eh).
        assert (Hsw : nth m (facs sw) d = nth m (facs s0) d) by (unfold sw, sweep; now apply fold_step_eq).
        destruct (ls_on it && ls_accept it s0 s1).
        + rewrite (ls_point_other lsf lsw lsx it s0 s1 d m); [apply Rel_refl | intros; now apply Hls | | exact Hsw].
          unfold s1; cbn [facs]. unfold sw, sweep. apply fold_step_len.
        + unfold s1; cbn [facs]. rewrite Hsw. apply Rel_refl.
      - unfold s1; cbn [facs]. unfold sw, sweep. now apply fold_step_rel. }
    set (s3 := if normalize then normf s2 else s2).
    assert (H3 : Rel (nth m (facs s) d) (nth m (facs s3) d)).
    { rewrite <- H0. eapply Rel_trans; [exact H2|]. unfold s3. destruct normalize; [apply Hnorm | apply Rel_refl]. }
    destruct (stop it s3); [exact H3|]. eapply Rel_trans; [exact H3 | apply IH].
  Qed.

  Theorem run_fixed_rel a n fixed budget tol s s' m : (has_hooks a = true -> forall it s x, lsf it s x x = x) ->
    run a n fixed budget tol s = Ok s' -> In m (eff_fixed a n fixed) -> Rel (nth m (facs s) d) (nth m (facs s') d).
  Proof.
    intros Hls. unfold WarmStart.run. destruct (shortcut a && names_every_mode fixed n); [intros [= <-] _; apply Rel_refl|].
    destruct (empty_returns a && (length (modes_list a n fixed) =? 0)); [intros [= <-] _; apply Rel_refl|].
    destruct (needs_mode a tol && (0 <? budget) && (length (modes_list a n fixed) =? 0)); [discriminate|].
    intros [= <-] Hin. apply iterate_rel; auto.
    - intros H. apply modes_list_In in H. tauto.
    - apply negb_false_iff. now apply memb_In.
  Qed.
End NormFacts.

(* instance: column rescalings.  `rescaled A B`: B is obtained from A by finitely many column rescalings *)
Definition rescaled {F : Type} (mul : F -> F -> F) : list (list F) -> list (list F) -> Prop :=
  clos_refl_trans _ (fun A B => exists c, B = scale_cols mul A c).

Theorem fixed_modes_normalized : forall (F : Type) (mul : F -> F -> F) (W X : Type) upd stop
  (normf : st (list (list F)) W X -> st (list (list F)) W X) normalize pre pre_on post ls_on ls_accept lsf lsw lsx
  a n fixed budget tol (s s' : st (list (list F)) W X) m,
  (forall s m, exists c, nth m (facs (normf s)) [] = scale_cols mul (nth m (facs s) []) c) ->
  (forall s, length (facs (normf s)) = length (facs s)) ->
  (has_hooks a = true -> forall it s x, lsf it s x x = x) ->
  run upd stop normf normalize pre pre_on post ls_on ls_accept lsf lsw lsx a n fixed budget tol s = Ok s' ->
  In m (eff_fixed a n fixed) -> rescaled mul (nth m (facs s) []) (nth m (facs s') []).
Proof.
  intros F mul W X upd stop normf normalize pre pre_on post ls_on ls_accept lsf lsw lsx a n fixed budget tol s s' m Hn Hl Hls Hrun Hin.
  eapply (run_fixed_rel upd stop normf normalize pre pre_on post ls_on ls_accept lsf lsw lsx [] (rescaled mul)); eauto.
  - intros x. apply rt_refl.
  - intros x y z. apply rt_trans.
  - intros s0 m0. apply rt_step. apply Hn.
Qed.

(* non-vacuity: a normalisation that halves... over nat: multiplies every column of every factor by 2; a fixed factor comes back rescaled
   (not equal), a free one is overwritten *)
Example normalized_example :
  let normf := fun s : st (list (list nat)) unit unit => mkst (wts s) (map (fun A => scale_cols Nat.mul A [2; 2]) (facs s)) (aux s) in
  run (fun _ _ s => ([[7; 7]], tt)) (fun _ _ => false) normf true (fun _ _ _ => []) (fun _ => false) (fun _ _ => tt) (fun _ => false)
      (fun _ _ _ => false) (fun _ _ l c => c) (fun _ _ l c => c) (fun _ _ _ => tt) Parafac 2 [0] 1 true (mkst tt [[[1; 3]]; [[5; 5]]] tt)
  = Ok (mkst tt [[[2; 6]]; [[14; 14]]] tt).
Proof. vm_compute. reflexivity. Qed.
