(* C14 -- lemmas, part 4: PARAFAC2.  Weights absorbed into B represent the same tensor; the main loop's absorb step
   makes (w; A,B,C; P) and (1; A, B diag(w), C; P) iterate identically; initialisation from a CP tensor (QR tape)
   and from a Parafac2Tensor; the rank check. *)
From Coq Require Import List Arith Lia Bool Ring.
From TLV Require Import Base.Shape Base.PyList Base.Tensor Base.BigSum Model.WarmStart Proofs.WarmStartProofs.
Import ListNotations.

Section P2Ring.
  Variable F : Type.
  Variables (rO rI : F) (radd rmul rsub : F -> F -> F) (ropp : F -> F).
  Hypothesis Rth : ring_theory rO rI radd rmul rsub ropp (@eq F).
  Add Ring Frp : Rth.

  Lemma length_zipmul (row w : list F) : length (zipmul rmul row w) = Nat.min (length row) (length w).
  Proof. unfold zipmul. now rewrite map_length, combine_length. Qed.

  (* PARAFAC2 tensor entry with the weights absorbed into B *)
  Theorem p2_absorb_entry R w A B C (P : list (@matrix F)) i j k :
    p2_entry rO radd rmul R w A B C P i j k =
    p2_entry rO radd rmul R (ones rI R) A (scale_cols rmul B w) C P i j k.
  Proof.
    unfold p2_entry. apply bigsum_ext; intros r Hr.
    rewrite (nth_ones F rO rI R r Hr).
    rewrite (bigsum_ext F rO radd R (fun s => rmul (mget rO (nth i P []) j s) (mget rO (scale_cols rmul B w) s r))
                          (fun s => rmul (rmul (mget rO (nth i P []) j s) (mget rO B s r)) (nth r w rO))).
    2:{ intros s Hs. rewrite (mget_scale_cols F rO rI radd rmul rsub ropp Rth).
        generalize (mget rO (nth i P []) j s) (mget rO B s r) (nth r w rO). intros; ring. }
    rewrite (bigsum_scale_r F rO rI radd rmul rsub ropp Rth).
    generalize (bigsum F rO radd R (fun s => rmul (mget rO (nth i P []) j s) (mget rO B s r)))
               (nth r w rO) (mget rO A i r) (mget rO C k r). intros; ring.
  Qed.

  Lemma scale_cols_ones_again R (B : @matrix F) w : length w = R -> (forall row, In row B -> R <= length row) ->
    scale_cols rmul (scale_cols rmul B w) (ones rI R) = scale_cols rmul B w.
  Proof.
    intros Hl Hrows. unfold scale_cols at 1. rewrite <- (map_id (scale_cols rmul B w)) at 2.
    apply map_ext_in. intros row Hin. unfold scale_cols in Hin. apply in_map_iff in Hin.
    destruct Hin as [row0 [<- Hin0]]. apply (zipmul_ones F rO rI radd rmul rsub ropp Rth).
    - intros r Hr. unfold ones in Hr. rewrite repeat_length in Hr. now apply (nth_ones F rO rI).
    - unfold ones. rewrite repeat_length, length_zipmul. specialize (Hrows row0 Hin0). lia.
  Qed.

  Lemma absorb_at_1_again R w (fs : list (@matrix F)) : length w = R ->
    (forall row, In row (nth 1 fs []) -> R <= length row) ->
    absorb_at rmul 1 (ones rI R) (absorb_at rmul 1 w fs) = absorb_at rmul 1 w fs.
  Proof.
    intros Hl Hrows. unfold absorb_at. destruct fs as [|A [|B fs]]; [reflexivity | reflexivity |].
    cbn [nth set_nth]. f_equal. f_equal. now apply scale_cols_ones_again.
  Qed.

  Context {PT : Type}.
  Variable upd : nat -> p2st F PT -> list (@matrix F) * PT.
  Variable stop : nat -> p2st F PT -> bool.
  Variable normf : p2st F PT -> p2st F PT.
  Variable normalize : bool.

  Theorem p2_zero_budget R it s : p2_iterate rI rmul upd stop normf normalize R 0 it s = s.
  Proof. reflexivity. Qed.

  (* (w; A,B,C; P) and (1; A, B diag(w), C; P) have the same first absorbed state, hence the same iterates *)
  Theorem p2_same_iterates R w fs (P : PT) budget it : length w = R ->
    (forall row, In row (nth 1 fs []) -> R <= length row) -> 0 < budget ->
    p2_iterate rI rmul upd stop normf normalize R budget it (mkp2 (ones rI R) (absorb_at rmul 1 w fs) P)
    = p2_iterate rI rmul upd stop normf normalize R budget it (mkp2 w fs P).
  Proof.
    intros Hl Hrows Hb. destruct budget as [|b]; [lia|]. cbn [p2_iterate].
    unfold p2_absorb. cbn [p2w p2f p2P]. rewrite (absorb_at_1_again R w fs Hl Hrows). reflexivity.
  Qed.

  Theorem p2_run_zero_budget R s : p2_run rI rmul upd stop normf normalize R 0 s = if normalize then normf s else s.
  Proof. reflexivity. Qed.

  Theorem p2_run_same_iterates R w fs (P : PT) budget : normalize = false -> length w = R ->
    (forall row, In row (nth 1 fs []) -> R <= length row) -> 0 < budget ->
    p2_run rI rmul upd stop normf normalize R budget (mkp2 (ones rI R) (absorb_at rmul 1 w fs) P)
    = p2_run rI rmul upd stop normf normalize R budget (mkp2 w fs P).
  Proof.
    intros Hn Hl Hr Hb. unfold p2_run.
    assert (E : forall s : p2st F PT, (if normalize then normf s else s) = s) by (intros s; now rewrite Hn).
    rewrite !E. now apply p2_same_iterates.
  Qed.

  (* ---- initialisation from a CP tensor / a Parafac2Tensor *)
  Variable qr : @matrix F -> @matrix F * @matrix F.

  Theorem p2_init_rank rank init s : p2_init rI qr rank init = Ok s -> rank_of (p2f s) = rank.
  Proof.
    unfold p2_init. destruct init as [w fs | w fs P].
    - destruct fs as [|A [|B [|C [|D fs]]]]; try discriminate.
      destruct (Nat.eqb_spec (rank_of (p2f (mkp2 (dflt_w rI (rank_of [A]) w) [A; snd (qr B); C] (repeat (fst (qr B)) (length A))))) rank); [|discriminate].
      intros [= <-]. assumption.
    - destruct (Nat.eqb_spec (rank_of (p2f (mkp2 (dflt_w rI (rank_of fs) w) fs P))) rank); [|discriminate].
      intros [= <-]. assumption.
  Qed.

  Theorem p2_init_p2_unchanged rank w fs P s : p2_init rI qr rank (FromP2 (Some w) fs P) = Ok s -> s = mkp2 w fs P.
  Proof.
    unfold p2_init. cbn [dflt_w]. destruct (Nat.eqb _ rank); [|discriminate]. now intros [= <-].
  Qed.

  Theorem p2_init_cp_represents R w A B C s :
    (forall jj r, r < R -> bigsum F rO radd R (fun t => rmul (mget rO (fst (qr B)) jj t) (mget rO (snd (qr B)) t r)) = mget rO B jj r) ->
    p2_init rI qr R (FromCP (Some w) [A; B; C]) = Ok s ->
    exists Rm : @matrix F, p2f s = [A; Rm; C] /\ p2w s = w /\
      forall i j k, i < length A ->
        p2_entry rO radd rmul R (p2w s) A Rm C (p2P s) i j k = cp_entry rO rI radd rmul R w [A; B; C] [i; j; k].
  Proof.
    intros HQR. unfold p2_init. cbn [dflt_w]. destruct (Nat.eqb _ R); [|discriminate]. intros [= <-].
    exists (snd (qr B)). cbn [p2f p2w p2P]. split; [reflexivity|]. split; [reflexivity|].
    intros i j k Hi. apply (p2_from_cp F rO rI radd rmul rsub ropp Rth R w A B C (fst (qr B)) (snd (qr B))); [exact HQR|].
    apply nth_repeat_lt || (rewrite nth_indep with (d' := fst (qr B)) by (now rewrite repeat_length); apply nth_repeat).
  Qed.
End P2Ring.

(* ---- dense (tensor-level) forms of the CP identities: what the correspondence compares *)
Section DenseForms.
  Variable F : Type.
  Variables (rO rI : F) (radd rmul rsub : F -> F -> F) (ropp : F -> F).
  Hypothesis Rth : ring_theory rO rI radd rmul rsub ropp (@eq F).

  Lemma tabulate_ext (s : list nat) (f g : list nat -> F) : (forall idx, inb s idx -> f idx = g idx) -> tabulate s f = tabulate s g.
  Proof.
    intros H. apply (tensor_ext rO); try apply wf_tabulate; [reflexivity|].
    intros idx Hin. cbn [shape tabulate] in Hin. rewrite !get_tabulate by exact Hin. now apply H.
  Qed.

  Lemma length_scale_cols (A : @matrix F) w : length (scale_cols rmul A w) = length A.
  Proof. unfold scale_cols. apply map_length. Qed.
  Lemma cp_shape_absorb_last w : forall fs : list (@matrix F), cp_shape (absorb_last rmul w fs) = cp_shape fs.
  Proof.
    induction fs as [|A fs IH]; [reflexivity|]. destruct fs as [|B fs].
    - cbn [absorb_last cp_shape map]. now rewrite length_scale_cols.
    - rewrite absorb_last_cons2. change (cp_shape (A :: absorb_last rmul w (B :: fs))) with (length A :: cp_shape (absorb_last rmul w (B :: fs))).
      rewrite IH. reflexivity.
  Qed.

  Theorem cp_absorb_dense R w (fs : list (@matrix F)) : fs <> [] ->
    cp_dense rO rI radd rmul R (ones rI R) (absorb_last rmul w fs) = cp_dense rO rI radd rmul R w fs.
  Proof.
    intros Hne. unfold cp_dense. rewrite cp_shape_absorb_last. apply tabulate_ext. intros idx _.
    symmetry. now apply (cp_absorb_entry F rO rI radd rmul rsub ropp Rth).
  Qed.

  Variable eqb : F -> F -> bool.
  Hypothesis eqb_ok : forall x y, eqb x y = true <-> x = y.

  (* the dense tensor of what the initialiser returns is the dense tensor of what the user supplied *)
  Theorem init_cp_dense R w (fs : list (@matrix F)) : fs <> [] -> length w = R ->
    cp_dense rO rI radd rmul R (fst (init_cp rI rmul eqb R (Some w) fs)) (snd (init_cp rI rmul eqb R (Some w) fs))
    = cp_dense rO rI radd rmul R w fs.
  Proof.
    intros Hne Hl. unfold cp_dense.
    assert (Hs : cp_shape (snd (init_cp rI rmul eqb R (Some w) fs)) = cp_shape fs).
    { unfold init_cp. destruct (all_ones rI eqb w); cbn [snd]; [reflexivity | apply cp_shape_absorb_last]. }
    rewrite Hs. apply tabulate_ext. intros idx _.
    now apply (init_cp_represents F rO rI radd rmul rsub ropp Rth eqb eqb_ok).
  Qed.
End DenseForms.

(* ---- initialize_cp with normalize_factors (commit 3de556b): default False is the plain initialiser; with True the
   returned CP tensor is cp_normalize of it, which represents the same tensor PROVIDED cp_normalize does (division by
   norms: outside the ring regime, hence a hypothesis) *)
Section InitNorm.
  Context {F : Type} (rO rI : F) (radd rmul : F -> F -> F) (eqb : F -> F -> bool).
  Variable normf : list F * list (@matrix F) -> list F * list (@matrix F).

  Theorem init_cp_norm_default R w fs : init_cp_norm rI rmul eqb false normf R w fs = init_cp rI rmul eqb R w fs.
  Proof. reflexivity. Qed.

  Theorem init_cp_norm_represents R w fs idx :
    (forall x idx, cp_entry rO rI radd rmul R (fst (normf x)) (snd (normf x)) idx = cp_entry rO rI radd rmul R (fst x) (snd x) idx) ->
    forall b, cp_entry rO rI radd rmul R (fst (init_cp_norm rI rmul eqb b normf R w fs)) (snd (init_cp_norm rI rmul eqb b normf R w fs)) idx
    = cp_entry rO rI radd rmul R (fst (init_cp rI rmul eqb R w fs)) (snd (init_cp rI rmul eqb R w fs)) idx.
  Proof. intros H [|]; unfold init_cp_norm; [apply H | reflexivity]. Qed.
End InitNorm.
