(* C14 -- lemmas about Model/WarmStart.v.
   Part 1: ring-regime identities (abstract commutative ring: Section hypothesis ring_theory).
   Part 2: the control skeleton, for arbitrary update / stop / normalisation functions. *)
From Coq Require Import List Arith Lia Bool Ring.
From TLV Require Import Base.Shape Base.PyList Base.Tensor Base.BigSum Model.WarmStart.
Import ListNotations.

Section RingFacts.
  Variable F : Type.
  Variables (rO rI : F) (radd rmul rsub : F -> F -> F) (ropp : F -> F).
  Hypothesis Rth : ring_theory rO rI radd rmul rsub ropp (@eq F).
  Add Ring Fr : Rth.

  (* `ring` fails to reify goals whose atoms mention mget / nth / fprod / bigsum applied to list
     arguments; abstract those atoms first *)
  Ltac gring := repeat match goal with
    | |- context [mget ?z ?A ?i ?r] => generalize (mget z A i r); intro
    | |- context [fprod ?a ?b ?c ?d ?e ?f] => generalize (fprod a b c d e f); intro
    | |- context [bigsum ?a ?b ?c ?d ?e] => generalize (bigsum a b c d e); intro
    | |- context [@nth F ?r ?w ?z] => generalize (@nth F r w z); intro
    end; ring.

  Lemma nth_nil_F r : nth r (@nil F) rO = rO.
  Proof. destruct r; reflexivity. Qed.

  Lemma nth_zipmul row : forall w r, nth r (zipmul rmul row w) rO = rmul (nth r row rO) (nth r w rO).
  Proof.
    unfold zipmul. induction row as [|x row IH]; intros [|y w] [|r]; simpl; try gring. apply IH.
  Qed.

  Lemma mget_scale_cols A w i r :
    mget rO (scale_cols rmul A w) i r = rmul (mget rO A i r) (nth r w rO).
  Proof.
    unfold mget, scale_cols. destruct (lt_dec i (length A)) as [H|H].
    - rewrite nth_map' with (d := []) by exact H. apply nth_zipmul.
    - rewrite !nth_overflow with (n := i) by (rewrite ?map_length; lia). rewrite nth_nil_F. gring.
  Qed.

  Lemma absorb_last_cons2 w (A B : matrix) fs :
    absorb_last rmul w (A :: B :: fs) = A :: absorb_last rmul w (B :: fs).
  Proof. reflexivity. Qed.

  Lemma fprod_absorb_last w fs : fs <> [] -> forall idx r,
    fprod rO rI rmul (absorb_last rmul w fs) idx r = rmul (fprod rO rI rmul fs idx r) (nth r w rO).
  Proof.
    induction fs as [|A fs IH]; intros Hne idx r; [congruence|]. destruct fs as [|B fs].
    - cbn [absorb_last fprod]. rewrite mget_scale_cols. gring.
    - rewrite absorb_last_cons2. cbn [fprod]. rewrite IH by discriminate. cbn [fprod]. gring.
  Qed.

  Lemma fprod_absorb_at w : forall fs k idx r, k < length fs ->
    fprod rO rI rmul (absorb_at rmul k w fs) idx r = rmul (fprod rO rI rmul fs idx r) (nth r w rO).
  Proof.
    unfold absorb_at. induction fs as [|A fs IH]; intros k idx r Hk; simpl in Hk; [lia|].
    destruct k as [|k].
    - cbn [nth set_nth fprod]. rewrite mget_scale_cols. gring.
    - cbn [nth set_nth fprod]. rewrite IH by lia. gring.
  Qed.

  Lemma nth_ones R : forall r, r < R -> nth r (ones rI R) rO = rI.
  Proof. unfold ones. induction R; intros [|r] H; simpl; try lia; auto. apply IHR; lia. Qed.

  (* the ring-regime identity: weights absorbed into the LAST factor, every order, every rank *)
  Theorem cp_absorb_entry R w fs idx : fs <> [] ->
    cp_entry rO rI radd rmul R w fs idx = cp_entry rO rI radd rmul R (ones rI R) (absorb_last rmul w fs) idx.
  Proof.
    intros Hne. unfold cp_entry. apply bigsum_ext; intros r Hr.
    rewrite fprod_absorb_last by exact Hne. rewrite nth_ones by exact Hr. gring.
  Qed.

  (* ... and into ANY factor k (PARAFAC2 uses k = 1) *)
  Theorem cp_absorb_entry_at R w fs k idx : k < length fs ->
    cp_entry rO rI radd rmul R w fs idx = cp_entry rO rI radd rmul R (ones rI R) (absorb_at rmul k w fs) idx.
  Proof.
    intros Hk. unfold cp_entry. apply bigsum_ext; intros r Hr.
    rewrite fprod_absorb_at by exact Hk. rewrite nth_ones by exact Hr. gring.
  Qed.

  (* absorbing twice is NOT the identity in general: the entry picks up w_r^2 (used for the foil) *)
  Lemma cp_absorb_twice R w fs idx : fs <> [] ->
    cp_entry rO rI radd rmul R (ones rI R) (absorb_last rmul w (absorb_last rmul w fs)) idx =
    cp_entry rO rI radd rmul R (map (fun x => rmul x x) w) fs idx.
  Proof.
    intros Hne. unfold cp_entry. apply bigsum_ext; intros r Hr.
    assert (Hne' : absorb_last rmul w fs <> []).
    { destruct fs as [|A [|B fs]]; [congruence| discriminate | rewrite absorb_last_cons2; discriminate]. }
    rewrite !fprod_absorb_last by assumption. rewrite nth_ones by exact Hr.
    destruct (lt_dec r (length w)) as [H|H].
    - rewrite nth_map' with (d := rO) by exact H. gring.
    - rewrite !nth_overflow with (n := r) by (rewrite ?map_length; lia). gring.
  Qed.

  (* ---- the initialiser *)
  Variable eqb : F -> F -> bool.
  Hypothesis eqb_ok : forall x y, eqb x y = true <-> x = y.

  Lemma all_ones_spec w : all_ones rI eqb w = true -> forall r, r < length w -> nth r w rO = rI.
  Proof.
    unfold all_ones. rewrite forallb_forall. intros H r Hr. apply eqb_ok, H, nth_In, Hr.
  Qed.
  Lemma all_ones_ones R : all_ones rI eqb (ones rI R) = true.
  Proof.
    unfold all_ones, ones. apply forallb_forall. intros x Hx. apply repeat_spec in Hx. now apply eqb_ok.
  Qed.

  Theorem init_cp_represents R w fs idx : fs <> [] -> length w = R ->
    cp_entry rO rI radd rmul R (fst (init_cp rI rmul eqb R (Some w) fs)) (snd (init_cp rI rmul eqb R (Some w) fs)) idx
    = cp_entry rO rI radd rmul R w fs idx.
  Proof.
    intros Hne Hl. unfold init_cp. destruct (all_ones rI eqb w) eqn:E; cbn [fst snd].
    - unfold cp_entry. apply bigsum_ext; intros r Hr.
      rewrite nth_ones by exact Hr. rewrite (all_ones_spec w E) by lia. reflexivity.
    - symmetry. now apply cp_absorb_entry.
  Qed.

  Theorem init_cp_none R fs : init_cp rI rmul eqb R None fs = (ones rI R, fs).
  Proof. unfold init_cp. now rewrite all_ones_ones. Qed.

  Theorem init_cp_weights_ones R w fs : fst (init_cp rI rmul eqb R w fs) = ones rI R.
  Proof. unfold init_cp. destruct (all_ones rI eqb _); reflexivity. Qed.

  Lemma zipmul_ones : forall row w, (forall r, r < length w -> nth r w rO = rI) -> length row = length w ->
    zipmul rmul row w = row.
  Proof.
    unfold zipmul. induction row as [|x row IH]; intros [|y w] H Hl; simpl in *; try lia; [reflexivity|].
    f_equal.
    - rewrite (H 0) by lia. gring.
    - apply IH; [|lia]. intros r Hr. apply (H (S r)). lia.
  Qed.

  Definition rows_have (R : nat) (A : matrix (F := F)) : Prop := forall row, In row A -> length row = R.

  Lemma scale_cols_ones A w : (forall r, r < length w -> nth r w rO = rI) -> rows_have (length w) A ->
    scale_cols rmul A w = A.
  Proof.
    intros H Hr. unfold scale_cols. rewrite <- (map_id A) at 2. apply map_ext_in.
    intros row Hin. apply zipmul_ones; auto.
  Qed.

  Lemma absorb_last_ones w fs : (forall r, r < length w -> nth r w rO = rI) ->
    rows_have (length w) (last fs []) -> absorb_last rmul w fs = fs.
  Proof.
    intros H. induction fs as [|A fs IH]; intros Hr; [reflexivity|]. destruct fs as [|B fs].
    - cbn [absorb_last]. f_equal. apply scale_cols_ones; auto.
    - rewrite absorb_last_cons2. f_equal. apply IH. exact Hr.
  Qed.

  (* re-expressing the initialisation with its weights absorbed gives SYNTACTICALLY the same
     initial state, hence (determinism) the same iterates *)
  Theorem init_cp_absorbed_same R w fs : length w = R -> rows_have R (last fs []) ->
    init_cp rI rmul eqb R (Some (ones rI R)) (absorb_last rmul w fs) = init_cp rI rmul eqb R (Some w) fs.
  Proof.
    intros Hl Hr. unfold init_cp. rewrite all_ones_ones. destruct (all_ones rI eqb w) eqn:E; [|reflexivity].
    f_equal. subst R. apply absorb_last_ones; auto. apply all_ones_spec; exact E.
  Qed.

  (* ---- PARAFAC2: Parafac2Tensor.from_CPTensor.  Q, Rm are the recorded answers of tl.qr(B);
     only the factorisation contract Q Rm = B is used (orthogonality is not needed here). *)
  Theorem p2_from_cp R w A B C (Q Rm : matrix) (P : list matrix) i j k :
    (forall jj r, r < R -> bigsum F rO radd R (fun s => rmul (mget rO Q jj s) (mget rO Rm s r)) = mget rO B jj r) ->
    nth i P [] = Q ->
    p2_entry rO radd rmul R w A Rm C P i j k = cp_entry rO rI radd rmul R w [A; B; C] [i; j; k].
  Proof.
    intros HQR HP. unfold p2_entry, cp_entry. apply bigsum_ext; intros r Hr.
    rewrite HP, HQR by exact Hr. cbn [fprod hd tl]. gring.
  Qed.
End RingFacts.

(* ------------------------------------------------------------------ skeleton *)
Lemma list_eqb_refl l : list_eqb l l = true.
Proof. induction l; simpl; auto. now rewrite Nat.eqb_refl. Qed.
Lemma list_eqb_eq a : forall b, list_eqb a b = true -> a = b.
Proof.
  induction a as [|x a IH]; intros [|y b]; simpl; try discriminate; auto.
  rewrite andb_true_iff, Nat.eqb_eq. intros [-> H]. f_equal. auto.
Qed.

Lemma remove_first_In x y l : In y (remove_first x l) -> In y l.
Proof.
  induction l as [|z l IH]; simpl; auto. destruct (Nat.eqb_spec z x); simpl; intros H; auto.
  destruct H; auto.
Qed.
Lemma In_remove_first x y l : In y l -> y <> x -> In y (remove_first x l).
Proof.
  induction l as [|z l IH]; simpl; auto. intros H Hne. destruct (Nat.eqb_spec z x).
  - destruct H; [congruence | assumption].
  - destruct H; [left; assumption | right; auto].
Qed.
Lemma remove_first_NoDup x l : NoDup l -> ~ In x (remove_first x l).
Proof.
  induction 1 as [|z l Hz Hnd IH]; simpl; auto. destruct (Nat.eqb_spec z x).
  - subst. exact Hz.
  - simpl. intros [H|H]; [congruence | auto].
Qed.

Lemma modes_list_In a n fixed m : In m (modes_list a n fixed) <-> m < n /\ ~ In m (eff_fixed a n fixed).
Proof.
  unfold modes_list. rewrite filter_In, in_seq, negb_true_iff. split.
  - intros [H1 H2]. split; [lia|]. rewrite <- memb_In. congruence.
  - intros [H1 H2]. split; [lia|]. destruct (memb m (eff_fixed a n fixed)) eqn:E; auto.
    apply memb_In in E. contradiction.
Qed.

Lemma eff_fixed_sub a n fixed m : In m (eff_fixed a n fixed) -> In m fixed.
Proof. unfold eff_fixed. destruct (drops_last a && memb (n - 1) fixed); auto. apply remove_first_In. Qed.

Lemma eff_fixed_keeps a n fixed m : In m fixed -> (drops_last a = true -> m <> n - 1) -> In m (eff_fixed a n fixed).
Proof.
  unfold eff_fixed. intros H Hne. destruct (drops_last a); simpl; auto.
  destruct (memb (n - 1) fixed); auto. apply In_remove_first; auto.
Qed.

(* the documented rule: with a duplicate-free request the last mode is always updated *)
Lemma last_mode_updated a n fixed : drops_last a = true -> NoDup fixed -> 0 < n -> In (n - 1) (modes_list a n fixed).
Proof.
  intros Hd Hnd Hn. apply modes_list_In. split; [lia|]. unfold eff_fixed. rewrite Hd. simpl.
  destruct (memb (n - 1) fixed) eqn:E.
  - now apply remove_first_NoDup.
  - intros H. apply memb_In in H. congruence.
Qed.

Lemma modes_list_all_fixed a n fixed : (forall m, m < n -> In m (eff_fixed a n fixed)) -> modes_list a n fixed = [].
Proof.
  intros H. destruct (modes_list a n fixed) as [|m l] eqn:E; auto.
  assert (Hin : In m (modes_list a n fixed)) by (rewrite E; now left).
  apply modes_list_In in Hin. destruct Hin as [H1 H2]. exfalso. auto.
Qed.

(* a duplicate-free request naming every mode: the algorithms that un-fix the last mode are left with exactly that mode *)
Lemma filter_none {A} (p : A -> bool) l : (forall x, In x l -> p x = false) -> filter p l = [].
Proof. induction l as [|x l IH]; intros H; simpl; [reflexivity|]. rewrite (H x) by now left. apply IH. intros y Hy. apply H. now right. Qed.

Theorem full_list_leaves_last a n fixed : drops_last a = true -> NoDup fixed -> 0 < n ->
  (forall m, m < n -> In m fixed) -> modes_list a n fixed = [n - 1].
Proof.
  intros Hd Hnd Hn Hall. unfold modes_list.
  assert (Hs : seq 0 n = seq 0 (n - 1) ++ [n - 1]).
  { destruct n as [|k]; [lia|]. rewrite seq_S. cbn [Nat.add]. now replace (S k - 1) with k by lia. }
  rewrite Hs, filter_app. cbn [filter].
  assert (Hlast : memb (n - 1) (eff_fixed a n fixed) = false).
  { destruct (memb (n - 1) (eff_fixed a n fixed)) eqn:E; auto. apply memb_In in E. unfold eff_fixed in E. rewrite Hd in E. cbn [andb] in E.
    rewrite (proj2 (memb_In (n - 1) fixed)) in E by (apply Hall; lia). exfalso. now apply (remove_first_NoDup (n - 1) fixed Hnd). }
  rewrite Hlast. cbn [negb]. rewrite filter_none; [reflexivity|].
  intros x Hx. apply in_seq in Hx. apply negb_false_iff, memb_In. apply eff_fixed_keeps; [apply Hall; lia | intros _; lia].
Qed.

Lemma modes_list_NoDup a n fixed : NoDup (modes_list a n fixed).
Proof. unfold modes_list. apply NoDup_filter, seq_NoDup. Qed.

Lemma nth_map2 {A B C} (f : A -> B -> C) (dA : A) (dB : B) (dC : C) : forall l1 l2 k, k < length l1 -> k < length l2 ->
  nth k (map2 f l1 l2) dC = f (nth k l1 dA) (nth k l2 dB).
Proof.
  unfold map2. induction l1 as [|x l1 IH]; intros [|y l2] k H1 H2; simpl in *; try lia.
  destruct k as [|k]; [reflexivity|]. apply IH; lia.
Qed.
Lemma length_map2 {A B C} (f : A -> B -> C) l1 l2 : length (map2 f l1 l2) = Nat.min (length l1) (length l2).
Proof. unfold map2. now rewrite map_length, combine_length. Qed.

Section SkelFacts.
  Context {M W X : Type}.
  Variable upd : nat -> nat -> st M W X -> M * X.
  Variable stop : nat -> st M W X -> bool.
  Variable normf : st M W X -> st M W X.
  Variable pre : nat -> nat -> st M W X -> M.
  Variable pre_on : nat -> bool.
  Variable post : nat -> st M W X -> X.
  Variable ls_on : nat -> bool.
  Variable ls_accept : nat -> st M W X -> st M W X -> bool.
  Variable lsf : nat -> st M W X -> M -> M -> M.
  Variable lsw : nat -> st M W X -> W -> W -> W.
  Variable lsx : nat -> st M W X -> st M W X -> X.

  Notation step := (step upd normf false).
  Notation sweep := (sweep upd normf false).
  Notation iterate := (iterate upd stop normf false pre pre_on post ls_on ls_accept lsf lsw lsx).
  Notation run := (run upd stop normf false pre pre_on post ls_on ls_accept lsf lsw lsx).

  Lemma step_eq a it ml s m : step a it ml s m = set_fac s m (upd it m s).
  Proof. reflexivity. Qed.

  Lemma fold_step_other a it ml d m : forall l s, ~ In m l ->
    nth m (facs (fold_left (step a it ml) l s)) d = nth m (facs s) d.
  Proof.
    induction l as [|k l IH]; intros s Hn; simpl; [reflexivity|].
    rewrite IH by (intros H; apply Hn; now right). rewrite step_eq. unfold set_fac; cbn [facs].
    apply nth_set_nth_other. intros ->. apply Hn. now left.
  Qed.
  Lemma fold_step_length a it ml : forall l s, length (facs (fold_left (step a it ml) l s)) = length (facs s).
  Proof.
    induction l as [|k l IH]; intros s; simpl; [reflexivity|]. rewrite IH, step_eq. unfold set_fac; cbn [facs].
    apply set_nth_length.
  Qed.
  Lemma fold_step_wts a it ml : forall l s, wts (fold_left (step a it ml) l s) = wts s.
  Proof. induction l as [|k l IH]; intros s; simpl; [reflexivity|]. now rewrite IH, step_eq. Qed.

  (* the orthogonalise hook skips the modes that are not free *)
  Lemma pre_apply_other (g : nat -> M) (free : nat -> bool) d : forall fs off m, free (off + m) = false ->
    nth m (pre_apply g free off fs) d = nth m fs d.
  Proof.
    induction fs as [|f fs IH]; intros off m H; [reflexivity|]. cbn [pre_apply]. destruct m as [|m].
    - rewrite Nat.add_0_r in H. now rewrite H.
    - cbn [nth]. apply IH. now rewrite Nat.add_succ_comm.
  Qed.
  Lemma pre_apply_length (g : nat -> M) (free : nat -> bool) : forall fs off, length (pre_apply g free off fs) = length fs.
  Proof. induction fs as [|f fs IH]; intros off; simpl; [reflexivity|]. now rewrite IH. Qed.

  (* the line-search candidate formula maps (x, x) to x (for the algorithm that has a line search) *)
  Definition ls_fixpoint (a : algo) : Prop := has_hooks a = true -> forall it s x, lsf it s x x = x.

  Lemma ls_point_other it s0 s1 d m : (forall s x, lsf it s x x = x) -> length (facs s1) = length (facs s0) ->
    nth m (facs s1) d = nth m (facs s0) d ->
    nth m (facs (ls_point lsf lsw lsx it s0 s1)) d = nth m (facs s0) d.
  Proof.
    intros Hf Hl He. unfold ls_point; cbn [facs]. destruct (lt_dec m (length (facs s0))) as [Hm|Hm].
    - rewrite (nth_map2 _ d d d) by lia. rewrite He. apply Hf.
    - rewrite !nth_overflow; auto; try lia. rewrite length_map2. lia.
  Qed.

  (* the loop leaves the factor of a mode that is neither free for the hook nor in the sweep list where it was *)
  Lemma iterate_other a free ml d m : ~ In m ml -> free m = false -> ls_fixpoint a -> forall b it s,
    nth m (facs (iterate a free b it ml s)) d = nth m (facs s) d.
  Proof.
    intros Hn Hfree Hls. induction b as [|b IH]; intros it s; cbn [WarmStart.iterate]; [reflexivity|].
    set (s0 := if has_hooks a && pre_on it then pre_state pre free it s else s).
    assert (H0 : nth m (facs s0) d = nth m (facs s) d).
    { unfold s0. destruct (has_hooks a && pre_on it); [|reflexivity]. unfold pre_state; cbn [facs]. now apply pre_apply_other. }
    set (sw := sweep a it ml s0).
    assert (Hsw : nth m (facs sw) d = nth m (facs s0) d) by (apply fold_step_other; exact Hn).
    set (s1 := mkst (wts sw) (facs sw) (post it sw)).
    set (s2 := if has_hooks a && ls_on it && ls_accept it s0 s1 then ls_point lsf lsw lsx it s0 s1 else s1).
    assert (H2 : nth m (facs s2) d = nth m (facs s0) d).
    { unfold s2. destruct (has_hooks a) eqn:Eh; cbn [andb]; [|exact Hsw].
      destruct (ls_on it && ls_accept it s0 s1); [|exact Hsw].
      apply ls_point_other; [intros; now apply Hls | apply fold_step_length | exact Hsw]. }
    destruct (stop it s2); [| rewrite IH]; congruence.
  Qed.
  Lemma iterate_length a free ml : forall b it s, length (facs (iterate a free b it ml s)) = length (facs s).
  Proof.
    induction b as [|b IH]; intros it s; cbn [WarmStart.iterate]; [reflexivity|].
    set (s0 := if has_hooks a && pre_on it then pre_state pre free it s else s).
    assert (H0 : length (facs s0) = length (facs s)).
    { unfold s0. destruct (has_hooks a && pre_on it); [|reflexivity]. unfold pre_state; cbn [facs]. apply pre_apply_length. }
    set (sw := sweep a it ml s0).
    assert (Hsw : length (facs sw) = length (facs s0)) by apply fold_step_length.
    set (s1 := mkst (wts sw) (facs sw) (post it sw)).
    set (s2 := if has_hooks a && ls_on it && ls_accept it s0 s1 then ls_point lsf lsw lsx it s0 s1 else s1).
    assert (H2 : length (facs s2) = length (facs s0)).
    { unfold s2. destruct (has_hooks a && ls_on it && ls_accept it s0 s1); [|exact Hsw].
      unfold ls_point; cbn [facs]. rewrite length_map2. unfold s1; cbn [facs]. lia. }
    destruct (stop it s2); [| rewrite IH]; congruence.
  Qed.
  (* without hooks (every algorithm but parafac) an empty sweep list leaves weights and factors alone; the bookkeeping
     (error history) still moves *)
  Lemma iterate_nil a free : has_hooks a = false -> forall b it s,
    facs (iterate a free b it [] s) = facs s /\ wts (iterate a free b it [] s) = wts s.
  Proof.
    intros Hh. induction b as [|b IH]; intros it s; cbn [WarmStart.iterate]; [split; reflexivity|].
    rewrite Hh. cbn [andb]. change (sweep a it [] s) with s.
    destruct (stop it _); [split; reflexivity|]. destruct (IH (S it) (mkst (wts s) (facs s) (post it s))) as [H1 H2].
    rewrite H1, H2. split; reflexivity.
  Qed.

  (* fixed modes: every budget, every update rule, every stopping decision, mask / sparsity / dual bookkeeping, the
     orthogonalise hook (it skips fixed modes since ef1ea18), line search with a candidate formula fixing equal arguments *)
  Theorem run_fixed a n fixed budget tol s s' d m : ls_fixpoint a ->
    run a n fixed budget tol s = Ok s' -> In m (eff_fixed a n fixed) ->
    nth m (facs s') d = nth m (facs s) d.
  Proof.
    intros Hls. unfold WarmStart.run. destruct (shortcut a && names_every_mode fixed n); [intros [= <-]; reflexivity|].
    destruct (empty_returns a && (length (modes_list a n fixed) =? 0)); [intros [= <-]; reflexivity|].
    destruct (needs_mode a tol && (0 <? budget) && (length (modes_list a n fixed) =? 0)); [discriminate|].
    intros [= <-] Hin. apply iterate_other; auto.
    - intros H. apply modes_list_In in H. tauto.
    - apply negb_false_iff. now apply memb_In.
  Qed.

  Theorem run_fixed_user a n fixed budget tol s s' d m : ls_fixpoint a ->
    run a n fixed budget tol s = Ok s' -> In m fixed -> (drops_last a = true -> m <> n - 1) ->
    nth m (facs s') d = nth m (facs s) d.
  Proof. intros Hl H Hin Hlast. eapply run_fixed; eauto. now apply eff_fixed_keeps. Qed.

  Theorem run_shape a n fixed budget tol s s' :
    run a n fixed budget tol s = Ok s' -> length (facs s') = length (facs s).
  Proof.
    unfold WarmStart.run. destruct (shortcut a && names_every_mode fixed n); [intros [= <-]; auto|].
    destruct (empty_returns a && (length (modes_list a n fixed) =? 0)); [intros [= <-]; auto|].
    destruct (needs_mode a tol && (0 <? budget) && (length (modes_list a n fixed) =? 0)); [discriminate|].
    intros [= <-]. apply iterate_length.
  Qed.

  Lemma names_every_mode_spec fixed n : names_every_mode fixed n = true <-> (forall m, m < n -> In m fixed) /\ (forall m, In m fixed -> m < n).
  Proof.
    unfold names_every_mode. rewrite andb_true_iff, !forallb_forall. split; intros [H1 H2]; split.
    - intros m Hm. apply memb_In, H1, in_seq. lia.
    - intros m Hm. apply Nat.ltb_lt, H2, Hm.
    - intros m Hm. apply in_seq in Hm. apply memb_In, H1. lia.
    - intros m Hm. apply Nat.ltb_lt, H2, Hm.
  Qed.

  (* parafac: ANY list naming exactly the modes 0..n-1 (any order, repetitions allowed) returns the start state *)
  Theorem run_all_fixed_shortcut a n fixed budget tol s : shortcut a = true ->
    (forall m, m < n -> In m fixed) -> (forall m, In m fixed -> m < n) -> run a n fixed budget tol s = Ok s.
  Proof.
    intros H H1 H2. unfold WarmStart.run. rewrite H. now rewrite (proj2 (names_every_mode_spec fixed n) (conj H1 H2)).
  Qed.

  (* without the shortcut: if no mode is left to update and the call returns, it returns the initial weights and factors *)
  Theorem run_nothing_to_update a n fixed budget tol s s' : has_hooks a = false ->
    (forall m, m < n -> In m (eff_fixed a n fixed)) -> run a n fixed budget tol s = Ok s' ->
    facs s' = facs s /\ wts s' = wts s.
  Proof.
    intros Hh Hall. unfold WarmStart.run. destruct (shortcut a && names_every_mode fixed n); [intros [= <-]; auto|].
    rewrite (modes_list_all_fixed _ _ _ Hall). destruct (empty_returns a && _); [intros [= <-]; auto|].
    destruct (needs_mode a tol && (0 <? budget) && _); [discriminate|].
    intros [= <-]. now apply iterate_nil.
  Qed.
End SkelFacts.

(* zero budget: for every normalisation setting and every hook *)
Theorem run_zero_budget {M W X} upd stop normf normalize pre pre_on post ls_on ls_accept lsf lsw lsx a n fixed tol (s : st M W X) :
  run upd stop normf normalize pre pre_on post ls_on ls_accept lsf lsw lsx a n fixed 0 tol s = Ok s.
Proof.
  unfold run. destruct (shortcut a && names_every_mode fixed n); [reflexivity|].
  destruct (empty_returns a && _); [reflexivity|].
  cbn [Nat.ltb Nat.leb]. rewrite andb_false_r. reflexivity.
Qed.

(* non_negative_parafac_hals with nothing left to update returns the initialisation: every budget, every tolerance,
   every normalisation setting (the return precedes the loop) *)
Theorem hals_all_fixed_returns {M W X} upd stop normf normalize pre pre_on post ls_on ls_accept lsf lsw lsx n fixed budget tol (s : st M W X) :
  (forall m, m < n -> In m fixed) ->
  run upd stop normf normalize pre pre_on post ls_on ls_accept lsf lsw lsx NNHals n fixed budget tol s = Ok s.
Proof.
  intros Hall. unfold run. cbn [shortcut andb empty_returns].
  rewrite (modes_list_all_fixed NNHals n fixed); [reflexivity|].
  intros m Hm. unfold eff_fixed. cbn [drops_last andb]. auto.
Qed.
