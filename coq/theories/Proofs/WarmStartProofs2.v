(* C14 -- lemmas, part 2: same iterates, the refutations, tucker's fixed-factor list surgery. *)
From Coq Require Import List Arith Lia Bool Ring ZArith Permutation.
From TLV Require Import Base.Shape Base.PyList Base.Tensor Base.BigSum Model.WarmStart Proofs.WarmStartProofs.
Import ListNotations.

Theorem same_iterates : forall (F : Type) (rO rI : F) (radd rmul rsub : F -> F -> F) (ropp : F -> F),
  ring_theory rO rI radd rmul rsub ropp (@eq F) ->
  forall (eqb : F -> F -> bool), (forall x y, eqb x y = true <-> x = y) ->
  forall (R : nat) (w : list F) (fs : list (matrix (F := F))), length w = R ->
  (forall row, In row (last fs []) -> length row = R) ->
  forall (X : Type) (x : X) upd stop normf normalize pre pre_on post ls_on ls_accept lsf lsw lsx a n fixed budget tol,
  let start := fun wf : list F * list (matrix (F := F)) => mkst (fst wf) (snd wf) x in
  run upd stop normf normalize pre pre_on post ls_on ls_accept lsf lsw lsx a n fixed budget tol
      (start (init_cp rI rmul eqb R (Some (ones rI R)) (absorb_last rmul w fs)))
  = run upd stop normf normalize pre pre_on post ls_on ls_accept lsf lsw lsx a n fixed budget tol
      (start (init_cp rI rmul eqb R (Some w) fs)).
Proof.
  intros F rO rI radd rmul rsub ropp Rth eqb Heq R w fs Hl Hr X x upd stop normf normalize pre pre_on post ls_on ls_accept lsf lsw lsx a n fixed budget tol start.
  rewrite (init_cp_absorbed_same F rO rI radd rmul rsub ropp Rth eqb Heq R w fs Hl Hr). reflexivity.
Qed.

(* the line-search candidate last + (cur - last) * jump is `last` when cur = last: any commutative ring, any shape *)
Section LineSearchRing.
  Variable F : Type.
  Variables (rO rI : F) (radd rmul rsub : F -> F -> F) (ropp : F -> F).
  Hypothesis Rth : ring_theory rO rI radd rmul rsub ropp (@eq F).
  Add Ring Frl : Rth.
  Lemma ls_entry_same j x : ls_entry radd rsub rmul j x x = x.
  Proof. unfold ls_entry. ring. Qed.
  Lemma ls_vec_same j : forall v, ls_vec radd rsub rmul j v v = v.
  Proof. unfold ls_vec. induction v as [|x v IH]; simpl; [reflexivity|]. now rewrite ls_entry_same, IH. Qed.
  Theorem ls_mat_same j : forall A, ls_mat radd rsub rmul j A A = A.
  Proof. unfold ls_mat. induction A as [|r A IH]; simpl; [reflexivity|]. now rewrite (ls_vec_same j r), IH. Qed.
End LineSearchRing.

Theorem fixed_modes_linesearch : forall (F : Type) (rO rI : F) (radd rmul rsub : F -> F -> F) (ropp : F -> F),
  ring_theory rO rI radd rmul rsub ropp (@eq F) ->
  forall (W X : Type) upd stop normf pre pre_on post ls_on ls_accept (jump : nat -> st (list (list F)) W X -> F) lsw lsx
  a n fixed budget tol (s s' : st (list (list F)) W X) d m,
  run upd stop normf false pre pre_on post ls_on ls_accept (fun it s => ls_mat radd rsub rmul (jump it s)) lsw lsx
      a n fixed budget tol s = Ok s' ->
  In m (eff_fixed a n fixed) -> nth m (facs s') d = nth m (facs s) d.
Proof.
  intros F rO rI radd rmul rsub ropp Rth W X upd stop normf pre pre_on post ls_on ls_accept jump lsw lsx a n fixed budget tol s s' d m.
  apply run_fixed. intros _ it s0 x. exact (ls_mat_same F rO rI radd rmul rsub ropp Rth (jump it s0) x).
Qed.

Lemma normalize_breaks_fixed : exists upd stop normf (s s' : st nat unit unit),
  run upd stop normf true (fun _ _ _ => 0) (fun _ => false) (fun _ _ => tt) (fun _ => false) (fun _ _ _ => false)
      (fun _ _ l c => c) (fun _ _ l c => c) (fun _ _ _ => tt) Parafac 2 [0] 1 true s = Ok s' /\ In 0 (eff_fixed Parafac 2 [0]) /\
  nth 0 (facs s') 0 <> nth 0 (facs s) 0.
Proof.
  exists (fun _ _ _ => (5, tt)), (fun _ _ => false), (fun s => mkst (wts s) (map S (facs s)) (aux s)), (mkst tt [0; 0] tt), (mkst tt [1; 6] tt).
  split; [reflexivity|]. split; [now left | discriminate].
Qed.

Lemma tucker_zero_budget_counterexample : exists (core : tensor Z) (F0 F1 : list (list Z)),
  let c1 := multi_mode_dot 0%Z Z.add Z.mul core [F0] [0] in
  let c2 := multi_mode_dot_T 0%Z Z.add Z.mul c1 [F0] [0] in
  multi_mode_dot 0%Z Z.add Z.mul c2 [F0; F1] [0; 1] <> multi_mode_dot 0%Z Z.add Z.mul core [F0; F1] [0; 1].
Proof.
  exists (mk [1; 1] [1%Z]), [[2%Z]], [[1%Z]]. vm_compute. discriminate.
Qed.

(* ------------------------------------------------------------------ list surgery *)
Section Lists.
  Context {M : Type}.

  Lemma In_insert_sorted x z : forall l, In z (insert_sorted x l) <-> z = x \/ In z l.
  Proof.
    induction l as [|y r IH]; simpl; [intuition|]. destruct (x <=? y); simpl; [intuition|].
    rewrite IH. intuition.
  Qed.
  Lemma In_py_sorted z : forall l, In z (py_sorted l) <-> In z l.
  Proof.
    induction l as [|x l IH]; simpl; [tauto|]. rewrite In_insert_sorted, IH. intuition.
  Qed.
  Lemma memb_py_sorted z l : memb z (py_sorted l) = memb z l.
  Proof.
    destruct (memb z l) eqn:E.
    - apply memb_In. apply In_py_sorted. now apply memb_In.
    - destruct (memb z (py_sorted l)) eqn:E2; auto. apply memb_In in E2. apply (proj1 (In_py_sorted z l)) in E2. apply (proj2 (memb_In z l)) in E2. congruence.
  Qed.

  Lemma pick_none (keep : nat -> bool) : forall (fs : list M) off,
    (forall i, off <= i < off + length fs -> keep i = false) -> pick keep off fs = [].
  Proof.
    induction fs as [|f fs IH]; intros off H; simpl; [reflexivity|].
    rewrite (H off) by (simpl; lia). apply IH. intros i Hi. apply H. simpl. lia.
  Qed.

  (* the part of tucker_fixed_lists after the all-fixed return *)
  Definition tfl_tail (fixed : list nat) (fs : list M) (partial : list nat -> list M -> list M) : res (list M) :=
    let fx := py_sorted fixed in
    let fixedp := pick (fun i => memb i fx) 0 fs in
    let freep := pick (fun i => negb (memb i fx)) 0 fs in
    match freep with
    | [] => Err
    | _ => reinsert fx (map snd fixedp) (partial (map fst freep) (map snd freep))
    end.
  Lemma tucker_fixed_lists_unfold fixed fs partial :
    tucker_fixed_lists fixed fs partial =
    if forallb (fun i => memb i (py_sorted fixed)) (seq 0 (length fs)) then Ok fs else tfl_tail fixed fs partial.
  Proof. reflexivity. Qed.

  Lemma all_fixed_b_true fixed n : forallb (fun i => memb i (py_sorted fixed)) (seq 0 n) = true <-> (forall i, i < n -> In i fixed).
  Proof.
    rewrite forallb_forall. split.
    - intros H i Hi. rewrite <- (memb_In i fixed), <- memb_py_sorted. apply H, in_seq. lia.
    - intros H i Hi. apply in_seq in Hi. rewrite memb_py_sorted. apply memb_In, H. lia.
  Qed.

  (* every factor fixed: the supplied list is returned (commit b6b5914) *)
  Theorem tucker_all_fixed_returns (fixed : list nat) (fs : list M) partial :
    (forall i, i < length fs -> In i fixed) -> tucker_fixed_lists fixed fs partial = Ok fs.
  Proof. intros H. rewrite tucker_fixed_lists_unfold. now rewrite (proj2 (all_fixed_b_true fixed (length fs)) H). Qed.

  (* a duplicate-free in-range request that does not cover every mode is shorter than the factor list *)
  Lemma not_all_fixed_lt fixed n : NoDup fixed -> (forall e, In e fixed -> e < n) ->
    forallb (fun i => memb i (py_sorted fixed)) (seq 0 n) = false -> length fixed < n.
  Proof.
    intros Hnd Hb E. destruct (Nat.lt_ge_cases (length fixed) n) as [H|H]; [exact H|]. exfalso.
    assert (Hincl : incl (seq 0 n) fixed).
    { apply NoDup_length_incl; [exact Hnd | now rewrite seq_length |]. intros e He. apply in_seq. specialize (Hb e He). lia. }
    rewrite (proj2 (all_fixed_b_true fixed n)) in E; [discriminate|]. intros i Hi. apply Hincl, in_seq. lia.
  Qed.

  (* ---- re-insertion of the fixed factors *)
  Definition rmap {A B} (f : A -> B) (r : res A) : res B := match r with Ok a => Ok (f a) | Err => Err end.

  Fixpoint ssorted (l : list nat) : Prop :=
    match l with [] => True | e :: r => (forall x, In x r -> e < x) /\ ssorted r end.

  Lemma ssorted_NoDup l : ssorted l -> NoDup l.
  Proof.
    induction l as [|e r IH]; simpl; intros H; constructor.
    - intros Hin. destruct H as [H _]. specialize (H e Hin). lia.
    - apply IH, H.
  Qed.
  Lemma insert_sorted_ssorted x : forall l, ssorted l -> ~ In x l -> ssorted (insert_sorted x l).
  Proof.
    induction l as [|y r IH]; simpl; intros Hs Hn; [split; [intros ? []|exact I]|].
    destruct Hs as [Hy Hs]. destruct (Nat.leb_spec x y).
    - simpl. split; [|split; assumption]. intros z [<-|Hz]; [lia|]. specialize (Hy z Hz). lia.
    - simpl. split; [|apply IH; tauto]. intros z Hz. apply In_insert_sorted in Hz. destruct Hz as [->|Hz]; [lia | auto].
  Qed.
  Lemma py_sorted_ssorted l : NoDup l -> ssorted (py_sorted l).
  Proof.
    induction 1 as [|x l Hx Hnd IH]; simpl; [exact I|]. apply insert_sorted_ssorted; auto.
    rewrite In_py_sorted. exact Hx.
  Qed.
  Lemma insert_sorted_length x : forall l, length (insert_sorted x l) = S (length l).
  Proof. induction l as [|y r IH]; simpl; auto. destruct (x <=? y); simpl; auto. Qed.
  Lemma py_sorted_length l : length (py_sorted l) = length l.
  Proof. induction l; simpl; auto. now rewrite insert_sorted_length, IHl. Qed.

  Lemma reinsert_length : forall es (fxv l out : list M), reinsert es fxv l = Ok out -> length out = length l + length es.
  Proof.
    induction es as [|e es IH]; intros fxv l out; simpl.
    - intros [= <-]. lia.
    - destruct fxv as [|f fxv]; [discriminate|]. intros H. apply IH in H. rewrite insert_at_length in H. lia.
  Qed.

  Lemma reinsert_cons_shift : forall es (fxv l : list M) y, (forall e, In e es -> 1 <= e) ->
    reinsert es fxv (y :: l) = rmap (cons y) (reinsert (map pred es) fxv l).
  Proof.
    induction es as [|e es IH]; intros fxv l y H; simpl; [reflexivity|].
    destruct fxv as [|f fxv]; [reflexivity|].
    destruct e as [|e0]; [specialize (H 0 (or_introl eq_refl)); lia|].
    cbn [insert_at pred]. apply IH. intros e He. apply H. now right.
  Qed.

  Fixpoint merge (keep : nat -> bool) (off n : nat) (fxv new : list M) : list M :=
    match n with
    | 0 => []
    | S n' => if keep off
              then match fxv with f :: fxv' => f :: merge keep (S off) n' fxv' new | [] => [] end
              else match new with y :: new' => y :: merge keep (S off) n' fxv new' | [] => [] end
    end.

  Lemma bounded_NoDup_length l a n : NoDup l -> (forall e, In e l -> a <= e < a + n) -> length l <= n.
  Proof.
    intros Hnd Hb. rewrite <- (seq_length n a). apply NoDup_incl_length; auto.
    intros e He. apply in_seq. auto.
  Qed.

  Lemma reinsert_merge keep : forall n off es fxv new, ssorted es -> (forall e, In e es -> off <= e < off + n) ->
    length fxv = length es -> length new + length es = n -> (forall i, off <= i -> keep i = memb i es) ->
    reinsert (map (fun e => e - off) es) fxv new = Ok (merge keep off n fxv new).
  Proof.
    induction n as [|n IH]; intros off es fxv new Hs Hb Hlf Hln Hk.
    - destruct es as [|e es]; [|specialize (Hb e (or_introl eq_refl)); lia].
      destruct new; simpl in *; [reflexivity | lia].
    - cbn [merge]. destruct (keep off) eqn:K.
      + rewrite Hk in K by lia. apply memb_In in K.
        destruct es as [|e0 es']; [destruct K|]. destruct Hs as [Hlt Hs].
        assert (e0 = off).
        { destruct K as [|K]; auto. specialize (Hlt off K). specialize (Hb e0 (or_introl eq_refl)). lia. }
        subst e0. destruct fxv as [|f fxv']; [discriminate|]. cbn [map reinsert]. rewrite Nat.sub_diag. cbn [insert_at].
        rewrite reinsert_cons_shift.
        2:{ intros e He. apply in_map_iff in He. destruct He as [x [<- Hx]]. specialize (Hlt x Hx). lia. }
        rewrite map_map. rewrite (map_ext (fun x => pred (x - off)) (fun x => x - S off)) by (intros; lia).
        rewrite (IH (S off) es' fxv' new); [reflexivity | exact Hs | | simpl in *; lia | simpl in *; lia |].
        * intros e He. specialize (Hlt e He). specialize (Hb e (or_intror He)). lia.
        * intros i Hi. rewrite Hk by lia. simpl. destruct (Nat.eqb_spec off i); [lia | reflexivity].
      + rewrite Hk in K by lia.
        assert (Hgt : forall e, In e es -> S off <= e < S off + n).
        { intros e He. specialize (Hb e He). assert (e <> off) by (intros ->; apply memb_In in He; congruence). lia. }
        assert (Hle : length es <= n) by (eapply bounded_NoDup_length; [apply ssorted_NoDup; exact Hs | exact Hgt]).
        destruct new as [|y new']; [simpl in Hln; lia|].
        rewrite reinsert_cons_shift.
        2:{ intros e He. apply in_map_iff in He. destruct He as [x [<- Hx]]. specialize (Hgt x Hx). lia. }
        rewrite map_map. rewrite (map_ext (fun x => pred (x - off)) (fun x => x - S off)) by (intros; lia).
        rewrite (IH (S off) es fxv new'); [reflexivity | exact Hs | exact Hgt | exact Hlf | simpl in Hln; lia |].
        intros i Hi. apply Hk. lia.
  Qed.

  Lemma merge_indep keep d : forall n off fxv new new' e, length new = length new' -> keep (off + e) = true ->
    nth e (merge keep off n fxv new) d = nth e (merge keep off n fxv new') d.
  Proof.
    induction n as [|n IH]; intros off fxv new new' e Hl Hk; [reflexivity|]. cbn [merge].
    destruct (keep off) eqn:K.
    - destruct fxv as [|f fxv']; [reflexivity|]. destruct e as [|e']; [reflexivity|]. cbn [nth].
      apply IH; auto. rewrite Nat.add_succ_comm. exact Hk.
    - destruct new as [|y new1], new' as [|y' new1']; simpl in Hl; try lia; [reflexivity|].
      destruct e as [|e']; [rewrite Nat.add_0_r in Hk; congruence|]. cbn [nth].
      apply IH; [lia|]. rewrite Nat.add_succ_comm. exact Hk.
  Qed.

  Lemma merge_pick_id (keep keep' : nat -> bool) : (forall i, keep' i = negb (keep i)) -> forall (fs : list M) off,
    merge keep off (length fs) (map snd (pick keep off fs)) (map snd (pick keep' off fs)) = fs.
  Proof.
    intros Hk. induction fs as [|f fs IH]; intros off; [reflexivity|]. cbn [length merge pick].
    rewrite Hk. destruct (keep off); cbn [negb map snd]; f_equal; apply IH.
  Qed.

  Lemma pick_merge_free (keep keep' : nat -> bool) : (forall i, keep' i = negb (keep i)) -> forall n off fxv new,
    length (merge keep off n fxv new) = length fxv + length new ->
    map snd (pick keep' off (merge keep off n fxv new)) = new.
  Proof.
    intros Hk. induction n as [|n IH]; intros off fxv new Hl.
    - simpl in *. destruct new; simpl in *; [reflexivity | lia].
    - cbn [merge] in *. destruct (keep off) eqn:K.
      + destruct fxv as [|f fxv']; simpl in Hl.
        * destruct new; simpl in *; [reflexivity | lia].
        * cbn [pick]. rewrite Hk, K. cbn [negb]. apply IH. lia.
      + destruct new as [|y new']; simpl in Hl.
        * reflexivity.
        * cbn [pick]. rewrite Hk, K. cbn [negb map snd]. f_equal. apply IH. lia.
  Qed.

  Lemma pick_lengths_sum (keep keep' : nat -> bool) : (forall i, keep' i = negb (keep i)) -> forall (fs : list M) off,
    length (pick keep off fs) + length (pick keep' off fs) = length fs.
  Proof.
    intros Hk. induction fs as [|f fs IH]; intros off; [reflexivity|]. cbn [pick]. rewrite Hk.
    destruct (keep off); cbn [negb length]; specialize (IH (S off)); lia.
  Qed.
  Lemma pick_length (keep : nat -> bool) : forall (fs : list M) off,
    length (pick keep off fs) = length (filter keep (seq off (length fs))).
  Proof.
    induction fs as [|f fs IH]; intros off; [reflexivity|]. cbn [pick length seq filter].
    destruct (keep off); cbn [length]; rewrite IH; reflexivity.
  Qed.
  Lemma filter_memb_length es off n : NoDup es -> (forall e, In e es -> off <= e < off + n) ->
    length (filter (fun i => memb i es) (seq off n)) = length es.
  Proof.
    intros Hnd Hb. apply Permutation_length. apply NoDup_Permutation; auto.
    - apply NoDup_filter, seq_NoDup.
    - intros x. rewrite filter_In, in_seq, memb_In. split; [tauto|]. intros H. split; auto.
  Qed.

  Lemma tfl_tail_spec (fixed : list nat) (fs : list M) (partial : list nat -> list M -> list M) :
    NoDup fixed -> (forall e, In e fixed -> e < length fs) -> length fixed < length fs ->
    (forall modes free, length (partial modes free) = length free) ->
    exists out, tfl_tail fixed fs partial = Ok out /\ length out = length fs /\
      (forall e d, In e fixed -> nth e out d = nth e fs d) /\
      map snd (pick (fun i => negb (memb i (py_sorted fixed))) 0 out)
      = partial (map fst (pick (fun i => negb (memb i (py_sorted fixed))) 0 fs))
                (map snd (pick (fun i => negb (memb i (py_sorted fixed))) 0 fs)).
  Proof.
    intros Hnd Hb Hlt Hp. unfold tfl_tail.
    set (fx := py_sorted fixed). set (keep := fun i => memb i fx). set (keep' := fun i => negb (memb i fx)).
    assert (Hkk : forall i, keep' i = negb (keep i)) by reflexivity.
    assert (Hs : ssorted fx) by (apply py_sorted_ssorted; exact Hnd).
    assert (Hbx : forall e, In e fx -> 0 <= e < 0 + length fs).
    { intros e He. apply (proj1 (In_py_sorted e fixed)) in He. specialize (Hb e He). lia. }
    assert (Hlx : length fx = length fixed) by apply py_sorted_length.
    assert (Hfix : length (pick keep 0 fs) = length fx).
    { rewrite pick_length. apply filter_memb_length; [apply ssorted_NoDup; exact Hs | exact Hbx]. }
    pose proof (pick_lengths_sum keep keep' Hkk fs 0) as Hsum.
    destruct (pick keep' 0 fs) as [|p0 freep'] eqn:Efree; [simpl in Hsum; lia|]. rewrite <- Efree in *.
    set (new := partial (map fst (pick keep' 0 fs)) (map snd (pick keep' 0 fs))).
    assert (Hnew : length new = length (pick keep' 0 fs)) by (unfold new; rewrite Hp; apply map_length).
    pose proof (reinsert_merge keep (length fs) 0 fx (map snd (pick keep 0 fs)) new Hs Hbx) as Hm.
    rewrite (map_ext (fun e => e - 0) (fun e => e)) in Hm by (intros; lia). rewrite map_id in Hm.
    rewrite Hm; [| rewrite map_length; exact Hfix | lia | intros; reflexivity].
    eexists. split; [reflexivity|].
    assert (Hlen : length (merge keep 0 (length fs) (map snd (pick keep 0 fs)) new) = length fs).
    { assert (Hm' : reinsert fx (map snd (pick keep 0 fs)) new = Ok (merge keep 0 (length fs) (map snd (pick keep 0 fs)) new)).
      { apply Hm; [rewrite map_length; exact Hfix | lia | intros; reflexivity]. }
      apply reinsert_length in Hm'. lia. }
    split; [exact Hlen|]. split.
    - intros e d He.
      rewrite (merge_indep keep d (length fs) 0 _ new (map snd (pick keep' 0 fs)) e).
      + now rewrite (merge_pick_id keep keep' Hkk fs 0).
      + rewrite map_length. exact Hnew.
      + simpl. unfold keep. apply memb_In. apply (proj2 (In_py_sorted e fixed)). exact He.
    - apply (pick_merge_free keep keep' Hkk). rewrite map_length. lia.
  Qed.
  (* the general statement: no hypothesis on how many modes are fixed any more *)
  Theorem tucker_reinsert_spec (fixed : list nat) (fs : list M) (partial : list nat -> list M -> list M) :
    NoDup fixed -> (forall e, In e fixed -> e < length fs) ->
    (forall modes free, length (partial modes free) = length free) ->
    exists out, tucker_fixed_lists fixed fs partial = Ok out /\ length out = length fs /\
      (forall e d, In e fixed -> nth e out d = nth e fs d) /\
      map snd (pick (fun i => negb (memb i (py_sorted fixed))) 0 out)
      = partial (map fst (pick (fun i => negb (memb i (py_sorted fixed))) 0 fs))
                (map snd (pick (fun i => negb (memb i (py_sorted fixed))) 0 fs)).
  Proof.
    intros Hnd Hb Hp. rewrite tucker_fixed_lists_unfold.
    destruct (forallb (fun i => memb i (py_sorted fixed)) (seq 0 (length fs))) eqn:E.
    - exists fs. split; [reflexivity|]. split; [reflexivity|]. split; [reflexivity|].
      assert (Hnone : pick (fun i => negb (memb i (py_sorted fixed))) 0 fs = []).
      { apply pick_none. intros i Hi. apply negb_false_iff. rewrite forallb_forall in E. apply E, in_seq. lia. }
      rewrite Hnone. cbn [map]. specialize (Hp [] []). destruct (partial [] []); [reflexivity | discriminate].
    - apply tfl_tail_spec; auto. now apply not_all_fixed_lt.
  Qed.
End Lists.
