(* C14 -- request lists with entries that name no mode (negative, out of range): facts about Model.WarmStart.request *)
From Coq Require Import List Arith Bool Lia ZArith.
From TLV Require Import Base.Shape Base.PyList Base.Tensor Model.WarmStart Proofs.WarmStartProofs.
Import ListNotations.

Lemma as_mode_in_range n z : names_mode n z = true -> as_mode n z = Z.to_nat z /\ as_mode n z < n.
Proof.
  unfold names_mode, as_mode. intros H. apply andb_true_iff in H as [H0 H1]. rewrite H0. split; [reflexivity|].
  apply Z.leb_le in H0. apply Z.ltb_lt in H1. lia.
Qed.
Lemma as_mode_no_mode n z : names_mode n z = false -> n <= as_mode n z.
Proof.
  unfold names_mode, as_mode. destruct (Z.leb_spec 0 z) as [H0|H0]; cbn [andb]; [|intros _; lia].
  intros H. apply Z.ltb_ge in H. lia.
Qed.

(* a valid request (every entry in range(ndim)) is accepted by every driver and is the list itself *)
Theorem request_valid a n fixed : forallb (names_mode n) fixed = true -> request a n fixed = Ok (map Z.to_nat fixed).
Proof.
  intros H. unfold request.
  assert (E : existsb (entry_raises a n) fixed = false).
  { apply not_true_is_false. intros C. apply existsb_exists in C as [z [Hz Hr]]. rewrite forallb_forall in H. specialize (H z Hz).
    unfold entry_raises in Hr. apply andb_true_iff in Hr as [_ Hr]. unfold names_mode in H. apply andb_true_iff in H as [H0 H1].
    apply Z.leb_le in H0. rewrite H1 in Hr. assert (E0 : (- Z.of_nat n <=? z)%Z = true) by (apply Z.leb_le; lia). rewrite E0 in Hr. discriminate. }
  rewrite E. f_equal. apply map_ext_in. intros z Hz. rewrite forallb_forall in H. now apply as_mode_in_range, H.
Qed.

(* the drivers without the sparsity-coefficient indexing accept every request *)
Theorem request_never_raises a n fixed : indexes_list a = false -> request a n fixed = Ok (map (as_mode n) fixed).
Proof.
  intros H. unfold request. replace (existsb (entry_raises a n) fixed) with false; [reflexivity|].
  symmetry. apply not_true_is_false. intros C. apply existsb_exists in C as [z [_ Hr]]. unfold entry_raises in Hr. rewrite H in Hr. discriminate.
Qed.

Lemma memb_filter_keep p m l : p m = true -> memb m (filter p l) = memb m l.
Proof.
  intros Hp. induction l as [|x r IH]; [reflexivity|]. cbn [filter]. destruct (p x) eqn:E; cbn [memb].
  - now rewrite IH.
  - rewrite IH. destruct (Nat.eqb_spec x m) as [->|]; [congruence|reflexivity].
Qed.
Lemma remove_first_filter p x l : p x = true -> remove_first x (filter p l) = filter p (remove_first x l).
Proof.
  intros Hp. induction l as [|y r IH]; [reflexivity|]. cbn [filter remove_first]. destruct (p y) eqn:E.
  - cbn [remove_first]. destruct (Nat.eqb_spec y x); [reflexivity|]. cbn [filter]. now rewrite E, IH.
  - destruct (Nat.eqb_spec y x) as [->|]; [congruence|]. cbn [filter]. now rewrite E.
Qed.

(* entries that name no mode are ignored: dropping them from the request changes neither the update list nor the shortcut's answer
   when there is none of them *)
Theorem modes_list_ignores_nonmodes a n fixed : modes_list a n fixed = modes_list a n (filter (fun x => Nat.ltb x n) fixed).
Proof.
  unfold modes_list. apply filter_ext_in. intros m Hm. apply in_seq in Hm. f_equal.
  assert (Pm : (fun x => Nat.ltb x n) m = true) by (apply Nat.ltb_lt; lia).
  assert (Pl : (fun x => Nat.ltb x n) (n - 1) = true) by (apply Nat.ltb_lt; lia).
  unfold eff_fixed. rewrite (memb_filter_keep _ _ fixed Pl).
  destruct (drops_last a && memb (n - 1) fixed).
  - rewrite (remove_first_filter _ _ fixed Pl). now rewrite (memb_filter_keep _ _ _ Pm).
  - now rewrite (memb_filter_keep _ _ _ Pm).
Qed.

(* ... and parafac's all-fixed shortcut does not fire as soon as one entry names no mode *)
Theorem shortcut_needs_modes_only fixed n x : In x fixed -> n <= x -> names_every_mode fixed n = false.
Proof.
  intros Hin Hx. unfold names_every_mode. apply andb_false_iff. right. apply not_true_is_false. intros C.
  rewrite forallb_forall in C. specialize (C x Hin). apply Nat.ltb_lt in C. lia.
Qed.

(* consequence for a NEGATIVE index (genuine defect, known finding): the mode it denotes in Python's convention is updated.
   Witness: non_negative_parafac_hals, the driver that lets the last mode be fixed, order 3, fixed_modes=[-1]; and parafac, [-2] *)
Lemma negative_index_counterexample :
  request NNHals 3 [(-1)%Z] = Ok [4] /\ In (py_index 3 (-1)%Z) (modes_list NNHals 3 [4]) /\
  request Parafac 3 [(-2)%Z] = Ok [5] /\ In (py_index 3 (-2)%Z) (modes_list Parafac 3 [5]).
Proof. vm_compute. repeat split; auto. Qed.

Example request_examples :
  request Parafac 3 [0; 5; -1]%Z = Ok [0; 5; 4] /\ request NNHals 3 [0; 5]%Z = Err /\ request NNHals 3 [0; -3]%Z = Ok [0; 6] /\
  request NTDHals 3 [-4]%Z = Err /\ modes_list Parafac 3 [0; 5; 4] = [1; 2] /\ modes_list NNHals 3 [0; 6] = [1; 2] /\
  py_index 3 (-1)%Z = 2 /\ py_index 3 1%Z = 1.
Proof. vm_compute. repeat split. Qed.
