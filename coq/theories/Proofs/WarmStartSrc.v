(* C14 -- source tie.  The fixed-mode decision prologue of the five drivers (everything between the initialiser and the
   sweep loop that reads or rewrites `fixed_modes`) is regenerated from the CURRENT Python source by an `ast` translator in
   harness/props/C14.py on every run, as a Gallina function  n -> fixed -> fmres.  This file holds what the generated file
   needs: the target language (set_eqb, fmres), the model's own prologue fm_model, the theorem that `run` factors through
   fm_model, and the fixed-mode / all-fixed theorems restated for ANY prologue function that agrees with the model's. *)
From Coq Require Import List Arith Bool Lia.
From TLV Require Import Base.Shape Base.PyList Base.Tensor Model.WarmStart Proofs.WarmStartProofs.
Import ListNotations.

(* `set(a) == set(b)` *)
Definition set_eqb (a b : list nat) : bool := forallb (fun x => memb x b) a && forallb (fun x => memb x a) b.

(* outcome of a prologue: the initialisation is returned before the loop / the loop runs over `ml`, with `fx` the value of
   `fixed_modes` the orthogonalise hook consults *)
Inductive fmres := FReturn | FLoop (ml fx : list nat).

Definition fm_model (a : algo) (n : nat) (fixed : list nat) : fmres :=
  if shortcut a && names_every_mode fixed n then FReturn
  else if empty_returns a && Nat.eqb (length (modes_list a n fixed)) 0 then FReturn
  else FLoop (modes_list a n fixed) (eff_fixed a n fixed).

Lemma memb_seq m n : memb m (seq 0 n) = Nat.ltb m n.
Proof.
  destruct (Nat.ltb_spec m n) as [H|H].
  - apply memb_In, in_seq. lia.
  - destruct (memb m (seq 0 n)) eqn:E; [|reflexivity]. apply memb_In, in_seq in E. lia.
Qed.

Lemma set_eqb_range fixed n : set_eqb fixed (seq 0 n) = names_every_mode fixed n.
Proof.
  unfold set_eqb, names_every_mode. rewrite andb_comm. f_equal.
  induction fixed as [|m r IH]; cbn [forallb]; [reflexivity|]. now rewrite IH, memb_seq.
Qed.

Section Tie.
  Context {M W X : Type}.
  Variable upd : nat -> nat -> st M W X -> M * X.
  Variable stop : nat -> st M W X -> bool.
  Variable normf : st M W X -> st M W X.
  Variable normalize : bool.
  Variable pre : nat -> nat -> st M W X -> M.
  Variable pre_on : nat -> bool.
  Variable post : nat -> st M W X -> X.
  Variable ls_on : nat -> bool.
  Variable ls_accept : nat -> st M W X -> st M W X -> bool.
  Variable lsf : nat -> st M W X -> M -> M -> M.
  Variable lsw : nat -> st M W X -> W -> W -> W.
  Variable lsx : nat -> st M W X -> st M W X -> X.

  (* the driver as a function of a prologue outcome *)
  Definition run_from (r : fmres) (a : algo) (budget : nat) (tol : bool) (s : st M W X) : res (st M W X) :=
    match r with
    | FReturn => Ok s
    | FLoop ml fx =>
        if needs_mode a tol && Nat.ltb 0 budget && Nat.eqb (length ml) 0 then Err
        else Ok (iterate upd stop normf normalize pre pre_on post ls_on ls_accept lsf lsw lsx a (fun i => negb (memb i fx)) budget 0 ml s)
    end.

  Theorem run_factors a n fixed budget tol s :
    run upd stop normf normalize pre pre_on post ls_on ls_accept lsf lsw lsx a n fixed budget tol s
    = run_from (fm_model a n fixed) a budget tol s.
  Proof.
    unfold run, fm_model, run_from. destruct (shortcut a && names_every_mode fixed n); [reflexivity|].
    destruct (empty_returns a && _); reflexivity.
  Qed.
End Tie.

(* the statements the generated file instantiates: for ANY prologue function src that agrees with the model's *)
Section Restated.
  Context {M W X : Type}.
  Variable src : nat -> list nat -> fmres.
  Variable a : algo.
  Hypothesis Hsrc : forall n fixed, src n fixed = fm_model a n fixed.

  Theorem src_fixed_modes upd stop normf pre pre_on post ls_on ls_accept lsf lsw lsx n fixed budget tol (s s' : st M W X) d m :
    (has_hooks a = true -> forall it s x, lsf it s x x = x) ->
    run_from upd stop normf false pre pre_on post ls_on ls_accept lsf lsw lsx (src n fixed) a budget tol s = Ok s' ->
    In m fixed -> (drops_last a = true -> m <> n - 1) -> nth m (facs s') d = nth m (facs s) d.
  Proof.
    intros Hl H. rewrite Hsrc, <- run_factors in H. intros Hin Hlast.
    eapply run_fixed_user; eauto.
  Qed.

  Theorem src_zero_budget upd stop normf normalize pre pre_on post ls_on ls_accept lsf lsw lsx n fixed tol (s : st M W X) :
    run_from upd stop normf normalize pre pre_on post ls_on ls_accept lsf lsw lsx (src n fixed) a 0 tol s = Ok s.
  Proof. rewrite Hsrc, <- run_factors. apply run_zero_budget. Qed.

  Theorem src_all_fixed_shortcut n fixed : shortcut a = true ->
    (forall m, m < n -> In m fixed) -> (forall m, In m fixed -> m < n) -> src n fixed = FReturn.
  Proof.
    intros Hs H1 H2. rewrite Hsrc. unfold fm_model. rewrite Hs.
    now rewrite (proj2 (names_every_mode_spec fixed n) (conj H1 H2)).
  Qed.

  Theorem src_loop_modes n fixed ml fx : src n fixed = FLoop ml fx ->
    forall m, In m ml <-> m < n /\ ~ In m fx.
  Proof.
    rewrite Hsrc. unfold fm_model. destruct (shortcut a && _); [discriminate|].
    destruct (empty_returns a && _); [discriminate|]. intros [= <- <-]. apply modes_list_In.
  Qed.
End Restated.

(* proof automation for the generated file: decide the two sides' boolean guards *)
Ltac fm_tie :=
  intros n fixed; unfold fm_model, modes_list, eff_fixed, shortcut, drops_last, empty_returns;
  cbn [andb negb]; rewrite ?set_eqb_range;
  repeat match goal with
         | |- context [if ?c then _ else _] => destruct c eqn:?
         end; try reflexivity; try congruence.

(* non-vacuity / self-test of the automation on the expected shapes *)
Definition fm_expect_parafac (n : nat) (fixed : list nat) : fmres :=
  if set_eqb fixed (seq 0 n) then FReturn
  else FLoop (filter (fun mode => negb (memb mode (if memb (n - 1) fixed then remove_first (n - 1) fixed else fixed))) (seq 0 n))
             (if memb (n - 1) fixed then remove_first (n - 1) fixed else fixed).
Lemma fm_expect_parafac_ok : forall n fixed, fm_expect_parafac n fixed = fm_model Parafac n fixed.
Proof. unfold fm_expect_parafac. fm_tie. Qed.

Definition fm_expect_hals (n : nat) (fixed : list nat) : fmres :=
  if Nat.eqb (length (filter (fun mode => negb (memb mode fixed)) (seq 0 n))) 0 then FReturn
  else FLoop (filter (fun mode => negb (memb mode fixed)) (seq 0 n)) fixed.
Lemma fm_expect_hals_ok : forall n fixed, fm_expect_hals n fixed = fm_model NNHals n fixed.
Proof. unfold fm_expect_hals. fm_tie. Qed.

Example fm_model_examples :
  fm_model Parafac 3 [1; 0; 2; 2] = FReturn /\ fm_model Parafac 3 [0; 2] = FLoop [1; 2] [0] /\
  fm_model NNHals 3 [0; 2] = FLoop [1] [0; 2] /\ fm_model NNHals 2 [1; 0] = FReturn /\
  fm_model Constrained 2 [0; 1; 1] = FLoop [] [0; 1].
Proof. vm_compute. repeat split. Qed.

(* ---- non_negative_parafac_hals, the block in front of the initialiser (commit 3d55b5c): which factor takes the weights.
   `nonunit` stands for `not tl.all(init_weights == 1)`; the answer is the index of the factor that is multiplied by the
   weights before initialize_cp is called (None: the initialiser is called on the supplied CP tensor) *)
Definition hals_pre_model (n : nat) (fixed : list nat) (nonunit : bool) : option nat :=
  let free := modes_list NNHals n fixed in
  if memb (n - 1) fixed && negb (Nat.eqb (length free) 0) && nonunit then Some (last free 0) else None.

Lemma init_hals_via_pre {F : Type} (one : F) (mul : F -> F -> F) (eqb : F -> F -> bool) R n fixed w (fs : list (@matrix F)) :
  let w' := match w with None => ones one R | Some v => v end in
  init_hals one mul eqb R n fixed w fs
  = match hals_pre_model n fixed (negb (all_ones one eqb w')) with
    | Some k => init_cp one mul eqb R None (absorb_at mul k w' fs)
    | None => init_cp one mul eqb R w fs
    end.
Proof. cbv zeta. unfold init_hals, hals_pre_model. destruct (memb (n - 1) fixed && _ && _); reflexivity. Qed.

Ltac hals_pre_tie :=
  intros n fixed nonunit; unfold hals_pre_model, modes_list, eff_fixed, drops_last; cbn [andb negb];
  repeat match goal with
         | |- context [if ?c then _ else _] => destruct c eqn:?
         end; cbn [andb negb] in *; try reflexivity; try congruence.

Definition hals_pre_expect (n : nat) (fixed : list nat) (nonunit : bool) : option nat :=
  if memb (n - 1) fixed
  then (if (negb (Nat.eqb (length (filter (fun mode => negb (memb mode fixed)) (seq 0 n))) 0) && nonunit)
        then Some (last (filter (fun mode => negb (memb mode fixed)) (seq 0 n)) 0) else None)
  else None.
Lemma hals_pre_expect_ok : forall n fixed nonunit, hals_pre_expect n fixed nonunit = hals_pre_model n fixed nonunit.
Proof. unfold hals_pre_expect. hals_pre_tie. Qed.

(* ---- parafac's line-search candidate, regenerated from the source as an entry formula e jump last cur: all the
   fixed-mode theorem needs of it is e j x x = x (proved by `ring` in the generated file) *)
Section LsGen.
  Context {F : Type} (e : F -> F -> F -> F).
  Definition ls_vec_gen (j : F) (l c : list F) : list F := map (fun p => e j (fst p) (snd p)) (combine l c).
  Definition ls_mat_gen (j : F) (L C : list (list F)) : list (list F) := map (fun p => ls_vec_gen j (fst p) (snd p)) (combine L C).
  Hypothesis He : forall j x, e j x x = x.
  Lemma ls_vec_gen_same j : forall v, ls_vec_gen j v v = v.
  Proof. unfold ls_vec_gen. induction v as [|x v IH]; simpl; [reflexivity|]. now rewrite He, IH. Qed.
  Lemma ls_mat_gen_same j : forall A, ls_mat_gen j A A = A.
  Proof. unfold ls_mat_gen. induction A as [|r A IH]; simpl; [reflexivity|]. now rewrite (ls_vec_gen_same j r), IH. Qed.
End LsGen.

Lemma ls_mat_gen_model {F : Type} (add sub mul : F -> F -> F) j L C :
  ls_mat_gen (ls_entry add sub mul) j L C = ls_mat add sub mul j L C.
Proof. reflexivity. Qed.

Theorem fixed_modes_ls_gen : forall (F : Type) (e : F -> F -> F -> F), (forall j x, e j x x = x) ->
  forall (W X : Type) upd stop normf pre pre_on post ls_on ls_accept (jump : nat -> st (list (list F)) W X -> F) lsw lsx
  a n fixed budget tol (s s' : st (list (list F)) W X) d m,
  run upd stop normf false pre pre_on post ls_on ls_accept (fun it s => ls_mat_gen e (jump it s)) lsw lsx
      a n fixed budget tol s = Ok s' ->
  In m (eff_fixed a n fixed) -> nth m (facs s') d = nth m (facs s) d.
Proof.
  intros F e He W X upd stop normf pre pre_on post ls_on ls_accept jump lsw lsx a n fixed budget tol s s' d m.
  apply run_fixed. intros _ it s0 x. apply ls_mat_gen_same, He.
Qed.

(* ---- parafac2 start state: the nn_modes projection applies to built-in initialisations only *)
Section P2StartFacts.
  Context {F : Type} (one : F).
  Lemma p2_feasible_user clip nn (fs : list (@matrix F)) : p2_feasible clip false nn fs = fs.
  Proof. unfold p2_feasible. destruct nn; reflexivity. Qed.
  Lemma p2_feasible_no_nn clip builtin (fs : list (@matrix F)) : p2_feasible clip builtin None fs = fs.
  Proof. reflexivity. Qed.
  (* a user-supplied decomposition is the start state, whatever nn_modes *)
  Theorem p2_start_user qr rank clip nn (init : p2init F) : p2_start one qr rank clip false nn init = p2_init one qr rank init.
  Proof. unfold p2_start. destruct (p2_init one qr rank init) as [s|]; [|reflexivity]. rewrite p2_feasible_user. destruct s; reflexivity. Qed.
  Lemma clip_modes_length clip nn : forall (fs : list (@matrix F)) off, length (clip_modes clip nn off fs) = length fs.
  Proof. induction fs as [|f r IH]; intros off; cbn [clip_modes length]; [reflexivity|]. now rewrite IH. Qed.
  Lemma clip_modes_nth clip nn d : forall (fs : list (@matrix F)) off k, k < length fs ->
    nth k (clip_modes clip nn off fs) d = if memb (off + k) nn then clip (nth k fs d) else nth k fs d.
  Proof.
    induction fs as [|f r IH]; intros off k Hk; [inversion Hk|]. cbn [clip_modes]. destruct k as [|k].
    - cbn [nth]. now rewrite Nat.add_0_r.
    - cbn [nth]. cbn [length] in Hk. rewrite IH by lia. now replace (S off + k) with (off + S k) by lia.
  Qed.
  (* a built-in initialisation: exactly the factors of the modes named by nn_modes are projected, the others (and the weights
     and projections) are the initialiser's *)
  Theorem p2_start_builtin qr rank clip ms (init : p2init F) s : p2_start one qr rank clip true (Some ms) init = Ok s ->
    exists s0, p2_init one qr rank init = Ok s0 /\ p2w s = p2w s0 /\ p2P s = p2P s0 /\ length (p2f s) = length (p2f s0) /\
      forall k d, k < length (p2f s0) -> nth k (p2f s) d = if memb k ms then clip (nth k (p2f s0) d) else nth k (p2f s0) d.
  Proof.
    unfold p2_start. destruct (p2_init one qr rank init) as [s0|]; [|discriminate]. intros [= <-]. exists s0.
    cbn [p2w p2f p2P p2_feasible]. repeat split; [apply clip_modes_length|]. intros k d Hk. now rewrite clip_modes_nth.
  Qed.
End P2StartFacts.

(* ---- parafac2 start state by kind of initialisation *)
Section P2KindFacts.
  Context {F : Type} (one : F).
  Theorem p2_start_kind_user qr rank clip proj nn (init : p2init F) :
    p2_start_kind one qr rank clip proj UserInit nn init = p2_init one qr rank init.
  Proof. unfold p2_start_kind. destruct (p2_init one qr rank init); [|reflexivity]. destruct nn; reflexivity. Qed.
  Theorem p2_start_kind_no_nn qr rank clip proj kind (init : p2init F) :
    p2_start_kind one qr rank clip proj kind None init = p2_init one qr rank init.
  Proof. unfold p2_start_kind. destruct (p2_init one qr rank init); reflexivity. Qed.
  Theorem p2_start_kind_random qr rank clip proj ms (init : p2init F) :
    p2_start_kind one qr rank clip proj BuiltinRandom (Some ms) init = p2_start one qr rank clip true (Some ms) init.
  Proof. unfold p2_start_kind, p2_start. destruct (p2_init one qr rank init); reflexivity. Qed.
  Theorem p2_start_kind_svd qr rank clip proj ms (init : p2init F) s :
    p2_start_kind one qr rank clip proj BuiltinSvd (Some ms) init = Ok s ->
    exists s0, p2_init one qr rank init = Ok s0 /\ p2w s = p2w s0 /\ p2f s = clip_modes clip ms 0 (p2f s0) /\ p2P s = proj (p2f s).
  Proof. unfold p2_start_kind. destruct (p2_init one qr rank init) as [s0|]; [|discriminate]. intros [= <-]. exists s0. repeat split. Qed.
End P2KindFacts.
