(* C14 -- source tie, second part (round 7): tucker(fixed_factors=...) and the head of parafac2's main loop.
   harness/props/C14.py executes the `if fixed_factors:` branch of tucker symbolically (ast -> Gallina; fail closed) into a function
   tucker_src with the type of Model.tucker_fixed, and the statements at the top of parafac2's `for iteration in range(n_iter_max)`
   loop that write `weights` / `factors` in front of the projection step into a function p2_head_src; the generated lemmas
   tucker_src_ok / p2_head_src_ok prove them equal to the model for ALL inputs.  This file holds what the generated file needs:
   the tactics, the statements restated for ANY function that agrees with the model, and a self-test of the automation on the
   shapes the translator produces today. *)
From Coq Require Import List Arith Bool Lia ZArith.
From TLV Require Import Base.Shape Base.PyList Base.Tensor Model.WarmStart Proofs.WarmStartProofs2 Proofs.WarmStartTucker Proofs.WarmStartP2.
Import ListNotations.

Lemma py_sorted_nonempty (l : list nat) : l <> [] -> py_sorted l <> [].
Proof. intros H E. apply H. apply length_zero_iff_nil. rewrite <- (py_sorted_length l), E. reflexivity. Qed.

(* `a, b = zip-star(pairs)`: unpacking the empty zip raises *)
Definition unzip_star {A B C} (l : list (A * B)) (k : list A -> list B -> res C) : res C :=
  match l with [] => Err | _ => k (map fst l) (map snd l) end.

(* ------------------------------------------------------------------ tucker(fixed_factors) *)
Section TuckerSrc.
  Context {F : Type} (zero : F) (add mul : F -> F -> F).
  Notation mat := (@matrix F).
  Definition tucker_ty := tensor F -> list mat -> list nat -> (tensor F -> list nat -> list mat -> tensor F * list mat) -> res (tensor F * list mat).

  (* the branch is entered by `if fixed_factors:` (a non-empty request) *)
  Definition tucker_agrees (tk : tucker_ty) : Prop :=
    forall core fs fixed pt, fixed <> [] -> tk core fs fixed pt = tucker_fixed zero add mul core fs fixed pt.

  Variable tk : tucker_ty.
  Hypothesis Htk : tucker_agrees tk.

  Lemma nonempty_of_in (fixed : list nat) e : In e fixed -> fixed <> [].
  Proof. intros H E. subst. destruct H. Qed.

  (* the fixed factors of the code's own branch are the supplied ones, for every partial_tucker *)
  Theorem src_tucker_keeps_factors pt core (fs : list mat) fixed : fixed <> [] ->
    NoDup fixed -> (forall e, In e fixed -> e < length fs) ->
    (forall c modes free, length (snd (pt c modes free)) = length free) ->
    exists c out, tk core fs fixed pt = Ok (c, out) /\ length out = length fs /\
      forall e d, In e fixed -> nth e out d = nth e fs d.
  Proof. intros Hne Hnd Hb Hp. rewrite (Htk core fs fixed pt Hne). now apply tucker_fixed_keeps_factors. Qed.

  Theorem src_tucker_all_fixed pt core (fs : list mat) fixed : fixed <> [] ->
    (forall i, i < length fs -> In i fixed) -> tk core fs fixed pt = Ok (core, fs).
  Proof. intros Hne H. rewrite (Htk core fs fixed pt Hne). now apply tucker_fixed_all_returns. Qed.
End TuckerSrc.

Section TuckerSrcZero.
  Variable F : Type.
  Variables (rO rI : F) (radd rmul rsub : F -> F -> F) (ropp : F -> F).
  Hypothesis Rth : ring_theory rO rI radd rmul rsub ropp (@eq F).
  Variable tk : @tucker_ty F.
  Hypothesis Htk : tucker_agrees rO radd rmul tk.
  Theorem src_tucker_zero_budget (core : tensor F) (fs : list (@matrix F)) (fixed : list nat) : fixed <> [] ->
    NoDup fixed -> (forall e, In e fixed -> e < length fs) ->
    wf core -> length (shape core) = length fs ->
    (forall e, In e fixed -> ncols (nth e fs []) = nth e (shape core) 0 /\
                             orthonormal_cols rO rI radd rmul (ncols (nth e fs [])) (nth e fs [])) ->
    tk core fs fixed (@pt_zero F) = Ok (core, fs).
  Proof. intros Hne. rewrite (Htk core fs fixed _ Hne). now apply (tucker_zero_budget_orthonormal F rO rI radd rmul rsub ropp Rth). Qed.
End TuckerSrcZero.

(* proof automation for the generated lemma: both sides are straight-line code over the same three case distinctions *)
Ltac tk_tie :=
  let Hne := fresh "Hne" in
  intros ? ? ? ? ? ? ? ? Hne; unfold tucker_fixed, unzip_star;
  repeat match goal with
         | |- context [if ?c then _ else _] => destruct c eqn:?
         end; try reflexivity;
  repeat match goal with
         | |- context [match pick ?k ?o ?l with _ => _ end] => destruct (pick k o l) eqn:?
         end; try reflexivity;
  try (destruct (py_sorted _) eqn:?Es; [exfalso; eapply py_sorted_nonempty; eassumption | reflexivity]);
  repeat match goal with
         | |- context [match reinsert ?a ?b ?c with _ => _ end] => destruct (reinsert a b c) eqn:?
         end; try reflexivity; try congruence.

(* self-test: the shape the translator produces from the current source *)
Definition tucker_expect {F : Type} (zero : F) (add mul : F -> F -> F) (core : tensor F) (factors : list (@matrix F)) (fixed_factors : list nat)
    (pt : tensor F -> list nat -> list (@matrix F) -> tensor F * list (@matrix F)) : res (tensor F * list (@matrix F)) :=
  let fixed_factors1 := py_sorted fixed_factors in
  if forallb (fun i => memb i fixed_factors1) (seq 0 (length factors)) then Ok (core, factors) else
  unzip_star (pick (fun i => memb i fixed_factors1) 0 factors) (fun modes_fixed factors_fixed =>
  let core1 := multi_mode_dot zero add mul core factors_fixed modes_fixed in
  unzip_star (pick (fun i => negb (memb i fixed_factors1)) 0 factors) (fun modes factors1 =>
  let r := pt core1 modes factors1 in
  match reinsert fixed_factors1 factors_fixed (snd r) with Err => Err | Ok factors2 =>
  let core2 := multi_mode_dot_T zero add mul (fst r) factors_fixed modes_fixed in
  Ok (core2, factors2) end)).
Lemma tucker_expect_ok : forall (F : Type) (zero : F) (add mul : F -> F -> F), tucker_agrees zero add mul (tucker_expect zero add mul).
Proof. unfold tucker_agrees, tucker_expect. tk_tie. Qed.

(* a harmless re-ordering (the core is re-extracted before the factors are re-inserted) passes as well *)
Definition tucker_expect_reordered {F : Type} (zero : F) (add mul : F -> F -> F) (core : tensor F) (factors : list (@matrix F)) (fixed_factors : list nat)
    (pt : tensor F -> list nat -> list (@matrix F) -> tensor F * list (@matrix F)) : res (tensor F * list (@matrix F)) :=
  let fixed_factors1 := py_sorted fixed_factors in
  if forallb (fun i => memb i fixed_factors1) (seq 0 (length factors)) then Ok (core, factors) else
  unzip_star (pick (fun i => negb (memb i fixed_factors1)) 0 factors) (fun modes factors1 =>
  unzip_star (pick (fun i => memb i fixed_factors1) 0 factors) (fun modes_fixed factors_fixed =>
  let core1 := multi_mode_dot zero add mul core factors_fixed modes_fixed in
  let r := pt core1 modes factors1 in
  let core2 := multi_mode_dot_T zero add mul (fst r) factors_fixed modes_fixed in
  match reinsert fixed_factors1 factors_fixed (snd r) with Err => Err | Ok factors2 => Ok (core2, factors2) end)).
Lemma tucker_expect_reordered_ok : forall (F : Type) (zero : F) (add mul : F -> F -> F), tucker_agrees zero add mul (tucker_expect_reordered zero add mul).
Proof. unfold tucker_agrees, tucker_expect_reordered. tk_tie. Qed.

(* ... and a branch that forgets to sort the request is NOT the model (the two differ on [1; 0] for three supplied factors) *)
Definition tucker_unsorted {F : Type} (zero : F) (add mul : F -> F -> F) (core : tensor F) (factors : list (@matrix F)) (fixed_factors : list nat)
    (pt : tensor F -> list nat -> list (@matrix F) -> tensor F * list (@matrix F)) : res (tensor F * list (@matrix F)) :=
  if forallb (fun i => memb i fixed_factors) (seq 0 (length factors)) then Ok (core, factors) else
  unzip_star (pick (fun i => memb i fixed_factors) 0 factors) (fun modes_fixed factors_fixed =>
  let core1 := multi_mode_dot zero add mul core factors_fixed modes_fixed in
  unzip_star (pick (fun i => negb (memb i fixed_factors)) 0 factors) (fun modes factors1 =>
  let r := pt core1 modes factors1 in
  match reinsert fixed_factors factors_fixed (snd r) with Err => Err | Ok factors2 =>
  Ok (multi_mode_dot_T zero add mul (fst r) factors_fixed modes_fixed, factors2) end)).
Lemma tucker_unsorted_differs : ~ tucker_agrees 0%Z Z.add Z.mul (tucker_unsorted 0%Z Z.add Z.mul).
Proof.
  intros H.
  specialize (H (mk [1; 1; 1] [1%Z]) [[[1%Z]]; [[2%Z]]; [[3%Z]]] [1; 0] (fun c _ fr => (c, fr))).
  assert (Hne : [1; 0] <> []) by discriminate. specialize (H Hne). vm_compute in H. discriminate.
Qed.

(* ------------------------------------------------------------------ head of parafac2's main loop *)
Section P2Head.
  Context {F : Type} (one : F) (mul : F -> F -> F) {PT : Type}.
  Variable upd : nat -> p2st F PT -> list (@matrix F) * PT.
  Variable stop : nat -> p2st F PT -> bool.
  Variable normf : p2st F PT -> p2st F PT.
  Variable normalize : bool.

  (* the loop with an arbitrary head: what the statements in front of the projection step make of (weights, factors) *)
  Variable hd : nat -> list F -> list (@matrix F) -> list F * list (@matrix F).
  Fixpoint p2_iterate_hd (R budget it : nat) (s : p2st F PT) : p2st F PT :=
    match budget with
    | 0 => s
    | S b => let h := hd it (p2w s) (p2f s) in
             let s0 := mkp2 (fst h) (snd h) (p2P s) in
             let r := upd it s0 in
             let s1 := mkp2 (p2w s0) (fst r) (snd r) in
             let s2 := if normalize then normf s1 else s1 in
             if stop it s2 then s2 else p2_iterate_hd R b (S it) s2
    end.
  Definition p2_run_hd (R budget : nat) (s : p2st F PT) : p2st F PT :=
    p2_iterate_hd R budget 0 (if normalize then normf s else s).

  (* the head agrees with the model's: weights into factor 1, weights reset (on every state whose weight vector has length R) *)
  Definition p2_head_agrees (R : nat) : Prop :=
    forall it w fs, length w = R -> hd it w fs = (ones one R, absorb_at mul 1 w fs).
End P2Head.

Section P2HeadFacts.
  Variable F : Type.
  Variables (rO rI : F) (radd rmul rsub : F -> F -> F) (ropp : F -> F).
  Hypothesis Rth : ring_theory rO rI radd rmul rsub ropp (@eq F).
  Context {PT : Type}.
  Variable upd : nat -> p2st F PT -> list (@matrix F) * PT.
  Variable stop : nat -> p2st F PT -> bool.
  Variable normf : p2st F PT -> p2st F PT.
  Variable normalize : bool.
  Variable hd : nat -> list F -> list (@matrix F) -> list F * list (@matrix F).

  (* one step of a loop whose head agrees with the model's: the two forms of the initialisation meet in the first absorbed state, so every
     later iterate is the same -- whatever the updates, the stopping rule and the normalisation do *)
  Theorem src_p2_same_iterates R w fs (P : PT) budget it : p2_head_agrees rI rmul hd R -> length w = R ->
    (forall row, In row (nth 1 fs []) -> R <= length row) -> 0 < budget ->
    p2_iterate_hd upd stop normf normalize hd R budget it (mkp2 (ones rI R) (absorb_at rmul 1 w fs) P)
    = p2_iterate_hd upd stop normf normalize hd R budget it (mkp2 w fs P).
  Proof.
    intros Hh Hl Hrows Hb. destruct budget as [|b]; [lia|]. cbn [p2_iterate_hd p2w p2f p2P].
    rewrite (Hh it w fs Hl). rewrite (Hh it (ones rI R) (absorb_at rmul 1 w fs)) by apply repeat_length.
    cbn [fst snd]. rewrite (absorb_at_1_again F rO rI radd rmul rsub ropp Rth R w fs Hl Hrows). reflexivity.
  Qed.

  Theorem src_p2_run_same_iterates R w fs (P : PT) budget : p2_head_agrees rI rmul hd R -> normalize = false -> length w = R ->
    (forall row, In row (nth 1 fs []) -> R <= length row) -> 0 < budget ->
    p2_run_hd upd stop normf normalize hd R budget (mkp2 (ones rI R) (absorb_at rmul 1 w fs) P)
    = p2_run_hd upd stop normf normalize hd R budget (mkp2 w fs P).
  Proof.
    intros Hh Hn Hl Hr Hb. unfold p2_run_hd.
    assert (E : forall s : p2st F PT, (if normalize then normf s else s) = s) by (intros s; now rewrite Hn).
    rewrite !E. now apply src_p2_same_iterates.
  Qed.

  Theorem src_p2_run_zero_budget R s : p2_run_hd upd stop normf normalize hd R 0 s = if normalize then normf s else s.
  Proof. reflexivity. Qed.
End P2HeadFacts.

(* the model's head is one *)
Definition p2_head_model {F : Type} (one : F) (mul : F -> F -> F) (R : nat) (it : nat) (w : list F) (fs : list (@matrix F)) :=
  (ones one R, absorb_at mul 1 w fs).
Lemma p2_head_model_agrees {F : Type} (one : F) (mul : F -> F -> F) R : p2_head_agrees one mul (p2_head_model one mul R) R.
Proof. intros it w fs _. reflexivity. Qed.

(* the shape the translator produces today: `factors[1] = factors[1] * reshape(weights, (1, -1)); weights = ones(weights.shape)` *)
Definition p2_head_expect {F : Type} (one : F) (mul : F -> F -> F) (it : nat) (weights : list F) (factors : list (@matrix F)) :=
  let factors1 := set_nth 1 (scale_cols mul (nth 1 factors []) weights) factors in
  let weights1 := ones one (length weights) in
  (weights1, factors1).
Ltac p2_head_tie := intros ? ? ? ? ? ? ? Hl; unfold absorb_at; cbn zeta; rewrite ?Hl; reflexivity.
Lemma p2_head_expect_ok : forall (F : Type) (one : F) (mul : F -> F -> F) R, p2_head_agrees one mul (p2_head_expect one mul) R.
Proof. unfold p2_head_agrees, p2_head_expect. p2_head_tie. Qed.

(* why the head must not be guarded: with the absorption done only `if normalize_factors:` (the weights are then handed to the inner
   CP routine as they are) the two forms of an initialisation with non-unit weights give different iterates *)
Definition p2_head_guarded (normalize : bool) (it : nat) (w : list Z) (fs : list (list (list Z))) :=
  if normalize then (ones 1%Z (length w), absorb_at Z.mul 1 w fs) else (w, fs).
Lemma p2_head_guarded_differs :
  let upd := fun (_ : nat) (s : p2st Z unit) => (p2f s, p2P s) in
  p2_run_hd upd (fun _ _ => false) (fun s => s) false (p2_head_guarded false) 1 1 (mkp2 [1%Z] (absorb_at Z.mul 1 [2%Z] [[[1%Z]]; [[1%Z]]; [[1%Z]]]) tt)
  <> p2_run_hd upd (fun _ _ => false) (fun s => s) false (p2_head_guarded false) 1 1 (mkp2 [2%Z] [[[1%Z]]; [[1%Z]]; [[1%Z]]] tt)
  /\ ~ p2_head_agrees 1%Z Z.mul (p2_head_guarded false) 1.
Proof.
  split; [vm_compute; discriminate|].
  intros H. specialize (H 0 [2%Z] [[[1%Z]]; [[1%Z]]; [[1%Z]]] eq_refl). vm_compute in H. discriminate.
Qed.

(* ------------------------------------------------------------------ the gate in front of tucker's fixed-factor branch (Model: container,
   request_truth, as_list, tucker_gate; tucker_gate_before_1ad6e15 is the old rule).  Since commit 1ad6e15 the request is turned into a
   list before its truth value is taken, so for EVERY container the branch is entered iff the request has at least one entry. *)
Theorem tucker_gate_any_iterable (c : container) (req : option (list Z)) :
  tucker_gate c req = Ok (match req with Some (_ :: _) => true | _ => false end).
Proof. destruct req as [[|z l]|]; reflexivity. Qed.
Corollary tucker_gate_enters (c : container) (l : list Z) : tucker_gate c (Some l) = Ok true <-> l <> [].
Proof. rewrite tucker_gate_any_iterable. destruct l; split; intros H; try discriminate; try reflexivity. now contradiction H. Qed.
Corollary tucker_gate_container_free (c c' : container) req : tucker_gate c req = tucker_gate c' req.
Proof. now rewrite !tucker_gate_any_iterable. Qed.

(* the old rule, for the record: a tuple behaved as the list, a one-element ndarray as its entry, a longer ndarray raised *)
Lemma request_truth_list_tuple l : request_truth CTuple l = request_truth CList l /\ (request_truth CList l = Ok true <-> l <> []).
Proof. split; [reflexivity|]. destruct l; simpl; split; intros H; try discriminate; try reflexivity. now contradiction H. Qed.
Lemma gate_before_1ad6e15_witness :
  tucker_gate_before_1ad6e15 CArray (Some [0%Z]) = Ok false /\ tucker_gate_before_1ad6e15 CList (Some [0%Z]) = Ok true /\
  tucker_gate_before_1ad6e15 CArray (Some [0%Z; 1%Z]) = Err /\
  tucker_gate CArray (Some [0%Z]) = Ok true /\ tucker_gate CArray (Some [0%Z; 1%Z]) = Ok true /\ tucker_gate CArray (Some []) = Ok false /\ tucker_gate CTuple None = Ok false.
Proof. vm_compute. repeat split. Qed.

(* the shape the translator produces from the current source, and the pre-1ad6e15 shape (no list()), which is not the model *)
Definition tucker_gate_expect (c : container) (req : option (list Z)) : res bool :=
  match req with None => Ok false | Some l => let c1 := CList in request_truth c1 l end.
Ltac gate_tie := intros c req; destruct c; destruct req as [[|? [|? ?]]|]; reflexivity.
Lemma tucker_gate_expect_ok : forall c req, tucker_gate_expect c req = tucker_gate c req.
Proof. unfold tucker_gate_expect. gate_tie. Qed.
Lemma tucker_gate_unlisted_differs : ~ (forall c req, tucker_gate_before_1ad6e15 c req = tucker_gate c req).
Proof. intros H. specialize (H CArray (Some [0%Z])). vm_compute in H. discriminate. Qed.

(* ------------------------------------------------------------------ partial_tucker / non_negative_tucker / non_negative_tucker_hals: the start
   state.  Each calls initialize_tucker(..., init=init[, non_negative=True]) -- for a user-supplied (core, factors) this is Model.tucker_init --,
   the non-negative variants then normalise `if normalize_factors:`, and n_iter_max sweeps follow (arbitrary functions here).  Both the
   user-init branch of initialize_tucker and the drivers' code between that call and the loop are regenerated from the source
   (tucker_init_src, tkd_start_src_<driver>) and proved equal to tucker_init / tkd_start on every run. *)
Section TuckerDrivers.
  Context {F : Type}.
  Notation tks := (tensor F * list (@matrix F))%type.
  Definition tkd_start (nn normalize : bool) (fabs : F -> F) (normf : tks -> tks) (core : tensor F) (fs : list (@matrix F)) : tks :=
    let s := tucker_init nn fabs core fs in if normalize then normf s else s.
  Fixpoint tkd_iterate (sweep : nat -> tks -> tks) (stop : nat -> tks -> bool) (budget it : nat) (s : tks) : tks :=
    match budget with
    | 0 => s
    | S b => let s1 := sweep it s in if stop it s1 then s1 else tkd_iterate sweep stop b (S it) s1
    end.
  (* a driver whose start state is computed by `st` *)
  Definition tkd_run_from (st : bool -> (F -> F) -> (tks -> tks) -> tensor F -> list (@matrix F) -> tks)
      (normalize : bool) fabs normf sweep stop (budget : nat) core fs : tks :=
    tkd_iterate sweep stop budget 0 (st normalize fabs normf core fs).
  Definition tkd_start_agrees (st : bool -> (F -> F) -> (tks -> tks) -> tensor F -> list (@matrix F) -> tks) (nn uses_norm : bool) : Prop :=
    forall normalize fabs normf core fs, st normalize fabs normf core fs = tkd_start nn (uses_norm && normalize) fabs normf core fs.

  Theorem src_tkd_zero_budget st nn un : tkd_start_agrees st nn un ->
    forall normalize fabs normf sweep stop core fs,
    tkd_run_from st normalize fabs normf sweep stop 0 core fs = tkd_start nn (un && normalize) fabs normf core fs.
  Proof. intros H; intros. unfold tkd_run_from. cbn [tkd_iterate]. apply H. Qed.

  (* partial_tucker (non_negative absent, no normalisation): zero budget returns exactly the supplied (core, factors) *)
  Theorem src_tkd_plain_zero_budget st : tkd_start_agrees st false false ->
    forall normalize fabs normf sweep stop core fs, tkd_run_from st normalize fabs normf sweep stop 0 core fs = (core, fs).
  Proof. intros H; intros. rewrite (src_tkd_zero_budget st false false H). reflexivity. Qed.

  (* the non-negative variants with default normalisation on an entrywise non-negative initialisation (fabs x = x) *)
  Theorem src_tkd_nonneg_zero_budget st un : tkd_start_agrees st true un ->
    forall fabs normf sweep stop core fs,
    (forall x, In x (data core) -> fabs x = x) ->
    (forall A, In A fs -> forall row, In row A -> forall x, In x row -> fabs x = x) ->
    tkd_run_from st false fabs normf sweep stop 0 core fs = (core, fs).
  Proof.
    intros H fabs normf sweep stop core fs Hc Hf. rewrite (src_tkd_zero_budget st true un H). rewrite andb_false_r.
    unfold tkd_start. now apply tucker_init_feasible.
  Qed.
End TuckerDrivers.

(* self-test: the shapes the translator produces today *)
Definition tucker_init_expect {F : Type} (non_negative : bool) (fabs : F -> F) (core : tensor F) (factors : list (@matrix F)) :=
  let factors1 := factors in
  if non_negative then (let factors2 := map (abs_mat fabs) factors1 in let core3 := abs_tensor fabs core in (core3, factors2)) else (core, factors1).
Lemma tucker_init_expect_ok : forall (F : Type) nn (fabs : F -> F) core fs, tucker_init_expect nn fabs core fs = tucker_init nn fabs core fs.
Proof. intros F [] fabs core fs; reflexivity. Qed.
Definition tkd_start_expect_nn {F : Type} (normalize : bool) (fabs : F -> F) (normf : tensor F * list (@matrix F) -> tensor F * list (@matrix F)) core factors :=
  let s := tucker_init_expect true fabs core factors in if normalize then normf s else s.
Ltac tkd_tie lem := intros normalize fabs normf core fs; unfold tkd_start; rewrite ?lem; destruct normalize; reflexivity.
Lemma tkd_start_expect_nn_ok : forall F : Type, tkd_start_agrees (@tkd_start_expect_nn F) true true.
Proof. intro F. unfold tkd_start_agrees, tkd_start_expect_nn. tkd_tie (@tucker_init_expect_ok F). Qed.
Example tkd_example :
  tkd_run_from (@tkd_start_expect_nn Z) false Z.abs (fun s => s) (fun _ s => s) (fun _ _ => false) 0 (mk [1; 1] [2%Z]) [[[1%Z]]; [[3%Z]]]
  = (mk [1; 1] [2%Z], [[[1%Z]]; [[3%Z]]]).
Proof. vm_compute. reflexivity. Qed.
