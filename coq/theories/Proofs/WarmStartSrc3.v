(* C14 -- source tie, third part (round 8): the tie of tucker's fixed-factor branch made SEMANTIC in the conditions of its two
   enumerate-comprehensions.  The code may name the fixed modes by the request (`i not in fixed_factors`) or, equivalently, by the
   list the first comprehension produced (`i not in modes_fixed`): on the indices of `factors` the two conditions are the same
   function, and `pick` only evaluates its condition there (pick_ext).  tk_tie2 normalises such conditions before comparing. *)
From Coq Require Import List Arith Bool Lia ZArith.
From TLV Require Import Base.Shape Base.PyList Base.Tensor Model.WarmStart Proofs.WarmStartProofs Proofs.WarmStartProofs2 Proofs.WarmStartTucker Proofs.WarmStartP2
  Proofs.WarmStartSrc2.
Import ListNotations.

Section PickExt.
  Context {M : Type}.
  (* pick evaluates its condition only at the positions of the list *)
  Lemma pick_ext (k1 k2 : nat -> bool) : forall (fs : list M) off,
    (forall i, off <= i < off + length fs -> k1 i = k2 i) -> pick k1 off fs = pick k2 off fs.
  Proof.
    induction fs as [|f r IH]; intros off H; cbn [pick]; [reflexivity|].
    rewrite (H off) by (cbn [length]; lia).
    rewrite (IH (S off)) by (intros i Hi; apply H; cbn [length]; lia). reflexivity.
  Qed.

  (* the positions a comprehension `[(i, f) for (i, f) in enumerate(fs) if k i]` yields: exactly the positions of fs where k holds *)
  Lemma pick_fst_In (k : nat -> bool) : forall (fs : list M) off i,
    In i (map fst (pick k off fs)) <-> (off <= i < off + length fs /\ k i = true).
  Proof.
    induction fs as [|f r IH]; intros off i; cbn [pick length].
    - cbn [map In]. split; [intros [] | intros [H _]; lia].
    - destruct (k off) eqn:E; cbn [map fst In]; rewrite IH; split.
      + intros [<-|[H1 H2]]; split; try lia; auto.
      + intros [H1 H2]. destruct (Nat.eq_dec off i); [now left | right; split; [lia | auto]].
      + intros [H1 H2]; split; [lia | auto].
      + intros [H1 H2]. destruct (Nat.eq_dec off i) as [->|]; [congruence | split; [lia | auto]].
  Qed.

  Lemma memb_picked (k : nat -> bool) (fs : list M) off i : off <= i < off + length fs ->
    memb i (map fst (pick k off fs)) = k i.
  Proof.
    intros Hi. destruct (k i) eqn:E.
    - apply memb_In. apply pick_fst_In. auto.
    - destruct (memb i (map fst (pick k off fs))) eqn:E'; [|reflexivity].
      apply memb_In in E'. apply pick_fst_In in E'. destruct E' as [_ E']. congruence.
  Qed.

  (* `i in modes_fixed` for `i in fixed_factors`, `i not in modes_fixed` for `i not in fixed_factors`, and the same through the list of the
     OTHER comprehension (`i not in modes` names the fixed positions, `i in modes` the free ones) *)
  Lemma pick_in_picked (k : nat -> bool) (fs : list M) :
    pick (fun i => memb i (map fst (pick k 0 fs))) 0 fs = pick k 0 fs.
  Proof. apply pick_ext. intros i Hi. now apply memb_picked. Qed.
  Lemma pick_not_in_picked (k : nat -> bool) (fs : list M) :
    pick (fun i => negb (memb i (map fst (pick k 0 fs)))) 0 fs = pick (fun i => negb (k i)) 0 fs.
  Proof. apply pick_ext. intros i Hi. now rewrite memb_picked. Qed.
  Lemma pick_not_in_unpicked (k : nat -> bool) (fs : list M) :
    pick (fun i => negb (memb i (map fst (pick (fun j => negb (k j)) 0 fs)))) 0 fs = pick k 0 fs.
  Proof. rewrite pick_not_in_picked. apply pick_ext. intros i _. apply negb_involutive. Qed.
  Lemma pick_not_not (k : nat -> bool) (fs : list M) off : pick (fun i => negb (negb (k i))) off fs = pick k off fs.
  Proof. apply pick_ext. intros i _. apply negb_involutive. Qed.
End PickExt.

(* the semantic tie: expose the straight-line code, normalise the conditions of the comprehensions, then compare as tk_tie does *)
Ltac tk_tie2 :=
  let Hne := fresh "Hne" in
  intros ? ? ? ? ? ? ? ? Hne; unfold tucker_fixed, unzip_star; cbv beta zeta;
  rewrite ?pick_not_in_unpicked, ?pick_in_picked, ?pick_not_in_picked, ?pick_not_not;
  repeat match goal with
         | |- context [if ?c then _ else _] => destruct c eqn:?
         end; try reflexivity;
  repeat match goal with
         | |- context [match pick ?k ?o ?l with _ => _ end] => destruct (pick k o l) eqn:?
         end; try reflexivity;
  try (destruct (py_sorted _) eqn:?Es; [exfalso; eapply py_sorted_nonempty; eassumption | reflexivity]);
  repeat match goal with
         | |- context [match reinsert ?a ?b ?c with _ => _ end] => destruct (reinsert a b c) eqn:?
         end; try reflexivity; try congruence.

(* self-tests: today's shape and the re-ordered one still pass ... *)
Lemma tucker_expect_ok2 : forall (F : Type) (zero : F) (add mul : F -> F -> F), tucker_agrees zero add mul (tucker_expect zero add mul).
Proof. unfold tucker_agrees, tucker_expect. tk_tie2. Qed.
Lemma tucker_expect_reordered_ok2 : forall (F : Type) (zero : F) (add mul : F -> F -> F), tucker_agrees zero add mul (tucker_expect_reordered zero add mul).
Proof. unfold tucker_agrees, tucker_expect_reordered. tk_tie2. Qed.

(* ... and so does the equivalent reformulation the syntactic tie rejected: the free modes selected by `i not in modes_fixed` *)
Definition tucker_expect_by_modes {F : Type} (zero : F) (add mul : F -> F -> F) (core : tensor F) (factors : list (@matrix F)) (fixed_factors : list nat)
    (pt : tensor F -> list nat -> list (@matrix F) -> tensor F * list (@matrix F)) : res (tensor F * list (@matrix F)) :=
  let fixed_factors1 := py_sorted fixed_factors in
  if forallb (fun i => memb i fixed_factors1) (seq 0 (length factors)) then Ok (core, factors) else
  unzip_star (pick (fun i => memb i fixed_factors1) 0 factors) (fun modes_fixed factors_fixed =>
  let core1 := multi_mode_dot zero add mul core factors_fixed modes_fixed in
  unzip_star (pick (fun i => negb (memb i modes_fixed)) 0 factors) (fun modes factors1 =>
  let r := pt core1 modes factors1 in
  match reinsert fixed_factors1 factors_fixed (snd r) with Err => Err | Ok factors2 =>
  let core2 := multi_mode_dot_T zero add mul (fst r) factors_fixed modes_fixed in
  Ok (core2, factors2) end)).
Lemma tucker_expect_by_modes_ok : forall (F : Type) (zero : F) (add mul : F -> F -> F), tucker_agrees zero add mul (tucker_expect_by_modes zero add mul).
Proof. unfold tucker_agrees, tucker_expect_by_modes. tk_tie2. Qed.

(* free modes first, fixed ones as `i not in modes` *)
Definition tucker_expect_by_free {F : Type} (zero : F) (add mul : F -> F -> F) (core : tensor F) (factors : list (@matrix F)) (fixed_factors : list nat)
    (pt : tensor F -> list nat -> list (@matrix F) -> tensor F * list (@matrix F)) : res (tensor F * list (@matrix F)) :=
  let fixed_factors1 := py_sorted fixed_factors in
  if forallb (fun i => memb i fixed_factors1) (seq 0 (length factors)) then Ok (core, factors) else
  unzip_star (pick (fun i => negb (memb i fixed_factors1)) 0 factors) (fun modes factors1 =>
  unzip_star (pick (fun i => negb (memb i modes)) 0 factors) (fun modes_fixed factors_fixed =>
  let core1 := multi_mode_dot zero add mul core factors_fixed modes_fixed in
  let r := pt core1 modes factors1 in
  match reinsert fixed_factors1 factors_fixed (snd r) with Err => Err | Ok factors2 =>
  let core2 := multi_mode_dot_T zero add mul (fst r) factors_fixed modes_fixed in
  Ok (core2, factors2) end)).
Lemma tucker_expect_by_free_ok : forall (F : Type) (zero : F) (add mul : F -> F -> F), tucker_agrees zero add mul (tucker_expect_by_free zero add mul).
Proof. unfold tucker_agrees, tucker_expect_by_free. tk_tie2. Qed.

(* the semantic tie still rejects what is not the model: the unsorted branch (tucker_unsorted_differs) cannot be closed by it *)
Lemma tk_tie2_rejects_unsorted : forall (F : Type) (zero : F) (add mul : F -> F -> F), True.
Proof.
  intros F zero add mul.
  assert_fails (assert (tucker_agrees zero add mul (tucker_unsorted zero add mul)) by (unfold tucker_agrees, tucker_unsorted; tk_tie2)).
  exact I.
Qed.

(* ------------------------------------------------------------------ partial_tucker's main loop (Model/WarmStart.v, Section PartialTucker):
   where the loop writes -- position index = 0, 1, .. of the list it was handed, once per entry of `modes`, never its length *)
Section PartialTucker.
  Context {F X : Type}.
  Notation mat := (@matrix F).
  Notation pts := (pts F X).
  Variable pre : nat -> pts -> X.
  Variable upd : nat -> nat -> nat -> pts -> mat.
  Variable corefn : nat -> list nat -> pts -> tensor F.
  Variable post : nat -> pts -> X.
  Variable stop : nat -> pts -> bool.
  Notation pt_write := (pt_write upd).
  Notation pt_sweep := (pt_sweep upd).
  Notation pt_iterate := (pt_iterate pre upd corefn post stop).
  Notation partial_tucker_model := (partial_tucker_model pre upd corefn post stop).

  (* `for index, mode in enumerate(modes)` as a fold over the enumerated list (the form the translator produces) *)
  Lemma pt_sweep_as_fold it : forall modes index s,
    pt_sweep it index modes s = fold_left (pt_write it) (enumerate_from index modes) s.
  Proof. induction modes as [|m r IH]; intros index s; [reflexivity|]. cbn [WarmStart.pt_sweep]. rewrite IH. reflexivity. Qed.

  Lemma pt_sweep_length it : forall modes index s, length (ptf (pt_sweep it index modes s)) = length (ptf s).
  Proof.
    induction modes as [|m r IH]; intros index s; [reflexivity|]. cbn [WarmStart.pt_sweep]. rewrite IH.
    unfold WarmStart.pt_write; cbn [ptf fst]. apply set_nth_length.
  Qed.
  (* a sweep writes positions index .. index + len(modes) - 1 only *)
  Lemma pt_sweep_other it d : forall modes index s j, (j < index \/ index + length modes <= j) ->
    nth j (ptf (pt_sweep it index modes s)) d = nth j (ptf s) d.
  Proof.
    induction modes as [|m r IH]; intros index s j Hj; [reflexivity|]. cbn [WarmStart.pt_sweep].
    rewrite IH by (cbn [length] in Hj; lia). unfold WarmStart.pt_write; cbn [ptf fst].
    apply nth_set_nth_other. cbn [length] in Hj. lia.
  Qed.
  Lemma pt_iterate_length modes : forall budget it s, length (ptf (pt_iterate budget it modes s)) = length (ptf s).
  Proof.
    induction budget as [|b IH]; intros it s; [reflexivity|]. cbn [WarmStart.pt_iterate].
    match goal with |- context [if ?c then _ else _] => destruct c end; [|rewrite IH]; cbn [ptf]; now rewrite pt_sweep_length.
  Qed.
  (* entries of the handed-in list beyond the listed modes are never written, whatever the budget *)
  Lemma pt_iterate_other modes d j : length modes <= j -> forall budget it s,
    nth j (ptf (pt_iterate budget it modes s)) d = nth j (ptf s) d.
  Proof.
    intros Hj. induction budget as [|b IH]; intros it s; [reflexivity|]. cbn [WarmStart.pt_iterate].
    match goal with |- context [if ?c then _ else _] => destruct c end; [|rewrite IH]; cbn [ptf];
      (rewrite pt_sweep_other by (right; cbn; lia)); reflexivity.
  Qed.

  Theorem partial_tucker_model_length x0 budget c modes free : length (snd (partial_tucker_model x0 budget c modes free)) = length free.
  Proof. unfold WarmStart.partial_tucker_model; cbn [snd]. now rewrite pt_iterate_length. Qed.
  Theorem partial_tucker_model_zero_budget x0 c modes free : partial_tucker_model x0 0 c modes free = pt_zero c modes free.
  Proof. reflexivity. Qed.
End PartialTucker.

(* tucker(fixed_factors=...) with partial_tucker's loop modelled: NO hypothesis on the inner routine any more.  For every update rule of the
   HOI sweep (any svd), any mask imputation, stopping rule and budget, the factors of the fixed modes are the supplied ones -- for the
   model's branch and for any branch function that agrees with it (the one regenerated from the source on every run). *)
Section TuckerWithPartialTucker.
  Context {F X : Type} (zero : F) (add mul : F -> F -> F).
  Notation mat := (@matrix F).
  Variable pre : nat -> pts F X -> X.
  Variable upd : nat -> nat -> nat -> pts F X -> mat.
  Variable corefn : nat -> list nat -> pts F X -> tensor F.
  Variable post : nat -> pts F X -> X.
  Variable stop : nat -> pts F X -> bool.
  Variable x0 : tensor F -> list nat -> list mat -> X.

  Theorem tucker_hoi_keeps_fixed (tk : @tucker_ty F) budget core (fs : list mat) fixed : tucker_agrees zero add mul tk -> fixed <> [] ->
    NoDup fixed -> (forall e, In e fixed -> e < length fs) ->
    exists c out, tk core fs fixed (partial_tucker_model pre upd corefn post stop x0 budget) = Ok (c, out) /\ length out = length fs /\
      forall e d, In e fixed -> nth e out d = nth e fs d.
  Proof.
    intros Htk Hne Hnd Hb. apply (src_tucker_keeps_factors zero add mul tk Htk); auto.
    intros c modes free. apply partial_tucker_model_length.
  Qed.
End TuckerWithPartialTucker.

(* non-vacuity: an HOI whose update overwrites the free factor with [[9]] and whose core update doubles the core; mode 0 fixed of two *)
Example tucker_hoi_example :
  tucker_fixed 0%Z Z.add Z.mul (mk [1; 1] [1%Z]) [[[1%Z]]; [[5%Z]]] [0]
    (partial_tucker_model (X := unit) (fun _ _ => tt) (fun _ _ _ _ => [[9%Z]]) (fun _ _ s => mk [1; 1] (map (Z.mul 2) (data (ptc s))))
       (fun _ _ => tt) (fun _ _ => false) (fun _ _ _ => tt) 2)
  = Ok (mk [1; 1] [4%Z], [[[1%Z]]; [[9%Z]]]).
Proof. vm_compute. reflexivity. Qed.

(* the shape the translator produces from `for index, mode in enumerate(modes): ... factors[index] = <expr>` and the tactic of the tie *)
Definition pt_sweep_expect {F X : Type} (upd : nat -> nat -> nat -> pts F X -> @matrix F) (it : nat) (modes : list nat) (s : pts F X) : pts F X :=
  fold_left (fun s p => let index := fst p in let mode := snd p in mkpts (ptc s) (set_nth index (upd it index mode s) (ptf s)) (ptx s))
            (enumerate_from 0 modes) s.
Ltac pt_sweep_tie := intros; rewrite pt_sweep_as_fold; reflexivity.
Lemma pt_sweep_expect_ok : forall (F X : Type) upd it modes (s : pts F X), pt_sweep_expect upd it modes s = pt_sweep upd it 0 modes s.
Proof. unfold pt_sweep_expect. pt_sweep_tie. Qed.
(* a sweep that writes at `mode` instead of `index` is not the model: on modes = [1] it writes (or misses) position 1 instead of 0 *)
Definition pt_sweep_at_mode {F X : Type} (upd : nat -> nat -> nat -> pts F X -> @matrix F) (it : nat) (modes : list nat) (s : pts F X) : pts F X :=
  fold_left (fun s p => mkpts (ptc s) (set_nth (snd p) (upd it (fst p) (snd p) s) (ptf s)) (ptx s)) (enumerate_from 0 modes) s.
Lemma pt_sweep_at_mode_differs :
  ~ (forall upd it modes (s : pts Z unit), pt_sweep_at_mode upd it modes s = pt_sweep upd it 0 modes s).
Proof.
  intros H. specialize (H (fun _ _ _ _ => [[9%Z]]) 0 [1] (mkpts (mk [1] [1%Z]) [[[1%Z]]; [[2%Z]]] tt)). vm_compute in H. discriminate.
Qed.

(* ------------------------------------------------------------------ interrupted runs: the state INSIDE a sweep.
   A run that is aborted in mid-sweep (an exception out of a backend call, KeyboardInterrupt) leaves the driver in the state reached after some
   number of complete iterations, the orthogonalise hook of the current iteration (if on) and the updates of a PREFIX of the mode list.  In every
   such state the factor of a fixed mode is the initial one: the statement of C14_fixed_modes holds at every moment of the run, not only at
   its end.  (Default normalisation, as in C14_fixed_modes; `it` is the number of the interrupted iteration, any number.) *)
Section Interrupted.
  Context {M W X : Type}.
  Variable upd : nat -> nat -> st M W X -> M * X.
  Variable stop : nat -> st M W X -> bool.
  Variable normf : st M W X -> st M W X.
  Variable pre : nat -> nat -> st M W X -> M.
  Variable pre_on : nat -> bool.
  Variable post : nat -> st M W X -> X.
  Variable ls_on : nat -> bool.
  Variable ls_accept : nat -> st M W X -> st M W X -> bool.
  Variable lsf : nat -> st M W X -> M -> M -> M.
  Variable lsw : nat -> st M W X -> W -> W -> W.
  Variable lsx : nat -> st M W X -> st M W X -> X.

  Notation interrupted_state := (interrupted_state upd stop normf pre pre_on post ls_on ls_accept lsf lsw lsx).

  Theorem interrupted_fixed a free ml d m : ~ In m ml -> free m = false ->
    (has_hooks a = true -> forall it s x, lsf it s x x = x) ->
    forall done_ it l s, (forall x, In x l -> In x ml) ->
    nth m (facs (interrupted_state a free ml done_ it l s)) d = nth m (facs s) d.
  Proof.
    intros Hn Hfree Hls done_ it l s Hl. unfold WarmStart.interrupted_state.
    rewrite (fold_step_other upd normf a it ml d m) by (intros H; apply Hn, Hl, H).
    assert (Hit : forall b i0 s1, nth m (facs (iterate upd stop normf false pre pre_on post ls_on ls_accept lsf lsw lsx a free b i0 ml s1)) d = nth m (facs s1) d).
    { intros b i0 s1. apply (iterate_other upd stop normf pre pre_on post ls_on ls_accept lsf lsw lsx a free ml d m Hn Hfree Hls). }
    destruct (has_hooks a && pre_on it).
    - unfold pre_state; cbn [facs]. rewrite (pre_apply_other _ free d _ 0 m) by exact Hfree. apply Hit.
    - apply Hit.
  Qed.

  (* in the terms of a call: modes_list / eff_fixed of the request *)
  Theorem run_interrupted_fixed a n fixed d m : (has_hooks a = true -> forall it s x, lsf it s x x = x) ->
    In m (eff_fixed a n fixed) ->
    forall done_ it l s, (forall x, In x l -> In x (modes_list a n fixed)) ->
    nth m (facs (interrupted_state a (fun i => negb (memb i (eff_fixed a n fixed))) (modes_list a n fixed) done_ it l s)) d = nth m (facs s) d.
  Proof.
    intros Hls Hin done_ it l s Hl. apply interrupted_fixed; auto.
    - intros H. apply modes_list_In in H. tauto.
    - apply negb_false_iff. now apply memb_In.
  Qed.
End Interrupted.

(* non-vacuity: parafac on three modes, mode 0 fixed, interrupted in iteration 1 after one complete iteration and after the update of mode 1 only:
   mode 0 untouched, mode 1 written twice, mode 2 once *)
Example interrupted_example :
  facs (interrupted_state (fun it m (s : st (list nat) unit unit) => (nth m (facs s) [] ++ [it], tt)) (fun _ _ => false) (fun s => s)
          (fun _ _ _ => []) (fun _ => false) (fun _ _ => tt) (fun _ => false) (fun _ _ _ => false) (fun _ _ l c => c) (fun _ _ l c => c) (fun _ _ _ => tt)
          Parafac (fun i => negb (memb i [0])) (modes_list Parafac 3 [0]) 1 1 [1] (mkst tt [[]; []; []] tt))
  = [[]; [0; 1]; [0]].
Proof. vm_compute. reflexivity. Qed.
