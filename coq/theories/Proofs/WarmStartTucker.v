(* C14 -- lemmas, part 3: tucker(fixed_factors): absorbing fixed factors with orthonormal columns into the core and
   re-extracting them is the identity (abstract commutative ring, any order, any number of fixed factors);
   the zero-budget call returns the initialisation; initialize_tucker's absolute values. *)
From Coq Require Import List Arith Lia Bool Ring ZArith.
From TLV Require Import Base.Shape Base.PyList Base.Tensor Base.BigSum Model.WarmStart Proofs.WarmStartProofs Proofs.WarmStartProofs2.
Import ListNotations.

(* ---- list / index helpers *)
Lemma set_nth_set_nth {A} (a b : A) : forall m l, set_nth m a (set_nth m b l) = set_nth m a l.
Proof. induction m as [|m IH]; intros [|x l]; simpl; auto. now rewrite IH. Qed.
Lemma set_nth_nth_id {A} (d : A) : forall m l, set_nth m (nth m l d) l = l.
Proof. induction m as [|m IH]; intros [|x l]; simpl; auto. now rewrite IH. Qed.
Lemma set_nth_comm {A} (a b : A) : forall m m' l, m <> m' -> set_nth m a (set_nth m' b l) = set_nth m' b (set_nth m a l).
Proof.
  induction m as [|m IH]; intros [|m'] [|x l] H; simpl; auto; try lia. rewrite IH by lia. reflexivity.
Qed.
Lemma nth_set_nth_eq {A} (v d : A) : forall m l, m < length l -> nth m (set_nth m v l) d = v.
Proof. intros. now apply nth_set_nth_same. Qed.

Lemma inb_set_nth : forall s idx m v k, inb s idx -> k < v -> inb (set_nth m v s) (set_nth m k idx).
Proof.
  induction s as [|d s IH]; intros [|i idx] m v k H Hk; simpl in H; try tauto.
  - destruct m; simpl; auto.
  - destruct H as [H1 H2]. destruct m as [|m]; simpl; [tauto|]. split; [assumption|]. apply IH; auto.
Qed.
Lemma inb_nth : forall s idx m, inb s idx -> m < length s -> nth m idx 0 < nth m s 0.
Proof.
  induction s as [|d s IH]; intros [|i idx] m H Hm; simpl in *; try tauto; try lia.
  destruct H as [H1 H2]. destruct m as [|m]; [assumption|]. apply IH; auto. lia.
Qed.
(* an index of the tensor whose mode-m extent was replaced, moved back to position j of the original extent *)
Lemma inb_back s idx m v j : inb (set_nth m v s) idx -> j < nth m s 0 -> inb s (set_nth m j idx).
Proof.
  intros H Hj. pose proof (inb_set_nth _ _ m (nth m s 0) j H Hj) as H'.
  now rewrite set_nth_set_nth, set_nth_nth_id in H'.
Qed.

Section TuckerRing.
  Variable F : Type.
  Variables (rO rI : F) (radd rmul rsub : F -> F -> F) (ropp : F -> F).
  Hypothesis Rth : ring_theory rO rI radd rmul rsub ropp (@eq F).
  Add Ring Frt : Rth.
  Notation md := (mode_dot rO radd rmul).
  Notation bs := (bigsum F rO radd).
  Notation mg := (mget rO).
  Notation tget := (get rO).
  Notation mat := (@matrix F).

  Lemma wf_md t M m : wf (md t M m).
  Proof. apply wf_tabulate. Qed.
  Lemma shape_md t M m : shape (md t M m) = set_nth m (length M) (shape t).
  Proof. reflexivity. Qed.

  Lemma get_md t M m idx : inb (set_nth m (length M) (shape t)) idx ->
    tget (md t M m) idx = bs (nth m (shape t) 0) (fun j => rmul (mg M (nth m idx 0) j) (tget t (set_nth m j idx))).
  Proof. intros H. unfold mode_dot. now rewrite get_tabulate. Qed.

  (* products along different modes commute *)
  Lemma md_comm t M N m m' : m <> m' -> md (md t M m) N m' = md (md t N m') M m.
  Proof.
    intros Hne. apply (tensor_ext rO); try apply wf_md.
    - rewrite !shape_md. apply set_nth_comm. auto.
    - intros idx Hin. rewrite !shape_md in Hin.
      rewrite get_md by (rewrite shape_md; exact Hin).
      assert (Hin' : inb (set_nth m (length M) (set_nth m' (length N) (shape t))) idx)
        by (rewrite set_nth_comm by auto; exact Hin).
      rewrite (get_md (md t N m') M m) by (rewrite shape_md; exact Hin').
      rewrite !shape_md. rewrite !nth_set_nth_other by auto.
      transitivity (bs (nth m' (shape t) 0) (fun j' => bs (nth m (shape t) 0) (fun j =>
                     rmul (mg N (nth m' idx 0) j') (rmul (mg M (nth m idx 0) j) (tget t (set_nth m j (set_nth m' j' idx))))))).
      { apply bigsum_ext; intros j' Hj'. rewrite (bigsum_scale_l F rO rI radd rmul rsub ropp Rth). f_equal.
        rewrite get_md.
        - rewrite nth_set_nth_other by auto. reflexivity.
        - eapply inb_back with (v := length N). 2: rewrite nth_set_nth_other by auto; exact Hj'. exact Hin. }
      rewrite (bigsum_exchange F rO rI radd rmul rsub ropp Rth).
      apply bigsum_ext; intros j Hj.
      rewrite get_md.
      + rewrite nth_set_nth_other by auto. rewrite <- (bigsum_scale_l F rO rI radd rmul rsub ropp Rth).
        apply bigsum_ext; intros j' Hj'. rewrite (set_nth_comm j j' m m') by auto.
        generalize (tget t (set_nth m' j' (set_nth m j idx))) (mg N (nth m' idx 0) j') (mg M (nth m idx 0) j). intros; ring.
      + eapply inb_back with (v := length M). 2: rewrite nth_set_nth_other by auto; exact Hj. exact Hin'.
  Qed.

  (* ---- the transposed factor *)
  Lemma length_transpose_m r c (A : mat) : length (transpose_m rO r c A) = c.
  Proof. unfold transpose_m. now rewrite map_length, seq_length. Qed.
  Lemma mget_transpose_m r c (A : mat) j i : j < c -> i < r -> mg (transpose_m rO r c A) j i = mg A i j.
  Proof.
    intros Hj Hi. unfold transpose_m, mget at 1.
    rewrite nth_map' with (d := 0) by (now rewrite seq_length). rewrite seq_nth by exact Hj.
    rewrite nth_map' with (d := 0) by (now rewrite seq_length). now rewrite seq_nth by exact Hi.
  Qed.

  Notation orthonormal_cols := (WarmStart.orthonormal_cols rO rI radd rmul).

  (* (t x_m A) x_m A^T = t  when A^T A = I *)
  Lemma md_mdT_cancel t (A : mat) m : wf t -> m < length (shape t) ->
    orthonormal_cols (nth m (shape t) 0) A ->
    md (md t A m) (transpose_m rO (length A) (nth m (shape t) 0) A) m = t.
  Proof.
    intros Hwf Hm Hort. set (c := nth m (shape t) 0) in *.
    apply (tensor_ext rO); [apply wf_md | exact Hwf | |].
    - rewrite !shape_md, length_transpose_m, set_nth_set_nth. apply set_nth_nth_id.
    - intros idx Hin. rewrite !shape_md, length_transpose_m, set_nth_set_nth in Hin. fold c in Hin.
      unfold c in Hin. rewrite set_nth_nth_id in Hin.
      pose proof (inb_length _ _ Hin) as Hlen.
      pose proof (inb_nth _ _ m Hin Hm) as Hi. fold c in Hi.
      rewrite get_md.
      2:{ rewrite shape_md, length_transpose_m, set_nth_set_nth. fold c. unfold c. now rewrite set_nth_nth_id. }
      rewrite shape_md, nth_set_nth_eq by exact Hm.
      transitivity (bs (length A) (fun k => bs c (fun j =>
                      rmul (rmul (mg A k (nth m idx 0)) (mg A k j)) (tget t (set_nth m j idx))))).
      { apply bigsum_ext; intros k Hk. rewrite mget_transpose_m by assumption.
        rewrite get_md by (apply inb_set_nth; assumption).
        rewrite nth_set_nth_eq by lia. fold c.
        rewrite <- (bigsum_scale_l F rO rI radd rmul rsub ropp Rth).
        apply bigsum_ext; intros j Hj. rewrite set_nth_set_nth.
        generalize (tget t (set_nth m j idx)) (mg A k (nth m idx 0)) (mg A k j). intros; ring. }
      rewrite (bigsum_exchange F rO rI radd rmul rsub ropp Rth).
      transitivity (bs c (fun j => rmul (if Nat.eqb (nth m idx 0) j then rI else rO) (tget t (set_nth m j idx)))).
      { apply bigsum_ext; intros j Hj. rewrite (bigsum_scale_r F rO rI radd rmul rsub ropp Rth).
        now rewrite Hort by assumption. }
      rewrite (bigsum_single F rO rI radd rmul rsub ropp Rth c (nth m idx 0)).
      + rewrite Nat.eqb_refl, (set_nth_nth_id 0). generalize (tget t idx). intros; ring.
      + exact Hi.
      + intros j Hj Hne. destruct (Nat.eqb_spec (nth m idx 0) j); [congruence|].
        generalize (tget t (set_nth m j idx)). intros; ring.
  Qed.

  (* ---- lists of (factor, mode) products *)
  Definition mdstep (g : mat * nat -> mat) (acc : tensor F) (p : mat * nat) : tensor F := md acc (g p) (snd p).

  Lemma md_fold_comm g N m : forall ps t, ~ In m (map snd ps) ->
    md (fold_left (mdstep g) ps t) N m = fold_left (mdstep g) ps (md t N m).
  Proof.
    induction ps as [|p ps IH]; intros t Hn; cbn [fold_left map] in *; [reflexivity|].
    rewrite IH by (intros H; apply Hn; now right). f_equal. unfold mdstep.
    apply md_comm. intros E. apply Hn. left. now rewrite E.
  Qed.
  Lemma shape_fold_other g m : forall ps t, ~ In m (map snd ps) ->
    nth m (shape (fold_left (mdstep g) ps t)) 0 = nth m (shape t) 0.
  Proof.
    induction ps as [|p ps IH]; intros t Hn; cbn [fold_left map] in *; [reflexivity|].
    rewrite IH by (intros H; apply Hn; now right). unfold mdstep. rewrite shape_md.
    apply nth_set_nth_other. intros E. apply Hn. left. now rewrite E.
  Qed.

  Definition gT (p : mat * nat) : mat := transpose_m rO (length (fst p)) (ncols (fst p)) (fst p).

  Lemma mmd_fold t Ms modes : multi_mode_dot rO radd rmul t Ms modes = fold_left (mdstep fst) (combine Ms modes) t.
  Proof. reflexivity. Qed.
  Lemma mmdT_fold t Ms modes : multi_mode_dot_T rO radd rmul t Ms modes = fold_left (mdstep gT) (combine Ms modes) t.
  Proof. reflexivity. Qed.

  (* absorbing orthonormal factors into the core and re-extracting them is the identity, any order, any number of factors *)
  Theorem absorb_extract_id : forall ps t, wf t -> NoDup (map snd ps) ->
    (forall A m, In (A, m) ps -> m < length (shape t) /\ ncols A = nth m (shape t) 0 /\ orthonormal_cols (ncols A) A) ->
    fold_left (mdstep gT) ps (fold_left (mdstep fst) ps t) = t.
  Proof.
    induction ps as [|[A m] ps IH]; intros t Hwf Hnd H; [reflexivity|].
    simpl in Hnd. apply NoDup_cons_iff in Hnd. destruct Hnd as [Hm Hnd].
    destruct (H A m (or_introl eq_refl)) as [Hlt [Hc Ho]].
    cbn [fold_left]. unfold mdstep at 2 4. cbn [fst snd]. unfold gT at 2. cbn [fst].
    rewrite md_fold_comm by exact Hm.
    rewrite Hc. rewrite md_mdT_cancel; [| exact Hwf | exact Hlt | now rewrite <- Hc].
    apply IH; [exact Hwf | exact Hnd |]. intros A' m' Hin. apply H. now right.
  Qed.

  Lemma map_snd_combine {A B} : forall (l : list A) (l' : list B), length l = length l' -> map snd (combine l l') = l'.
  Proof. induction l as [|a l IH]; intros [|b l'] H; simpl in *; try lia; auto. f_equal. apply IH. lia. Qed.

  (* the same on the model's multi_mode_dot / multi_mode_dot(transpose=True) *)
  Theorem mmd_absorb_extract (Ms : list mat) (modes : list nat) t : wf t -> NoDup modes -> length Ms = length modes ->
    (forall A m, In (A, m) (combine Ms modes) ->
       m < length (shape t) /\ ncols A = nth m (shape t) 0 /\ orthonormal_cols (ncols A) A) ->
    multi_mode_dot_T rO radd rmul (multi_mode_dot rO radd rmul t Ms modes) Ms modes = t.
  Proof.
    intros Hwf Hnd Hl H. rewrite mmd_fold, mmdT_fold. apply absorb_extract_id; auto.
    now rewrite map_snd_combine.
  Qed.
End TuckerRing.

Section PickFacts.
  Context {M : Type}.
  Lemma pick_In (keep : nat -> bool) (d : M) : forall fs off i f, In (i, f) (pick keep off fs) ->
    keep i = true /\ off <= i < off + length fs /\ nth (i - off) fs d = f.
  Proof.
    induction fs as [|g fs IH]; intros off i f H; cbn [pick] in H; [destruct H|].
    destruct (keep off) eqn:K.
    - destruct H as [H|H].
      + injection H as <- <-. rewrite Nat.sub_diag. simpl. repeat split; auto; lia.
      + apply IH in H. destruct H as [H1 [H2 H3]]. repeat split; auto; simpl; try lia.
        replace (i - off) with (S (i - S off)) by lia. exact H3.
    - apply IH in H. destruct H as [H1 [H2 H3]]. repeat split; auto; simpl; try lia.
      replace (i - off) with (S (i - S off)) by lia. exact H3.
  Qed.
  Lemma pick_fst_lb (keep : nat -> bool) : forall (fs : list M) off i, In i (map fst (pick keep off fs)) -> off <= i.
  Proof.
    induction fs as [|g fs IH]; intros off i H; cbn [pick] in H; [destruct H|].
    destruct (keep off); [destruct H as [H|H]; [simpl in H; lia|]|]; apply IH in H; lia.
  Qed.
  Lemma pick_fst_NoDup (keep : nat -> bool) : forall (fs : list M) off, NoDup (map fst (pick keep off fs)).
  Proof.
    induction fs as [|g fs IH]; intros off; cbn [pick]; [constructor|].
    destruct (keep off); [|apply IH]. cbn [map fst]. constructor; [|apply IH].
    intros H. apply pick_fst_lb in H. lia.
  Qed.
  Lemma combine_swap {A B} (l : list (A * B)) : combine (map snd l) (map fst l) = map (fun p => (snd p, fst p)) l.
  Proof. induction l as [|[a b] l IH]; simpl; [reflexivity|]. now rewrite IH. Qed.

  (* re-inserting the fixed entries among the untouched free entries rebuilds the list *)
  Lemma reinsert_pick_id (fixed : list nat) (fs : list M) : NoDup fixed -> (forall e, In e fixed -> e < length fs) ->
    let fx := py_sorted fixed in
    reinsert fx (map snd (pick (fun i => memb i fx) 0 fs)) (map snd (pick (fun i => negb (memb i fx)) 0 fs)) = Ok fs.
  Proof.
    intros Hnd Hb fx. set (keep := fun i => memb i fx). set (keep' := fun i => negb (memb i fx)).
    assert (Hkk : forall i, keep' i = negb (keep i)) by reflexivity.
    assert (Hs : ssorted fx) by (apply py_sorted_ssorted; exact Hnd).
    assert (Hbx : forall e, In e fx -> 0 <= e < 0 + length fs).
    { intros e He. apply (proj1 (In_py_sorted e fixed)) in He. specialize (Hb e He). lia. }
    assert (Hfix : length (pick keep 0 fs) = length fx).
    { rewrite pick_length. apply filter_memb_length; [apply ssorted_NoDup; exact Hs | exact Hbx]. }
    pose proof (pick_lengths_sum keep keep' Hkk fs 0) as Hsum.
    pose proof (reinsert_merge keep (length fs) 0 fx (map snd (pick keep 0 fs)) (map snd (pick keep' 0 fs)) Hs Hbx) as Hm.
    rewrite (map_ext (fun e => e - 0) (fun e => e)) in Hm by (intros; lia). rewrite map_id in Hm.
    rewrite Hm; [| rewrite map_length; exact Hfix | rewrite map_length; lia | intros; reflexivity].
    f_equal. apply (merge_pick_id keep keep' Hkk).
  Qed.
End PickFacts.

Section TuckerZero.
  Variable F : Type.
  Variables (rO rI : F) (radd rmul rsub : F -> F -> F) (ropp : F -> F).
  Hypothesis Rth : ring_theory rO rI radd rmul rsub ropp (@eq F).

  Theorem tucker_zero_budget_orthonormal (core : tensor F) (fs : list (@matrix F)) (fixed : list nat) :
    NoDup fixed -> (forall e, In e fixed -> e < length fs) ->
    wf core -> length (shape core) = length fs ->
    (forall e, In e fixed -> ncols (nth e fs []) = nth e (shape core) 0 /\
                             orthonormal_cols rO rI radd rmul (ncols (nth e fs [])) (nth e fs [])) ->
    tucker_fixed rO radd rmul core fs fixed (@pt_zero F) = Ok (core, fs).
  Proof.
    intros Hnd Hb Hwf Hlen Hort. unfold tucker_fixed.
    destruct (forallb (fun i => memb i (py_sorted fixed)) (seq 0 (length fs))) eqn:Eall; [reflexivity|].
    pose proof (not_all_fixed_lt fixed (length fs) Hnd Hb Eall) as Hlt.
    set (fx := py_sorted fixed). set (keep := fun i => memb i fx). set (keep' := fun i => negb (memb i fx)).
    assert (Hkk : forall i, keep' i = negb (keep i)) by reflexivity.
    assert (Hfix : length (pick keep 0 fs) = length fx).
    { rewrite pick_length. apply filter_memb_length.
      - apply ssorted_NoDup, py_sorted_ssorted, Hnd.
      - intros e He. apply (proj1 (In_py_sorted e fixed)) in He. specialize (Hb e He). lia. }
    pose proof (pick_lengths_sum keep keep' Hkk fs 0) as Hsum.
    assert (Hlx : length fx = length fixed) by apply py_sorted_length.
    destruct (pick keep' 0 fs) as [|p0 freep'] eqn:Efree; [simpl in Hsum; lia|]. rewrite <- Efree.
    unfold pt_zero. cbn [fst snd]. unfold keep, keep', fx. rewrite (reinsert_pick_id fixed fs Hnd Hb). f_equal. f_equal.
    rewrite mmd_fold, mmdT_fold. fold fx. fold keep.
    apply (absorb_extract_id F rO rI radd rmul rsub ropp Rth); [exact Hwf | |].
    - rewrite combine_swap, map_map. cbn [snd]. apply pick_fst_NoDup.
    - intros A m Hin. rewrite combine_swap in Hin. apply in_map_iff in Hin. destruct Hin as [[i f] [E Hin]].
      cbn [fst snd] in E. injection E as -> ->.
      apply (pick_In keep []) in Hin. destruct Hin as [Hk [Hr Hn]]. rewrite Nat.sub_0_r in Hn. subst A.
      unfold keep in Hk. apply memb_In in Hk. apply (proj1 (In_py_sorted m fixed)) in Hk.
      destruct (Hort m Hk) as [H1 H2]. split; [rewrite Hlen; auto | split; assumption].
  Qed.
End TuckerZero.

(* ---- the factor list of the whole function, for EVERY partial_tucker (every budget) *)
Section TuckerAnyBudget.
  Context {F : Type} (zero : F) (add mul : F -> F -> F).
  Notation mat := (@matrix F).
  Variable pt : tensor F -> list nat -> list mat -> tensor F * list mat.

  Lemma tucker_fixed_lists_of core (fs : list mat) fixed c out :
    tucker_fixed zero add mul core fs fixed pt = Ok (c, out) ->
    exists c1, tucker_fixed_lists fixed fs (fun modes free => snd (pt c1 modes free)) = Ok out.
  Proof.
    unfold tucker_fixed, tucker_fixed_lists.
    destruct (forallb (fun i => memb i (py_sorted fixed)) (seq 0 (length fs))); [intros [= _ ->]; now exists core|].
    destruct (pick (fun i => negb (memb i (py_sorted fixed))) 0 fs) as [|p0 fr] eqn:E; [discriminate|].
    set (c1 := multi_mode_dot zero add mul core _ _). intros H. exists c1.
    destruct (reinsert _ _ _) as [o|]; [|discriminate]. now injection H as _ ->.
  Qed.

  Theorem tucker_fixed_keeps_factors core (fs : list mat) fixed :
    NoDup fixed -> (forall e, In e fixed -> e < length fs) ->
    (forall c modes free, length (snd (pt c modes free)) = length free) ->
    exists c out, tucker_fixed zero add mul core fs fixed pt = Ok (c, out) /\ length out = length fs /\
      forall e d, In e fixed -> nth e out d = nth e fs d.
  Proof.
    intros Hnd Hb Hp.
    set (c1 := multi_mode_dot zero add mul core
                 (map snd (pick (fun i => memb i (py_sorted fixed)) 0 fs))
                 (map fst (pick (fun i => memb i (py_sorted fixed)) 0 fs))).
    destruct (tucker_reinsert_spec fixed fs (fun modes free => snd (pt c1 modes free)) Hnd Hb) as [out [H1 [H2 [H3 _]]]].
    { intros. apply Hp. }
    unfold tucker_fixed. unfold tucker_fixed_lists in H1. fold c1.
    destruct (forallb (fun i => memb i (py_sorted fixed)) (seq 0 (length fs))).
    { injection H1 as <-. eexists; eexists. split; [reflexivity|]. split; auto. }
    destruct (pick (fun i => negb (memb i (py_sorted fixed))) 0 fs) as [|p0 fr] eqn:E; [discriminate|].
    rewrite H1. eexists; eexists. split; [reflexivity|]. split; assumption.
  Qed.
End TuckerAnyBudget.

(* every factor fixed: the whole function returns the supplied Tucker tensor, whatever partial_tucker would do *)
Theorem tucker_fixed_all_returns {F : Type} (zero : F) (add mul : F -> F -> F) pt (core : tensor F) (fs : list (@matrix F)) fixed :
  (forall i, i < length fs -> In i fixed) -> tucker_fixed zero add mul core fs fixed pt = Ok (core, fs).
Proof. intros H. unfold tucker_fixed. now rewrite (proj2 (all_fixed_b_true fixed (length fs)) H). Qed.

(* ---- the refutation, on the whole-function model *)
Lemma tucker_fixed_zero_budget_counterexample : exists (core : tensor Z) (fs : list (list (list Z))) (fixed : list nat) c' fs',
  NoDup fixed /\ (forall e, In e fixed -> e < length fs) /\
  tucker_fixed 0%Z Z.add Z.mul core fs fixed (@pt_zero Z) = Ok (c', fs') /\
  tucker_entry_dense 0%Z Z.add Z.mul c' fs' <> tucker_entry_dense 0%Z Z.add Z.mul core fs.
Proof.
  exists (mk [1; 1] [1%Z]), [[[2%Z]]; [[1%Z]]], [0], (mk [1; 1] [4%Z]), [[[2%Z]]; [[1%Z]]].
  split; [repeat constructor; simpl; tauto|]. split; [intros e [<-|[]]; simpl; lia|].
  split; [vm_compute; reflexivity | vm_compute; discriminate].
Qed.

(* ---- initialize_tucker with non_negative=True takes absolute values of a user-supplied start *)
Section TuckerInit.
  Context {F : Type} (fabs : F -> F).
  Definition feasible_mat (A : @matrix F) : Prop := forall row, In row A -> forall x, In x row -> fabs x = x.

  Lemma map_id_in {A} (f : A -> A) (l : list A) : (forall x, In x l -> f x = x) -> map f l = l.
  Proof. intros H. rewrite <- (map_id l) at 2. now apply map_ext_in. Qed.

  Lemma abs_mat_feasible A : feasible_mat A -> abs_mat fabs A = A.
  Proof. intros H. unfold abs_mat. apply map_id_in. intros row Hr. apply map_id_in. exact (H row Hr). Qed.

  Theorem tucker_init_feasible core fs : (forall x, In x (data core) -> fabs x = x) ->
    (forall A, In A fs -> feasible_mat A) -> tucker_init true fabs core fs = (core, fs).
  Proof.
    intros Hc Hf. unfold tucker_init, abs_tensor. rewrite (map_id_in fabs (data core) Hc).
    rewrite (map_id_in (abs_mat fabs) fs) by (intros A HA; apply abs_mat_feasible, Hf, HA). now destruct core.
  Qed.
  Theorem tucker_init_plain core fs : tucker_init false fabs core fs = (core, fs).
  Proof. reflexivity. Qed.

  (* a fixed mode of non_negative_tucker_hals: returned factor = |supplied factor|, whatever happens in between *)
  Theorem ntd_fixed_factor {W X} upd stop normf pre pre_on post ls_on ls_accept lsf lsw lsx n fixed budget tol (w : W) (x : X)
      (fs : list (@matrix F)) s' m :
    run upd stop normf false pre pre_on post ls_on ls_accept lsf lsw lsx NTDHals n fixed budget tol (mkst w (map (abs_mat fabs) fs) x) = Ok s' ->
    In m fixed -> m <> n - 1 -> nth m (facs s') [] = abs_mat fabs (nth m fs []).
  Proof.
    intros Hrun Hin Hne.
    rewrite (run_fixed_user upd stop normf pre pre_on post ls_on ls_accept lsf lsw lsx NTDHals n fixed budget tol
               (mkst w (map (abs_mat fabs) fs) x) s' [] m);
      [| intros H; discriminate | exact Hrun | exact Hin | intros _; exact Hne].
    cbn [facs]. change (@nil (list F)) with (abs_mat fabs []) at 1. apply map_nth.
  Qed.
End TuckerInit.

Lemma tucker_init_abs_counterexample : exists (core : tensor Z) (fs : list (list (list Z))),
  tucker_init true Z.abs core fs <> (core, fs).
Proof. exists (mk [1] [1%Z]), [[[(-1)%Z]]]. vm_compute. discriminate. Qed.
