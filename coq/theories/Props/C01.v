(* C01 -- property theorems only. Statements are about the model of tensorly/base.py
   (Model/Base.v), for every element type A, every shape with non-empty index space,
   every mode. *)
From Coq Require Import List Arith Permutation.
From TLV Require Import Base.Shape Base.PyList Base.Tensor Model.Base Proofs.BaseProofs.
Import ListNotations.

Theorem C01_fold_unfold : forall (A : Type) (d : A) (t : tensor A) (m : nat),
  wf t -> m < ndim t -> 0 < prod (shape t) ->
  rbind (unfold d t m) (fun u => fold d u m (shape t)) = Ok t.
Proof. exact @fold_unfold. Qed.
Print Assumptions C01_fold_unfold.

Theorem C01_unfold_layout : forall (A : Type) (d : A) (t : tensor A) (m : nat) (u : tensor A) (idx : list nat),
  wf t -> m < ndim t -> 0 < prod (shape t) -> unfold d t m = Ok u -> inb (shape t) idx ->
  shape u = [nth m (shape t) 0; prod (remove_nth m (shape t))] /\
  get d u [nth m idx 0; ravel (remove_nth m (shape t)) (remove_nth m idx)] = get d t idx.
Proof. exact @unfold_layout. Qed.
Print Assumptions C01_unfold_layout.

Theorem C01_unfold_Permutation : forall (A : Type) (d : A) (t : tensor A) (m : nat) (u : tensor A),
  wf t -> m < ndim t -> 0 < prod (shape t) -> unfold d t m = Ok u -> Permutation (data u) (data t).
Proof. exact @unfold_Permutation. Qed.
Print Assumptions C01_unfold_Permutation.

Theorem C01_moveaxis_roundtrip : forall (A : Type) (d : A) (t : tensor A) (a b : nat),
  wf t -> a < ndim t -> b < ndim t -> moveaxis d (moveaxis d t a b) b a = t.
Proof. exact @moveaxis_roundtrip. Qed.
Print Assumptions C01_moveaxis_roundtrip.

Theorem C01_vec_roundtrip : forall (A : Type) (t : tensor A),
  wf t -> rbind (tensor_to_vec t) (fun v => vec_to_tensor v (shape t)) = Ok t.
Proof. exact @vec_roundtrip. Qed.
Print Assumptions C01_vec_roundtrip.

Theorem C01_vec_layout : forall (A : Type) (d : A) (t v : tensor A) (idx : list nat),
  wf t -> tensor_to_vec t = Ok v -> inb (shape t) idx ->
  shape v = [prod (shape t)] /\ get d v [ravel (shape t) idx] = get d t idx /\ data v = data t.
Proof. exact @vec_layout. Qed.
Print Assumptions C01_vec_layout.

(* non-vacuity: a 3x1x2x2 tensor meets the hypotheses and the model computes on it *)
Example C01_nonvacuous :
  let t := mk [3;1;2;2] (seq 0 12) in
  wf t /\ 2 < ndim t /\ 0 < prod (shape t) /\
  unfold 0 t 2 = Ok (mk [2;6] [0;1;4;5;8;9;2;3;6;7;10;11]).
Proof. cbv zeta. unfold wf, ndim. cbn [shape data]. repeat split; try (vm_compute; reflexivity); vm_compute; auto with arith. Qed.
