(* C01 -- property theorems only. Statements are about the model of tensorly/base.py
   (Model/Base.v, Model/BaseExt.v), for every element type A, every shape (size-1 and size-0
   modes included; where NumPy's reshape(-1) rejects an empty mode the exact guard is stated and the
   rejection is a theorem), every signed mode. *)
From Coq Require Import List Arith Permutation ZArith.
From Coq Require Import Sorted.
(* C02's model (read-only; used by C01_mode_dot_is_fold_matmul_unfold only) is imported FIRST so that C01's own names win *)
From TLV Require Import Model.Tenalg.
From TLV Require Import Base.Shape Base.PyList Base.Tensor Model.Base Model.BaseExt Model.BasePy Model.BasePyCore
  Proofs.BaseProofs Proofs.BaseProofs2 Proofs.BaseProofs3 Proofs.BaseProofs4 Proofs.BaseProofs5 Proofs.BaseProofs6 Proofs.BaseProofs7 Proofs.BaseProofs8 Proofs.BaseProofs9 Proofs.BaseProofs10 Proofs.BaseProofs11 Proofs.BaseProofs12 Proofs.BaseProofs13 Proofs.BaseProofs14 Proofs.BaseProofs15 Proofs.BaseProofs16 Proofs.BaseProofs17 Proofs.BaseProofs18 Proofs.BaseProofs19 Proofs.BaseProofs20 Proofs.BaseProofs21 Proofs.BaseProofs22 Proofs.BaseProofs23
  Model.BasePyNp.
Import ListNotations.

Theorem C01_fold_unfold : forall (A : Type) (d : A) (t : tensor A) (m : nat),
  wf t -> m < ndim t -> 0 < prod (shape t) ->
  rbind (unfold d t m) (fun u => fold d u m (shape t)) = Ok t.
Proof. exact @fold_unfold. Qed.
Print Assumptions C01_fold_unfold.

Theorem C01_unfold_layout : forall (A : Type) (d : A) (t : tensor A) (m : nat) (u : tensor A) (idx : list nat),
  wf t -> m < ndim t -> 0 < prod (shape t) -> unfold d t m = Ok u -> inb (shape t) idx ->
  shape u = [nth m (shape t) 0; prod (remove_nth m (shape t))] /\
  get d u [nth m idx 0; ravel (remove_nth m (shape t)) (remove_nth m idx)] = get d t idx.
Proof. exact @unfold_layout. Qed.
Print Assumptions C01_unfold_layout.

Theorem C01_unfold_Permutation : forall (A : Type) (d : A) (t : tensor A) (m : nat) (u : tensor A),
  wf t -> m < ndim t -> 0 < prod (shape t) -> unfold d t m = Ok u -> Permutation (data u) (data t).
Proof. exact @unfold_Permutation. Qed.
Print Assumptions C01_unfold_Permutation.

Theorem C01_moveaxis_roundtrip : forall (A : Type) (d : A) (t : tensor A) (a b : nat),
  wf t -> a < ndim t -> b < ndim t -> moveaxis d (moveaxis d t a b) b a = t.
Proof. exact @moveaxis_roundtrip. Qed.
Print Assumptions C01_moveaxis_roundtrip.

Theorem C01_vec_roundtrip : forall (A : Type) (t : tensor A),
  wf t -> rbind (tensor_to_vec t) (fun v => vec_to_tensor v (shape t)) = Ok t.
Proof. exact @vec_roundtrip. Qed.
Print Assumptions C01_vec_roundtrip.

Theorem C01_vec_layout : forall (A : Type) (d : A) (t v : tensor A) (idx : list nat),
  wf t -> tensor_to_vec t = Ok v -> inb (shape t) idx ->
  shape v = [prod (shape t)] /\ get d v [ravel (shape t) idx] = get d t idx /\ data v = data t.
Proof. exact @vec_layout. Qed.
Print Assumptions C01_vec_layout.

(* partial_unfold / partial_fold / partial_tensor_to_vec / partial_vec_to_tensor *)
Theorem C01_partial_fold_unfold : forall (A : Type) (d : A) (t u : tensor A) (m sb se : nat) (rav : bool),
  wf t -> partial_unfold d t m sb se rav = Ok u -> partial_fold d u m (shape t) sb se = Ok t.
Proof. exact @partial_fold_unfold. Qed.
Print Assumptions C01_partial_fold_unfold.

Theorem C01_partial_unfold_succeeds : forall (A : Type) (d : A) (t : tensor A) (m sb se : nat) (rav : bool),
  wf t -> 0 < prod (shape t) -> sb + m + se < ndim t -> exists u, partial_unfold d t m sb se rav = Ok u.
Proof. exact @partial_unfold_succeeds. Qed.
Print Assumptions C01_partial_unfold_succeeds.

Theorem C01_partial_unfold_Permutation : forall (A : Type) (d : A) (t u : tensor A) (m sb se : nat) (rav : bool),
  wf t -> partial_unfold d t m sb se rav = Ok u -> Permutation (data u) (data t).
Proof. exact @partial_unfold_Permutation. Qed.
Print Assumptions C01_partial_unfold_Permutation.

Theorem C01_partial_vec_roundtrip : forall (A : Type) (d : A) (t u : tensor A) (sb se : nat),
  wf t -> partial_tensor_to_vec d t sb se = Ok u -> partial_vec_to_tensor d u (shape t) sb se = Ok t.
Proof. exact @partial_vec_roundtrip. Qed.
Print Assumptions C01_partial_vec_roundtrip.

(* matricize *)
Theorem C01_matricize_layout : forall (A : Type) (d : A) (t u : tensor A) (rows cols idx : list nat),
  wf t -> matricize d t rows (Some cols) = Ok u -> inb (shape t) idx ->
  shape u = [prod (permute 0 rows (shape t)); prod (permute 0 cols (shape t))] /\
  get d u [ravel (permute 0 rows (shape t)) (permute 0 rows idx); ravel (permute 0 cols (shape t)) (permute 0 cols idx)]
  = get d t idx.
Proof. exact @matricize_layout. Qed.
Print Assumptions C01_matricize_layout.

Theorem C01_matricize_Permutation : forall (A : Type) (d : A) (t u : tensor A) (rows : list nat) (cols : option (list nat)),
  wf t -> matricize d t rows cols = Ok u -> Permutation (data u) (data t).
Proof. exact @matricize_Permutation. Qed.
Print Assumptions C01_matricize_Permutation.

Theorem C01_matricize_default : forall (A : Type) (d : A) (t : tensor A) (rows : list nat),
  matricize d t rows None = matricize d t rows (Some (complement (ndim t) rows)) /\
  StronglySorted lt (complement (ndim t) rows) /\
  (forall k, In k (complement (ndim t) rows) <-> k < ndim t /\ ~ In k rows).
Proof. exact @matricize_default. Qed.
Print Assumptions C01_matricize_default.

Theorem C01_matricize_reject : forall (A : Type) (d : A) (t : tensor A) (rows cols : list nat),
  ~ (length (rows ++ cols) = ndim t /\ NoDup (rows ++ cols) /\ (forall k, In k (rows ++ cols) -> k < ndim t)) ->
  matricize d t rows (Some cols) = Err.
Proof. exact @matricize_reject. Qed.
Print Assumptions C01_matricize_reject.

Theorem C01_transpose_Permutation : forall (A : Type) (d : A) (t : tensor A) (p : list nat),
  wf t -> is_permb (ndim t) p = true -> Permutation (data (transpose d p t)) (data t).
Proof. exact @transpose_Permutation. Qed.
Print Assumptions C01_transpose_Permutation.

(* ---------- every shape: exact success domain, size-0 modes ---------- *)
Theorem C01_unfold_ok_iff : forall (A : Type) (d : A) (t : tensor A) (m : nat),
  (exists u, unfold d t m = Ok u) <-> m < ndim t /\ nth m (shape t) 0 <> 0.
Proof. exact @unfold_ok_iff. Qed.
Print Assumptions C01_unfold_ok_iff.

Theorem C01_unfold_empty_mode_rejected : forall (A : Type) (d : A) (t : tensor A) (m : nat),
  m < ndim t -> nth m (shape t) 0 = 0 -> unfold d t m = Err.
Proof. exact @unfold_empty_mode_rejected. Qed.
Print Assumptions C01_unfold_empty_mode_rejected.

Theorem C01_fold_unfold_every_shape : forall (A : Type) (d : A) (t : tensor A) (m : nat),
  wf t -> m < ndim t -> nth m (shape t) 0 <> 0 ->
  rbind (unfold d t m) (fun u => fold d u m (shape t)) = Ok t.
Proof. exact @fold_unfold_gen. Qed.
Print Assumptions C01_fold_unfold_every_shape.

Theorem C01_unfold_layout_every_shape : forall (A : Type) (d : A) (t : tensor A) (m : nat) (u : tensor A) (idx : list nat),
  wf t -> unfold d t m = Ok u -> inb (shape t) idx ->
  shape u = [nth m (shape t) 0; prod (remove_nth m (shape t))] /\
  get d u [nth m idx 0; ravel (remove_nth m (shape t)) (remove_nth m idx)] = get d t idx.
Proof. exact @unfold_layout_gen. Qed.
Print Assumptions C01_unfold_layout_every_shape.

Theorem C01_unfold_Permutation_every_shape : forall (A : Type) (d : A) (t : tensor A) (m : nat) (u : tensor A),
  wf t -> unfold d t m = Ok u -> Permutation (data u) (data t).
Proof. exact @unfold_Permutation_gen. Qed.
Print Assumptions C01_unfold_Permutation_every_shape.

(* unfold after fold *)
Theorem C01_unfold_fold : forall (A : Type) (d : A) (u : tensor A) (m : nat) (s : list nat),
  wf u -> m < length s -> nth m s 0 <> 0 -> shape u = [nth m s 0; prod (remove_nth m s)] ->
  rbind (fold d u m s) (fun t => unfold d t m) = Ok u.
Proof. exact @unfold_fold. Qed.
Print Assumptions C01_unfold_fold.

(* ---------- signed (Python int) modes ---------- *)
Theorem C01_unfold_signed_mode : forall (A : Type) (d : A) (t : tensor A),
  (forall m, m < ndim t -> unfold_z d t (Z.of_nat m) = unfold d t m) /\
  (forall j, 0 < j <= ndim t -> unfold_z d t (- Z.of_nat j) = unfold d t (ndim t - j)) /\
  (forall z, (z < - Z.of_nat (ndim t) \/ Z.of_nat (ndim t) <= z)%Z -> unfold_z d t z = Err).
Proof. exact @unfold_z_spec. Qed.
Print Assumptions C01_unfold_signed_mode.

Theorem C01_fold_signed_mode : forall (A : Type) (d : A) (u : tensor A) (s : list nat),
  (forall m, m < length s -> fold_z d u (Z.of_nat m) s = fold d u m s) /\
  (forall j, 0 < j <= length s -> fold_z d u (- Z.of_nat j) s = fold d u (length s - j) s) /\
  (forall z, (z < - Z.of_nat (length s) \/ Z.of_nat (length s) <= z)%Z -> fold_z d u z s = Err).
Proof. exact @fold_z_spec. Qed.
Print Assumptions C01_fold_signed_mode.

Theorem C01_fold_unfold_signed : forall (A : Type) (d : A) (t u : tensor A) (z : Z),
  wf t -> unfold_z d t z = Ok u -> fold_z d u z (shape t) = Ok t.
Proof. exact @fold_unfold_z. Qed.
Print Assumptions C01_fold_unfold_signed.

Theorem C01_partial_signed_mode : forall (A : Type) (d : A) (t : tensor A) (m : nat) (s : list nat) (sb se : nat) (rav : bool),
  partial_unfold_z d t (Z.of_nat m) sb se rav = partial_unfold d t m sb se rav /\
  partial_fold_z d t (Z.of_nat m) s sb se = partial_fold d t m s sb se.
Proof. exact @partial_z_spec. Qed.
Print Assumptions C01_partial_signed_mode.

Theorem C01_partial_fold_unfold_signed : forall (A : Type) (d : A) (t u : tensor A) (z : Z) (sb se : nat) (rav : bool),
  wf t -> partial_unfold_z d t z sb se rav = Ok u -> partial_fold_z d u z (shape t) sb se = Ok t.
Proof. exact @partial_fold_unfold_z. Qed.
Print Assumptions C01_partial_fold_unfold_signed.

Theorem C01_partial_unfold_signed_Permutation : forall (A : Type) (d : A) (t u : tensor A) (z : Z) (sb se : nat) (rav : bool),
  wf t -> partial_unfold_z d t z sb se rav = Ok u -> Permutation (data u) (data t).
Proof. exact @partial_unfold_z_Permutation. Qed.
Print Assumptions C01_partial_unfold_signed_Permutation.

Theorem C01_matricize_signed_modes : forall (A : Type) (d : A) (t : tensor A) (rows cols : list nat),
  matricize_z d t (map Z.of_nat rows) (Some (map Z.of_nat cols)) = matricize d t rows (Some cols) /\
  matricize_z d t (map Z.of_nat rows) None = matricize d t rows None.
Proof. exact @matricize_z_spec. Qed.
Print Assumptions C01_matricize_signed_modes.

Theorem C01_matricize_negative_rejected : forall (A : Type) (d : A) (t : tensor A) (rows : list Z) (cols : option (list Z)) (z : Z),
  (z < 0)%Z -> In z (rows ++ match cols with Some c => c | None => [] end) -> matricize_z d t rows cols = Err.
Proof. exact @matricize_z_negative_rejected. Qed.
Print Assumptions C01_matricize_negative_rejected.

(* ---------- the backend layer: generic Backend.moveaxis; inverse transposition ---------- *)
Theorem C01_moveaxis_generic : forall (A : Type) (d : A) (t : tensor A) (a b : nat),
  a < ndim t -> b < ndim t -> moveaxis_generic d t a b = moveaxis d t a b.
Proof. exact @moveaxis_generic_eq. Qed.
Print Assumptions C01_moveaxis_generic.

Theorem C01_transpose_inverse : forall (A : Type) (d : A) (t : tensor A) (p : list nat),
  wf t -> is_permb (ndim t) p = true -> transpose d (inv_perm p) (transpose d p t) = t.
Proof. exact @transpose_inverse. Qed.
Print Assumptions C01_transpose_inverse.

(* matricize is undone by a reshape to the permuted shape and the inverse transposition *)
Theorem C01_matricize_inverse : forall (A : Type) (d : A) (t u : tensor A) (rows : list nat) (cols : option (list nat)),
  wf t -> matricize d t rows cols = Ok u ->
  let p := rows ++ match cols with Some c => c | None => complement (ndim t) rows end in
  transpose d (inv_perm p) (reshape (permute 0 p (shape t)) u) = t.
Proof. exact @matricize_inverse. Qed.
Print Assumptions C01_matricize_inverse.

(* ---------- documented layout of the partial variants; their exact success domain ---------- *)
Theorem C01_partial_unfold_layout : forall (A : Type) (d : A) (t u : tensor A) (m sb se : nat) (rav : bool) (L M T : list nat),
  wf t -> sb + m + se < ndim t -> partial_unfold d t m sb se rav = Ok u ->
  length L = sb -> length T = se -> inb (shape t) (L ++ M ++ T) ->
  let s := shape t in
  let mids := firstn (length s - sb - se) (skipn sb s) in
  let dm := nth m mids 0 in let rs := remove_nth m mids in
  let im := nth m M 0 in let ri := remove_nth m M in
  if rav then
    shape u = firstn sb s ++ [dm * prod rs] ++ lastn se s /\
    get d u (L ++ [im * prod rs + ravel rs ri] ++ T) = get d t (L ++ M ++ T)
  else
    shape u = firstn sb s ++ [dm; prod rs] ++ lastn se s /\
    get d u (L ++ [im; ravel rs ri] ++ T) = get d t (L ++ M ++ T).
Proof. exact @partial_unfold_layout. Qed.
Print Assumptions C01_partial_unfold_layout.

Theorem C01_partial_tensor_to_vec_layout : forall (A : Type) (d : A) (t u : tensor A) (sb se : nat) (L M T : list nat),
  wf t -> sb + se < ndim t -> partial_tensor_to_vec d t sb se = Ok u ->
  length L = sb -> length T = se -> inb (shape t) (L ++ M ++ T) ->
  let s := shape t in
  let mids := firstn (length s - sb - se) (skipn sb s) in
  shape u = firstn sb s ++ [prod mids] ++ lastn se s /\
  get d u (L ++ [ravel mids M] ++ T) = get d t (L ++ M ++ T).
Proof. exact @partial_tensor_to_vec_layout. Qed.
Print Assumptions C01_partial_tensor_to_vec_layout.

Theorem C01_partial_unfold_ok_iff : forall (A : Type) (d : A) (t : tensor A) (m sb se : nat) (rav : bool),
  sb + m + se < ndim t ->
  let s := shape t in
  (exists u, partial_unfold d t m sb se rav = Ok u) <->
  prod (firstn sb s) * (if rav then 1 else nth (m + sb) s 0) * prod (lastn se s) <> 0.
Proof. exact @partial_unfold_ok_iff. Qed.
Print Assumptions C01_partial_unfold_ok_iff.

Example C01_nonvacuous_partial_layout :
  let t := mk [2;3;2;2] (seq 0 24) in
  wf t /\ 1 + 1 + 1 < ndim t /\ inb (shape t) ([1] ++ [2;1] ++ [0]) /\
  partial_unfold 0 t 1 1 1 true = Ok (mk [2;6;2] [0;1;4;5;8;9;2;3;6;7;10;11;12;13;16;17;20;21;14;15;18;19;22;23]) /\
  get 0 (mk [2;6;2] [0;1;4;5;8;9;2;3;6;7;10;11;12;13;16;17;20;21;14;15;18;19;22;23]) ([1] ++ [1 * 3 + 2] ++ [0]) = get 0 t [1;2;1;0] /\
  partial_unfold 0 (mk [2;0;3] []) 1 1 0 false = Ok (mk [2;3;0] []) /\ partial_unfold 0 (mk [2;0;3] []) 0 1 0 false = Err.
Proof. cbv zeta. unfold wf, ndim. cbn [shape data]. repeat split; try (vm_compute; reflexivity); vm_compute; auto with arith. Qed.

Theorem C01_fold_ok_iff : forall (A : Type) (d : A) (u : tensor A) (m : nat) (s : list nat),
  (exists t, fold d u m s = Ok t) <-> m < length s /\ prod s = prod (shape u).
Proof. exact @fold_ok_iff. Qed.
Print Assumptions C01_fold_ok_iff.

Theorem C01_matricize_ok_iff : forall (A : Type) (d : A) (t : tensor A) (rows cols : list nat),
  (exists u, matricize d t rows (Some cols) = Ok u) <->
  (length (rows ++ cols) = ndim t /\ NoDup (rows ++ cols) /\ (forall k, In k (rows ++ cols) -> k < ndim t)).
Proof. exact @matricize_ok_iff. Qed.
Print Assumptions C01_matricize_ok_iff.

(* ---------- output shapes with no in-bounds hypothesis (tensors with size-0 modes included), and the target index of
   every layout equation is in bounds of the result (review r5, 1.1 / 1.2) ---------- *)
Theorem C01_unfold_shape : forall (A : Type) (d : A) (t u : tensor A) (m : nat),
  unfold d t m = Ok u -> shape u = [nth m (shape t) 0; prod (remove_nth m (shape t))].
Proof. exact @unfold_shape. Qed.
Print Assumptions C01_unfold_shape.

Theorem C01_unfold_target_in_bounds : forall (A : Type) (d : A) (t u : tensor A) (m : nat) (idx : list nat),
  unfold d t m = Ok u -> inb (shape t) idx ->
  inb (shape u) [nth m idx 0; ravel (remove_nth m (shape t)) (remove_nth m idx)].
Proof. exact @unfold_target_in_bounds. Qed.
Print Assumptions C01_unfold_target_in_bounds.

Theorem C01_vec_shape : forall (A : Type) (t v : tensor A),
  tensor_to_vec t = Ok v -> shape v = [prod (shape t)] /\ data v = data t.
Proof. exact @vec_shape. Qed.
Print Assumptions C01_vec_shape.

Theorem C01_vec_target_in_bounds : forall (A : Type) (t v : tensor A) (idx : list nat),
  tensor_to_vec t = Ok v -> inb (shape t) idx -> inb (shape v) [ravel (shape t) idx].
Proof. exact @vec_target_in_bounds. Qed.
Print Assumptions C01_vec_target_in_bounds.

Theorem C01_matricize_shape : forall (A : Type) (d : A) (t u : tensor A) (rows : list nat) (cols : option (list nat)),
  matricize d t rows cols = Ok u ->
  let cs := match cols with Some c => c | None => complement (ndim t) rows end in
  shape u = [prod (permute 0 rows (shape t)); prod (permute 0 cs (shape t))].
Proof. exact @matricize_shape. Qed.
Print Assumptions C01_matricize_shape.

Theorem C01_matricize_target_in_bounds : forall (A : Type) (d : A) (t u : tensor A) (rows cols idx : list nat),
  matricize d t rows (Some cols) = Ok u -> inb (shape t) idx ->
  inb (shape u) [ravel (permute 0 rows (shape t)) (permute 0 rows idx); ravel (permute 0 cols (shape t)) (permute 0 cols idx)].
Proof. exact @matricize_target_in_bounds. Qed.
Print Assumptions C01_matricize_target_in_bounds.

Theorem C01_partial_unfold_shape : forall (A : Type) (d : A) (t u : tensor A) (m sb se : nat) (rav : bool),
  sb + m + se < ndim t -> partial_unfold d t m sb se rav = Ok u ->
  let s := shape t in
  let mids := firstn (length s - sb - se) (skipn sb s) in
  shape u = firstn sb s ++ (if rav then [nth m mids 0 * prod (remove_nth m mids)]
                            else [nth m mids 0; prod (remove_nth m mids)]) ++ lastn se s.
Proof. exact @partial_unfold_shape. Qed.
Print Assumptions C01_partial_unfold_shape.

Theorem C01_partial_unfold_target_in_bounds : forall (A : Type) (d : A) (t u : tensor A) (m sb se : nat) (rav : bool) (L M T : list nat),
  sb + m + se < ndim t -> partial_unfold d t m sb se rav = Ok u ->
  length L = sb -> length T = se -> inb (shape t) (L ++ M ++ T) ->
  let s := shape t in
  let mids := firstn (length s - sb - se) (skipn sb s) in
  let rs := remove_nth m mids in let im := nth m M 0 in let ri := remove_nth m M in
  inb (shape u) (L ++ (if rav then [im * prod rs + ravel rs ri] else [im; ravel rs ri]) ++ T).
Proof. exact @partial_unfold_target_in_bounds. Qed.
Print Assumptions C01_partial_unfold_target_in_bounds.

Theorem C01_partial_tensor_to_vec_shape : forall (A : Type) (d : A) (t u : tensor A) (sb se : nat),
  sb + se < ndim t -> partial_tensor_to_vec d t sb se = Ok u ->
  let s := shape t in
  shape u = firstn sb s ++ [prod (firstn (length s - sb - se) (skipn sb s))] ++ lastn se s.
Proof. exact @partial_tensor_to_vec_shape. Qed.
Print Assumptions C01_partial_tensor_to_vec_shape.

Theorem C01_partial_tensor_to_vec_target_in_bounds : forall (A : Type) (d : A) (t u : tensor A) (sb se : nat) (L M T : list nat),
  sb + se < ndim t -> partial_tensor_to_vec d t sb se = Ok u ->
  length L = sb -> length T = se -> inb (shape t) (L ++ M ++ T) ->
  let s := shape t in
  inb (shape u) (L ++ [ravel (firstn (length s - sb - se) (skipn sb s)) M] ++ T).
Proof. exact @partial_tensor_to_vec_target_in_bounds. Qed.
Print Assumptions C01_partial_tensor_to_vec_target_in_bounds.

(* the shape theorems are not vacuous on tensors with an empty mode: a 2x0x3 tensor satisfies their hypotheses *)
Example C01_nonvacuous_empty_shapes :
  let t := mk [2;0;3] (@nil nat) in
  1 + 1 + 0 < ndim t /\
  (exists u, partial_unfold 0 t 1 1 0 false = Ok u /\ shape u = [2;3;0]) /\
  (exists u, partial_unfold 0 t 0 0 1 true = Ok u /\ shape u = [0;3]) /\
  (exists u, unfold 0 t 2 = Ok u /\ shape u = [3;0]) /\
  (exists u, matricize 0 t [2] (Some [0;1]) = Ok u /\ shape u = [3;0]) /\
  (exists u, tensor_to_vec t = Ok u /\ shape u = [0]) /\
  (exists u, partial_tensor_to_vec 0 t 1 0 = Ok u /\ shape u = [2;0]).
Proof. cbv zeta. unfold ndim. cbn [shape]. repeat split; try (vm_compute; auto with arith); eexists; split; vm_compute; reflexivity. Qed.

(* ---------- "no entry is rounded or re-typed": the functions commute with every entry-wise map ---------- *)
Theorem C01_naturality : forall (A B : Type) (f : A -> B) (d : A) (t : tensor A),
  tensor_to_vec (tmap f t) = rmap (tmap f) (tensor_to_vec t) /\
  (forall s, vec_to_tensor (tmap f t) s = rmap (tmap f) (vec_to_tensor t s)) /\
  (forall m, unfold (f d) (tmap f t) m = rmap (tmap f) (unfold d t m)) /\
  (forall m s, fold (f d) (tmap f t) m s = rmap (tmap f) (fold d t m s)) /\
  (forall m sb se rav, partial_unfold (f d) (tmap f t) m sb se rav = rmap (tmap f) (partial_unfold d t m sb se rav)) /\
  (forall m s sb se, partial_fold (f d) (tmap f t) m s sb se = rmap (tmap f) (partial_fold d t m s sb se)) /\
  (forall rows cols, matricize (f d) (tmap f t) rows cols = rmap (tmap f) (matricize d t rows cols)).
Proof. exact @naturality. Qed.
Print Assumptions C01_naturality.

(* non-vacuity of the size-0 and signed-mode statements *)
Example C01_nonvacuous_empty :
  let t := mk [0;3] (@nil nat) in
  wf t /\ unfold 0 t 0 = Err /\ unfold 0 t 1 = Ok (mk [3;0] []) /\ fold 0 (mk [3;0] []) 1 [0;3] = Ok t /\
  unfold_z 0 (mk [2;3] (seq 0 6)) (-1) = Ok (mk [3;2] [0;3;1;4;2;5]) /\
  unfold_z 0 (mk [2;3] (seq 0 6)) (-3) = Err /\
  matricize 0 (mk [2;3] (seq 0 6)) [1] None = Ok (mk [3;2] [0;3;1;4;2;5]) /\
  transpose 0 (inv_perm [1;0]) (reshape [3;2] (mk [3;2] [0;3;1;4;2;5])) = mk [2;3] (seq 0 6) /\
  moveaxis_generic 0 (mk [2;3;2] (seq 0 12)) 2 0 = moveaxis 0 (mk [2;3;2] (seq 0 12)) 2 0.
Proof. cbv zeta. unfold wf. cbn [shape data]. repeat split; vm_compute; reflexivity. Qed.

Example C01_nonvacuous_partial :
  let t := mk [2;3;2;2] (seq 0 24) in
  wf t /\ 1 + 1 + 1 < ndim t /\
  partial_unfold 0 t 1 1 1 false = Ok (mk [2;2;3;2] [0;1;4;5;8;9;2;3;6;7;10;11;12;13;16;17;20;21;14;15;18;19;22;23]) /\
  matricize 0 t [2;0] (Some [3;1]) = Ok (mk [4;6] [0;4;8;1;5;9;12;16;20;13;17;21;2;6;10;3;7;11;14;18;22;15;19;23]).
Proof. cbv zeta. unfold wf, ndim. cbn [shape data]. repeat split; try (vm_compute; reflexivity); vm_compute; auto with arith. Qed.

(* non-vacuity: a 3x1x2x2 tensor meets the hypotheses and the model computes on it *)
Example C01_nonvacuous :
  let t := mk [3;1;2;2] (seq 0 12) in
  wf t /\ 2 < ndim t /\ 0 < prod (shape t) /\
  unfold 0 t 2 = Ok (mk [2;6] [0;1;4;5;8;9;2;3;6;7;10;11]).
Proof. cbv zeta. unfold wf, ndim. cbn [shape data]. repeat split; try (vm_compute; reflexivity); vm_compute; auto with arith. Qed.

(* ---------- the statement-by-statement model over an abstract backend (Model/BasePy.v; regenerated from the Python source
   and re-proved equal on every run by the harness): dtype tag, entries, agreement with the hand model ---------- *)

(* whatever relation the three backend calls respect, all nine functions of base.py respect *)
Theorem C01_g_invariant : forall (T : Type) (B : backend T) (R : T -> T -> Prop),
  (forall a b c, R a b -> R b c -> R a c) ->
  (forall t l u, b_reshape B t l = Ok u -> R t u) ->
  (forall t a b u, b_moveaxis B t a b = Ok u -> R t u) ->
  (forall t p u, b_transpose B t p = Ok u -> R t u) ->
  forall t u : T,
  (g_tensor_to_vec B t = Ok u -> R t u) /\
  (forall s, g_vec_to_tensor B t s = Ok u -> R t u) /\
  (forall m, g_unfold B t m = Ok u -> R t u) /\
  (forall m s, g_fold B t m s = Ok u -> R t u) /\
  (forall m sb se rav, g_partial_unfold B t m sb se rav = Ok u -> R t u) /\
  (forall m s sb se, g_partial_fold B t m s sb se = Ok u -> R t u) /\
  (forall sb se, g_partial_tensor_to_vec B t sb se = Ok u -> R t u) /\
  (forall s sb se, g_partial_vec_to_tensor B t s sb se = Ok u -> R t u) /\
  (forall rows cols, g_matricize B t rows cols = Ok u -> R t u).
Proof. exact @g_invariant. Qed.
Print Assumptions C01_g_invariant.

(* no entry duplicated or dropped: on the NumPy backend (signed modes and skips, any request that succeeds) *)
Theorem C01_g_Permutation : forall (A : Type) (d : A) (t u : tensor A),
  let P := wf t -> wf u /\ Permutation (data u) (data t) in
  (g_tensor_to_vec (plain d) t = Ok u -> P) /\
  (forall s, g_vec_to_tensor (plain d) t s = Ok u -> P) /\
  (forall m, g_unfold (plain d) t m = Ok u -> P) /\
  (forall m s, g_fold (plain d) t m s = Ok u -> P) /\
  (forall m sb se rav, g_partial_unfold (plain d) t m sb se rav = Ok u -> P) /\
  (forall m s sb se, g_partial_fold (plain d) t m s sb se = Ok u -> P) /\
  (forall sb se, g_partial_tensor_to_vec (plain d) t sb se = Ok u -> P) /\
  (forall s sb se, g_partial_vec_to_tensor (plain d) t s sb se = Ok u -> P) /\
  (forall rows cols, g_matricize (plain d) t rows cols = Ok u -> P).
Proof. exact @g_plain_Permutation. Qed.
Print Assumptions C01_g_Permutation.

(* no entry re-typed: on arrays carrying a dtype tag, the result of every function carries the tag of its input and its
   entries are a permutation of the input's entries *)
Theorem C01_g_dtype_preserved : forall (A : Type) (d : A) (D : Type) (a u : ndarray A D),
  let P := dt u = dt a /\ (wf (arr a) -> wf (arr u) /\ Permutation (data (arr u)) (data (arr a))) in
  (g_tensor_to_vec (typed d D) a = Ok u -> P) /\
  (forall s, g_vec_to_tensor (typed d D) a s = Ok u -> P) /\
  (forall m, g_unfold (typed d D) a m = Ok u -> P) /\
  (forall m s, g_fold (typed d D) a m s = Ok u -> P) /\
  (forall m sb se rav, g_partial_unfold (typed d D) a m sb se rav = Ok u -> P) /\
  (forall m s sb se, g_partial_fold (typed d D) a m s sb se = Ok u -> P) /\
  (forall sb se, g_partial_tensor_to_vec (typed d D) a sb se = Ok u -> P) /\
  (forall s sb se, g_partial_vec_to_tensor (typed d D) a s sb se = Ok u -> P) /\
  (forall rows cols, g_matricize (typed d D) a rows cols = Ok u -> P).
Proof. exact @g_typed_same_type. Qed.
Print Assumptions C01_g_dtype_preserved.

(* ... hence, for ANY notion `ty` of "value x is of dtype D": a well-typed input gives a well-typed result of the same dtype *)
Theorem C01_g_entries_keep_their_type : forall (A : Type) (D : Type) (ty : D -> A -> Prop) (a u : ndarray A D),
  (dt u = dt a /\ (wf (arr a) -> wf (arr u) /\ Permutation (data (arr u)) (data (arr a)))) ->
  wf (arr a) -> Forall (ty (dt a)) (data (arr a)) ->
  dt u = dt a /\ wf (arr u) /\ Forall (ty (dt u)) (data (arr u)).
Proof. exact @same_type_entries. Qed.
Print Assumptions C01_g_entries_keep_their_type.

(* on the NumPy backend the statement-by-statement model IS the hand model the theorems above are about *)
Theorem C01_g_is_model : forall (A : Type) (d : A) (t : tensor A),
  g_tensor_to_vec (plain d) t = tensor_to_vec t /\
  (forall s, g_vec_to_tensor (plain d) t (map Z.of_nat s) = vec_to_tensor t s) /\
  (forall m, g_unfold (plain d) t m = unfold_z d t m) /\
  (forall m s, g_fold (plain d) t m (map Z.of_nat s) = fold_z d t m s) /\
  (forall m sb se rav, g_partial_unfold (plain d) t m (Z.of_nat sb) (Z.of_nat se) rav = partial_unfold_z d t m sb se rav) /\
  (forall m s sb se se', g_partial_fold (plain d) t m (map Z.of_nat s) (Z.of_nat sb) se = partial_fold_z d t m s sb se') /\
  (forall sb se, g_partial_tensor_to_vec (plain d) t (Z.of_nat sb) (Z.of_nat se) = partial_unfold_z d t 0%Z sb se true) /\
  (forall s sb se se', g_partial_vec_to_tensor (plain d) t (map Z.of_nat s) (Z.of_nat sb) se = partial_fold_z d t 0%Z s sb se').
Proof.
  intros A d t.
  exact (conj (g_tensor_to_vec_eq d t) (conj (g_vec_to_tensor_eq d t) (conj (g_unfold_eq d t) (conj (g_fold_eq d t)
        (conj (g_partial_unfold_eq d t) (conj (g_partial_fold_eq d t) (conj (g_partial_tensor_to_vec_eq d t) (g_partial_vec_to_tensor_eq d t)))))))).
Qed.
Print Assumptions C01_g_is_model.

(* matricize: the statement-by-statement model (sorted(columns + rows) != list(range(ndim)), prod(shape[i] for i in ...),
   np.transpose's own axis check) is the hand model, for every list of (non-negative) modes, valid or not *)
Theorem C01_g_matricize_is_model : forall (A : Type) (d : A) (t : tensor A) (rows : list nat) (cols : option (list nat)),
  g_matricize (plain d) t (PSeq (map Z.of_nat rows)) (option_map (fun c => PSeq (map Z.of_nat c)) cols) = matricize d t rows cols.
Proof. exact @g_matricize_eq. Qed.
Print Assumptions C01_g_matricize_is_model.

(* ... and for EVERY list of signed modes: a negative entry can never be part of a successful request of the source (with
   column_modes the sorted() test fails; without, the default columns make np.transpose see a repeated axis) *)
Theorem C01_g_matricize_signed_is_model : forall (A : Type) (d : A) (t : tensor A) (rows : list Z) (cols : option (list Z)),
  g_matricize (plain d) t (PSeq rows) (option_map PSeq cols) = matricize_z d t rows cols.
Proof. exact @g_matricize_z_eq. Qed.
Print Assumptions C01_g_matricize_signed_is_model.

(* the bare-int convenience of the source (try: list(x) / except TypeError: [x]) is part of the statement-level model:
   an int given as row_modes or column_modes stands for the one-element list, on every backend *)
Theorem C01_g_matricize_bare_int : forall (T : Type) (B : backend T) (t : T) (z : Z) (rows : pyseq) (cols : option pyseq),
  g_matricize B t (PInt z) cols = g_matricize B t (PSeq [z]) cols /\
  g_matricize B t rows (Some (PInt z)) = g_matricize B t rows (Some (PSeq [z])).
Proof. exact @g_matricize_bare_int. Qed.
Print Assumptions C01_g_matricize_bare_int.

(* ---------- the vectorising functions; the second direction of the partial round trip ---------- *)
Theorem C01_tensor_to_vec_total : forall (A : Type) (t : tensor A),
  exists v, tensor_to_vec t = Ok v /\ shape v = [prod (shape t)] /\ data v = data t.
Proof. exact @tensor_to_vec_total. Qed.
Print Assumptions C01_tensor_to_vec_total.

Theorem C01_vec_to_tensor_ok_iff : forall (A : Type) (v : tensor A) (s : list nat),
  (exists t, vec_to_tensor v s = Ok t) <-> prod s = prod (shape v).
Proof. exact @vec_to_tensor_ok_iff. Qed.
Print Assumptions C01_vec_to_tensor_ok_iff.

Theorem C01_vec_to_tensor_layout : forall (A : Type) (d : A) (v t : tensor A) (s : list nat),
  vec_to_tensor v s = Ok t ->
  shape t = s /\ data t = data v /\ (forall idx, get d t idx = nth (ravel s idx) (data v) d).
Proof. exact @vec_to_tensor_layout. Qed.
Print Assumptions C01_vec_to_tensor_layout.

Theorem C01_vec_unvec_roundtrip : forall (A : Type) (v : tensor A) (s : list nat),
  shape v = [prod s] -> rbind (vec_to_tensor v s) (fun t => tensor_to_vec t) = Ok v.
Proof. exact @vec_unvec_roundtrip. Qed.
Print Assumptions C01_vec_unvec_roundtrip.

(* partial_unfold after partial_fold (both ravel settings; partial_tensor_to_vec after partial_vec_to_tensor is m = 0, rav = true) *)
Theorem C01_partial_unfold_fold : forall (A : Type) (d : A) (u : tensor A) (m : nat) (s : list nat) (sb se : nat) (rav : bool),
  wf u -> sb + m + se < length s ->
  let mids := firstn (length s - sb - se) (skipn sb s) in
  shape u = firstn sb s ++ (if rav then [nth m mids 0 * prod (remove_nth m mids)]
                            else [nth m mids 0; prod (remove_nth m mids)]) ++ lastn se s ->
  prod (firstn sb s) * (if rav then 1 else nth (m + sb) s 0) * prod (lastn se s) <> 0 ->
  rbind (partial_fold d u m s sb se) (fun t => partial_unfold d t m sb se rav) = Ok u.
Proof. exact @partial_unfold_fold. Qed.
Print Assumptions C01_partial_unfold_fold.

Example C01_nonvacuous_partial_unfold_fold :
  let u := mk [2;6;2] (seq 0 24) in let s := [2;3;2;2] in
  wf u /\ 1 + 1 + 1 < length s /\
  shape u = firstn 1 s ++ [nth 1 (firstn 2 (skipn 1 s)) 0 * prod (remove_nth 1 (firstn 2 (skipn 1 s)))] ++ lastn 1 s /\
  prod (firstn 1 s) * 1 * prod (lastn 1 s) <> 0 /\
  rbind (partial_fold 0 u 1 s 1 1) (fun t => partial_unfold 0 t 1 1 1 true) = Ok u /\
  rbind (vec_to_tensor (mk [6] (seq 0 6)) [2;3]) (fun t => tensor_to_vec t) = Ok (mk [6] (seq 0 6)) /\
  vec_to_tensor (mk [6] (seq 0 6)) [2;4] = Err.
Proof. cbv zeta. unfold wf. cbn [shape data]. repeat split; try (vm_compute; reflexivity); vm_compute; auto with arith; discriminate. Qed.

(* the generic Backend.moveaxis of tensorly/backend/core.py, statement by statement (negative axes read through axes[i],
   list.pop raising, list.insert clipping): it is the hand model for EVERY pair of signed axes, and it respects whatever
   relation the backend's transpose respects (dtype tag, permutation of the entries) *)
Theorem C01_g_moveaxis_generic_is_model : forall (A : Type) (d : A) (t : tensor A) (a b : Z),
  g_moveaxis_generic (plain d) t a b = moveaxis_generic_z d t a b.
Proof. exact @g_moveaxis_generic_eq. Qed.
Print Assumptions C01_g_moveaxis_generic_is_model.

Theorem C01_g_moveaxis_generic_invariant : forall (T : Type) (B : backend T) (R : T -> T -> Prop),
  (forall t p u, b_transpose B t p = Ok u -> R t u) ->
  forall t a b u, g_moveaxis_generic B t a b = Ok u -> R t u.
Proof. exact @inv_moveaxis_generic. Qed.
Print Assumptions C01_g_moveaxis_generic_invariant.

(* a map between two backends that commutes with shape / reshape / moveaxis / transpose commutes with every function ... *)
Theorem C01_g_morphism : forall (T1 T2 : Type) (B1 : backend T1) (B2 : backend T2) (phi : T1 -> T2),
  (forall t, b_shape B2 (phi t) = b_shape B1 t) ->
  (forall t l, b_reshape B2 (phi t) l = rmap phi (b_reshape B1 t l)) ->
  (forall t a b, b_moveaxis B2 (phi t) a b = rmap phi (b_moveaxis B1 t a b)) ->
  (forall t p, b_transpose B2 (phi t) p = rmap phi (b_transpose B1 t p)) ->
  forall t : T1,
  g_tensor_to_vec B2 (phi t) = rmap phi (g_tensor_to_vec B1 t) /\
  (forall s, g_vec_to_tensor B2 (phi t) s = rmap phi (g_vec_to_tensor B1 t s)) /\
  (forall m, g_unfold B2 (phi t) m = rmap phi (g_unfold B1 t m)) /\
  (forall m s, g_fold B2 (phi t) m s = rmap phi (g_fold B1 t m s)) /\
  (forall m sb se rav, g_partial_unfold B2 (phi t) m sb se rav = rmap phi (g_partial_unfold B1 t m sb se rav)) /\
  (forall m s sb se, g_partial_fold B2 (phi t) m s sb se = rmap phi (g_partial_fold B1 t m s sb se)) /\
  (forall sb se, g_partial_tensor_to_vec B2 (phi t) sb se = rmap phi (g_partial_tensor_to_vec B1 t sb se)) /\
  (forall s sb se, g_partial_vec_to_tensor B2 (phi t) s sb se = rmap phi (g_partial_vec_to_tensor B1 t s sb se)) /\
  (forall rows cols, g_matricize B2 (phi t) rows cols = rmap phi (g_matricize B1 t rows cols)) /\
  (forall a b, g_moveaxis_generic B2 (phi t) a b = rmap phi (g_moveaxis_generic B1 t a b)).
Proof. exact @g_morphism. Qed.
Print Assumptions C01_g_morphism.

(* ... in particular forgetting the dtype tag: the typed model computes exactly the entries (and the rejections) of the
   untyped one, to which C01_g_is_model and all the layout / round-trip theorems apply *)
Theorem C01_g_typed_entries : forall (A : Type) (d : A) (D : Type) (a : ndarray A D),
  g_tensor_to_vec (plain d) (arr a) = rmap arr (g_tensor_to_vec (typed d D) a) /\
  (forall s, g_vec_to_tensor (plain d) (arr a) s = rmap arr (g_vec_to_tensor (typed d D) a s)) /\
  (forall m, g_unfold (plain d) (arr a) m = rmap arr (g_unfold (typed d D) a m)) /\
  (forall m s, g_fold (plain d) (arr a) m s = rmap arr (g_fold (typed d D) a m s)) /\
  (forall m sb se rav, g_partial_unfold (plain d) (arr a) m sb se rav = rmap arr (g_partial_unfold (typed d D) a m sb se rav)) /\
  (forall m s sb se, g_partial_fold (plain d) (arr a) m s sb se = rmap arr (g_partial_fold (typed d D) a m s sb se)) /\
  (forall sb se, g_partial_tensor_to_vec (plain d) (arr a) sb se = rmap arr (g_partial_tensor_to_vec (typed d D) a sb se)) /\
  (forall s sb se, g_partial_vec_to_tensor (plain d) (arr a) s sb se = rmap arr (g_partial_vec_to_tensor (typed d D) a s sb se)) /\
  (forall rows cols, g_matricize (plain d) (arr a) rows cols = rmap arr (g_matricize (typed d D) a rows cols)) /\
  (forall x y, g_moveaxis_generic (plain d) (arr a) x y = rmap arr (g_moveaxis_generic (typed d D) a x y)).
Proof. exact @g_typed_entries. Qed.
Print Assumptions C01_g_typed_entries.

(* the headline round trips on arrays that carry a dtype tag (statement-by-statement model, signed modes): refolding
   returns the ORIGINAL array - same dtype tag, same shape, same entries in the same places *)
Theorem C01_g_typed_fold_unfold : forall (A : Type) (d : A) (D : Type) (a u : ndarray A D) (m : Z),
  wf (arr a) -> g_unfold (typed d D) a m = Ok u -> g_fold (typed d D) u m (map Z.of_nat (shape (arr a))) = Ok a.
Proof. exact @g_typed_fold_unfold. Qed.
Print Assumptions C01_g_typed_fold_unfold.

Theorem C01_g_typed_partial_fold_unfold : forall (A : Type) (d : A) (D : Type) (a u : ndarray A D) (m : Z) (sb se : nat) (rav : bool),
  wf (arr a) -> g_partial_unfold (typed d D) a m (Z.of_nat sb) (Z.of_nat se) rav = Ok u ->
  g_partial_fold (typed d D) u m (map Z.of_nat (shape (arr a))) (Z.of_nat sb) (Z.of_nat se) = Ok a.
Proof. exact @g_typed_partial_fold_unfold. Qed.
Print Assumptions C01_g_typed_partial_fold_unfold.

Theorem C01_g_typed_vec_roundtrip : forall (A : Type) (d : A) (D : Type) (a v : ndarray A D),
  wf (arr a) -> g_tensor_to_vec (typed d D) a = Ok v -> g_vec_to_tensor (typed d D) v (map Z.of_nat (shape (arr a))) = Ok a.
Proof. exact @g_typed_vec_roundtrip. Qed.
Print Assumptions C01_g_typed_vec_roundtrip.

(* "no entry is rounded": on the NumPy backend all ten statement-level functions (signed modes and skips) commute with every
   entry-wise map f : A -> B - the result cannot depend on, or alter, a value *)
Theorem C01_g_naturality : forall (A B : Type) (f : A -> B) (d : A) (t : tensor A),
  g_tensor_to_vec (plain (f d)) (tmap f t) = rmap (tmap f) (g_tensor_to_vec (plain d) t) /\
  (forall s, g_vec_to_tensor (plain (f d)) (tmap f t) s = rmap (tmap f) (g_vec_to_tensor (plain d) t s)) /\
  (forall m, g_unfold (plain (f d)) (tmap f t) m = rmap (tmap f) (g_unfold (plain d) t m)) /\
  (forall m s, g_fold (plain (f d)) (tmap f t) m s = rmap (tmap f) (g_fold (plain d) t m s)) /\
  (forall m sb se rav, g_partial_unfold (plain (f d)) (tmap f t) m sb se rav = rmap (tmap f) (g_partial_unfold (plain d) t m sb se rav)) /\
  (forall m s sb se, g_partial_fold (plain (f d)) (tmap f t) m s sb se = rmap (tmap f) (g_partial_fold (plain d) t m s sb se)) /\
  (forall sb se, g_partial_tensor_to_vec (plain (f d)) (tmap f t) sb se = rmap (tmap f) (g_partial_tensor_to_vec (plain d) t sb se)) /\
  (forall s sb se, g_partial_vec_to_tensor (plain (f d)) (tmap f t) s sb se = rmap (tmap f) (g_partial_vec_to_tensor (plain d) t s sb se)) /\
  (forall rows cols, g_matricize (plain (f d)) (tmap f t) rows cols = rmap (tmap f) (g_matricize (plain d) t rows cols)) /\
  (forall a b, g_moveaxis_generic (plain (f d)) (tmap f t) a b = rmap (tmap f) (g_moveaxis_generic (plain d) t a b)).
Proof. exact @g_natural. Qed.
Print Assumptions C01_g_naturality.

(* NEGATIVE skip_end / skip_begin (outside the documented domain; what the source does is deterministic and is part of the
   statement-level model and of the per-run correspondence): a negative skip_end is read as 0 by partial_unfold and
   partial_tensor_to_vec (`if skip_end:` is taken but range(skip_end, 0, -1) is empty) and is never read by partial_fold,
   on every backend; so the round trip C01_g_typed_partial_fold_unfold extends to it.  A negative skip_begin is NOT
   inverted by partial_fold (Example below): such requests are garbage-in. *)
Theorem C01_g_negative_skip_end : forall (T : Type) (B : backend T) (t : T) (m sb se : Z) (rav : bool) (s : list Z) (se' : Z),
  ((se < 0)%Z -> g_partial_unfold B t m sb se rav = g_partial_unfold B t m sb 0 rav) /\
  ((se < 0)%Z -> g_partial_tensor_to_vec B t sb se = g_partial_tensor_to_vec B t sb 0) /\
  g_partial_fold B t m s sb se = g_partial_fold B t m s sb se'.
Proof.
  intros T B t m sb se rav s se'.
  exact (conj (g_partial_unfold_negative_skip_end B t m sb se rav)
        (conj (g_partial_tensor_to_vec_negative_skip_end B t sb se) (g_partial_fold_ignores_skip_end B t m s sb se se'))).
Qed.
Print Assumptions C01_g_negative_skip_end.

Example C01_negative_skip_begin_is_garbage_in :
  let t := mk [2;3;4] (seq 0 24) in
  exists u, g_partial_unfold (plain 0) t 0 (-1) 0 false = Ok u /\ shape u = [4;6] /\
            g_partial_fold (plain 0) u 0 [2%Z;3%Z;4%Z] (-1) 0 <> Ok t /\
            g_partial_unfold (plain 0) t 0 0 (-1) false = g_partial_unfold (plain 0) t 0 0 0 false.
Proof. cbv zeta. eexists. split; [vm_compute; reflexivity|]. split; [reflexivity|]. split; [vm_compute; discriminate | vm_compute; reflexivity]. Qed.

Example C01_nonvacuous_typed :
  let a := mkarr 5 (mk [2;3] (seq 0 6)) in
  wf (arr a) /\
  g_unfold (typed 0 nat) a (-1) = Ok (mkarr 5 (mk [3;2] [0;3;1;4;2;5])) /\
  g_partial_unfold (typed 0 nat) (mkarr 5 (mk [2;3;2;2] (seq 0 24))) 1 1 1 true
    = Ok (mkarr 5 (mk [2;6;2] [0;1;4;5;8;9;2;3;6;7;10;11;12;13;16;17;20;21;14;15;18;19;22;23])) /\
  g_matricize (typed 0 nat) a (PSeq [1%Z]) None = Ok (mkarr 5 (mk [3;2] [0;3;1;4;2;5])) /\
  g_matricize (typed 0 nat) a (PSeq [(-1)%Z]) (Some (PInt 0%Z)) = Err /\
  g_matricize (typed 0 nat) a (PInt 1%Z) (Some (PInt 0%Z)) = Ok (mkarr 5 (mk [3;2] [0;3;1;4;2;5])) /\
  g_fold (typed 0 nat) (mkarr 5 (mk [3;2] [0;3;1;4;2;5])) (-1) [2%Z;3%Z] = Ok a /\
  g_moveaxis_generic (typed 0 nat) a (-1) 0 = Ok (mkarr 5 (mk [3;2] [0;3;1;4;2;5])) /\
  g_moveaxis_generic (typed 0 nat) a 0 5 = Ok (mkarr 5 (mk [3;2] [0;3;1;4;2;5])) /\
  g_moveaxis_generic (typed 0 nat) a 2 0 = Err.
Proof. cbv zeta. unfold wf. cbn [arr shape data]. repeat split; vm_compute; reflexivity. Qed.

(* ---------- THE LAYOUT CONVENTION PINNED BY A CONSUMER (read-only import of C02's Model/Tenalg.v: matmul, bsum, mode_dot).
   core_tenalg.mode_dot computes fold(dot(M, unfold(T, mode)), mode, new_shape).  Made of the statement-level g_unfold / g_fold on
   the NumPy backend, for EVERY signed mode z in range (k its normalisation) and every ring-like carrier: the composition
   succeeds, is the very tensor C02's mode_dot returns, and its entries are the n-mode product
   R[.., j, ..] = sum_i M[j, i] * T[.., i, ..] - true only because the columns unfold writes are the columns fold reads. *)
Theorem C01_mode_dot_is_fold_matmul_unfold : forall (F : Type) (Op : rops F) (T M : tensor F) (z : Z) (k a b : nat),
  wf T -> wf M -> norm_axis (ndim T) z = Some k -> 0 < prod (shape T) ->
  shape M = [a; b] -> b = nth k (shape T) 0 -> 0 < a ->
  exists U R,
    g_unfold (plain (r0 Op)) T z = Ok U /\
    g_fold (plain (r0 Op)) (matmul Op M U) z (map Z.of_nat (set_nth k a (shape T))) = Ok R /\
    mode_dot Op T M k false = Ok R /\
    wf R /\ shape R = set_nth k a (shape T) /\
    forall idx, inb (shape R) idx ->
      get (r0 Op) R idx = bsum Op (nth k (shape T) 0) (fun i => rmul Op (get (r0 Op) M [nth k idx 0; i]) (get (r0 Op) T (set_nth k i idx))).
Proof. exact @mode_dot_is_fold_matmul_unfold. Qed.
Print Assumptions C01_mode_dot_is_fold_matmul_unfold.

Example C01_mode_dot_nonvacuous :
  let T := mk [2; 3; 2] (map Z.of_nat (seq 0 12)) in
  let M := mk [2; 3] [1; 0; 2; 0; 1; 1]%Z in
  norm_axis (ndim T) (-2)%Z = Some 1 /\ wf T /\ wf M /\ 0 < prod (shape T) /\
  rbind (g_unfold (plain (r0 ZR)) T (-2)%Z) (fun U => g_fold (plain (r0 ZR)) (matmul ZR M U) (-2)%Z [2; 2; 2]%Z)
    = Ok (mk [2; 2; 2] [8; 11; 6; 8; 26; 29; 18; 20]%Z).
Proof. exact mode_dot_is_fold_matmul_unfold_nonvacuous. Qed.

(* ---------- THE BACKEND CALLS AS THE NUMPY BACKEND RESOLVES THEM (Model/BasePyNp.v; numpy_backend.py registers numpy's own
   reshape / moveaxis / transpose / shape - the harness records on every run that they ARE numpy's function objects).
   tl.reshape with an int: succeeds iff the int is negative (the inferred dimension) or the number of entries, and is then
   tensor_to_vec; tl.transpose with axes=None: never rejected, reverses the axes, entry formula, an involution. *)
Theorem C01_np_reshape_int_ok_iff : forall (A : Type) (d : A) (t : tensor A) (z : Z),
  (exists u, np_reshape d t (SInt z) = Ok u) <-> (z < 0 \/ z = Z.of_nat (prod (shape t)))%Z.
Proof. exact @np_reshape_int_ok_iff. Qed.
Print Assumptions C01_np_reshape_int_ok_iff.

Theorem C01_np_reshape_int_is_vec : forall (A : Type) (d : A) (t : tensor A),
  np_reshape d t (SInt (-1)%Z) = g_tensor_to_vec (plain d) t /\
  np_reshape d t (SInt (Z.of_nat (prod (shape t)))) = tensor_to_vec t /\
  (forall l, np_reshape d t (SSeq l) = g_vec_to_tensor (plain d) t l).
Proof. intros A d t. exact (conj (np_reshape_int_minus_one d t) (conj (np_reshape_int_size d t) (np_reshape_seq_is_vec_to_tensor d t))). Qed.
Print Assumptions C01_np_reshape_int_is_vec.

Theorem C01_np_transpose_none : forall (A : Type) (d : A) (t : tensor A),
  np_transpose_opt d t None = Ok (transpose d (rev (seq 0 (ndim t))) t).
Proof. exact @np_transpose_none. Qed.
Print Assumptions C01_np_transpose_none.

Theorem C01_np_transpose_none_layout : forall (A : Type) (d : A) (t u : tensor A) (idx : list nat),
  wf t -> np_transpose_opt d t None = Ok u -> inb (shape t) idx ->
  shape u = rev (shape t) /\ get d u (rev idx) = get d t idx.
Proof. exact @np_transpose_none_layout. Qed.
Print Assumptions C01_np_transpose_none_layout.

Theorem C01_np_transpose_none_involution : forall (A : Type) (d : A) (t : tensor A), wf t ->
  rbind (np_transpose_opt d t None) (fun u => np_transpose_opt d u None) = Ok t.
Proof. exact @np_transpose_none_involution. Qed.
Print Assumptions C01_np_transpose_none_involution.

Example C01_np_nonvacuous :
  let t := mk [2; 3] (seq 0 6) in
  wf t /\ np_transpose_opt 0 t None = Ok (mk [3; 2] [0; 3; 1; 4; 2; 5]) /\
  np_reshape 0 t (SInt 6%Z) = Ok (mk [6] (seq 0 6)) /\ np_reshape 0 t (SInt 5%Z) = Err /\
  np_reshape 0 t (SInt (-3)%Z) = Ok (mk [6] (seq 0 6)) /\ np_shape 0 t = [2%Z; 3%Z] /\ np_ndim 0 t = 2%Z.
Proof. cbv zeta. unfold wf. cbn [shape data]. repeat split; vm_compute; reflexivity. Qed.

(* the two list comprehensions of partial_unfold are slices of the shape on the documented ranges (every backend): the lemma
   behind the refactoring  new_shape = list(tensor.shape[:skip_begin]) + new_shape / new_shape += list(tensor.shape[-skip_end:]),
   which the ast translator accepts (py_slice); outside these ranges (negative or too large skips) the two differ *)
Theorem C01_shape_comprehensions_are_slices : forall (T : Type) (B : backend T) (t : T) (sb se : nat),
  (sb <= length (b_shape B t) ->
   rmapM (fun i => py_getitem (py_shape B t) i) (py_range1 (Z.of_nat sb)) = Ok (py_slice (py_shape B t) None (Some (Z.of_nat sb)))) /\
  (0 < se <= length (b_shape B t) ->
   rmapM (fun i => py_getitem (py_shape B t) (- i)%Z) (py_range3 (Z.of_nat se) 0%Z (-1)%Z) = Ok (py_slice (py_shape B t) (Some (- Z.of_nat se)%Z) None)).
Proof. exact @shape_comprehensions_are_slices. Qed.
Print Assumptions C01_shape_comprehensions_are_slices.

Example C01_slices_nonvacuous :
  py_slice [2; 3; 4; 5]%Z None (Some 2%Z) = [2; 3]%Z /\ py_slice [2; 3; 4; 5]%Z (Some (-1)%Z) None = [5]%Z /\
  py_slice [2; 3; 4; 5]%Z None (Some (-1)%Z) = [2; 3; 4]%Z /\ py_slice [2; 3; 4; 5]%Z (Some 7%Z) None = [].
Proof. repeat split. Qed.

(* unfold IS the matricization with the single row mode m and the default (ascending) columns - for every tensor whose mode m
   exists and is non-empty (an empty mode is where they differ: NumPy's reshape(-1) makes unfold reject, matricize never
   uses -1); at statement level on the NumPy backend also with the bare int the source accepts *)
Theorem C01_unfold_is_matricize : forall (A : Type) (d : A) (t : tensor A) (m : nat),
  m < ndim t -> nth m (shape t) 0 <> 0 ->
  unfold d t m = matricize d t [m] None /\
  g_unfold (plain d) t (Z.of_nat m) = g_matricize (plain d) t (PInt (Z.of_nat m)) None /\
  g_unfold (plain d) t (Z.of_nat m) = g_matricize (plain d) t (PSeq [Z.of_nat m]) None.
Proof. intros A d t m Hm Hn. exact (conj (unfold_is_matricize d t m Hm Hn) (g_unfold_is_g_matricize d t m Hm Hn)). Qed.
Print Assumptions C01_unfold_is_matricize.

Example C01_unfold_is_matricize_nonvacuous :
  let t := mk [2; 3; 2] (seq 0 12) in
  1 < ndim t /\ nth 1 (shape t) 0 <> 0 /\ unfold 0 t 1 = Ok (mk [3; 4] [0; 1; 6; 7; 2; 3; 8; 9; 4; 5; 10; 11]) /\
  unfold 0 (mk [0; 3] []) 0 = Err /\ matricize 0 (mk [0; 3] []) [0] None = Ok (mk [0; 3] []).
Proof. cbv zeta. split; [cbn; repeat constructor|]. split; [cbn; discriminate|]. repeat split; vm_compute; reflexivity. Qed.

(* ---------- injectivity (round 9): the index bijections lose nothing -- two well-formed tensors of ONE shape with the same
   mode-m unfolding, or the same vectorisation, are the same tensor.  The shape hypothesis is necessary: the Example shows two
   different tensors (shapes [2;3;2] and [2;2;3]) whose mode-0 unfoldings and vectorisations coincide. ---------- *)
Theorem C01_unfold_injective : forall (A : Type) (d : A) (t t' : tensor A) (m : nat) (u : tensor A),
  wf t -> wf t' -> shape t = shape t' -> m < ndim t -> nth m (shape t) 0 <> 0 ->
  unfold d t m = Ok u -> unfold d t' m = Ok u -> t = t'.
Proof. exact @unfold_injective. Qed.
Print Assumptions C01_unfold_injective.

Theorem C01_vec_injective : forall (A : Type) (t t' v : tensor A),
  wf t -> wf t' -> shape t = shape t' ->
  tensor_to_vec t = Ok v -> tensor_to_vec t' = Ok v -> t = t'.
Proof. exact @vec_injective. Qed.
Print Assumptions C01_vec_injective.

Example C01_unfold_injective_nonvacuous :
  let t := mk [2; 3; 2] (seq 0 12) in let t' := mk [2; 2; 3] (seq 0 12) in
  wf t /\ wf t' /\ 0 < ndim t /\ nth 0 (shape t) 0 <> 0 /\
  unfold 0 t 0 = Ok (mk [2; 6] (seq 0 12)) /\ unfold 0 t' 0 = unfold 0 t 0 /\ t <> t' /\
  tensor_to_vec t = Ok (mk [12] (seq 0 12)) /\ tensor_to_vec t' = tensor_to_vec t.
Proof. cbv zeta. repeat split; try (vm_compute; reflexivity); try (vm_compute; repeat constructor); try discriminate. Qed.

Theorem C01_partial_unfold_injective : forall (A : Type) (d : A) (t t' u : tensor A) (m sb se : nat) (rav : bool),
  wf t -> wf t' -> shape t = shape t' ->
  partial_unfold d t m sb se rav = Ok u -> partial_unfold d t' m sb se rav = Ok u -> t = t'.
Proof. exact @partial_unfold_injective. Qed.
Print Assumptions C01_partial_unfold_injective.

Theorem C01_partial_vec_injective : forall (A : Type) (d : A) (t t' u : tensor A) (sb se : nat),
  wf t -> wf t' -> shape t = shape t' ->
  partial_tensor_to_vec d t sb se = Ok u -> partial_tensor_to_vec d t' sb se = Ok u -> t = t'.
Proof. exact @partial_vec_injective. Qed.
Print Assumptions C01_partial_vec_injective.

Theorem C01_matricize_injective : forall (A : Type) (d : A) (t t' u : tensor A) (rows : list nat) (cols : option (list nat)),
  wf t -> wf t' -> shape t = shape t' ->
  matricize d t rows cols = Ok u -> matricize d t' rows cols = Ok u -> t = t'.
Proof. exact @matricize_injective. Qed.
Print Assumptions C01_matricize_injective.

Example C01_partial_matricize_injective_nonvacuous :
  let t := mk [2; 3; 2] (seq 0 12) in
  wf t /\ partial_unfold 0 t 0 1 0 false = Ok (mk [2; 3; 2] (seq 0 12)) /\
  partial_tensor_to_vec 0 t 1 0 = Ok (mk [2; 6] (seq 0 12)) /\
  matricize 0 t [1] None = Ok (mk [3; 4] [0; 1; 6; 7; 2; 3; 8; 9; 4; 5; 10; 11]).
Proof. cbv zeta. repeat split; try (vm_compute; reflexivity); try (vm_compute; repeat constructor). Qed.

(* second direction: the folding functions are injective on matrices / vectors of the shape they accept *)
Theorem C01_fold_injective : forall (A : Type) (d : A) (u u' t : tensor A) (m : nat) (s : list nat),
  wf u -> wf u' -> m < length s -> nth m s 0 <> 0 ->
  shape u = [nth m s 0; prod (remove_nth m s)] -> shape u' = [nth m s 0; prod (remove_nth m s)] ->
  fold d u m s = Ok t -> fold d u' m s = Ok t -> u = u'.
Proof. exact @fold_injective. Qed.
Print Assumptions C01_fold_injective.

Theorem C01_vec_to_tensor_injective : forall (A : Type) (v v' t : tensor A) (s : list nat),
  shape v = [prod s] -> shape v' = [prod s] ->
  vec_to_tensor v s = Ok t -> vec_to_tensor v' s = Ok t -> v = v'.
Proof. exact @vec_to_tensor_injective. Qed.
Print Assumptions C01_vec_to_tensor_injective.

Theorem C01_partial_fold_injective : forall (A : Type) (d : A) (u u' t : tensor A) (m : nat) (s : list nat) (sb se : nat) (rav : bool),
  wf u -> wf u' -> sb + m + se < length s ->
  let mids := firstn (length s - sb - se) (skipn sb s) in
  let su := firstn sb s ++ (if rav then [nth m mids 0 * prod (remove_nth m mids)]
                            else [nth m mids 0; prod (remove_nth m mids)]) ++ lastn se s in
  shape u = su -> shape u' = su ->
  prod (firstn sb s) * (if rav then 1 else nth (m + sb) s 0) * prod (lastn se s) <> 0 ->
  partial_fold d u m s sb se = Ok t -> partial_fold d u' m s sb se = Ok t -> u = u'.
Proof. exact @partial_fold_injective. Qed.
Print Assumptions C01_partial_fold_injective.

Example C01_fold_injective_nonvacuous :
  let u := mk [3; 4] (seq 0 12) in let s := [2; 3; 2] in
  wf u /\ 1 < length s /\ nth 1 s 0 <> 0 /\ shape u = [nth 1 s 0; prod (remove_nth 1 s)] /\
  fold 0 u 1 s = Ok (mk [2; 3; 2] [0; 1; 4; 5; 8; 9; 2; 3; 6; 7; 10; 11]) /\
  vec_to_tensor (mk [6] (seq 0 6)) [2; 3] = Ok (mk [2; 3] (seq 0 6)).
Proof. cbv zeta. repeat split; try (vm_compute; reflexivity); try (vm_compute; repeat constructor); try discriminate. Qed.

(* surjectivity: with the injectivity theorems above, unfold(., m) is a BIJECTION between the well-formed tensors of shape s and the
   well-formed matrices of shape [s_m; prod (s without m)], and tensor_to_vec one onto the vectors of length prod s *)
Theorem C01_unfold_surjective : forall (A : Type) (d : A) (u : tensor A) (m : nat) (s : list nat),
  wf u -> m < length s -> nth m s 0 <> 0 -> shape u = [nth m s 0; prod (remove_nth m s)] ->
  exists t, fold d u m s = Ok t /\ unfold d t m = Ok u.
Proof. exact @unfold_surjective. Qed.
Print Assumptions C01_unfold_surjective.

Theorem C01_vec_surjective : forall (A : Type) (v : tensor A) (s : list nat),
  shape v = [prod s] -> exists t, vec_to_tensor v s = Ok t /\ tensor_to_vec t = Ok v.
Proof. exact @vec_surjective. Qed.
Print Assumptions C01_vec_surjective.

(* the backend primitives (model of np.transpose / np.moveaxis) are injective on the tensors whose axes they accept *)
Theorem C01_transpose_injective : forall (A : Type) (d : A) (t t' : tensor A) (p : list nat),
  wf t -> wf t' -> is_permb (ndim t) p = true -> is_permb (ndim t') p = true ->
  transpose d p t = transpose d p t' -> t = t'.
Proof. exact @transpose_injective. Qed.
Print Assumptions C01_transpose_injective.

Theorem C01_moveaxis_injective : forall (A : Type) (d : A) (t t' : tensor A) (a b : nat),
  wf t -> wf t' -> a < ndim t -> b < ndim t -> a < ndim t' -> b < ndim t' ->
  moveaxis d t a b = moveaxis d t' a b -> t = t'.
Proof. exact @moveaxis_injective. Qed.
Print Assumptions C01_moveaxis_injective.
