(* C01 -- property theorems only. Statements are about the model of tensorly/base.py
   (Model/Base.v), for every element type A, every shape with non-empty index space,
   every mode. *)
From Coq Require Import List Arith Permutation.
From Coq Require Import Sorted.
From TLV Require Import Base.Shape Base.PyList Base.Tensor Model.Base Proofs.BaseProofs Proofs.BaseProofs2.
Import ListNotations.

Theorem C01_fold_unfold : forall (A : Type) (d : A) (t : tensor A) (m : nat),
  wf t -> m < ndim t -> 0 < prod (shape t) ->
  rbind (unfold d t m) (fun u => fold d u m (shape t)) = Ok t.
Proof. exact @fold_unfold. Qed.
Print Assumptions C01_fold_unfold.

Theorem C01_unfold_layout : forall (A : Type) (d : A) (t : tensor A) (m : nat) (u : tensor A) (idx : list nat),
  wf t -> m < ndim t -> 0 < prod (shape t) -> unfold d t m = Ok u -> inb (shape t) idx ->
  shape u = [nth m (shape t) 0; prod (remove_nth m (shape t))] /\
  get d u [nth m idx 0; ravel (remove_nth m (shape t)) (remove_nth m idx)] = get d t idx.
Proof. exact @unfold_layout. Qed.
Print Assumptions C01_unfold_layout.

Theorem C01_unfold_Permutation : forall (A : Type) (d : A) (t : tensor A) (m : nat) (u : tensor A),
  wf t -> m < ndim t -> 0 < prod (shape t) -> unfold d t m = Ok u -> Permutation (data u) (data t).
Proof. exact @unfold_Permutation. Qed.
Print Assumptions C01_unfold_Permutation.

Theorem C01_moveaxis_roundtrip : forall (A : Type) (d : A) (t : tensor A) (a b : nat),
  wf t -> a < ndim t -> b < ndim t -> moveaxis d (moveaxis d t a b) b a = t.
Proof. exact @moveaxis_roundtrip. Qed.
Print Assumptions C01_moveaxis_roundtrip.

Theorem C01_vec_roundtrip : forall (A : Type) (t : tensor A),
  wf t -> rbind (tensor_to_vec t) (fun v => vec_to_tensor v (shape t)) = Ok t.
Proof. exact @vec_roundtrip. Qed.
Print Assumptions C01_vec_roundtrip.

Theorem C01_vec_layout : forall (A : Type) (d : A) (t v : tensor A) (idx : list nat),
  wf t -> tensor_to_vec t = Ok v -> inb (shape t) idx ->
  shape v = [prod (shape t)] /\ get d v [ravel (shape t) idx] = get d t idx /\ data v = data t.
Proof. exact @vec_layout. Qed.
Print Assumptions C01_vec_layout.

(* partial_unfold / partial_fold / partial_tensor_to_vec / partial_vec_to_tensor *)
Theorem C01_partial_fold_unfold : forall (A : Type) (d : A) (t u : tensor A) (m sb se : nat) (rav : bool),
  wf t -> partial_unfold d t m sb se rav = Ok u -> partial_fold d u m (shape t) sb se = Ok t.
Proof. exact @partial_fold_unfold. Qed.
Print Assumptions C01_partial_fold_unfold.

Theorem C01_partial_unfold_succeeds : forall (A : Type) (d : A) (t : tensor A) (m sb se : nat) (rav : bool),
  wf t -> 0 < prod (shape t) -> sb + m + se < ndim t -> exists u, partial_unfold d t m sb se rav = Ok u.
Proof. exact @partial_unfold_succeeds. Qed.
Print Assumptions C01_partial_unfold_succeeds.

Theorem C01_partial_unfold_Permutation : forall (A : Type) (d : A) (t u : tensor A) (m sb se : nat) (rav : bool),
  wf t -> partial_unfold d t m sb se rav = Ok u -> Permutation (data u) (data t).
Proof. exact @partial_unfold_Permutation. Qed.
Print Assumptions C01_partial_unfold_Permutation.

Theorem C01_partial_vec_roundtrip : forall (A : Type) (d : A) (t u : tensor A) (sb se : nat),
  wf t -> partial_tensor_to_vec d t sb se = Ok u -> partial_vec_to_tensor d u (shape t) sb se = Ok t.
Proof. exact @partial_vec_roundtrip. Qed.
Print Assumptions C01_partial_vec_roundtrip.

(* matricize *)
Theorem C01_matricize_layout : forall (A : Type) (d : A) (t u : tensor A) (rows cols idx : list nat),
  wf t -> matricize d t rows (Some cols) = Ok u -> inb (shape t) idx ->
  shape u = [prod (permute 0 rows (shape t)); prod (permute 0 cols (shape t))] /\
  get d u [ravel (permute 0 rows (shape t)) (permute 0 rows idx); ravel (permute 0 cols (shape t)) (permute 0 cols idx)]
  = get d t idx.
Proof. exact @matricize_layout. Qed.
Print Assumptions C01_matricize_layout.

Theorem C01_matricize_Permutation : forall (A : Type) (d : A) (t u : tensor A) (rows : list nat) (cols : option (list nat)),
  wf t -> matricize d t rows cols = Ok u -> Permutation (data u) (data t).
Proof. exact @matricize_Permutation. Qed.
Print Assumptions C01_matricize_Permutation.

Theorem C01_matricize_default : forall (A : Type) (d : A) (t : tensor A) (rows : list nat),
  matricize d t rows None = matricize d t rows (Some (complement (ndim t) rows)) /\
  StronglySorted lt (complement (ndim t) rows) /\
  (forall k, In k (complement (ndim t) rows) <-> k < ndim t /\ ~ In k rows).
Proof. exact @matricize_default. Qed.
Print Assumptions C01_matricize_default.

Theorem C01_matricize_reject : forall (A : Type) (d : A) (t : tensor A) (rows cols : list nat),
  ~ (length (rows ++ cols) = ndim t /\ NoDup (rows ++ cols) /\ (forall k, In k (rows ++ cols) -> k < ndim t)) ->
  matricize d t rows (Some cols) = Err.
Proof. exact @matricize_reject. Qed.
Print Assumptions C01_matricize_reject.

Theorem C01_transpose_Permutation : forall (A : Type) (d : A) (t : tensor A) (p : list nat),
  wf t -> is_permb (ndim t) p = true -> Permutation (data (transpose d p t)) (data t).
Proof. exact @transpose_Permutation. Qed.
Print Assumptions C01_transpose_Permutation.

Example C01_nonvacuous_partial :
  let t := mk [2;3;2;2] (seq 0 24) in
  wf t /\ 1 + 1 + 1 < ndim t /\
  partial_unfold 0 t 1 1 1 false = Ok (mk [2;2;3;2] [0;1;4;5;8;9;2;3;6;7;10;11;12;13;16;17;20;21;14;15;18;19;22;23]) /\
  matricize 0 t [2;0] (Some [3;1]) = Ok (mk [4;6] [0;4;8;1;5;9;12;16;20;13;17;21;2;6;10;3;7;11;14;18;22;15;19;23]).
Proof. cbv zeta. unfold wf, ndim. cbn [shape data]. repeat split; try (vm_compute; reflexivity); vm_compute; auto with arith. Qed.

(* non-vacuity: a 3x1x2x2 tensor meets the hypotheses and the model computes on it *)
Example C01_nonvacuous :
  let t := mk [3;1;2;2] (seq 0 12) in
  wf t /\ 2 < ndim t /\ 0 < prod (shape t) /\
  unfold 0 t 2 = Ok (mk [2;6] [0;1;4;5;8;9;2;3;6;7;10;11]).
Proof. cbv zeta. unfold wf, ndim. cbn [shape data]. repeat split; try (vm_compute; reflexivity); vm_compute; auto with arith. Qed.
