(* C02 -- property theorems only.  Statements are about the model of tensorly/tenalg (Model/Tenalg.v),
   for EVERY carrier F with a record of operations Op satisfying the commutative-ring laws (so in
   particular for the executed instances ZR = Z and GR = Z[i], and for R, C), every order, shape with
   non-empty index space, mode and option combination.  Spec-side vocabulary (Proofs/TenalgProofs*.v):
   mentry M tr j i = M[j,i] or conj(M[i,j]) under transpose;  kr_entry Ms is r = prod_k Ms_k[is_k, r];
   kron_entry Ms is js = prod_k Ms_k[is_k, js_k];  wv w r / maskv m row = the weight / mask entry (1 if absent);
   mats R Ms = all matrices well-formed with R columns;  bsum / ssum = finite sums over a range / an index space. *)
From Coq Require Import List Arith ZArith Ring_theory.
From TLV Require Import Base.Shape Base.PyList Base.Tensor Base.BigSum Model.Base Model.Tenalg
  Proofs.TenalgProofs Proofs.TenalgProofsKR Proofs.TenalgProofsEinsum Proofs.TenalgProofsInner.
Import ListNotations.

Definition ring_of {F} (Op : rops F) := ring_theory (r0 Op) (r1 Op) (radd Op) (rmul Op) (rsub Op) (ropp Op) (@eq F).

(* the executed carriers satisfy the hypotheses of every theorem below *)
Theorem C02_instances_are_rings : ring_laws ZR /\ ring_laws GR /\ conj_laws ZR /\ conj_laws GR.
Proof. exact (conj ZR_ring (conj GR_ring (conj ZR_conj GR_conj))). Qed.
Print Assumptions C02_instances_are_rings.

(* (T x_k M)[.., j, ..] = sum_i M[j,i] * T[.., i, ..]   (conjugate transpose under transpose=True) *)
Theorem C02_mode_dot_core : forall (F : Type) (Op : rops F) (T M : tensor F) (k : nat) (tr : bool) (a b : nat),
  wf T -> wf M -> k < ndim T -> 0 < prod (shape T) -> shape M = [a; b] ->
  (if tr then a else b) = nth k (shape T) 0 -> 0 < (if tr then b else a) ->
  exists R, mode_dot Op T M k tr = Ok R /\ wf R /\
    shape R = set_nth k (if tr then b else a) (shape T) /\
    forall idx, inb (shape R) idx ->
      get (r0 Op) R idx =
      bsum Op (nth k (shape T) 0) (fun i => rmul Op (mentry Op M tr (nth k idx 0) i) (get (r0 Op) T (set_nth k i idx))).
Proof. exact @mode_dot_matrix_spec. Qed.
Print Assumptions C02_mode_dot_core.

(* (T x_k v)[idx without mode k] = sum_i v[i] * T[.., i, ..] *)
Theorem C02_mode_dot_core_vector : forall (F : Type) (Op : rops F) (T v : tensor F) (k : nat) (tr : bool) (n : nat),
  wf T -> k < ndim T -> 0 < prod (shape T) -> shape v = [n] -> n = nth k (shape T) 0 ->
  exists R, mode_dot Op T v k tr = Ok R /\ wf R /\ shape R = remove_nth k (shape T) /\
    forall ridx, inb (shape R) ridx ->
      get (r0 Op) R ridx = bsum Op n (fun i => rmul Op (get (r0 Op) v [i]) (get (r0 Op) T (insert_at k i ridx))).
Proof. exact @mode_dot_vector_spec. Qed.
Print Assumptions C02_mode_dot_core_vector.

(* the equation built by einsum_tenalg.mode_dot, under the generic einsum semantics, is the same formula *)
Theorem C02_mode_dot_einsum : forall (F : Type) (Op : rops F), ring_of Op ->
  forall (T M : tensor F) (k : nat) (tr : bool) (a b : nat),
  wf T -> wf M -> k < ndim T -> 0 < prod (shape T) -> shape M = [a; b] ->
  (if tr then a else b) = nth k (shape T) 0 -> 0 < (if tr then b else a) ->
  exists R, mode_dot_e Op T M k tr = Ok R /\ wf R /\
    shape R = set_nth k (if tr then b else a) (shape T) /\
    forall idx, inb (shape R) idx ->
      get (r0 Op) R idx =
      bsum Op (nth k (shape T) 0) (fun i => rmul Op (mentry Op M tr (nth k idx 0) i) (get (r0 Op) T (set_nth k i idx))).
Proof. exact @mode_dot_e_matrix_spec. Qed.
Print Assumptions C02_mode_dot_einsum.

Corollary C02_mode_dot_backends_agree : forall (F : Type) (Op : rops F), ring_of Op ->
  forall (T M : tensor F) (k : nat) (tr : bool) (a b : nat),
  wf T -> wf M -> k < ndim T -> 0 < prod (shape T) -> shape M = [a; b] ->
  (if tr then a else b) = nth k (shape T) 0 -> 0 < (if tr then b else a) ->
  mode_dot Op T M k tr = mode_dot_e Op T M k tr.
Proof. exact @mode_dot_backends_agree. Qed.
Print Assumptions C02_mode_dot_backends_agree.

(* KR[(i_1..i_n), r] = prod_k A_k[i_k, r] * w_r * mask[(i_1..i_n)], any number of matrices (also a single one), any skip *)
Theorem C02_khatri_rao_core : forall (F : Type) (Op : rops F), ring_of Op ->
  forall (Ms : list (tensor F)) (w mask : option (tensor F)) (skip : option nat) (R : nat),
  let Ms' := skipl skip Ms in
  Ms' <> [] -> mats R Ms' ->
  exists K, khatri_rao Op Ms w mask skip = Ok K /\ wf K /\ shape K = [prod (map nrows Ms'); R] /\
    forall is_ r, inb (map nrows Ms') is_ -> r < R ->
      get (r0 Op) K [ravel (map nrows Ms') is_; r]
      = rmul Op (rmul Op (kr_entry Op Ms' is_ r) (wv Op w r)) (maskv Op mask (ravel (map nrows Ms') is_)).
Proof. exact @khatri_rao_spec. Qed.
Print Assumptions C02_khatri_rao_core.

(* KRON[(i_1..i_n), (j_1..j_n)] = prod_k A_k[i_k, j_k], any number of matrices, skip, reverse *)
Theorem C02_kronecker_core : forall (F : Type) (Op : rops F), ring_of Op ->
  forall (Ms : list (tensor F)) (skip : option nat) (reverse : bool),
  let l := if reverse then rev (skipl skip Ms) else skipl skip Ms in
  l <> [] -> kmats l ->
  exists K, kronecker Op Ms skip reverse = Ok K /\ wf K /\ shape K = [prod (map nrows l); prod (map ncols l)] /\
    forall is_ js, inb (map nrows l) is_ -> inb (map ncols l) js ->
      get (r0 Op) K [ravel (map nrows l) is_; ravel (map ncols l) js] = kron_entry Op l is_ js.
Proof. exact @kronecker_spec. Qed.
Print Assumptions C02_kronecker_core.

(* MTTKRP_k[i, r] = sum over the indices of the other modes of T[.., i, ..] * conj(w_r * prod_{l<>k} A_l[idx_l, r]) *)
Theorem C02_mttkrp_core : forall (F : Type) (Op : rops F), ring_of Op ->
  forall (T : tensor F) (w : option (tensor F)) (fs : list (tensor F)) (k R : nat),
  wf T -> k < ndim T -> 0 < prod (shape T) -> 0 < R ->
  map nrows fs = shape T -> mats R fs -> 2 <= ndim T ->
  exists Mt, mttkrp Op T w fs k = Ok Mt /\ wf Mt /\ shape Mt = [nth k (shape T) 0; R] /\
    forall i r, i < nth k (shape T) 0 -> r < R ->
      get (r0 Op) Mt [i; r] =
      ssum Op (remove_nth k (shape T))
        (fun ridx => rmul Op (get (r0 Op) T (insert_at k i ridx))
                             (rconj Op (rmul Op (kr_entry Op (remove_nth k fs) ridx r) (wv Op w r)))).
Proof. exact @mttkrp_spec. Qed.
Print Assumptions C02_mttkrp_core.

(* inner(A, B, n)[a ++ b] = sum_c A[a ++ c] * B[c ++ b] over the n >= 0 common modes (core backend; n = 0 is the
   outer product -- repaired in /repo by f5f06aa, regression Example inner_zero_modes_regression in Proofs/TenalgProofsInner.v) *)
Theorem C02_inner_core : forall (F : Type) (Op : rops F) (A B : tensor F) (sa sc sb : list nat),
  wf A -> wf B -> shape A = sa ++ sc -> shape B = sc ++ sb ->
  0 < prod (shape A) -> 0 < prod (shape B) ->
  exists R, inner Op A B (Some (length sc)) = Ok R /\ wf R /\ shape R = sa ++ sb /\
    forall a b, inb sa a -> inb sb b ->
      get (r0 Op) R (a ++ b) = ssum Op sc (fun c => rmul Op (get (r0 Op) A (a ++ c)) (get (r0 Op) B (c ++ b))).
Proof. exact @inner_core_spec. Qed.
Print Assumptions C02_inner_core.

(* non-vacuity: the hypotheses are met by concrete Gaussian-integer operands and the model computes on them *)
Example C02_nonvacuous_mode_dot :
  let T : tensor GI := mk [2; 1; 2] [(1, 1); (0, 2); (-1, 0); (3, -1)]%Z in
  let M : tensor GI := mk [2; 3] [(1, 0); (0, 1); (2, 0); (0, -1); (1, 1); (0, 0)]%Z in
  wf T /\ wf M /\ 2 < ndim T /\ 0 < prod (shape T) /\ shape M = [2; 3] /\
  (if true then 2 else 3) = nth 2 (shape T) 0 /\
  mode_dot GR T M 2 true = mode_dot_e GR T M 2 true /\
  mode_dot GR T M 2 true = Ok (mk [2; 1; 3] [(-1, 1); (3, 1); (2, 2); (0, 3); (2, -3); (-2, 0)]%Z).
Proof. cbv zeta. unfold wf, ndim. cbn [shape data]. repeat split; try (vm_compute; reflexivity); vm_compute; auto with arith. Qed.

Example C02_nonvacuous_khatri_rao :
  let A : tensor Z := mk [2; 2] [1; 2; 3; 4]%Z in
  let B : tensor Z := mk [1; 2] [5; 6]%Z in
  let C : tensor Z := mk [2; 2] [1; 0; -1; 2]%Z in
  let w : tensor Z := mk [2] [2; 3]%Z in
  skipl (Some 1) [A; B; C] <> [] /\ mats 2 (skipl (Some 1) [A; B; C]) /\
  khatri_rao ZR [A; B; C] (Some w) None (Some 1) = Ok (mk [4; 2] [2; 0; -2; 12; 6; 0; -6; 24]%Z).
Proof.
  cbv zeta. split; [discriminate|]. split; [|vm_compute; reflexivity].
  repeat constructor.
Qed.
