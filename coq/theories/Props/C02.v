(* C02 -- property theorems only (statements about Model/Tenalg.v). *)
From Coq Require Import List Arith ZArith.
From TLV Require Import Base.Shape Base.PyList Base.Tensor Base.BigSum Model.Base Model.Tenalg Proofs.TenalgProofs.
Import ListNotations.

Theorem C02_instances_are_rings : ring_laws ZR /\ ring_laws GR /\ conj_laws ZR /\ conj_laws GR.
Proof. exact (conj ZR_ring (conj GR_ring (conj ZR_conj GR_conj))). Qed.
Print Assumptions C02_instances_are_rings.
