(* C02 -- property theorems only.  Statements are about the model of tensorly/tenalg (Model/Tenalg.v),
   for EVERY carrier F with a record of operations Op satisfying the commutative-ring laws (so in
   particular for the executed instances ZR = Z and GR = Z[i], and for R, C), every order, shape with
   non-empty index space, mode and option combination.  Spec-side vocabulary (Proofs/TenalgProofs*.v):
   mentry M tr j i = M[j,i] or conj(M[i,j]) under transpose;  kr_entry Ms is r = prod_k Ms_k[is_k, r];
   kron_entry Ms is js = prod_k Ms_k[is_k, js_k];  wv w r / maskv m row = the weight / mask entry (1 if absent);
   mats R Ms = all matrices well-formed with R columns;  bsum / ssum = finite sums over a range / an index space;
   outer_entry ts idxs = prod_k t_k[idx_k];  bouter_entry b ts idxs = prod_k t_k[b, idx_k];  batched nb t i = t has shape
   nb :: s and i is an index of s;  xprod T b idxs = prod_j T[b, idx_j];  tuple_at inds s = the s-th sampled index tuple;
   set_many ms is idx = idx with positions ms_j replaced by is_j;  operand_ok tr s x = triple x = (M, m, operand index) has
   m < len s, M a well-formed (J, s_m) matrix ((s_m, J) under transpose), J > 0;  outdim = J;
   mm_coef tr L is idx = prod_j M_j[idx_{m_j}, is_j] (conjugate transpose under tr);
   tensordot (Proofs/TenalgProofsTdotE.v): td_valid s1 s2 m1 m2 b1 b2 = both mode-list pairs pass the code's check (equal
   lengths, modes in range, equal sizes pairwise) and the modes named on each tensor are pairwise distinct;  free1 / free2 = the
   modes of tensor1 not contracted (batch modes included) / of tensor2 neither contracted nor batched, increasing;
   td_shape = their sizes;  td_ia c o / td_ib c o = the index of tensor1 / tensor2 (contracted pair k gets c_k, a free mode its
   entry of o, a batch mode of tensor2 the entry of its partner in tensor1);
   argument forms (Model/Tenalg.v): marg / mside = the Python forms of tensordot's modes / batched_modes (int, pair of ints or
   lists, flat list), py_index n z = Python indexing of a length-n sequence (negative from the end), validate_contraction =
   _validate_contraction_modes, tensordot_raw = tensordot as called;  mode_dot_z / mode_dot_e_z and multi_mode_dot_z /
   multi_mode_dot_e_z = the routines with modes as Python ints, as repaired by /repo 92eb2a5 (the *_before_92eb2a5
   definitions keep the old rules for the regression Examples);
   wvb / maskvb, w_okb / mask_okb = weights / mask with R (one per row) entries or a single broadcast entry;
   einsum_sizes_ok = np.einsum's rank / equal-size check (multi_mode_dot_e).
   Round 5 (55 statements): tensordot index formulas and core = einsum, multi_mode_dot core = einsum, validate_contraction,
   tensordot(modes=k) = inner(n_modes=k), broadcast weights; round 6: any Python mode for mode_dot / multi_mode_dot (full);
   round 8: modes=None as the literal range, all argument forms of _validate_contraction_modes, single weight in the memory MTTKRP,
   vocabulary of the core-backend source tie (Proofs/TenalgProofsSrc.v: fold_res, comp_skip, py_get, np_dot). *)
From Coq Require Import List Arith ZArith Ring_theory Permutation Lia Bool.
From TLV Require Import Base.Shape Base.PyList Base.Tensor Base.BigSum Model.Base Model.Tenalg
  Proofs.TenalgProofs Proofs.TenalgProofsKR Proofs.TenalgProofsEinsum Proofs.TenalgProofsInner
  Proofs.TenalgProofsOuter Proofs.TenalgProofsSample Proofs.TenalgProofsSort Proofs.TenalgProofsEinsumVec Proofs.TenalgProofsMulti Proofs.TenalgProofsEinsumInner
  Proofs.TenalgProofsEinsumMttkrp Proofs.TenalgProofsEinsumKR Proofs.TenalgProofsEinsumOuter Proofs.TenalgProofsMultiGen Proofs.TenalgProofsMultiGen2 Proofs.TenalgProofsMemory
  Proofs.TenalgProofsTdotE Proofs.TenalgProofsTdotC Proofs.TenalgProofsEinsumMulti Proofs.TenalgProofsValidate Proofs.TenalgProofsTdotInner Proofs.TenalgProofsKRBcast Proofs.TenalgProofsNegMode Proofs.TenalgProofsNegMulti Proofs.TenalgProofsReject Proofs.TenalgProofsRepeat Proofs.TenalgProofsEq Proofs.TenalgProofsAnyModes Proofs.TenalgProofsW1
  Proofs.TenalgProofsSrc Proofs.TenalgProofsDefault Proofs.TenalgProofsMemW1 Proofs.TenalgProofsTdotRepeat
  Model.TenalgRaw Proofs.TenalgProofsInnerRaw Proofs.TenalgProofsBcast Proofs.TenalgProofsSrcInner Proofs.TenalgProofsInnerTotal.
Import ListNotations.

Definition ring_of {F} (Op : rops F) := ring_theory (r0 Op) (r1 Op) (radd Op) (rmul Op) (rsub Op) (ropp Op) (@eq F).

(* the executed carriers satisfy the hypotheses of every theorem below *)
Theorem C02_instances_are_rings : ring_laws ZR /\ ring_laws GR /\ conj_laws ZR /\ conj_laws GR.
Proof. exact (conj ZR_ring (conj GR_ring (conj ZR_conj GR_conj))). Qed.
Print Assumptions C02_instances_are_rings.

(* (T x_k M)[.., j, ..] = sum_i M[j,i] * T[.., i, ..]   (conjugate transpose under transpose=True) *)
Theorem C02_mode_dot_core : forall (F : Type) (Op : rops F) (T M : tensor F) (k : nat) (tr : bool) (a b : nat),
  wf T -> wf M -> k < ndim T -> 0 < prod (shape T) -> shape M = [a; b] ->
  (if tr then a else b) = nth k (shape T) 0 -> 0 < (if tr then b else a) ->
  exists R, mode_dot Op T M k tr = Ok R /\ wf R /\
    shape R = set_nth k (if tr then b else a) (shape T) /\
    forall idx, inb (shape R) idx ->
      get (r0 Op) R idx =
      bsum Op (nth k (shape T) 0) (fun i => rmul Op (mentry Op M tr (nth k idx 0) i) (get (r0 Op) T (set_nth k i idx))).
Proof. exact @mode_dot_matrix_spec. Qed.
Print Assumptions C02_mode_dot_core.

(* (T x_k v)[idx without mode k] = sum_i v[i] * T[.., i, ..] *)
Theorem C02_mode_dot_core_vector : forall (F : Type) (Op : rops F) (T v : tensor F) (k : nat) (tr : bool) (n : nat),
  wf T -> k < ndim T -> 0 < prod (shape T) -> shape v = [n] -> n = nth k (shape T) 0 ->
  exists R, mode_dot Op T v k tr = Ok R /\ wf R /\ shape R = remove_nth k (shape T) /\
    forall ridx, inb (shape R) ridx ->
      get (r0 Op) R ridx = bsum Op n (fun i => rmul Op (get (r0 Op) v [i]) (get (r0 Op) T (insert_at k i ridx))).
Proof. exact @mode_dot_vector_spec. Qed.
Print Assumptions C02_mode_dot_core_vector.

(* the equation built by einsum_tenalg.mode_dot, under the generic einsum semantics, is the same formula *)
Theorem C02_mode_dot_einsum : forall (F : Type) (Op : rops F), ring_of Op ->
  forall (T M : tensor F) (k : nat) (tr : bool) (a b : nat),
  wf T -> wf M -> k < ndim T -> 0 < prod (shape T) -> shape M = [a; b] ->
  (if tr then a else b) = nth k (shape T) 0 -> 0 < (if tr then b else a) ->
  exists R, mode_dot_e Op T M k tr = Ok R /\ wf R /\
    shape R = set_nth k (if tr then b else a) (shape T) /\
    forall idx, inb (shape R) idx ->
      get (r0 Op) R idx =
      bsum Op (nth k (shape T) 0) (fun i => rmul Op (mentry Op M tr (nth k idx 0) i) (get (r0 Op) T (set_nth k i idx))).
Proof. exact @mode_dot_e_matrix_spec. Qed.
Print Assumptions C02_mode_dot_einsum.

Corollary C02_mode_dot_backends_agree : forall (F : Type) (Op : rops F), ring_of Op ->
  forall (T M : tensor F) (k : nat) (tr : bool) (a b : nat),
  wf T -> wf M -> k < ndim T -> 0 < prod (shape T) -> shape M = [a; b] ->
  (if tr then a else b) = nth k (shape T) 0 -> 0 < (if tr then b else a) ->
  mode_dot Op T M k tr = mode_dot_e Op T M k tr.
Proof. exact @mode_dot_backends_agree. Qed.
Print Assumptions C02_mode_dot_backends_agree.

(* mode given as a Python int z, -N <= z < N (py_index N z = Some k: negative modes count from the end): both backends compute
   the textbook product at the resolved mode k and agree (the einsum backend since /repo 92eb2a5; its old rule is the labelled
   regression Example C02_mode_dot_einsum_negative_mode_before_92eb2a5) - FULL *)
Theorem C02_mode_dot_core_any_mode : forall (F : Type) (Op : rops F) (T M : tensor F) (z : Z) (k : nat) (tr : bool) (a b : nat),
  py_index (ndim T) z = Some k ->
  wf T -> wf M -> 0 < prod (shape T) -> shape M = [a; b] ->
  (if tr then a else b) = nth k (shape T) 0 -> 0 < (if tr then b else a) ->
  exists R, mode_dot_z Op T M z tr = Ok R /\ wf R /\
    shape R = set_nth k (if tr then b else a) (shape T) /\
    forall idx, inb (shape R) idx ->
      get (r0 Op) R idx =
      bsum Op (nth k (shape T) 0) (fun i => rmul Op (mentry Op M tr (nth k idx 0) i) (get (r0 Op) T (set_nth k i idx))).
Proof. exact @mode_dot_z_matrix_spec. Qed.
Print Assumptions C02_mode_dot_core_any_mode.

Theorem C02_mode_dot_einsum_any_mode : forall (F : Type) (Op : rops F), ring_of Op ->
  forall (T M : tensor F) (z : Z) (k : nat) (tr : bool) (a b : nat),
  py_index (ndim T) z = Some k ->
  wf T -> wf M -> 0 < prod (shape T) -> shape M = [a; b] ->
  (if tr then a else b) = nth k (shape T) 0 -> 0 < (if tr then b else a) ->
  exists R, mode_dot_e_z Op T M z tr = Ok R /\ wf R /\
    shape R = set_nth k (if tr then b else a) (shape T) /\
    forall idx, inb (shape R) idx ->
      get (r0 Op) R idx =
      bsum Op (nth k (shape T) 0) (fun i => rmul Op (mentry Op M tr (nth k idx 0) i) (get (r0 Op) T (set_nth k i idx))).
Proof. exact @mode_dot_e_z_matrix_spec. Qed.
Print Assumptions C02_mode_dot_einsum_any_mode.

Theorem C02_mode_dot_core_vector_any_mode : forall (F : Type) (Op : rops F) (T v : tensor F) (z : Z) (k : nat) (tr : bool) (n : nat),
  py_index (ndim T) z = Some k -> k < ndim T ->
  wf T -> 0 < prod (shape T) -> shape v = [n] -> n = nth k (shape T) 0 ->
  exists R, mode_dot_z Op T v z tr = Ok R /\ wf R /\ shape R = remove_nth k (shape T) /\
    forall ridx, inb (shape R) ridx ->
      get (r0 Op) R ridx = bsum Op n (fun i => rmul Op (get (r0 Op) v [i]) (get (r0 Op) T (insert_at k i ridx))).
Proof. exact @mode_dot_z_vector_spec. Qed.
Print Assumptions C02_mode_dot_core_vector_any_mode.

Theorem C02_mode_dot_any_mode_backends_agree : forall (F : Type) (Op : rops F), ring_of Op ->
  forall (T M : tensor F) (z : Z) (k : nat) (tr : bool) (a b : nat),
  py_index (ndim T) z = Some k ->
  wf T -> wf M -> 0 < prod (shape T) -> shape M = [a; b] ->
  (if tr then a else b) = nth k (shape T) 0 -> 0 < (if tr then b else a) ->
  mode_dot_z Op T M z tr = mode_dot_e_z Op T M z tr.
Proof. exact @mode_dot_z_backends_agree. Qed.
Print Assumptions C02_mode_dot_any_mode_backends_agree.

Theorem C02_mode_dot_vector_any_mode_backends_agree : forall (F : Type) (Op : rops F), ring_of Op ->
  forall (T v : tensor F) (z : Z) (k : nat) (tr : bool) (n : nat),
  py_index (ndim T) z = Some k ->
  wf T -> 0 < prod (shape T) -> shape v = [n] -> n = nth k (shape T) 0 ->
  mode_dot_z Op T v z tr = mode_dot_e_z Op T v z tr.
Proof. exact @mode_dot_z_backends_agree_vector. Qed.
Print Assumptions C02_mode_dot_vector_any_mode_backends_agree.

Example C02_mode_dot_einsum_negative_mode_before_92eb2a5 :
  let T : tensor Z := mk [2; 2] [1; 2; 3; 4]%Z in let M : tensor Z := mk [1; 2] [1; 1]%Z in
  mode_dot_e_z_before_92eb2a5 ZR T M (-1)%Z false = Ok (mk [2; 2] [1; 2; 3; 4]%Z) /\
  mode_dot_e_z ZR T M (-1)%Z false = Ok (mk [2; 1] [3; 7]%Z) /\
  mode_dot_z ZR T M (-1)%Z false = Ok (mk [2; 1] [3; 7]%Z).
Proof. exact mode_dot_einsum_negative_mode_before_92eb2a5. Qed.

(* multi_mode_dot with the modes as Python ints (multi_mode_dot_z / multi_mode_dot_e_z: since /repo 92eb2a5 the modes are resolved
   before the sort; then sort by mode number and mode - decrement, resolved from the end when negative): for every list ms of
   valid Python modes with resolved values ks, distinct on the non-skipped operands, both backends compute what the
   non-negative-mode routines compute on ks (C02_multi_mode_dot_any_modes_resolved), hence the index formula of
   C02_multi_mode_dot_core and the same tensor under both backends (C02_multi_mode_dot_any_modes) - FULL.  The rule before
   92eb2a5 (sort by the raw numbers) is the labelled regression Example C02_multi_mode_dot_negative_modes_before_92eb2a5. *)
Theorem C02_multi_mode_dot_any_modes_resolved : forall (F : Type) (Op : rops F) (T : tensor F) (Ms : list (tensor F))
  (ms : list Z) (ks : list nat) (skip : option nat) (tr : bool),
  let L := filter (fun x => negb (is_skip skip (snd x))) (sort_by_mode (zip3 Ms (Some ks))) in
  Forall2 (fun z k => py_index (ndim T) z = Some k) ms ks -> NoDup (map (@t_mode F) L) ->
  multi_mode_dot_z Op T Ms ms skip tr = multi_mode_dot Op T Ms (Some ks) skip tr /\
  multi_mode_dot_e_z Op T Ms ms skip tr = multi_mode_dot_e Op T Ms (Some ks) skip tr.
Proof. exact @multi_mode_dot_z_resolved. Qed.
Print Assumptions C02_multi_mode_dot_any_modes_resolved.

Theorem C02_multi_mode_dot_any_modes : forall (F : Type) (Op : rops F), ring_of Op ->
  forall (T : tensor F) (Ms : list (tensor F)) (ms : list Z) (ks : list nat) (skip : option nat) (tr : bool),
  let L := filter (fun x => negb (is_skip skip (snd x))) (sort_by_mode (zip3 Ms (Some ks))) in
  Forall2 (fun z k => py_index (ndim T) z = Some k) ms ks ->
  wf T -> 0 < prod (shape T) -> NoDup (map (@t_mode F) L) -> Forall (operand_fits tr (shape T)) L ->
  exists R, multi_mode_dot_z Op T Ms ms skip tr = Ok R /\ multi_mode_dot_e_z Op T Ms ms skip tr = Ok R /\
    wf R /\ shape R = outs tr L 0 (shape T) /\
    forall o, inb (shape R) o ->
      get (r0 Op) R o = ssum Op (sizes L 0 (shape T)) (fun is_ => rmul Op (coef Op tr L 0 is_ o) (get (r0 Op) T (full L 0 is_ o))).
Proof. exact @multi_mode_dot_z_full. Qed.
Print Assumptions C02_multi_mode_dot_any_modes.

Example C02_multi_mode_dot_negative_modes_before_92eb2a5 :
  let T : tensor Z := mk [2; 2; 2] [1; 2; 3; 4; 5; 6; 7; 8]%Z in
  let v0 : tensor Z := mk [2] [1; 2]%Z in let v2 : tensor Z := mk [2] [1; 3]%Z in
  multi_mode_dot ZR T [v0; v2] (Some [0; 2]) None false = Ok (mk [2] [53; 77]%Z) /\
  multi_mode_dot_z_before_92eb2a5 ZR T [v0; v2] [0; -1]%Z None false = Ok (mk [2] [37; 85]%Z) /\
  multi_mode_dot_e_z_before_92eb2a5 ZR T [v0; v2] [0; -1]%Z None false = Ok (mk [2] [22; 108]%Z) /\
  multi_mode_dot_z ZR T [v0; v2] [0; -1]%Z None false = Ok (mk [2] [53; 77]%Z) /\
  multi_mode_dot_e_z ZR T [v0; v2] [0; -1]%Z None false = Ok (mk [2] [53; 77]%Z).
Proof. exact multi_mode_dot_negative_modes_before_92eb2a5. Qed.

(* the SAME mode named twice (matrix operands): the successive products in listing order, T x_m A x_m B - FULL for the core
   backend (C02_multi_mode_dot_core_repeated_mode; each product is C02_mode_dot_core); the einsum backend follows since /repo
   a6246d0 (current label and current size at the position) - its old rule is the labelled regression Example
   C02_multi_mode_dot_einsum_repeated_modes_before_a6246d0. *)
Theorem C02_multi_mode_dot_core_repeated_mode : forall (F : Type) (Op : rops F) (T A B : tensor F) (m : nat) (tr : bool),
  ndim A <> 1 ->
  multi_mode_dot Op T [A; B] (Some [m; m]) None tr =
  rbind (mode_dot Op T (if tr then conj_t Op (transpose_rev Op A) else A) m false)
        (fun R => mode_dot Op R (if tr then conj_t Op (transpose_rev Op B) else B) m false).
Proof. exact @multi_mode_dot_core_repeated_mode. Qed.
Print Assumptions C02_multi_mode_dot_core_repeated_mode.

Example C02_multi_mode_dot_einsum_repeated_modes_before_a6246d0 :
  let T : tensor Z := mk [2; 2] [1; 2; 3; 4]%Z in
  let A : tensor Z := mk [2; 2] [1; 1; 0; 2]%Z in let B : tensor Z := mk [2; 2] [1; -1; 2; 1]%Z in
  let A3 : tensor Z := mk [3; 2] [1; 0; 0; 1; 1; 1]%Z in let B3 : tensor Z := mk [1; 3] [1; 2; 3]%Z in
  multi_mode_dot ZR T [A; B] (Some [1; 1]) None false = Ok (mk [2; 2] [-1; 10; -1; 22]%Z) /\
  multi_mode_dot_e_before_a6246d0 ZR T [A; B] (Some [1; 1]) None false = Ok (mk [2; 2] [-5; 8; -9; 18]%Z) /\
  multi_mode_dot_e ZR T [A; B] (Some [1; 1]) None false = Ok (mk [2; 2] [-1; 10; -1; 22]%Z) /\
  multi_mode_dot ZR T [A3; B3] (Some [1; 1]) None false = Ok (mk [2; 1] [14; 32]%Z) /\
  multi_mode_dot_e_before_a6246d0 ZR T [A3; B3] (Some [1; 1]) None false = Err /\
  multi_mode_dot_e ZR T [A3; B3] (Some [1; 1]) None false = Ok (mk [2; 1] [14; 32]%Z).
Proof. exact multi_mode_dot_einsum_repeated_modes_before_a6246d0. Qed.

(* core = einsum for ARBITRARY lists of Python modes - repeated, negative, out of range, any order, with skip and transpose, operands
   that fit or not: both backends return the same tensor or both reject (multi_mode_dot_z / multi_mode_dot_e_z are the literal
   loops of the two backends: resolve, sort, mode - decrement resolved from the end; the einsum loop contracts the current label
   and its size check is einsum_sizes_ok on the final equation).  Hypotheses: tensor and operands well-formed with non-empty index
   spaces - nothing about the modes or the sizes.  FULL since /repo a6246d0. *)
Theorem C02_multi_mode_dot_any_mode_list_backends_agree : forall (F : Type) (Op : rops F), ring_of Op ->
  forall (T : tensor F) (Ms : list (tensor F)) (ms : list Z) (skip : option nat) (tr : bool),
  wf T -> 0 < prod (shape T) -> (forall M, In M Ms -> wf M /\ 0 < prod (shape M)) ->
  multi_mode_dot_z Op T Ms ms skip tr = multi_mode_dot_e_z Op T Ms ms skip tr.
Proof. exact @multi_mode_dot_z_backends_agree_any. Qed.
Print Assumptions C02_multi_mode_dot_any_mode_list_backends_agree.

Example C02_nonvacuous_multi_mode_dot_any_mode_list :
  let T : tensor GI := mk [2; 2] [(1, 1); (0, 2); (-1, 0); (3, -1)]%Z in
  let v : tensor GI := mk [2] [(1, 0); (0, 1)]%Z in
  let M : tensor GI := mk [2; 3] [(1, 0); (0, 1); (2, 0); (0, -1); (1, 1); (0, 0)]%Z in
  let u : tensor GI := mk [3] [(1, 0); (2, 0); (0, 1)]%Z in
  wf T /\ 0 < prod (shape T) /\ (forall X, In X [M; u; v] -> wf X /\ 0 < prod (shape X)) /\
  multi_mode_dot_z GR T [M; u; v] [1; -1; 0]%Z None true = multi_mode_dot_e_z GR T [M; u; v] [1; -1; 0]%Z None true /\
  exists R, multi_mode_dot_e_z GR T [M; u; v] [1; -1; 0]%Z None true = Ok R.
Proof. exact multi_mode_dot_any_modes_nonvacuous. Qed.

(* np.einsum's broadcasting (einsum_np: label size = largest axis size, a size-1 axis is broadcast, anything else raises): when all
   axes of every label agree (einsum_sizes_ok) nothing is broadcast and the call is the plain einsum of the theorems - FULL.
   Since /repo 8b25fc6 / a6246d0 the einsum multi_mode_dot checks the contracted dimension of every non-skipped operand against the
   current size at its position and rejects a misfit - also a size-1 one - as the core backend does (modelled as einsum_sizes_ok on
   the final equation); the behaviour before (np.einsum broadcast the size-1 axis) is the labelled regression Example. *)
Theorem C02_einsum_np_no_broadcast : forall (F : Type) (Op : rops F) (ins : list (list nat)) (out : list nat) (ts : list (tensor F)),
  length ins = length ts -> einsum_sizes_ok ins ts = true -> einsum_np Op ins out ts = Ok (einsum Op ins out ts).
Proof. exact @einsum_np_sizes_ok. Qed.
Print Assumptions C02_einsum_np_no_broadcast.

Example C02_multi_mode_dot_einsum_size1_before_8b25fc6 :
  let T : tensor Z := mk [2; 2] [1; 2; 3; 4]%Z in let M : tensor Z := mk [2; 1] [1; 2]%Z in
  multi_mode_dot ZR T [M] (Some [1]) None false = Err /\ mode_dot_e ZR T M 1 false = Err /\
  multi_mode_dot_e_before_8b25fc6 ZR T [M] (Some [1]) None false = Ok (mk [2; 2] [3; 6; 7; 14]%Z) /\
  multi_mode_dot_e ZR T [M] (Some [1]) None false = Err.
Proof. exact multi_mode_dot_einsum_size1_before_8b25fc6. Qed.

(* weights with a single entry in the einsum-backend theorems (NumPy broadcasts them as a scalar): the same entry formulas with the
   constant weight w[0]  (R <> 1: for R = 1 the length-R theorems apply) *)
Theorem C02_khatri_rao_einsum_scalar_weight : forall (F : Type) (Op : rops F), ring_of Op ->
  forall (Ms : list (tensor F)) (w : tensor F) (mask : option (tensor F)) (skip : option nat) (R : nat),
  let Ms' := skipl skip Ms in
  2 <= length Ms' -> mats R Ms' -> 0 < R -> R <> 1 -> shape w = [1] ->
  (forall m0, mask = Some m0 -> shape m0 = map nrows Ms') ->
  exists K, khatri_rao_e Op Ms (Some w) mask skip = Ok K /\ wf K /\ shape K = [prod (map nrows Ms'); R] /\
    forall is_ r, inb (map nrows Ms') is_ -> r < R ->
      get (r0 Op) K [ravel (map nrows Ms') is_; r]
      = rmul Op (rmul Op (kr_entry Op Ms' is_ r) (nth 0 (data w) (r0 Op))) (maskv Op mask (ravel (map nrows Ms') is_)).
Proof. exact @khatri_rao_e_scalar_weight_spec. Qed.
Print Assumptions C02_khatri_rao_einsum_scalar_weight.

Theorem C02_mttkrp_einsum_scalar_weight : forall (F : Type) (Op : rops F), ring_of Op -> conj_laws Op ->
  forall (T : tensor F) (w : tensor F) (fs : list (tensor F)) (k R : nat),
  wf T -> k < ndim T -> 0 < R -> R <> 1 -> map nrows fs = shape T -> mats R fs -> remove_nth k fs <> [] -> shape w = [1] ->
  exists Mt, mttkrp_e Op T (Some w) fs k = Ok Mt /\ wf Mt /\ shape Mt = [nth k (shape T) 0; R] /\
    forall i r, i < nth k (shape T) 0 -> r < R ->
      get (r0 Op) Mt [i; r] =
      ssum Op (remove_nth k (shape T))
        (fun ridx => rmul Op (get (r0 Op) T (insert_at k i ridx))
                             (rconj Op (rmul Op (kr_entry Op (remove_nth k fs) ridx r) (nth 0 (data w) (r0 Op))))).
Proof. exact @mttkrp_e_scalar_weight_spec. Qed.
Print Assumptions C02_mttkrp_einsum_scalar_weight.

Example C02_nonvacuous_scalar_weight :
  let A : tensor Z := mk [2; 2] [1; 2; 3; 4]%Z in let B : tensor Z := mk [3; 2] [1; 2; 3; 4; 5; 6]%Z in
  let w : tensor Z := mk [1] [5]%Z in let T : tensor Z := mk [2; 3] [1; 2; 3; 4; 5; 6]%Z in
  2 <= length (skipl None [A; B]) /\ mats 2 (skipl None [A; B]) /\ shape w = [1] /\ remove_nth 0 [A; B] <> [] /\
  khatri_rao_e ZR [A; B] (Some w) None None = Ok (mk [6; 2] [5; 20; 15; 40; 25; 60; 15; 40; 45; 80; 75; 120]%Z) /\
  mttkrp_e ZR T (Some w) [A; B] 0 = mttkrp_e ZR T (Some (repeat_w ZR 2 w)) [A; B] 0 /\
  exists R, mttkrp_e ZR T (Some w) [A; B] 0 = Ok R.
Proof. exact scalar_weight_nonvacuous. Qed.

(* rejection of wrongly sized weights / masks: bad_size w n = w has neither n entries nor a single one *)
Theorem C02_khatri_rao_rejects_weights : forall (F : Type) (Op : rops F) (Ms : list (tensor F)) (w : tensor F) (mask : option (tensor F)) (skip : option nat) (R : nat),
  let Ms' := skipl skip Ms in
  Ms' <> [] -> mats R Ms' -> bad_size w R -> khatri_rao Op Ms (Some w) mask skip = Err.
Proof. exact @khatri_rao_rejects_weights. Qed.
Print Assumptions C02_khatri_rao_rejects_weights.

Theorem C02_khatri_rao_rejects_mask : forall (F : Type) (Op : rops F) (Ms : list (tensor F)) (w : option (tensor F)) (m : tensor F) (skip : option nat) (R : nat),
  let Ms' := skipl skip Ms in
  Ms' <> [] -> mats R Ms' -> bad_size m (prod (map nrows Ms')) -> khatri_rao Op Ms w (Some m) skip = Err.
Proof. exact @khatri_rao_rejects_mask. Qed.
Print Assumptions C02_khatri_rao_rejects_mask.

Theorem C02_khatri_rao_einsum_rejects : forall (F : Type) (Op : rops F) (Ms : list (tensor F)) (w mask : option (tensor F)) (skip : option nat),
  let Ms' := skipl skip Ms in
  2 <= length Ms' ->
  (exists w0, w = Some w0 /\ (ndim w0 <> 1 \/ bad_size w0 (ncols (hd (mk [] []) Ms')))) \/
  (exists m0, mask = Some m0 /\ shape m0 <> map nrows Ms') ->
  khatri_rao_e Op Ms w mask skip = Err.
Proof. exact @khatri_rao_e_rejects. Qed.
Print Assumptions C02_khatri_rao_einsum_rejects.

Theorem C02_mttkrp_rejects_weights : forall (F : Type) (Op : rops F) (T : tensor F) (w : tensor F) (fs : list (tensor F)) (k R : nat),
  remove_nth k fs <> [] -> mats R (remove_nth k fs) -> bad_size w R -> mttkrp Op T (Some w) fs k = Err.
Proof. exact @mttkrp_rejects_weights. Qed.
Print Assumptions C02_mttkrp_rejects_weights.

Example C02_nonvacuous_rejections :
  let A : tensor Z := mk [2; 2] [1; 2; 3; 4]%Z in let B : tensor Z := mk [3; 2] [1; 2; 3; 4; 5; 6]%Z in
  let w3 : tensor Z := mk [3] [1; 2; 3]%Z in let m2 : tensor Z := mk [2] [1; 1]%Z in
  skipl None [A; B] <> [] /\ mats 2 (skipl None [A; B]) /\ bad_size w3 2 /\ bad_size m2 (prod (map nrows (skipl None [A; B]))) /\
  2 <= length (skipl None [A; B]) /\ shape m2 <> map nrows (skipl None [A; B]).
Proof. exact rejection_nonvacuous. Qed.

(* KR[(i_1..i_n), r] = prod_k A_k[i_k, r] * w_r * mask[(i_1..i_n)], any number of matrices (also a single one), any skip;
   w_ok w R = the weights (if given) have exactly R entries, mask_ok mask n = the mask (if given) has exactly n entries (any
   shape: the core code reshapes them).  Other sizes: the model mirrors NumPy broadcasting (one entry: a scalar factor;
   anything else: rejected) - Example C02_khatri_rao_weight_sizes - and is tied to the code by the correspondence only. *)
Theorem C02_khatri_rao_core : forall (F : Type) (Op : rops F), ring_of Op ->
  forall (Ms : list (tensor F)) (w mask : option (tensor F)) (skip : option nat) (R : nat),
  let Ms' := skipl skip Ms in
  Ms' <> [] -> mats R Ms' -> w_ok w R -> mask_ok mask (prod (map nrows Ms')) ->
  exists K, khatri_rao Op Ms w mask skip = Ok K /\ wf K /\ shape K = [prod (map nrows Ms'); R] /\
    forall is_ r, inb (map nrows Ms') is_ -> r < R ->
      get (r0 Op) K [ravel (map nrows Ms') is_; r]
      = rmul Op (rmul Op (kr_entry Op Ms' is_ r) (wv Op w r)) (maskv Op mask (ravel (map nrows Ms') is_)).
Proof. exact @khatri_rao_spec. Qed.
Print Assumptions C02_khatri_rao_core.

(* the same with NumPy's scalar broadcast: weights (mask) with exactly R entries (one entry per row) OR with a single entry,
   which scales the whole product [w_okb / mask_okb; wvb n w r = entry r if w has n entries, its only entry otherwise] *)
Theorem C02_khatri_rao_core_broadcast : forall (F : Type) (Op : rops F), ring_of Op ->
  forall (Ms : list (tensor F)) (w mask : option (tensor F)) (skip : option nat) (R : nat),
  let Ms' := skipl skip Ms in
  Ms' <> [] -> mats R Ms' -> w_okb w R -> mask_okb mask (prod (map nrows Ms')) ->
  exists K, khatri_rao Op Ms w mask skip = Ok K /\ wf K /\ shape K = [prod (map nrows Ms'); R] /\
    forall is_ r, inb (map nrows Ms') is_ -> r < R ->
      get (r0 Op) K [ravel (map nrows Ms') is_; r]
      = rmul Op (rmul Op (kr_entry Op Ms' is_ r) (wvb Op R w r)) (maskvb Op (prod (map nrows Ms')) mask (ravel (map nrows Ms') is_)).
Proof. exact @khatri_rao_bcast_spec. Qed.
Print Assumptions C02_khatri_rao_core_broadcast.

Example C02_nonvacuous_khatri_rao_broadcast :
  let A : tensor Z := mk [2; 2] [1; 2; 3; 4]%Z in
  let B : tensor Z := mk [3; 2] [1; 2; 3; 4; 5; 6]%Z in
  let w : tensor Z := mk [1] [5]%Z in let m : tensor Z := mk [1; 1] [-1]%Z in
  skipl None [A; B] <> [] /\ mats 2 (skipl None [A; B]) /\ w_okb (Some w) 2 /\ mask_okb (Some m) (prod (map nrows (skipl None [A; B]))) /\
  khatri_rao ZR [A; B] (Some w) (Some m) None = Ok (mk [6; 2] [-5; -20; -15; -40; -25; -60; -15; -40; -45; -80; -75; -120]%Z).
Proof. exact khatri_rao_bcast_nonvacuous. Qed.

(* KRON[(i_1..i_n), (j_1..j_n)] = prod_k A_k[i_k, j_k], any number of matrices, skip, reverse *)
Theorem C02_kronecker_core : forall (F : Type) (Op : rops F), ring_of Op ->
  forall (Ms : list (tensor F)) (skip : option nat) (reverse : bool),
  let l := if reverse then rev (skipl skip Ms) else skipl skip Ms in
  l <> [] -> kmats l ->
  exists K, kronecker Op Ms skip reverse = Ok K /\ wf K /\ shape K = [prod (map nrows l); prod (map ncols l)] /\
    forall is_ js, inb (map nrows l) is_ -> inb (map ncols l) js ->
      get (r0 Op) K [ravel (map nrows l) is_; ravel (map ncols l) js] = kron_entry Op l is_ js.
Proof. exact @kronecker_spec. Qed.
Print Assumptions C02_kronecker_core.

(* MTTKRP_k[i, r] = sum over the indices of the other modes of T[.., i, ..] * conj(w_r * prod_{l<>k} A_l[idx_l, r]) *)
Theorem C02_mttkrp_core : forall (F : Type) (Op : rops F), ring_of Op ->
  forall (T : tensor F) (w : option (tensor F)) (fs : list (tensor F)) (k R : nat),
  wf T -> k < ndim T -> 0 < prod (shape T) -> 0 < R ->
  map nrows fs = shape T -> mats R fs -> 2 <= ndim T -> w_ok w R ->
  exists Mt, mttkrp Op T w fs k = Ok Mt /\ wf Mt /\ shape Mt = [nth k (shape T) 0; R] /\
    forall i r, i < nth k (shape T) 0 -> r < R ->
      get (r0 Op) Mt [i; r] =
      ssum Op (remove_nth k (shape T))
        (fun ridx => rmul Op (get (r0 Op) T (insert_at k i ridx))
                             (rconj Op (rmul Op (kr_entry Op (remove_nth k fs) ridx r) (wv Op w r)))).
Proof. exact @mttkrp_spec. Qed.
Print Assumptions C02_mttkrp_core.

(* inner(A, B, n)[a ++ b] = sum_c A[a ++ c] * B[c ++ b] over the n >= 0 common modes (core backend; n = 0 is the
   outer product -- repaired in /repo by f5f06aa, regression Example inner_zero_modes_regression in Proofs/TenalgProofsInner.v) *)
Theorem C02_inner_core : forall (F : Type) (Op : rops F) (A B : tensor F) (sa sc sb : list nat),
  wf A -> wf B -> shape A = sa ++ sc -> shape B = sc ++ sb ->
  0 < prod (shape A) -> 0 < prod (shape B) ->
  exists R, inner Op A B (Some (length sc)) = Ok R /\ wf R /\ shape R = sa ++ sb /\
    forall a b, inb sa a -> inb sb b ->
      get (r0 Op) R (a ++ b) = ssum Op sc (fun c => rmul Op (get (r0 Op) A (a ++ c)) (get (r0 Op) B (c ++ b))).
Proof. exact @inner_core_spec. Qed.
Print Assumptions C02_inner_core.

(* einsum backend: the equation built by einsum_tenalg.inner, under the generic einsum semantics, is the same formula
   (every n_modes >= 0), hence the two backends agree on inner *)
Theorem C02_inner_einsum : forall (F : Type) (Op : rops F), ring_of Op ->
  forall (A B : tensor F) (sa sc sb : list nat),
  shape A = sa ++ sc -> shape B = sc ++ sb ->
  exists R, inner_e Op A B (Some (length sc)) = Ok R /\ wf R /\ shape R = sa ++ sb /\
    forall a b, inb sa a -> inb sb b ->
      get (r0 Op) R (a ++ b) = ssum Op sc (fun c => rmul Op (get (r0 Op) A (a ++ c)) (get (r0 Op) B (c ++ b))).
Proof. exact @inner_e_spec. Qed.
Print Assumptions C02_inner_einsum.

Corollary C02_inner_backends_agree : forall (F : Type) (Op : rops F), ring_of Op ->
  forall (A B : tensor F) (sa sc sb : list nat),
  wf A -> wf B -> shape A = sa ++ sc -> shape B = sc ++ sb -> 0 < prod (shape A) -> 0 < prod (shape B) ->
  inner Op A B (Some (length sc)) = inner_e Op A B (Some (length sc)).
Proof. exact @inner_backends_agree. Qed.
Print Assumptions C02_inner_backends_agree.

(* GENUINE DEFECT (round 9, known finding core_inner_n_modes_beyond_order): n_modes larger than the order of tensor1.  The core
   code slices tensor1's shape with len(shape_t1) - n_modes, which Python counts from the end when negative, so the request is
   ACCEPTED when tensor2's shape is the wrapped-around slice (a contraction over fewer modes than asked for), while the einsum
   backend raises.  inner_as_is (Model/TenalgRaw.v) is the core code for every natural n_modes. *)
Theorem C02_inner_core_n_modes_beyond_order_refuted :
  exists (A B : tensor Z) (n : nat) (R : tensor Z),
    ndim A < n /\ inner_as_is ZR A B n = Ok R /\ inner_e ZR A B (Some n) = Err.
Proof. exact inner_core_n_modes_beyond_order_refuted. Qed.
Print Assumptions C02_inner_core_n_modes_beyond_order_refuted.

(* what does hold: within the order of tensor1 the core code IS the documented routine (so C02_inner_core / C02_inner_backends_agree
   speak about the code) *)
Theorem C02_inner_core_as_is_in_range_partial : forall (F : Type) (Op : rops F) (A B : tensor F) (n : nat),
  n <= ndim A -> inner_as_is Op A B n = inner Op A B (Some n).
Proof. exact @inner_as_is_in_range. Qed.
Print Assumptions C02_inner_core_as_is_in_range_partial.

(* beyond the order the documented routine and the einsum backend reject every request ... *)
Theorem C02_inner_beyond_order_rejected : forall (F : Type) (Op : rops F) (A B : tensor F) (n : nat),
  ndim A < n -> inner Op A B (Some n) = Err /\ inner_e Op A B (Some n) = Err.
Proof. exact @inner_beyond_rejects. Qed.
Print Assumptions C02_inner_beyond_order_rejected.

(* ... and the core code rejects too unless tensor2's shape (cut at n_modes) is exactly the wrapped-around slice of tensor1's *)
Theorem C02_inner_core_as_is_beyond_order_rejects_unless_wrapped : forall (F : Type) (Op : rops F) (A B : tensor F) (n : nat),
  ndim A < n -> firstn n (shape B) <> skipn (2 * ndim A - n) (shape A) -> inner_as_is Op A B n = Err.
Proof. exact @inner_as_is_beyond_rejects. Qed.
Print Assumptions C02_inner_core_as_is_beyond_order_rejects_unless_wrapped.

(* ... and when it is, the tensor returned is the documented routine's for n_modes' = min(n_modes - L, L), the number of modes the
   wrapped-around slice kept: the malformed request is silently answered as a different, well-formed one *)
Theorem C02_inner_core_as_is_beyond_order_value : forall (F : Type) (Op : rops F) (A B : tensor F) (n : nat),
  ndim A < n -> shape B = skipn (2 * ndim A - n) (shape A) ->
  inner_as_is Op A B n = inner Op A B (Some (ndim A - (2 * ndim A - n))).
Proof. exact @inner_as_is_beyond_value. Qed.
Print Assumptions C02_inner_core_as_is_beyond_order_value.
Example C02_inner_core_as_is_beyond_order_value_nonvacuous :
  let A := mk [2; 3] [0; 1; 2; 3; 4; 5]%Z in let B := mk [3] [1; 2; 3]%Z in
  ndim A < 3 /\ shape B = skipn (2 * ndim A - 3) (shape A) /\ inner ZR A B (Some (ndim A - (2 * ndim A - 3))) = Ok (mk [2] [8; 26]%Z).
Proof. exact inner_as_is_beyond_value_nonvacuous. Qed.

(* the three cases together: the core code's inner, for EVERY n_modes, as an explicit function of the documented routine *)
Theorem C02_inner_core_as_is_total : forall (F : Type) (Op : rops F) (A B : tensor F) (n : nat),
  inner_as_is Op A B n =
  if n <=? ndim A then inner Op A B (Some n)
  else if nat_list_eq (skipn (2 * ndim A - n) (shape A)) (firstn n (shape B))
       then inner Op A B (Some (ndim A - (2 * ndim A - n))) else Err.
Proof. exact @inner_as_is_total. Qed.
Print Assumptions C02_inner_core_as_is_total.
Example C02_inner_as_is_nonvacuous :
  (let A := mk [2; 3] [0; 1; 2; 3; 4; 5]%Z in let B := mk [3; 2] [1; 2; 3; 4; 5; 6]%Z in
   1 <= ndim A /\ inner_as_is ZR A B 1 = Ok (mk [2; 2] [13; 16; 40; 52]%Z)) /\
  (let A := mk [2; 3] [0; 1; 2; 3; 4; 5]%Z in let B := mk [2] [1; 2]%Z in
   ndim A < 3 /\ firstn 3 (shape B) <> skipn (2 * ndim A - 3) (shape A) /\ inner_as_is ZR A B 3 = Err).
Proof. exact (conj inner_as_is_in_range_nonvacuous inner_as_is_beyond_rejects_nonvacuous). Qed.

(* the nested sums of the generic einsum semantics over NoDup labels are one sum over the index space of the label sizes *)
Theorem C02_einsum_sum_over_index_space : forall (F : Type) (Op : rops F), ring_of Op ->
  forall (ls : list (nat * nat)) (e : env) (f : env -> F),
  (forall e1 e2, (forall l, e1 l = e2 l) -> f e1 = f e2) -> NoDup (map fst ls) ->
  esum Op ls e f = ssum Op (map snd ls) (fun c => f (bind (map fst ls) c e)).
Proof. exact @esum_ssum. Qed.
Print Assumptions C02_einsum_sum_over_index_space.

(* einsum backend MTTKRP: the built equation is the textbook MTTKRP (any order >= 1, mode, weights None or a length-R vector),
   hence equals the default core MTTKRP (order >= 2) *)
Theorem C02_mttkrp_einsum : forall (F : Type) (Op : rops F), ring_of Op -> conj_laws Op ->
  forall (T : tensor F) (w : option (tensor F)) (fs : list (tensor F)) (k R : nat),
  wf T -> k < ndim T -> 0 < R -> map nrows fs = shape T -> mats R fs ->
  (forall w0, w = Some w0 -> wf w0 /\ shape w0 = [R]) ->
  exists Mt, mttkrp_e Op T w fs k = Ok Mt /\ wf Mt /\ shape Mt = [nth k (shape T) 0; R] /\
    forall i r, i < nth k (shape T) 0 -> r < R ->
      get (r0 Op) Mt [i; r] =
      ssum Op (remove_nth k (shape T))
        (fun ridx => rmul Op (get (r0 Op) T (insert_at k i ridx))
                             (rconj Op (rmul Op (kr_entry Op (remove_nth k fs) ridx r) (wv Op w r)))).
Proof. exact @mttkrp_e_spec. Qed.
Print Assumptions C02_mttkrp_einsum.

Corollary C02_mttkrp_backends_agree : forall (F : Type) (Op : rops F), ring_of Op -> conj_laws Op ->
  forall (T : tensor F) (w : option (tensor F)) (fs : list (tensor F)) (k R : nat),
  wf T -> k < ndim T -> 0 < prod (shape T) -> 0 < R -> map nrows fs = shape T -> mats R fs -> 2 <= ndim T ->
  (forall w0, w = Some w0 -> wf w0 /\ shape w0 = [R]) ->
  mttkrp Op T w fs k = mttkrp_e Op T w fs k.
Proof. exact @mttkrp_backends_agree. Qed.
Print Assumptions C02_mttkrp_backends_agree.

(* memory-efficient MTTKRP (core_tenalg.mttkrp.unfolding_dot_khatri_rao_memory: one multi_mode_dot with the conjugated r-th
   columns per component, skip = mode, stacked, times conj(weights)): the textbook MTTKRP for every order >= 1, hence the same
   matrix as the default unfolding_dot_khatri_rao (order >= 2) *)
Theorem C02_mttkrp_memory : forall (F : Type) (Op : rops F), ring_of Op -> conj_laws Op ->
  forall (T : tensor F) (w : option (tensor F)) (fs : list (tensor F)) (k R : nat),
  wf T -> k < ndim T -> 0 < prod (shape T) -> 0 < R -> map nrows fs = shape T -> mats R fs ->
  (forall w0, w = Some w0 -> wf w0 /\ prod (shape w0) = R) ->
  exists Mt, mttkrp_memory Op T w fs k = Ok Mt /\ wf Mt /\ shape Mt = [nth k (shape T) 0; R] /\
    forall i r, i < nth k (shape T) 0 -> r < R ->
      get (r0 Op) Mt [i; r] =
      ssum Op (remove_nth k (shape T))
        (fun ridx => rmul Op (get (r0 Op) T (insert_at k i ridx))
                             (rconj Op (rmul Op (kr_entry Op (remove_nth k fs) ridx r) (wv Op w r)))).
Proof. exact @mttkrp_memory_spec. Qed.
Print Assumptions C02_mttkrp_memory.

Corollary C02_mttkrp_memory_agrees_with_default : forall (F : Type) (Op : rops F), ring_of Op -> conj_laws Op ->
  forall (T : tensor F) (w : option (tensor F)) (fs : list (tensor F)) (k R : nat),
  wf T -> k < ndim T -> 0 < prod (shape T) -> 0 < R -> map nrows fs = shape T -> mats R fs -> 2 <= ndim T ->
  (forall w0, w = Some w0 -> wf w0 /\ prod (shape w0) = R) ->
  mttkrp_memory Op T w fs k = mttkrp Op T w fs k.
Proof. exact @mttkrp_memory_agree. Qed.
Print Assumptions C02_mttkrp_memory_agrees_with_default.

(* einsum backend khatri_rao (any number of matrices, skip_matrix; weights a length-R vector, mask with one axis per matrix and
   the row counts as shape, as np.einsum requires): same entry formula, hence core = einsum *)
Theorem C02_khatri_rao_einsum : forall (F : Type) (Op : rops F), ring_of Op ->
  forall (Ms : list (tensor F)) (w mask : option (tensor F)) (skip : option nat) (R : nat),
  let Ms' := skipl skip Ms in
  Ms' <> [] -> mats R Ms' -> 0 < R -> (forall w0, w = Some w0 -> shape w0 = [R]) ->
  (forall m0, mask = Some m0 -> shape m0 = map nrows Ms') ->
  exists K, khatri_rao_e Op Ms w mask skip = Ok K /\ wf K /\ shape K = [prod (map nrows Ms'); R] /\
    forall is_ r, inb (map nrows Ms') is_ -> r < R ->
      get (r0 Op) K [ravel (map nrows Ms') is_; r]
      = rmul Op (rmul Op (kr_entry Op Ms' is_ r) (wv Op w r)) (maskv Op mask (ravel (map nrows Ms') is_)).
Proof. exact @khatri_rao_e_spec. Qed.
Print Assumptions C02_khatri_rao_einsum.

Corollary C02_khatri_rao_backends_agree : forall (F : Type) (Op : rops F), ring_of Op ->
  forall (Ms : list (tensor F)) (w mask : option (tensor F)) (skip : option nat) (R : nat),
  let Ms' := skipl skip Ms in
  Ms' <> [] -> mats R Ms' -> 0 < R -> (forall w0, w = Some w0 -> shape w0 = [R]) ->
  (forall m0, mask = Some m0 -> shape m0 = map nrows Ms') ->
  khatri_rao Op Ms w mask skip = khatri_rao_e Op Ms w mask skip.
Proof. exact @khatri_rao_backends_agree. Qed.
Print Assumptions C02_khatri_rao_backends_agree.

(* einsum backend kronecker (any number of matrices, skip_matrix, reverse): same entry formula, hence core = einsum *)
Theorem C02_kronecker_einsum : forall (F : Type) (Op : rops F) (Ms : list (tensor F)) (skip : option nat) (reverse : bool),
  let l := if reverse then rev (skipl skip Ms) else skipl skip Ms in
  l <> [] -> kmats l ->
  exists K, kronecker_e Op Ms skip reverse = Ok K /\ wf K /\ shape K = [prod (map nrows l); prod (map ncols l)] /\
    forall is_ js, inb (map nrows l) is_ -> inb (map ncols l) js ->
      get (r0 Op) K [ravel (map nrows l) is_; ravel (map ncols l) js] = kron_entry Op l is_ js.
Proof. exact @kronecker_e_spec. Qed.
Print Assumptions C02_kronecker_einsum.

Corollary C02_kronecker_backends_agree : forall (F : Type) (Op : rops F), ring_of Op ->
  forall (Ms : list (tensor F)) (skip : option nat) (reverse : bool),
  let l := if reverse then rev (skipl skip Ms) else skipl skip Ms in
  l <> [] -> kmats l -> kronecker Op Ms skip reverse = kronecker_e Op Ms skip reverse.
Proof. exact @kronecker_backends_agree. Qed.
Print Assumptions C02_kronecker_backends_agree.

(* outer, batched_outer, higher_order_moment: the einsum backend (folds of einsum tensordot with batched_modes = () / 0)
   returns the same tensor as the core backend; hasb nb t = t has order >= 1 and batch size nb *)
Theorem C02_outer_backends_agree : forall (F : Type) (Op : rops F), ring_of Op ->
  forall ts : list (tensor F), outer Op ts = outer_e Op ts.
Proof. exact @outer_backends_agree. Qed.
Print Assumptions C02_outer_backends_agree.

Theorem C02_batched_outer_backends_agree : forall (F : Type) (Op : rops F), ring_of Op ->
  forall (nb : nat) (ts : list (tensor F)), Forall (hasb nb) ts -> batched_outer Op ts = batched_outer_e Op ts.
Proof. exact @batched_outer_backends_agree. Qed.
Print Assumptions C02_batched_outer_backends_agree.

Theorem C02_higher_order_moment_backends_agree : forall (F : Type) (Op : rops F), ring_of Op ->
  forall (nb : nat) (T : tensor F) (order : nat), hasb nb T ->
  higher_order_moment_sum Op T order = higher_order_moment_sum_e Op T order.
Proof. exact @moment_backends_agree. Qed.
Print Assumptions C02_higher_order_moment_backends_agree.

(* einsum backend, vector operand: same contraction formula as the core backend, hence the backends agree *)
Theorem C02_mode_dot_einsum_vector : forall (F : Type) (Op : rops F), ring_of Op ->
  forall (T v : tensor F) (k : nat) (tr : bool) (n : nat),
  wf T -> k < ndim T -> 0 < prod (shape T) -> shape v = [n] -> n = nth k (shape T) 0 ->
  exists R, mode_dot_e Op T v k tr = Ok R /\ wf R /\ shape R = remove_nth k (shape T) /\
    forall ridx, inb (shape R) ridx ->
      get (r0 Op) R ridx = bsum Op n (fun i => rmul Op (get (r0 Op) v [i]) (get (r0 Op) T (insert_at k i ridx))).
Proof. exact @mode_dot_e_vector_spec. Qed.
Print Assumptions C02_mode_dot_einsum_vector.

Corollary C02_mode_dot_vector_backends_agree : forall (F : Type) (Op : rops F), ring_of Op ->
  forall (T v : tensor F) (k : nat) (tr : bool) (n : nat),
  wf T -> k < ndim T -> 0 < prod (shape T) -> shape v = [n] -> n = nth k (shape T) 0 ->
  mode_dot Op T v k tr = mode_dot_e Op T v k tr.
Proof. exact @mode_dot_vector_backends_agree. Qed.
Print Assumptions C02_mode_dot_vector_backends_agree.

(* multi_mode_dot (core), matrix operands on distinct modes, any subset / listing order of modes, skip, transpose:
   R[idx] = sum_{i_1..i_p} (prod_j M_j[idx_{m_j}, i_j]) * T[idx with positions m_j replaced by i_j].
   Special case of C02_multi_mode_dot_core below (every operand a matrix) with the index surgery written as set_many. *)
Theorem C02_multi_mode_dot_matrices_closed_form : forall (F : Type) (Op : rops F), ring_of Op ->
  forall (T : tensor F) (Ms : list (tensor F)) (modes : option (list nat)) (skip : option nat) (tr : bool),
  let L := filter (fun x => negb (is_skip skip (snd x))) (sort_by_mode (zip3 Ms modes)) in
  let ms := map (@t_mode F) L in
  wf T -> 0 < prod (shape T) -> (forall x, In x (sort_by_mode (zip3 Ms modes)) -> ndim (fst (fst x)) <> 1) ->
  NoDup ms -> Forall (operand_ok tr (shape T)) L ->
  exists R, multi_mode_dot Op T Ms modes skip tr = Ok R /\ wf R /\
    shape R = set_many ms (map (outdim tr) L) (shape T) /\
    forall idx, inb (shape R) idx ->
      get (r0 Op) R idx = ssum Op (map (fun m => nth m (shape T) 0) ms)
                      (fun is_ => rmul Op (mm_coef Op tr L is_ idx) (get (r0 Op) T (set_many ms is_ idx))).
Proof. exact @multi_mode_dot_matrices_spec. Qed.
Print Assumptions C02_multi_mode_dot_matrices_closed_form.

(* multi_mode_dot (core), FULL: any mix of matrix and vector operands on distinct modes, any subset / listing order of modes,
   skip, transpose.  L = the non-skipped (operand, mode, operand index) triples in increasing mode order (the sort of the code);
   hypotheses: their modes are pairwise distinct and every one fits its mode (operand_fits: mode < order, a length-s_m vector or
   a well-formed (J, s_m) matrix, (s_m, J) under transpose, J > 0).
   R[o] = sum_{is} (prod_j c_j) * T[full L 0 is o], c_j = M_j[o at the output position of m_j, is_j] (conjugate transpose under
   tr) or v_j[is_j] (conjugated under tr: C02_multi_mode_dot_vector_coefficient); outs / sizes / full / coef
   (Proofs/TenalgProofsMultiGen.v) spell out the output shape (vector modes removed), the contracted sizes, the T-index (is_j
   put at mode m_j: replacing for a matrix, inserted for a vector) and the coefficient product. *)
Theorem C02_multi_mode_dot_core : forall (F : Type) (Op : rops F), ring_of Op ->
  forall (T : tensor F) (Ms : list (tensor F)) (modes : option (list nat)) (skip : option nat) (tr : bool),
  let L := filter (fun x => negb (is_skip skip (snd x))) (sort_by_mode (zip3 Ms modes)) in
  wf T -> 0 < prod (shape T) -> NoDup (map (@t_mode F) L) -> Forall (operand_fits tr (shape T)) L ->
  exists R, multi_mode_dot Op T Ms modes skip tr = Ok R /\ wf R /\ shape R = outs tr L 0 (shape T) /\
    forall o, inb (shape R) o ->
      get (r0 Op) R o = ssum Op (sizes L 0 (shape T)) (fun is_ => rmul Op (coef Op tr L 0 is_ o) (get (r0 Op) T (full L 0 is_ o))).
Proof. exact @multi_mode_dot_full_natural. Qed.
Print Assumptions C02_multi_mode_dot_core.

Theorem C02_multi_mode_dot_vector_coefficient : forall (F : Type) (Op : rops F) (X : tensor F) (n i : nat),
  wf X -> shape X = [n] -> i < n ->
  vcoef Op true X i = rconj Op (get (r0 Op) X [i]) /\ vcoef Op false X i = get (r0 Op) X [i].
Proof. exact @vcoef_conj. Qed.
Print Assumptions C02_multi_mode_dot_vector_coefficient.

(* multi_mode_dot (both backends, skip=None, any operand kinds): the result does not depend on the order in which the
   (operand, mode) pairs are listed *)
Theorem C02_multi_mode_dot_order : forall (F : Type) (Op : rops F) (T : tensor F) (ops ops' : list (tensor F * nat)) (tr : bool),
  Permutation ops ops' -> NoDup (map snd ops) ->
  multi_mode_dot Op T (map fst ops) (Some (map snd ops)) None tr = multi_mode_dot Op T (map fst ops') (Some (map snd ops')) None tr /\
  multi_mode_dot_e Op T (map fst ops) (Some (map snd ops)) None tr = multi_mode_dot_e Op T (map fst ops') (Some (map snd ops')) None tr.
Proof. exact @multi_mode_dot_order. Qed.
Print Assumptions C02_multi_mode_dot_order.

(* batched tensordot (core): any listing order of the same (batch mode of tensor1, batch mode of tensor2) pairs gives the
   same tensor (the defect repaired by 8cd4a39; regression Example tensordot_batch_order_regression) *)
Theorem C02_tensordot_core_batch_order : forall (F : Type) (Op : rops F) (A B : tensor F) (m1 m2 : list nat) (l l' : list (nat * nat)),
  Permutation l l' -> NoDup (map fst l) ->
  tensordot Op A B m1 m2 (map fst l) (map snd l) = tensordot Op A B m1 m2 (map fst l') (map snd l').
Proof. exact @tensordot_batch_order. Qed.
Print Assumptions C02_tensordot_core_batch_order.

(* batched tensordot, core backend (transpose, reshape, stacked matmul, reshape, final transpose), ANY contracted pairs
   (m1[k], m2[k]) and batched pairs (b1[k], b2[k]) in any listing order:
   R[o] = sum over c in the index space of the contracted sizes of A[td_ia c o] * B[td_ib c o], shape = sizes of the free modes
   of tensor1 (batch modes in place) then of tensor2 *)
Theorem C02_tensordot_core : forall (F : Type) (Op : rops F) (A B : tensor F) (m1 m2 b1 b2 : list nat),
  wf A -> wf B -> 0 < prod (shape A) -> 0 < prod (shape B) ->
  td_valid (shape A) (shape B) m1 m2 b1 b2 ->
  exists R, tensordot Op A B m1 m2 b1 b2 = Ok R /\ wf R /\ shape R = td_shape m1 m2 b2 (shape A) (shape B) /\
    forall o, inb (shape R) o ->
      get (r0 Op) R o = ssum Op (permute 0 m1 (shape A))
                    (fun c => rmul Op (get (r0 Op) A (td_ia m1 (ndim A) c o)) (get (r0 Op) B (td_ib m1 m2 b1 b2 (ndim A) (ndim B) c o))).
Proof. exact @tensordot_core_spec. Qed.
Print Assumptions C02_tensordot_core.

(* einsum backend: the equation built by einsum_tenalg.tensordot, under the generic einsum semantics, is the same formula *)
Theorem C02_tensordot_einsum : forall (F : Type) (Op : rops F), ring_of Op ->
  forall (A B : tensor F) (m1 m2 b1 b2 : list nat),
  td_valid (shape A) (shape B) m1 m2 b1 b2 ->
  exists R, tensordot_e Op A B m1 m2 b1 b2 = Ok R /\ wf R /\ shape R = td_shape m1 m2 b2 (shape A) (shape B) /\
    forall o, inb (shape R) o ->
      get (r0 Op) R o = ssum Op (permute 0 m1 (shape A))
                    (fun c => rmul Op (get (r0 Op) A (td_ia m1 (ndim A) c o)) (get (r0 Op) B (td_ib m1 m2 b1 b2 (ndim A) (ndim B) c o))).
Proof. exact @tensordot_e_spec_valid. Qed.
Print Assumptions C02_tensordot_einsum.

Corollary C02_tensordot_backends_agree : forall (F : Type) (Op : rops F), ring_of Op ->
  forall (A B : tensor F) (m1 m2 b1 b2 : list nat),
  wf A -> wf B -> 0 < prod (shape A) -> 0 < prod (shape B) -> td_valid (shape A) (shape B) m1 m2 b1 b2 ->
  tensordot Op A B m1 m2 b1 b2 = tensordot_e Op A B m1 m2 b1 b2.
Proof. exact @tensordot_backends_agree. Qed.
Print Assumptions C02_tensordot_backends_agree.

(* tenalg_utils._validate_contraction_modes (model: validate_contraction / norm_modes over the argument forms int, pair of
   ints / lists, flat list; py_index n z = Python's indexing of a length-n sequence, negative entries counting from the end):
   an accepted pair of mode lists passes the check validate_modes of the theorems above and every returned mode is the Python
   normalisation of the given entry *)
Theorem C02_validate_contraction_normalises : forall (s1 s2 : list nat) (l1 l2 : list Z) (m1 m2 : list nat),
  norm_modes s1 s2 l1 l2 = Ok (m1, m2) ->
  validate_modes s1 s2 m1 m2 = true /\
  Forall2 (fun z i => py_index (length s1) z = Some i) l1 m1 /\ Forall2 (fun z j => py_index (length s2) z = Some j) l2 m2.
Proof. exact @norm_modes_sound. Qed.
Print Assumptions C02_validate_contraction_normalises.

Theorem C02_py_index_spec : forall (n : nat) (z : Z) (i : nat), py_index n z = Some i ->
  i < n /\ ((0 <= z /\ Z.of_nat i = z) \/ (z < 0 /\ Z.of_nat i = z + Z.of_nat n))%Z.
Proof. exact @py_index_spec. Qed.
Print Assumptions C02_py_index_spec.

(* tensordot as called (tensordot_raw: validate both arguments, then the backend's routine) on explicit lists of non-negative
   modes is the function C02_tensordot_core / C02_tensordot_einsum are about *)
Theorem C02_tensordot_explicit_lists : forall (F : Type) (Op : rops F) (core : bool) (A B : tensor F) (m1 m2 b1 b2 : list nat),
  tensordot_raw Op core A B (MSeq [SList (map Z.of_nat m1); SList (map Z.of_nat m2)]) (MSeq [SList (map Z.of_nat b1); SList (map Z.of_nat b2)])
  = (if core then tensordot Op else tensordot_e Op) A B m1 m2 b1 b2.
Proof. exact @tensordot_raw_explicit. Qed.
Print Assumptions C02_tensordot_explicit_lists.

(* modes = k (an int): the last k modes of tensor1 with the first k modes of tensor2;  batched_modes = b (an int, possibly
   negative): mode b of each tensor *)
Theorem C02_validate_contraction_int_modes : forall (s1 s2 : list nat) (k : nat), k <= length s1 -> k <= length s2 ->
  (forall i, i < k -> nth (length s1 - k + i) s1 0 = nth i s2 0) ->
  validate_contraction s1 s2 (MInt (Z.of_nat k)) false = Ok (seq (length s1 - k) k, seq 0 k).
Proof. exact @validate_contraction_int. Qed.
Print Assumptions C02_validate_contraction_int_modes.

Theorem C02_validate_contraction_int_batched : forall (s1 s2 : list nat) (z : Z) (i j : nat),
  py_index (length s1) z = Some i -> py_index (length s2) z = Some j -> nth i s1 0 = nth j s2 0 ->
  validate_contraction s1 s2 (MInt z) true = Ok ([i], [j]).
Proof. exact @validate_contraction_int_batched. Qed.
Print Assumptions C02_validate_contraction_int_batched.

(* tensordot(t1, t2, modes=k) with an int k and no batched modes is the generalised inner product inner(t1, t2, n_modes=k):
   the int form pairs the last k modes of t1 with the first k of t2 and C02_tensordot_core's formula becomes C02_inner_core's *)
Theorem C02_tensordot_int_modes_is_inner : forall (F : Type) (Op : rops F) (A B : tensor F) (sa sc sb : list nat),
  wf A -> wf B -> shape A = sa ++ sc -> shape B = sc ++ sb -> 0 < prod (shape A) -> 0 < prod (shape B) ->
  tensordot_raw Op true A B (MInt (Z.of_nat (length sc))) (MSeq []) = inner Op A B (Some (length sc)).
Proof. exact @tensordot_int_modes_is_inner. Qed.
Print Assumptions C02_tensordot_int_modes_is_inner.

Example C02_nonvacuous_tensordot_int_modes :
  let A : tensor Z := mk [2; 3] [1; 2; 3; 4; 5; 6]%Z in let B : tensor Z := mk [3; 2] [1; 0; -1; 2; 0; 1]%Z in
  wf A /\ wf B /\ shape A = [2] ++ [3] /\ shape B = [3] ++ [2] /\ 0 < prod (shape A) /\ 0 < prod (shape B) /\
  tensordot_raw ZR true A B (MInt 1%Z) (MSeq []) = Ok (mk [2; 2] [-1; 7; -1; 16]%Z) /\
  tensordot_raw ZR false A B (MInt 1%Z) (MSeq []) = inner ZR A B (Some 1).
Proof. exact tensordot_int_modes_is_inner_nonvacuous. Qed.

Example C02_validate_contraction_forms :
  validate_contraction [2; 3; 4] [4; 3; 5] (MInt 1%Z) false = Ok ([2], [0]) /\
  validate_contraction [2; 3; 4] [3; 4; 5] (MInt 2%Z) false = Ok ([1; 2], [0; 1]) /\
  validate_contraction [2; 3; 4] [3; 4; 5] (MInt 3%Z) false = Err /\
  validate_contraction [2; 3; 4] [5; 3] (MInt (-1)%Z) false = Ok ([], []) /\
  validate_contraction [2; 3; 4] [5; 3; 9] (MInt 1%Z) true = Ok ([1], [1]) /\
  validate_contraction [2; 3; 4] [4; 3] (MSeq [SList [-1; 1]%Z; SList [0; -1]%Z]) false = Ok ([2; 1], [0; 1]) /\
  validate_contraction [2; 3; 4] [4; 3] (MSeq [SInt (-1)%Z; SInt (-2)%Z]) false = Ok ([2], [0]) /\
  validate_contraction [2; 3; 4] [2; 3; 4] (MSeq [SInt 0%Z; SInt 1%Z; SInt 2%Z]) false = Ok ([0; 1; 2], [0; 1; 2]) /\
  validate_contraction [2; 3; 4] [2; 3; 4] (MSeq []) true = Ok ([], []) /\
  validate_contraction [2; 3; 4] [4; 3] (MSeq [SInt (-4)%Z; SInt 0%Z]) false = Err /\
  validate_contraction [2; 3; 4] [4; 3] (MSeq [SList [0; 1]%Z; SList [0]%Z]) false = Err /\
  validate_contraction [2; 3; 4] [2; 3; 4] (MSeq [SInt 0%Z; SList [1]%Z; SInt 2%Z]) false = Err.
Proof. exact validate_contraction_forms. Qed.

(* the equations the einsum-backend models hand to `einsum` (eq_*: functions of orders / modes / operand kinds); the per-run source
   tie compares them, up to label renaming, with the equation strings regenerated from the current Python source *)
Theorem C02_mode_dot_einsum_equation : forall (F : Type) (Op : rops F) (T M : tensor F) (mode : nat) (tr : bool) (a b : nat), shape M = [a; b] ->
  mode_dot_e Op T M mode tr =
  if (mode <? ndim T) && ((if tr then a else b) =? nth mode (shape T) 0)
  then Ok (einsum Op (fst (eq_mode_dot (ndim T) mode false)) (snd (eq_mode_dot (ndim T) mode false))
                  [T; if tr then conj_t Op (transpose_rev Op M) else M]) else Err.
Proof. exact @mode_dot_e_uses_eq. Qed.
Print Assumptions C02_mode_dot_einsum_equation.

Theorem C02_tensordot_einsum_equation : forall (F : Type) (Op : rops F) (A B : tensor F) (m1 m2 b1 b2 : list nat),
  tensordot_e Op A B m1 m2 b1 b2 =
  if validate_modes (shape A) (shape B) m1 m2 && validate_modes (shape A) (shape B) b1 b2
  then Ok (einsum Op (fst (eq_tensordot (ndim A) (ndim B) m1 m2 b1 b2)) (snd (eq_tensordot (ndim A) (ndim B) m1 m2 b1 b2)) [A; B]) else Err.
Proof. exact @tensordot_e_uses_eq. Qed.
Print Assumptions C02_tensordot_einsum_equation.

Theorem C02_inner_einsum_equation : forall (F : Type) (Op : rops F) (A B : tensor F) (n : nat),
  inner_e Op A B (Some n) =
  if (n <=? ndim A) && nat_list_eq (skipn (ndim A - n) (shape A)) (firstn n (shape B))
  then Ok (einsum Op (fst (eq_inner (ndim A) (ndim B) n)) (snd (eq_inner (ndim A) (ndim B) n)) [A; B]) else Err.
Proof. exact @inner_e_uses_eq. Qed.
Print Assumptions C02_inner_einsum_equation.

Theorem C02_khatri_rao_einsum_equation : forall (F : Type) (Op : rops F) (Ms : list (tensor F)) (w mask : option (tensor F)) (skip : option nat) (R : tensor F),
  2 <= length (skipl skip Ms) -> khatri_rao_e Op Ms w mask skip = Ok R ->
  exists hasw ops s, R = reshape s (einsum Op (fst (eq_khatri_rao (length (skipl skip Ms)) hasw (match mask with Some _ => true | None => false end)))
                                          (snd (eq_khatri_rao (length (skipl skip Ms)) hasw (match mask with Some _ => true | None => false end))) ops).
Proof. exact @khatri_rao_e_equation. Qed.
Print Assumptions C02_khatri_rao_einsum_equation.

Theorem C02_kronecker_einsum_equation : forall (F : Type) (Op : rops F) (Ms : list (tensor F)) (skip : option nat) (reverse : bool), skipl skip Ms <> [] ->
  kronecker_e Op Ms skip reverse =
  let l := skipl skip Ms in
  Ok (reshape [prod (map nrows l); prod (map ncols l)]
        (einsum Op (fst (eq_kronecker (length l))) (snd (eq_kronecker (length l))) (if reverse then rev l else l))).
Proof. exact @kronecker_e_uses_eq. Qed.
Print Assumptions C02_kronecker_einsum_equation.

Theorem C02_mttkrp_einsum_equation : forall (F : Type) (Op : rops F) (T : tensor F) (w : option (tensor F)) (fs : list (tensor F)) (mode : nat) R,
  mttkrp_e Op T w fs mode = Ok R ->
  exists ops, R = einsum Op (fst (eq_mttkrp (ndim T) mode)) (snd (eq_mttkrp (ndim T) mode)) ops.
Proof. exact @mttkrp_e_equation. Qed.
Print Assumptions C02_mttkrp_einsum_equation.

Theorem C02_multi_mode_dot_einsum_equation : forall (F : Type) (Op : rops F) (T : tensor F) (Ms : list (tensor F)) modes skip tr R,
  multi_mode_dot_e Op T Ms modes skip tr = Ok R ->
  exists st ops, mmd_e_loop Op (sort_by_mode (zip3 Ms modes)) skip tr (ndim T) (mkS [] [] (seq 0 (ndim T)) (ndim T + 1) 0) = Ok st /\
             R = einsum Op (seq 0 (ndim T) :: s_ins st) (s_out st) ops.
Proof. exact @multi_mode_dot_e_equation. Qed.
Print Assumptions C02_multi_mode_dot_einsum_equation.

(* the order in which the generic einsum semantics sums its (distinct) labels does not matter *)
Theorem C02_einsum_summation_order : forall (F : Type) (Op : rops F), ring_of Op ->
  forall (ls ls' : list (nat * nat)), Permutation ls ls' -> forall (e : env) (f : env -> F),
  (forall e1 e2, (forall l, e1 l = e2 l) -> f e1 = f e2) -> NoDup (map fst ls) -> esum Op ls e f = esum Op ls' e f.
Proof. exact @esum_perm. Qed.
Print Assumptions C02_einsum_summation_order.

(* multi_mode_dot: the single equation built by the einsum backend (all operands at once) evaluates to the tensor the core
   backend computes operand by operand - any mix of matrix and vector operands, subset and listing order of modes, skip,
   transpose; same hypotheses as C02_multi_mode_dot_core, whose index formula therefore holds for the einsum backend too *)
Theorem C02_multi_mode_dot_backends_agree : forall (F : Type) (Op : rops F), ring_of Op ->
  forall (T : tensor F) (Ms : list (tensor F)) (modes : option (list nat)) (skip : option nat) (tr : bool),
  let L := filter (fun x => negb (is_skip skip (snd x))) (sort_by_mode (zip3 Ms modes)) in
  wf T -> 0 < prod (shape T) -> NoDup (map (@t_mode F) L) -> Forall (operand_fits tr (shape T)) L ->
  multi_mode_dot Op T Ms modes skip tr = multi_mode_dot_e Op T Ms modes skip tr.
Proof. exact @multi_mode_dot_backends_agree. Qed.
Print Assumptions C02_multi_mode_dot_backends_agree.

Theorem C02_multi_mode_dot_einsum : forall (F : Type) (Op : rops F), ring_of Op ->
  forall (T : tensor F) (Ms : list (tensor F)) (modes : option (list nat)) (skip : option nat) (tr : bool),
  let L := filter (fun x => negb (is_skip skip (snd x))) (sort_by_mode (zip3 Ms modes)) in
  wf T -> 0 < prod (shape T) -> NoDup (map (@t_mode F) L) -> Forall (operand_fits tr (shape T)) L ->
  exists R, multi_mode_dot_e Op T Ms modes skip tr = Ok R /\ wf R /\ shape R = outs tr L 0 (shape T) /\
    forall o, inb (shape R) o ->
      get (r0 Op) R o = ssum Op (sizes L 0 (shape T)) (fun is_ => rmul Op (coef Op tr L 0 is_ o) (get (r0 Op) T (full L 0 is_ o))).
Proof. exact @multi_mode_dot_e_full_natural. Qed.
Print Assumptions C02_multi_mode_dot_einsum.

(* non-vacuity of the kronecker / outer / inner theorems (review r1 1.3): hypotheses and values on concrete operands *)
Example C02_nonvacuous_kronecker_outer_inner :
  let A : tensor Z := mk [2; 2] [1; 2; 3; 4]%Z in
  let B : tensor Z := mk [1; 3] [5; 6; 7]%Z in
  let C : tensor Z := mk [2; 1] [1; -1]%Z in
  let u : tensor Z := mk [2] [1; -2]%Z in
  (if true then rev (skipl (Some 1) [A; B; C]) else skipl (Some 1) [A; B; C]) <> [] /\
  kmats (rev (skipl (Some 1) [A; B; C])) /\
  kronecker ZR [A; B; C] (Some 1) true = Ok (mk [4; 2] [1; 2; 3; 4; -1; -2; -3; -4]%Z) /\
  kronecker_e ZR [A; B; C] (Some 1) true = kronecker ZR [A; B; C] (Some 1) true /\
  Forall2 (fun t i => inb (shape t) i) [u; B] [[1]; [0; 2]] /\
  outer ZR [u; B] = Ok (mk [2; 1; 3] [5; 6; 7; -10; -12; -14]%Z) /\
  wf A /\ wf C /\ shape A = [2] ++ [2] /\ shape C = [2] ++ [1] /\ 0 < prod (shape A) /\ 0 < prod (shape C) /\
  inner ZR A C (Some (length [2])) = Ok (mk [2; 1] [-1; -1]%Z) /\
  inner_e ZR A C (Some 1) = inner ZR A C (Some 1).
Proof.
  cbv zeta. split; [discriminate|]. split; [vm_compute; repeat constructor|]. split; [vm_compute; reflexivity|].
  split; [vm_compute; reflexivity|]. split; [repeat constructor; auto with arith|]. split; [vm_compute; reflexivity|].
  repeat split; try (vm_compute; reflexivity); vm_compute; auto with arith.
Qed.

(* non-vacuity of the tensordot theorems: two contracted pairs listed out of order, two batched pairs listed in decreasing order *)
Example C02_nonvacuous_tensordot :
  let A : tensor Z := tabulate [2; 3; 2; 2] (fun i => Z.sub (Z.of_nat (ravel [2; 3; 2; 2] i)) 7%Z) in
  let B : tensor Z := tabulate [2; 2; 3; 2; 2] (fun i => Z.sub 5%Z (Z.of_nat (ravel [2; 2; 3; 2; 2] i))) in
  wf A /\ wf B /\ 0 < prod (shape A) /\ 0 < prod (shape B) /\
  td_valid (shape A) (shape B) [2; 1] [0; 2] [3; 0] [1; 4] /\
  td_shape [2; 1] [0; 2] [1; 4] (shape A) (shape B) = [2; 2; 2] /\
  tensordot ZR A B [2; 1] [0; 2] [3; 0] [1; 4] = tensordot_e ZR A B [2; 1] [0; 2] [3; 0] [1; 4] /\
  exists R, tensordot ZR A B [2; 1] [0; 2] [3; 0] [1; 4] = Ok R /\ shape R = [2; 2; 2].
Proof. exact tensordot_spec_nonvacuous. Qed.

(* non-vacuity of C02_multi_mode_dot_backends_agree: vector between matrices, out of mode order, one operand skipped, conjugate transpose *)
Example C02_nonvacuous_multi_mode_dot_backends :
  let T : tensor GI := mk [2; 1; 2] [(1, 1); (0, 2); (-1, 0); (3, -1)]%Z in
  let M2 : tensor GI := mk [2; 3] [(1, 0); (0, 1); (2, 0); (0, -1); (1, 1); (0, 0)]%Z in
  let M0 : tensor GI := mk [2; 1] [(0, 1); (2, -1)]%Z in
  let v1 : tensor GI := mk [1] [(1, -2)]%Z in
  let L := filter (fun x => negb (is_skip (Some 2) (snd x))) (sort_by_mode (zip3 [M2; v1; M0] (Some [2; 1; 0]))) in
  wf T /\ 0 < prod (shape T) /\ NoDup (map (@t_mode GI) L) /\ Forall (operand_fits true (shape T)) L /\
  multi_mode_dot_e GR T [M2; v1; M0] (Some [2; 1; 0]) (Some 2) true = Ok (mk [2; 3] [(-3, -1); (1, 7); (-2, 6); (-6, 3); (8, 1); (-2, -4)]%Z) /\
  multi_mode_dot GR T [M2; v1; M0] (Some [2; 1; 0]) (Some 2) true = multi_mode_dot_e GR T [M2; v1; M0] (Some [2; 1; 0]) (Some 2) true.
Proof. exact multi_mode_dot_backends_nonvacuous. Qed.

(* outer(ts)[idx_1 ++ ... ++ idx_n] = prod_k t_k[idx_k], any number of operands of any orders *)
Theorem C02_outer_core : forall (F : Type) (Op : rops F), ring_of Op ->
  forall (ts : list (tensor F)) (idxs : list (list nat)),
  ts <> [] -> Forall2 (fun t i => inb (shape t) i) ts idxs ->
  exists R, outer Op ts = Ok R /\ shape R = concat (map (@shape F) ts) /\
    get (r0 Op) R (concat idxs) = outer_entry Op ts idxs.
Proof. exact @outer_spec. Qed.
Print Assumptions C02_outer_core.

(* batched_outer(ts)[b, idx_1 ++ ... ++ idx_n] = prod_k t_k[b, idx_k] *)
Theorem C02_batched_outer_core : forall (F : Type) (Op : rops F), ring_of Op ->
  forall (nb b : nat) (ts : list (tensor F)) (idxs : list (list nat)),
  ts <> [] -> Forall2 (batched nb) ts idxs -> b < nb ->
  exists R, batched_outer Op ts = Ok R /\ shape R = nb :: concat (map (fun t => tl (shape t)) ts) /\
    get (r0 Op) R (b :: concat idxs) = bouter_entry Op b ts idxs.
Proof. exact @batched_outer_spec. Qed.
Print Assumptions C02_batched_outer_core.

(* (n_samples * higher_order_moment(T, order))[idx_1 ++ ... ++ idx_order] = sum_b prod_j T[b, idx_j]
   (the model is the sum over the sample axis; the final division by n_samples is outside the ring regime) *)
Theorem C02_higher_order_moment_core : forall (F : Type) (Op : rops F), ring_of Op ->
  forall (T : tensor F) (ns : nat) (feat : list nat) (idxs : list (list nat)),
  shape T = ns :: feat -> 0 < ns -> idxs <> [] -> Forall (inb feat) idxs ->
  exists R, higher_order_moment_sum Op T (length idxs) = Ok R /\
    shape R = concat (map (fun _ => feat) idxs) /\
    get (r0 Op) R (concat idxs) = bsum Op ns (fun b => xprod Op T b idxs).
Proof. exact @moment_sum_spec. Qed.
Print Assumptions C02_higher_order_moment_core.

(* sample_khatri_rao: the returned row indices are the row-major indices of the sampled tuples, and sampled row s is
   row indices_kr[s] of the full Khatri-Rao product of the non-skipped matrices *)
Theorem C02_sample_khatri_rao : forall (F : Type) (Op : rops F), ring_of Op ->
  forall (Ms : list (tensor F)) (skip : option nat) (inds : list (list nat)) (n R : nat),
  let Ms' := skipl skip Ms in
  Ms' <> [] -> mats R Ms' -> length inds = length Ms' -> Forall (fun l => length l = n) inds ->
  (forall s, s < n -> inb (map nrows Ms') (tuple_at inds s)) ->
  exists K, khatri_rao Op Ms None None skip = Ok K /\
    forall s r, s < n -> r < R ->
      nth s (sample_kr_indices Ms skip inds n) 0 < nrows K /\
      get (r0 Op) (sample_kr_rows Op Ms skip inds n) [s; r] = get (r0 Op) K [nth s (sample_kr_indices Ms skip inds n) 0; r].
Proof. exact @sample_khatri_rao_spec. Qed.
Print Assumptions C02_sample_khatri_rao.

Theorem C02_sample_khatri_rao_indices : forall (F : Type) (Ms : list (tensor F)) (skip : option nat) (inds : list (list nat)) (n s : nat),
  let Ms' := skipl skip Ms in
  length inds = length Ms' -> Forall (fun l => length l = n) inds -> s < n ->
  nth s (sample_kr_indices Ms skip inds n) 0 = ravel (map nrows Ms') (tuple_at inds s).
Proof. exact @sample_kr_indices_spec. Qed.
Print Assumptions C02_sample_khatri_rao_indices.

(* non-vacuity: the hypotheses are met by concrete Gaussian-integer operands and the model computes on them *)
Example C02_nonvacuous_mode_dot :
  let T : tensor GI := mk [2; 1; 2] [(1, 1); (0, 2); (-1, 0); (3, -1)]%Z in
  let M : tensor GI := mk [2; 3] [(1, 0); (0, 1); (2, 0); (0, -1); (1, 1); (0, 0)]%Z in
  wf T /\ wf M /\ 2 < ndim T /\ 0 < prod (shape T) /\ shape M = [2; 3] /\
  (if true then 2 else 3) = nth 2 (shape T) 0 /\
  mode_dot GR T M 2 true = mode_dot_e GR T M 2 true /\
  mode_dot GR T M 2 true = Ok (mk [2; 1; 3] [(-1, 1); (3, 1); (2, 2); (0, 3); (2, -3); (-2, 0)]%Z).
Proof. cbv zeta. unfold wf, ndim. cbn [shape data]. repeat split; try (vm_compute; reflexivity); vm_compute; auto with arith. Qed.

Example C02_nonvacuous_khatri_rao :
  let A : tensor Z := mk [2; 2] [1; 2; 3; 4]%Z in
  let B : tensor Z := mk [1; 2] [5; 6]%Z in
  let C : tensor Z := mk [2; 2] [1; 0; -1; 2]%Z in
  let w : tensor Z := mk [2] [2; 3]%Z in
  skipl (Some 1) [A; B; C] <> [] /\ mats 2 (skipl (Some 1) [A; B; C]) /\ w_ok (Some w) 2 /\
  mask_ok (@None (tensor Z)) (prod (map nrows (skipl (Some 1) [A; B; C]))) /\
  khatri_rao ZR [A; B; C] (Some w) None (Some 1) = Ok (mk [4; 2] [2; 0; -2; 12; 6; 0; -6; 24]%Z).
Proof.
  cbv zeta. split; [discriminate|]. split; [repeat constructor|].
  split; [intros w0 E; injection E as <-; reflexivity|]. split; [intros m0 E; discriminate E|]. vm_compute; reflexivity.
Qed.

(* weights / mask of other sizes: one entry is broadcast as a scalar, every other size is rejected (both backends, as NumPy does) *)
Example C02_khatri_rao_weight_sizes :
  let A : tensor Z := mk [2; 2] [1; 2; 3; 4]%Z in
  let B : tensor Z := mk [3; 2] [1; 2; 3; 4; 5; 6]%Z in
  khatri_rao ZR [A; B] (Some (mk [1] [5]%Z)) None None = Ok (mk [6; 2] [5; 20; 15; 40; 25; 60; 15; 40; 45; 80; 75; 120]%Z) /\
  khatri_rao_e ZR [A; B] (Some (mk [1] [5]%Z)) None None = khatri_rao ZR [A; B] (Some (mk [1] [5]%Z)) None None /\
  khatri_rao ZR [A; B] (Some (mk [3] [1; 2; 3]%Z)) None None = Err /\
  khatri_rao_e ZR [A; B] (Some (mk [3] [1; 2; 3]%Z)) None None = Err /\
  khatri_rao ZR [A; B] None (Some (mk [2] [1; 1]%Z)) None = Err /\
  khatri_rao_e ZR [A; B] None (Some (mk [2] [1; 1]%Z)) None = Err /\
  khatri_rao ZR [A] (Some (mk [3] [1; 2; 3]%Z)) None None = Err /\
  mttkrp ZR (mk [2; 3] [1; 2; 3; 4; 5; 6]%Z) (Some (mk [3] [1; 2; 3]%Z)) [A; B] 0 = Err /\
  mttkrp_e ZR (mk [2; 3] [1; 2; 3; 4; 5; 6]%Z) (Some (mk [3] [1; 2; 3]%Z)) [A; B] 0 = Err /\
  mttkrp_memory ZR (mk [2; 3] [1; 2; 3; 4; 5; 6]%Z) (Some (mk [3] [1; 2; 3]%Z)) [A; B] 0 = Err.
Proof. cbv zeta. repeat split; vm_compute; reflexivity. Qed.

(* non-vacuity of C02_multi_mode_dot_matrices_closed_form: operands listed out of mode order, one skipped, conjugate transpose *)
Example C02_nonvacuous_multi_mode_dot :
  let T : tensor GI := mk [2; 1; 2] [(1, 1); (0, 2); (-1, 0); (3, -1)]%Z in
  let M2 : tensor GI := mk [2; 3] [(1, 0); (0, 1); (2, 0); (0, -1); (1, 1); (0, 0)]%Z in
  let M0 : tensor GI := mk [2; 1] [(0, 1); (2, -1)]%Z in
  let M1 : tensor GI := mk [1; 2] [(1, 0); (5, 5)]%Z in
  let L := filter (fun x => negb (is_skip (Some 1) (snd x))) (sort_by_mode (zip3 [M2; M1; M0] (Some [2; 1; 0]))) in
  wf T /\ 0 < prod (shape T) /\ NoDup (map (@t_mode GI) L) /\ Forall (operand_ok true (shape T)) L /\
  multi_mode_dot GR T [M2; M1; M0] (Some [2; 1; 0]) (Some 1) true = multi_mode_dot_e GR T [M2; M1; M0] (Some [2; 1; 0]) (Some 1) true /\
  multi_mode_dot GR T [M2; M1; M0] (Some [2; 1; 0]) (Some 1) true = Ok (mk [1; 1; 3] [(-2, 7); (8, -7); (-2, -4)]%Z).
Proof.
  cbv zeta. split; [vm_compute; reflexivity|]. split; [vm_compute; auto with arith|].
  split; [vm_compute; repeat constructor; simpl; intuition discriminate|].
  split; [|split; vm_compute; reflexivity].
  vm_compute filter. repeat constructor; cbn; try (vm_compute; reflexivity); auto with arith.
  all: try (eexists; eexists; repeat split; try reflexivity; auto with arith).
Qed.

(* non-vacuity of C02_sample_khatri_rao / C02_higher_order_moment_core on concrete integer operands *)
Example C02_nonvacuous_sample_moment :
  let A : tensor Z := mk [2; 2] [1; 2; 3; 4]%Z in
  let B : tensor Z := mk [3; 2] [5; 6; 7; 8; 9; 10]%Z in
  skipl None [A; B] <> [] /\ mats 2 (skipl None [A; B]) /\ length [[1; 0]; [2; 1]] = length (skipl None [A; B]) /\
  Forall (fun l => length l = 2) [[1; 0]; [2; 1]] /\
  (forall s, s < 2 -> inb (map nrows (skipl None [A; B])) (tuple_at [[1; 0]; [2; 1]] s)) /\
  shape B = 3 :: [2] /\ Forall (inb [2]) [[0]; [1]] /\
  sample_kr_indices [A; B] None [[1; 0]; [2; 1]] 2 = [5; 1] /\
  sample_kr_rows ZR [A; B] None [[1; 0]; [2; 1]] 2 = mk [2; 2] [27; 40; 7; 16]%Z /\
  higher_order_moment_sum ZR B 2 = Ok (mk [2; 2] [155; 176; 176; 200]%Z).
Proof.
  cbv zeta. split; [discriminate|]. split; [repeat constructor|]. split; [reflexivity|]. split; [repeat constructor|].
  split; [intros [|[|s]] Hs; [vm_compute; auto with arith | vm_compute; auto with arith | lia]|].
  split; [reflexivity|]. split; [repeat constructor; auto with arith|].
  repeat split; vm_compute; reflexivity.
Qed.

(* non-vacuity of C02_multi_mode_dot_core: a vector between two matrices, listed out of mode order, conjugate transpose *)
Example C02_nonvacuous_multi_mode_dot_mixed :
  let T : tensor GI := mk [2; 1; 2] [(1, 1); (0, 2); (-1, 0); (3, -1)]%Z in
  let M2 : tensor GI := mk [2; 3] [(1, 0); (0, 1); (2, 0); (0, -1); (1, 1); (0, 0)]%Z in
  let M0 : tensor GI := mk [2; 1] [(0, 1); (2, -1)]%Z in
  let v1 : tensor GI := mk [1] [(1, -2)]%Z in
  let L := filter (fun x => negb (is_skip None (snd x))) (sort_by_mode (zip3 [M2; v1; M0] (Some [2; 1; 0]))) in
  wf T /\ 0 < prod (shape T) /\ NoDup (map (@t_mode GI) L) /\ Forall (operand_fits true (shape T)) L /\
  outs true L 0 (shape T) = [1; 3] /\ sizes L 0 (shape T) = [2; 1; 2] /\
  multi_mode_dot GR T [M2; v1; M0] (Some [2; 1; 0]) None true = multi_mode_dot_e GR T [M2; v1; M0] (Some [2; 1; 0]) None true /\
  multi_mode_dot GR T [M2; v1; M0] (Some [2; 1; 0]) None true = Ok (mk [1; 3] [(-16, 3); (22, 9); (6, -8)]%Z).
Proof.
  cbv zeta. split; [vm_compute; reflexivity|]. split; [vm_compute; auto with arith|].
  split; [vm_compute; repeat constructor; simpl; intuition discriminate|].
  split; [|repeat split; vm_compute; reflexivity].
  vm_compute filter. repeat (apply Forall_cons || apply Forall_nil).
  all: unfold operand_fits; cbn [t_mode fst snd shape length nth]; split; [auto with arith | split; [vm_compute; reflexivity |]].
  all: try (left; reflexivity).
  all: right; eexists; eexists; repeat split; try reflexivity; auto with arith.
Qed.

(* non-vacuity of the MTTKRP theorems: complex weights, three variants, hypotheses discharged jointly *)
Example C02_nonvacuous_mttkrp :
  let T : tensor GI := mk [2; 2] [(1, 1); (0, 2); (-1, 0); (3, -1)]%Z in
  let A : tensor GI := mk [2; 2] [(1, 0); (0, 1); (2, 0); (0, -1)]%Z in
  let B : tensor GI := mk [2; 2] [(0, 1); (1, 1); (1, 0); (2, -1)]%Z in
  let w : tensor GI := mk [2] [(1, 1); (0, -2)]%Z in
  wf T /\ 1 < ndim T /\ 0 < prod (shape T) /\ map nrows [A; B] = shape T /\ mats 2 [A; B] /\ 2 <= ndim T /\
  (forall w0, Some w = Some w0 -> wf w0 /\ shape w0 = [2]) /\ w_ok (Some w) 2 /\
  mttkrp GR T (Some w) [A; B] 1 = mttkrp_e GR T (Some w) [A; B] 1 /\
  mttkrp_memory GR T (Some w) [A; B] 1 = mttkrp GR T (Some w) [A; B] 1 /\
  exists M, mttkrp GR T (Some w) [A; B] 1 = Ok M /\ shape M = [2; 2].
Proof.
  cbv zeta. split; [vm_compute; reflexivity|]. split; [vm_compute; auto with arith|]. split; [vm_compute; auto with arith|].
  split; [reflexivity|]. split; [repeat constructor|]. split; [vm_compute; auto with arith|].
  split; [intros w0 E; injection E as <-; split; [vm_compute|]; reflexivity|].
  split; [intros w0 E; injection E as <-; reflexivity|].
  split; [vm_compute; reflexivity|]. split; [vm_compute; reflexivity|].
  eexists. split; [vm_compute; reflexivity | reflexivity].
Qed.

(* ------------------------------------------------------------------ round 8 *)
(* multi_mode_dot with NON-NEGATIVE Python modes, in range or not, distinct on the non-skipped operands: the literal Python-int
   routines of both backends are the natural-number routines (no resolution happens; an out-of-range mode is rejected by both) - FULL;
   in particular modes=None: the code sets modes = range(len(matrix_or_vec_list)) (regenerated from the source on every run,
   harness/props/C02_coretie.py), and the literal routines on that list are the routines with modes = None that
   C02_multi_mode_dot_core / C02_multi_mode_dot_backends_agree are about - for EVERY operand list (any length, operand kinds, sizes,
   skip, transpose; rejections included), no hypothesis - FULL *)
Theorem C02_multi_mode_dot_nonnegative_modes : forall (F : Type) (Op : rops F) (T : tensor F) (Ms : list (tensor F)) (ks : list nat)
  (skip : option nat) (tr : bool),
  let L := filter (fun x => negb (is_skip skip (snd x))) (sort_by_mode (zip3 Ms (Some ks))) in
  NoDup (map (@t_mode F) L) ->
  multi_mode_dot_z Op T Ms (map Z.of_nat ks) skip tr = multi_mode_dot Op T Ms (Some ks) skip tr /\
  multi_mode_dot_e_z Op T Ms (map Z.of_nat ks) skip tr = multi_mode_dot_e Op T Ms (Some ks) skip tr.
Proof. exact @multi_mode_dot_z_nonneg. Qed.
Print Assumptions C02_multi_mode_dot_nonnegative_modes.
Theorem C02_multi_mode_dot_default_modes : forall (F : Type) (Op : rops F) (T : tensor F) (Ms : list (tensor F)) (skip : option nat) (tr : bool),
  multi_mode_dot_z Op T Ms (map Z.of_nat (seq 0 (length Ms))) skip tr = multi_mode_dot Op T Ms None skip tr /\
  multi_mode_dot_e_z Op T Ms (map Z.of_nat (seq 0 (length Ms))) skip tr = multi_mode_dot_e Op T Ms None skip tr.
Proof. exact @multi_mode_dot_default_modes. Qed.
Print Assumptions C02_multi_mode_dot_default_modes.

Example C02_nonvacuous_default_modes :
  let T : tensor Z := mk [2; 3] [1; 2; 3; 4; 5; 6]%Z in let v : tensor Z := mk [2] [1; -1]%Z in
  let M : tensor Z := mk [2; 3] [1; 0; 2; 0; 1; 1]%Z in
  multi_mode_dot_z ZR T [v; M] (map Z.of_nat (seq 0 2)) None false = Ok (mk [2] [-9; -6]%Z) /\
  multi_mode_dot ZR T [v; M] None None false = Ok (mk [2] [-9; -6]%Z) /\
  multi_mode_dot_e ZR T [v; M] None None false = Ok (mk [2] [-9; -6]%Z).
Proof. exact default_modes_nonvacuous. Qed.

(* the argument forms of _validate_contraction_modes beyond int and pair-of-lists: a pair of scalars (each resolved from the end
   when negative), a pair mixing a scalar and a list (the scalar is the one-entry list), a flat sequence of ints of length <> 2
   (the same modes on both tensors), a nested list inside such a sequence (rejected); every accepted form of either argument
   returns mode lists that pass the explicit-list check validate_modes, i.e. the hypothesis of the tensordot theorems - FULL *)
Theorem C02_validate_contraction_scalar_pair : forall (s1 s2 : list nat) (zi zj : Z) (i j : nat) (batched : bool),
  py_index (length s1) zi = Some i -> py_index (length s2) zj = Some j -> nth i s1 0 = nth j s2 0 ->
  validate_contraction s1 s2 (MSeq [SInt zi; SInt zj]) batched = Ok ([i], [j]).
Proof. exact validate_contraction_scalar_pair. Qed.
Print Assumptions C02_validate_contraction_scalar_pair.
Theorem C02_validate_contraction_pair : forall (s1 s2 : list nat) (a1 a2 : mside) (batched : bool),
  validate_contraction s1 s2 (MSeq [a1; a2]) batched = norm_modes s1 s2 (side_list a1) (side_list a2).
Proof. exact validate_contraction_pair. Qed.
Print Assumptions C02_validate_contraction_pair.
Theorem C02_validate_contraction_flat : forall (s1 s2 : list nat) (l : list mside) (zs : list Z) (batched : bool),
  length l <> 2 -> ints_of l = Some zs -> validate_contraction s1 s2 (MSeq l) batched = norm_modes s1 s2 zs zs.
Proof. exact validate_contraction_flat. Qed.
Print Assumptions C02_validate_contraction_flat.
Theorem C02_validate_contraction_flat_nested : forall (s1 s2 : list nat) (l : list mside) (batched : bool),
  length l <> 2 -> ints_of l = None -> validate_contraction s1 s2 (MSeq l) batched = Err.
Proof. exact validate_contraction_flat_nested. Qed.
Print Assumptions C02_validate_contraction_flat_nested.
Theorem C02_validate_contraction_sound : forall (s1 s2 : list nat) (a : marg) (batched : bool) (m1 m2 : list nat),
  validate_contraction s1 s2 a batched = Ok (m1, m2) -> validate_modes s1 s2 m1 m2 = true.
Proof. exact validate_contraction_sound. Qed.
Print Assumptions C02_validate_contraction_sound.

Example C02_nonvacuous_validate_forms :
  validate_contraction [2; 3] [3; 2] (MSeq [SInt (-1); SInt 0])%Z false = Ok ([1], [0]) /\
  validate_contraction [2; 3] [3; 2] (MSeq [SInt 1; SList [0]%Z])%Z true = Ok ([1], [0]) /\
  validate_contraction [2; 3] [2; 3] (MSeq [SInt (-1); SInt 0; SInt (-2)])%Z false = Ok ([1; 0; 0], [1; 0; 0]) /\
  validate_contraction [2; 3] [2; 3] (MSeq [SInt 1; SList [0]%Z; SInt 0])%Z false = Err.
Proof. exact validate_forms_nonvacuous. Qed.

(* memory-efficient MTTKRP with a SINGLE weight (R <> 1; NumPy broadcasts `stacked * reshape(conj(weights), (1, -1))` as one
   scalar): the textbook MTTKRP with the constant weight w[0]; with C02_mttkrp_memory (exactly R weights or none) this covers
   every weight vector the routine accepts for R <> 1 - FULL (needs the conjugation laws) *)
Theorem C02_mttkrp_memory_scalar_weight : forall (F : Type) (Op : rops F), ring_of Op -> conj_laws Op ->
  forall (T : tensor F) (w : tensor F) (fs : list (tensor F)) (k R : nat),
  wf T -> k < ndim T -> 0 < prod (shape T) -> 0 < R -> R <> 1 -> map nrows fs = shape T -> mats R fs ->
  wf w -> prod (shape w) = 1 ->
  exists Mt, mttkrp_memory Op T (Some w) fs k = Ok Mt /\ wf Mt /\ shape Mt = [nth k (shape T) 0; R] /\
    forall i r, i < nth k (shape T) 0 -> r < R ->
      get (r0 Op) Mt [i; r] =
      ssum Op (remove_nth k (shape T))
        (fun ridx => rmul Op (get (r0 Op) T (insert_at k i ridx))
                             (rconj Op (rmul Op (kr_entry Op (remove_nth k fs) ridx r) (nth 0 (data w) (r0 Op))))).
Proof. exact @mttkrp_memory_scalar_weight_spec. Qed.
Print Assumptions C02_mttkrp_memory_scalar_weight.

Example C02_nonvacuous_mttkrp_memory_scalar_weight :
  let A : tensor Z := mk [2; 2] [1; 2; 3; 4]%Z in let B : tensor Z := mk [3; 2] [1; 2; 3; 4; 5; 6]%Z in
  let w : tensor Z := mk [1] [5]%Z in let T : tensor Z := mk [2; 3] [1; 2; 3; 4; 5; 6]%Z in
  wf T /\ 0 < ndim T /\ 0 < prod (shape T) /\ 2 <> 1 /\ map nrows [A; B] = shape T /\ mats 2 [A; B] /\ wf w /\ prod (shape w) = 1 /\
  mttkrp_memory ZR T (Some w) [A; B] 0 = Ok (mk [2; 2] [110; 140; 245; 320]%Z) /\
  mttkrp ZR T (Some w) [A; B] 0 = Ok (mk [2; 2] [110; 140; 245; 320]%Z).
Proof. exact mttkrp_memory_scalar_weight_nonvacuous. Qed.

(* vocabulary of the core-backend source tie (the current Python source of core multi_mode_dot / kronecker /
   unfolding_dot_khatri_rao is translated into it on every run and proved equal to the model routines for all inputs):
   the comprehension [l[i] for i in range(len(l)) if i != s] is remove_nth s l (the skip of every routine), and a loop whose
   body may raise (fold_res of its step function) is any recursive model function with the same base case and unrolling - FULL *)
Theorem C02_source_skip_comprehension : forall (A : Type) (dflt : A) (s : nat) (l : list A), comp_skip dflt s l = remove_nth s l.
Proof. exact @comp_skip_remove_nth. Qed.
Print Assumptions C02_source_skip_comprehension.
Theorem C02_source_loop_principle : forall (S X R : Type) (step : S -> X -> res S) (k : S -> res R) (model : list X -> S -> res R),
  (forall st, model [] st = k st) -> (forall x r st, model (x :: r) st = rbind (step st x) (model r)) ->
  forall l st, rbind (fold_res step l st) k = model l st.
Proof. exact @fold_res_sim. Qed.
Print Assumptions C02_source_loop_principle.

(* core tensordot when a mode of one tensor is named twice among its contracted and batched modes (a request C02_tensordot_core
   excludes): batch ++ free ++ contracted is then not a permutation of the axes and the routine rejects, for every operand pair
   - FULL.  (np.transpose raises; the einsum backend instead takes np.einsum's diagonal - no textbook value, correspondence only:
   Example below.) *)
Theorem C02_tensordot_core_rejects_repeated_mode : forall (F : Type) (Op : rops F) (A B : tensor F) (m1 m2 b1 b2 : list nat),
  ~ NoDup (m1 ++ b1) \/ ~ NoDup (m2 ++ b2) -> tensordot Op A B m1 m2 b1 b2 = Err.
Proof. exact @tensordot_core_rejects_repeated. Qed.
Print Assumptions C02_tensordot_core_rejects_repeated_mode.

Example C02_nonvacuous_tensordot_repeated_mode :
  let A : tensor Z := mk [2; 2] [1; 2; 3; 4]%Z in let B : tensor Z := mk [2; 2] [1; 0; 0; 1]%Z in
  ~ NoDup ([0; 0] ++ @nil nat) /\ validate_modes (shape A) (shape B) [0; 0] [0; 1] = true /\
  tensordot ZR A B [0; 0] [0; 1] [] [] = Err /\
  tensordot_e ZR A B [0; 0] [0; 1] [] [] = Ok (mk [2] [4; 6]%Z).
Proof. exact tensordot_repeated_nonvacuous. Qed.

(* the main loop of core khatri_rao as the source tie reads it (regenerated step function `step`): if the first iteration starts
   from `first` (matrices[0], weighted) and every iteration is one checked broadcast step kr_step_chk (2-D operands with n columns
   each: the model's kr_step), then on operands that all have n columns the loop is fold_left kr_step from `first` - FULL; the
   generated theorem khatri_rao_source_is_model instantiates it with the step function translated from the current source *)
Theorem C02_source_khatri_rao_loop : forall (F : Type) (Op : rops F)
  (step : option (tensor F) -> nat * tensor F -> res (option (tensor F))) (first : res (tensor F)) (n : nat),
  (forall st e, step st (0, e) = rbind first (fun r => rbind (kr_step_chk Op r e n) (fun r' => Ok (Some r')))) ->
  (forall a i e, step (Some a) (S i, e) = rbind (kr_step_chk Op a e n) (fun r' => Ok (Some r'))) ->
  forall l, l <> [] -> Forall (fun M => exists b, shape M = [b; n]) l ->
  (forall R0, first = Ok R0 -> exists a, shape R0 = [a; n]) ->
  fold_res step (py_enumerate l) None = rbind first (fun R0 => Ok (Some (fold_left (kr_step Op) l R0))).
Proof. exact @kr_loop. Qed.
Print Assumptions C02_source_khatri_rao_loop.

(* the list-building loop of unfolding_dot_khatri_rao_memory as the source tie reads it: a loop that appends one computed value
   per item is `collect` over the items - FULL; with np_stack1 (np.stack(axis=1) of equally long 1-D arrays), the generated theorem
   mttkrp_memory_source_is_model ties the current source of the memory variant to Model.Tenalg.mttkrp_memory on the inputs of
   C02_mttkrp_memory *)
Theorem C02_source_list_building_loop : forall (X A : Type) (f : X -> res A) (step : list A -> X -> res (list A)),
  (forall acc x, step acc x = rbind (f x) (fun c => Ok (acc ++ [c]))) ->
  forall l acc, fold_res step l acc = rbind (collect (map f l)) (fun cs => Ok (acc ++ cs)).
Proof. exact @fold_res_append_sim. Qed.
Print Assumptions C02_source_list_building_loop.

(* ---- round 9: NumPy's broadcasting multiply as a literal primitive (Proofs/TenalgProofsBcast.v: bcast_shape, clamp, bcast_mul for two
   arrays of the same rank) and the reshape-then-multiply idioms of core_tenalg as they are written in the source:
   outer:          tl.reshape(res, shape_res + (1,) * s1) * tl.reshape(tensor, (1,) * sres + shape)                  = outer2
   batched_outer:  tl.reshape(res, shape_res + (1,) * size) * tl.reshape(tensor, (n,) + (1,) * size_res + shape[1:])  = bouter2
   khatri_rao:     res * T.reshape(weights, (1, -1)) = apply_w,   res * T.reshape(mask, (-1, 1)) = apply_mask,
                   T.reshape(T.reshape(res, (s1, 1, s2)) * T.reshape(e, (1, s3, s4)), (-1, n_col))                    = kr_step
   for all shapes (the degenerate broadcasts the model rejects are excluded by a hypothesis, as in chk.assumptions) *)
Theorem C02_outer_step_is_broadcast : forall (F : Type) (Op : rops F) (A B : tensor F),
  rbind (reshape_spec (map Some (shape A ++ repeat 1 (ndim B))) A) (fun A' =>
  rbind (reshape_spec (map Some (repeat 1 (ndim A) ++ shape B)) B) (fun B' => bcast_mul Op A' B')) = Ok (outer2 Op A B).
Proof. exact @outer_step_is_broadcast. Qed.
Print Assumptions C02_outer_step_is_broadcast.

Theorem C02_batched_outer_step_is_broadcast : forall (F : Type) (Op : rops F) (A B : tensor F) (n : nat) (ra rb : list nat),
  shape A = n :: ra -> shape B = n :: rb ->
  rbind (reshape_spec (map Some (shape A ++ repeat 1 (ndim B - 1))) A) (fun A' =>
  rbind (reshape_spec (map Some ([n] ++ repeat 1 (ndim A - 1) ++ tl (shape B))) B) (fun B' => bcast_mul Op A' B')) = Ok (bouter2 Op A B).
Proof. exact @batched_outer_step_is_broadcast. Qed.
Print Assumptions C02_batched_outer_step_is_broadcast.

Theorem C02_khatri_rao_weights_row_is_broadcast : forall (F : Type) (Op : rops F) (M w : tensor F) (n R : nat),
  shape M = [n; R] -> (R = 1 -> prod (shape w) = 1) ->
  rbind (reshape_spec [Some 1; None] w) (fun w' => bcast_mul Op M w') = apply_w Op (Some w) M.
Proof. exact @weights_row_is_broadcast. Qed.
Print Assumptions C02_khatri_rao_weights_row_is_broadcast.

Theorem C02_khatri_rao_mask_column_is_broadcast : forall (F : Type) (Op : rops F) (M m : tensor F) (n R : nat),
  shape M = [n; R] -> (n = 1 -> prod (shape m) = 1) ->
  rbind (reshape_spec [None; Some 1] m) (fun m' => bcast_mul Op M m') = apply_mask Op (Some m) M.
Proof. exact @mask_column_is_broadcast. Qed.
Print Assumptions C02_khatri_rao_mask_column_is_broadcast.

Theorem C02_khatri_rao_block_is_broadcast : forall (F : Type) (Op : rops F) (A B : tensor F) (a b c : nat),
  shape A = [a; c] -> shape B = [b; c] -> 0 < c ->
  rbind (reshape_spec [Some a; Some 1; Some c] A) (fun A' =>
  rbind (reshape_spec [Some 1; Some b; Some c] B) (fun B' =>
  rbind (bcast_mul Op A' B') (fun P => reshape_spec [None; Some c] P))) = Ok (kr_step Op A B).
Proof. exact @kr_block_is_broadcast. Qed.
Print Assumptions C02_khatri_rao_block_is_broadcast.
Example C02_bcast_mul_nonvacuous :
  bcast_mul ZR (mk [2; 1] [1; 2]%Z) (mk [1; 3] [1; 10; 100]%Z) = Ok (mk [2; 3] [1; 10; 100; 2; 20; 200]%Z) /\
  bcast_mul ZR (mk [2; 2] [1; 2; 3; 4]%Z) (mk [1; 3] [1; 10; 100]%Z) = Err /\
  rbind (reshape_spec [Some 1; None] (mk [2] [10; 100]%Z)) (fun w' => bcast_mul ZR (mk [2; 2] [1; 2; 3; 4]%Z) w')
    = apply_w ZR (Some (mk [2] [10; 100]%Z)) (mk [2; 2] [1; 2; 3; 4]%Z) /\
  apply_w ZR (Some (mk [2] [10; 100]%Z)) (mk [2; 2] [1; 2; 3; 4]%Z) = Ok (mk [2; 2] [10; 200; 30; 400]%Z).
Proof. exact bcast_mul_examples. Qed.

(* ---- round 9: vocabulary of the source ties of core outer / batched_outer / higher_order_moment / inner (harness/props/C02_coretie.py
   regenerates the four bodies from the current source on every run and re-proves: outer_py = outer for all inputs; batched_outer_py =
   batched_outer for tensors of order >= 1; higher_order_moment_py with the mean read as the sum = higher_order_moment_sum for order >= 1;
   inner_py = inner_as_is for every n_modes [or = inner once n_modes is validated against the order]) *)
(* for i, x in enumerate(l): (if i: acc = f(acc, x), which may raise; else: acc = x), two book-keeping locals refreshed from acc at the
   end of every iteration, return acc: the fold of f from the first element *)
Theorem C02_source_accumulating_loop : forall (A B1 B2 R : Type) (f : A -> A -> res A) (g1 : A -> B1) (g2 : A -> B2)
    (step : option B1 * option B2 * option A -> nat * A -> res (option B1 * option B2 * option A))
    (k : option B1 * option B2 * option A -> res R) (k' : A -> res R),
  (forall st x, step st (0, x) = Ok (Some (g1 x), Some (g2 x), Some x)) ->
  (forall a i x, step (Some (g1 a), Some (g2 a), Some a) (S i, x) = rbind (f a x) (fun a' => Ok (Some (g1 a'), Some (g2 a'), Some a'))) ->
  (forall b1 b2 o, k (b1, b2, o) = match o with Some a => k' a | None => Err end) ->
  forall l, rbind (fold_res step (py_enumerate l) (None, None, None)) k
          = match l with [] => Err | a :: r => rbind (fold_res f r a) k' end.
Proof. exact @fold_first_then_state. Qed.
Print Assumptions C02_source_accumulating_loop.

(* shape_t1[len(shape_t1) - n_modes:] and shape_t1[:len(shape_t1) - n_modes] under Python's slice rule (a negative bound counts from the
   end, clipped at 0) cut the shape at inner_cut: the as-is model of core inner reads the source's slices correctly for EVERY n_modes *)
Theorem C02_source_inner_slice_bound : forall (L n : nat), py_clip L (Z.of_nat L - Z.of_nat n) = inner_cut L n.
Proof. exact py_clip_inner. Qed.
Print Assumptions C02_source_inner_slice_bound.

(* T.sum(tensor1 * tensor2) for operands of equal shape (literal broadcasting multiply, then the sum of all entries) is the model's
   traditional inner product *)
Theorem C02_source_sum_of_product : forall (F : Type) (Op : rops F) (A B : tensor F), shape A = shape B ->
  rbind (bcast_mul Op A B) (fun P => Ok (np_sum_all Op P))
  = Ok (mk [] [ssum Op (shape A) (fun idx => rmul Op (get (r0 Op) A idx) (get (r0 Op) B idx))]).
Proof. exact @sum_of_product_same_shape. Qed.
Print Assumptions C02_source_sum_of_product.
Example C02_source_inner_slice_bound_nonvacuous :
  py_clip 2 (Z.of_nat 2 - Z.of_nat 3) = 1 /\ inner_cut 2 3 = 1 /\ py_slice_from [2; 3] (-1)%Z = [3] /\ py_slice_to [2; 3] (-1)%Z = [2] /\
  rbind (bcast_mul ZR (mk [2] [1; 2]%Z) (mk [2] [3; 4]%Z)) (fun P => Ok (np_sum_all ZR P)) = Ok (mk [] [11%Z]).
Proof. repeat split; vm_compute; reflexivity. Qed.
