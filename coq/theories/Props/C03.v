(* C03 -- property theorems only.  Statements are about the model of the factorised-tensor modules
   (Model/Factorized.v; round 7 additions in Model/Factorized2.v: tucker_to_tensor(modes=...) with any modes, 0-order inputs, the generic
   einsum reading of the einsum TT-matrix route, cp_norm with conjugation, the Hermitian PARAFAC2 validator of /repo 0c112da; validator
   programs: Model/FactorizedSrc.v / FactorizedSrc2.v), for EVERY carrier F whose operations form a commutative ring, every order, every mode
   size and every rank.  Round 8 (Proofs29-32): the Hermitian validator accepted-iff and the reconstruction behind it, the raw TT chain without
   a boundary-rank hypothesis, __setitem__ histories by induction.  One _partial (C03_cp_obj_views_partial) next to the two _refuted theorems
   about the deliberately unrepaired stale wrapper cache; former refutations are C03_before_<commit> Examples. *)
From Coq Require Import List Arith ZArith Ring Lia Reals RealField.
From TLV Require Import Base.Shape Base.PyList Base.Tensor Base.BigSum Base.Ops Model.Base Model.Factorized Model.FactorizedSrc Model.Factorized2 Model.FactorizedSrc2
  Proofs.FactorizedProofs Proofs.FactorizedProofs2 Proofs.FactorizedProofs3 Proofs.FactorizedProofs4
  Proofs.FactorizedProofs5 Proofs.FactorizedProofs6 Proofs.FactorizedProofs7 Proofs.FactorizedProofs8
  Proofs.FactorizedProofs9 Proofs.FactorizedProofs10 Proofs.FactorizedProofs11 Proofs.FactorizedProofs12 Proofs.FactorizedProofs13 Proofs.FactorizedProofs14
  Proofs.BaseProofs6 Proofs.FactorizedProofs15 Proofs.FactorizedProofs16 Proofs.FactorizedProofs17 Proofs.FactorizedProofs18 Proofs.FactorizedProofs19 Proofs.FactorizedProofs20 Proofs.FactorizedProofs21 Proofs.FactorizedProofs22 Proofs.FactorizedProofs23 Proofs.FactorizedProofs24 Proofs.FactorizedProofs25 Proofs.FactorizedProofs26 Proofs.FactorizedProofs27 Proofs.FactorizedProofs28 Proofs.FactorizedProofs29 Proofs.FactorizedProofs30 Proofs.FactorizedProofs31 Proofs.FactorizedProofs32.
From TLV Require Model.Tenalg.
From Coq Require Import Sorting.Sorted Sorting.Permutation.
Import ListNotations.

Definition is_ring {F : Type} (Op : fops F) : Prop :=
  ring_theory (f0 Op) (f1 Op) (fadd Op) (fmul Op) (fsub Op) (fopp Op) (@eq F).
(* the hypothesis is satisfiable: the integers (the carrier of the correspondence) and the reals *)
Example C03_is_ring_Z : is_ring Zops.
Proof. exact InitialRing.Zth. Qed.
Example C03_is_ring_R : is_ring Rops.
Proof. exact RTheory. Qed.

(* ------------------------------------------------------------------ CP *)
(* _validate_cp_tensor accepts exactly the well-formed (weights, factors) and reports (mode sizes, common column count) *)
Theorem C03_validate_cp_iff : forall (F : Type) (w : option (tensor F)) (fs : list (tensor F)) (shp : list nat) (R : nat),
  validate_cp w fs = Ok (shp, R) <->
  (fs <> [] /\
   Forall2 (fun f n => shape f = [n; R] \/ (R = 1 /\ shape f = [n])) fs shp /\
   match w with None => True | Some wt => shape wt = [R] end).
Proof. exact validate_cp_iff. Qed.
Print Assumptions C03_validate_cp_iff.

(* cp_to_tensor (order-1 route and mode-0 route): entry idx = sum_r w_r prod_k A_k[idx_k, r] *)
Theorem C03_cp_to_tensor : forall (F : Type) (Op : fops F), is_ring Op ->
  forall (w : option (tensor F)) (fs : list (tensor F)) (shp : list nat) (R : nat),
  validate_cp w fs = Ok (shp, R) -> Forall (fun f => ndim f = 2) fs ->
  exists t, cp_to_tensor Op w fs None = Ok t /\ shape t = shp /\
    forall idx, inb shp idx ->
      get (f0 Op) t idx = fsumn Op R (fun r => fmul Op (wv Op w r) (prod_entries F Op fs idx r)).
Proof. exact cp_to_tensor_spec. Qed.
Print Assumptions C03_cp_to_tensor.

(* cp_to_vec = tensor_to_vec (cp_to_tensor), and entry ravel(idx) of the vector is the CP entry at idx (every order) *)
Theorem C03_cp_to_vec : forall (F : Type) (Op : fops F), is_ring Op ->
  forall (w : option (tensor F)) (fs : list (tensor F)) (shp : list nat) (R : nat),
  validate_cp w fs = Ok (shp, R) -> Forall (fun f => ndim f = 2) fs ->
  exists t v, cp_to_tensor Op w fs None = Ok t /\ cp_to_vec Op w fs = Ok v /\ tensor_to_vec t = Ok v /\
    shape v = [prod shp] /\
    forall idx, inb shp idx -> get (f0 Op) v [ravel shp idx] = cp_entry F Op w fs R idx.
Proof. exact cp_to_vec_spec. Qed.
Print Assumptions C03_cp_to_vec.

(* cp_to_unfolded(mode) = unfold(cp_to_tensor, mode) for every order (incl. order 1: the vector as one column) and
   every mode, on non-empty tensors *)
Theorem C03_cp_to_unfolded : forall (F : Type) (Op : fops F), is_ring Op ->
  forall (w : option (tensor F)) (fs : list (tensor F)) (shp : list nat) (R m : nat),
  validate_cp w fs = Ok (shp, R) -> Forall (fun f => ndim f = 2) fs ->
  m < length fs -> 0 < prod shp ->
  exists t u, cp_to_tensor Op w fs None = Ok t /\ cp_to_unfolded Op w fs m = Ok u /\ unfold (f0 Op) t m = Ok u.
Proof. exact cp_to_unfolded_spec. Qed.
Print Assumptions C03_cp_to_unfolded.

(* masked reconstruction, every order: entry = mask[idx] * CP entry *)
Theorem C03_cp_to_tensor_masked : forall (F : Type) (Op : fops F), is_ring Op ->
  forall (w : option (tensor F)) (fs : list (tensor F)) (shp : list nat) (R : nat) (mask : tensor F),
  validate_cp w fs = Ok (shp, R) -> Forall (fun f => ndim f = 2) fs ->
  shape mask = shp -> wf mask ->
  exists t, cp_to_tensor Op w fs (Some mask) = Ok t /\ shape t = shp /\
    forall idx, inb shp idx -> get (f0 Op) t idx = fmul Op (get (f0 Op) mask idx) (cp_entry F Op w fs R idx).
Proof. exact cp_to_tensor_masked_spec. Qed.
Print Assumptions C03_cp_to_tensor_masked.

(* cp_norm: the squared norm computed from the Gram matrices of the factors (Hadamard product, weights on both sides) is the
   sum of the squared entries of the reconstruction (cp_norm itself is the float sqrt of this number) *)
Theorem C03_cp_normsq : forall (F : Type) (Op : fops F), is_ring Op ->
  forall (w : option (tensor F)) (fs : list (tensor F)) (shp : list nat) (R : nat),
  validate_cp w fs = Ok (shp, R) -> Forall (fun f => ndim f = 2) fs ->
  cp_normsq Op w fs =
  Ok (sum_idx F (f0 Op) (fadd Op) shp (fun idx => fmul Op (cp_entry F Op w fs R idx) (cp_entry F Op w fs R idx))).
Proof. exact cp_normsq_spec. Qed.
Print Assumptions C03_cp_normsq.

(* non-vacuity: a weighted order-1 and an order-3 CP tensor pass the hypotheses; the two former order-1 defects as examples *)
Example C03_cp_hyps_order1 : validate_cp (Some wW) [wA] = Ok ([3], 2) /\ Forall (fun f : tensor Z => ndim f = 2) [wA].
Proof. split; [reflexivity | repeat constructor]. Qed.
Example C03_cp_hyps_order3 : validate_cp (Some wW) [wA; wA; mk [1; 2] [7; 8]%Z] = Ok ([3; 3; 1], 2).
Proof. reflexivity. Qed.
Example C03_cp_unfolded_order1_example : cp_to_unfolded Zops (Some wW) [wA] 0 = Ok (mk [3; 1] [0; 2; 4]%Z).
Proof. exact cp_unfolded_order1_example. Qed.
Example C03_cp_mask_order1_example : cp_to_tensor Zops (Some wW) [wA] (Some wM) = Ok (mk [3] [0; 0; 4]%Z).
Proof. exact cp_mask_order1_example. Qed.

(* ------------------------------------------------------------------ tensor train *)
(* tt_to_tensor: entry idx = (G_1[:, i_1, :] G_2[:, i_2, :] ... G_N[:, i_N, :])[0, 0], for every number of cores, all
   mode sizes and all (positive) ranks; induction on the number of cores *)
Theorem C03_tt_to_tensor : forall (F : Type) (Op : fops F), is_ring Op ->
  forall (cs : list (tensor F)) (ns : list nat),
  cs <> [] -> tt_cores F 1 cs ns 1 -> 0 < prod ns ->
  exists t, tt_to_tensor Op cs = Ok t /\ shape t = ns /\
    forall idx, inb ns idx -> get (f0 Op) t idx = chain F Op cs idx 0 0.
Proof. exact tt_to_tensor_spec_v. Qed.
Print Assumptions C03_tt_to_tensor.

(* _validate_tt_tensor accepts exactly: a non-empty list of 3-D cores (r_k, n_k, r_k+1), consecutive ranks equal, both boundary
   ranks 1; it reports (mode sizes, ranks) *)
Theorem C03_validate_tt_iff : forall (F : Type) (cs : list (tensor F)) (shp rk : list nat),
  validate_tt cs = Ok (shp, rk) <-> cs <> [] /\ exists rs, rk = rs ++ [1] /\ chain_shapes F 1 cs shp rs 1.
Proof. exact validate_tt_iff. Qed.
Print Assumptions C03_validate_tt_iff.

(* ------------------------------------------------------------------ tensor ring *)
(* tr_to_tensor: entry idx = trace (G_1[:, i_1, :] ... G_N[:, i_N, :]) for every number N >= 2 of cores (first core, any list
   of middle cores, last core closing the ring), all mode sizes and positive ranks *)
Theorem C03_tr_to_tensor : forall (F : Type) (Op : fops F), is_ring Op ->
  forall (fa : tensor F) (mid : list (tensor F)) (fl : tensor F) (n0 : nat) (nsm : list nat) (nL r0 rL : nat),
  tt_cores F r0 (fa :: mid) (n0 :: nsm) rL -> shape fl = [rL; nL; r0] -> 0 < r0 ->
  0 < prod ((n0 :: nsm) ++ [nL]) ->
  exists t, tr_to_tensor Op (fa :: mid ++ [fl]) = Ok t /\ shape t = (n0 :: nsm) ++ [nL] /\
    forall idx, inb ((n0 :: nsm) ++ [nL]) idx ->
      get (f0 Op) t idx = fsumn Op r0 (fun a => chain F Op ((fa :: mid) ++ [fl]) idx a a).
Proof. exact tr_to_tensor_spec_v. Qed.
Print Assumptions C03_tr_to_tensor.

(* _validate_tr_tensor accepts exactly: at least two 3-D cores whose ranks match cyclically *)
Theorem C03_validate_tr_iff : forall (F : Type) (cs : list (tensor F)) (shp rk : list nat),
  validate_tr cs = Ok (shp, rk) <->
  2 <= length cs /\ exists rs r0, rk = rs ++ [r0] /\ chain_shapes F r0 cs shp rs r0.
Proof. exact validate_tr_iff. Qed.
Print Assumptions C03_validate_tr_iff.

(* non-vacuity for the train / ring hypotheses: a 2-core train with inner rank 2, closed as a ring of boundary rank 2 *)
Example C03_tt_hyps : tt_cores Z 1 [mk [1; 2; 2] [1; 2; 3; 4]%Z; mk [2; 3; 1] [1; 0; 2; -1; 1; 1]%Z] [2; 3] 1.
Proof. econstructor; [reflexivity | lia |]. econstructor; [reflexivity | lia | constructor]. Qed.
Example C03_tr_hyps : tt_cores Z 2 [mk [2; 1; 3] [1; 2; 3; 4; 5; 6]%Z] [1] 3 /\ shape (mk [3; 2; 2] (repeat 1%Z 12)) = [3; 2; 2] /\
  0 < 2 /\ 0 < prod ([1] ++ [2]).
Proof. split; [econstructor; [reflexivity | lia | constructor] | repeat split; simpl; lia]. Qed.

(* ------------------------------------------------------------------ Tucker *)
(* tucker_to_tensor(core, factors, skip_factor=skip): entry idx = sum over all core indices js of core[js] * prod_l U_l[idx_l, js_l]
   (a skipped mode contributes the Kronecker delta), every order, every skip, all sizes >= 1; induction over the modes *)
Theorem C03_tucker_to_tensor : forall (F : Type) (Op : fops F), is_ring Op ->
  forall (core : tensor F) (fs : list (tensor F)) (ns : list nat) (skip : option nat),
  tk_shapes F 0 skip fs ns (shape core) -> wf core -> 0 < prod (shape core) -> 0 < prod ns ->
  exists t, tucker_to_tensor Op core fs skip false = Ok t /\ shape t = ns /\
    forall idx, inb ns idx ->
      get (f0 Op) t idx =
      sum_idx F (f0 Op) (fadd Op) (shape core) (fun js => fmul Op (get (f0 Op) core js) (tk_prod F Op 0 skip fs idx js)).
Proof. exact tucker_to_tensor_spec. Qed.
Print Assumptions C03_tucker_to_tensor.

(* transpose_factors=True reconstructs from the transposed matrices *)
Theorem C03_tucker_transpose_factors : forall (F : Type) (Op : fops F) (core : tensor F) (fs : list (tensor F)) (skip : option nat),
  Forall (fun M => ndim M = 2) fs ->
  tucker_to_tensor Op core fs skip true = tucker_to_tensor Op core (map (mT Op) fs) skip false.
Proof. exact tucker_transpose_factors. Qed.
Print Assumptions C03_tucker_transpose_factors.

(* _validate_tucker_tensor accepts exactly: >= 2 factors, as many as the core has modes, factor l a matrix with as many
   columns as the core has entries along mode l; reports (row counts, shape of the core) *)
Theorem C03_validate_tucker_iff : forall (F : Type) (core : tensor F) (fs : list (tensor F)) (shp rk : list nat),
  validate_tucker core fs = Ok (shp, rk) <->
  2 <= length fs /\ length fs = ndim core /\ rk = shape core /\ tk_shapes F 0 None fs shp rk.
Proof. exact validate_tucker_iff. Qed.
Print Assumptions C03_validate_tucker_iff.

(* all four hypotheses of C03_tucker_to_tensor jointly (skip_factor = 1: the skipped factor is never looked at), and an instance
   without skip accepted by the validator (hypotheses of C03_tucker_validated) *)
Example C03_tucker_hyps :
  let core := mk [2; 2] [1; 0; -1; 2]%Z in
  tk_shapes Z 0 (Some 1) [mk [3; 2] [1; 2; 3; 4; 5; 6]%Z; mk [7; 7] []] [3; 2] (shape core) /\ wf core /\ 0 < prod (shape core) /\ 0 < prod [3; 2] /\
  validate_tucker core [mk [3; 2] [1; 2; 3; 4; 5; 6]%Z; mk [1; 2] [1; 1]%Z] = Ok ([3; 1], [2; 2]).
Proof.
  cbv zeta. split; [constructor; [reflexivity|]; constructor; [reflexivity | constructor]|]. repeat split; try reflexivity; simpl; lia.
Qed.

(* ------------------------------------------------------------------ PARAFAC2 *)
(* parafac2_to_slice(i): entry (j, k) = sum_r (P_i B)[j, r] * (A[i, r] * w_r) * C[k, r]  (all sizes, weights or not) *)
Theorem C03_parafac2_to_slice : forall (F : Type) (Op : fops F), is_ring Op ->
  forall (w : option (tensor F)) (A B C : tensor F) (ps : list (tensor F)) (Js : list nat) (shp : list (list nat)) (I Q R K i : nat),
  validate_parafac2 Op w [A; B; C] ps = Ok (shp, R) ->
  shape A = [I; R] -> shape B = [Q; R] -> shape C = [K; R] -> w_ok F w R ->
  Forall2 (fun (P : tensor F) J => shape P = [J; Q]) ps Js -> length ps = I -> i < I ->
  exists t, parafac2_to_slice Op w [A; B; C] ps i = Ok t /\ shape t = [nth i Js 0; K] /\
    forall j k, j < nth i Js 0 -> k < K ->
      get2 Op t j k = p2_entry F Op w A B C (nth i ps (mk [] [])) Q R i j k.
Proof. exact parafac2_to_slice_spec. Qed.
Print Assumptions C03_parafac2_to_slice.

(* parafac2_to_tensor (through parafac2_to_slices, weights absorbed into A): block i holds slice i in its first J_i rows and
   zeros up to the longest slice -- any number of slices, uneven lengths *)
Theorem C03_parafac2_to_tensor : forall (F : Type) (Op : fops F), is_ring Op ->
  forall (w : option (tensor F)) (A B C : tensor F) (ps : list (tensor F)) (Js : list nat) (shp : list (list nat)) (I Q R K : nat),
  validate_parafac2 Op w [A; B; C] ps = Ok (shp, R) ->
  shape A = [I; R] -> shape B = [Q; R] -> shape C = [K; R] -> w_ok F w R ->
  Forall2 (fun (P : tensor F) J => shape P = [J; Q]) ps Js -> length ps = I ->
  exists t, parafac2_to_tensor Op w [A; B; C] ps = Ok t /\ shape t = [I; fold_right Nat.max 0 Js; K] /\
    forall i j k, i < I -> j < fold_right Nat.max 0 Js -> k < K ->
      get (f0 Op) t [i; j; k] =
        if j <? nth i Js 0 then p2_entry F Op w A B C (nth i ps (mk [] [])) Q R i j k else f0 Op.
Proof. exact parafac2_to_tensor_spec. Qed.
Print Assumptions C03_parafac2_to_tensor.

(* non-vacuity: two uneven slices (2 and 1 rows), rank 1, accepted by the validator *)
Example C03_parafac2_hyps :
  validate_parafac2 Zops (Some (mk [1] [3%Z])) [mk [2; 1] [1; 2]%Z; mk [1; 1] [1%Z]; mk [2; 1] [1; -1]%Z]
                    [mk [2; 1] [0; 1]%Z; mk [1; 1] [-1]%Z] = Ok ([[2; 2]; [1; 2]], 1).
Proof. vm_compute. reflexivity. Qed.

(* _validate_parafac2_tensor accepts exactly: three factors, A with one row per projection and R columns, B and C matrices with R
   columns, every projection a matrix with R orthonormal columns (P^T P = I, decided exactly), weights of leading length R; it
   reports the slice shapes (J_i, K) and R.  For every carrier whose order test decides equality (true at Z: C03_feqb_Z) *)
Theorem C03_validate_parafac2_iff : forall (F : Type) (Op : fops F),
  (forall x y : F, feqb Op x y = true <-> x = y) ->
  forall (w : option (tensor F)) (fs ps : list (tensor F)) (shps : list (list nat)) (R : nat),
  validate_parafac2 Op w fs ps = Ok (shps, R) <->
  exists A B C K,
    fs = [A; B; C] /\ (exists rest, shape A = length ps :: R :: rest) /\ (exists q, shape B = [q; R]) /\ shape C = [K; R] /\
    Forall2 (proj_ok F Op R K) ps shps /\
    match w with None => True | Some wt => exists rest, shape wt = R :: rest end.
Proof. exact validate_parafac2_iff. Qed.
Print Assumptions C03_validate_parafac2_iff.
Example C03_feqb_Z : forall x y : Z, feqb Zops x y = true <-> x = y.
Proof. exact feqb_Zops. Qed.

(* ------------------------------------------------------------------ TT-matrix *)
(* _validate_tt_matrix accepts exactly: a non-empty list of 4-D cores (r_k, in_k, out_k, r_k+1), consecutive ranks equal, both
   boundary ranks 1; reports (in sizes ++ out sizes, ranks) *)
Theorem C03_validate_ttm_iff : forall (F : Type) (cs : list (tensor F)) (shp rk : list nat),
  validate_ttm cs = Ok (shp, rk) <->
  cs <> [] /\ exists ns ms rs, shp = ns ++ ms /\ rk = rs ++ [1] /\ chain_shapes4 F 1 cs ns ms rs 1.
Proof. exact validate_ttm_iff. Qed.
Print Assumptions C03_validate_ttm_iff.

(* tt_matrix_to_tensor (core backend: tensordot chain, reshape to the interleaved shape, transposition evens ++ odds):
   entry (i_1..i_N, o_1..o_N) = (G_1[:, i_1, o_1, :] ... G_N[:, i_N, o_N, :])[0, 0]; any number of cores, positive ranks *)
Theorem C03_ttm_to_tensor : forall (F : Type) (Op : fops F), is_ring Op ->
  forall (cs : list (tensor F)) (ns ms : list nat),
  cs <> [] -> ttm_cores F 1 cs ns ms 1 ->
  exists t, ttm_to_tensor Op cs = Ok t /\ shape t = ns ++ ms /\
    forall is os, inb ns is -> inb ms os -> get (f0 Op) t (is ++ os) = chain4 F Op cs (interleave is os) 0 0.
Proof. exact ttm_to_tensor_spec. Qed.
Print Assumptions C03_ttm_to_tensor.

(* tt_matrix_to_matrix: row = row-major index over the in dims, column = row-major index over the out dims *)
Theorem C03_ttm_to_matrix : forall (F : Type) (Op : fops F), is_ring Op ->
  forall (cs : list (tensor F)) (ns ms : list nat),
  cs <> [] -> ttm_cores F 1 cs ns ms 1 -> 0 < prod ns ->
  exists M, ttm_to_matrix Op cs = Ok M /\ shape M = [prod ns; prod ms] /\
    forall is os, inb ns is -> inb ms os ->
      get2 Op M (ravel ns is) (ravel ms os) = chain4 F Op cs (interleave is os) 0 0.
Proof. exact ttm_to_matrix_spec. Qed.
Print Assumptions C03_ttm_to_matrix.

Example C03_ttm_hyps : ttm_cores Z 1 [mk [1; 2; 1; 2] [1; 2; 3; 4]%Z; mk [2; 1; 3; 1] [1; 0; 2; -1; 1; 1]%Z] [2; 1] [1; 3] 1.
Proof. econstructor; [reflexivity | lia |]. econstructor; [reflexivity | lia | constructor]. Qed.

(* both tenalg backends: the einsum route (np.einsum sum of products over all rank labels, then the same transposition) returns
   the same tensor as the core route (tensordot chain) on every well-formed TT-matrix, and so do the matrix / unfolded / vec views *)
Theorem C03_ttm_einsum_eq_core : forall (F : Type) (Op : fops F), is_ring Op ->
  forall (cs : list (tensor F)) (ns ms : list nat),
  cs <> [] -> ttm_cores F 1 cs ns ms 1 ->
  ttm_to_tensor_einsum Op cs = ttm_to_tensor Op cs.
Proof. exact ttm_einsum_eq_core_v. Qed.
Print Assumptions C03_ttm_einsum_eq_core.

Theorem C03_ttm_einsum_views_eq : forall (F : Type) (Op : fops F), is_ring Op ->
  forall (cs : list (tensor F)) (ns ms : list nat),
  cs <> [] -> ttm_cores F 1 cs ns ms 1 ->
  ttm_to_matrix_einsum Op cs = ttm_to_matrix Op cs /\
  (forall m, ttm_to_unfolded_einsum Op cs m = ttm_to_unfolded Op cs m) /\
  ttm_to_vec_einsum Op cs = ttm_to_vec Op cs.
Proof. exact ttm_einsum_views_eq. Qed.
Print Assumptions C03_ttm_einsum_views_eq.

(* ------------------------------------------------------------------ reported shape = shape of the reconstruction *)
(* whatever a validator accepts (with positive ranks / sizes) is reconstructed, WITH THE REPORTED SHAPE, to the defining contraction *)
Theorem C03_tt_validated : forall (F : Type) (Op : fops F), is_ring Op ->
  forall (cs : list (tensor F)) (shp rk : list nat),
  validate_tt cs = Ok (shp, rk) -> Forall (fun x => 0 < x) rk -> 0 < prod shp ->
  exists t, tt_to_tensor Op cs = Ok t /\ shape t = shp /\
    forall idx, inb shp idx -> get (f0 Op) t idx = chain F Op cs idx 0 0.
Proof. exact tt_validated. Qed.
Print Assumptions C03_tt_validated.

Theorem C03_tr_validated : forall (F : Type) (Op : fops F), is_ring Op ->
  forall (cs : list (tensor F)) (shp rk : list nat),
  validate_tr cs = Ok (shp, rk) -> Forall (fun x => 0 < x) rk -> 0 < prod shp ->
  exists t, tr_to_tensor Op cs = Ok t /\ shape t = shp /\
    forall idx, inb shp idx -> get (f0 Op) t idx = fsumn Op (hd 0 rk) (fun a => chain F Op cs idx a a).
Proof. exact tr_validated. Qed.
Print Assumptions C03_tr_validated.

Theorem C03_tucker_validated : forall (F : Type) (Op : fops F), is_ring Op ->
  forall (core : tensor F) (fs : list (tensor F)) (shp rk : list nat),
  validate_tucker core fs = Ok (shp, rk) -> wf core -> 0 < prod rk -> 0 < prod shp ->
  exists t, tucker_to_tensor Op core fs None false = Ok t /\ shape t = shp /\
    forall idx, inb shp idx ->
      get (f0 Op) t idx =
      sum_idx F (f0 Op) (fadd Op) rk (fun js => fmul Op (get (f0 Op) core js) (tk_prod F Op 0 None fs idx js)).
Proof. exact tucker_validated. Qed.
Print Assumptions C03_tucker_validated.

Theorem C03_ttm_validated : forall (F : Type) (Op : fops F), is_ring Op ->
  forall (cs : list (tensor F)) (shp rk : list nat),
  validate_ttm cs = Ok (shp, rk) -> Forall (fun x => 0 < x) rk ->
  exists t ns ms, ttm_to_tensor Op cs = Ok t /\ shape t = shp /\ shp = ns ++ ms /\ length ns = length cs /\ length ms = length cs /\
    forall is os, inb ns is -> inb ms os -> get (f0 Op) t (is ++ os) = chain4 F Op cs (interleave is os) 0 0.
Proof. exact ttm_validated. Qed.
Print Assumptions C03_ttm_validated.

Example C03_tr_validated_hyps :
  validate_tr [mk [2; 1; 3] [1; 2; 3; 4; 5; 6]%Z; mk [3; 2; 2] (repeat 1%Z 12)] = Ok ([1; 2], [2; 3; 2]).
Proof. reflexivity. Qed.

(* PARAFAC2: whatever _validate_parafac2_tensor accepts (A a matrix, B square) is reconstructed to a tensor of shape
   (I, max_i J_i, K) where (J_i, K) are the REPORTED slice shapes; block i = slice i on its first J_i rows, zero below *)
Theorem C03_parafac2_validated : forall (F : Type) (Op : fops F), is_ring Op ->
  (forall x y : F, feqb Op x y = true <-> x = y) ->
  forall (w : option (tensor F)) (A B C : tensor F) (ps : list (tensor F)) (shps : list (list nat)) (R I : nat),
  validate_parafac2 Op w [A; B; C] ps = Ok (shps, R) ->
  shape A = [I; R] -> shape B = [R; R] -> w_ok F w R ->
  exists t K, parafac2_to_tensor Op w [A; B; C] ps = Ok t /\ shape C = [K; R] /\ length ps = I /\ length shps = I /\
    Forall (fun s => s = [nth 0 s 0; K]) shps /\
    shape t = [I; fold_right Nat.max 0 (map (fun s => nth 0 s 0) shps); K] /\
    forall i j k, i < I -> j < fold_right Nat.max 0 (map (fun s => nth 0 s 0) shps) -> k < K ->
      get (f0 Op) t [i; j; k] =
        if j <? nth 0 (nth i shps []) 0 then p2_entry F Op w A B C (nth i ps (mk [] [])) R R i j k else f0 Op.
Proof. exact parafac2_validated. Qed.
Print Assumptions C03_parafac2_validated.

(* ------------------------------------------------------------------ late rejection of a non-square PARAFAC2 B *)
(* _validate_parafac2_tensor only looks at the column count of B.  A B with q <> R rows is accepted, but it is never silently
   reconstructed: every slice / slices / tensor / unfolded / vec view raises (the product P_i B is undefined) -- for every
   number I >= 1 of slices.  Triage: not a violation of C03 (an error IS raised, only late); documented here as a theorem. *)
Theorem C03_parafac2_nonsquare_B_rejected : forall (F : Type) (Op : fops F)
  (w : option (tensor F)) (A B C : tensor F) (ps : list (tensor F)) (I q R : nat) (Js : list nat),
  shape A = [I; R] -> shape B = [q; R] -> q <> R -> 0 < I ->
  Forall2 (fun (P : tensor F) J => shape P = [J; R]) ps Js ->
  (forall i, parafac2_to_slice Op w [A; B; C] ps i = Err) /\
  parafac2_to_slices Op w [A; B; C] ps = Err /\
  parafac2_to_tensor Op w [A; B; C] ps = Err /\
  (forall m, parafac2_to_unfolded Op w [A; B; C] ps m = Err) /\
  parafac2_to_vec Op w [A; B; C] ps = Err.
Proof. exact parafac2_nonsquare_B_rejected. Qed.
Print Assumptions C03_parafac2_nonsquare_B_rejected.
Example C03_nonsquare_B_accepted :
  validate_parafac2 Zops None [mk [1; 1] [2%Z]; mk [2; 1] [1; 1]%Z; mk [2; 1] [1; -1]%Z] [mk [2; 1] [0; 1]%Z] = Ok ([[2; 2]], 1).
Proof. exact nonsquare_B_accepted. Qed.

(* ------------------------------------------------------------------ every accepted CP tensor, incl. 1-D (rank-1) factors *)
(* the reconstructions view 1-D factors as single columns (repaired in /repo by 148e558): EVERY (weights, factors) accepted by
   _validate_cp_tensor -- matrix factors or, for rank 1, vectors -- has all its views; the dense view has the reported shape and
   is the defining sum of outer products; unfolded / vec are those of the dense view; cp_norm^2 is its sum of squares *)
Theorem C03_cp_accepted_reconstructs : forall (F : Type) (Op : fops F), is_ring Op ->
  forall (w : option (tensor F)) (fs : list (tensor F)) (shp : list nat) (R m : nat),
  validate_cp w fs = Ok (shp, R) -> m < length fs -> 0 < prod shp ->
  (exists t, cp_to_tensor Op w fs None = Ok t /\ shape t = shp /\
             forall idx, inb shp idx -> get (f0 Op) t idx = cp_entry F Op w (as_matrices fs) R idx) /\
  (exists t u, cp_to_tensor Op w fs None = Ok t /\ cp_to_unfolded Op w fs m = Ok u /\ unfold (f0 Op) t m = Ok u) /\
  (exists t v, cp_to_tensor Op w fs None = Ok t /\ cp_to_vec Op w fs = Ok v /\ tensor_to_vec t = Ok v) /\
  cp_normsq Op w fs =
    Ok (sum_idx F (f0 Op) (fadd Op) shp (fun idx => fmul Op (cp_entry F Op w (as_matrices fs) R idx) (cp_entry F Op w (as_matrices fs) R idx))).
Proof. exact cp_accepted_reconstructs. Qed.
Print Assumptions C03_cp_accepted_reconstructs.
(* the former defect (1-D factors accepted but not reconstructable) as an executed example *)
Example C03_cp_1d_factors_example :
  validate_cp None [mk [3] [1; 2; 3]%Z; mk [2] [2; -1]%Z] = Ok ([3; 2], 1) /\
  cp_to_tensor Zops None [mk [3] [1; 2; 3]%Z; mk [2] [2; -1]%Z] None = Ok (mk [3; 2] [2; -1; 4; -2; 6; -3]%Z) /\
  cp_to_unfolded Zops None [mk [3] [1; 2; 3]%Z; mk [2] [2; -1]%Z] 1 = Ok (mk [2; 3] [2; 4; 6; -1; -2; -3]%Z) /\
  cp_normsq Zops None [mk [3] [1; 2; 3]%Z; mk [2] [2; -1]%Z] = Ok 70%Z.
Proof. exact cp_1d_factors_example. Qed.

(* ------------------------------------------------------------------ wrapper objects (CPTensor, TuckerTensor, TTTensor, ...) *)
(* object model: the constructor validates once and caches (shape, rank); _validate_*(obj) returns the cache; the functions
   unpack the stored contents; __setitem__ replaces contents and leaves the cache alone *)
(* tuple input and wrapper-object input give the same views (weights=None is stored as ones(rank): harmless) *)
Theorem C03_cp_tuple_vs_wrapper : forall (F : Type) (Op : fops F), is_ring Op ->
  forall (w : option (tensor F)) (fs : list (tensor F)) (o : cp_obj),
  cp_new Op w fs = Ok o -> Forall (@wf F) fs ->
  (forall mask, cpo_to_tensor Op o mask = cp_to_tensor Op w fs mask) /\
  (forall m, cpo_to_unfolded Op o m = cp_to_unfolded Op w fs m) /\
  cpo_to_vec Op o = cp_to_vec Op w fs /\
  cpo_normsq Op o = cp_normsq Op w fs /\
  cpo_validate o = validate_cp w fs.
Proof. exact cp_tuple_vs_wrapper. Qed.
Print Assumptions C03_cp_tuple_vs_wrapper.

(* as long as the cache is what validation of the stored contents returns, every view of the object is the view of its contents *)
Theorem C03_cp_obj_views_partial : forall (F : Type) (Op : fops F) (o : cp_obj), validate_cp (cpo_weights o) (cpo_factors o) = Ok (cpo_shape o, cpo_rank o) ->
  (forall mask, cpo_to_tensor Op o mask = cp_to_tensor Op (cpo_weights o) (cpo_factors o) mask) /\
  (forall m, cpo_to_unfolded Op o m = cp_to_unfolded Op (cpo_weights o) (cpo_factors o) m) /\
  cpo_to_vec Op o = cp_to_vec Op (cpo_weights o) (cpo_factors o) /\
  cpo_normsq Op o = cp_normsq Op (cpo_weights o) (cpo_factors o) /\
  cpo_validate o = validate_cp (cpo_weights o) (cpo_factors o).
Proof. exact cp_obj_views. Qed.
Print Assumptions C03_cp_obj_views_partial.

(* the cache stays valid under construction and under every __setitem__ that stores arrays of the shapes they replace *)
Theorem C03_cp_cache_valid : forall (F : Type) (Op : fops F)
  (w : option (tensor F)) (fs : list (tensor F)) (o : cp_obj), cp_new Op w fs = Ok o ->
  cp_consistent F o /\
  forall (w' : option (tensor F)) (fs' : list (tensor F)),
    option_map (@shape F) w' = option_map (@shape F) (cpo_weights o) -> map (@shape F) fs' = map (@shape F) (cpo_factors o) ->
    cp_consistent F (cp_set_factors (cp_set_weights o w') fs').
Proof. exact cp_cache_valid. Qed.
Print Assumptions C03_cp_cache_valid.

Theorem C03_chain_cache_valid : forall (F : Type) (cs : list (tensor F)) (o : ch_obj),
  (ch_new validate_tt cs = Ok o -> ch_consistent F validate_tt o /\ cho_cores o = cs) /\
  (ch_new validate_tr cs = Ok o -> ch_consistent F validate_tr o /\ cho_cores o = cs) /\
  (ch_new validate_ttm cs = Ok o -> ch_consistent F validate_ttm o /\ cho_cores o = cs) /\
  (forall validate, (validate = validate_tt \/ validate = validate_tr \/ validate = validate_ttm) ->
     forall k c o', ch_consistent F validate o -> shape c = shape (nth k (cho_cores o) (mk [] [])) -> ch_set o k c = Ok o' ->
     ch_consistent F validate o').
Proof. exact chain_cache_valid. Qed.
Print Assumptions C03_chain_cache_valid.

Theorem C03_tucker_cache_valid : forall (F : Type) (core : tensor F) (fs : list (tensor F)) (o : tk_obj),
  tucker_new core fs = Ok o ->
  tk_consistent F o /\ tko_core o = core /\ tko_factors o = fs /\
  forall core' fs', shape core' = shape (tko_core o) -> map (@shape F) fs' = map (@shape F) (tko_factors o) ->
    tk_consistent F (tk_set_factors (tk_set_core o core') fs').
Proof. exact tucker_cache_valid. Qed.
Print Assumptions C03_tucker_cache_valid.

(* HISTORIES (round 8): any finite sequence of __setitem__ operations each of which stores arrays of the shapes it replaces (cp_history_ok:
   checked against the state the operation is applied to) - induction over the history.  CPTensor: after ANY such history on a constructed
   object every view is the view of the (weights, factors) stored NOW, and the cache still is the validator's answer for the constructor's
   arguments.  (Without the shape condition: C03_cp_setitem_stale_refuted.) *)
Theorem C03_cp_history_views : forall (F : Type) (Op : fops F) (w : option (tensor F)) (fs : list (tensor F)) (o : cp_obj) (ops : list (cp_op F)),
  cp_new Op w fs = Ok o -> cp_history_ok F o ops ->
  let o' := cp_run F o ops in
  (forall mask, cpo_to_tensor Op o' mask = cp_to_tensor Op (cpo_weights o') (cpo_factors o') mask) /\
  (forall m, cpo_to_unfolded Op o' m = cp_to_unfolded Op (cpo_weights o') (cpo_factors o') m) /\
  cpo_to_vec Op o' = cp_to_vec Op (cpo_weights o') (cpo_factors o') /\
  cpo_normsq Op o' = cp_normsq Op (cpo_weights o') (cpo_factors o') /\
  cpo_validate o' = validate_cp (cpo_weights o') (cpo_factors o') /\
  validate_cp w fs = Ok (cpo_shape o', cpo_rank o').
Proof. exact cp_history_views. Qed.
Print Assumptions C03_cp_history_views.
Example C03_cp_history_example :
  let A := mk [2; 2] [1; 2; 3; 4]%Z in let B := mk [3; 2] [1; 0; 2; -1; 1; 1]%Z in
  exists o, cp_new Zops None [A; B] = Ok o /\
    cp_history_ok Z o [CSetF Z [mk [2; 2] [0; 1; 1; 0]%Z; B]; CSetW Z (Some (mk [2] [2; -1]%Z))] /\
    cpo_weights (cp_run Z o [CSetF Z [mk [2; 2] [0; 1; 1; 0]%Z; B]; CSetW Z (Some (mk [2] [2; -1]%Z))]) = Some (mk [2] [2; -1]%Z).
Proof. exact cp_history_example. Qed.
(* TTTensor / TRTensor / TTMatrix: a history of obj[k] = core (ch_run; it fails only by an index out of range: C03_ch_run_ok) keeps the cache
   = the validator's answer for the stored cores, the reported shape / rank and the number of cores *)
Theorem C03_ch_history_consistent : forall (F : Type) (validate : list (tensor F) -> res (list nat * list nat)),
  (validate = validate_tt \/ validate = validate_tr \/ validate = validate_ttm) ->
  forall (ops : list (nat * tensor F)) (o o' : ch_obj), ch_consistent F validate o -> ch_history_ok F o ops -> ch_run F o ops = Ok o' ->
  ch_consistent F validate o' /\ cho_shape o' = cho_shape o /\ cho_rank o' = cho_rank o /\ length (cho_cores o') = length (cho_cores o).
Proof. exact ch_history_consistent. Qed.
Print Assumptions C03_ch_history_consistent.
Theorem C03_ch_run_ok : forall (F : Type) (ops : list (nat * tensor F)) (o : ch_obj),
  Forall (fun kc : nat * tensor F => fst kc < length (cho_cores o)) ops -> exists o', ch_run F o ops = Ok o'.
Proof. exact ch_run_ok. Qed.
Print Assumptions C03_ch_run_ok.
Example C03_ch_history_example :
  exists o o', ch_new validate_tt [mk [1; 2; 1] [1; 2]%Z] = Ok o /\ ch_history_ok Z o [(0, mk [1; 2; 1] [5; 7]%Z); (0, mk [1; 2; 1] [0; 1]%Z)] /\
    ch_run Z o [(0, mk [1; 2; 1] [5; 7]%Z); (0, mk [1; 2; 1] [0; 1]%Z)] = Ok o' /\ cho_cores o' = [mk [1; 2; 1] [0; 1]%Z].
Proof. exact ch_history_example. Qed.
(* TuckerTensor: histories of obj[0] = core / obj[1] = factors *)
Theorem C03_tk_history_consistent : forall (F : Type) (ops : list (tk_op F)) (o : tk_obj), tk_consistent F o -> tk_history_ok F o ops ->
  tk_consistent F (tk_run F o ops) /\ tko_shape (tk_run F o ops) = tko_shape o /\ tko_rank (tk_run F o ops) = tko_rank o.
Proof. exact tk_history_consistent. Qed.
Print Assumptions C03_tk_history_consistent.

(* Parafac2Tensor((weights, factors, projections)) vs the tuple: same slice(i), slices, tensor and (slice shapes, rank), incl.
   weights=None stored as ones(rank) *)
Theorem C03_p2_tuple_vs_wrapper : forall (F : Type) (Op : fops F), is_ring Op ->
  forall (w : option (tensor F)) (A B C : tensor F) (ps : list (tensor F)) (o : p2_obj) (I R : nat),
  p2_new Op w [A; B; C] ps = Ok o -> shape A = [I; R] -> wf A ->
  (forall i, p2o_to_slice Op o i = parafac2_to_slice Op w [A; B; C] ps i) /\
  p2o_to_slices Op o = parafac2_to_slices Op w [A; B; C] ps /\
  p2o_to_tensor Op o = parafac2_to_tensor Op w [A; B; C] ps /\
  p2o_validate o = validate_parafac2 Op w [A; B; C] ps.
Proof. exact p2_tuple_vs_wrapper. Qed.
Print Assumptions C03_p2_tuple_vs_wrapper.

(* TuckerTensor / TTTensor / TRTensor / TTMatrix: right after construction the object stores the given contents, its cache is the
   validator's answer, and (the functions unpack the object) its reconstruction is the tuple's *)
Theorem C03_tucker_tuple_vs_wrapper : forall (F : Type) (Op : fops F) (core : tensor F) (fs : list (tensor F)) (o : tk_obj)
  (skip : option nat) (tr : bool),
  tucker_new core fs = Ok o ->
  tko_to_tensor Op o skip tr = tucker_to_tensor Op core fs skip tr /\ validate_tucker core fs = Ok (tko_shape o, tko_rank o).
Proof. exact tucker_tuple_vs_wrapper. Qed.
Print Assumptions C03_tucker_tuple_vs_wrapper.
Theorem C03_chain_tuple_vs_wrapper : forall (F : Type) (validate : list (tensor F) -> res (list nat * list nat))
  (cs : list (tensor F)) (o : ch_obj),
  ch_new validate cs = Ok o -> cho_cores o = cs /\ validate cs = Ok (cho_shape o, cho_rank o).
Proof. exact chain_tuple_vs_wrapper. Qed.
Print Assumptions C03_chain_tuple_vs_wrapper.

(* genuine defect (known finding): __setitem__ with an array of ANOTHER shape leaves the cache stale -- CPTensor then reports the old
   shape and to_tensor folds the new data into the old shape (a wrong tensor, silently); TTTensor reports a shape that is not the
   shape of its reconstruction *)
Theorem C03_cp_setitem_stale_refuted :
  exists (o o' : cp_obj (F:=Z)) t t',
    cp_new Zops None [sA; sB] = Ok o /\ o' = cp_set_factors o [sB; sA] /\
    validate_cp (cpo_weights o') (cpo_factors o') = Ok ([3; 2], 2) /\ cpo_validate o' = Ok ([2; 3], 2) /\
    cpo_to_tensor Zops o' None = Ok t /\ cp_to_tensor Zops (cpo_weights o') (cpo_factors o') None = Ok t' /\
    shape t = [2; 3] /\ shape t' = [3; 2] /\ t <> t'.
Proof. exact cp_setitem_stale_refuted. Qed.
Print Assumptions C03_cp_setitem_stale_refuted.
Theorem C03_tt_setitem_stale_refuted :
  exists (o o' : ch_obj (F:=Z)) t,
    ch_new validate_tt [mk [1; 2; 1] [1; 2]%Z] = Ok o /\ ch_set o 0 (mk [1; 3; 1] [1; 2; 3]%Z) = Ok o' /\
    cho_shape o' = [2] /\ tt_to_tensor Zops (cho_cores o') = Ok t /\ shape t = [3].
Proof. exact tt_setitem_stale_refuted. Qed.
Print Assumptions C03_tt_setitem_stale_refuted.

(* ------------------------------------------------------------------ naturality in the carrier ("no entry is rounded or re-typed") *)
(* every reconstruction commutes with every entry-wise ring homomorphism h (0, 1, +, * preserved; no ring axiom needed): converting
   the stored arrays exactly (int -> float, float32 -> float64, real -> complex, Z -> R ...) and reconstructing equals reconstructing
   and converting the result -- also Err is preserved both ways, and the validator's answer does not depend on the entries.
   (_validate_parafac2_tensor compares entries and is not covered; the PARAFAC2 reconstructions are, for any validator answer v.) *)
Theorem C03_reconstructions_natural : forall (F G : Type) (OpF : fops F) (OpG : fops G) (h : F -> G), ring_hom OpF OpG h ->
  let tm := tmap h in let tms := map (tmap h) in
  (* CP, tuple input (the validator looks at shapes only) and any cached validation v (wrapper objects) *)
  (forall w fs, validate_cp (omap tm w) (tms fs) = validate_cp w fs) /\
  (forall v w fs mask, cp_to_tensor_from OpG v (omap tm w) (tms fs) (omap tm mask) = rmap tm (cp_to_tensor_from OpF v w fs mask)) /\
  (forall v w fs m, cp_to_unfolded_from OpG v (omap tm w) (tms fs) m = rmap tm (cp_to_unfolded_from OpF v w fs m)) /\
  (forall v w fs, cp_to_vec_from OpG v (omap tm w) (tms fs) = rmap tm (cp_to_vec_from OpF v w fs)) /\
  (forall v w fs, cp_normsq_from OpG v (omap tm w) (tms fs) = rmap h (cp_normsq_from OpF v w fs)) /\
  (forall w fs mask, cp_to_tensor OpG (omap tm w) (tms fs) (omap tm mask) = rmap tm (cp_to_tensor OpF w fs mask)) /\
  (* Tucker *)
  (forall core fs skip tr, tucker_to_tensor OpG (tm core) (tms fs) skip tr = rmap tm (tucker_to_tensor OpF core fs skip tr)) /\
  (* tensor train, tensor ring, TT-matrix (core and einsum routes) *)
  (forall cs, tt_to_tensor OpG (tms cs) = rmap tm (tt_to_tensor OpF cs)) /\
  (forall cs, tr_to_tensor OpG (tms cs) = rmap tm (tr_to_tensor OpF cs)) /\
  (forall cs, ttm_to_tensor OpG (tms cs) = rmap tm (ttm_to_tensor OpF cs)) /\
  (forall cs, ttm_to_tensor_einsum OpG (tms cs) = rmap tm (ttm_to_tensor_einsum OpF cs)) /\
  (* PARAFAC2, for whatever answer v the validator gave *)
  (forall v w fs ps i, parafac2_to_slice_from OpG v (omap tm w) (tms fs) (tms ps) i = rmap tm (parafac2_to_slice_from OpF v w fs ps i)) /\
  (forall v w fs ps, parafac2_to_slices_from OpG v (omap tm w) (tms fs) (tms ps) = rmap tms (parafac2_to_slices_from OpF v w fs ps)) /\
  (forall v w fs ps, parafac2_to_tensor_from OpG v (omap tm w) (tms fs) (tms ps) = rmap tm (parafac2_to_tensor_from OpF v w fs ps)).
Proof. exact reconstructions_natural. Qed.
Print Assumptions C03_reconstructions_natural.
(* the hypothesis is satisfiable: the embedding of the integers into the reals *)
Example C03_ring_hom_Z_R : ring_hom Zops Rops IZR.
Proof. repeat split; [apply plus_IZR | apply mult_IZR]. Qed.

(* ------------------------------------------------------------------ both tenalg backends: CP and Tucker *)
(* under the einsum backend cp_tensor.py runs with the einsum khatri_rao and tucker_tensor.py with the einsum multi_mode_dot (each
   ONE np.einsum call, modelled by its sum-of-products semantics).  For every accepted (weights, factors), every mask, every mode and
   every cached validation v the einsum routes return what the core routes return; same for Tucker with skip_factor and
   transpose_factors (sizes >= 1) *)
Theorem C03_cp_einsum_eq_core : forall (F : Type) (Op : fops F), is_ring Op ->
  forall (w : option (tensor F)) (fs : list (tensor F)) (shp : list nat) (R : nat),
  validate_cp w fs = Ok (shp, R) ->
  (forall v mask, cp_to_tensor_from_einsum Op v w fs mask = cp_to_tensor_from Op v w fs mask) /\
  (forall v m, cp_to_unfolded_from_einsum Op v w fs m = cp_to_unfolded_from Op v w fs m) /\
  (forall v, cp_to_vec_from_einsum Op v w fs = cp_to_vec_from Op v w fs).
Proof. exact cp_einsum_eq_core. Qed.
Print Assumptions C03_cp_einsum_eq_core.

Theorem C03_tucker_einsum_eq_core : forall (F : Type) (Op : fops F), is_ring Op ->
  forall (core : tensor F) (fs : list (tensor F)) (ns : list nat) (skip : option nat),
  tk_shapes F 0 skip fs ns (shape core) -> wf core -> 0 < prod (shape core) -> 0 < prod ns ->
  tucker_to_tensor_einsum Op core fs skip false = tucker_to_tensor Op core fs skip false.
Proof. exact tucker_einsum_eq_core. Qed.
Print Assumptions C03_tucker_einsum_eq_core.

Theorem C03_tucker_einsum_eq_core_transposed : forall (F : Type) (Op : fops F), is_ring Op ->
  forall (core : tensor F) (fs : list (tensor F)) (ns : list nat) (skip : option nat),
  Forall (fun M => ndim M = 2) fs -> tk_shapes F 0 skip (map (mT Op) fs) ns (shape core) -> wf core ->
  0 < prod (shape core) -> 0 < prod ns ->
  tucker_to_tensor_einsum Op core fs skip true = tucker_to_tensor Op core fs skip true.
Proof. exact tucker_einsum_eq_core_transposed. Qed.
Print Assumptions C03_tucker_einsum_eq_core_transposed.

(* ------------------------------------------------------------------ unfolded / vectorised views of the other five families *)
(* views_of_entries d vec unf shp E (Proofs17) says: vec = Ok v with shape (prod shp,) and v[ravel idx] = E idx;  for every mode
   m < order, unf m = Ok u with shape (shp_m, prod of the other sizes) and u[idx_m, row-major index of the other coordinates] = E idx;
   every mode >= order is rejected.  In model and code these views are unfold / tensor_to_vec of the dense reconstruction; the
   theorems give them entry-level statements in terms of the defining contraction, for whatever the validators accept *)
Theorem C03_views_of_entries_unfold : forall (F : Type) (d : F) vec unf shp E,
  views_of_entries F d vec unf shp E <->
  (exists v, vec = Ok v /\ shape v = [prod shp] /\ forall idx, inb shp idx -> get d v [ravel shp idx] = E idx) /\
  (forall m, m < length shp ->
     exists u, unf m = Ok u /\ shape u = [nth m shp 0; prod (remove_nth m shp)] /\
       forall idx, inb shp idx -> get d u [nth m idx 0; ravel (remove_nth m shp) (remove_nth m idx)] = E idx) /\
  (forall m, length shp <= m -> unf m = Err).
Proof. exact views_of_entries_unfold. Qed.
Print Assumptions C03_views_of_entries_unfold.

Theorem C03_tt_views : forall (F : Type) (Op : fops F), is_ring Op ->
  forall (cs : list (tensor F)) (shp rk : list nat),
  validate_tt cs = Ok (shp, rk) -> Forall (fun x => 0 < x) rk -> 0 < prod shp ->
  views_of_entries F (f0 Op) (tt_to_vec Op cs) (tt_to_unfolded Op cs) shp (fun idx => chain F Op cs idx 0 0).
Proof. exact tt_views. Qed.
Print Assumptions C03_tt_views.

Theorem C03_tr_views : forall (F : Type) (Op : fops F), is_ring Op ->
  forall (cs : list (tensor F)) (shp rk : list nat),
  validate_tr cs = Ok (shp, rk) -> Forall (fun x => 0 < x) rk -> 0 < prod shp ->
  views_of_entries F (f0 Op) (tr_to_vec Op cs) (tr_to_unfolded Op cs) shp
    (fun idx => fsumn Op (hd 0 rk) (fun a => chain F Op cs idx a a)).
Proof. exact tr_views. Qed.
Print Assumptions C03_tr_views.

Theorem C03_tucker_views : forall (F : Type) (Op : fops F), is_ring Op ->
  forall (core : tensor F) (fs : list (tensor F)) (shp rk : list nat),
  validate_tucker core fs = Ok (shp, rk) -> wf core -> 0 < prod rk -> 0 < prod shp ->
  views_of_entries F (f0 Op) (tucker_to_vec Op core fs None false) (fun m => tucker_to_unfolded Op core fs m None false) shp
    (fun idx => sum_idx F (f0 Op) (fadd Op) rk (fun js => fmul Op (get (f0 Op) core js) (tk_prod F Op 0 None fs idx js))).
Proof. exact tucker_views. Qed.
Print Assumptions C03_tucker_views.

(* with skip_factor (the skipped mode keeps the core's size and contributes the Kronecker delta) *)
Theorem C03_tucker_views_skip : forall (F : Type) (Op : fops F), is_ring Op ->
  forall (core : tensor F) (fs : list (tensor F)) (ns : list nat) (skip : option nat),
  tk_shapes F 0 skip fs ns (shape core) -> wf core -> 0 < prod (shape core) -> 0 < prod ns ->
  views_of_entries F (f0 Op) (tucker_to_vec Op core fs skip false) (fun m => tucker_to_unfolded Op core fs m skip false) ns
    (fun idx => sum_idx F (f0 Op) (fadd Op) (shape core) (fun js => fmul Op (get (f0 Op) core js) (tk_prod F Op 0 skip fs idx js))).
Proof. exact tucker_views_skip. Qed.
Print Assumptions C03_tucker_views_skip.

(* TT-matrix: the dense tensor has shape in sizes ++ out sizes; an index splits into its first N and last N coordinates *)
Theorem C03_ttm_views : forall (F : Type) (Op : fops F), is_ring Op ->
  forall (cs : list (tensor F)) (shp rk : list nat),
  validate_ttm cs = Ok (shp, rk) -> Forall (fun x => 0 < x) rk -> 0 < prod shp ->
  views_of_entries F (f0 Op) (ttm_to_vec Op cs) (ttm_to_unfolded Op cs) shp
    (fun idx => chain4 F Op cs (interleave (firstn (length cs) idx) (skipn (length cs) idx)) 0 0).
Proof. exact ttm_views. Qed.
Print Assumptions C03_ttm_views.

(* PARAFAC2: views of the zero-padded tensor of shape (I, max_i J_i, K) *)
Theorem C03_parafac2_views : forall (F : Type) (Op : fops F), is_ring Op ->
  (forall x y : F, feqb Op x y = true <-> x = y) ->
  forall (w : option (tensor F)) (A B C : tensor F) (ps : list (tensor F)) (shps : list (list nat)) (R I : nat),
  validate_parafac2 Op w [A; B; C] ps = Ok (shps, R) ->
  shape A = [I; R] -> shape B = [R; R] -> w_ok F w R ->
  0 < I -> 0 < fold_right Nat.max 0 (map (fun s => nth 0 s 0) shps) -> 0 < nrows C ->
  views_of_entries F (f0 Op) (parafac2_to_vec Op w [A; B; C] ps) (parafac2_to_unfolded Op w [A; B; C] ps)
    [I; fold_right Nat.max 0 (map (fun s => nth 0 s 0) shps); nrows C]
    (fun idx => let i := nth 0 idx 0 in let j := nth 1 idx 0 in let k := nth 2 idx 0 in
       if j <? nth 0 (nth i shps []) 0 then p2_entry F Op w A B C (nth i ps (mk [] [])) R R i j k else f0 Op).
Proof. exact parafac2_views. Qed.
Print Assumptions C03_parafac2_views.

Example C03_tt_views_hyps :
  let cs := [mk [1; 2; 2] [1; 2; 3; 4]%Z; mk [2; 3; 1] [1; 0; 2; -1; 1; 1]%Z] in
  validate_tt cs = Ok ([2; 3], [1; 2; 1]) /\ Forall (fun x => 0 < x) [1; 2; 1] /\ 0 < prod [2; 3] /\
  tt_to_unfolded Zops cs 1 = Ok (mk [3; 2] [-1; -1; 2; 4; 4; 10]%Z) /\ tt_to_vec Zops cs = Ok (mk [6] [-1; 2; 4; -1; 4; 10]%Z) /\
  tt_to_unfolded Zops cs 2 = Err.
Proof. exact tt_views_hyps. Qed.
Example C03_ttm_views_hyps :
  let cs := [mk [1; 2; 1; 2] [1; 2; 3; 4]%Z; mk [2; 1; 3; 1] [1; 0; 2; -1; 1; 1]%Z] in
  validate_ttm cs = Ok ([2; 1; 1; 3], [1; 2; 1]) /\ 0 < prod [2; 1; 1; 3].
Proof. exact ttm_views_hyps. Qed.
Example C03_p2_views_hyps :
  validate_parafac2 Zops (Some (mk [1] [3%Z])) [mk [2; 1] [1; 2]%Z; mk [1; 1] [1%Z]; mk [2; 1] [1; -1]%Z]
                    [mk [2; 1] [0; 1]%Z; mk [1; 1] [-1]%Z] = Ok ([[2; 2]; [1; 2]], 1) /\
  0 < fold_right Nat.max 0 (map (fun s => nth 0 s 0) [[2; 2]; [1; 2]]) /\ 0 < nrows (mk [2; 1] [1; -1]%Z).
Proof. exact p2_views_hyps. Qed.

(* ------------------------------------------------------------------ the einsum backend on operands that do not fit *)
(* tucker_to_tensor_einsum_b is what the single np.einsum call of the einsum multi_mode_dot really computes (size-1 dimensions
   broadcast, core modes beyond the last factor kept): the correspondence runs it on well-formed AND malformed operands.  It
   extends the exact-shape model, so on well-formed input it is the core route *)
Theorem C03_tucker_einsum_b_extends : forall (F : Type) (Op : fops F) (core : tensor F) (fs : list (tensor F)) (skip : option nat) (tr : bool) (t : tensor F),
  tucker_to_tensor_einsum Op core fs skip tr = Ok t -> tucker_to_tensor_einsum_b Op core fs skip tr = Ok t.
Proof. exact tucker_einsum_b_extends. Qed.
Print Assumptions C03_tucker_einsum_b_extends.

Theorem C03_tucker_einsum_b_eq_core : forall (F : Type) (Op : fops F), is_ring Op ->
  forall (core : tensor F) (fs : list (tensor F)) (ns : list nat) (skip : option nat),
  tk_shapes F 0 skip fs ns (shape core) -> wf core -> 0 < prod (shape core) -> 0 < prod ns ->
  tucker_to_tensor_einsum_b Op core fs skip false = tucker_to_tensor Op core fs skip false.
Proof. exact tucker_einsum_b_eq_core. Qed.
Print Assumptions C03_tucker_einsum_b_eq_core.

(* the former defect (repaired in /repo by 8b25fc6): the reconstruction FUNCTIONS of Tucker / TT / TR / TT-matrix did not validate; factor
   sets that the validators reject were silently reconstructed -- by np.einsum's broadcasting of size-1 dimensions (Tucker), by its
   summing over open boundary ranks / broadcasting of inner ranks (TT-matrix), and, under both backends, by tt_to_tensor / tr_to_tensor
   when the products of the ranks happen to fit.  The former witnesses as examples: the functions now refuse them, the raw chains
   (= the code before the repair) still show what used to come out *)
Example C03_before_8b25fc6_tucker_einsum :
  validate_tucker bc_core1 bc_fs1 = Err /\ tucker_to_tensor Zops bc_core1 bc_fs1 None false = Err /\
  tucker_to_tensor_einsum_b Zops bc_core1 bc_fs1 None false = Err /\
  validate_tucker bc_core2 bc_fs2 = Err /\ tucker_to_tensor Zops bc_core2 bc_fs2 None false = Err /\
  tucker_to_tensor_einsum_b Zops bc_core2 bc_fs2 None false = Err.
Proof. exact before_8b25fc6_tucker_einsum. Qed.
Example C03_before_8b25fc6_ttm_einsum :
  validate_ttm bc_ttm1 = Err /\ ttm_to_tensor Zops bc_ttm1 = Err /\ ttm_to_tensor_einsum Zops bc_ttm1 = Err /\
  ttm_to_tensor_einsum_raw Zops bc_ttm1 = Ok (mk [2; 1; 1; 2] [4; 4; 4; 4]%Z) /\
  validate_ttm bc_ttm2 = Err /\ ttm_to_tensor Zops bc_ttm2 = Err /\ ttm_to_tensor_einsum Zops bc_ttm2 = Err /\
  ttm_to_tensor_einsum_raw Zops bc_ttm2 = Ok (mk [2; 1; 1; 2] [3; 3; 3; 3]%Z).
Proof. exact before_8b25fc6_ttm_einsum. Qed.
Example C03_before_8b25fc6_tt :
  validate_tt bc_tt = Err /\ tt_to_tensor Zops bc_tt = Err /\ exists t, tt_to_tensor_raw Zops bc_tt = Ok t /\ shape t = [3; 4].
Proof. exact before_8b25fc6_tt. Qed.
Example C03_before_8b25fc6_tr :
  validate_tr bc_tr = Err /\ tr_to_tensor Zops bc_tr = Err /\ exists t, tr_to_tensor_raw Zops bc_tr = Ok t /\ shape t = [2; 3].
Proof. exact before_8b25fc6_tr. Qed.

(* ANY mismatch between the first factor and the first core mode / between the first two cores is refused by the einsum routes *)
Theorem C03_tucker_einsum_mismatch_rejected : forall (F : Type) (Op : fops F) (core M : tensor F) (Ms : list (tensor F)) (c : nat) (cs' : list nat),
  shape core = c :: cs' -> ncols M <> c -> tucker_to_tensor_einsum_b Op core (M :: Ms) None false = Err.
Proof. exact tucker_einsum_mismatch_rejected. Qed.
Print Assumptions C03_tucker_einsum_mismatch_rejected.
Theorem C03_ttm_einsum_mismatch_rejected : forall (F : Type) (Op : fops F) (G1 G2 : tensor F) (rest : list (tensor F)) (a b c e a' b' c' e' : nat),
  shape G1 = [a; b; c; e] -> shape G2 = [a'; b'; c'; e'] -> e <> a' -> ttm_to_tensor_einsum Op (G1 :: G2 :: rest) = Err.
Proof. exact ttm_einsum_mismatch_rejected. Qed.
Print Assumptions C03_ttm_einsum_mismatch_rejected.

(* "a reconstruction function returns a tensor ONLY for a set its validator accepts": no hypothesis on the operands, any carrier, no ring
   axiom.  TT, TR (both backends run the same code), TT-matrix under the einsum backend (core backend: C03_ttm_core_ok_validated below),
   Tucker under the einsum backend (only if every factor that is not skipped fits its core mode; core backend: C03_tucker_core_ok_fits) *)
Theorem C03_tt_ok_validated : forall (F : Type) (Op : fops F) (cs : list (tensor F)) (t : tensor F),
  tt_to_tensor Op cs = Ok t -> exists shp rk, validate_tt cs = Ok (shp, rk).
Proof. exact tt_ok_validated. Qed.
Print Assumptions C03_tt_ok_validated.
Theorem C03_tr_ok_validated : forall (F : Type) (Op : fops F) (cs : list (tensor F)) (t : tensor F),
  tr_to_tensor Op cs = Ok t -> exists shp rk, validate_tr cs = Ok (shp, rk).
Proof. exact tr_ok_validated. Qed.
Print Assumptions C03_tr_ok_validated.
Theorem C03_ttm_einsum_ok_validated : forall (F : Type) (Op : fops F) (cs : list (tensor F)) (t : tensor F),
  ttm_to_tensor_einsum Op cs = Ok t -> exists shp rk, validate_ttm cs = Ok (shp, rk).
Proof. exact ttm_einsum_ok_validated. Qed.
Print Assumptions C03_ttm_einsum_ok_validated.
Theorem C03_tucker_einsum_ok_fits : forall (F : Type) (Op : fops F) (core : tensor F) (fs : list (tensor F)) (skip : option nat) (t : tensor F),
  tucker_to_tensor_einsum_b Op core fs skip false = Ok t -> tk_fits F 0 skip fs (shape core).
Proof. exact tucker_einsum_ok_fits. Qed.
Print Assumptions C03_tucker_einsum_ok_fits.
Theorem C03_tucker_einsum_misfit_rejected : forall (F : Type) (Op : fops F) (core : tensor F) (fs : list (tensor F)) (skip : option nat),
  ~ tk_fits F 0 skip fs (shape core) -> tucker_to_tensor_einsum_b Op core fs skip false = Err.
Proof. exact tucker_einsum_misfit_rejected. Qed.
Print Assumptions C03_tucker_einsum_misfit_rejected.

(* ------------------------------------------------------------------ the reconstruction functions themselves, core routes *)
(* "structurally invalid factor sets are rejected rather than silently reconstructed", for the reconstruction FUNCTIONS (which
   never call a validator), no hypothesis on the operands, any carrier, no ring axiom:
   tucker_to_tensor (core backend: unfold / dot / fold per mode) returns a tensor ONLY IF every factor that is not skipped is a
   matrix whose column count is the size of its core mode (tk_fits); so a factor that does not fit makes it raise *)
Theorem C03_tucker_core_ok_fits : forall (F : Type) (Op : fops F) (skip : option nat) (Ms : list (tensor F)) (k : nat) (T t : tensor F),
  multi_mode_dot_from Op k T Ms skip false = Ok t -> tk_fits F k skip Ms (shape T).
Proof. exact tucker_core_ok_fits. Qed.
Print Assumptions C03_tucker_core_ok_fits.
Theorem C03_tk_fits_unfold : forall (F : Type) (k : nat) (skip : option nat) (M : tensor F) (Ms : list (tensor F)) (cs : list nat),
  (tk_fits F k skip [] cs <-> True) /\
  (tk_fits F k skip (M :: Ms) cs <->
   (if ein_skipped skip k then True else ndim M = 2 /\ k < length cs /\ ncols M = nth k cs 0) /\ tk_fits F (S k) skip Ms cs).
Proof. exact tk_fits_unfold. Qed.
Print Assumptions C03_tk_fits_unfold.
Theorem C03_tucker_core_misfit_rejected : forall (F : Type) (Op : fops F) (core : tensor F) (fs : list (tensor F)) (skip : option nat),
  ~ tk_fits F 0 skip fs (shape core) -> tucker_to_tensor Op core fs skip false = Err.
Proof. exact tucker_core_misfit_rejected. Qed.
Print Assumptions C03_tucker_core_misfit_rejected.
Theorem C03_validated_tucker_fits : forall (F : Type) (core : tensor F) (fs : list (tensor F)) (shp rk : list nat),
  validate_tucker core fs = Ok (shp, rk) -> tk_fits F 0 None fs (shape core).
Proof. exact validated_tucker_fits. Qed.
Print Assumptions C03_validated_tucker_fits.
Example C03_tucker_misfit_example :
  ~ tk_fits Z 0 None [mk [2; 3] [1; 2; 3; 4; 5; 6]%Z; mk [2; 2] [1; 2; 3; 4]%Z] [1; 2] /\
  tk_fits Z 0 None [mk [2; 1] [1; 2]%Z; mk [2; 2] [1; 2; 3; 4]%Z] [1; 2].
Proof. exact tucker_misfit_example. Qed.

(* tt_matrix_to_tensor (core backend: tensordot chain, interleaved reshape, transposition) returns a tensor ONLY for what
   _validate_tt_matrix accepts (4-D cores with positive in / out sizes): the converse of C03_ttm_validated *)
Theorem C03_ttm_core_ok_validated : forall (F : Type) (Op : fops F) (cs : list (tensor F)) (t : tensor F) (ds : list (nat * nat * nat * nat)),
  ttm_to_tensor Op cs = Ok t -> all_shape4 cs = Ok ds -> 0 < prod (flat_map (fun x => [d4b x; d4c x]) ds) ->
  validate_ttm cs = Ok (map d4b ds ++ map d4c ds, map d4a ds ++ [1]).
Proof. exact ttm_core_ok_validated. Qed.
Print Assumptions C03_ttm_core_ok_validated.
Example C03_ttm_core_ok_hyps :
  let cs := [mk [1; 2; 1; 2] [1; 2; 3; 4]%Z; mk [2; 1; 3; 1] [1; 0; 2; -1; 1; 1]%Z] in
  (exists t, ttm_to_tensor Zops cs = Ok t) /\ all_shape4 cs = Ok [(1, 2, 1, 2); (2, 1, 3, 1)] /\
  0 < prod (flat_map (fun x => [d4b x; d4c x]) [(1, 2, 1, 2); (2, 1, 3, 1)]).
Proof. cbv zeta. split; [eexists; vm_compute; reflexivity | split; [reflexivity | cbv; lia]]. Qed.

(* the reshape / dot chain of tt_to_tensor ALONE (the code before 8b25fc6, tt_to_tensor_raw), NO hypothesis on the boundary ranks (round 8;
   closes the former C03_tt_chain_ok_validated_partial): the chain reads the first core (r0, n0, r1) as the n0 x (r0 r1) matrix, so it returns a
   tensor only if the rank bookkeeping of _validate_tt_tensor (consecutive ranks equal, last boundary rank 1) holds for the dimension triples
   with the first one re-read as (1, n0, r0 r1) (tt_chain_dims) - a wrong inner rank or a wrong last boundary rank always makes it raise -
   and the tensor has the mode sizes as its shape.  With first boundary rank 1 the re-reading is the identity and that IS the validator
   (C03_tt_chain_ok_validated_first_rank_one); a first boundary rank other than 1 is never accepted by the validator (C03_validate_tt_first_one)
   while the chain alone may accept it (the Example: C03_before_8b25fc6_tt's cores) - which is why the validator call was added *)
Theorem C03_tt_chain_ok_inv : forall (F : Type) (Op : fops F) (cs : list (tensor F)) (t : tensor F) (ds : list (nat * nat * nat)),
  tt_to_tensor_raw Op cs = Ok t -> all_shape3 cs = Ok ds -> 0 < prod (map d3b ds) ->
  chain_ok 1 (tt_chain_dims ds) = true /\ d3c (last (tt_chain_dims ds) (0, 0, 0)) = 1 /\ shape t = map d3b ds.
Proof. exact tt_chain_ok_inv. Qed.
Print Assumptions C03_tt_chain_ok_inv.
Theorem C03_tt_chain_ok_validated_first_rank_one : forall (F : Type) (Op : fops F) (cs : list (tensor F)) (t : tensor F) (ds : list (nat * nat * nat)),
  tt_to_tensor_raw Op cs = Ok t -> all_shape3 cs = Ok ds -> d3a (hd (0, 0, 0) ds) = 1 -> 0 < prod (map d3b ds) ->
  validate_tt cs = Ok (map d3b ds, map d3a ds ++ [1]).
Proof. exact tt_chain_ok_validated_first_one. Qed.
Print Assumptions C03_tt_chain_ok_validated_first_rank_one.
Theorem C03_validate_tt_first_one : forall (F : Type) (cs : list (tensor F)) (ds : list (nat * nat * nat)) (shp rk : list nat),
  all_shape3 cs = Ok ds -> validate_tt cs = Ok (shp, rk) -> d3a (hd (0, 0, 0) ds) = 1.
Proof. exact validate_tt_first_one. Qed.
Print Assumptions C03_validate_tt_first_one.
Example C03_tt_ok_hyps :
  let cs := [mk [1; 2; 2] [1; 2; 3; 4]%Z; mk [2; 3; 1] [1; 0; 2; -1; 1; 1]%Z] in
  (exists t, tt_to_tensor_raw Zops cs = Ok t) /\ all_shape3 cs = Ok [(1, 2, 2); (2, 3, 1)] /\ d3a (hd (0, 0, 0) [(1, 2, 2); (2, 3, 1)]) = 1 /\
  0 < prod (map d3b [(1, 2, 2); (2, 3, 1)]).
Proof. cbv zeta. split; [eexists; vm_compute; reflexivity | repeat split; cbv; lia]. Qed.
Example C03_tt_chain_ok_inv_example :
  let cs := [mk [2; 3; 1] [1; 2; 3; 4; 5; 6]%Z; mk [2; 4; 1] [1; 0; -1; 2; 1; 1; 0; 3]%Z] in
  let ds := [(2, 3, 1); (2, 4, 1)] in
  (exists t, tt_to_tensor_raw Zops cs = Ok t) /\ all_shape3 cs = Ok ds /\ 0 < prod (map d3b ds) /\
  chain_ok 1 (tt_chain_dims ds) = true /\ d3c (last (tt_chain_dims ds) (0, 0, 0)) = 1 /\ validate_tt cs = Err.
Proof. exact tt_chain_ok_inv_example. Qed.

(* ------------------------------------------------------------------ cp_to_unfolded with a negative mode *)
(* cp_to_unfolded_neg w fs k models cp_to_unfolded(cp, mode=-k) (repaired in /repo by b8d05d5).  Order 1: -1 is mode 0 and every other
   negative mode is rejected; order N >= 2: mode -k with 1 <= k <= N IS mode N - k (so C03_cp_to_unfolded applies to it), anything else is
   rejected *)
Theorem C03_cp_unfolded_neg_order1 : forall (F : Type) (Op : fops F) (w : option (tensor F)) (fs : list (tensor F)) (n R : nat),
  validate_cp w fs = Ok ([n], R) ->
  cp_to_unfolded_neg Op w fs 1 = cp_to_unfolded Op w fs 0 /\ forall k, k <> 1 -> cp_to_unfolded_neg Op w fs k = Err.
Proof. exact cp_unfolded_neg_order1. Qed.
Print Assumptions C03_cp_unfolded_neg_order1.
Theorem C03_cp_unfolded_neg_eq : forall (F : Type) (Op : fops F) (w : option (tensor F)) (fs : list (tensor F)) (shp : list nat) (R k : nat),
  validate_cp w fs = Ok (shp, R) -> length shp <> 1 -> 1 <= k <= length shp ->
  cp_to_unfolded_neg Op w fs k = cp_to_unfolded Op w fs (length shp - k).
Proof. exact cp_unfolded_neg_eq. Qed.
Print Assumptions C03_cp_unfolded_neg_eq.
Theorem C03_cp_unfolded_neg_out_of_range : forall (F : Type) (Op : fops F) (w : option (tensor F)) (fs : list (tensor F)) (shp : list nat) (R k : nat),
  validate_cp w fs = Ok (shp, R) -> length shp <> 1 -> (k = 0 \/ length shp < k) -> cp_to_unfolded_neg Op w fs k = Err.
Proof. exact cp_unfolded_neg_out_of_range. Qed.
Print Assumptions C03_cp_unfolded_neg_out_of_range.
(* the former witness (before b8d05d5: a 3 x 6 matrix, factors[-1] times the Khatri-Rao product of ALL factors) *)
Example C03_before_b8d05d5_cp_unfolded_negative_mode :
  validate_cp None nm_fs = Ok ([2; 3], 2) /\
  cp_to_unfolded Zops None nm_fs 1 = Ok (mk [3; 2] [1; 3; 0; 2; 3; 7]%Z) /\
  cp_to_unfolded_neg Zops None nm_fs 1 = Ok (mk [3; 2] [1; 3; 0; 2; 3; 7]%Z) /\
  cp_to_unfolded_neg Zops None nm_fs 3 = Err.
Proof. exact before_b8d05d5_cp_unfolded_negative_mode. Qed.
Example C03_cp_unfolded_neg_order1_hyps : validate_cp (Some wW) [wA] = Ok ([3], 2).
Proof. reflexivity. Qed.

(* ------------------------------------------------------------------ source tie of the chain validators *)
(* tt_prog / tr_prog / ttm_prog (Model/FactorizedSrc.v) are _validate_tt_tensor / _validate_tr_tensor / _validate_tt_matrix AS WRITTEN in
   the Python source: pre-check on the number of cores, arity of the tuple unpacking of tl.shape(factor), the `if <cond>: raise` checks in
   source order, the appends, the returned tuple.  On every run they are regenerated from the current source by an ast translation and
   checked to be these terms (corr:C03-src).  Their interpretation on the shapes of the cores IS the model's validator, for every list
   of cores of every carrier -- so the iff characterisations above speak about the source's chain of checks *)
Theorem C03_tt_prog_link : forall (F : Type) (cs : list (tensor F)), run_chain tt_prog (map (@shape F) cs) = validate_tt cs.
Proof. exact tt_prog_link. Qed.
Print Assumptions C03_tt_prog_link.
Theorem C03_tr_prog_link : forall (F : Type) (cs : list (tensor F)), run_chain tr_prog (map (@shape F) cs) = validate_tr cs.
Proof. exact tr_prog_link. Qed.
Print Assumptions C03_tr_prog_link.
Theorem C03_ttm_prog_link : forall (F : Type) (cs : list (tensor F)), run_chain ttm_prog (map (@shape F) cs) = validate_ttm cs.
Proof. exact ttm_prog_link. Qed.
Print Assumptions C03_ttm_prog_link.
Theorem C03_tucker_prog_link : forall (F : Type) (core : tensor F) (fs : list (tensor F)),
  run_tk tucker_prog (shape core) (map (@shape F) fs) = validate_tucker core fs.
Proof. exact tucker_prog_link. Qed.
Print Assumptions C03_tucker_prog_link.
Theorem C03_cp_prog_link : forall (F : Type) (w : option (tensor F)) (fs : list (tensor F)),
  run_cp cp_prog (option_map (@shape F) w) (map (@shape F) fs) = validate_cp w fs.
Proof. exact cp_prog_link. Qed.
Print Assumptions C03_cp_prog_link.
(* PARAFAC2: the orthonormality test of the source (max |P^T P - I| > 1e-5; the threshold is regenerated and must lie in (0,1)) is the
   interpreter's oracle, instantiated with the model's exact test *)
Theorem C03_p2_prog_link : forall (F : Type) (Op : fops F) (w : option (tensor F)) (fs ps : list (tensor F)),
  run_p2 p2_prog (option_map (@shape F) w) (map (@shape F) fs) (map (@shape F) ps) (fun r i => orthonormalb Op (nth i ps (mk [] [])) r)
  = validate_parafac2 Op w fs ps.
Proof. exact p2_prog_link. Qed.
Print Assumptions C03_p2_prog_link.
Example C03_run_p2_example :
  run_p2 p2_prog (Some [1]) [[2; 1]; [1; 1]; [2; 1]] [[2; 1]; [1; 1]] (fun _ _ => true) = Ok ([[2; 2]; [1; 2]], 1) /\
  run_p2 p2_prog None [[2; 1]; [1; 1]; [2; 1]] [[2; 1]; [1; 1]] (fun _ i => i =? 0) = Err /\
  run_p2 p2_prog None [[2; 1]; [1; 1]] [[2; 1]; [1; 1]] (fun _ _ => true) = Err.
Proof. repeat split; reflexivity. Qed.
Example C03_run_tk_cp_example :
  run_tk tucker_prog [2; 2] [[3; 2]; [1; 2]] = Ok ([3; 1], [2; 2]) /\ run_tk tucker_prog [2; 2] [[3; 2]; [1; 3]] = Err /\
  run_cp cp_prog (Some [2]) [[3; 2]; [4; 2]] = Ok ([3; 4], 2) /\ run_cp cp_prog None [[3]; [4]] = Ok ([3; 4], 1) /\ run_cp cp_prog (Some [2; 1]) [[3; 2]] = Err.
Proof. repeat split; reflexivity. Qed.
(* the interpreter does something: a two-core train, and the same cores as a ring (the ring does not close) *)
Example C03_run_chain_example :
  run_chain tt_prog [[1; 2; 2]; [2; 3; 1]] = Ok ([2; 3], [1; 2; 1]) /\ run_chain tr_prog [[1; 2; 2]; [2; 3; 1]] = Ok ([2; 3], [1; 2; 1]) /\
  run_chain tr_prog [[1; 2; 2]; [2; 3; 3]] = Err /\ run_chain ttm_prog [[1; 2; 1; 2]; [2; 1; 3; 1]] = Ok ([2; 1; 1; 3], [1; 2; 1]) /\
  run_chain tt_prog [] = Err /\ run_chain tt_prog [[1; 2]] = Err.
Proof. repeat split; reflexivity. Qed.

(* ------------------------------------------------------------------ negative unfolding modes of the other five families *)
(* to_unfolded(mode = -k) is tl.unfold(<dense reconstruction>, -k) (unfolded_neg: C01's signed unfold): for whatever the validator
   accepts, mode -k with 1 <= k <= order IS mode order - k (so the C03_*_views theorems apply to it) and a mode below -order is rejected *)
Theorem C03_neg_modes_of_unfold : forall (F : Type) (Op : fops F) (rec : res (tensor F)) (unf : nat -> res (tensor F)) (N : nat),
  neg_modes_of F Op rec unf N <->
  (forall k, 0 < k <= N -> unfolded_neg Op rec k = unf (N - k)) /\ (forall k, N < k -> unfolded_neg Op rec k = Err).
Proof. exact neg_modes_of_unfold. Qed.
Print Assumptions C03_neg_modes_of_unfold.
Theorem C03_tt_neg_modes : forall (F : Type) (Op : fops F), is_ring Op -> forall (cs : list (tensor F)) (shp rk : list nat),
  validate_tt cs = Ok (shp, rk) -> Forall (fun x => 0 < x) rk -> 0 < prod shp ->
  neg_modes_of F Op (tt_to_tensor Op cs) (tt_to_unfolded Op cs) (length shp).
Proof. exact tt_neg_modes. Qed.
Print Assumptions C03_tt_neg_modes.
Theorem C03_tr_neg_modes : forall (F : Type) (Op : fops F), is_ring Op -> forall (cs : list (tensor F)) (shp rk : list nat),
  validate_tr cs = Ok (shp, rk) -> Forall (fun x => 0 < x) rk -> 0 < prod shp ->
  neg_modes_of F Op (tr_to_tensor Op cs) (tr_to_unfolded Op cs) (length shp).
Proof. exact tr_neg_modes. Qed.
Print Assumptions C03_tr_neg_modes.
Theorem C03_tucker_neg_modes : forall (F : Type) (Op : fops F), is_ring Op -> forall (core : tensor F) (fs : list (tensor F)) (shp rk : list nat),
  validate_tucker core fs = Ok (shp, rk) -> wf core -> 0 < prod rk -> 0 < prod shp ->
  neg_modes_of F Op (tucker_to_tensor Op core fs None false) (fun m => tucker_to_unfolded Op core fs m None false) (length shp).
Proof. exact tucker_neg_modes. Qed.
Print Assumptions C03_tucker_neg_modes.
Theorem C03_ttm_neg_modes : forall (F : Type) (Op : fops F), is_ring Op -> forall (cs : list (tensor F)) (shp rk : list nat),
  validate_ttm cs = Ok (shp, rk) -> Forall (fun x => 0 < x) rk ->
  neg_modes_of F Op (ttm_to_tensor Op cs) (ttm_to_unfolded Op cs) (length shp).
Proof. exact ttm_neg_modes. Qed.
Print Assumptions C03_ttm_neg_modes.
Theorem C03_parafac2_neg_modes : forall (F : Type) (Op : fops F), is_ring Op -> (forall x y : F, feqb Op x y = true <-> x = y) ->
  forall (w : option (tensor F)) (A B C : tensor F) (ps : list (tensor F)) (shps : list (list nat)) (R I : nat),
  validate_parafac2 Op w [A; B; C] ps = Ok (shps, R) -> shape A = [I; R] -> shape B = [R; R] -> w_ok F w R ->
  neg_modes_of F Op (parafac2_to_tensor Op w [A; B; C] ps) (parafac2_to_unfolded Op w [A; B; C] ps) 3.
Proof. exact parafac2_neg_modes. Qed.
Print Assumptions C03_parafac2_neg_modes.
Example C03_tt_neg_modes_example :
  let cs := [mk [1; 2; 2] [1; 2; 3; 4]%Z; mk [2; 3; 1] [1; 0; 2; -1; 1; 1]%Z] in
  unfolded_neg Zops (tt_to_tensor Zops cs) 1 = tt_to_unfolded Zops cs 1 /\ unfolded_neg Zops (tt_to_tensor Zops cs) 2 = tt_to_unfolded Zops cs 0 /\
  unfolded_neg Zops (tt_to_tensor Zops cs) 3 = Err.
Proof. cbv zeta. repeat split; vm_compute; reflexivity. Qed.

(* ------------------------------------------------------------------ tucker_to_tensor(modes=...) *)
(* tucker_to_tensor_modes core fs ms models tucker_to_tensor((core, fs), modes=ms) for matrix factors and pairwise distinct modes:
   the default modes=None is modes = range(len(factors)), and a tensor is returned only if every factor fits the core along ITS mode *)
Theorem C03_tucker_modes_default : forall (F : Type) (Op : fops F) (core : tensor F) (fs : list (tensor F)),
  tucker_to_tensor_modes Op core fs (seq 0 (length fs)) = tucker_to_tensor Op core fs None false.
Proof. exact tucker_modes_default. Qed.
Print Assumptions C03_tucker_modes_default.
Theorem C03_tucker_modes_ok_fits : forall (F : Type) (Op : fops F) (Ms : list (tensor F)) (ms : list nat) (T t : tensor F),
  length ms = length Ms -> NoDup ms -> multi_mode_dot_modes Op T Ms ms = Ok t ->
  Forall2 (fun (M : tensor F) m => ndim M = 2 /\ m < ndim T /\ ncols M = nth m (shape T) 0) Ms ms.
Proof. exact tucker_modes_ok_fits. Qed.
Print Assumptions C03_tucker_modes_ok_fits.
Example C03_tucker_modes_example :
  tucker_to_tensor_modes Zops (mk [2; 2] [1; 0; -1; 2]%Z) [mk [3; 2] [1; 2; 3; 4; 5; 6]%Z] [1] = Ok (mk [2; 3] [1; 3; 5; 3; 5; 7]%Z) /\
  tucker_to_tensor_modes Zops (mk [2; 2] [1; 0; -1; 2]%Z) [mk [3; 2] [1; 2; 3; 4; 5; 6]%Z] [2] = Err.
Proof. split; vm_compute; reflexivity. Qed.

(* ================================================================== round 7 *)
(* ------------------------------------------------------------------ tucker_to_tensor(modes=...) with ARBITRARY modes (Model/Factorized2.v) *)
(* multi_mode_dot sorts the (factor, mode) pairs by mode with Python's stable sort: sort_modes is a permutation, sorted, and keeps the
   list order among the pairs of any one mode -- the three properties that determine a stable sort *)
Theorem C03_sort_modes_stable_sort : forall (F : Type) (l : list (tensor F * nat)),
  Permutation (sort_modes l) l /\ StronglySorted le (map snd (sort_modes l)) /\
  forall m, filter (fun q => snd q =? m) (sort_modes l) = filter (fun q => snd q =? m) l.
Proof. intros F l. split; [apply sort_modes_perm|]. split; [apply sort_modes_sorted|]. intros m. apply sort_modes_stable. Qed.
Print Assumptions C03_sort_modes_stable_sort.
(* on a non-decreasing list of modes (the default range(len(factors)), every sorted selection) the sort changes nothing: the fold of
   Model/Factorized.v in list order, to which C03_tucker_modes_ok_fits applies *)
Theorem C03_tucker_modes_sorted_eq : forall (F : Type) (Op : fops F) (core : tensor F) (fs : list (tensor F)) (ms : list nat),
  StronglySorted le ms -> tucker_to_tensor_modes_sorted Op core fs ms = tucker_to_tensor_modes Op core fs ms.
Proof. exact tucker_modes_sorted_eq. Qed.
Print Assumptions C03_tucker_modes_sorted_eq.
Theorem C03_tucker_modes_sorted_default : forall (F : Type) (Op : fops F) (core : tensor F) (fs : list (tensor F)),
  tucker_to_tensor_modes_sorted Op core fs (seq 0 (length fs)) = tucker_to_tensor Op core fs None false.
Proof. exact tucker_modes_sorted_default. Qed.
Print Assumptions C03_tucker_modes_sorted_default.
(* any modes, repeated ones included: a tensor is returned ONLY if every pair, in sorted order, is a matrix whose column count is the
   CURRENT size of its mode (modes_fit: the running shape; a repeated mode sees the row count of the previous factor), and then its
   shape is the running shape at the end; conversely fitting pairs are always multiplied (well-formed non-empty core, non-empty factors) *)
Theorem C03_modes_fit_unfold : forall (F : Type) (shp : list nat) (M : tensor F) (m : nat) (r : list (tensor F * nat)),
  (modes_fit shp (@nil (tensor F * nat)) <-> True) /\
  (modes_fit shp ((M, m) :: r) <-> ndim M = 2 /\ m < length shp /\ ncols M = nth m shp 0 /\ modes_fit (set_nth m (nrows M) shp) r) /\
  modes_shape shp (@nil (tensor F * nat)) = shp /\ modes_shape shp ((M, m) :: r) = modes_shape (set_nth m (nrows M) shp) r.
Proof. intros. cbn [modes_fit modes_shape]. tauto. Qed.
Print Assumptions C03_modes_fit_unfold.
Theorem C03_tucker_modes_sorted_ok_fits : forall (F : Type) (Op : fops F) (core : tensor F) (fs : list (tensor F)) (ms : list nat) (t : tensor F),
  tucker_to_tensor_modes_sorted Op core fs ms = Ok t ->
  modes_fit (shape core) (sort_modes (combine fs ms)) /\ shape t = modes_shape (shape core) (sort_modes (combine fs ms)).
Proof. exact tucker_modes_sorted_ok_fits. Qed.
Print Assumptions C03_tucker_modes_sorted_ok_fits.
Theorem C03_tucker_modes_sorted_misfit_rejected : forall (F : Type) (Op : fops F) (core : tensor F) (fs : list (tensor F)) (ms : list nat),
  ~ modes_fit (shape core) (sort_modes (combine fs ms)) -> tucker_to_tensor_modes_sorted Op core fs ms = Err.
Proof. exact tucker_modes_sorted_misfit_rejected. Qed.
Print Assumptions C03_tucker_modes_sorted_misfit_rejected.
Theorem C03_tucker_modes_sorted_fits_ok : forall (F : Type) (Op : fops F) (core : tensor F) (fs : list (tensor F)) (ms : list nat),
  wf core -> 0 < prod (shape core) -> modes_fit (shape core) (sort_modes (combine fs ms)) ->
  Forall (fun q => 0 < nrows (fst q)) (sort_modes (combine fs ms)) ->
  exists t, tucker_to_tensor_modes_sorted Op core fs ms = Ok t /\ wf t /\ shape t = modes_shape (shape core) (sort_modes (combine fs ms)).
Proof. intros F Op core fs ms. apply mmd_modes_fits_ok. Qed.
Print Assumptions C03_tucker_modes_sorted_fits_ok.
(* non-vacuity: two factors along the SAME mode 1 of a 2 x 2 core -- a 3 x 2 matrix, then a 1 x 3 matrix contracting the size 3 it left --,
   given AFTER a factor for mode 0 in the list; a second factor with the column count of the ORIGINAL core mode (2) is refused *)
Example C03_tucker_repeated_modes_example :
  let core := mk [2; 2] [1; 0; -1; 2]%Z in
  let A := mk [3; 2] [1; 2; 3; 4; 5; 6]%Z in
  (exists t, tucker_to_tensor_modes_sorted Zops core [A; mk [1; 3] [1; -1; 2]%Z; mk [2; 2] [0; 1; 1; 0]%Z] [1; 1; 0] = Ok t /\ shape t = [2; 1]) /\
  tucker_to_tensor_modes_sorted Zops core [A; mk [1; 2] [1; -1]%Z] [1; 1] = Err /\
  modes_fit [2; 2] (sort_modes (combine [A; mk [1; 3] [1; -1; 2]%Z] [1; 1])).
Proof. cbv zeta. split; [eexists; split; vm_compute; reflexivity|]. split; [vm_compute; reflexivity|]. cbn. repeat split; auto. Qed.

(* ------------------------------------------------------------------ 0-order inputs (a Python number instead of a factor set) *)
(* cp_to_tensor tests `if not shape`: no (weights, factors) tuple has an empty validated shape, so the test separates exactly the
   numbers (validated as (0, 0)) from the tuples *)
Theorem C03_validate_cp_shape_nonempty : forall (F : Type) (w : option (tensor F)) (fs : list (tensor F)) (shp : list nat) (R : nat),
  validate_cp w fs = Ok (shp, R) -> shp <> [] /\ length shp = length fs.
Proof. exact validate_cp_shape_nonempty. Qed.
Print Assumptions C03_validate_cp_shape_nonempty.
(* a number x: reported as (shape (), rank 0); cp_to_tensor(x[, mask]) = x whatever the mask; cp_to_vec(x) = [x]; cp_to_unfolded and
   cp_norm raise (they unpack the argument) *)
Theorem C03_cp_zero_order : forall (F : Type) (Op : fops F) (x : F) (mask : option (tensor F)),
  validate_cp_in (CpNum x) = Ok ([], 0) /\ cp_to_tensor_in Op (CpNum x) mask = Ok (scalar x) /\
  cp_to_vec_in Op (CpNum x) = Ok (mk [1] [x]) /\ (forall m, cp_to_unfolded_in Op (CpNum x) m = Err) /\ cp_normsq_in Op (CpNum x) = Err.
Proof. exact cp_in_number. Qed.
Print Assumptions C03_cp_zero_order.
(* a tuple: the functions with the 0-order branch in front are the functions of Model/Factorized.v *)
Theorem C03_cp_in_tuple : forall (F : Type) (Op : fops F) (w : option (tensor F)) (fs : list (tensor F)) (mask : option (tensor F)),
  validate_cp_in (CpTup w fs) = validate_cp w fs /\ cp_to_tensor_in Op (CpTup w fs) mask = cp_to_tensor Op w fs mask /\
  cp_to_vec_in Op (CpTup w fs) = cp_to_vec Op w fs.
Proof. exact cp_in_tuple. Qed.
Print Assumptions C03_cp_in_tuple.
(* tt_to_tensor(x) = x, tt_to_vec(x) = [x], tt_to_unfolded raises; _validate_tt_tensor(x) raises (len(x) first: its 0-order branch is dead) *)
Theorem C03_tt_zero_order : forall (F : Type) (Op : fops F) (x : F),
  validate_tt_in (TtNum x) = Err /\ tt_to_tensor_in Op (TtNum x) = Ok (scalar x) /\ tt_to_vec_in Op (TtNum x) = Ok (mk [1] [x]) /\
  (forall m, tt_to_unfolded_in Op (TtNum x) m = Err).
Proof. exact tt_in_number. Qed.
Print Assumptions C03_tt_zero_order.

(* ------------------------------------------------------------------ semantic source tie (Model/FactorizedSrc2.v) *)
(* similar validator programs -- the same scalar fields and the same set of raising conditions up to re-ordering of the `if ...: raise`
   statements, the operand order of == / != / and, `not a == b` for `a != b`, double negation, `x` for `x != 0` -- have the same
   interpretation on EVERY input; with C03_*_prog_link: a similar program regenerated from the source IS the model's validator *)
Theorem C03_run_chain_sim : forall P Q : chainprog, chainprog_sim P Q = true -> forall shapes, run_chain P shapes = run_chain Q shapes.
Proof. exact run_chain_sim. Qed.
Print Assumptions C03_run_chain_sim.
Theorem C03_run_tk_sim : forall P Q : tkprog, tkprog_sim P Q = true -> forall core shapes, run_tk P core shapes = run_tk Q core shapes.
Proof. exact run_tk_sim. Qed.
Print Assumptions C03_run_tk_sim.
Theorem C03_run_cp_sim : forall P Q : cpprog, cpprog_sim P Q = true -> forall w shapes, run_cp P w shapes = run_cp Q w shapes.
Proof. exact run_cp_sim. Qed.
Print Assumptions C03_run_cp_sim.
Theorem C03_run_p2_sim : forall P Q : p2prog, p2prog_sim P Q = true ->
  forall w fshapes pshapes orth, run_p2 P w fshapes pshapes orth = run_p2 Q w fshapes pshapes orth.
Proof. exact run_p2_sim. Qed.
Print Assumptions C03_run_p2_sim.
(* non-vacuity: a re-ordered, re-spelled _validate_tt_tensor is similar to (and different from) the reference program; the finite box
   accepts an equivalent program that is not similar (the redundant `index and` dropped) and separates a wrong one *)
Example C03_tt_prog_respelled_sim :
  let Q := mk_chainprog 0 3
    [CAnd (CNe (VNum 1) (VCur 2)) (CEq VNFm1 VIndex);
     CAnd (CNe (VCur 0) (VPrevAt 2)) (CNot (CEq VIndex (VNum 0)));
     CNe VNdim (VNum 3);
     CAnd (CEq VIndex (VNum 0)) (CNot (CEq (VCur 0) (VNum 1)))] [1] 0 2 in
  chainprog_sim Q tt_prog = true /\ Q <> tt_prog.
Proof. exact tt_prog_respelled_sim. Qed.

(* ------------------------------------------------------------------ the reading of ein_chain (Proofs25) *)
(* The einsum-backend tt_matrix_to_tensor is modelled by nested sums (ein_chain).  On every TT-matrix the route accepts -- any number of
   cores -- the model's value IS np.einsum, in the generic label-level semantics Tenalg.einsum of Model/Tenalg.v (the sum, over all
   assignments of the labels absent from the output, of the product of the operand entries), applied to the equation ttm_equation N
   (N = number of cores; the harness checks on every run that the equation recorded from the current source is this one up to renaming),
   followed by the transposition ttm_transposition N.  ttm_einsum_generic is that composition. *)
Theorem C03_ttm_einsum_generic_unfold : forall (F : Type) (Op : fops F) (cores : list (tensor F)),
  ttm_einsum_generic Op cores =
  transpose (f0 Op) (ttm_transposition (length cores))
    (Tenalg.einsum (rops_of Op) (fst (ttm_equation (length cores))) (snd (ttm_equation (length cores))) cores).
Proof. reflexivity. Qed.
Print Assumptions C03_ttm_einsum_generic_unfold.
Theorem C03_ttm_einsum_is_np_einsum : forall (F : Type) (Op : fops F), is_ring Op -> forall (cs : list (tensor F)) (t : tensor F),
  ttm_to_tensor_einsum Op cs = Ok t -> t = ttm_einsum_generic Op cs.
Proof. exact ttm_einsum_is_np_einsum. Qed.
Print Assumptions C03_ttm_einsum_is_np_einsum.
(* the chain of nested sums alone, for consecutive ranks that match and ANY first boundary rank r0 (summed, as np.einsum does) *)
Theorem C03_ein_chain_is_einsum : forall (F : Type) (Op : fops F), is_ring Op ->
  forall (cs : list (tensor F)) (ds : list (nat * nat * nat * nat)) (x0 : nat * nat * nat * nat),
  all_shape4 cs = Ok ds -> cs <> [] -> chain_ok4 (d4a (hd x0 ds)) ds = true ->
  Tenalg.einsum (rops_of Op) (fst (ttm_equation (length cs))) (snd (ttm_equation (length cs))) cs =
  tabulate (flat_map (fun x => [d4b x; d4c x]) ds) (fun idx => fsumn Op (d4a (hd x0 ds)) (fun a => ein_chain Op cs ds idx a)).
Proof. exact ein_chain_is_einsum. Qed.
Print Assumptions C03_ein_chain_is_einsum.
Example C03_ttm_einsum_reading_example :
  let cs := [mk [1; 2; 1; 2] [1; 2; 3; 4]%Z; mk [2; 1; 2; 1] [1; 0; -1; 2]%Z] in
  exists t, ttm_to_tensor_einsum Zops cs = Ok t /\ shape t = [2; 1; 1; 2] /\ t = ttm_einsum_generic Zops cs.
Proof. cbv zeta. eexists. split; [vm_compute; reflexivity|]. split; vm_compute; reflexivity. Qed.

(* ------------------------------------------------------------------ cp_norm on complex CP tensors (Proofs26) *)
(* cj : a conjugation = a ring homomorphism of the carrier (complex conjugation; the identity on a real carrier).  cp_norm multiplies the
   Gram matrices A_k^T conj(A_k) entrywise and then by w_r * conj(w_s) (cp_normsq_conj .. true: the code since /repo 20cafdc): the number
   is the sum over all entries of entry * cj(entry) -- |entry|^2 -- for every order, rank and weights, complex factors AND weights.
   Before 20cafdc the second weight was not conjugated (cp_normsq_conj .. false): a genuine defect found by this check (round 7),
   kept as the Example C03_before_20cafdc_cp_norm_complex_weights. *)
Definition is_conj {F : Type} (Op : fops F) (cj : F -> F) : Prop :=
  cj (f0 Op) = f0 Op /\ cj (f1 Op) = f1 Op /\ (forall a b, cj (fadd Op a b) = fadd Op (cj a) (cj b)) /\ (forall a b, cj (fmul Op a b) = fmul Op (cj a) (cj b)).
Theorem C03_cp_normsq_conj : forall (F : Type) (Op : fops F), is_ring Op -> forall cj : F -> F, is_conj Op cj ->
  forall (w : option (tensor F)) (fs : list (tensor F)) (shp : list nat) (R : nat),
  validate_cp w fs = Ok (shp, R) -> Forall (fun f => ndim f = 2) fs ->
  cp_normsq_conj Op cj true w fs =
  Ok (sum_idx F (f0 Op) (fadd Op) shp (fun idx => fmul Op (cp_entry F Op w fs R idx) (cj (cp_entry F Op w fs R idx)))).
Proof. intros F Op Rth cj (H0 & H1 & Ha & Hm). exact (cp_normsq_conj_spec F Op Rth cj H0 H1 Ha Hm). Qed.
Print Assumptions C03_cp_normsq_conj.
(* the repair changed nothing for self-conjugate weights (real weights, weights=None; any complex factors) *)
Theorem C03_cp_normsq_unconjugated_weights_eq : forall (F : Type) (Op : fops F) (cj : F -> F) (w : option (tensor F)) (fs : list (tensor F)),
  (forall s, cj (wv Op w s) = wv Op w s) -> cp_normsq_conj Op cj false w fs = cp_normsq_conj Op cj true w fs.
Proof. exact cp_normsq_as_written_partial. Qed.
Print Assumptions C03_cp_normsq_unconjugated_weights_eq.
(* on a carrier without conjugation both are the real model cp_normsq of C03_cp_normsq *)
Theorem C03_cp_normsq_conj_id : forall (F : Type) (Op : fops F) (b : bool) (w : option (tensor F)) (fs : list (tensor F)),
  cp_normsq_conj Op (fun x => x) b w fs = cp_normsq Op w fs.
Proof. exact @cp_normsq_conj_id. Qed.
Print Assumptions C03_cp_normsq_conj_id.
(* the former witness: weight i, factor [1]: the vector [i] of squared norm 1; the un-conjugated formula gave i * i = -1 (cp_norm = 1j) *)
Example C03_before_20cafdc_cp_norm_complex_weights :
  exists (w : tensor Tenalg.GI) (fs : list (tensor Tenalg.GI)) t,
    cp_to_tensor GIops (Some w) fs None = Ok t /\ data t = [(0, 1)%Z] /\
    cp_normsq_conj GIops gconj false (Some w) fs = Ok (-1, 0)%Z /\
    cp_normsq_conj GIops gconj true (Some w) fs = Ok (1, 0)%Z.
Proof. exact cp_norm_complex_weights_refuted. Qed.
(* the hypotheses are satisfiable: the Gaussian integers with complex conjugation (the carrier of the complex correspondence cases) *)
Example C03_is_ring_conj_GI : is_ring GIops /\ is_conj GIops gconj.
Proof. split; [exact GI_ring | exact gconj_hom]. Qed.

(* ------------------------------------------------------------------ pairwise distinct modes: the order of the products does not matter (Proofs27) *)
(* fit1 s (M, m): M is a non-empty matrix whose column count is the size s_m; mmd T ps: the mode products of ps one after the other *)
Theorem C03_fit1_unfold : forall (F : Type) (Op : fops F) (s : list nat) (M : tensor F) (m : nat) (T : tensor F) (ps : list (tensor F * nat)),
  (fit1 F s (M, m) <-> ndim M = 2 /\ m < length s /\ ncols M = nth m s 0 /\ 0 < nrows M) /\
  mmd F Op T ps = multi_mode_dot_modes Op T (map fst ps) (map snd ps).
Proof. intros. split; [unfold fit1; cbn [fst snd]; tauto | reflexivity]. Qed.
Print Assumptions C03_fit1_unfold.
(* two mode products along different modes commute: the same tensor either way *)
Theorem C03_mode_dot_comm : forall (F : Type) (Op : fops F), is_ring Op -> forall (T M1 M2 : tensor F) (m1 m2 p1 p2 : nat),
  wf T -> 0 < prod (shape T) -> m1 <> m2 -> m1 < length (shape T) -> m2 < length (shape T) ->
  shape M1 = [p1; nth m1 (shape T) 0] -> shape M2 = [p2; nth m2 (shape T) 0] -> 0 < p1 -> 0 < p2 ->
  exists t, rbind (mode_dot Op T M1 m1) (fun T' => mode_dot Op T' M2 m2) = Ok t /\
            rbind (mode_dot Op T M2 m2) (fun T' => mode_dot Op T' M1 m1) = Ok t.
Proof. exact mode_dot_comm. Qed.
Print Assumptions C03_mode_dot_comm.
(* hence ANY permutation of fitting (factor, mode) pairs with pairwise distinct modes gives the same tensor *)
Theorem C03_mmd_perm : forall (F : Type) (Op : fops F), is_ring Op -> forall ps ps' : list (tensor F * nat), Permutation ps ps' ->
  forall T : tensor F, wf T -> 0 < prod (shape T) -> Forall (fit1 F (shape T)) ps -> NoDup (map snd ps) -> mmd F Op T ps = mmd F Op T ps'.
Proof. exact mmd_perm. Qed.
Print Assumptions C03_mmd_perm.
(* in particular the stably sorted order multi_mode_dot uses (the model the correspondence runs) and the list order (the fold of
   C03_tucker_modes_ok_fits): tucker_to_tensor(modes=ms) for pairwise distinct modes given in any order *)
Theorem C03_tucker_modes_any_order : forall (F : Type) (Op : fops F), is_ring Op -> forall (core : tensor F) (fs : list (tensor F)) (ms : list nat),
  wf core -> 0 < prod (shape core) -> Forall (fit1 F (shape core)) (combine fs ms) -> NoDup (map snd (combine fs ms)) ->
  tucker_to_tensor_modes_sorted Op core fs ms = tucker_to_tensor_modes Op core fs ms.
Proof. exact tucker_modes_any_order. Qed.
Print Assumptions C03_tucker_modes_any_order.
Example C03_tucker_modes_any_order_hyps :
  let core := mk [2; 2] [1; 0; -1; 2]%Z in let fs := [mk [3; 2] [1; 2; 3; 4; 5; 6]%Z; mk [1; 2] [1; -1]%Z] in
  wf core /\ 0 < prod (shape core) /\ Forall (fit1 Z (shape core)) (combine fs [1; 0]) /\ NoDup (map snd (combine fs [1; 0])) /\
  exists t, tucker_to_tensor_modes Zops core fs [1; 0] = Ok t /\ shape t = [1; 3].
Proof.
  cbv zeta. split; [reflexivity|]. split; [cbn; lia|]. split; [repeat constructor; cbn; lia|].
  split; [cbn; repeat constructor; cbn; intuition lia|]. eexists. split; vm_compute; reflexivity.
Qed.

(* a repeated mode: two products along the SAME mode are the product with the matrix product M2 M1 (M1, the earlier factor, first) *)
Theorem C03_mode_dot_twice : forall (F : Type) (Op : fops F), is_ring Op -> forall (T M1 M2 : tensor F) (m p1 p2 : nat),
  wf T -> 0 < prod (shape T) -> m < length (shape T) -> shape M1 = [p1; nth m (shape T) 0] -> shape M2 = [p2; p1] -> 0 < p1 ->
  exists t M21, mdot Op M2 M1 = Ok M21 /\ rbind (mode_dot Op T M1 m) (fun T' => mode_dot Op T' M2 m) = Ok t /\ mode_dot Op T M21 m = Ok t.
Proof. exact mode_dot_twice. Qed.
Print Assumptions C03_mode_dot_twice.

(* ================================================================== round 7 follow-up (Proofs28) *)
(* ------------------------------------------------------------------ tucker_to_tensor(modes=...), pairwise distinct modes: the Err half *)
(* fit0 s (M, m): M is a matrix whose column count is the size s_m (no non-emptiness).  A fold over distinct modes -- in ANY order -- returns a
   tensor only if every pair fits the core itself; so on non-fitting operands the sorted order of multi_mode_dot AND the list order raise *)
Theorem C03_fit0_unfold : forall (F : Type) (s : list nat) (M : tensor F) (m : nat),
  fit0 F s (M, m) <-> ndim M = 2 /\ m < length s /\ ncols M = nth m s 0.
Proof. intros. unfold fit0. cbn [fst snd]. tauto. Qed.
Print Assumptions C03_fit0_unfold.
Theorem C03_tucker_modes_misfit_any_order : forall (F : Type) (Op : fops F) (core : tensor F) (fs : list (tensor F)) (ms : list nat),
  NoDup (map snd (combine fs ms)) -> ~ Forall (fit0 F (shape core)) (combine fs ms) ->
  tucker_to_tensor_modes_sorted Op core fs ms = Err /\ tucker_to_tensor_modes Op core fs ms = Err.
Proof. exact tucker_modes_misfit_any_order. Qed.
Print Assumptions C03_tucker_modes_misfit_any_order.
(* with C03_tucker_modes_any_order: for a well-formed non-empty core, non-empty factors and pairwise distinct modes the sorted model and the
   list-order fold ALWAYS agree -- the same tensor, or both raise; no fitting hypothesis *)
Theorem C03_tucker_modes_any_order_total : forall (F : Type) (Op : fops F), is_ring Op -> forall (core : tensor F) (fs : list (tensor F)) (ms : list nat),
  wf core -> 0 < prod (shape core) -> Forall (fun q : tensor F * nat => 0 < nrows (fst q)) (combine fs ms) -> NoDup (map snd (combine fs ms)) ->
  tucker_to_tensor_modes_sorted Op core fs ms = tucker_to_tensor_modes Op core fs ms.
Proof. exact tucker_modes_any_order_total. Qed.
Print Assumptions C03_tucker_modes_any_order_total.
Example C03_tucker_modes_misfit_example :
  let core := mk [2; 2] [1; 0; -1; 2]%Z in let fs := [mk [3; 2] [1; 2; 3; 4; 5; 6]%Z; mk [1; 3] [1; -1; 0]%Z] in
  NoDup (map snd (combine fs [1; 0])) /\ ~ Forall (fit0 Z (shape core)) (combine fs [1; 0]).
Proof.
  cbv zeta. split; [cbn; repeat constructor; cbn; intuition lia|]. intros H. inversion H as [|? ? _ H']; subst. inversion H' as [|? ? (_ & _ & C) _]; subst.
  cbn in C. discriminate.
Qed.

(* ------------------------------------------------------------------ tucker_to_tensor(transpose_factors=True) with conjugation *)
(* multi_mode_dot multiplies by conj(transpose(M)) under both backends.  tucker_to_tensor_conj Op cj (Model/Factorized2.v) conjugates the stored
   matrices first: it IS the reconstruction from the conjugate-transposed matrices -- to which C03_tucker_to_tensor applies --, whose entries are
   cj(M[j, i]); without conjugation it is the tucker_to_tensor of C03_tucker_transpose_factors *)
Theorem C03_tucker_conj_transpose : forall (F : Type) (Op : fops F) (cj : F -> F) (core : tensor F) (fs : list (tensor F)) (skip : option nat),
  Forall (fun M => ndim M = 2) fs ->
  tucker_to_tensor_conj Op cj core fs skip true = tucker_to_tensor Op core (map (fun M => mT Op (tconj cj M)) fs) skip false.
Proof. exact tucker_conj_transpose. Qed.
Print Assumptions C03_tucker_conj_transpose.
Theorem C03_conj_transpose_entry : forall (F : Type) (Op : fops F) (cj : F -> F), cj (f0 Op) = f0 Op ->
  forall (M : tensor F) (i j : nat), i < ncols M -> j < nrows M -> get2 Op (mT Op (tconj cj M)) i j = cj (get2 Op M j i).
Proof. exact conj_transpose_entry. Qed.
Print Assumptions C03_conj_transpose_entry.
Theorem C03_tucker_conj_id : forall (F : Type) (Op : fops F) (core : tensor F) (fs : list (tensor F)) (skip : option nat) (tr : bool),
  tucker_to_tensor_conj Op (fun x => x) core fs skip tr = tucker_to_tensor Op core fs skip tr.
Proof. exact @tucker_conj_id. Qed.
Print Assumptions C03_tucker_conj_id.
Example C03_tucker_conj_example :
  let g (a b : Z) : Tenalg.GI := (a, b) in
  tucker_to_tensor_conj GIops gconj (mk [1; 1] [g 1 0]%Z) [mk [1; 1] [g 0 1]%Z; mk [1; 1] [g 1 0]%Z] None true = Ok (mk [1; 1] [g 0 (-1)]%Z).
Proof. vm_compute. reflexivity. Qed.

(* ------------------------------------------------------------------ PARAFAC2 with complex projections *)
(* _validate_parafac2_tensor tests dot(conj(transpose(P)), P) = I since /repo 0c112da (before: dot(transpose(P), P) = I, which on a carrier
   without conjugation is 'orthonormal columns' (C03_validate_parafac2_iff) but on complex projections is not - the former genuine defect
   parafac2_complex_projections, repaired by 0c112da).  validate_parafac2_h Op cj is the current validator (P^H P = I; the harness reads from the
   CURRENT source which of the two tests it has and runs the corresponding model); with the identity as conjugation it IS validate_parafac2, so
   every theorem about validate_parafac2 is a theorem about the current code on real data.  The Example keeps both failures of the OLD test at
   the Gaussian integers: the unitary [i] rejected, the column (1, 1, i) of Hermitian length sqrt 3 accepted - and what the current one says *)
Theorem C03_validate_parafac2_h_real : forall (F : Type) (Op : fops F) (w : option (tensor F)) (fs ps : list (tensor F)),
  validate_parafac2_h Op (fun x => x) w fs ps = validate_parafac2 Op w fs ps.
Proof. exact @validate_parafac2_h_real. Qed.
Print Assumptions C03_validate_parafac2_h_real.
(* the CURRENT validator accepts exactly: three factors, A with one row per projection and R columns, B and C matrices with R columns, every
   projection a matrix whose R columns are orthonormal in the HERMITIAN sense (sum_i cj(P[i,r]) P[i,s] = delta_rs: orthonormal_h), weights of
   leading length R; it reports the slice shapes (J_i, K) and R.  Any carrier whose order test decides equality (C03_feqb_Z, C03_feqb_GI), any
   map cj.  And whether a set is accepted depends on the shapes of A, B, C, weights and on the projections only *)
Theorem C03_validate_parafac2_h_iff : forall (F : Type) (Op : fops F) (cj : F -> F),
  (forall x y : F, feqb Op x y = true <-> x = y) ->
  forall (w : option (tensor F)) (fs ps : list (tensor F)) (shps : list (list nat)) (R : nat),
  validate_parafac2_h Op cj w fs ps = Ok (shps, R) <->
  exists A B C K,
    fs = [A; B; C] /\ (exists rest, shape A = length ps :: R :: rest) /\ (exists q, shape B = [q; R]) /\ shape C = [K; R] /\
    Forall2 (proj_ok_h F Op cj R K) ps shps /\
    match w with None => True | Some wt => exists rest, shape wt = R :: rest end.
Proof. exact validate_parafac2_h_iff. Qed.
Print Assumptions C03_validate_parafac2_h_iff.
Theorem C03_validate_parafac2_h_shapes_only : forall (F : Type) (Op : fops F) (cj : F -> F) (w w' : option (tensor F)) (fs fs' ps : list (tensor F)),
  map (@shape F) fs = map (@shape F) fs' -> option_map (@shape F) w = option_map (@shape F) w' ->
  validate_parafac2_h Op cj w fs ps = validate_parafac2_h Op cj w' fs' ps.
Proof. exact validate_parafac2_h_shapes_only. Qed.
Print Assumptions C03_validate_parafac2_h_shapes_only.
Example C03_feqb_GI : forall x y : Tenalg.GI, feqb GIops x y = true <-> x = y.
Proof. exact feqb_GIops. Qed.
Example C03_orthonormal_h_example :
  let g (a b : Z) : Tenalg.GI := (a, b) in
  let P := mk [2; 1] [g 0 1; g 0 0]%Z in
  orthonormal_h Tenalg.GI GIops gconj P 1 /\ ~ orthonormal_h Tenalg.GI GIops (fun x => x) P 1.
Proof. exact orthonormal_h_GI_example. Qed.
(* reconstruction behind the CURRENT validator, any commutative ring with any map cj (round 8): the reconstruction functions look at the
   validator's answer only to decide whether to go on (parafac2_to_tensor_from v), so whatever validate_parafac2_h accepts - e.g. unitary complex
   projections, which the test before 0c112da rejected - is reconstructed to the defining contraction: tensor of shape (I, max_i J_i, K), block i
   = slice i = P_i B diag(a_i w) C^T on its first J_i rows, zero below; slice(i) has the reported shape; and what it rejects has no view *)
Theorem C03_parafac2_h_validated : forall (F : Type) (Op : fops F), is_ring Op -> forall (cj : F -> F),
  (forall x y : F, feqb Op x y = true <-> x = y) ->
  forall (w : option (tensor F)) (A B C : tensor F) (ps : list (tensor F)) (shps : list (list nat)) (R I : nat),
  let v := validate_parafac2_h Op cj w [A; B; C] ps in
  v = Ok (shps, R) -> shape A = [I; R] -> shape B = [R; R] -> w_ok F w R ->
  exists t K, parafac2_to_tensor_from Op v w [A; B; C] ps = Ok t /\ shape C = [K; R] /\ length ps = I /\ length shps = I /\
    Forall (fun s => s = [nth 0 s 0; K]) shps /\
    shape t = [I; fold_right Nat.max 0 (map (fun s => nth 0 s 0) shps); K] /\
    (forall i j k, i < I -> j < fold_right Nat.max 0 (map (fun s => nth 0 s 0) shps) -> k < K ->
      get (f0 Op) t [i; j; k] =
        if j <? nth 0 (nth i shps []) 0 then p2_entry F Op w A B C (nth i ps (mk [] [])) R R i j k else f0 Op) /\
    (forall i, i < I -> exists sl, parafac2_to_slice_from Op v w [A; B; C] ps i = Ok sl /\ shape sl = nth i shps [] /\
       forall j k, j < nth 0 (nth i shps []) 0 -> k < K -> get2 Op sl j k = p2_entry F Op w A B C (nth i ps (mk [] [])) R R i j k).
Proof. exact parafac2_h_validated. Qed.
Print Assumptions C03_parafac2_h_validated.
Theorem C03_parafac2_h_rejected : forall (F : Type) (Op : fops F) (cj : F -> F) (w : option (tensor F)) (fs ps : list (tensor F)),
  validate_parafac2_h Op cj w fs ps = Err ->
  parafac2_to_tensor_from Op (validate_parafac2_h Op cj w fs ps) w fs ps = Err /\
  (forall i, parafac2_to_slice_from Op (validate_parafac2_h Op cj w fs ps) w fs ps i = Err) /\
  parafac2_to_slices_from Op (validate_parafac2_h Op cj w fs ps) w fs ps = Err.
Proof. exact parafac2_h_rejected. Qed.
Print Assumptions C03_parafac2_h_rejected.
Example C03_parafac2_h_unitary_example :
  let g (a b : Z) : Tenalg.GI := (a, b) in
  let A := mk [1; 1] [g 2 0]%Z in let B := mk [1; 1] [g 3 0]%Z in let C := mk [2; 1] [g 1 0; g 2 0]%Z in
  let Pu := mk [1; 1] [g 0 1]%Z in
  validate_parafac2_h GIops gconj None [A; B; C] [Pu] = Ok ([[1; 2]], 1) /\ shape A = [1; 1] /\ shape B = [1; 1] /\
  parafac2_to_tensor_from GIops (validate_parafac2_h GIops gconj None [A; B; C] [Pu]) None [A; B; C] [Pu] = Ok (mk [1; 1; 2] [g 0 6; g 0 12]%Z).
Proof. exact parafac2_h_unitary_example. Qed.
Example C03_is_ring_GI : is_ring GIops.
Proof. exact GI_ring. Qed.
Example C03_before_0c112da_parafac2_complex_projections :
  let g (a b : Z) : Tenalg.GI := (a, b) in
  let A := mk [1; 1] [g 2 0]%Z in let B := mk [1; 1] [g 3 0]%Z in let C := mk [2; 1] [g 1 0; g 2 0]%Z in
  let Pu := mk [1; 1] [g 0 1]%Z in let Pn := mk [3; 1] [g 1 0; g 1 0; g 0 1]%Z in
  validate_parafac2 GIops None [A; B; C] [Pu] = Err /\ validate_parafac2_h GIops gconj None [A; B; C] [Pu] = Ok ([[1; 2]], 1) /\
  validate_parafac2 GIops None [A; B; C] [Pn] = Ok ([[3; 2]], 1) /\ validate_parafac2_h GIops gconj None [A; B; C] [Pn] = Err.
Proof. exact parafac2_complex_projection_examples. Qed.
