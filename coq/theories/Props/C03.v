(* C03 -- property theorems only.  Statements are about the model of the factorised-tensor modules
   (Model/Factorized.v), for EVERY carrier F whose operations form a commutative ring, every order,
   every mode size and every rank. *)
From Coq Require Import List Arith ZArith Ring.
From TLV Require Import Base.Shape Base.PyList Base.Tensor Base.BigSum Base.Ops Model.Base Model.Factorized
  Proofs.FactorizedProofs Proofs.FactorizedProofs2 Proofs.FactorizedProofs3.
Import ListNotations.

Definition is_ring {F : Type} (Op : fops F) : Prop :=
  ring_theory (f0 Op) (f1 Op) (fadd Op) (fmul Op) (fsub Op) (fopp Op) (@eq F).

(* ------------------------------------------------------------------ CP *)
(* _validate_cp_tensor accepts exactly the well-formed (weights, factors) and reports (mode sizes, common column count) *)
Theorem C03_validate_cp_iff : forall (F : Type) (w : option (tensor F)) (fs : list (tensor F)) (shp : list nat) (R : nat),
  validate_cp w fs = Ok (shp, R) <->
  (fs <> [] /\
   Forall2 (fun f n => shape f = [n; R] \/ (R = 1 /\ shape f = [n])) fs shp /\
   match w with None => True | Some wt => shape wt = [R] end).
Proof. exact validate_cp_iff. Qed.
Print Assumptions C03_validate_cp_iff.

(* cp_to_tensor (order-1 route and mode-0 route): entry idx = sum_r w_r prod_k A_k[idx_k, r] *)
Theorem C03_cp_to_tensor : forall (F : Type) (Op : fops F), is_ring Op ->
  forall (w : option (tensor F)) (fs : list (tensor F)) (shp : list nat) (R : nat),
  validate_cp w fs = Ok (shp, R) -> Forall (fun f => ndim f = 2) fs ->
  exists t, cp_to_tensor Op w fs None = Ok t /\ shape t = shp /\
    forall idx, inb shp idx ->
      get (f0 Op) t idx = fsumn Op R (fun r => fmul Op (wv Op w r) (prod_entries F Op fs idx r)).
Proof. exact cp_to_tensor_spec. Qed.
Print Assumptions C03_cp_to_tensor.

(* cp_to_vec = tensor_to_vec (cp_to_tensor), and entry ravel(idx) of the vector is the CP entry at idx (every order) *)
Theorem C03_cp_to_vec : forall (F : Type) (Op : fops F), is_ring Op ->
  forall (w : option (tensor F)) (fs : list (tensor F)) (shp : list nat) (R : nat),
  validate_cp w fs = Ok (shp, R) -> Forall (fun f => ndim f = 2) fs ->
  exists t v, cp_to_tensor Op w fs None = Ok t /\ cp_to_vec Op w fs = Ok v /\ tensor_to_vec t = Ok v /\
    shape v = [prod shp] /\
    forall idx, inb shp idx -> get (f0 Op) v [ravel shp idx] = cp_entry F Op w fs R idx.
Proof. exact cp_to_vec_spec. Qed.
Print Assumptions C03_cp_to_vec.

(* cp_to_unfolded(mode) = unfold(cp_to_tensor, mode) for every mode -- on the code as it is this holds for order >= 2
   only (hypothesis 2 <= length fs; non-empty tensor); the order-1 case is the refutation below *)
Theorem C03_cp_to_unfolded_partial : forall (F : Type) (Op : fops F), is_ring Op ->
  forall (w : option (tensor F)) (fs : list (tensor F)) (shp : list nat) (R m : nat),
  validate_cp w fs = Ok (shp, R) -> Forall (fun f => ndim f = 2) fs ->
  2 <= length fs -> m < length fs -> 0 < prod shp ->
  exists t u, cp_to_tensor Op w fs None = Ok t /\ cp_to_unfolded Op w fs m = Ok u /\ unfold (f0 Op) t m = Ok u.
Proof. exact cp_to_unfolded_spec. Qed.
Print Assumptions C03_cp_to_unfolded_partial.

Theorem C03_cp_unfolded_order1_refuted :
  exists (w : option (tensor Z)) fs shp R t,
    validate_cp w fs = Ok (shp, R) /\ Forall (fun f => ndim f = 2) fs /\ 0 < prod shp /\
    cp_to_tensor Zops w fs None = Ok t /\ cp_to_unfolded Zops w fs 0 = Err /\ unfold 0%Z t 0 <> Err.
Proof. exact cp_unfolded_order1_refuted. Qed.
Print Assumptions C03_cp_unfolded_order1_refuted.

(* masked reconstruction: entry = mask[idx] * CP entry -- order >= 2 on the code as it is; order 1 refuted below *)
Theorem C03_cp_to_tensor_masked_partial : forall (F : Type) (Op : fops F), is_ring Op ->
  forall (w : option (tensor F)) (fs : list (tensor F)) (shp : list nat) (R : nat) (mask : tensor F),
  validate_cp w fs = Ok (shp, R) -> Forall (fun f => ndim f = 2) fs -> 2 <= length fs ->
  shape mask = shp -> wf mask ->
  exists t, cp_to_tensor Op w fs (Some mask) = Ok t /\ shape t = shp /\
    forall idx, inb shp idx -> get (f0 Op) t idx = fmul Op (get (f0 Op) mask idx) (cp_entry F Op w fs R idx).
Proof. exact cp_to_tensor_masked_spec. Qed.
Print Assumptions C03_cp_to_tensor_masked_partial.

Theorem C03_cp_mask_order1_refuted :
  exists (w : option (tensor Z)) fs shp R mask t,
    validate_cp w fs = Ok (shp, R) /\ Forall (fun f => ndim f = 2) fs /\ shape mask = shp /\ wf mask /\
    cp_to_tensor Zops w fs (Some mask) = Ok t /\
    get 0%Z t [1%nat] <> (get 0%Z mask [1%nat] * cp_entry Z Zops w fs R [1%nat])%Z.
Proof. exact cp_mask_order1_refuted. Qed.
Print Assumptions C03_cp_mask_order1_refuted.

(* ------------------------------------------------------------------ tensor train *)
(* tt_to_tensor: entry idx = (G_1[:, i_1, :] G_2[:, i_2, :] ... G_N[:, i_N, :])[0, 0], for every number of cores, all
   mode sizes and all (positive) ranks; induction on the number of cores *)
Theorem C03_tt_to_tensor : forall (F : Type) (Op : fops F), is_ring Op ->
  forall (cs : list (tensor F)) (ns : list nat),
  cs <> [] -> tt_cores F 1 cs ns 1 -> 0 < prod ns ->
  exists t, tt_to_tensor Op cs = Ok t /\ shape t = ns /\
    forall idx, inb ns idx -> get (f0 Op) t idx = chain F Op cs idx 0 0.
Proof. exact tt_to_tensor_spec. Qed.
Print Assumptions C03_tt_to_tensor.
