(* C03 -- property theorems only.  Statements are about the model of the factorised-tensor modules
   (Model/Factorized.v), for EVERY carrier F whose operations form a commutative ring, every order,
   every mode size and every rank. *)
From Coq Require Import List Arith ZArith Ring.
From TLV Require Import Base.Shape Base.PyList Base.Tensor Base.BigSum Base.Ops Model.Base Model.Factorized
  Proofs.FactorizedProofs.
Import ListNotations.

Definition is_ring {F : Type} (Op : fops F) : Prop :=
  ring_theory (f0 Op) (f1 Op) (fadd Op) (fmul Op) (fsub Op) (fopp Op) (@eq F).

(* _validate_cp_tensor accepts exactly the well-formed (weights, factors) and reports (mode sizes, common column count) *)
Theorem C03_validate_cp_iff : forall (F : Type) (w : option (tensor F)) (fs : list (tensor F)) (shp : list nat) (R : nat),
  validate_cp w fs = Ok (shp, R) <->
  (fs <> [] /\
   Forall2 (fun f n => shape f = [n; R] \/ (R = 1 /\ shape f = [n])) fs shp /\
   match w with None => True | Some wt => shape wt = [R] end).
Proof. exact validate_cp_iff. Qed.
Print Assumptions C03_validate_cp_iff.

(* cp_to_tensor (order-1 route and mode-0 route): entry idx = sum_r w_r prod_k A_k[idx_k, r] *)
Theorem C03_cp_to_tensor : forall (F : Type) (Op : fops F), is_ring Op ->
  forall (w : option (tensor F)) (fs : list (tensor F)) (shp : list nat) (R : nat),
  validate_cp w fs = Ok (shp, R) -> Forall (fun f => ndim f = 2) fs ->
  exists t, cp_to_tensor Op w fs None = Ok t /\ shape t = shp /\
    forall idx, inb shp idx ->
      get (f0 Op) t idx = fsumn Op R (fun r => fmul Op (wv Op w r) (prod_entries F Op fs idx r)).
Proof. exact cp_to_tensor_spec. Qed.
Print Assumptions C03_cp_to_tensor.
