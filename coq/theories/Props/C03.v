(* C03 -- property theorems only.  Statements are about the model of the factorised-tensor modules
   (Model/Factorized.v), for EVERY carrier F whose operations form a commutative ring, every order,
   every mode size and every rank. *)
From Coq Require Import List Arith ZArith Ring Lia.
From TLV Require Import Base.Shape Base.PyList Base.Tensor Base.BigSum Base.Ops Model.Base Model.Factorized
  Proofs.FactorizedProofs Proofs.FactorizedProofs2 Proofs.FactorizedProofs3 Proofs.FactorizedProofs4
  Proofs.FactorizedProofs5.
Import ListNotations.

Definition is_ring {F : Type} (Op : fops F) : Prop :=
  ring_theory (f0 Op) (f1 Op) (fadd Op) (fmul Op) (fsub Op) (fopp Op) (@eq F).

(* ------------------------------------------------------------------ CP *)
(* _validate_cp_tensor accepts exactly the well-formed (weights, factors) and reports (mode sizes, common column count) *)
Theorem C03_validate_cp_iff : forall (F : Type) (w : option (tensor F)) (fs : list (tensor F)) (shp : list nat) (R : nat),
  validate_cp w fs = Ok (shp, R) <->
  (fs <> [] /\
   Forall2 (fun f n => shape f = [n; R] \/ (R = 1 /\ shape f = [n])) fs shp /\
   match w with None => True | Some wt => shape wt = [R] end).
Proof. exact validate_cp_iff. Qed.
Print Assumptions C03_validate_cp_iff.

(* cp_to_tensor (order-1 route and mode-0 route): entry idx = sum_r w_r prod_k A_k[idx_k, r] *)
Theorem C03_cp_to_tensor : forall (F : Type) (Op : fops F), is_ring Op ->
  forall (w : option (tensor F)) (fs : list (tensor F)) (shp : list nat) (R : nat),
  validate_cp w fs = Ok (shp, R) -> Forall (fun f => ndim f = 2) fs ->
  exists t, cp_to_tensor Op w fs None = Ok t /\ shape t = shp /\
    forall idx, inb shp idx ->
      get (f0 Op) t idx = fsumn Op R (fun r => fmul Op (wv Op w r) (prod_entries F Op fs idx r)).
Proof. exact cp_to_tensor_spec. Qed.
Print Assumptions C03_cp_to_tensor.

(* cp_to_vec = tensor_to_vec (cp_to_tensor), and entry ravel(idx) of the vector is the CP entry at idx (every order) *)
Theorem C03_cp_to_vec : forall (F : Type) (Op : fops F), is_ring Op ->
  forall (w : option (tensor F)) (fs : list (tensor F)) (shp : list nat) (R : nat),
  validate_cp w fs = Ok (shp, R) -> Forall (fun f => ndim f = 2) fs ->
  exists t v, cp_to_tensor Op w fs None = Ok t /\ cp_to_vec Op w fs = Ok v /\ tensor_to_vec t = Ok v /\
    shape v = [prod shp] /\
    forall idx, inb shp idx -> get (f0 Op) v [ravel shp idx] = cp_entry F Op w fs R idx.
Proof. exact cp_to_vec_spec. Qed.
Print Assumptions C03_cp_to_vec.

(* cp_to_unfolded(mode) = unfold(cp_to_tensor, mode) for every order (incl. order 1: the vector as one column) and
   every mode, on non-empty tensors *)
Theorem C03_cp_to_unfolded : forall (F : Type) (Op : fops F), is_ring Op ->
  forall (w : option (tensor F)) (fs : list (tensor F)) (shp : list nat) (R m : nat),
  validate_cp w fs = Ok (shp, R) -> Forall (fun f => ndim f = 2) fs ->
  m < length fs -> 0 < prod shp ->
  exists t u, cp_to_tensor Op w fs None = Ok t /\ cp_to_unfolded Op w fs m = Ok u /\ unfold (f0 Op) t m = Ok u.
Proof. exact cp_to_unfolded_spec. Qed.
Print Assumptions C03_cp_to_unfolded.

(* masked reconstruction, every order: entry = mask[idx] * CP entry *)
Theorem C03_cp_to_tensor_masked : forall (F : Type) (Op : fops F), is_ring Op ->
  forall (w : option (tensor F)) (fs : list (tensor F)) (shp : list nat) (R : nat) (mask : tensor F),
  validate_cp w fs = Ok (shp, R) -> Forall (fun f => ndim f = 2) fs ->
  shape mask = shp -> wf mask ->
  exists t, cp_to_tensor Op w fs (Some mask) = Ok t /\ shape t = shp /\
    forall idx, inb shp idx -> get (f0 Op) t idx = fmul Op (get (f0 Op) mask idx) (cp_entry F Op w fs R idx).
Proof. exact cp_to_tensor_masked_spec. Qed.
Print Assumptions C03_cp_to_tensor_masked.

(* non-vacuity: a weighted order-1 and an order-3 CP tensor pass the hypotheses; the two former order-1 defects as examples *)
Example C03_cp_hyps_order1 : validate_cp (Some wW) [wA] = Ok ([3], 2) /\ Forall (fun f : tensor Z => ndim f = 2) [wA].
Proof. split; [reflexivity | repeat constructor]. Qed.
Example C03_cp_hyps_order3 : validate_cp (Some wW) [wA; wA; mk [1; 2] [7; 8]%Z] = Ok ([3; 3; 1], 2).
Proof. reflexivity. Qed.
Example C03_cp_unfolded_order1_example : cp_to_unfolded Zops (Some wW) [wA] 0 = Ok (mk [3; 1] [0; 2; 4]%Z).
Proof. exact cp_unfolded_order1_example. Qed.
Example C03_cp_mask_order1_example : cp_to_tensor Zops (Some wW) [wA] (Some wM) = Ok (mk [3] [0; 0; 4]%Z).
Proof. exact cp_mask_order1_example. Qed.

(* ------------------------------------------------------------------ tensor train *)
(* tt_to_tensor: entry idx = (G_1[:, i_1, :] G_2[:, i_2, :] ... G_N[:, i_N, :])[0, 0], for every number of cores, all
   mode sizes and all (positive) ranks; induction on the number of cores *)
Theorem C03_tt_to_tensor : forall (F : Type) (Op : fops F), is_ring Op ->
  forall (cs : list (tensor F)) (ns : list nat),
  cs <> [] -> tt_cores F 1 cs ns 1 -> 0 < prod ns ->
  exists t, tt_to_tensor Op cs = Ok t /\ shape t = ns /\
    forall idx, inb ns idx -> get (f0 Op) t idx = chain F Op cs idx 0 0.
Proof. exact tt_to_tensor_spec. Qed.
Print Assumptions C03_tt_to_tensor.

(* _validate_tt_tensor accepts exactly: a non-empty list of 3-D cores (r_k, n_k, r_k+1), consecutive ranks equal, both boundary
   ranks 1; it reports (mode sizes, ranks) *)
Theorem C03_validate_tt_iff : forall (F : Type) (cs : list (tensor F)) (shp rk : list nat),
  validate_tt cs = Ok (shp, rk) <-> cs <> [] /\ exists rs, rk = rs ++ [1] /\ chain_shapes F 1 cs shp rs 1.
Proof. exact validate_tt_iff. Qed.
Print Assumptions C03_validate_tt_iff.

(* ------------------------------------------------------------------ tensor ring *)
(* tr_to_tensor: entry idx = trace (G_1[:, i_1, :] ... G_N[:, i_N, :]) for every number N >= 2 of cores (first core, any list
   of middle cores, last core closing the ring), all mode sizes and positive ranks *)
Theorem C03_tr_to_tensor : forall (F : Type) (Op : fops F), is_ring Op ->
  forall (fa : tensor F) (mid : list (tensor F)) (fl : tensor F) (n0 : nat) (nsm : list nat) (nL r0 rL : nat),
  tt_cores F r0 (fa :: mid) (n0 :: nsm) rL -> shape fl = [rL; nL; r0] -> 0 < r0 ->
  0 < prod ((n0 :: nsm) ++ [nL]) ->
  exists t, tr_to_tensor Op (fa :: mid ++ [fl]) = Ok t /\ shape t = (n0 :: nsm) ++ [nL] /\
    forall idx, inb ((n0 :: nsm) ++ [nL]) idx ->
      get (f0 Op) t idx = fsumn Op r0 (fun a => chain F Op ((fa :: mid) ++ [fl]) idx a a).
Proof. exact tr_to_tensor_spec. Qed.
Print Assumptions C03_tr_to_tensor.

(* _validate_tr_tensor accepts exactly: at least two 3-D cores whose ranks match cyclically *)
Theorem C03_validate_tr_iff : forall (F : Type) (cs : list (tensor F)) (shp rk : list nat),
  validate_tr cs = Ok (shp, rk) <->
  2 <= length cs /\ exists rs r0, rk = rs ++ [r0] /\ chain_shapes F r0 cs shp rs r0.
Proof. exact validate_tr_iff. Qed.
Print Assumptions C03_validate_tr_iff.

(* non-vacuity for the train / ring hypotheses: a 2-core train with inner rank 2, closed as a ring of boundary rank 2 *)
Example C03_tt_hyps : tt_cores Z 1 [mk [1; 2; 2] [1; 2; 3; 4]%Z; mk [2; 3; 1] [1; 0; 2; -1; 1; 1]%Z] [2; 3] 1.
Proof. econstructor; [reflexivity | lia |]. econstructor; [reflexivity | lia | constructor]. Qed.
Example C03_tr_hyps : tt_cores Z 2 [mk [2; 1; 3] [1; 2; 3; 4; 5; 6]%Z] [1] 3 /\ shape (mk [3; 2; 2] (repeat 1%Z 12)) = [3; 2; 2].
Proof. split; [econstructor; [reflexivity | lia | constructor] | reflexivity]. Qed.

(* ------------------------------------------------------------------ Tucker *)
(* tucker_to_tensor(core, factors, skip_factor=skip): entry idx = sum over all core indices js of core[js] * prod_l U_l[idx_l, js_l]
   (a skipped mode contributes the Kronecker delta), every order, every skip, all sizes >= 1; induction over the modes *)
Theorem C03_tucker_to_tensor : forall (F : Type) (Op : fops F), is_ring Op ->
  forall (core : tensor F) (fs : list (tensor F)) (ns : list nat) (skip : option nat),
  tk_shapes F 0 skip fs ns (shape core) -> wf core -> 0 < prod (shape core) -> 0 < prod ns ->
  exists t, tucker_to_tensor Op core fs skip false = Ok t /\ shape t = ns /\
    forall idx, inb ns idx ->
      get (f0 Op) t idx =
      sum_idx F (f0 Op) (fadd Op) (shape core) (fun js => fmul Op (get (f0 Op) core js) (tk_prod F Op 0 skip fs idx js)).
Proof. exact tucker_to_tensor_spec. Qed.
Print Assumptions C03_tucker_to_tensor.

(* transpose_factors=True reconstructs from the transposed matrices *)
Theorem C03_tucker_transpose_factors : forall (F : Type) (Op : fops F) (core : tensor F) (fs : list (tensor F)) (skip : option nat),
  Forall (fun M => ndim M = 2) fs ->
  tucker_to_tensor Op core fs skip true = tucker_to_tensor Op core (map (mT Op) fs) skip false.
Proof. exact tucker_transpose_factors. Qed.
Print Assumptions C03_tucker_transpose_factors.

(* _validate_tucker_tensor accepts exactly: >= 2 factors, as many as the core has modes, factor l a matrix with as many
   columns as the core has entries along mode l; reports (row counts, shape of the core) *)
Theorem C03_validate_tucker_iff : forall (F : Type) (core : tensor F) (fs : list (tensor F)) (shp rk : list nat),
  validate_tucker core fs = Ok (shp, rk) <->
  2 <= length fs /\ length fs = ndim core /\ rk = shape core /\ tk_shapes F 0 None fs shp rk.
Proof. exact validate_tucker_iff. Qed.
Print Assumptions C03_validate_tucker_iff.

Example C03_tucker_hyps : tk_shapes Z 0 (Some 1) [mk [3; 2] [1; 2; 3; 4; 5; 6]%Z; mk [7; 7] []] [3; 2] [2; 2].
Proof. constructor; [reflexivity|]. constructor; [reflexivity | constructor]. Qed.
