(* C04 -- property theorems only.  Statements are about the model of the transforms (Model/Transforms.v);
   cp_entry w fs idx = sum_r w_r prod_k A_k[idx_k][r] is the entry of the dense tensor a CP tensor represents.
   Ring regime: every record of operations satisfying ring_theory (Z, R, ...).  Field regime: R. *)
From Coq Require Import List Arith ZArith Reals Lra Lia Bool.
From TLV Require Import Base.Shape Base.PyList Base.Tensor Base.BigSum Base.Ops Model.Transforms
  Proofs.TransformsProofs Proofs.TransformsProofsR.
Import ListNotations.

(* --- cp_permute_factors: any column permutation applied to all factors and the weights *)
Theorem C04_cp_permute_entry : forall (F : Type) (Op : fops F),
  ring_theory (f0 Op) (f1 Op) (fadd Op) (fmul Op) (fsub Op) (fopp Op) (@eq F) ->
  forall (p : list nat) (w : list F) (fs : list (mat F)) w' fs' (idx : list nat),
  cp_permute Op p w fs = Ok (w', fs') -> cp_entry Op w' fs' idx = cp_entry Op w fs idx.
Proof. exact @cp_permute_entry. Qed.
Print Assumptions C04_cp_permute_entry.

(* --- cp_flip_sign: for every summary function, target mode, weights of any sign *)
Theorem C04_cp_flip_sign_entry : forall (F : Type) (Op : fops F),
  ring_theory (f0 Op) (f1 Op) (fadd Op) (fmul Op) (fsub Op) (fopp Op) (@eq F) ->
  forall summ : list F -> F,
  (forall x, fmul Op (colsign Op x) (colsign Op x) = f1 Op) ->
  (forall x, fmul Op (colsign Op x) (fabs Op x) = x) ->
  forall (w : list F) (fs : list (mat F)) (mode : nat) w' fs' (idx : list nat),
  cp_flip_sign Op summ w fs mode = Ok (w', fs') -> length idx = length fs ->
  cp_entry Op w' fs' idx = cp_entry Op w fs idx.
Proof. exact @cp_flip_sign_entry. Qed.
Print Assumptions C04_cp_flip_sign_entry.

Theorem C04_cp_flip_sign_entry_Z : forall (summ : list Z -> Z) (w : list Z) (fs : list (mat Z)) (mode : nat) w' fs' idx,
  cp_flip_sign Zops summ w fs mode = Ok (w', fs') -> length idx = length fs ->
  cp_entry Zops w' fs' idx = cp_entry Zops w fs idx.
Proof. exact (fun summ => cp_flip_sign_entry Zops Zops_ring summ colsign_sq_Z colsign_abs_Z). Qed.
Print Assumptions C04_cp_flip_sign_entry_Z.

Theorem C04_cp_flip_sign_entry_R : forall (summ : list R -> R) (w : list R) (fs : list (mat R)) (mode : nat) w' fs' idx,
  cp_flip_sign Rops summ w fs mode = Ok (w', fs') -> length idx = length fs ->
  cp_entry Rops w' fs' idx = cp_entry Rops w fs idx.
Proof. exact (fun summ => cp_flip_sign_entry Rops Rops_ring summ colsign_sq_R colsign_abs_R). Qed.
Print Assumptions C04_cp_flip_sign_entry_R.

(* --- cp_mode_dot *)
Theorem C04_cp_mode_dot_matrix : forall (F : Type) (Op : fops F),
  ring_theory (f0 Op) (f1 Op) (fadd Op) (fmul Op) (fsub Op) (fopp Op) (@eq F) ->
  forall (w : list F) (fs : list (mat F)) (M : mat F) (k : nat) (kd : bool) w' fs' (idx : list nat) (j : nat),
  cp_mode_dot Op w fs (OpMat M) k kd = Ok (w', fs') ->
  length idx = length fs -> j < length M -> length w <= ncols (nth k fs []) ->
  cp_entry Op w' fs' (set_nth k j idx) =
  sumn Op (length (nth k fs [])) (fun i => fmul Op (mget Op M j i) (cp_entry Op w fs (set_nth k i idx))).
Proof. exact @cp_mode_dot_matrix. Qed.
Print Assumptions C04_cp_mode_dot_matrix.

Theorem C04_cp_mode_dot_vector_keep : forall (F : Type) (Op : fops F),
  ring_theory (f0 Op) (f1 Op) (fadd Op) (fmul Op) (fsub Op) (fopp Op) (@eq F) ->
  forall (w : list F) (fs : list (mat F)) (v : list F) (k : nat) w' fs' (idx : list nat),
  cp_mode_dot Op w fs (OpVec v) k true = Ok (w', fs') ->
  length idx = length fs -> length w <= ncols (nth k fs []) ->
  cp_shape fs' = set_nth k 1 (cp_shape fs) /\
  cp_entry Op w' fs' (set_nth k 0 idx) =
  sumn Op (length (nth k fs [])) (fun i => fmul Op (vget Op v i) (cp_entry Op w fs (set_nth k i idx))).
Proof. exact @cp_mode_dot_vector_keep. Qed.
Print Assumptions C04_cp_mode_dot_vector_keep.

Theorem C04_cp_mode_dot_vector_contract : forall (F : Type) (Op : fops F),
  ring_theory (f0 Op) (f1 Op) (fadd Op) (fmul Op) (fsub Op) (fopp Op) (@eq F) ->
  forall (w : list F) (fs : list (mat F)) (v : list F) (k : nat) w' fs' (idx' : list nat),
  cp_mode_dot Op w fs (OpVec v) k false = Ok (w', fs') ->
  S (length idx') = length fs -> length w <= ncols (nth k fs []) ->
  cp_shape fs' = remove_nth k (cp_shape fs) /\
  cp_entry Op w' fs' idx' =
  sumn Op (length (nth k fs [])) (fun i => fmul Op (vget Op v i) (cp_entry Op w fs (insert_at k i idx'))).
Proof. exact @cp_mode_dot_vector_contract. Qed.
Print Assumptions C04_cp_mode_dot_vector_contract.

(* --- cp_normalize over R; the square roots are data with the contract norms_ok *)
Theorem C04_cp_normalize_entry : forall (tape : list (list R)) (w : list R) (fs : list (mat R)) w' fs' (idx : list nat),
  cp_normalize Rops tape w fs = (w', fs') ->
  Forall2 (norms_ok (length w)) tape (norm_inputs Rops w fs) ->
  length idx = length fs -> fs <> [] ->
  cp_entry Rops w' fs' idx = cp_entry Rops w fs idx.
Proof. exact cp_normalize_entry. Qed.
Print Assumptions C04_cp_normalize_entry.

Theorem C04_cp_normalize_canonical : forall (tape : list (list R)) (w : list R) (fs : list (mat R)) w' fs',
  cp_normalize Rops tape w fs = (w', fs') ->
  Forall2 (norms_ok (length w)) tape (norm_inputs Rops w fs) ->
  Forall2 (unit_or_zero (length w)) tape fs' /\
  forall r, r < length w ->
    (0 <= vget Rops w' r)%R /\ (Exists (fun sc => vget Rops sc r = 0%R) tape -> vget Rops w' r = 0%R).
Proof. exact cp_normalize_canonical. Qed.
Print Assumptions C04_cp_normalize_canonical.

(* --- non-vacuity: the hypotheses are satisfiable and the model computes *)
Example C04_nonvacuous_ring :
  cp_permute Zops [1; 0] [2; 3]%Z [[[1; 2]; [3; 4]]; [[5; 6]; [7; 8]]]%Z
    = Ok ([3; 2]%Z, [[[2; 1]; [4; 3]]; [[6; 5]; [8; 7]]]%Z) /\
  cp_flip_sign Zops (col_sum Zops) [-2; 0]%Z [[[1; -1]; [-3; 1]]; [[5; 0]; [7; 0]]; [[-1; 2]; [-1; 2]]]%Z 1
    = Ok ([2; 0]%Z, [[[-1; -1]; [3; 1]]; [[-5; 0]; [-7; 0]]; [[1; 2]; [1; 2]]]%Z) /\
  cp_mode_dot Zops [1; 1]%Z [[[1; 2]; [3; 4]]; [[5; 6]; [7; 8]]]%Z (OpVec [1; 1]%Z) 0 false
    = Ok ([1; 1]%Z, [[[20; 36]; [28; 48]]]%Z).
Proof. repeat split; vm_compute; reflexivity. Qed.

Example C04_nonvacuous_field :
  let w := [-1; 2]%R in let fs := [[[3; 0]; [4; 0]]; [[1; 0]; [0; 1]]]%R in
  let tape := [[5; 0]; [1; 1]]%R in
  Forall2 (norms_ok (length w)) tape (norm_inputs Rops w fs) /\ length [0; 1] = length fs /\ fs <> [].
Proof.
  cbv zeta. split; [|split; [reflexivity | discriminate]].
  apply Forall2_cons; [|apply Forall2_cons; [|apply Forall2_nil]]; (split; [reflexivity|]); intros r Hr;
    (destruct r as [|[|r]]; [| |simpl in Hr; lia]); unfold colsumsq, sumn, mget, vget; cbn; lra.
Qed.
