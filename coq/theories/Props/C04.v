(* C04 -- property theorems only.  Statements are about the model of the transforms (Model/Transforms.v);
   cp_entry w fs idx = sum_r w_r prod_k A_k[idx_k][r] is the entry of the dense tensor a CP tensor represents.
   Ring regime: every record of operations satisfying ring_theory (Z, R, ...).  Field regime: R. *)
From Coq Require Import List Arith ZArith Reals Lra Lia Bool.
From TLV Require Import Base.Shape Base.PyList Base.Tensor Base.BigSum Base.Ops Model.Transforms
  Proofs.TransformsProofs Proofs.TransformsProofsR Proofs.TransformsProofsTT Proofs.TransformsProofsTucker
  Proofs.TransformsProofsPf2 Proofs.TransformsProofsR2 Proofs.TransformsProofsFlip Proofs.TransformsProofsApi Proofs.TransformsProofsPermList
  Proofs.TransformsProofsTTM Proofs.TransformsProofsOrtho Proofs.TransformsProofsNegMode Proofs.TransformsProofsNegMode2 Proofs.TransformsProofsAlign Proofs.TransformsProofsLink
  Model.TransformsApi Model.TransformsHeap Proofs.TransformsProofsValid Proofs.TransformsProofsHeap Proofs.TransformsProofsHeapTk
  Model.TransformsCplx Model.TransformsRT Proofs.TransformsProofsCplx Proofs.TransformsProofsRT Proofs.TransformsProofsBc Proofs.TransformsProofsLink2 Model.TransformsTkObj Proofs.TransformsProofsTkObj Proofs.TransformsProofsTkObjR Model.TransformsPfHeap Proofs.TransformsProofsPfHeap.
From TLV Require Import Proofs.TransformsProofsFrob.
From TLV Require Import Proofs.TransformsProofsLossy Model.TransformsTkObj8 Proofs.TransformsProofsTkObj8 Model.TransformsPfHeap Model.TransformsPfObj Proofs.TransformsProofsPfObj.
From TLV Require Model.Factorized Proofs.FactorizedProofs Proofs.FactorizedProofs3 Proofs.FactorizedProofs5 Proofs.FactorizedProofs7 Proofs.FactorizedProofs9.
Import ListNotations.

(* --- cp_permute_factors: any column permutation applied to all factors and the weights *)
Theorem C04_cp_permute_entry : forall (F : Type) (Op : fops F),
  ring_theory (f0 Op) (f1 Op) (fadd Op) (fmul Op) (fsub Op) (fopp Op) (@eq F) ->
  forall (p : list nat) (w : list F) (fs : list (mat F)) w' fs' (idx : list nat),
  cp_permute Op p w fs = Ok (w', fs') -> cp_entry Op w' fs' idx = cp_entry Op w fs idx.
Proof. exact @cp_permute_entry. Qed.
Print Assumptions C04_cp_permute_entry.

(* --- cp_flip_sign: for every summary function, target mode, weights of any sign *)
Theorem C04_cp_flip_sign_entry : forall (F : Type) (Op : fops F),
  ring_theory (f0 Op) (f1 Op) (fadd Op) (fmul Op) (fsub Op) (fopp Op) (@eq F) ->
  forall summ : list F -> F,
  (forall x, fmul Op (colsign Op x) (colsign Op x) = f1 Op) ->
  (forall x, fmul Op (colsign Op x) (fabs Op x) = x) ->
  forall (w : list F) (fs : list (mat F)) (mode : nat) w' fs' (idx : list nat),
  cp_flip_sign Op summ w fs mode = Ok (w', fs') -> length idx = length fs ->
  cp_entry Op w' fs' idx = cp_entry Op w fs idx.
Proof. exact @cp_flip_sign_entry. Qed.
Print Assumptions C04_cp_flip_sign_entry.

Theorem C04_cp_flip_sign_entry_Z : forall (summ : list Z -> Z) (w : list Z) (fs : list (mat Z)) (mode : nat) w' fs' idx,
  cp_flip_sign Zops summ w fs mode = Ok (w', fs') -> length idx = length fs ->
  cp_entry Zops w' fs' idx = cp_entry Zops w fs idx.
Proof. exact (fun summ => cp_flip_sign_entry Zops Zops_ring summ colsign_sq_Z colsign_abs_Z). Qed.
Print Assumptions C04_cp_flip_sign_entry_Z.

Theorem C04_cp_flip_sign_entry_R : forall (summ : list R -> R) (w : list R) (fs : list (mat R)) (mode : nat) w' fs' idx,
  cp_flip_sign Rops summ w fs mode = Ok (w', fs') -> length idx = length fs ->
  cp_entry Rops w' fs' idx = cp_entry Rops w fs idx.
Proof. exact (fun summ => cp_flip_sign_entry Rops Rops_ring summ colsign_sq_R colsign_abs_R). Qed.
Print Assumptions C04_cp_flip_sign_entry_R.

(* canonical form: weights |w_r|, and on every factor other than the target mode each column summary becomes its absolute value,
   for every summary that commutes with scaling a column (sum, mean) *)
Theorem C04_cp_flip_sign_canonical : forall (F : Type) (Op : fops F),
  ring_theory (f0 Op) (f1 Op) (fadd Op) (fmul Op) (fsub Op) (fopp Op) (@eq F) ->
  forall summ : list F -> F,
  (forall x, fmul Op (colsign Op x) (colsign Op x) = f1 Op) ->
  (forall x, fmul Op (colsign Op x) (fabs Op x) = x) ->
  (forall c l, summ (map (fun x => fmul Op x c) l) = fmul Op (summ l) c) ->
  forall (w : list F) (fs : list (mat F)) (mode : nat) w' fs',
  cp_flip_sign Op summ w fs mode = Ok (w', fs') ->
  w' = map (fabs Op) w /\ length fs' = length fs /\
  forall jj r, jj < length fs -> jj <> mode -> r < length w ->
    summ (col Op (nth jj fs' []) r) = fabs Op (summ (col Op (nth jj fs []) r)).
Proof. exact @cp_flip_sign_canonical. Qed.
Print Assumptions C04_cp_flip_sign_canonical.

Theorem C04_cp_flip_sign_canonical_mean_R : forall (w : list R) (fs : list (mat R)) (mode : nat) w' fs',
  cp_flip_sign Rops (col_mean Rops) w fs mode = Ok (w', fs') ->
  (forall r, r < length w -> (0 <= vget Rops w' r)%R) /\
  forall jj r, jj < length fs -> jj <> mode -> r < length w -> (0 <= col_mean Rops (col Rops (nth jj fs' []) r))%R.
Proof. exact cp_flip_sign_canonical_mean_R. Qed.
Print Assumptions C04_cp_flip_sign_canonical_mean_R.

Theorem C04_cp_flip_sign_canonical_sum_Z : forall (w : list Z) (fs : list (mat Z)) (mode : nat) w' fs',
  cp_flip_sign Zops (col_sum Zops) w fs mode = Ok (w', fs') ->
  (forall r, r < length w -> (0 <= vget Zops w' r)%Z) /\
  forall jj r, jj < length fs -> jj <> mode -> r < length w -> (0 <= col_sum Zops (col Zops (nth jj fs' []) r))%Z.
Proof. exact cp_flip_sign_canonical_sum_Z. Qed.
Print Assumptions C04_cp_flip_sign_canonical_sum_Z.

(* --- cp_mode_dot *)
Theorem C04_cp_mode_dot_matrix : forall (F : Type) (Op : fops F),
  ring_theory (f0 Op) (f1 Op) (fadd Op) (fmul Op) (fsub Op) (fopp Op) (@eq F) ->
  forall (w : list F) (fs : list (mat F)) (M : mat F) (k : nat) (kd : bool) w' fs' (idx : list nat) (j : nat),
  cp_mode_dot Op w fs (OpMat M) k kd = Ok (w', fs') ->
  length idx = length fs -> j < length M -> length w <= ncols (nth k fs []) ->
  cp_shape fs' = set_nth k (length M) (cp_shape fs) /\
  cp_entry Op w' fs' (set_nth k j idx) =
  sumn Op (length (nth k fs [])) (fun i => fmul Op (mget Op M j i) (cp_entry Op w fs (set_nth k i idx))).
Proof. exact @cp_mode_dot_matrix. Qed.
Print Assumptions C04_cp_mode_dot_matrix.

Theorem C04_cp_mode_dot_vector_keep : forall (F : Type) (Op : fops F),
  ring_theory (f0 Op) (f1 Op) (fadd Op) (fmul Op) (fsub Op) (fopp Op) (@eq F) ->
  forall (w : list F) (fs : list (mat F)) (v : list F) (k : nat) w' fs' (idx : list nat),
  cp_mode_dot Op w fs (OpVec v) k true = Ok (w', fs') ->
  length idx = length fs -> length w <= ncols (nth k fs []) ->
  cp_shape fs' = set_nth k 1 (cp_shape fs) /\
  cp_entry Op w' fs' (set_nth k 0 idx) =
  sumn Op (length (nth k fs [])) (fun i => fmul Op (vget Op v i) (cp_entry Op w fs (set_nth k i idx))).
Proof. exact @cp_mode_dot_vector_keep. Qed.
Print Assumptions C04_cp_mode_dot_vector_keep.

Theorem C04_cp_mode_dot_vector_contract : forall (F : Type) (Op : fops F),
  ring_theory (f0 Op) (f1 Op) (fadd Op) (fmul Op) (fsub Op) (fopp Op) (@eq F) ->
  forall (w : list F) (fs : list (mat F)) (v : list F) (k : nat) w' fs' (idx' : list nat),
  cp_mode_dot Op w fs (OpVec v) k false = Ok (w', fs') ->
  S (length idx') = length fs -> length w <= ncols (nth k fs []) ->
  cp_shape fs' = remove_nth k (cp_shape fs) /\
  cp_entry Op w' fs' idx' =
  sumn Op (length (nth k fs [])) (fun i => fmul Op (vget Op v i) (cp_entry Op w fs (insert_at k i idx'))).
Proof. exact @cp_mode_dot_vector_contract. Qed.
Print Assumptions C04_cp_mode_dot_vector_contract.

(* --- input forms: cp_operand = CpObject (CPTensor object: cached shape, weights never None) | CpTuple (plain (weights, factors),
   weights possibly None); repaired tree (/repo 98aff0c, 85a028b).  Whatever the form and the copy flag, an accepted call returns an
   object that holds the answer of the core function on the operand's weights (ones for None) and factors -- so the theorems above
   apply -- and whose cached `shape` is the shape of what it holds (copy=False on an object recomputes it, every other route goes
   through the validating constructor) *)
Theorem C04_cp_mode_dot_api : forall (F : Type) (Op : fops F) (x : cp_operand) (copy : bool) (opd : operand) (mode : nat) (kd : bool) o',
  cp_mode_dot_api Op x copy opd mode kd = Ok o' ->
  operand_okb x = true /\
  cp_mode_dot Op (operand_w Op x) (operand_fs x) opd mode kd = Ok (cpo_w o', cpo_fs o') /\
  cpo_shape o' = cp_shape (cpo_fs o').
Proof. exact @cp_mode_dot_api_spec. Qed.
Print Assumptions C04_cp_mode_dot_api.

Theorem C04_cp_flip_sign_api : forall (F : Type) (Op : fops F) (x : cp_operand) (summ : list F -> F) (mode : nat) o',
  cp_flip_sign_api Op x summ mode = Ok o' ->
  operand_okb x = true /\
  cp_flip_sign Op summ (operand_w Op x) (operand_fs x) mode = Ok (cpo_w o', cpo_fs o') /\
  cpo_shape o' = cp_shape (cpo_fs o').
Proof. exact @cp_flip_sign_api_spec. Qed.
Print Assumptions C04_cp_flip_sign_api.

(* the object built from (w, fs) by the constructor and the tuple (w, fs) itself give the same result object, whatever the copy flags *)
Theorem C04_cp_mode_dot_api_forms_agree : forall (F : Type) (Op : fops F) (w : option (list F)) (fs : list (mat F)) o (c1 c2 : bool)
  (opd : operand) (mode : nat) (kd : bool) o1 o2,
  cp_new Op w fs = Ok o ->
  cp_mode_dot_api Op (CpTuple w fs) c1 opd mode kd = Ok o1 ->
  cp_mode_dot_api Op (CpObject o) c2 opd mode kd = Ok o2 -> o1 = o2.
Proof. exact @cp_mode_dot_api_forms_agree. Qed.
Print Assumptions C04_cp_mode_dot_api_forms_agree.

Theorem C04_cp_flip_sign_api_forms_agree : forall (F : Type) (Op : fops F) (w : option (list F)) (fs : list (mat F)) o
  (summ : list F -> F) (mode : nat) o1 o2,
  cp_new Op w fs = Ok o ->
  cp_flip_sign_api Op (CpTuple w fs) summ mode = Ok o1 ->
  cp_flip_sign_api Op (CpObject o) summ mode = Ok o2 -> o1 = o2.
Proof. exact @cp_flip_sign_api_forms_agree. Qed.
Print Assumptions C04_cp_flip_sign_api_forms_agree.

Example C04_nonvacuous_forms :
  let fs := [[[1; 2]; [3; 4]]; [[5; 6]]]%Z in
  cp_new Zops None fs = Ok (mk_cpobj [2; 1] [1; 1]%Z fs) /\
  cp_mode_dot_api Zops (CpTuple None fs) false (OpMat [[1; 1]]%Z) 0 false = Ok (mk_cpobj [1; 1] [1; 1]%Z [[[4; 6]]; [[5; 6]]]%Z) /\
  cp_mode_dot_api Zops (CpObject (mk_cpobj [2; 1] [1; 1]%Z fs)) false (OpVec [1; 1]%Z) 0 false
    = Ok (mk_cpobj [1] [1; 1]%Z [[[20; 36]]]%Z) /\
  cp_mode_dot_api Zops (CpTuple (Some [1]%Z) fs) true (OpMat [[1; 1]]%Z) 0 false = Err /\
  cp_flip_sign_api Zops (CpTuple None [[[1; -2]; [3; -4]]; [[-5; 6]]]%Z) (col_sum Zops) 0
    = Ok (mk_cpobj [2; 1] [1; 1]%Z [[[-1; -2]; [-3; -4]]; [[5; 6]]]%Z).
Proof. cbv zeta. repeat split; vm_compute; reflexivity. Qed.

(* --- cp_normalize over R; the square roots are data with the contract norms_ok *)
Theorem C04_cp_normalize_entry : forall (tape : list (list R)) (w : list R) (fs : list (mat R)) w' fs' (idx : list nat),
  cp_normalize Rops tape w fs = (w', fs') ->
  Forall2 (norms_ok (length w)) tape (norm_inputs Rops w fs) ->
  length idx = length fs -> fs <> [] ->
  cp_entry Rops w' fs' idx = cp_entry Rops w fs idx.
Proof. exact cp_normalize_entry. Qed.
Print Assumptions C04_cp_normalize_entry.

Theorem C04_cp_normalize_canonical : forall (tape : list (list R)) (w : list R) (fs : list (mat R)) w' fs',
  cp_normalize Rops tape w fs = (w', fs') ->
  Forall2 (norms_ok (length w)) tape (norm_inputs Rops w fs) ->
  Forall2 (unit_or_zero (length w)) tape fs' /\
  forall r, r < length w ->
    (0 <= vget Rops w' r)%R /\ (Exists (fun sc => vget Rops sc r = 0%R) tape -> vget Rops w' r = 0%R).
Proof. exact cp_normalize_canonical. Qed.
Print Assumptions C04_cp_normalize_canonical.

(* --- pad_tt_rank: chains of any length, any bond ranks, any padding, cores of any order r1 :: mid ++ [r2] (tensor train, TT-matrix);
   tt_chain cores idx a b is entry (a,b) of G_1[:, js_1, :] ... G_N[:, js_N, :];  chain_ok r cores: cores of order >= 2 whose bond
   dimensions match, the first one being r;  mids_ok: one in-range multi-index per core *)
Theorem C04_pad_tt_rank_chain_entry : forall (F : Type) (Op : fops F), ring_theory (f0 Op) (f1 Op) (fadd Op) (fmul Op) (fsub Op) (fopp Op) (@eq F) ->
  forall (cores : list (tensor F)) (npad : nat) (pb : bool) (cores' : list (tensor F)) (idx : list (list nat)) (r : nat),
  pad_tt_rank Op cores npad pb = Ok cores' -> cores <> [] -> chain_ok r cores -> mids_ok cores idx ->
  0 < r -> 0 < last_r2 r cores ->
  tt_chain Op cores' idx 0 0 = tt_chain Op cores idx 0 0.
Proof. exact @pad_chain_entry. Qed.
Print Assumptions C04_pad_tt_rank_chain_entry.

Theorem C04_pad_tt_rank_chain_trace : forall (F : Type) (Op : fops F), ring_theory (f0 Op) (f1 Op) (fadd Op) (fmul Op) (fsub Op) (fopp Op) (@eq F) ->
  forall (cores : list (tensor F)) (npad : nat) (pb : bool) (cores' : list (tensor F)) (idx : list (list nat)) (r : nat),
  pad_tt_rank Op cores npad pb = Ok cores' -> cores <> [] -> chain_ok r cores -> mids_ok cores idx ->
  last_r2 r cores = r ->
  sumn Op (core_r1 (hd (mk [] []) cores')) (fun a => tt_chain Op cores' idx a a) =
  sumn Op (core_r1 (hd (mk [] []) cores)) (fun a => tt_chain Op cores idx a a).
Proof. exact @pad_chain_trace. Qed.
Print Assumptions C04_pad_tt_rank_chain_trace.

(* order-3 cores: tt_entry / tr_entry are the entries of the dense tensor of a tensor train / tensor ring *)
Theorem C04_pad_tt_rank_tt_entry : forall (F : Type) (Op : fops F), ring_theory (f0 Op) (f1 Op) (fadd Op) (fmul Op) (fsub Op) (fopp Op) (@eq F) ->
  forall (cores : list (tensor F)) (npad : nat) (pb : bool) (cores' : list (tensor F)) (idx : list nat) (r : nat),
  pad_tt_rank Op cores npad pb = Ok cores' -> cores <> [] -> chain_ok r cores -> order3 cores -> inb (tt_shape cores) idx ->
  0 < r -> 0 < last_r2 r cores ->
  tt_entry Op cores' idx = tt_entry Op cores idx.
Proof. exact @pad_tt_entry. Qed.
Print Assumptions C04_pad_tt_rank_tt_entry.

Theorem C04_pad_tt_rank_tr_entry : forall (F : Type) (Op : fops F), ring_theory (f0 Op) (f1 Op) (fadd Op) (fmul Op) (fsub Op) (fopp Op) (@eq F) ->
  forall (cores : list (tensor F)) (npad : nat) (pb : bool) (cores' : list (tensor F)) (idx : list nat) (r : nat),
  pad_tt_rank Op cores npad pb = Ok cores' -> cores <> [] -> chain_ok r cores -> order3 cores -> inb (tt_shape cores) idx ->
  last_r2 r cores = r ->
  tr_entry Op cores' idx = tr_entry Op cores idx.
Proof. exact @pad_tr_entry. Qed.
Print Assumptions C04_pad_tt_rank_tr_entry.

(* enlarged ranks as advertised: lpad = 0 for the first core, rpad = 0 for the last core unless pad_boundaries, n_padding otherwise *)
Theorem C04_pad_tt_rank_shapes : forall (F : Type) (Op : fops F) (cores : list (tensor F)) (npad : nat) (pb : bool)
  (cores' : list (tensor F)) (k : nat) (d : tensor F),
  pad_tt_rank Op cores npad pb = Ok cores' -> k < length cores ->
  length cores' = length cores /\
  shape (nth k cores' d) = core_r1 (nth k cores d) + lpad (length cores) npad pb k :: core_mid (nth k cores d) ++
                           [core_r2 (nth k cores d) + rpad (length cores) npad pb k].
Proof. exact @pad_tt_rank_shapes. Qed.
Print Assumptions C04_pad_tt_rank_shapes.

(* the only core of an order-1 train is first and last: both boundary ranks stay (repaired rule, /repo f39990a) *)
Theorem C04_pad_tt_rank_order1 : forall (F : Type) (Op : fops F) (G : tensor F) (npad : nat) (cores' : list (tensor F)),
  pad_tt_rank Op [G] npad false = Ok cores' -> cores' = [pad_core Op 0 0 G].
Proof. exact @pad_tt_rank_order1. Qed.
Print Assumptions C04_pad_tt_rank_order1.

(* --- tucker_mode_dot: Tucker tensors of any order; tucker_entry = sum over the core multi-index *)
Theorem C04_tucker_mode_dot_matrix : forall (F : Type) (Op : fops F), ring_theory (f0 Op) (f1 Op) (fadd Op) (fmul Op) (fsub Op) (fopp Op) (@eq F) ->
  forall (core : tensor F) (fs : list (mat F)) (M : mat F) (k : nat) (kd : bool) core' fs' (idx : list nat) (j : nat),
  tucker_mode_dot Op core fs (OpMat M) k kd = Ok (core', fs') ->
  length idx = length fs -> j < length M ->
  cp_shape fs' = set_nth k (length M) (cp_shape fs) /\
  tucker_entry Op core' fs' (set_nth k j idx) =
  sumn Op (length (nth k fs [])) (fun i => fmul Op (mget Op M j i) (tucker_entry Op core fs (set_nth k i idx))).
Proof. exact @tucker_mode_dot_matrix. Qed.
Print Assumptions C04_tucker_mode_dot_matrix.

Theorem C04_tucker_mode_dot_vector_keep : forall (F : Type) (Op : fops F), ring_theory (f0 Op) (f1 Op) (fadd Op) (fmul Op) (fsub Op) (fopp Op) (@eq F) ->
  forall (core : tensor F) (fs : list (mat F)) (v : list F) (k : nat) core' fs' (idx : list nat),
  tucker_mode_dot Op core fs (OpVec v) k true = Ok (core', fs') ->
  length idx = length fs ->
  cp_shape fs' = set_nth k 1 (cp_shape fs) /\
  tucker_entry Op core' fs' (set_nth k 0 idx) =
  sumn Op (length (nth k fs [])) (fun i => fmul Op (vget Op v i) (tucker_entry Op core fs (set_nth k i idx))).
Proof. exact @tucker_mode_dot_vector_keep. Qed.
Print Assumptions C04_tucker_mode_dot_vector_keep.

Theorem C04_tucker_mode_dot_vector_contract : forall (F : Type) (Op : fops F), ring_theory (f0 Op) (f1 Op) (fadd Op) (fmul Op) (fsub Op) (fopp Op) (@eq F) ->
  forall (core : tensor F) (fs : list (mat F)) (v : list F) (k : nat) core' fs' (idx' : list nat),
  tucker_mode_dot Op core fs (OpVec v) k false = Ok (core', fs') ->
  S (length idx') = length fs ->
  cp_shape fs' = remove_nth k (cp_shape fs) /\
  tucker_entry Op core' fs' idx' =
  sumn Op (length (nth k fs [])) (fun i => fmul Op (vget Op v i) (tucker_entry Op core fs (insert_at k i idx'))).
Proof. exact @tucker_mode_dot_vector_contract. Qed.
Print Assumptions C04_tucker_mode_dot_vector_contract.

(* --- tucker_normalize over R; tk_norms_ok: tape_k holds the column norms of factor k (contract of the square roots) *)
Theorem C04_tucker_normalize_entry : forall (tape : list (list R)) (core : tensor R) (fs : list (mat R)) core' fs' (idx : list nat),
  tucker_normalize Rops tape core fs = (core', fs') -> tk_norms_ok (shape core) tape fs -> length idx = length fs ->
  tucker_entry Rops core' fs' idx = tucker_entry Rops core fs idx.
Proof. exact tucker_normalize_entry. Qed.
Print Assumptions C04_tucker_normalize_entry.

Theorem C04_tucker_normalize_canonical : forall (tape : list (list R)) (core : tensor R) (fs : list (mat R)) core' fs',
  tucker_normalize Rops tape core fs = (core', fs') -> tk_norms_ok (shape core) tape fs ->
  shape core' = shape core /\ tk_units (shape core) tape fs' /\
  forall js k, inb (shape core) js -> k < length (shape core) ->
    vget Rops (nth k tape []) (nth k js 0) = 0%R -> tget Rops core' js = 0%R.
Proof. exact tucker_normalize_canonical. Qed.
Print Assumptions C04_tucker_normalize_canonical.

(* --- PARAFAC2: pf2_entry w A B C Ps i j k = sum_s P_i[j][s] * (sum_r w_r A[i][r] B[s][r] C[k][r]) *)
Theorem C04_pf2_entry_evolving : forall (F : Type) (Op : fops F), ring_theory (f0 Op) (f1 Op) (fadd Op) (fmul Op) (fsub Op) (fopp Op) (@eq F) ->
  forall (w : list F) (A B C : mat F) (Ps : list (mat F)) (i j k : nat),
  rectb (length B) (nth i Ps []) = true -> j < length (nth i Ps []) -> length w <= ncols B ->
  pf2_entry Op w A B C Ps i j k = cp_entry Op w [A; matmul Op (nth i Ps []) B; C] [i; j; k].
Proof. exact @pf2_entry_evolving. Qed.
Print Assumptions C04_pf2_entry_evolving.

Theorem C04_parafac2_normalise_entry : forall (tape : list (list R)) (w : list R) (A B C : mat R) (Ps : list (mat R))
  w' A' B' C' Ps' (i j k : nat),
  parafac2_normalise Rops tape w A B C Ps = (w', [A'; B'; C'], Ps') ->
  Forall2 (norms_ok (length w)) tape (norm_inputs Rops w [A; B; C]) ->
  pf2_entry Rops w' A' B' C' Ps' i j k = pf2_entry Rops w A B C Ps i j k.
Proof. exact parafac2_normalise_entry. Qed.
Print Assumptions C04_parafac2_normalise_entry.

Theorem C04_parafac2_normalise_canonical : forall (tape : list (list R)) (w : list R) (A B C : mat R) (Ps : list (mat R)) w' fs' Ps',
  parafac2_normalise Rops tape w A B C Ps = (w', fs', Ps') ->
  Forall2 (norms_ok (length w)) tape (norm_inputs Rops w [A; B; C]) ->
  Ps' = Ps /\ Forall2 (unit_or_zero (length w)) tape fs' /\
  forall r, r < length w ->
    (0 <= vget Rops w' r)%R /\ (Exists (fun sc => vget Rops sc r = 0%R) tape -> vget Rops w' r = 0%R).
Proof. exact parafac2_normalise_canonical. Qed.
Print Assumptions C04_parafac2_normalise_canonical.

(* Parafac2Tensor.from_CPTensor: the QR answer is data; its contract B = Q R (row j) is the hypothesis *)
Theorem C04_from_cptensor_entry : forall (F : Type) (Op : fops F), ring_theory (f0 Op) (f1 Op) (fadd Op) (fmul Op) (fsub Op) (fopp Op) (@eq F) ->
  forall (Qm Rm : mat F) (w : list F) (A B C : mat F) w' A' B' C' Ps (i j k : nat),
  from_cp Qm Rm w A B C = (w', [A'; B'; C'], Ps) -> i < length A ->
  (forall r, r < length w -> mget Op B j r = sumn Op (length Rm) (fun s => fmul Op (mget Op Qm j s) (mget Op Rm s r))) ->
  pf2_entry Op w' A' B' C' Ps i j k = cp_entry Op w [A; B; C] [i; j; k].
Proof. exact @from_cp_entry. Qed.
Print Assumptions C04_from_cptensor_entry.

(* svd_decompress_parafac2_tensor: slice i of the result is L_i x slice i of the operand (unchanged where no loading is given) *)
Theorem C04_svd_decompress_entry : forall (F : Type) (Op : fops F), ring_theory (f0 Op) (f1 Op) (fadd Op) (fmul Op) (fsub Op) (fopp Op) (@eq F) ->
  forall (w : list F) (A B C : mat F) (Ps : list (mat F)) (Ls : list (option (mat F))) w' A' B' C' Ps' (i j k : nat),
  svd_decompress Op w A B C Ps Ls = Ok (w', [A'; B'; C'], Ps') -> i < length Ps ->
  match nth i Ls None with
  | Some Lm => j < length Lm -> length B <= ncols (nth i Ps []) ->
      pf2_entry Op w' A' B' C' Ps' i j k =
      sumn Op (length (nth i Ps [])) (fun t => fmul Op (mget Op Lm j t) (pf2_entry Op w A B C Ps i t k))
  | None => pf2_entry Op w' A' B' C' Ps' i j k = pf2_entry Op w A B C Ps i j k
  end.
Proof. exact @svd_decompress_entry. Qed.
Print Assumptions C04_svd_decompress_entry.

(* svd_compress_tensor_slices, one slice: loading x score = slice when every singular value is kept
   (the SVD answer (U, s, Vh) is data; its contract U diag(s) Vh = X is the last hypothesis) *)
Theorem C04_svd_compress_slice : forall (F : Type) (Op : fops F), ring_theory (f0 Op) (f1 Op) (fadd Op) (fmul Op) (fsub Op) (fopp Op) (@eq F) ->
  forall (rl : nat) (thr : F) (X U : mat F) (s : list F) (Vh score : mat F) (L : option (mat F)),
  compress_slice Op rl thr X (U, s, Vh) = (score, L) ->
  match L with
  | Some Lm =>
      count_kept Op thr s = length s -> length Vh = length s -> rectb (length s) U = true ->
      forall j k, j < length U -> k < ncols score ->
      mget Op X j k = sumn Op (length s) (fun t => fmul Op (mget Op U j t) (fmul Op (vget Op s t) (mget Op Vh t k))) ->
      mget Op (matmul Op Lm score) j k = mget Op X j k
  | None => score = X
  end.
Proof. exact @compress_slice_entry. Qed.
Print Assumptions C04_svd_compress_slice.

(* compress, fit, decompress: if a PARAFAC2 tensor represents the score matrix of slice i exactly, the decompressed tensor
   represents the original slice (every singular value kept; the SVD answer is data with its contract U diag(s) Vh = X) *)
Theorem C04_svd_compress_decompress_roundtrip : forall (F : Type) (Op : fops F), ring_theory (f0 Op) (f1 Op) (fadd Op) (fmul Op) (fsub Op) (fopp Op) (@eq F) ->
  forall (rl : nat) (thr : F) (X U : mat F) (s : list F) (Vh score Lm : mat F) (w : list F) (A B C : mat F) (Ps : list (mat F))
    (Ls : list (option (mat F))) w' A' B' C' Ps' (i j k : nat),
  compress_slice Op rl thr X (U, s, Vh) = (score, Some Lm) ->
  count_kept Op thr s = length s -> length Vh = length s -> rectb (length s) U = true ->
  mget Op X j k = sumn Op (length s) (fun t => fmul Op (mget Op U j t) (fmul Op (vget Op s t) (mget Op Vh t k))) ->
  svd_decompress Op w A B C Ps Ls = Ok (w', [A'; B'; C'], Ps') -> i < length Ps -> nth i Ls None = Some Lm ->
  length (nth i Ps []) = length score -> length B <= ncols (nth i Ps []) ->
  (forall t, t < length score -> pf2_entry Op w A B C Ps i t k = mget Op score t k) ->
  j < length U -> k < ncols score ->
  pf2_entry Op w' A' B' C' Ps' i j k = mget Op X j k.
Proof. exact @compress_decompress_roundtrip. Qed.
Print Assumptions C04_svd_compress_decompress_roundtrip.

(* ================================================================== round 3 *)
(* --- cp_permute_factors: the output IS the assignment applied to the weights and to every column of every factor
   (the assignment is the answer of the linear-sum-assignment oracle), single tensor and list form *)
Theorem C04_cp_permute_spec : forall (F : Type) (Op : fops F) (p : list nat) (w : list F) (fs : list (mat F)) w' fs',
  cp_permute Op p w fs = Ok (w', fs') ->
  length p = length w /\ length w' = length w /\ length fs' = length fs /\
  forall r, r < length w ->
    vget Op w' r = vget Op w (nth r p 0) /\
    forall k i, k < length fs -> mget Op (nth k fs' []) i r = mget Op (nth k fs []) i (nth r p 0).
Proof. exact @cp_permute_spec. Qed.
Print Assumptions C04_cp_permute_spec.

Theorem C04_cp_permute_list_spec : forall (F : Type) (Op : fops F) (ps : list (list nat)) (ts outs : list (list F * list (mat F))),
  cp_permute_list Op ps ts = Ok outs ->
  length outs = length ts /\ length ps = length ts /\
  forall i, i < length ts ->
    cp_permute Op (nth i ps []) (fst (nth i ts ([], []))) (snd (nth i ts ([], []))) = Ok (nth i outs ([], [])).
Proof. exact @cp_permute_list_spec. Qed.
Print Assumptions C04_cp_permute_list_spec.

Theorem C04_cp_permute_list_entry : forall (F : Type) (Op : fops F), ring_theory (f0 Op) (f1 Op) (fadd Op) (fmul Op) (fsub Op) (fopp Op) (@eq F) ->
  forall (ps : list (list nat)) (ts outs : list (list F * list (mat F))) (i : nat) (idx : list nat),
  cp_permute_list Op ps ts = Ok outs -> i < length ts ->
  cp_entry Op (fst (nth i outs ([], []))) (snd (nth i outs ([], []))) idx =
  cp_entry Op (fst (nth i ts ([], []))) (snd (nth i ts ([], []))) idx.
Proof. exact @cp_permute_list_entry. Qed.
Print Assumptions C04_cp_permute_list_entry.

(* aligned component order: the brute-force check used on the oracle's assignment is sound for every rank:
   an accepted assignment is a permutation and no permutation has a larger total congruence (up to tol) *)
Theorem C04_assignment_optimal_sound : forall (F : Type) (Op : fops F) (tol : F) (n : nat) (M : nat -> nat -> F) (p : list nat),
  is_optimalb Op tol n M p = true ->
  is_permb n p = true /\
  forall q, is_permb n q = true -> fleb Op (assign_score Op M q) (fadd Op (assign_score Op M p) tol) = true.
Proof. exact @is_optimalb_sound. Qed.
Print Assumptions C04_assignment_optimal_sound.

(* --- orthonormal projections: ortho n P  <->  the first n columns of P are orthonormal (P^T P = I) *)
Theorem C04_ortho_matmul : forall (F : Type) (Op : fops F), ring_theory (f0 Op) (f1 Op) (fadd Op) (fmul Op) (fsub Op) (fopp Op) (@eq F) ->
  forall (n : nat) (Lm P : mat F), ortho Op (length P) Lm -> ortho Op n P -> n <= ncols P -> ortho Op n (matmul Op Lm P).
Proof. exact @ortho_matmul. Qed.
Print Assumptions C04_ortho_matmul.

Theorem C04_from_cptensor_ortho : forall (F : Type) (Op : fops F) (n : nat) (Qm Rm : mat F) (w : list F) (A B C : mat F) w' fs' Ps (i : nat),
  from_cp Qm Rm w A B C = (w', fs', Ps) -> i < length A -> ortho Op n Qm -> ortho Op n (nth i Ps []).
Proof. exact @from_cp_ortho. Qed.
Print Assumptions C04_from_cptensor_ortho.

Theorem C04_svd_decompress_ortho : forall (F : Type) (Op : fops F), ring_theory (f0 Op) (f1 Op) (fadd Op) (fmul Op) (fsub Op) (fopp Op) (@eq F) ->
  forall (n : nat) (w : list F) (A B C : mat F) (Ps : list (mat F)) (Ls : list (option (mat F))) w' fs' Ps' (i : nat),
  svd_decompress Op w A B C Ps Ls = Ok (w', fs', Ps') -> i < length Ps ->
  ortho Op n (nth i Ps []) -> n <= ncols (nth i Ps []) ->
  (forall Lm, nth i Ls None = Some Lm -> ortho Op (length (nth i Ps [])) Lm) ->
  ortho Op n (nth i Ps' []).
Proof. exact @svd_decompress_ortho. Qed.
Print Assumptions C04_svd_decompress_ortho.

(* --- dense form of a TT-matrix (cores (r, m, n, r'), tensor of shape (m_1..m_N, n_1..n_N)) is unchanged by pad_tt_rank *)
Theorem C04_pad_tt_rank_ttm_entry : forall (F : Type) (Op : fops F), ring_theory (f0 Op) (f1 Op) (fadd Op) (fmul Op) (fsub Op) (fopp Op) (@eq F) ->
  forall (cores : list (tensor F)) (npad : nat) (pb : bool) (cores' : list (tensor F)) (idx : list nat) (r : nat),
  pad_tt_rank Op cores npad pb = Ok cores' -> cores <> [] -> chain_ok r cores -> order4 cores -> inb (ttm_shape cores) idx ->
  0 < r -> 0 < last_r2 r cores ->
  ttm_entry Op cores' idx = ttm_entry Op cores idx.
Proof. exact @pad_ttm_entry. Qed.
Print Assumptions C04_pad_tt_rank_ttm_entry.

(* --- Python mode numbers (-N <= mode < N): the entry points act like the non-negative mode k = norm_mode N mode,
   so the mode-product theorems above apply; for a negative contraction factor 0 absorbs the vector, same represented tensor *)
Theorem C04_cp_mode_dot_z_matrix : forall (F : Type) (Op : fops F) (w : list F) (fs : list (mat F)) (M : mat F) (mode : Z) (kd : bool) w' fs',
  cp_mode_dot_z Op w fs (OpMat M) mode kd = Ok (w', fs') ->
  exists k, norm_mode (length fs) mode = Some k /\ cp_mode_dot Op w fs (OpMat M) k kd = Ok (w', fs').
Proof. exact @cp_mode_dot_z_matrix. Qed.
Print Assumptions C04_cp_mode_dot_z_matrix.

Theorem C04_cp_mode_dot_z_vector_keep : forall (F : Type) (Op : fops F) (w : list F) (fs : list (mat F)) (v : list F) (mode : Z) w' fs',
  cp_mode_dot_z Op w fs (OpVec v) mode true = Ok (w', fs') ->
  exists k, norm_mode (length fs) mode = Some k /\ cp_mode_dot Op w fs (OpVec v) k true = Ok (w', fs').
Proof. exact @cp_mode_dot_z_vector_keep. Qed.
Print Assumptions C04_cp_mode_dot_z_vector_keep.

Theorem C04_cp_mode_dot_z_vector_contract : forall (F : Type) (Op : fops F), ring_theory (f0 Op) (f1 Op) (fadd Op) (fmul Op) (fsub Op) (fopp Op) (@eq F) ->
  forall (w : list F) (fs : list (mat F)) (v : list F) (mode : Z) w' fs' (idx' : list nat),
  cp_mode_dot_z Op w fs (OpVec v) mode false = Ok (w', fs') -> S (length idx') = length fs ->
  exists k, norm_mode (length fs) mode = Some k /\
    (length w <= ncols (nth k fs []) ->
     cp_shape fs' = remove_nth k (cp_shape fs) /\
     cp_entry Op w' fs' idx' =
     sumn Op (length (nth k fs [])) (fun i => fmul Op (vget Op v i) (cp_entry Op w fs (insert_at k i idx')))).
Proof. exact @cp_mode_dot_z_vector_contract. Qed.
Print Assumptions C04_cp_mode_dot_z_vector_contract.

Theorem C04_tucker_mode_dot_z : forall (F : Type) (Op : fops F) (core : tensor F) (fs : list (mat F)) (x : operand) (mode : Z) (kd : bool) r,
  tucker_mode_dot_z Op core fs x mode kd = Ok r ->
  exists k, norm_mode (length fs) mode = Some k /\ tucker_mode_dot Op core fs x k kd = Ok r.
Proof. exact @tucker_mode_dot_z_spec. Qed.
Print Assumptions C04_tucker_mode_dot_z.

(* cp_flip_sign with a negative target mode never skips the target in its loop (it is multiplied by its own signs twice);
   the represented tensor is preserved all the same *)
Theorem C04_cp_flip_sign_z_entry : forall (F : Type) (Op : fops F), ring_theory (f0 Op) (f1 Op) (fadd Op) (fmul Op) (fsub Op) (fopp Op) (@eq F) ->
  forall summ : list F -> F,
  (forall x, fmul Op (colsign Op x) (colsign Op x) = f1 Op) ->
  (forall x, fmul Op (colsign Op x) (fabs Op x) = x) ->
  forall (w : list F) (fs : list (mat F)) (mode : Z) w' fs' (idx : list nat),
  cp_flip_sign_z Op summ w fs mode = Ok (w', fs') -> length idx = length fs ->
  cp_entry Op w' fs' idx = cp_entry Op w fs idx.
Proof. exact @cp_flip_sign_z_entry. Qed.
Print Assumptions C04_cp_flip_sign_z_entry.

Theorem C04_cp_flip_sign_z_canonical : forall (F : Type) (Op : fops F),
  ring_theory (f0 Op) (f1 Op) (fadd Op) (fmul Op) (fsub Op) (fopp Op) (@eq F) ->
  forall summ : list F -> F,
  (forall x, fmul Op (colsign Op x) (colsign Op x) = f1 Op) ->
  (forall x, fmul Op (colsign Op x) (fabs Op x) = x) ->
  (forall c l, summ (map (fun x => fmul Op x c) l) = fmul Op (summ l) c) ->
  forall (w : list F) (fs : list (mat F)) (mode : Z) w' fs',
  cp_flip_sign_z Op summ w fs mode = Ok (w', fs') ->
  exists k, norm_mode (length fs) mode = Some k /\
  w' = map (fabs Op) w /\ length fs' = length fs /\
  forall jj r, jj < length fs -> jj <> k -> r < length w ->
    summ (col Op (nth jj fs' []) r) = fabs Op (summ (col Op (nth jj fs []) r)).
Proof. exact @cp_flip_sign_z_canonical. Qed.
Print Assumptions C04_cp_flip_sign_z_canonical.

Theorem C04_cp_flip_sign_z_entry_R : forall (summ : list R -> R) (w : list R) (fs : list (mat R)) (mode : Z) w' fs' idx,
  cp_flip_sign_z Rops summ w fs mode = Ok (w', fs') -> length idx = length fs ->
  cp_entry Rops w' fs' idx = cp_entry Rops w fs idx.
Proof. exact (fun summ => cp_flip_sign_z_entry Rops Rops_ring summ colsign_sq_R colsign_abs_R). Qed.
Print Assumptions C04_cp_flip_sign_z_entry_R.

(* ================================================================== link to the code-level reconstructions (property C03)
   cp_entry / tucker_entry / tt_entry / tr_entry / ttm_entry are this development's entry-level definitions of the represented
   tensor.  Model/Factorized.v models tensorly's cp_to_tensor, tucker_to_tensor, tt_to_tensor, tr_to_tensor, tt_matrix_to_tensor
   step by step (validation, khatri_rao + dot + fold, mode-product chain, reshape / dot chains); on every input those models accept
   they return a tensor with the shape of, and exactly the entries of, the definitions used above.  of_rows / of_vec encode a list
   of rows / a list as the dense tensors Factorized works on. *)
Theorem C04_link_cp_to_tensor : forall (F : Type) (Op : fops F), ring_theory (f0 Op) (f1 Op) (fadd Op) (fmul Op) (fsub Op) (fopp Op) (@eq F) ->
  forall (w : list F) (fs : list (mat F)), fs <> [] ->
  exists t, Factorized.cp_to_tensor Op (Some (of_vec Op w)) (map (of_rows Op (length w)) fs) None = Ok t /\
    shape t = shape (Transforms.cp_to_tensor Op w fs) /\
    forall idx, inb (shape t) idx -> get (f0 Op) t idx = cp_entry Op w fs idx.
Proof. exact @cp_to_tensor_link. Qed.
Print Assumptions C04_link_cp_to_tensor.

Theorem C04_link_tucker_to_tensor : forall (F : Type) (Op : fops F), ring_theory (f0 Op) (f1 Op) (fadd Op) (fmul Op) (fsub Op) (fopp Op) (@eq F) ->
  forall (core : tensor F) (fs : list (mat F)),
  length fs = length (shape core) -> wf core -> 0 < prod (shape core) -> 0 < prod (cp_shape fs) ->
  exists t, Factorized.tucker_to_tensor Op core (of_rows_list Op (shape core) fs) None false = Ok t /\
    shape t = shape (Transforms.tucker_to_tensor Op core fs) /\
    forall idx, inb (shape t) idx -> get (f0 Op) t idx = tucker_entry Op core fs idx.
Proof. exact @tucker_to_tensor_link. Qed.
Print Assumptions C04_link_tucker_to_tensor.

Theorem C04_link_tt_to_tensor : forall (F : Type) (Op : fops F), ring_theory (f0 Op) (f1 Op) (fadd Op) (fmul Op) (fsub Op) (fopp Op) (@eq F) ->
  forall (cs : list (tensor F)) (ns : list nat), cs <> [] -> FactorizedProofs3.tt_cores F 1 cs ns 1 -> 0 < prod ns ->
  exists t, Factorized.tt_to_tensor Op cs = Ok t /\ shape t = shape (Transforms.tt_to_tensor Op cs) /\
    forall idx, inb (shape t) idx -> get (f0 Op) t idx = tt_entry Op cs idx.
Proof. exact @tt_to_tensor_link. Qed.
Print Assumptions C04_link_tt_to_tensor.

Theorem C04_link_tr_to_tensor : forall (F : Type) (Op : fops F), ring_theory (f0 Op) (f1 Op) (fadd Op) (fmul Op) (fsub Op) (fopp Op) (@eq F) ->
  forall (fa : tensor F) (mid : list (tensor F)) (fl : tensor F) (n0 : nat) (nsm : list nat) (nL r0 rL : nat),
  FactorizedProofs3.tt_cores F r0 (fa :: mid) (n0 :: nsm) rL -> shape fl = [rL; nL; r0] -> 0 < r0 -> 0 < prod ((n0 :: nsm) ++ [nL]) ->
  exists t, Factorized.tr_to_tensor Op (fa :: mid ++ [fl]) = Ok t /\
    shape t = shape (Transforms.tr_to_tensor Op (fa :: mid ++ [fl])) /\
    forall idx, inb (shape t) idx -> get (f0 Op) t idx = tr_entry Op (fa :: mid ++ [fl]) idx.
Proof. exact @tr_to_tensor_link. Qed.
Print Assumptions C04_link_tr_to_tensor.

Theorem C04_link_ttm_to_tensor : forall (F : Type) (Op : fops F), ring_theory (f0 Op) (f1 Op) (fadd Op) (fmul Op) (fsub Op) (fopp Op) (@eq F) ->
  forall (cs : list (tensor F)) (ns ms : list nat), cs <> [] -> FactorizedProofs9.ttm_cores F 1 cs ns ms 1 ->
  exists t, Factorized.ttm_to_tensor Op cs = Ok t /\ shape t = shape (Transforms.ttm_to_tensor Op cs) /\
    forall is os, inb ns is -> inb ms os -> get (f0 Op) t (is ++ os) = ttm_entry Op cs (is ++ os).
Proof. exact @ttm_to_tensor_link. Qed.
Print Assumptions C04_link_ttm_to_tensor.

(* PARAFAC2 (round 6): pf2_entry is what C03's model of parafac2_to_slice returns on the encoded operand (the verdict of C03's model of
   _validate_parafac2_tensor is a hypothesis; C04_link_pf2_nonvacuous exhibits it) *)
Theorem C04_link_pf2_to_slice : forall (F : Type) (Op : fops F), ring_theory (f0 Op) (f1 Op) (fadd Op) (fmul Op) (fsub Op) (fopp Op) (@eq F) ->
  forall (w : list F) (A B C : mat F) (Ps : list (mat F)) shp i,
  Factorized.validate_parafac2 Op (Some (of_vec Op w)) [of_rows Op (length w) A; of_rows Op (length w) B; of_rows Op (length w) C]
                               (map (of_rows Op (length B)) Ps) = Ok (shp, length w) ->
  length Ps = length A -> i < length A ->
  exists t, Factorized.parafac2_to_slice Op (Some (of_vec Op w)) [of_rows Op (length w) A; of_rows Op (length w) B; of_rows Op (length w) C]
                                         (map (of_rows Op (length B)) Ps) i = Ok t /\
    shape t = [length (nth i Ps []); length C] /\
    forall j k, j < length (nth i Ps []) -> k < length C -> Factorized.get2 Op t j k = pf2_entry Op w A B C Ps i j k.
Proof. exact @pf2_to_slice_link. Qed.
Print Assumptions C04_link_pf2_to_slice.

Example C04_link_pf2_nonvacuous :
  let w := [1; 2]%Z in let A := [[1; 2]]%Z in let B := [[1; 0]; [0; 1]]%Z in let C := [[3; 1]; [0; 2]]%Z in let P := [[0; 1]; [-1; 0]; [0; 0]]%Z in
  Factorized.validate_parafac2 Zops (Some (of_vec Zops w)) [of_rows Zops 2 A; of_rows Zops 2 B; of_rows Zops 2 C] (map (of_rows Zops 2) [P]) = Ok ([[3; 2]], 2) /\
  (exists t, Factorized.parafac2_to_slice Zops (Some (of_vec Zops w)) [of_rows Zops 2 A; of_rows Zops 2 B; of_rows Zops 2 C] (map (of_rows Zops 2) [P]) 0 = Ok t /\
             data t = [4; 8; -3; 0; 0; 0]%Z) /\
  pf2_slice Zops w A B C [P] 0 = [[4; 8]; [-3; 0]; [0; 0]]%Z.
Proof. cbv zeta. split; [vm_compute; reflexivity|]. split; [eexists; split; vm_compute; reflexivity|vm_compute; reflexivity]. Qed.

Example C04_link_nonvacuous :
  FactorizedProofs3.tt_cores Z 1 [mk [1; 2; 2] [1; 2; 3; 4]%Z; mk [2; 2; 1] [5; 6; 7; 8]%Z] [2; 2] 1 /\
  Factorized.tt_to_tensor Zops [mk [1; 2; 2] [1; 2; 3; 4]%Z; mk [2; 2; 1] [5; 6; 7; 8]%Z]
    = Ok (Transforms.tt_to_tensor Zops [mk [1; 2; 2] [1; 2; 3; 4]%Z; mk [2; 2; 1] [5; 6; 7; 8]%Z]) /\
  Factorized.cp_to_tensor Zops (Some (of_vec Zops [2; -1]%Z)) (map (of_rows Zops 2) [[[1; 2]; [3; 4]]; [[5; 6]]]%Z) None
    = Ok (Transforms.cp_to_tensor Zops [2; -1]%Z [[[1; 2]; [3; 4]]; [[5; 6]]]%Z) /\
  Factorized.tucker_to_tensor Zops (mk [2; 1] [1; 2]%Z) (of_rows_list Zops [2; 1] [[[1; 0]; [1; 1]]; [[2]; [3]]]%Z) None false
    = Ok (Transforms.tucker_to_tensor Zops (mk [2; 1] [1; 2]%Z) [[[1; 0]; [1; 1]]; [[2]; [3]]]%Z).
Proof.
  split; [|repeat split; vm_compute; reflexivity].
  econstructor; [reflexivity | lia |]. econstructor; [reflexivity | lia | constructor].
Qed.

(* --- non-vacuity: the hypotheses are satisfiable and the model computes *)
Example C04_nonvacuous_ring :
  cp_permute Zops [1; 0] [2; 3]%Z [[[1; 2]; [3; 4]]; [[5; 6]; [7; 8]]]%Z
    = Ok ([3; 2]%Z, [[[2; 1]; [4; 3]]; [[6; 5]; [8; 7]]]%Z) /\
  cp_flip_sign Zops (col_sum Zops) [-2; 0]%Z [[[1; -1]; [-3; 1]]; [[5; 0]; [7; 0]]; [[-1; 2]; [-1; 2]]]%Z 1
    = Ok ([2; 0]%Z, [[[-1; -1]; [3; 1]]; [[-5; 0]; [-7; 0]]; [[1; 2]; [1; 2]]]%Z) /\
  cp_mode_dot Zops [1; 1]%Z [[[1; 2]; [3; 4]]; [[5; 6]; [7; 8]]]%Z (OpVec [1; 1]%Z) 0 false
    = Ok ([1; 1]%Z, [[[20; 36]; [28; 48]]]%Z).
Proof. repeat split; vm_compute; reflexivity. Qed.

Example C04_nonvacuous_field :
  let w := [-1; 2]%R in let fs := [[[3; 0]; [4; 0]]; [[1; 0]; [0; 1]]]%R in
  let tape := [[5; 0]; [1; 1]]%R in
  Forall2 (norms_ok (length w)) tape (norm_inputs Rops w fs) /\ length [0; 1] = length fs /\ fs <> [].
Proof.
  cbv zeta. split; [|split; [reflexivity | discriminate]].
  apply Forall2_cons; [|apply Forall2_cons; [|apply Forall2_nil]]; (split; [reflexivity|]); intros r Hr;
    (destruct r as [|[|r]]; [| |simpl in Hr; lia]); unfold colsumsq, sumn, mget, vget; cbn; lra.
Qed.

Example C04_nonvacuous_tt :
  let G1 := mk [1; 2; 2] [1; 2; 3; 4]%Z in let G2 := mk [2; 2; 1] [5; 6; 7; 8]%Z in
  pad_tt_rank Zops [G1; G2] 1 false
    = Ok [mk [1; 2; 3] [1; 2; 0; 3; 4; 0]%Z; mk [3; 2; 1] [5; 6; 7; 8; 0; 0]%Z] /\
  chain_ok 1 [G1; G2] /\ last_r2 1 [G1; G2] = 1 /\ inb (tt_shape [G1; G2]) [1; 0] /\
  tt_entry Zops [G1; G2] [1; 0] = 43%Z /\
  pad_tt_rank Zops [mk [1; 2; 1] [3; 4]%Z] 2 false = Ok [mk [1; 2; 1] [3; 4]%Z] /\
  pad_tt_rank Zops [mk [2; 1; 2] [1; 2; 3; 4]%Z] 1 true = Ok [mk [3; 1; 3] [1; 2; 0; 3; 4; 0; 0; 0; 0]%Z] /\
  tr_entry Zops [mk [2; 1; 2] [1; 2; 3; 4]%Z] [0] = 5%Z /\
  (* TT-matrix cores (r1, m, n, r2) *)
  pad_tt_rank Zops [mk [1; 1; 2; 2] [1; 2; 3; 4]%Z; mk [2; 1; 1; 1] [5; 6]%Z] 1 false
    = Ok [mk [1; 1; 2; 3] [1; 2; 0; 3; 4; 0]%Z; mk [3; 1; 1; 1] [5; 6; 0]%Z] /\
  mids_ok [mk [1; 1; 2; 2] [1; 2; 3; 4]%Z; mk [2; 1; 1; 1] [5; 6]%Z] [[0; 1]; [0; 0]] /\
  tt_chain Zops [mk [1; 1; 2; 2] [1; 2; 3; 4]%Z; mk [2; 1; 1; 1] [5; 6]%Z] [[0; 1]; [0; 0]] 0 0 = 39%Z.
Proof. cbv zeta. repeat split; vm_compute; first [reflexivity | lia]. Qed.

Example C04_nonvacuous_tucker :
  let core := mk [2; 2] [1; 2; 3; 4]%Z in let fs := [[[1; 0]; [1; 1]]; [[2; 1]; [0; 1]; [1; 1]]]%Z in
  tucker_entry Zops core fs [1; 2] = 10%Z /\
  tucker_mode_dot Zops core fs (OpMat [[1; 1]]%Z) 0 false = Ok (core, [[[2; 1]]; [[2; 1]; [0; 1]; [1; 1]]]%Z) /\
  tucker_mode_dot Zops core fs (OpVec [1; 1]%Z) 0 false = Err /\
  tucker_mode_dot Zops (mk [1; 2; 1] [1; 2]%Z) [[[1]; [2]]; [[1; 1]]; [[3]]]%Z (OpVec [1; 1]%Z) 0 false
    = Ok (mk [2; 1] [3; 6]%Z, [[[1; 1]]; [[3]]]%Z).
Proof. cbv zeta. repeat split; vm_compute; reflexivity. Qed.

Example C04_nonvacuous_tucker_field :
  let core := mk [2; 1] [2; 5]%R in let fs := [[[3; 0]; [4; 0]]; [[-1]]]%R in let tape := [[5; 0]; [1]]%R in
  tk_norms_ok (shape core) tape fs.
Proof.
  cbv zeta. cbn [shape tk_norms_ok]. split; [|split; [|exact I]]; (split; [reflexivity|]); intros r Hr.
  - destruct r as [|[|r]]; [| |simpl in Hr; lia]; unfold colsumsq, sumn, mget, vget; cbn; lra.
  - destruct r as [|r]; [|simpl in Hr; lia]; unfold colsumsq, sumn, mget, vget; cbn; lra.
Qed.

Example C04_nonvacuous_pf2 :
  let P := [[0; 1]; [1; 0]; [0; 0]]%Z in
  pf2_entry Zops [1; 2]%Z [[1; 1]]%Z [[1; 2]; [3; 4]]%Z [[1; 1]]%Z [P] 0 0 0 = 11%Z /\
  svd_decompress Zops [1; 2]%Z [[1; 1]]%Z [[1; 2]; [3; 4]]%Z [[1; 1]]%Z [P] [Some [[0; 0; 1]; [1; 0; 0]; [0; 1; 0]; [0; 0; 0]]%Z]
    = Ok ([1; 2]%Z, [[[1; 1]]; [[1; 2]; [3; 4]]; [[1; 1]]]%Z, [[[0; 0]; [0; 1]; [1; 0]; [0; 0]]%Z]) /\
  compress_slice Zops 2 0%Z [[2; 0]; [0; 1]; [0; 0]]%Z ([[1; 0]; [0; 1]; [0; 0]]%Z, [2; 1]%Z, [[1; 0]; [0; 1]]%Z)
    = ([[2; 0]; [0; 1]]%Z, Some [[1; 0]; [0; 1]; [0; 0]]%Z) /\
  count_kept Zops 0%Z [2; 1]%Z = 2.
Proof. cbv zeta. repeat split; vm_compute; reflexivity. Qed.

Example C04_nonvacuous_round3 :
  cp_permute_list Zops [[1; 0]; [0; 1]] [([2; 3]%Z, [[[1; 2]; [3; 4]]]%Z); ([5; 7]%Z, [[[1; 0]; [0; 1]]]%Z)]
    = Ok [([3; 2]%Z, [[[2; 1]; [4; 3]]]%Z); ([5; 7]%Z, [[[1; 0]; [0; 1]]]%Z)] /\
  norm_mode 3 (-1) = Some 2 /\ norm_mode 3 (-3) = Some 0 /\ norm_mode 3 3 = None /\ norm_mode 3 (-4) = None /\
  cp_mode_dot_z Zops [1; 1]%Z [[[1; 2]; [3; 4]]; [[5; 6]; [7; 8]]]%Z (OpVec [1; 1]%Z) (-1) false
    = Ok ([1; 1]%Z, [[[12; 28]; [36; 56]]]%Z) /\
  cp_flip_sign_z Zops (col_sum Zops) [-2; 1]%Z [[[1; -1]; [-3; 1]]; [[-5; 1]; [-7; 2]]]%Z (-1)
    = Ok ([2; 1]%Z, [[[-1; -1]; [3; 1]]; [[-5; 1]; [-7; 2]]]%Z) /\
  is_optimalb Zops 0%Z 3 (fun i j => nth j (nth i [[1; 5; 2]; [7; 1; 1]; [1; 2; 9]]%Z []) 0%Z) [1; 0; 2] = true /\
  is_optimalb Zops 0%Z 3 (fun i j => nth j (nth i [[1; 5; 2]; [7; 1; 1]; [1; 2; 9]]%Z []) 0%Z) [0; 1; 2] = false /\
  orthob Zops Z.eqb 2 [[0; 1]; [-1; 0]; [0; 0]]%Z = true /\
  ttm_entry Zops [mk [1; 1; 2; 2] [1; 2; 3; 4]%Z; mk [2; 1; 1; 1] [5; 6]%Z] [0; 0; 1; 0] = 39%Z.
Proof. repeat split; vm_compute; reflexivity. Qed.

(* the hypotheses of C04_svd_compress_decompress_roundtrip hold jointly (3x2 slice of rank 2, threshold 0, every value kept; the PARAFAC2
   tensor P = I, B = I, A = [[1, 1]], C = score^T, w = [1, 1] represents the score matrix exactly) and so does its conclusion *)
Example C04_roundtrip_nonvacuous :
  let X := [[2; 0]; [0; 1]; [0; 0]]%Z in let U := [[1; 0]; [0; 1]; [0; 0]]%Z in let s := [2; 1]%Z in let Vh := [[1; 0]; [0; 1]]%Z in
  let score := [[2; 0]; [0; 1]]%Z in let P := [[1; 0]; [0; 1]]%Z in let C := [[2; 0]; [0; 1]]%Z in
  compress_slice Zops 2 0%Z X (U, s, Vh) = (score, Some U) /\
  count_kept Zops 0%Z s = length s /\ length Vh = length s /\ rectb (length s) U = true /\
  svd_decompress Zops [1; 1]%Z [[1; 1]]%Z P C [P] [Some U] = Ok ([1; 1]%Z, [[[1; 1]]; P; C]%Z, [U]) /\
  0 < length [P] /\ nth 0 [Some U] None = Some U /\ length (nth 0 [P] []) = length score /\ length P <= ncols (nth 0 [P] []) /\
  forall j k, j < length U -> k < ncols score ->
    mget Zops X j k = sumn Zops (length s) (fun t => (mget Zops U j t * (vget Zops s t * mget Zops Vh t k))%Z) /\
    (forall t, t < length score -> pf2_entry Zops [1; 1]%Z [[1; 1]]%Z P C [P] 0 t k = mget Zops score t k) /\
    pf2_entry Zops [1; 1]%Z [[1; 1]]%Z P C [U] 0 j k = mget Zops X j k.
Proof.
  cbv zeta. repeat (split; [vm_compute; first [reflexivity | lia] |]).
  intros j k Hj Hk. cbn in Hj, Hk.
  assert (Ht : forall t, t < 2 -> t = 0 \/ t = 1) by (intros; lia).
  destruct j as [|[|[|j]]]; [| | |lia]; (destruct k as [|[|k]]; [| |lia]);
    (split; [vm_compute; reflexivity | split; [|vm_compute; reflexivity]]);
    intros t Hlt; cbn in Hlt; destruct (Ht t Hlt) as [-> | ->]; vm_compute; reflexivity.
Qed.

(* ================================================================== round 5
   (a) the validating constructors behind the Tucker / PARAFAC2 entry points (Model/TransformsApi.v): the answer of a transform
       applied to a valid operand is never refused, and the object caches the shape / rank of what it holds *)
Theorem C04_tucker_mode_dot_result_valid : forall (F : Type) (Op : fops F) core (fs : list (mat F)) x (mode : Z) kd core' fs',
  tucker_mode_dot_z Op core fs x mode kd = Ok (core', fs') ->
  (forall M, x = OpMat M -> M <> []) ->
  exists o, tucker_mode_dot_api Op core fs x mode kd = Ok o /\
            tko_core o = core' /\ tko_fs o = fs' /\ tko_shape o = cp_shape fs' /\ tko_rank o = map (fun A => ncols A) fs'.
Proof. exact @tucker_mode_dot_api_accepts. Qed.
Print Assumptions C04_tucker_mode_dot_result_valid.

Theorem C04_tucker_normalize_result_valid : forall (F : Type) (Op : fops F) tape core (fs : list (mat F)),
  tucker_okb core fs = true -> Forall2 (fun sc n => length sc = n) tape (shape core) ->
  exists o, tucker_normalize_api Op tape core fs = Ok o /\
            (tko_core o, tko_fs o) = tucker_normalize Op tape core fs /\ tko_shape o = cp_shape fs /\ tko_rank o = shape core.
Proof. exact @tucker_normalize_api_accepts. Qed.
Print Assumptions C04_tucker_normalize_result_valid.

(* NumPy broadcasting in tucker_normalize (tucker_normalize_bc, the model for ANY (core, factors)): on a core whose mode i has as many
   entries as the scale vector nothing is stretched -- the shape is kept and entry idx is multiplied by scales[idx_i], which is the
   step of tucker_normalize of Model/Transforms.v *)
Theorem C04_tucker_bc_step : forall (F : Type) (Op : fops F) i (sc : list F) (core : tensor F),
  i < length (shape core) -> length sc = nth i (shape core) 0 ->
  exists t, tk_norm_step Op i sc core = Ok t /\ shape t = shape core /\
    forall idx, inb (shape core) idx -> tget Op t idx = fmul Op (tget Op core idx) (vget Op sc (nth i idx 0)).
Proof. exact @tk_norm_step_valid. Qed.
Print Assumptions C04_tucker_bc_step.

(* the orthonormality test of the Parafac2Tensor constructor cannot tell L P from P when L has orthonormal columns -- for ANY
   entry test `close` (exact, 1e-5, ...): the two Gram matrices are equal in every commutative ring *)
Theorem C04_projection_test_invariant : forall (F : Type) (Op : fops F) (close : F -> F -> bool),
  ring_theory (f0 Op) (f1 Op) (fadd Op) (fmul Op) (fsub Op) (fopp Op) (@eq F) ->
  forall rank (Lm P : mat F), Lm <> [] -> ortho Op (length P) Lm -> matb rank P = true ->
  proj_okb Op close rank (matmul Op Lm P) = proj_okb Op close rank P.
Proof. exact @proj_okb_matmul. Qed.
Print Assumptions C04_projection_test_invariant.

Theorem C04_svd_decompress_result_valid : forall (F : Type) (Op : fops F) (close : F -> F -> bool),
  ring_theory (f0 Op) (f1 Op) (fadd Op) (fmul Op) (fsub Op) (fopp Op) (@eq F) ->
  forall (x : pf2_operand) Ls,
  pf2_validb Op close (pf2_raw_w x) (pf2_fs x) (pf2_ps x) = true ->
  length (pf2_ps x) <= length Ls ->
  (forall i Lm, i < length (pf2_ps x) -> nth i Ls None = Some Lm -> Lm <> [] /\ ortho Op (length (nth i (pf2_ps x) [])) Lm) ->
  exists o, svd_decompress_api Op close x Ls = Ok o /\
            pfo_w o = weights_or_ones Op (pf2_raw_w x) (pf2_fs x) /\ pfo_fs o = pf2_fs x /\
            pfo_ps o = decompress_projs Op (pf2_ps x) Ls /\
            pfo_shape o = pf2_shape (pf2_fs x) (decompress_projs Op (pf2_ps x) Ls).
Proof. exact @svd_decompress_api_accepts. Qed.
Print Assumptions C04_svd_decompress_result_valid.

(* end to end at the level of the returned OBJECT: constructor verdict included, slice i of the result is loading_i x slice i *)
Theorem C04_svd_decompress_object_entry : forall (F : Type) (Op : fops F) (close : F -> F -> bool),
  ring_theory (f0 Op) (f1 Op) (fadd Op) (fmul Op) (fsub Op) (fopp Op) (@eq F) ->
  forall (x : pf2_operand) Ls A B C,
  pf2_fs x = [A; B; C] ->
  pf2_validb Op close (pf2_raw_w x) (pf2_fs x) (pf2_ps x) = true ->
  length (pf2_ps x) <= length Ls -> length B <= ncols A ->
  (forall i Lm, i < length (pf2_ps x) -> nth i Ls None = Some Lm -> Lm <> [] /\ ortho Op (length (nth i (pf2_ps x) [])) Lm) ->
  exists o, svd_decompress_api Op close x Ls = Ok o /\ pfo_fs o = [A; B; C] /\
    forall i j k, i < length (pf2_ps x) ->
      match nth i Ls None with
      | None => pf2_entry Op (pfo_w o) A B C (pfo_ps o) i j k = pf2_entry Op (pfo_w o) A B C (pf2_ps x) i j k
      | Some Lm => j < length Lm ->
          pf2_entry Op (pfo_w o) A B C (pfo_ps o) i j k =
          sumn Op (length (nth i (pf2_ps x) [])) (fun t => fmul Op (mget Op Lm j t) (pf2_entry Op (pfo_w o) A B C (pf2_ps x) i t k))
      end.
Proof. exact @svd_decompress_api_entry. Qed.
Print Assumptions C04_svd_decompress_object_entry.

Theorem C04_parafac2_normalise_result_valid : forall (F : Type) (Op : fops F) (close : F -> F -> bool) tape (x : pf2_operand),
  pf2_validb Op close (pf2_raw_w x) (pf2_fs x) (pf2_ps x) = true ->
  length tape = 3 -> Forall (fun sc => length sc = cp_rank (pf2_fs x)) tape ->
  exists o, parafac2_normalise_api Op close tape x = Ok o /\
            (pfo_w o, pfo_fs o) = cp_normalize Op tape (weights_or_ones Op (pf2_raw_w x) (pf2_fs x)) (pf2_fs x) /\
            pfo_ps o = pf2_ps x /\ pfo_shape o = pf2_shape (pf2_fs x) (pf2_ps x).
Proof. exact @parafac2_normalise_api_accepts. Qed.
Print Assumptions C04_parafac2_normalise_result_valid.

(* THIN: the QR contract (Q has `rank` orthonormal columns, R has `rank` columns) is a hypothesis *)
Theorem C04_from_cptensor_result_valid : forall (F : Type) (Op : fops F) (close : F -> F -> bool) Qm Rm (c : cp_operand) A B C ok,
  operand_fs c = [A; B; C] -> matb (ncols A) A = true -> matb (ncols A) C = true -> matb (ncols A) Rm = true ->
  proj_okb Op close (ncols A) Qm = true ->
  (forall w, cp_raw_w c = Some w -> length w = ncols A) ->
  exists o, from_cp_api Op close Qm Rm (FromCp c) ok = Ok o /\ pfo_w o = weights_or_ones Op (cp_raw_w c) [A; Rm; C] /\
            pfo_fs o = [A; Rm; C] /\ pfo_ps o = repeat Qm (length A) /\ pfo_shape o = repeat [length Qm; length C] (length A).
Proof. exact @from_cp_api_accepts. Qed.
Print Assumptions C04_from_cptensor_result_valid.

(* (b) the copy flag of cp_mode_dot on a heap (Model/TransformsHeap.v).
   copy=True: whatever the aliasing among the caller's arrays, nothing the caller holds is touched (the old heap is a prefix of
   the new one), the result is a fresh object owning fresh arrays only, and it reads as the pure model's answer *)
Theorem C04_cp_mode_dot_copy_fresh : forall (F : Type) (Op : fops F) (h : heap) r x mode kd h' o,
  wf_ref h r -> cp_mode_dot_h Op h r true x mode kd = Ok (h', o) ->
  extends h h' /\ length (h_obj h) <= o /\ (forall l, In l (owned h' o) -> length (h_arr h) <= l) /\
  wf_ref h' (RObject o) /\
  exists w' fs', cp_mode_dot Op (operand_w Op (deref h r)) (operand_fs (deref h r)) x mode kd = Ok (w', fs') /\
     cpo_fs (read_obj h' o) = fs' /\ cpo_shape (read_obj h' o) = cp_shape fs' /\
     cpo_w (read_obj h' o) = match ref_w h r with Some _ => w' | None => ones Op (cp_rank fs') end.
Proof. exact @cp_mode_dot_h_copy_value. Qed.
Print Assumptions C04_cp_mode_dot_copy_fresh.

(* end to end on the heap: copy=True, a vector contracted -- whatever the aliasing among the caller's arrays the result's entries are the
   mode product of what the operand denoted (the statement that failed for copy=False before /repo 93a737c, see C04_before_93a737c_inplace_alias) *)
Theorem C04_cp_mode_dot_copy_contract_entry : forall (F : Type) (Op : fops F),
  ring_theory (f0 Op) (f1 Op) (fadd Op) (fmul Op) (fsub Op) (fopp Op) (@eq F) ->
  forall (h : heap) r v k h' o idx' l,
  wf_ref h r -> ref_w h r = Some l ->
  cp_mode_dot_h Op h r true (OpVec v) k false = Ok (h', o) ->
  S (length idx') = length (operand_fs (deref h r)) ->
  length (operand_w Op (deref h r)) <= ncols (nth k (operand_fs (deref h r)) []) ->
  cpo_shape (read_obj h' o) = remove_nth k (cp_shape (operand_fs (deref h r))) /\
  cp_entry Op (cpo_w (read_obj h' o)) (cpo_fs (read_obj h' o)) idx' =
  sumn Op (length (nth k (operand_fs (deref h r)) []))
       (fun i => fmul Op (vget Op v i) (cp_entry Op (operand_w Op (deref h r)) (operand_fs (deref h r)) (insert_at k i idx'))).
Proof. exact @cp_mode_dot_h_copy_contract_entry. Qed.
Print Assumptions C04_cp_mode_dot_copy_contract_entry.

(* HISTORIES (induction over the list of calls): any finite sequence of cp_mode_dot(copy=True) calls, each applied to ANY tensor seen so
   far (one of the caller's operands or an earlier result), leaves the initial heap a prefix of the final one, keeps every reference
   well-formed, and every tensor ever seen still denotes what it denoted before the sequence *)
Theorem C04_cp_mode_dot_copy_history : forall (F : Type) (Op : fops F) ops (h : heap) refs h' refs',
  Forall (wf_ref h) refs -> run_ops Op h refs ops = Ok (h', refs') ->
  extends h h' /\ Forall (wf_ref h') refs' /\ length refs' = length refs + length ops /\
  forall k r, nth_error refs k = Some r -> nth_error refs' k = Some r /\ deref h' r = deref h r.
Proof. exact @run_ops_frame. Qed.
Print Assumptions C04_cp_mode_dot_copy_history.

(* copy=False (the default) on the CURRENT tree: the product of a contraction goes to a fresh array; the result reads back as the pure
   model's answer WHATEVER the aliasing in the caller's factor list, and no array is ever overwritten (every array that existed is
   still there with its value) *)
Theorem C04_cp_mode_dot_inplace_value : forall (F : Type) (Op : fops F) (h : heap) r x mode kd h' o,
  wf_ref h r -> cp_mode_dot_h Op h r false x mode kd = Ok (h', o) ->
  (exists a, h_arr h' = h_arr h ++ a) /\
  exists w' fs', cp_mode_dot Op (operand_w Op (deref h r)) (operand_fs (deref h r)) x mode kd = Ok (w', fs') /\
     cpo_fs (read_obj h' o) = fs' /\ cpo_shape (read_obj h' o) = cp_shape fs' /\
     cpo_w (read_obj h' o) = match ref_w h r with Some _ => w' | None => ones Op (cp_rank fs') end.
Proof. exact @cp_mode_dot_h_fresh_value. Qed.
Print Assumptions C04_cp_mode_dot_inplace_value.

(* ... hence, end to end: a vector contracted with copy=False gives the mode product of what the operand denoted, whatever the aliasing *)
Theorem C04_cp_mode_dot_inplace_contract_entry : forall (F : Type) (Op : fops F),
  ring_theory (f0 Op) (f1 Op) (fadd Op) (fmul Op) (fsub Op) (fopp Op) (@eq F) ->
  forall (h : heap) r v k h' o idx' l,
  wf_ref h r -> ref_w h r = Some l ->
  cp_mode_dot_h Op h r false (OpVec v) k false = Ok (h', o) ->
  S (length idx') = length (operand_fs (deref h r)) ->
  length (operand_w Op (deref h r)) <= ncols (nth k (operand_fs (deref h r)) []) ->
  cpo_shape (read_obj h' o) = remove_nth k (cp_shape (operand_fs (deref h r))) /\
  cp_entry Op (cpo_w (read_obj h' o)) (cpo_fs (read_obj h' o)) idx' =
  sumn Op (length (nth k (operand_fs (deref h r)) []))
       (fun i => fmul Op (vget Op v i) (cp_entry Op (operand_w Op (deref h r)) (operand_fs (deref h r)) (insert_at k i idx'))).
Proof. exact @cp_mode_dot_h_inplace_contract_entry. Qed.
Print Assumptions C04_cp_mode_dot_inplace_contract_entry.

(* BEFORE /repo 93a737c (kept as documentation; model cp_mode_dot_h_before, selected by the harness only if the source still has the
   in-place update): `factors[mode] *= factor` changed every mode naming the same array -- [A, A, B] gave entry 509 instead of 49 *)
Example C04_before_93a737c_inplace_alias :
  exists h' o w' fs',
    cp_mode_dot_h_before Zops alias_heap (RTuple (Some 0) 0) false (OpVec [1; 2]%Z) 2 false = Ok (h', o) /\
    cp_mode_dot Zops (operand_w Zops (deref alias_heap (RTuple (Some 0) 0))) (operand_fs (deref alias_heap (RTuple (Some 0) 0)))
                (OpVec [1; 2]%Z) 2 false = Ok (w', fs') /\
    cp_entry Zops w' fs' [0; 0] = 49%Z /\
    cp_entry Zops (cpo_w (read_obj h' o)) (cpo_fs (read_obj h' o)) [0; 0] = 509%Z /\
    wf_ref alias_heap (RTuple (Some 0) 0).
Proof. exact cp_mode_dot_h_inplace_alias_witness. Qed.

(* the cached shape attribute: every object a mode product returns has a consistent cache; on a consistent object the cached-shape
   test never changes the verdict; item assignment keeps the OLD attribute (consistent exactly when the new factors have the old
   mode sizes -- otherwise the stale attribute makes later calls raise: C03's known finding wrapper_setitem_stale_cache_cp) *)
Theorem C04_cp_mode_dot_result_cache_consistent : forall (F : Type) (Op : fops F) (h : heap) r copy x mode kd h' o,
  wf_ref h r -> cp_mode_dot_h Op h r copy x mode kd = Ok (h', o) -> cache_consistent h' o.
Proof. exact @cp_mode_dot_h_result_consistent. Qed.
Print Assumptions C04_cp_mode_dot_result_cache_consistent.

Theorem C04_cache_consistent_guard : forall (F : Type) (Op : fops F) (h : heap) o x mode kd w' fs',
  cache_consistent h o ->
  cp_mode_dot Op (operand_w Op (deref h (RObject o))) (operand_fs (deref h (RObject o))) x mode kd = Ok (w', fs') ->
  guard h (RObject o) mode = true.
Proof. exact @cache_consistent_guard. Qed.
Print Assumptions C04_cache_consistent_guard.

Theorem C04_setitem_factors_read : forall (F : Type) (h : heap (F:=F)) o fl' h', o < length (h_obj h) -> setitem_h h o 1 fl' = Ok h' ->
  read_obj h' o = mk_cpobj (c_shape (obj h o)) (read_vec h (c_w (obj h o))) (read_fs h (lst h fl')) /\
  (cache_consistent h' o <-> c_shape (obj h o) = cp_shape (read_fs h (lst h fl'))) /\
  h_arr h' = h_arr h /\ h_lst h' = h_lst h.
Proof. exact @setitem_factors_read. Qed.
Print Assumptions C04_setitem_factors_read.

(* the transforms whose answer is all fresh (cp_normalize, cp_flip_sign, cp_permute_factors, cp_copy) and the object method
   CPTensor.normalize(inplace) on the heap: for EVERY heap nothing existing is touched, the result owns fresh locations only, is a
   well-formed reference with a consistent cache and reads as the pure model's answer *)
Theorem C04_fresh_result : forall (F : Type) (Op : fops F) (h : heap) w' fs' h' o, fresh_result Op h w' fs' = Ok (h', o) ->
  extends h h' /\ o = length (h_obj h) /\ (forall l, In l (owned h' o) -> length (h_arr h) <= l) /\
  wf_ref h' (RObject o) /\ read_obj h' o = mk_cpobj (cp_shape fs') w' fs' /\ cp_validb (Some w') fs' = true.
Proof. exact @fresh_result_spec. Qed.
Print Assumptions C04_fresh_result.

Theorem C04_cp_flip_sign_heap : forall (F : Type) (Op : fops F) summ (h : heap) r mode h' o, cp_flip_sign_h Op summ h r mode = Ok (h', o) ->
  exists w' fs', cp_flip_sign Op summ (operand_w Op (deref h r)) (operand_fs (deref h r)) mode = Ok (w', fs') /\
    extends h h' /\ o = length (h_obj h) /\ (forall l, In l (owned h' o) -> length (h_arr h) <= l) /\
    wf_ref h' (RObject o) /\ read_obj h' o = mk_cpobj (cp_shape fs') w' fs'.
Proof. exact @cp_flip_sign_h_spec. Qed.
Print Assumptions C04_cp_flip_sign_heap.

Theorem C04_cp_permute_heap : forall (F : Type) (Op : fops F) p (h : heap) r h' o, cp_permute_h Op p h r = Ok (h', o) ->
  exists w' fs', cp_permute Op p (operand_w Op (deref h r)) (operand_fs (deref h r)) = Ok (w', fs') /\
    extends h h' /\ o = length (h_obj h) /\ (forall l, In l (owned h' o) -> length (h_arr h) <= l) /\
    wf_ref h' (RObject o) /\ read_obj h' o = mk_cpobj (cp_shape fs') w' fs'.
Proof. exact @cp_permute_h_spec. Qed.
Print Assumptions C04_cp_permute_heap.

Theorem C04_cp_normalize_heap : forall (F : Type) (Op : fops F) tape (h : heap) r h' o, cp_normalize_h Op tape h r = Ok (h', o) ->
  let wf' := cp_normalize Op tape (operand_w Op (deref h r)) (operand_fs (deref h r)) in
  extends h h' /\ o = length (h_obj h) /\ (forall l, In l (owned h' o) -> length (h_arr h) <= l) /\
  wf_ref h' (RObject o) /\ read_obj h' o = mk_cpobj (cp_shape (snd wf')) (fst wf') (snd wf').
Proof. exact @cp_normalize_h_spec. Qed.
Print Assumptions C04_cp_normalize_heap.

(* CPTensor.normalize(inplace) (since /repo 9ada0b3): inplace=True returns the SAME object, now reading the normalised weights and
   factors, every array that existed keeps its value; inplace=False returns a fresh object and leaves the operand's cell alone *)
Theorem C04_cp_normalize_method_heap : forall (F : Type) (Op : fops F) tape (h : heap) o inplace h' o', o < length (h_obj h) ->
  cp_normalize_method_h Op tape h o inplace = Ok (h', o') ->
  let wf' := cp_normalize Op tape (operand_w Op (deref h (RObject o))) (operand_fs (deref h (RObject o))) in
  (exists a, h_arr h' = h_arr h ++ a) /\ (exists l, h_lst h' = h_lst h ++ l) /\
  cpo_w (read_obj h' o') = fst wf' /\ cpo_fs (read_obj h' o') = snd wf' /\
  (inplace = true -> o' = o /\ cpo_shape (read_obj h' o') = c_shape (obj h o)) /\
  (inplace = false -> length (h_obj h) < o' /\ cpo_shape (read_obj h' o') = cp_shape (snd wf') /\ obj h' o = obj h o).
Proof. exact @cp_normalize_method_h_spec. Qed.
Print Assumptions C04_cp_normalize_method_heap.

(* tucker_mode_dot's copy flag on the heap: whatever the copy flag and the aliasing in the caller's factor list, no array and no core is
   ever overwritten and the returned references read as the pure model's answer; copy=True leaves the caller's lists alone and returns
   fresh locations only; copy=False returns the caller's own (popped / updated) list cell *)
Theorem C04_tucker_mode_dot_heap : forall (F : Type) (Op : fops F) (th : theap) cl fl copy x mode kd th' cl' fl',
  twf th cl fl -> tucker_mode_dot_h Op th cl fl copy x mode kd = Ok (th', (cl', fl')) ->
  (exists a, t_arr th' = t_arr th ++ a) /\ (exists c, t_core th' = t_core th ++ c) /\
  tucker_mode_dot Op (tcore th cl) (map (tarr th) (tlst th fl)) x mode kd = Ok (tread th' cl' fl') /\
  (copy = true -> (exists l, t_lst th' = t_lst th ++ l) /\ length (t_lst th) <= fl' /\ length (t_core th) <= cl' /\
                  forall l, In l (tlst th' fl') -> length (t_arr th) <= l) /\
  (copy = false -> fl' = fl /\ length (t_lst th') = length (t_lst th) /\ forall k, k <> fl -> tlst th' k = tlst th k).
Proof. exact @tucker_mode_dot_h_spec. Qed.
Print Assumptions C04_tucker_mode_dot_heap.

(* non-vacuity: constructors accept / refuse; the same aliased operand with copy=True gives 49; hypotheses of the partial theorem hold on a
   heap with distinct arrays, where the in-place contraction gives the right entry *)
Example C04_round5_nonvacuous :
  let P := [[0; 1]; [-1; 0]; [0; 0]]%Z in let L := [[0; 0; 1]; [1; 0; 0]; [0; 1; 0]; [0; 0; 0]]%Z in
  let fs := [[[1; 2]]; [[1; 0]; [0; 1]]; [[3; 1]; [0; 2]]]%Z in
  pf2_new Zops Z.eqb None fs [P] = Ok (mk_pf2obj [[3; 2]] 2 [1; 1]%Z fs [P]) /\
  svd_decompress_api Zops Z.eqb (Pf2Tuple None fs [P]) [Some L]
    = Ok (mk_pf2obj [[4; 2]] 2 [1; 1]%Z fs [[[0; 0]; [0; 1]; [-1; 0]; [0; 0]]%Z]) /\
  svd_decompress_api Zops Z.eqb (Pf2Tuple None fs [P]) [Some [[0; 0; 1]; [2; 0; 0]; [0; 1; 0]]%Z] = Err /\
  pf2_new Zops Z.eqb None fs [[[0; 1]; [1; 1]]%Z] = Err /\
  tucker_mode_dot_api Zops (mk [2; 1] [1; 2]%Z) [[[1; 0]; [1; 1]]; [[2]; [3]]]%Z (OpVec [1; 1]%Z) (-2) true
    = Ok (mk_tkobj [1; 2] [2; 1] (mk [2; 1] [1; 2]%Z) [[[2; 1]]; [[2]; [3]]]%Z) /\
  tucker_new (mk [2] [1; 2]%Z) [[[1; 0]; [1; 1]]%Z] = Err /\
  (exists h' o, cp_mode_dot_h Zops alias_heap (RTuple (Some 0) 0) true (OpVec [1; 2]%Z) 2 false = Ok (h', o) /\
                cp_entry Zops (cpo_w (read_obj h' o)) (cpo_fs (read_obj h' o)) [0; 0] = 49%Z /\ o = 0 /\ owned h' o = [6; 3; 7]) /\
  (let th := mk_theap [mk [2; 1] [1; 2]%Z] [[[1; 0]; [1; 1]]; [[2]; [3]]]%Z [[0; 1]] in
   twf th 0 0 /\ tucker_mode_dot_h Zops th 0 0 false (OpVec [1; 1]%Z) 0 true
     = Ok (mk_theap [mk [2; 1] [1; 2]%Z] [[[1; 0]; [1; 1]]; [[2]; [3]]; [[2; 1]]]%Z [[2; 1]], (0, 0))) /\
  (exists h' refs', run_ops Zops alias_heap [RTuple (Some 0) 0] [(0, OpVec [1; 2]%Z, 2, false); (1, OpMat [[1; 1]]%Z, 0, false); (0, OpVec [1; 1]%Z, 0, true)]
                      = Ok (h', refs') /\ refs' = [RTuple (Some 0) 0; RObject 0; RObject 1; RObject 2] /\
                    cpo_shape (read_obj h' 1) = [1; 2] /\ cpo_shape (read_obj h' 2) = [1; 2; 2]) /\
  (exists h' o, cp_mode_dot_h Zops alias_heap (RTuple (Some 0) 0) false (OpVec [1; 2]%Z) 2 false = Ok (h', o) /\
                cp_entry Zops (cpo_w (read_obj h' o)) (cpo_fs (read_obj h' o)) [0; 0] = 49%Z /\ arr h' 1 = [[1; 2]; [3; 4]]%Z) /\
  (let h := mk_heap [[[1; 1]]; [[1; 2]; [3; 4]]; [[1; 2]; [3; 4]]; [[1; 1]; [2; 5]]]%Z [[1; 2; 3]] [] in
   exists h' o, cp_mode_dot_h Zops h (RTuple (Some 0) 0) false (OpVec [1; 2]%Z) 2 false = Ok (h', o) /\
                cp_entry Zops (cpo_w (read_obj h' o)) (cpo_fs (read_obj h' o)) [0; 0] = 49%Z /\
                arr h' 2 = [[1; 2]; [3; 4]]%Z /\ arr h' 4 = [[5; 22]; [15; 44]]%Z /\ owned h' o = [0; 1; 4]).
Proof.
  cbv zeta. repeat (split; [vm_compute; reflexivity|]). split; [|split; [|split; [|split]]].
  - do 2 eexists. split; [vm_compute; reflexivity|]. repeat split; vm_compute; reflexivity.
  - split; [|vm_compute; reflexivity]. unfold twf, tlst. simpl. repeat split; try lia.
  - do 2 eexists. split; [vm_compute; reflexivity|]. repeat split; vm_compute; reflexivity.
  - do 2 eexists. split; [vm_compute; reflexivity|]. repeat split; vm_compute; reflexivity.
  - do 2 eexists. split; [vm_compute; reflexivity|]. repeat split; vm_compute; reflexivity.
Qed.

(* round 6 non-vacuity: item assignment with factors of another mode size leaves the shape attribute stale; a mode product on the stale
   mode is then refused whichever size the operand has (cached-shape test / real row count), another mode still works; the in-place
   normalize method returns the tensor itself, the other form a fresh object; cp_flip_sign on the heap owns fresh locations only *)
Example C04_round6_nonvacuous :
  let A := [[1; 2]; [3; 4]]%Z in let B := [[1; 0]; [0; 1]; [2; 2]]%Z in let A2 := [[1; 1]; [2; 0]; [0; 3]]%Z in
  let h := mk_heap [[[1; 1]]; A; B; A2]%Z [[1; 2]; [3; 2]] [mk_cell [2; 3] 0 0] in
  wf_ref h (RObject 0) /\ cache_consistent h 0 /\
  exists h1, setitem_h h 0 1 1 = Ok h1 /\ ~ cache_consistent h1 0 /\
    cp_mode_dot_h Zops h1 (RObject 0) true (OpMat [[1; 1; 1]]%Z) 0 false = Err /\
    cp_mode_dot_h Zops h1 (RObject 0) true (OpMat [[1; 1]]%Z) 0 false = Err /\
    (exists h2 o, cp_mode_dot_h Zops h1 (RObject 0) true (OpMat [[1; 1; 1]]%Z) 1 false = Ok (h2, o) /\ cpo_shape (read_obj h2 o) = [3; 1]) /\
    (exists h2, cp_normalize_method_h Zops [[1; 1]; [1; 1]]%Z h 0 true = Ok (h2, 0) /\ cpo_fs (read_obj h2 0) = [A; B] /\ arr h2 1 = A) /\
    (exists h2, cp_normalize_method_h Zops [[1; 1]; [1; 1]]%Z h 0 false = Ok (h2, 2) /\ obj h2 0 = obj h 0) /\
    (exists h2, cp_flip_sign_h Zops (col_sum Zops) h (RObject 0) 1 = Ok (h2, 1) /\ owned h2 1 = [4; 5; 6]).
Proof.
  cbv zeta. split; [|split; [vm_compute; reflexivity|]].
  - unfold wf_ref, lst, obj, ref_fs, ref_w. simpl. repeat split; try lia.
    + intros l E; injection E as <-; lia.
    + intros o E; injection E as <-; lia.
  - eexists. split; [vm_compute; reflexivity|]. split; [vm_compute; discriminate|].
    split; [vm_compute; reflexivity|]. split; [vm_compute; reflexivity|].
    split; [do 2 eexists; split; vm_compute; reflexivity|].
    split; [eexists; split; [vm_compute; reflexivity|split; vm_compute; reflexivity]|].
    split; [eexists; split; vm_compute; reflexivity|]. eexists; split; vm_compute; reflexivity.
Qed.


(* ================================================================== round 7 *)
(* --- complex-valued tensors: the complexification (pairs (re, im), Model/TransformsCplx.v) of a commutative ring is a commutative
   ring, so every ring-regime theorem above holds for complex factors / cores (Gaussian integers = cx_ops Zops, executed) *)
Theorem C04_complexification_ring : forall (F : Type) (Op : fops F), ring_theory (f0 Op) (f1 Op) (fadd Op) (fmul Op) (fsub Op) (fopp Op) (@eq F) ->
  ring_theory (f0 (cx_ops Op)) (f1 (cx_ops Op)) (fadd (cx_ops Op)) (fmul (cx_ops Op)) (fsub (cx_ops Op)) (fopp (cx_ops Op)) (@eq (F * F)).
Proof. exact @cx_ring. Qed.
Print Assumptions C04_complexification_ring.

(* pad_tt_rank on complex cores of a tensor train / tensor ring: same dense tensor, both parts *)
Theorem C04_pad_tt_rank_tt_entry_complex : forall (F : Type) (Op : fops F), ring_theory (f0 Op) (f1 Op) (fadd Op) (fmul Op) (fsub Op) (fopp Op) (@eq F) ->
  forall (cores : list (tensor (F * F))) (npad : nat) (pb : bool) (cores' : list (tensor (F * F))) (idx : list nat) (r : nat),
  pad_tt_rank (cx_ops Op) cores npad pb = Ok cores' -> cores <> [] -> chain_ok r cores -> order3 cores -> inb (tt_shape cores) idx ->
  0 < r -> 0 < last_r2 r cores ->
  tt_entry (cx_ops Op) cores' idx = tt_entry (cx_ops Op) cores idx.
Proof. exact @pad_tt_entry_cx. Qed.
Print Assumptions C04_pad_tt_rank_tt_entry_complex.

Theorem C04_pad_tt_rank_tr_entry_complex : forall (F : Type) (Op : fops F), ring_theory (f0 Op) (f1 Op) (fadd Op) (fmul Op) (fsub Op) (fopp Op) (@eq F) ->
  forall (cores : list (tensor (F * F))) (npad : nat) (pb : bool) (cores' : list (tensor (F * F))) (idx : list nat) (r : nat),
  pad_tt_rank (cx_ops Op) cores npad pb = Ok cores' -> cores <> [] -> chain_ok r cores -> order3 cores -> inb (tt_shape cores) idx ->
  last_r2 r cores = r ->
  tr_entry (cx_ops Op) cores' idx = tr_entry (cx_ops Op) cores idx.
Proof. exact @pad_tr_entry_cx. Qed.
Print Assumptions C04_pad_tt_rank_tr_entry_complex.

(* the padding acts on each part separately (pr = fst: real parts, pr = snd: imaginary parts): the parts of the padded cores are the
   padded parts -- in particular the imaginary part of a core is not dropped by the zero buffer it is written into *)
Theorem C04_pad_tt_rank_parts : forall (F : Type) (Op : fops F) (pr : F * F -> F) (cores : list (tensor (F * F))) (npad : nat) (pb : bool),
  pr (f0 Op, f0 Op) = f0 Op ->
  pad_tt_rank Op (map (tmap pr) cores) npad pb =
  match pad_tt_rank (cx_ops Op) cores npad pb with Ok c' => Ok (map (tmap pr) c') | Err => Err end.
Proof. exact @pad_tt_rank_part. Qed.
Print Assumptions C04_pad_tt_rank_parts.

(* --- compress -> fit -> decompress over a WHOLE list of slices of any heights in any order (Model/TransformsRT.v): slices with at
   most rank_limit rows pass through (loading None), the others are compressed; if the fitted PARAFAC2 tensor (w, A, B, C, Qs)
   represents score i exactly, slice i of the decompressed tensor is slice i of the data -- for a compressed slice under the
   hypotheses of C04_svd_compress_decompress_roundtrip (every singular value kept, SVD answer with its contract) *)
Theorem C04_compress_decompress_list : forall (F : Type) (Op : fops F), ring_theory (f0 Op) (f1 Op) (fadd Op) (fmul Op) (fsub Op) (fopp Op) (@eq F) ->
  forall (slices : list (mat F)) (thr : F) (mr : option nat) (tapes : list (mat F * list F * mat F)) (w : list F) (A B C : mat F) (Qs : list (mat F))
    w' A' B' C' Ps' (i j k : nat),
  length tapes = length slices ->
  compress_then_decompress Op slices thr mr tapes w A B C Qs = Ok (w', [A'; B'; C'], Ps') ->
  i < length slices -> i < length Qs ->
  let X := nth i slices [] in
  let usv := nth i tapes ([], [], []) in
  let sl := compress_slice Op (rank_limit slices mr) thr X usv in
  (forall t, t < length (fst sl) -> pf2_entry Op w A B C Qs i t k = mget Op (fst sl) t k) ->
  match snd sl with
  | None => j < length X
  | Some _ =>
      let '(U, s, Vh) := usv in
      count_kept Op thr s = length s /\ length Vh = length s /\ rectb (length s) U = true /\
      mget Op X j k = sumn Op (length s) (fun t => fmul Op (mget Op U j t) (fmul Op (vget Op s t) (mget Op Vh t k))) /\
      length (nth i Qs []) = length (fst sl) /\ length B <= ncols (nth i Qs []) /\ j < length U /\ k < ncols (fst sl)
  end ->
  pf2_entry Op w' A' B' C' Ps' i j k = mget Op X j k.
Proof. exact @compress_decompress_list. Qed.
Print Assumptions C04_compress_decompress_list.

(* svd_decompress_parafac2_tensor and the caller's projection LIST on a heap (Model/TransformsPfHeap.v): tables only grow, the operand's
   list and what it reads are untouched, the result's list is new and reads as the pure model's answer; an entry with a loading is a
   fresh array, an entry without one names the operand's array *)
Theorem C04_svd_decompress_heap : forall (F : Type) (Op : fops F) (ph : pheap (F:=F)) pl Ls ph' pl',
  pl < length (p_lst ph) -> (forall l, In l (plst ph pl) -> l < length (p_arr ph)) ->
  svd_decompress_h Op ph pl Ls = Ok (ph', pl') ->
  (exists a, p_arr ph' = p_arr ph ++ a) /\ (exists ls, p_lst ph' = p_lst ph ++ [ls]) /\ pl' = length (p_lst ph) /\
  plst ph' pl = plst ph pl /\ pread ph' pl = pread ph pl /\
  pread ph' pl' = decompress_projs Op (pread ph pl) Ls /\
  length (plst ph' pl') = length (plst ph pl) /\
  (forall k, k < length (plst ph pl) ->
     match nth k Ls None with
     | None => nth k (plst ph' pl') 0 = nth k (plst ph pl) 0
     | Some _ => length (p_arr ph) <= nth k (plst ph' pl') 0
     end).
Proof. exact @svd_decompress_h_spec. Qed.
Print Assumptions C04_svd_decompress_heap.

(* which slices svd_compress_tensor_slices compresses: exactly those with more than rank_limit rows -- all of them under a non-zero
   threshold -- and it returns one (score, loading) pair per slice *)
Theorem C04_svd_compress_flags : forall (F : Type) (Op : fops F) (slices : list (mat F)) (thr : F) (mr : option nat)
  (tapes : list (mat F * list F * mat F)) (i : nat),
  length tapes = length slices -> i < length slices ->
  length (compressed_flags Op slices thr mr tapes) = length slices /\
  nth i (compressed_flags Op slices thr mr tapes) false = negb ((length (nth i slices []) <=? rank_limit slices mr) && feqb Op thr (f0 Op)).
Proof. exact @compressed_flags_spec. Qed.
Print Assumptions C04_svd_compress_flags.

(* round 7 non-vacuity: a Gaussian-integer tensor ring whose imaginary parts matter (its dense tensor differs from that of its real
   parts), padded: same dense tensor, the parts of the padded cores are the padded parts; a list of one short slice (passed
   through) followed by one tall slice (compressed), fitted exactly: the decompressed tensor has the original slices *)
Example C04_round7_nonvacuous :
  let G1 := mk [2; 1; 2] [(1, 1); (0, 2); (0, -1); (2, 0)]%Z in let G2 := mk [2; 2; 2] [(0, 1); (1, 0); (1, 1); (0, 0); (2, 0); (0, -1); (1, 0); (0, 1)]%Z in
  (exists c', pad_tt_rank Gops [G1; G2] 2 true = Ok c' /\ map (@shape _) c' = [[4; 1; 4]; [4; 2; 4]] /\
     tr_to_tensor Gops c' = tr_to_tensor Gops [G1; G2] /\
     pad_tt_rank Zops (map (tmap snd) [G1; G2]) 2 true = Ok (map (tmap snd) c')) /\
  chain_ok 2 [G1; G2] /\ order3 [G1; G2] /\ last_r2 2 [G1; G2] = 2 /\
  tr_to_tensor Gops (map (tmap (cx_re Zops)) [G1; G2]) <> tr_to_tensor Gops [G1; G2] /\
  (exists ph' pl', svd_decompress_h Zops (mk_pheap [[[1]]; [[0]; [1]]]%Z [[0; 1; 0]]) 0 [None; Some [[0; 1]; [1; 0]; [0; 0]]; Some [[2]]]%Z = Ok (ph', pl') /\
     plst ph' pl' = [0; 2; 3] /\ pread ph' pl' = [[[1]]; [[1]; [0]; [0]]; [[2]]]%Z /\ plst ph' 0 = [0; 1; 0]) /\
  (let slices := [[[2]]; [[3]; [4]]]%Z in let tapes := [([], [], []); ([[3]; [4]], [1], [[1]])]%Z in
   compressed_flags Zops slices 0%Z None tapes = [false; true] /\
   exists Ps', compress_then_decompress Zops slices 0%Z None tapes [1]%Z [[2]; [1]]%Z [[1]]%Z [[1]]%Z [[[1]]; [[1]]]%Z = Ok ([1]%Z, [[[2]; [1]]; [[1]]; [[1]]]%Z, Ps') /\
     map (pf2_slice Zops [1]%Z [[2]; [1]]%Z [[1]]%Z [[1]]%Z Ps') [0; 1] = slices).
Proof.
  cbv zeta. split; [eexists; split; [vm_compute; reflexivity|]; repeat split; vm_compute; reflexivity|].
  split; [repeat split; vm_compute; reflexivity|]. split; [repeat constructor|]. split; [reflexivity|].
  split; [vm_compute; discriminate|]. split; [do 2 eexists; split; [vm_compute; reflexivity|repeat split; vm_compute; reflexivity]|]. split; [vm_compute; reflexivity|].
  eexists. split; vm_compute; reflexivity.
Qed.

(* --- tucker_normalize, whole loop: on valid operands (one scale vector per core mode, of that mode's size -- the column norms of
   the factors of a valid Tucker tensor) the NumPy-broadcasting model tucker_normalize_bc IS the plain model: same verdict, same
   object.  (Round 6 had the single step C04_tucker_bc_step and a per-run comparison.) *)
Theorem C04_tucker_normalize_bc_valid : forall (F : Type) (Op : fops F), ring_theory (f0 Op) (f1 Op) (fadd Op) (fmul Op) (fsub Op) (fopp Op) (@eq F) ->
  forall (tape : list (list F)) (core : tensor F) (fs : list (mat F)),
  wfb core = true -> length tape = length (shape core) -> length fs = length tape ->
  (forall k, k < length tape -> length (nth k tape []) = nth k (shape core) 0) ->
  tucker_normalize_bc Op tape core fs = tucker_normalize_api Op tape core fs.
Proof. exact @tucker_normalize_bc_valid. Qed.
Print Assumptions C04_tucker_normalize_bc_valid.

(* --- PARAFAC2 link without the verdict hypothesis: C04's validator model with the exact entry test accepts  ==>  C03's model of
   _validate_parafac2_tensor accepts the encoded operand, with the slice shapes and rank C04's constructor caches *)
Theorem C04_link_pf2_validator : forall (F : Type) (Op : fops F) (w : list F) (A B C : mat F) (Ps : list (mat F)),
  pf2_validb Op (feqb Op) (Some w) [A; B; C] Ps = true -> length B = length w ->
  Factorized.validate_parafac2 Op (Some (of_vec Op w)) [of_rows Op (length w) A; of_rows Op (length w) B; of_rows Op (length w) C]
                               (map (of_rows Op (length B)) Ps) = Ok (pf2_shape [A; B; C] Ps, length w).
Proof. exact @validate_parafac2_of_validb. Qed.
Print Assumptions C04_link_pf2_validator.

Theorem C04_link_pf2_to_slice_valid : forall (F : Type) (Op : fops F), ring_theory (f0 Op) (f1 Op) (fadd Op) (fmul Op) (fsub Op) (fopp Op) (@eq F) ->
  forall (w : list F) (A B C : mat F) (Ps : list (mat F)) i,
  pf2_validb Op (feqb Op) (Some w) [A; B; C] Ps = true -> length B = length w -> i < length A ->
  exists t, Factorized.parafac2_to_slice Op (Some (of_vec Op w)) [of_rows Op (length w) A; of_rows Op (length w) B; of_rows Op (length w) C]
                                         (map (of_rows Op (length B)) Ps) i = Ok t /\
    shape t = [length (nth i Ps []); length C] /\
    forall j k, j < length (nth i Ps []) -> k < length C -> Factorized.get2 Op t j k = pf2_entry Op w A B C Ps i j k.
Proof. exact @pf2_to_slice_link_valid. Qed.
Print Assumptions C04_link_pf2_to_slice_valid.

Example C04_round7_links_nonvacuous :
  (let w := [1; 2]%Z in let A := [[1; 2]]%Z in let B := [[1; 0]; [0; 1]]%Z in let C := [[3; 1]; [0; 2]]%Z in let P := [[0; 1]; [-1; 0]; [0; 0]]%Z in
   pf2_validb Zops (feqb Zops) (Some w) [A; B; C] [P] = true /\ length B = length w) /\
  (let core := mk [2; 2] [1; 2; 3; 4]%Z in let fs := [[[3; 0]; [4; 1]]; [[1; 1]]]%Z in let tape := [[5; 1]; [1; 1]]%Z in
   wfb core = true /\ (forall k, k < length tape -> length (nth k tape []) = nth k (shape core) 0) /\
   exists o, tucker_normalize_bc Zops tape core fs = Ok o /\ tko_core o = mk [2; 2] [5; 10; 3; 4]%Z /\ tko_shape o = [2; 1]).
Proof.
  cbv zeta. split; [split; vm_compute; reflexivity|]. split; [reflexivity|]. split.
  - intros k Hk. simpl in Hk. destruct k as [|[|k]]; [reflexivity|reflexivity|lia].
  - eexists. split; [vm_compute; reflexivity|]. split; vm_compute; reflexivity.
Qed.

(* --- TuckerTensor OBJECTS on the heap (Model/TransformsTkObj.v; tables of cores, arrays, factor lists + object cells caching shape / rank
   and naming a core and a list).  obj.normalize() is in place: nothing the caller holds is overwritten (tables only grow, no other cell
   changes), the object keeps its attributes, is re-bound to fresh locations and holds the answer of tucker_normalize; every other
   object whose references point into the old tables holds what it held *)
Theorem C04_tucker_normalize_method_heap : forall (F : Type) (Op : fops F) tape (th : theap) cells o th' cells',
  o < length cells -> tcell_wf th (tcellr cells o) ->
  tucker_normalize_method_h Op tape th cells o = Ok (th', cells') ->
  exists r, tucker_normalize_bc Op tape (fst (tobj_read th cells o)) (snd (tobj_read th cells o)) = Ok r /\
    (exists a, t_arr th' = t_arr th ++ a) /\ (exists c, t_core th' = t_core th ++ c) /\ (exists l, t_lst th' = t_lst th ++ l) /\
    length cells' = length cells /\ (forall k, k <> o -> tcellr cells' k = tcellr cells k) /\
    tc_shape (tcellr cells' o) = tc_shape (tcellr cells o) /\ tc_rank (tcellr cells' o) = tc_rank (tcellr cells o) /\
    length (t_core th) <= tc_core (tcellr cells' o) /\ length (t_lst th) <= tc_fs (tcellr cells' o) /\
    tobj_read th' cells' o = (tko_core r, tko_fs r) /\
    (forall k, k <> o -> tcell_wf th (tcellr cells k) -> tobj_read th' cells' k = tobj_read th cells k).
Proof. exact @tucker_normalize_method_spec. Qed.
Print Assumptions C04_tucker_normalize_method_heap.

(* a consistent object (valid Tucker tensor, attributes = what it holds) stays consistent, and holds tucker_normalize of what it held
   (whose dense tensor / canonical form are C04_tucker_normalize_entry / _canonical) *)
Theorem C04_tucker_normalize_method_consistent : forall (F : Type) (Op : fops F) tape (th : theap) cells o th' cells',
  ring_theory (f0 Op) (f1 Op) (fadd Op) (fmul Op) (fsub Op) (fopp Op) (@eq F) ->
  o < length cells -> tcell_wf th (tcellr cells o) -> tobj_consistent th cells o ->
  Forall2 (fun sc n => length sc = n) tape (shape (fst (tobj_read th cells o))) ->
  tucker_normalize_method_h Op tape th cells o = Ok (th', cells') ->
  tobj_consistent th' cells' o /\
  tobj_read th' cells' o = tucker_normalize Op tape (fst (tobj_read th cells o)) (snd (tobj_read th cells o)).
Proof. exact @tucker_normalize_method_consistent. Qed.
Print Assumptions C04_tucker_normalize_method_consistent.

(* obj.mode_dot(x, mode, keep_dim, copy): a new consistent object holding the pure model's answer; no array / core overwritten;
   copy=True: every existing object holds what it held; copy=False: the OPERAND object afterwards names its old core with the result's
   (popped / updated) factor list *)
Theorem C04_tucker_mode_dot_method_heap : forall (F : Type) (Op : fops F) (th : theap) cells o copy x mode kd th' cells' o',
  tcell_wf th (tcellr cells o) ->
  tucker_mode_dot_method_h Op th cells o copy x mode kd = Ok (th', cells', o') ->
  o' = length cells /\ cells' = cells ++ [tcellr cells' o'] /\
  tobj_consistent th' cells' o' /\
  tucker_mode_dot Op (fst (tobj_read th cells o)) (snd (tobj_read th cells o)) x mode kd = Ok (tobj_read th' cells' o') /\
  (exists a, t_arr th' = t_arr th ++ a) /\ (exists c, t_core th' = t_core th ++ c) /\
  (copy = true -> forall k, k < length cells -> tcell_wf th (tcellr cells k) -> tobj_read th' cells' k = tobj_read th cells k) /\
  (copy = false -> o < length cells -> tobj_read th' cells' o = (fst (tobj_read th cells o), snd (tobj_read th' cells' o'))).
Proof. exact @tucker_mode_dot_method_spec. Qed.
Print Assumptions C04_tucker_mode_dot_method_heap.

(* obj.normalize() end to end over R (square roots = data with their contract tk_norms_ok): the object stays consistent, every entry of the
   tensor it represents is unchanged, its factor columns have unit norm (tk_units: zero columns stay zero) *)
Theorem C04_tucker_normalize_method_entry_R : forall tape (th : theap (F:=R)) cells o th' cells',
  o < length cells -> tcell_wf th (tcellr cells o) -> tobj_consistent th cells o ->
  tk_norms_ok (shape (fst (tobj_read th cells o))) tape (snd (tobj_read th cells o)) ->
  tucker_normalize_method_h Rops tape th cells o = Ok (th', cells') ->
  tobj_consistent th' cells' o /\
  (forall idx, length idx = length (snd (tobj_read th cells o)) ->
     tucker_entry Rops (fst (tobj_read th' cells' o)) (snd (tobj_read th' cells' o)) idx =
     tucker_entry Rops (fst (tobj_read th cells o)) (snd (tobj_read th cells o)) idx) /\
  tk_units (shape (fst (tobj_read th cells o))) tape (snd (tobj_read th' cells' o)).
Proof. exact tucker_normalize_method_entry_R. Qed.
Print Assumptions C04_tucker_normalize_method_entry_R.

(* obj.tucker_copy(): nothing existing is touched; the copy is a new consistent object naming fresh locations only and holding what
   the original holds *)
Theorem C04_tucker_copy_heap : forall (F : Type) (th : theap (F:=F)) cells o th' cells' o',
  tucker_copy_h th cells o = Ok (th', cells', o') ->
  (exists a, t_arr th' = t_arr th ++ a) /\ (exists c, t_core th' = t_core th ++ c) /\ (exists l, t_lst th' = t_lst th ++ l) /\
  o' = length cells /\ cells' = cells ++ [tcellr cells' o'] /\ tobj_consistent th' cells' o' /\
  tobj_read th' cells' o' = tobj_read th cells o /\
  length (t_core th) <= tc_core (tcellr cells' o') /\ length (t_lst th) <= tc_fs (tcellr cells' o') /\
  (forall l, In l (tlst th' (tc_fs (tcellr cells' o'))) -> length (t_arr th) <= l).
Proof. exact @tucker_copy_spec. Qed.
Print Assumptions C04_tucker_copy_heap.

(* end to end at the level of objects, in every commutative ring: the object returned by obj.mode_dot represents the mode product of
   what the operand object represented (either copy flag, whatever the aliasing in the operand's list) and advertises its shape *)
Theorem C04_tucker_mode_dot_method_contract_entry : forall (F : Type) (Op : fops F), ring_theory (f0 Op) (f1 Op) (fadd Op) (fmul Op) (fsub Op) (fopp Op) (@eq F) ->
  forall (th : theap) cells o copy v mode th' cells' o' idx',
  tcell_wf th (tcellr cells o) ->
  tucker_mode_dot_method_h Op th cells o copy (OpVec v) mode false = Ok (th', cells', o') ->
  S (length idx') = length (snd (tobj_read th cells o)) ->
  tc_shape (tcellr cells' o') = remove_nth mode (cp_shape (snd (tobj_read th cells o))) /\
  tucker_entry Op (fst (tobj_read th' cells' o')) (snd (tobj_read th' cells' o')) idx' =
  sumn Op (length (nth mode (snd (tobj_read th cells o)) []))
       (fun i => fmul Op (vget Op v i) (tucker_entry Op (fst (tobj_read th cells o)) (snd (tobj_read th cells o)) (insert_at mode i idx'))).
Proof. exact @tucker_mode_dot_method_contract_entry. Qed.
Print Assumptions C04_tucker_mode_dot_method_contract_entry.

Theorem C04_tucker_mode_dot_method_matrix_entry : forall (F : Type) (Op : fops F), ring_theory (f0 Op) (f1 Op) (fadd Op) (fmul Op) (fsub Op) (fopp Op) (@eq F) ->
  forall (th : theap) cells o copy M kd mode th' cells' o' idx j,
  tcell_wf th (tcellr cells o) ->
  tucker_mode_dot_method_h Op th cells o copy (OpMat M) mode kd = Ok (th', cells', o') ->
  length idx = length (snd (tobj_read th cells o)) -> j < length M ->
  tc_shape (tcellr cells' o') = set_nth mode (length M) (cp_shape (snd (tobj_read th cells o))) /\
  tucker_entry Op (fst (tobj_read th' cells' o')) (snd (tobj_read th' cells' o')) (set_nth mode j idx) =
  sumn Op (length (nth mode (snd (tobj_read th cells o)) []))
       (fun i => fmul Op (mget Op M j i) (tucker_entry Op (fst (tobj_read th cells o)) (snd (tobj_read th cells o)) (set_nth mode i idx))).
Proof. exact @tucker_mode_dot_method_matrix_entry. Qed.
Print Assumptions C04_tucker_mode_dot_method_matrix_entry.

(* obj[1] = <list at location fl'>: the object names the new list and keeps its OLD shape / rank attributes, no other cell changes; it is
   consistent afterwards exactly when the new contents are a valid Tucker tensor with the old mode sizes and ranks *)
Theorem C04_tucker_setitem_factors : forall (F : Type) (th : theap (F:=F)) cells o fl' cells',
  o < length cells -> tucker_setitem_h cells o 1 fl' = Ok cells' ->
  length cells' = length cells /\ (forall k, k <> o -> tcellr cells' k = tcellr cells k) /\
  tc_shape (tcellr cells' o) = tc_shape (tcellr cells o) /\ tc_rank (tcellr cells' o) = tc_rank (tcellr cells o) /\
  tobj_read th cells' o = tread th (tc_core (tcellr cells o)) fl' /\
  (tobj_consistent th cells' o <->
   let '(c, fs) := tread th (tc_core (tcellr cells o)) fl' in
   tucker_okb c fs = true /\ tc_shape (tcellr cells o) = cp_shape fs /\ tc_rank (tcellr cells o) = map (fun A => ncols A) fs).
Proof. exact @tucker_setitem_factors_spec. Qed.
Print Assumptions C04_tucker_setitem_factors.

(* the in-place contraction consumes its operand: afterwards the operand object is not a valid Tucker tensor (its old core has one mode
   more than the popped list has factors), whatever its cached shape says *)
Theorem C04_tucker_mode_dot_inplace_consumes_operand : forall (F : Type) (Op : fops F) (th : theap) cells o v mode th' cells' o',
  o < length cells -> tcell_wf th (tcellr cells o) -> tobj_consistent th cells o ->
  tucker_mode_dot_method_h Op th cells o false (OpVec v) mode false = Ok (th', cells', o') ->
  ~ tobj_consistent th' cells' o.
Proof. exact @tucker_mode_dot_inplace_consumes. Qed.
Print Assumptions C04_tucker_mode_dot_inplace_consumes_operand.

Example C04_round7_objects_nonvacuous :
  let core := mk [2; 2; 2] [1; 2; 3; 4; 5; 6; 7; 8]%Z in let A := [[1; 0]; [2; 1]]%Z in let B := [[1; 1]]%Z in
  let th := mk_theap [core] [A; B] [[0; 1; 0]] in
  exists cells, tucker_new_h th [] 0 0 = Ok (cells, 0) /\ tcell_wf th (tcellr cells 0) /\ tobj_consistent th cells 0 /\
    (exists th' cells' o', tucker_mode_dot_method_h Zops th cells 0 false (OpVec [1; 1]%Z) 0 false = Ok (th', cells', o') /\
       tc_shape (tcellr cells' o') = [1; 2] /\ tc_shape (tcellr cells' 0) = [2; 1; 2] /\ length (snd (tobj_read th' cells' 0)) = 2) /\
    (exists th' cells' o', tucker_mode_dot_method_h Zops th cells 0 true (OpVec [1; 1]%Z) 0 false = Ok (th', cells', o') /\
       tobj_read th' cells' 0 = tobj_read th cells 0) /\
    (exists th' cells', tucker_normalize_method_h Zops [[1; 1]; [1; 1]; [1; 1]]%Z th cells 0 = Ok (th', cells') /\
       tc_core (tcellr cells' 0) = 1 /\ tlst th' (tc_fs (tcellr cells' 0)) = [2; 3; 4] /\ tobj_read th' cells' 0 = tobj_read th cells 0).
Proof.
  cbv zeta. eexists. split; [vm_compute; reflexivity|]. split.
  - unfold tcell_wf, twf. simpl. repeat split; try lia; try (intros l [<-|[<-|[<-|[]]]]; lia).
  - split; [vm_compute; auto|]. split; [do 3 eexists; split; [vm_compute; reflexivity|repeat split; vm_compute; reflexivity]|].
    split; [do 3 eexists; split; vm_compute; reflexivity|]. do 2 eexists. split; [vm_compute; reflexivity|]. repeat split; vm_compute; reflexivity.
Qed.


(* ================================================================== round 8 *)
(* --- LOSSY compression (svd_compress_tensor_slices with a threshold that drops singular values; (U, s, Vh) is the SVD answer as data,
   its contract X = U diag(s) Vh the hypothesis on the entry): the data is loading x score PLUS the dropped tail of the singular expansion,
   whatever count_kept dropped; no hypothesis that everything is kept (compare C04_svd_compress_slice) *)
Theorem C04_svd_compress_lossy : forall (F : Type) (Op : fops F), ring_theory (f0 Op) (f1 Op) (fadd Op) (fmul Op) (fsub Op) (fopp Op) (@eq F) ->
  forall (rl : nat) (thr : F) (X U : mat F) (s : list F) (Vh score Lm : mat F) (j k : nat),
  compress_slice Op rl thr X (U, s, Vh) = (score, Some Lm) -> length Vh = length s ->
  j < length U -> k < ncols score ->
  mget Op X j k = sumn Op (length s) (fun t => fmul Op (mget Op U j t) (fmul Op (vget Op s t) (mget Op Vh t k))) ->
  mget Op X j k = fadd Op (mget Op (matmul Op Lm score) j k) (sumn Op (length s - count_kept Op thr s) (fun t => fmul Op (mget Op U j (count_kept Op thr s + t)) (fmul Op (vget Op s (count_kept Op thr s + t)) (mget Op Vh (count_kept Op thr s + t) k)))).
Proof. exact @compress_slice_lossy. Qed.
Print Assumptions C04_svd_compress_lossy.

(* hence exact when every dropped singular value is zero (rank-deficient data, any threshold) *)
Theorem C04_svd_compress_tail_zero : forall (F : Type) (Op : fops F), ring_theory (f0 Op) (f1 Op) (fadd Op) (fmul Op) (fsub Op) (fopp Op) (@eq F) ->
  forall (rl : nat) (thr : F) (X U : mat F) (s : list F) (Vh score Lm : mat F) (j k : nat),
  compress_slice Op rl thr X (U, s, Vh) = (score, Some Lm) -> length Vh = length s ->
  j < length U -> k < ncols score ->
  mget Op X j k = sumn Op (length s) (fun t => fmul Op (mget Op U j t) (fmul Op (vget Op s t) (mget Op Vh t k))) ->
  (forall t, count_kept Op thr s <= t -> t < length s -> vget Op s t = f0 Op) ->
  mget Op (matmul Op Lm score) j k = mget Op X j k.
Proof. exact @compress_slice_tail_zero. Qed.
Print Assumptions C04_svd_compress_tail_zero.

(* with orthonormal left singular vectors (row a of U^T U is row a of the identity) the score is the coordinate matrix loading^T x data:
   loading x score is the orthogonal projection of the data onto the kept vectors *)
Theorem C04_svd_compress_score_coordinates : forall (F : Type) (Op : fops F), ring_theory (f0 Op) (f1 Op) (fadd Op) (fmul Op) (fsub Op) (fopp Op) (@eq F) ->
  forall (rl : nat) (thr : F) (X U : mat F) (s : list F) (Vh score Lm : mat F) (a k : nat),
  compress_slice Op rl thr X (U, s, Vh) = (score, Some Lm) -> length Vh = length s ->
  (forall b, b < length s -> gram Op U a b = if Nat.eqb a b then f1 Op else f0 Op) ->
  (forall j, j < length U -> mget Op X j k = sumn Op (length s) (fun t => fmul Op (mget Op U j t) (fmul Op (vget Op s t) (mget Op Vh t k)))) ->
  a < count_kept Op thr s ->
  sumn Op (length U) (fun j => fmul Op (mget Op Lm j a) (mget Op X j k)) = mget Op score a k.
Proof. exact @compress_score_coordinates. Qed.
Print Assumptions C04_svd_compress_score_coordinates.

(* and what the compression discards is orthogonal to every kept left singular vector *)
Theorem C04_svd_compress_residual_orthogonal : forall (F : Type) (Op : fops F), ring_theory (f0 Op) (f1 Op) (fadd Op) (fmul Op) (fsub Op) (fopp Op) (@eq F) ->
  forall (rl : nat) (thr : F) (X U : mat F) (s : list F) (Vh score Lm : mat F) (a k : nat),
  compress_slice Op rl thr X (U, s, Vh) = (score, Some Lm) -> length Vh = length s -> k < ncols score ->
  (forall b, b < length s -> gram Op U a b = if Nat.eqb a b then f1 Op else f0 Op) ->
  (forall j, j < length U -> mget Op X j k = sumn Op (length s) (fun t => fmul Op (mget Op U j t) (fmul Op (vget Op s t) (mget Op Vh t k)))) ->
  a < count_kept Op thr s ->
  sumn Op (length U) (fun j => fmul Op (mget Op Lm j a) (fsub Op (mget Op X j k) (mget Op (matmul Op Lm score) j k))) = f0 Op.
Proof. exact @compress_residual_orthogonal. Qed.
Print Assumptions C04_svd_compress_residual_orthogonal.

(* compress with loss, fit the scores exactly, decompress: slice i of the decompressed tensor is the data minus the dropped tail *)
Theorem C04_svd_compress_decompress_lossy : forall (F : Type) (Op : fops F), ring_theory (f0 Op) (f1 Op) (fadd Op) (fmul Op) (fsub Op) (fopp Op) (@eq F) ->
  forall (rl : nat) (thr : F) (X U : mat F) (s : list F) (Vh score Lm : mat F) (w : list F) (A B C : mat F) (Ps : list (mat F))
    (Ls : list (option (mat F))) w' A' B' C' Ps' (i j k : nat),
  compress_slice Op rl thr X (U, s, Vh) = (score, Some Lm) -> length Vh = length s ->
  mget Op X j k = sumn Op (length s) (fun t => fmul Op (mget Op U j t) (fmul Op (vget Op s t) (mget Op Vh t k))) ->
  svd_decompress Op w A B C Ps Ls = Ok (w', [A'; B'; C'], Ps') -> i < length Ps -> nth i Ls None = Some Lm ->
  length (nth i Ps []) = length score -> length B <= ncols (nth i Ps []) ->
  (forall t, t < length score -> pf2_entry Op w A B C Ps i t k = mget Op score t k) ->
  j < length U -> k < ncols score ->
  mget Op X j k = fadd Op (pf2_entry Op w' A' B' C' Ps' i j k) (sumn Op (length s - count_kept Op thr s) (fun t => fmul Op (mget Op U j (count_kept Op thr s + t)) (fmul Op (vget Op s (count_kept Op thr s + t)) (mget Op Vh (count_kept Op thr s + t) k)))).
Proof. exact @compress_decompress_lossy. Qed.
Print Assumptions C04_svd_compress_decompress_lossy.

(* non-vacuity: a threshold that really drops a singular value (num = 1 of 2); entry (1,1) of the data is the dropped tail *)
Example C04_lossy_nonvacuous :
  let X := [[2; 0]; [0; 1]]%Z in let U := [[1; 0]; [0; 1]]%Z in let s := [2; 1]%Z in
  exists score Lm, compress_slice Zops 2 1%Z X (U, s, U) = (score, Some Lm) /\ count_kept Zops 1%Z s = 1 /\ length U = length s /\
    (forall a b, a < 2 -> b < 2 -> gram Zops U a b = if Nat.eqb a b then 1%Z else 0%Z) /\
    (forall j k, j < 2 -> k < 2 -> mget Zops X j k = sumn Zops 2 (fun t => (mget Zops U j t * (vget Zops s t * mget Zops U t k))%Z)) /\
    mget Zops (matmul Zops Lm score) 1 1 = 0%Z /\ mget Zops X 1 1 = 1%Z.
Proof.
  cbv zeta. do 2 eexists. split; [vm_compute; reflexivity|]. split; [reflexivity|]. split; [reflexivity|]. split.
  - intros [|[|a]] [|[|b]] Ha Hb; try lia; reflexivity.
  - split; [intros [|[|j]] [|[|k]] Hj Hk; try lia; reflexivity|]. split; reflexivity.
Qed.

(* --- TuckerTensor item access / assignment for every index (Model/TransformsTkObj8.v) *)
(* obj[0] = <core at location cl'>: the object names the new core, keeps its OLD shape / rank attributes and its factor list; no other cell
   changes; consistent afterwards exactly when the new core with the old factors is a valid Tucker tensor of the old mode sizes and ranks *)
Theorem C04_tucker_setitem_core : forall (F : Type) (th : theap (F:=F)) cells o cl' cells',
  o < length cells -> tucker_setitem_h cells o 0 cl' = Ok cells' ->
  length cells' = length cells /\ (forall k, k <> o -> tcellr cells' k = tcellr cells k) /\
  tc_shape (tcellr cells' o) = tc_shape (tcellr cells o) /\ tc_rank (tcellr cells' o) = tc_rank (tcellr cells o) /\
  tc_fs (tcellr cells' o) = tc_fs (tcellr cells o) /\
  tobj_read th cells' o = tread th cl' (tc_fs (tcellr cells o)) /\
  (tobj_consistent th cells' o <->
   let '(c, fs) := tread th cl' (tc_fs (tcellr cells o)) in
   tucker_okb c fs = true /\ tc_shape (tcellr cells o) = cp_shape fs /\ tc_rank (tcellr cells o) = map (fun A => ncols A) fs).
Proof. exact @tucker_setitem_core_spec. Qed.
Print Assumptions C04_tucker_setitem_core.

(* a well-formed core of the same shape keeps a consistent object consistent *)
Theorem C04_tucker_setitem_core_same_shape : forall (F : Type) (th : theap (F:=F)) cells o cl' cells',
  o < length cells -> tucker_setitem_h cells o 0 cl' = Ok cells' -> tobj_consistent th cells o ->
  wfb (tcore th cl') = true -> shape (tcore th cl') = shape (tcore th (tc_core (tcellr cells o))) ->
  tobj_consistent th cells' o.
Proof. exact @tucker_setitem_core_same_shape. Qed.
Print Assumptions C04_tucker_setitem_core_same_shape.

(* only the indices 0 and 1 exist *)
Theorem C04_tucker_item_index_error : forall cells o idx loc, 2 <= idx ->
  tucker_setitem_h cells o idx loc = Err /\ tucker_getitem_h cells o idx = Err.
Proof. exact tucker_item_index_error. Qed.
Print Assumptions C04_tucker_item_index_error.

(* item access reads what item assignment wrote; the other item, every other object and the unpacking order agree *)
Theorem C04_tucker_getitem_setitem : forall cells o idx loc cells',
  o < length cells -> tucker_setitem_h cells o idx loc = Ok cells' ->
  tucker_getitem_h cells' o idx = Ok loc /\
  (forall idx', idx' <> idx -> tucker_getitem_h cells' o idx' = tucker_getitem_h cells o idx') /\
  (forall o' idx', o' <> o -> tucker_getitem_h cells' o' idx' = tucker_getitem_h cells o' idx') /\
  tucker_iter_h cells' o = (if Nat.eqb idx 0 then [loc; tc_fs (tcellr cells o)] else [tc_core (tcellr cells o); loc]).
Proof. exact tucker_getitem_setitem. Qed.
Print Assumptions C04_tucker_getitem_setitem.

Example C04_round8_setitem_nonvacuous :
  let core := mk [2; 1] [1; 2]%Z in let core2 := mk [2; 1] [5; 7]%Z in let A := [[1; 0]; [2; 1]]%Z in let B := [[3]]%Z in
  let th := mk_theap [core; core2] [A; B] [[0; 1]] in
  exists cells cells', tucker_new_h th [] 0 0 = Ok (cells, 0) /\ tobj_consistent th cells 0 /\
    tucker_setitem_h cells 0 0 1 = Ok cells' /\ tobj_consistent th cells' 0 /\ fst (tobj_read th cells' 0) = core2 /\
    tucker_getitem_h cells' 0 0 = Ok 1 /\ tucker_getitem_h cells' 0 1 = Ok 0.
Proof.
  cbv zeta. do 2 eexists. split; [vm_compute; reflexivity|]. split; [vm_compute; auto|]. split; [vm_compute; reflexivity|].
  split; [vm_compute; auto|]. repeat split; vm_compute; reflexivity.
Qed.

(* --- Parafac2Tensor OBJECTS as heap cells (Model/TransformsPfObj.v): svd_decompress_parafac2_tensor on an object operand, for every heap,
   every aliasing pattern of the projection list and any entry test `close` of the validator: the weights and factor tables are not
   touched, the projection tables only grow, no existing cell changes and every existing object holds what it held; the result is a new
   consistent object that names the operand's own weights array and factor tuple, a NEW projection list, and holds the pure answer *)
Theorem C04_svd_decompress_object_heap : forall (F : Type) (Op : fops F) (close : F -> F -> bool) (h : poheap (F:=F)) cells o Ls h' cells' o',
  o < length cells -> pcell_wf h (pcellr cells o) ->
  svd_decompress_obj_h Op close h cells o Ls = Ok (h', cells', o') ->
  po_w h' = po_w h /\ po_fs h' = po_fs h /\
  (exists a, p_arr (po_ph h') = p_arr (po_ph h) ++ a) /\ (exists ls, p_lst (po_ph h') = p_lst (po_ph h) ++ [ls]) /\
  o' = length cells /\ (forall k, k < length cells -> pcellr cells' k = pcellr cells k) /\
  (forall k, k < length cells -> pcell_wf h (pcellr cells k) -> pobj_read h' cells' k = pobj_read h cells k) /\
  pc_w (pcellr cells' o') = pc_w (pcellr cells o) /\ pc_fs (pcellr cells' o') = pc_fs (pcellr cells o) /\
  pc_ps (pcellr cells' o') = length (p_lst (po_ph h)) /\
  (let '(w, fs, Ps) := pobj_read h cells o in pobj_read h' cells' o' = (w, fs, decompress_projs Op Ps Ls)) /\
  pobj_consistent Op close h' cells' o'.
Proof. exact @svd_decompress_obj_spec. Qed.
Print Assumptions C04_svd_decompress_object_heap.

(* and it agrees with the value-level entry point svd_decompress_api (Model/TransformsApi.v) on what the result holds and caches *)
Theorem C04_svd_decompress_object_api : forall (F : Type) (Op : fops F) (close : F -> F -> bool) (h : poheap (F:=F)) cells o Ls h' cells' o',
  o < length cells -> pcell_wf h (pcellr cells o) ->
  svd_decompress_obj_h Op close h cells o Ls = Ok (h', cells', o') ->
  let '(w, fs, Ps) := pobj_read h cells o in
  svd_decompress_api Op close (Pf2Tuple (Some w) fs Ps) Ls =
    Ok (let '(w', fs', Ps') := pobj_read h' cells' o' in mk_pf2obj (pc_shape (pcellr cells' o')) (pc_rank (pcellr cells' o')) w' fs' Ps').
Proof. exact @svd_decompress_obj_api. Qed.
Print Assumptions C04_svd_decompress_object_api.

Example C04_round8_pf2_object_nonvacuous :
  let P := [[1]; [0]]%Z in let L := [[0; 1]; [1; 0]; [0; 0]]%Z in
  let h := mk_poheap [[2]%Z] [[[[1]; [3]]; [[2]]; [[1]; [1]]]%Z] (mk_pheap [P] [[0; 0]]) in
  exists cells h' cells' o', pf2_new_h Zops Z.eqb h [] 0 0 0 = Ok (cells, 0) /\ pcell_wf h (pcellr cells 0) /\ pobj_consistent Zops Z.eqb h cells 0 /\
    svd_decompress_obj_h Zops Z.eqb h cells 0 [Some L; None] = Ok (h', cells', o') /\
    pc_shape (pcellr cells' o') = [[3; 2]; [2; 2]] /\ pc_ps (pcellr cells' o') = 1 /\ plst (po_ph h') 1 = [1; 0] /\
    snd (pobj_read h' cells' o') = [[[0]; [1]; [0]]; P]%Z.
Proof.
  cbv zeta. do 4 eexists. split; [vm_compute; reflexivity|]. split.
  - unfold pcell_wf. simpl. split; [lia|]. intros l [<-|[<-|[]]]; lia.
  - split; [vm_compute; auto|]. split; [vm_compute; reflexivity|]. repeat split; vm_compute; reflexivity.
Qed.

(* --- how much lossy compression discards: with orthonormal left AND right singular vectors (U^T U = I, Vh Vh^T = I on the K data columns)
   the sum of squares of the discarded part X - loading x score is the sum of squares of the dropped singular values *)
Theorem C04_svd_compress_residual_energy : forall (F : Type) (Op : fops F), ring_theory (f0 Op) (f1 Op) (fadd Op) (fmul Op) (fsub Op) (fopp Op) (@eq F) ->
  forall (rl : nat) (thr : F) (X U : mat F) (s : list F) (Vh score Lm : mat F) (K : nat),
  compress_slice Op rl thr X (U, s, Vh) = (score, Some Lm) -> length Vh = length s -> K <= ncols score ->
  (forall a b, a < length s -> b < length s -> gram Op U a b = if Nat.eqb a b then f1 Op else f0 Op) ->
  (forall a b, a < length s -> b < length s -> sumn Op K (fun k => fmul Op (mget Op Vh a k) (mget Op Vh b k)) = if Nat.eqb a b then f1 Op else f0 Op) ->
  (forall j k, j < length U -> k < K -> mget Op X j k = sumn Op (length s) (fun t => fmul Op (mget Op U j t) (fmul Op (vget Op s t) (mget Op Vh t k)))) ->
  sumn Op (length U) (fun j => sumn Op K (fun k =>
     fmul Op (fsub Op (mget Op X j k) (mget Op (matmul Op Lm score) j k)) (fsub Op (mget Op X j k) (mget Op (matmul Op Lm score) j k))))
  = sumn Op (length s - count_kept Op thr s) (fun t => fmul Op (vget Op s (count_kept Op thr s + t)) (vget Op s (count_kept Op thr s + t))).
Proof. exact @compress_residual_energy. Qed.
Print Assumptions C04_svd_compress_residual_energy.

(* non-vacuity: the data of C04_lossy_nonvacuous (U = Vh = I, s = [2; 1], threshold 1 keeps one value): the discarded energy is 1 = 1^2 *)
Example C04_residual_energy_nonvacuous :
  let X := [[2; 0]; [0; 1]]%Z in let U := [[1; 0]; [0; 1]]%Z in let s := [2; 1]%Z in
  exists score Lm, compress_slice Zops 2 1%Z X (U, s, U) = (score, Some Lm) /\ ncols score = 2 /\
    (forall a b, a < 2 -> b < 2 -> gram Zops U a b = if Nat.eqb a b then 1%Z else 0%Z) /\
    (forall a b, a < 2 -> b < 2 -> sumn Zops 2 (fun k => (mget Zops U a k * mget Zops U b k)%Z) = if Nat.eqb a b then 1%Z else 0%Z) /\
    sumn Zops 2 (fun j => sumn Zops 2 (fun k => ((mget Zops X j k - mget Zops (matmul Zops Lm score) j k) * (mget Zops X j k - mget Zops (matmul Zops Lm score) j k))%Z)) = 1%Z.
Proof.
  cbv zeta. do 2 eexists. split; [vm_compute; reflexivity|]. split; [reflexivity|]. split.
  - intros [|[|a]] [|[|b]] Ha Hb; try lia; reflexivity.
  - split; [intros [|[|a]] [|[|b]] Ha Hb; try lia; reflexivity|reflexivity].
Qed.
