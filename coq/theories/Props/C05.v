(* C05 -- property theorems only.  Statements are about the model of tensorly/tenalg/svd.py (Model/Svd.v).
   LAPACK's svd is an arbitrary function `oracle` constrained only by the contract hypotheses
   (shape_contract / svd_contract); matrices over R are lists of rows read through mget Rops. *)
From Coq Require Import List Arith Bool Reals.
From TLV Require Import Base.Ops Base.Tensor Base.RSum Model.Svd Proofs.SvdProofsAux Proofs.SvdProofs.
Import ListNotations.
Local Open Scope nat_scope.

(* --- n_eigenvecs clamping and output shapes: every matrix shape, every request (None, 0, > max(shape)) --- *)
Theorem C05_svd_checks_clamp : forall d1 d2 n,
  let '(k, mn, mx) := svd_checks d1 d2 n in
  mn = Nat.min d1 d2 /\ mx = Nat.max d1 d2 /\ k <= mx /\
  (n = None -> k = mx) /\ (forall r, n = Some r -> k = Nat.min r mx).
Proof. exact svd_checks_spec. Qed.
Print Assumptions C05_svd_checks_clamp.

Theorem C05_truncated_shapes : forall (A : Type) (oracle : bool -> triple A) (d1 d2 : nat) (n : option nat),
  (forall f, shape_contract d1 d2 f (oracle f)) ->
  let k := n_kept d1 d2 n in
  shape3 (truncated_svd oracle d1 d2 n) d1 (Nat.min k d1) (Nat.min k (Nat.min d1 d2)) (Nat.min k d2) d2.
Proof. exact truncated_shapes. Qed.
Print Assumptions C05_truncated_shapes.

Theorem C05_truncated_shapes_documented : forall (A : Type) (oracle : bool -> triple A) (d1 d2 r : nat),
  (forall f, shape_contract d1 d2 f (oracle f)) -> r <= Nat.min d1 d2 ->
  shape3 (truncated_svd oracle d1 d2 (Some r)) d1 r r r d2.
Proof. exact truncated_shapes_documented. Qed.
Print Assumptions C05_truncated_shapes_documented.

Theorem C05_truncated_shapes_beyond : forall (A : Type) (oracle : bool -> triple A) (d1 d2 : nat) (n : option nat),
  (forall f, shape_contract d1 d2 f (oracle f)) ->
  (n = None \/ exists r, n = Some r /\ Nat.max d1 d2 <= r) ->
  shape3 (truncated_svd oracle d1 d2 n) d1 d1 (Nat.min d1 d2) d2 d2.
Proof. exact truncated_shapes_beyond. Qed.
Print Assumptions C05_truncated_shapes_beyond.

(* --- returned S: a prefix of the oracle's S, hence non-negative and non-increasing --- *)
Theorem C05_truncated_S_prefix : forall (A : Type) (oracle : bool -> triple A) (d1 d2 : nat) (n : option nat),
  snd (fst (truncated_svd oracle d1 d2 n)) = firstn (n_kept d1 d2 n) (snd (fst (oracle (full_flag d1 d2 n)))).
Proof. exact truncated_S_prefix. Qed.
Print Assumptions C05_truncated_S_prefix.

Theorem C05_truncated_S_ordered : forall (oracle : bool -> triple R) (d1 d2 : nat) (n : option nat),
  (forall f, nonneg_list (snd (fst (oracle f))) /\ nonincreasing (snd (fst (oracle f)))) ->
  let Sg := snd (fst (truncated_svd oracle d1 d2 n)) in
  nonneg_list Sg /\ nonincreasing Sg /\
  (forall i, i < length Sg -> nth i Sg 0%R = nth i (snd (fst (oracle (full_flag d1 d2 n)))) 0%R).
Proof. exact truncated_S_ordered. Qed.
Print Assumptions C05_truncated_S_ordered.

(* --- a sub-selection of an orthonormal family is orthonormal; the returned factors are orthonormal --- *)
Theorem C05_slice_orthonormal_cols : forall (m c k : nat) (U : list (list R)),
  orthonormal_cols m c (mget Rops U) -> orthonormal_cols m (Nat.min k c) (mget Rops (map (firstn k) U)).
Proof. exact slice_orthonormal_cols. Qed.
Print Assumptions C05_slice_orthonormal_cols.

Theorem C05_slice_orthonormal_rows : forall (r n k : nat) (V : list (list R)),
  orthonormal_rows r n (mget Rops V) -> orthonormal_rows (Nat.min k r) n (mget Rops (firstn k V)).
Proof. exact slice_orthonormal_rows. Qed.
Print Assumptions C05_slice_orthonormal_rows.

Theorem C05_truncated_orthonormal : forall (oracle : bool -> triple R) (d1 d2 : nat) (M : nat -> nat -> R) (n : option nat),
  (forall f, svd_contract d1 d2 M f (oracle f)) ->
  let k := n_kept d1 d2 n in
  let '(U, Sg, V) := truncated_svd oracle d1 d2 n in
  orthonormal_cols d1 (Nat.min k d1) (mget Rops U) /\ orthonormal_rows (Nat.min k d2) d2 (mget Rops V).
Proof. exact truncated_orthonormal. Qed.
Print Assumptions C05_truncated_orthonormal.

(* --- ||M - U_k diag(S_k) V_k||_F^2 = sum of the squared discarded singular values --- *)
Theorem C05_truncated_error : forall (oracle : bool -> triple R) (d1 d2 : nat) (M : nat -> nat -> R) (n : option nat),
  (forall f, svd_contract d1 d2 M f (oracle f)) ->
  let k := n_kept d1 d2 n in
  let mn := Nat.min d1 d2 in
  let '(U, Sg, V) := truncated_svd oracle d1 d2 n in
  rsum d1 (fun i => rsum d2 (fun j => ((M i j - recon U Sg V i j)^2)%R))
  = rsum (mn - k) (fun t => ((nth (k + t) (snd (fst (oracle (full_flag d1 d2 n)))) 0)^2)%R).
Proof. exact truncated_error. Qed.
Print Assumptions C05_truncated_error.

(* --- svd_flip: product unchanged, sign convention, orthonormality kept --- *)
Theorem C05_flip_product : forall (U V : list (list R)) (ub : bool) (U' V' : list (list R)) (s : nat -> R) (p : nat),
  svd_flip Rops U V ub = (U', V') -> p <= ncols U -> p <= length V -> decisive U V ub p ->
  forall i j, rsum p (fun t => (mget Rops U' i t * s t * mget Rops V' t j)%R)
            = rsum p (fun t => (mget Rops U i t * s t * mget Rops V t j)%R).
Proof. exact flip_product. Qed.
Print Assumptions C05_flip_product.

Theorem C05_flip_u_sign : forall (U V U' V' : list (list R)) (t : nat),
  svd_flip Rops U V true = (U', V') -> U <> [] -> t < ncols U ->
  exists imax, imax < length U /\ mget Rops U' imax t = Rabs (mget Rops U imax t) /\
    (forall i, (Rabs (mget Rops U i t) <= Rabs (mget Rops U imax t))%R) /\
    (forall i, (Rabs (mget Rops U' i t) <= mget Rops U' imax t)%R).
Proof. exact flip_u_sign. Qed.
Print Assumptions C05_flip_u_sign.

Theorem C05_flip_v_sign : forall (U V U' V' : list (list R)) (t : nat),
  svd_flip Rops U V false = (U', V') -> t < length V -> nth t V [] <> [] ->
  exists jmax, mget Rops V' t jmax = Rabs (mget Rops V t jmax) /\
    (forall j, (Rabs (mget Rops V t j) <= Rabs (mget Rops V t jmax))%R) /\
    (forall j, (Rabs (mget Rops V' t j) <= mget Rops V' t jmax)%R).
Proof. exact flip_v_sign. Qed.
Print Assumptions C05_flip_v_sign.

Theorem C05_flip_orthonormal : forall (U V : list (list R)) (ub : bool) (U' V' : list (list R)) (n : nat),
  svd_flip Rops U V ub = (U', V') -> ncols U = length V ->
  orthonormal_cols (length U) (ncols U) (mget Rops U) -> orthonormal_rows (length V) n (mget Rops V) ->
  orthonormal_cols (length U) (ncols U) (mget Rops U') /\ orthonormal_rows (length V) n (mget Rops V').
Proof. exact flip_orthonormal. Qed.
Print Assumptions C05_flip_orthonormal.
